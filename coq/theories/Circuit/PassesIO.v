(* PassesIO.v — the passes never touch cc.InputWires / cc.OutputWires and only
   allocate new wires (property C09, side conditions of the pipeline theorem). *)
From Coq Require Import List Bool Arith Lia.
From Mpc Require Import Circuit.Circuit Circuit.Passes Circuit.PassesProof Circuit.PassesBFS.
Import ListNotations.

Definition io_same (G G' : graph) : Prop :=
  gins G' = gins G /\ gouts G' = gouts G /\ gnw G <= gnw G'.

Lemma io_refl G : io_same G G.
Proof. repeat split; auto. Qed.

Lemma io_trans G1 G2 G3 : io_same G1 G2 -> io_same G2 G3 -> io_same G1 G3.
Proof. intros (a & b & c) (d & e & f). repeat split; try congruence; lia. Qed.

Ltac io_basic := unfold io_same; simpl; repeat split; auto; lia.

Lemma io_set_w G w r : io_same G (set_w G w r). Proof. io_basic. Qed.
Lemma io_set_n G i n : io_same G (set_n G i n). Proof. io_basic. Qed.
Lemma io_set_err G e : io_same G (set_err G e). Proof. io_basic. Qed.
Lemma io_set_order G o : io_same G (set_order G o). Proof. io_basic. Qed.
Lemma io_set_consts G a b c : io_same G (set_consts G a b c). Proof. io_basic. Qed.
Lemma io_new_wire G : io_same G (fst (new_wire G)). Proof. io_basic. Qed.
Lemma io_alloc_node G n : io_same G (fst (alloc_node G n)). Proof. io_basic. Qed.

Lemma io_set_value G w v : io_same G (set_value G w v). Proof. apply io_set_w. Qed.
Lemma io_add_output G w g : io_same G (add_output G w g). Proof. apply io_set_w. Qed.
Lemma io_disconnect G w : io_same G (disconnect_outputs G w). Proof. apply io_set_w. Qed.
Lemma io_remove_output G w : io_same G (remove_output G w).
Proof. unfold remove_output. destruct (wnum _); [apply io_set_err|apply io_set_w]. Qed.
Lemma io_set_input G w g : io_same G (set_input G w g).
Proof. unfold set_input. destruct (winp _); [apply io_set_err|apply io_set_w]. Qed.

Lemma io_add_binary_gate G o a b out : io_same G (add_binary_gate G o a b out).
Proof.
  unfold add_binary_gate. simpl.
  eapply io_trans; [|apply io_set_order].
  eapply io_trans; [|apply io_set_input].
  eapply io_trans; [|apply io_add_output].
  eapply io_trans; [|apply io_add_output].
  apply (io_alloc_node G (mkN o a b out false false 0)).
Qed.

Lemma io_add_inv_gate G a out : io_same G (add_inv_gate G a out).
Proof.
  unfold add_inv_gate. simpl.
  eapply io_trans; [|apply io_set_order].
  eapply io_trans; [|apply io_set_input].
  eapply io_trans; [|apply io_add_output].
  apply (io_alloc_node G (mkN INV a 0 out false false 0)).
Qed.

Lemma io_inv_i0_wire G : io_same G (fst (inv_i0_wire G)).
Proof.
  unfold inv_i0_wire. destruct (ginv G); simpl; [apply io_refl|].
  eapply io_trans; [|apply io_add_inv_gate].
  eapply io_trans; [apply (io_new_wire G)|apply io_set_consts].
Qed.

Lemma io_zero_wire G : io_same G (fst (zero_wire G)).
Proof.
  unfold zero_wire. destruct (gzero G); simpl; [apply io_refl|].
  set (G2 := set_consts _ _ _ _).
  pose proof (io_inv_i0_wire G2) as H. destruct (inv_i0_wire G2) as [G3 i]. simpl in *.
  eapply io_trans; [|apply io_set_value].
  eapply io_trans; [|apply io_add_binary_gate].
  eapply io_trans; [|exact H].
  eapply io_trans; [apply (io_new_wire G)|apply io_set_consts].
Qed.

Lemma io_one_wire G : io_same G (fst (one_wire G)).
Proof.
  unfold one_wire. destruct (gone G); simpl; [apply io_refl|].
  set (G2 := set_consts _ _ _ _).
  pose proof (io_inv_i0_wire G2) as H. destruct (inv_i0_wire G2) as [G3 i]. simpl in *.
  eapply io_trans; [|apply io_set_value].
  eapply io_trans; [|apply io_add_binary_gate].
  eapply io_trans; [|exact H].
  eapply io_trans; [apply (io_new_wire G)|apply io_set_consts].
Qed.

Lemma io_replace_input G c from to : io_same G (replace_input G c from to).
Proof.
  unfold replace_input.
  assert (H : io_same G (add_output (remove_output G from) to c)).
  { eapply io_trans; [apply io_remove_output|apply io_add_output]. }
  destruct (Nat.eqb _ _); [eapply io_trans; [exact H|apply io_set_n]|].
  destruct (_ && _); [eapply io_trans; [exact H|apply io_set_n]|apply io_set_err].
Qed.

Lemma io_fold {A} (f : graph -> A -> graph) l :
  (forall G a, io_same G (f G a)) -> forall G, io_same G (fold_left f l G).
Proof.
  intros H. induction l as [|a l IH]; intros G; simpl; [apply io_refl|].
  eapply io_trans; [apply H|apply IH].
Qed.

Lemma io_short_circuit G gid o : io_same G (short_circuit G gid o).
Proof.
  unfold short_circuit. destruct (wout _); [apply io_refl|].
  eapply io_trans; [|apply io_disconnect].
  apply io_fold. intros; apply io_replace_input.
Qed.

Lemma io_cp_subst_A G gid : io_same G (cp_subst_A G gid).
Proof.
  unfold cp_subst_A. destruct (wv _); [apply io_refl| |].
  - pose proof (io_zero_wire (remove_output G (nA (gn G gid)))) as H.
    destruct (zero_wire _) as [G2 z]. simpl in H.
    eapply io_trans; [apply io_remove_output|].
    eapply io_trans; [exact H|].
    eapply io_trans; [apply io_set_n|apply io_add_output].
  - pose proof (io_one_wire (remove_output G (nA (gn G gid)))) as H.
    destruct (one_wire _) as [G2 z]. simpl in H.
    eapply io_trans; [apply io_remove_output|].
    eapply io_trans; [exact H|].
    eapply io_trans; [apply io_set_n|apply io_add_output].
Qed.

Lemma io_cp_subst_B G gid : io_same G (cp_subst_B G gid).
Proof.
  unfold cp_subst_B. destruct (is_inv _); [apply io_refl|].
  destruct (wv _); [apply io_refl| |].
  - pose proof (io_zero_wire (remove_output G (nB (gn G gid)))) as H.
    destruct (zero_wire _) as [G2 z]. simpl in H.
    eapply io_trans; [apply io_remove_output|].
    eapply io_trans; [exact H|].
    eapply io_trans; [apply io_set_n|apply io_add_output].
  - pose proof (io_one_wire (remove_output G (nB (gn G gid)))) as H.
    destruct (one_wire _) as [G2 z]. simpl in H.
    eapply io_trans; [apply io_remove_output|].
    eapply io_trans; [exact H|].
    eapply io_trans; [apply io_set_n|apply io_add_output].
Qed.

Lemma io_cp_step G gid : io_same G (cp_step G gid).
Proof.
  rewrite cp_step_eq.
  eapply io_trans; [|apply io_cp_subst_B].
  eapply io_trans; [|apply io_cp_subst_A].
  unfold cp_switch. destruct (cp_action _ _ _);
    auto using io_refl, io_set_value, io_short_circuit.
Qed.

Lemma io_const_propagate G : io_same G (const_propagate G).
Proof. apply io_fold. apply io_cp_step. Qed.

Lemma io_scx_try G g z o : io_same G (scx_try G g z o).
Proof.
  unfold scx_try. destruct (isZ _); [|apply io_refl].
  destruct (winp _); [|apply io_refl].
  destruct (Nat.eqb _ _); [|apply io_refl]. simpl.
  eapply io_trans; [|apply io_set_n].
  eapply io_trans; [apply io_set_n|]. apply (io_new_wire (set_n G _ _)).
Qed.

Lemma io_scx_step G g : io_same G (scx_step G g).
Proof.
  unfold scx_step. destruct (is_xor _); [|apply io_refl].
  eapply io_trans; apply io_scx_try.
Qed.

Lemma io_scx G : io_same G (short_circuit_xor_zero G).
Proof. apply io_fold. apply io_scx_step. Qed.

Lemma io_gate_prune G g : io_same G (fst (gate_prune G g)).
Proof.
  unfold gate_prune. destruct (_ || _ || _); simpl; [apply io_refl|].
  eapply io_trans; [|apply io_remove_output].
  eapply io_trans; [apply io_set_n|].
  destruct (is_inv _); [apply io_refl|apply io_remove_output].
Qed.

Lemma io_prune_fold l : forall st, io_same (fst st) (fst (fold_left prune_step l st)).
Proof.
  induction l as [|g l IH]; intros [G kept]; simpl; [apply io_refl|].
  pose proof (io_gate_prune G g) as H. destruct (gate_prune G g) as [G1 p]. simpl in H.
  eapply io_trans; [exact H|]. apply (IH (G1, if p then kept else g :: kept)).
Qed.

Lemma io_prune G : io_same G (prune G).
Proof.
  unfold prune. rewrite prune_sweep_eq.
  pose proof (io_prune_fold (rev (gorder G)) (G, [])) as H.
  destruct (fold_left prune_step (rev (gorder G)) (G, [])) as [G1 kept]. simpl in H.
  eapply io_trans; [exact H|apply io_set_order].
Qed.

Lemma io_optimize (p : bool) G : io_same G (optimize p G).
Proof.
  unfold optimize.
  assert (H : io_same G (short_circuit_xor_zero (const_propagate G))).
  { eapply io_trans; [apply io_const_propagate|apply io_scx]. }
  destruct p; auto. eapply io_trans; [exact H|apply io_prune].
Qed.

(* ---- wire ids stay in range through ConstPropagate ----------------- *)

Definition rsame (G G' : graph) : Prop :=
  gn G' = gn G /\ gorder G' = gorder G /\ gnw G' = gnw G /\ gins G' = gins G /\
  gzero G' = gzero G /\ gone G' = gone G.

Lemma rsame_ranged G G' : rsame G G' -> ranged G -> ranged G'.
Proof.
  intros (a & b & c & d & e & f) (R1 & R2 & R3 & R4).
  unfold ranged, live. rewrite a, b, c, d, e, f. auto.
Qed.

Lemma rsame_set_w G w r : rsame G (set_w G w r). Proof. repeat split. Qed.
Lemma rsame_set_err G e : rsame G (set_err G e). Proof. repeat split. Qed.
Lemma rsame_set_value G w v : rsame G (set_value G w v). Proof. repeat split. Qed.
Lemma rsame_add_output G w g : rsame G (add_output G w g). Proof. repeat split. Qed.
Lemma rsame_disconnect G w : rsame G (disconnect_outputs G w). Proof. repeat split. Qed.
Lemma rsame_remove_output G w : rsame G (remove_output G w).
Proof. unfold remove_output. destruct (wnum _); [apply rsame_set_err|apply rsame_set_w]. Qed.

Lemma set_n_ranged G c n' :
  ranged G -> nO n' = nO (gn G c) -> ndead n' = ndead (gn G c) ->
  (forall w, In w (inputs_of n') -> In w (inputs_of (gn G c)) \/ w < gnw G) ->
  ranged (set_n G c n').
Proof.
  intros (R1 & R2 & R3 & R4) HO Hd Hin. split; [|split; [|split]]; auto.
  intros gid [Li Ld]. simpl in *. unfold fupd in *.
  destruct (Nat.eqb_spec gid c) as [->|Hne].
  - assert (L : live G c) by (split; auto; congruence).
    destruct (R1 c L) as [r1 r2]. split; [now rewrite HO|].
    intros w Hw. destruct (Hin w Hw); auto.
  - apply R1. split; auto.
Qed.

Lemma replace_input_ranged G c from to :
  ranged G -> to < gnw G -> ranged (replace_input G c from to).
Proof.
  intros R Ht. unfold replace_input.
  set (G2 := add_output (remove_output G from) to c).
  assert (RS : rsame G G2).
  { unfold G2. destruct (rsame_remove_output G from) as (a & b & c0 & d & e & f).
    repeat split; simpl; auto. }
  pose proof (rsame_ranged _ _ RS R) as R2.
  destruct RS as (a & b & c0 & d & e & f).
  destruct (Nat.eqb _ _).
  - apply set_n_ranged; auto. intros w Hw. unfold inputs_of in *. simpl in Hw.
    destruct (is_inv _); simpl in Hw.
    + destruct Hw as [<-|[]]. right. lia.
    + destruct Hw as [<-|[<-|[]]]; [right; lia|left; right; now left].
  - destruct (_ && _).
    + apply set_n_ranged; auto. intros w Hw. unfold inputs_of in *. simpl in Hw.
      destruct (is_inv _); simpl in Hw.
      * destruct Hw as [<-|[]]. left. now left.
      * destruct Hw as [<-|[<-|[]]]; [left; now left|right; lia].
    + apply (rsame_ranged G); auto. apply rsame_set_err.
Qed.

Lemma gnw_replace_input G c from to : gnw (replace_input G c from to) = gnw G.
Proof.
  unfold replace_input. pose proof (rsame_remove_output G from) as (_ & _ & c0 & _).
  destruct (Nat.eqb _ _); simpl; [exact c0|].
  destruct (_ && _); simpl; [exact c0|reflexivity].
Qed.

Lemma fold_replace_ranged from to l : forall G,
  ranged G -> to < gnw G ->
  ranged (fold_left (fun G c => replace_input G c from to) l G) /\
  gnw (fold_left (fun G c => replace_input G c from to) l G) = gnw G.
Proof.
  induction l as [|c l IH]; intros G R Ht; simpl; auto.
  destruct (IH (replace_input G c from to)) as [I1 I2].
  - now apply replace_input_ranged.
  - now rewrite gnw_replace_input.
  - split; auto. now rewrite I2, gnw_replace_input.
Qed.

Lemma short_circuit_ranged G gid o :
  ranged G -> o < gnw G -> ranged (short_circuit G gid o).
Proof.
  intros R Ho. unfold short_circuit. destruct (wout _); auto.
  destruct (fold_replace_ranged (nO (gn G gid)) o (wouts (gw G (nO (gn G gid)))) G R Ho) as [I1 _].
  eapply rsame_ranged; [apply rsame_disconnect|exact I1].
Qed.

Lemma cp_action_scb o a b : cp_action o a b = ActSCB -> is_inv o = false.
Proof. destruct o; simpl; auto. destruct (isO a); [discriminate|]. destruct (isZ a); discriminate. Qed.

Lemma cp_switch_ranged G gid : live G gid -> ranged G -> ranged (cp_switch G gid).
Proof.
  intros L R. unfold cp_switch. destruct (proj1 R gid L) as [_ RI].
  destruct (cp_action _ _ _) eqn:E; try exact R.
  - apply short_circuit_ranged; auto. apply RI. unfold inputs_of.
    rewrite (cp_action_scb _ _ _ E). right. now left.
  - apply short_circuit_ranged; auto. apply RI. unfold inputs_of. destruct (is_inv _); now left.
Qed.

Lemma cp_subst_A_ranged G gid : consts_ok G -> ranged G -> ranged (cp_subst_A G gid).
Proof.
  intros (z & o & Hz & Ho & _) R. unfold cp_subst_A.
  pose proof (rsame_remove_output G (nA (gn G gid))) as RS.
  pose proof (rsame_ranged _ _ RS R) as R1.
  destruct RS as (a & b & c & d & e & f).
  pose proof R as (_ & _ & Rz & Ro).
  destruct (wv _); [exact R| |].
  - unfold zero_wire. rewrite e, Hz.
    eapply rsame_ranged; [apply rsame_add_output|].
    apply set_n_ranged; auto. intros w Hw. unfold inputs_of in *. simpl in Hw.
    destruct (is_inv _); simpl in Hw.
    + destruct Hw as [<-|[]]. right. rewrite c. now apply Rz.
    + destruct Hw as [<-|[<-|[]]]; [right; rewrite c; now apply Rz|left; right; now left].
  - unfold one_wire. rewrite f, Ho.
    eapply rsame_ranged; [apply rsame_add_output|].
    apply set_n_ranged; auto. intros w Hw. unfold inputs_of in *. simpl in Hw.
    destruct (is_inv _); simpl in Hw.
    + destruct Hw as [<-|[]]. right. rewrite c. now apply Ro.
    + destruct Hw as [<-|[<-|[]]]; [right; rewrite c; now apply Ro|left; right; now left].
Qed.

Lemma cp_subst_B_ranged G gid : consts_ok G -> ranged G -> ranged (cp_subst_B G gid).
Proof.
  intros (z & o & Hz & Ho & _) R. unfold cp_subst_B.
  destruct (is_inv (nop (gn G gid))) eqn:Ei; auto.
  pose proof (rsame_remove_output G (nB (gn G gid))) as RS.
  pose proof (rsame_ranged _ _ RS R) as R1.
  destruct RS as (a & b & c & d & e & f).
  pose proof R as (_ & _ & Rz & Ro).
  destruct (wv _); [exact R| |].
  - unfold zero_wire. rewrite e, Hz.
    eapply rsame_ranged; [apply rsame_add_output|].
    apply set_n_ranged; auto. intros w Hw. unfold inputs_of in *. simpl in Hw.
    rewrite a, Ei in *. simpl in Hw.
    destruct Hw as [<-|[<-|[]]]; [left; now left|right; rewrite c; now apply Rz].
  - unfold one_wire. rewrite f, Ho.
    eapply rsame_ranged; [apply rsame_add_output|].
    apply set_n_ranged; auto. intros w Hw. unfold inputs_of in *. simpl in Hw.
    rewrite a, Ei in *. simpl in Hw.
    destruct Hw as [<-|[<-|[]]]; [left; now left|right; rewrite c; now apply Ro].
Qed.

Lemma cp_switch_Inv x v G gid : live G gid -> Inv x v G -> Inv x v (cp_switch G gid).
Proof.
  intros Hl HI. unfold cp_switch. set (g := gn G gid).
  destruct HI as (Hs & Hvs & Hc).
  assert (Heq : v (nO g) = node_fn g v) by (apply Hs; exact Hl).
  set (a := wv (gw G (nA g))).
  set (b := if is_inv (nop g) then Unknown else wv (gw G (nB g))).
  pose proof (cp_action_sound (nop g) a b (v (nA g))
                (if is_inv (nop g) then false else v (nB g))) as Hact.
  assert (Ha : (a = Zero -> v (nA g) = false) /\ (a = One -> v (nA g) = true)) by apply Hvs.
  assert (Hb : (b = Zero -> (if is_inv (nop g) then false else v (nB g)) = false) /\
               (b = One -> (if is_inv (nop g) then false else v (nB g)) = true)).
  { unfold b. destruct (is_inv (nop g)); [split; discriminate|apply Hvs]. }
  specialize (Hact (proj1 Ha) (proj2 Ha) (proj1 Hb) (proj2 Hb)).
  fold (node_fn g v) in Hact.
  assert (HI : Inv x v G) by (split; [|split]; auto).
  destruct (cp_action (nop g) a b).
  - exact HI.
  - apply set_value_Inv'; auto; try congruence.
  - apply set_value_Inv'; auto; try congruence.
  - destruct Hact as [Hf Hni]. apply short_circuit_Inv; auto.
    fold g. rewrite Heq. unfold node_fn in *. rewrite Hf.
    destruct (nop g); simpl; congruence.
  - apply short_circuit_Inv; auto. fold g. rewrite Heq. exact Hact.
Qed.

Lemma cp_step_ranged x v G gid :
  live G gid -> Inv x v G -> ranged G -> ranged (cp_step G gid).
Proof.
  intros L HI R. rewrite cp_step_eq.
  pose proof (cp_switch_Inv x v G gid L HI) as I1.
  pose proof (cp_switch_ranged G gid L R) as R1.
  pose proof (cp_subst_A_Inv x v _ gid I1) as I2.
  apply cp_subst_B_ranged; [eapply Inv_consts; eauto|].
  apply cp_subst_A_ranged; auto. eapply Inv_consts; eauto.
Qed.

Lemma cp_fold_ranged x v l : forall G,
  (forall gid, In gid l -> live G gid) -> Inv x v G -> ranged G ->
  ranged (fold_left cp_step l G).
Proof.
  induction l as [|gid l IH]; intros G Hl HI R; simpl; auto.
  assert (Hg : live G gid) by (apply Hl; now left).
  apply IH.
  - intros g Hin. eapply same_gates_live; [eapply cp_step_same_gates; eauto|]. apply Hl. now right.
  - now apply cp_step_Inv.
  - eapply cp_step_ranged; eauto.
Qed.

(* ConstPropagate keeps all wire ids in range *)
Theorem const_propagate_ranged G : wfg G -> ranged G -> ranged (const_propagate G).
Proof.
  intros WF R. apply (cp_fold_ranged [] (geval G [])); auto.
  - intros gid Hin. split; auto. now apply (wf_nodead _ WF).
  - apply geval_sat. exact WF.
Qed.

(* The pipeline theorem with every side condition about InputWires,
   OutputWires and wire-id ranges discharged.  What is still assumed beyond
   the well-formedness of the freshly built graph: ShortCircuitXORZero fires
   through exact producer links, and the optimised graph satisfies [cwf]
   (both are consequences of the fan-out bookkeeping invariant that is not
   proved here). *)
Theorem pipeline_correct_final (do_prune : bool) t G x :
  wfg G -> ranged G -> (forall o, In o (gouts G) -> o < gnw G) ->
  length x = length (gins G) ->
  links_exact (const_propagate G) (gorder (const_propagate G)) ->
  cwf (optimize do_prune G) ->
  eval_plain (pipeline do_prune t G) x = graph_eval G x.
Proof.
  intros WF R Ho Hx LE CW.
  destruct (io_const_propagate G) as (_ & _ & N1).
  destruct (io_optimize do_prune G) as (I3 & O3 & _).
  apply pipeline_correct_cwf; auto.
  - now apply const_propagate_ranged.
  - intros o Hin. specialize (Ho o Hin). lia.
Qed.
