(* RunC09.v — executable entry point of the C09 model (Circuit/Passes.v).
   input  = ( (wire...) (gate...) (order gid...) (input wires) (output wires)
              (inv zero one) prune target )
            wire = (value output-flag NumOutputs input-gate|-1 (output gates...))
            gate = (op A B|-1 O dead)
   output = ( snapshot after ConstPropagate, after ShortCircuitXORZero,
              after Prune (or () when pruning is off),
              (NumWires inputs outputs ((op in0 in1 out)...)) of Compile,
              (Gate.Level per gate) (Gate.Visited per gate)
              (circuit.AssignLevels: Level per flat gate) )
            snapshot = ( (wire...) (gate...) (order...) )
   A panic of the Go code is (-1 code).

   Wires that the passes allocate are numbered by the harness in the order in
   which a walk over cc.Gates (A, B, O of every gate) first meets them; the
   same renumbering [rn] is applied here when printing (the model state itself
   is not changed). *)
From Coq Require Import ZArith List Bool Arith.
From Mpc Require Import Gen.Consts Base.Sx Circuit.Circuit Circuit.Passes.
Import ListNotations.

Definition op_of_Z9 (z : Z) : op :=
  if Z.eqb z circuit_XOR then XOR else if Z.eqb z circuit_XNOR then XNOR
  else if Z.eqb z circuit_AND then AND else if Z.eqb z circuit_OR then OR else INV.
Definition Z_of_op (o : op) : Z :=
  match o with XOR => circuit_XOR | XNOR => circuit_XNOR | AND => circuit_AND
          | OR => circuit_OR | INV => circuit_INV end.

Definition wval_of_Z (z : Z) : wval :=
  if Z.eqb z compiler_circuits_Zero then Zero
  else if Z.eqb z compiler_circuits_One then One else Unknown.
Definition Z_of_wval (v : wval) : Z :=
  match v with Unknown => compiler_circuits_Unknown | Zero => compiler_circuits_Zero
          | One => compiler_circuits_One end.

Definition target_of_Z (z : Z) : target :=
  if Z.eqb z compiler_utils_TargetGMW then GMW else Yao.

Definition optn (s : sx) : option nat :=
  if Z.ltb (getZ s) 0 then None else Some (getnat s).
Definition of_optn (o : option nat) : sx :=
  match o with Some n => ofnat n | None => SZ (-1) end.

Definition wire_of_sx (s : sx) : wire :=
  mkW (wval_of_Z (getZ (nthx 0 s))) (getB (nthx 1 s)) (getnat (nthx 2 s))
      (optn (nthx 3 s)) (getLnat (nthx 4 s)) None.

Definition node_of_sx (s : sx) : node :=
  mkN (op_of_Z9 (getZ (nthx 0 s))) (getnat (nthx 1 s)) (getnat (nthx 2 s))
      (getnat (nthx 3 s)) (getB (nthx 4 s)) false 0.

Definition graph_of_sx (inp : sx) : graph :=
  let ws := map wire_of_sx (getL (nthx 0 inp)) in
  let ns := map node_of_sx (getL (nthx 1 inp)) in
  let c := nthx 5 inp in
  mkG (fun i => nth i ws blank_wire) (length ws)
      (fun i => nth i ns (mkN XOR 0 0 0 false false 0)) (length ns)
      (getLnat (nthx 2 inp)) (getLnat (nthx 3 inp)) (getLnat (nthx 4 inp))
      (optn (nthx 0 c)) (optn (nthx 1 c)) (optn (nthx 2 c)) 0.

(* discovery walk over cc.Gates *)
Definition disc1 (n0 : nat) (D : list nat) (w : nat) : list nat :=
  if Nat.ltb w n0 || existsb (Nat.eqb w) D then D else D ++ [w].
Definition disc_gate (G : graph) (n0 : nat) (D : list nat) (gid : nat) : list nat :=
  let g := gn G gid in
  let D1 := disc1 n0 D (nA g) in
  let D2 := if is_inv (nop g) then D1 else disc1 n0 D1 (nB g) in
  disc1 n0 D2 (nO g).
Definition discover (G : graph) (n0 : nat) (D : list nat) : list nat :=
  fold_left (disc_gate G n0) (gorder G) D.

Fixpoint index_of (w : nat) (D : list nat) : nat :=
  match D with
  | [] => 0
  | h :: t => if Nat.eqb h w then 0 else S (index_of w t)
  end.
Definition rn (n0 : nat) (D : list nat) (w : nat) : nat :=
  if Nat.ltb w n0 then w else n0 + index_of w D.

Definition sx_of_wire (w : wire) : sx :=
  SL [SZ (Z_of_wval (wv w)); ofB (wout w); ofnat (wnum w); of_optn (winp w); ofLnat (wouts w)].
Definition sx_of_node (n0 : nat) (D : list nat) (g : node) : sx :=
  SL [SZ (Z_of_op (nop g)); ofnat (rn n0 D (nA g));
      (if is_inv (nop g) then SZ (-1) else ofnat (rn n0 D (nB g)));
      ofnat (rn n0 D (nO g)); ofB (ndead g)].

Definition snapshot (G : graph) (n0 : nat) (D : list nat) : sx :=
  SL [ SL (map (fun w => sx_of_wire (gw G w)) (seq 0 n0 ++ D));
       SL (map (fun i => sx_of_node n0 D (gn G i)) (seq 0 (gnn G)));
       ofLnat (gorder G) ].

Definition sx_of_gate (g : gate) : sx :=
  SL [SZ (Z_of_op (gop g)); ofnat (gin0 g); ofnat (gin1 g); ofnat (gout g)].
Definition sx_of_circuit (c : circuit) : sx :=
  SL [ofnat (nwires c); ofnat (ninputs c); ofnat (noutputs c); SL (map sx_of_gate (gates c))].

Definition run_c09 (inp : sx) : sx :=
  let G0 := graph_of_sx inp in
  let do_prune := getB (nthx 6 inp) in
  let t := target_of_Z (getZ (nthx 7 inp)) in
  let n0 := gnw G0 in
  let G1 := const_propagate G0 in
  let D1 := discover G1 n0 [] in
  let G2 := short_circuit_xor_zero G1 in
  let D2 := discover G2 n0 D1 in
  let G3 := if do_prune then prune G2 else G2 in
  let sc := compile_state t G3 in
  let st := fst sc in
  let c := snd sc in
  let G4 := cg st in
  if negb (Nat.eqb (gerr G4) 0) then SL [SZ (-1); ofnat (gerr G4)]
  else if negb (forallb (emit_ok G4) (compile_order t st)) then SL [SZ (-1); SZ 6]
  else
    SL [ snapshot G1 n0 D1;
         snapshot G2 n0 D2;
         (if do_prune then snapshot G3 n0 D2 else SL []);
         sx_of_circuit c;
         ofLnat (map (fun i => nlevel (gn G4 i)) (seq 0 (gnn G4)));
         ofLB (map (fun i => nvis (gn G4 i)) (seq 0 (gnn G4)));
         ofLnat (assign_levels t c) ].

(* the pipeline run by [run_c09] is literally [pipeline] of Passes.v *)
Lemma run_c09_is_pipeline : forall (do_prune : bool) t G,
  snd (compile_state t (if do_prune then prune (short_circuit_xor_zero (const_propagate G))
                        else short_circuit_xor_zero (const_propagate G)))
  = pipeline do_prune t G.
Proof. intros [|] t G; reflexivity. Qed.
