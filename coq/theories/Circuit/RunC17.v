(* RunC17.v — executable entry point of the C17 model for the correspondence check.

   input = (0 c01case)        a call of the concurrent run, in the C01 case format
                              (key, circuit, the call's own random blocks, input):
                              its result must be what the call gives when run alone,
                              i.e. what the C01 model computes from these data only
         | (1 N (event ...))  the ownership history of one concurrent run with N
                              goroutines: event = (0 t s seed) Garble returned a handle
                              on scratch s | (1 t hi) about to Release | (2 t hi) Eval
                              | (3 t site seed) Garble failed at error site [site] (0 R, 2 input
                              labels, 3 a gate); it reserves one scratch number
   output = the C01 observable | (accepted nscratch live)
     accepted 1 iff the small-step model of Pool.v can produce this history and
     every state on the way satisfies the exclusivity predicate; nscratch =
     scratch objects created, live = handles not released at the end. *)
From Coq Require Import ZArith Arith List Bool.
From Mpc Require Import Base.Sx Circuit.RunC01 Circuit.Pool.
Import ListNotations.
Open Scope nat_scope.

Definition event_of_sx (s : sx) : event :=
  match getZ (nthx 0 s) with
  | 0%Z => EvGarble (getnat (nthx 1 s)) (getnat (nthx 2 s)) (getnat (nthx 3 s))
  | 1%Z => EvRelease (getnat (nthx 1 s)) (getnat (nthx 2 s))
  | 3%Z => EvGarbleFail (getnat (nthx 1 s)) (getnat (nthx 2 s)) (getnat (nthx 3 s))
  | _ => EvEval (getnat (nthx 1 s)) (getnat (nthx 2 s))
  end.

Definition count_live (N : nat) (st : state) : nat :=
  length (flat_map (fun t => live_scrs (s_thr st t)) (seq 0 N)).

Definition run_c17 (inp : sx) : sx :=
  match getZ (nthx 0 inp) with
  | 0%Z => run_c01 (nthx 1 inp)
  | _ =>
      let N := getnat (nthx 1 inp) in
      let evs := map event_of_sx (getL (nthx 2 inp)) in
      match replay N (init []) evs with
      | Some st => SL [ofnat 1; ofnat (s_nscr st); ofnat (count_live N st)]
      | None => SL [ofnat 0; ofnat 0; ofnat 0]
      end
  end.
