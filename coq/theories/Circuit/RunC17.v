(* RunC17.v — executable entry point of the C17 model for the correspondence check.

   input = (0 c01case)        a call of the concurrent run, in the C01 case format
                              (key, circuit, the call's own random blocks, input):
                              its result must be what the call gives when run alone,
                              i.e. what the C01 model computes from these data only
         | (1 N (event ...))  the ownership history of one concurrent run with N
                              goroutines: event = (0 t s seed) Garble returned a handle
                              on scratch s | (1 t hi) about to Release | (2 t hi) Eval
                              | (3 t site seed) Garble failed at error site [site] (0 R, 2 input
                              labels, 3 a gate); it reserves one scratch number
         | (2 key dims gates NumGates (rnd1...) (rnd2...) reuse)
                              the scratch of a garbling (Circuit/Scratch.v): Garble with the
                              random blocks rnd1 into a scratch made by the pool's New for this
                              circuit; when rnd2 is not empty a second Garble with rnd2 into
                              the scratch the first one left (reuse = 1: pool.Get returned the
                              released object) or into a new one (reuse = 0)
   output = the C01 observable | (accepted nscratch live)
          | (0 len(wires) len(slab) len(gates) slabOff-at-the-end ((off len cap) | () ...)
               (slab content...) ((rows read through Garbled.Gates[i])...)) | (1 gate site) panic
     accepted 1 iff the small-step model of Pool.v can produce this history and
     every state on the way satisfies the exclusivity predicate; nscratch =
     scratch objects created, live = handles not released at the end. *)
From Coq Require Import ZArith Arith List Bool.
From Mpc Require Import Base.Sx Base.Label Base.Aes Circuit.Circuit Circuit.Garble Circuit.RunC01 Circuit.Pool Circuit.Scratch.
Import ListNotations.
Open Scope nat_scope.

Definition event_of_sx (s : sx) : event :=
  match getZ (nthx 0 s) with
  | 0%Z => EvGarble (getnat (nthx 1 s)) (getnat (nthx 2 s)) (getnat (nthx 3 s))
  | 1%Z => EvRelease (getnat (nthx 1 s)) (getnat (nthx 2 s))
  | 3%Z => EvGarbleFail (getnat (nthx 1 s)) (getnat (nthx 2 s)) (getnat (nthx 3 s))
  | _ => EvEval (getnat (nthx 1 s)) (getnat (nthx 2 s))
  end.

Definition count_live (N : nat) (st : state) : nat :=
  length (flat_map (fun t => live_scrs (s_thr st t)) (seq 0 N)).

Definition sx_of_hdr (h : hdr) : sx :=
  match h with
  | None => SL []
  | Some (o, n) => SL [ofnat o; ofnat n; ofnat n]
  end.

Definition sx_of_gres (r : gres) : sx :=
  match r with
  | GOk g sc off =>
      SL [SZ 0; ofnat (length (sc_wires sc)); ofnat (length (sc_slab sc)); ofnat (length (sc_gates sc));
          ofnat off; SL (map sx_of_hdr (sc_gates sc)); ofLN (sc_slab sc);
          SL (map ofLN (view (sc_slab sc) (sc_gates sc)))]
  | GPanic gi k => SL [SZ 1; ofnat gi; ofnat k]
  end.

Definition run_c17_sizing (inp : sx) : sx :=
  let pi := aes_pi (aes_schedule (getLN (nthx 1 inp))) in
  let c := circuit_of_sx (nthx 2 inp) (nthx 3 inp) in
  let ng := getnat (nthx 4 inp) in
  let r1 := getLN (nthx 5 inp) in
  let r2 := getLN (nthx 6 inp) in
  let fresh := new_scratch (scratch_shape c ng) in
  match garble_into pi (fun i => nth i r1 0%N) fresh c with
  | GOk g sc off =>
      match r2 with
      | [] => sx_of_gres (GOk g sc off)
      | _ :: _ => sx_of_gres (garble_into pi (fun i => nth i r2 0%N)
                               (if Z.eqb (getZ (nthx 7 inp)) 1 then sc else fresh) c)
      end
  | GPanic gi k => sx_of_gres (GPanic gi k)
  end.

Definition run_c17 (inp : sx) : sx :=
  match getZ (nthx 0 inp) with
  | 0%Z => run_c01 (nthx 1 inp)
  | 2%Z => run_c17_sizing inp
  | _ =>
      let N := getnat (nthx 1 inp) in
      let evs := map event_of_sx (getL (nthx 2 inp)) in
      match replay N (init []) evs with
      | Some st => SL [ofnat 1; ofnat (s_nscr st); ofnat (count_live N st)]
      | None => SL [ofnat 0; ofnat 0; ofnat 0]
      end
  end.
