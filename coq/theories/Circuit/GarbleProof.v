(* GarbleProof.v — garbled evaluation = plain evaluation (C01), for every
   block function, every randomness, every well-formed circuit. *)
From Coq Require Import NArith List Bool Arith Lia Btauto.
From Mpc Require Import Base.Label Circuit.Circuit Circuit.Garble.
Import ListNotations.
Open Scope N_scope.

Section P.
  Variable pi : N -> N.

  Lemma dec_as_enc a b t c : dec pi a b t c = lxor c (enc pi a b 0 t).
  Proof. unfold dec, enc; cbv zeta. generalize (pi (makeK a b t)), (makeK a b t); intros. xor_solve. Qed.

  Definition wire_ok (r : label) (w : wire) : Prop := L1 w = lxor (L0 w) r.

  Definition Inv (r : label) (n : nat) (gw : list wire) (ew : list label)
             (pv asg : list bool) : Prop :=
    length gw = n /\ length ew = n /\ length pv = n /\ length asg = n /\
    forall w, nth w asg false = true ->
      wire_ok r (nth w gw w0) /\
      nth w ew 0 = pick (nth w gw w0) (nth w pv false).

  Ltac atoms :=
    repeat match goal with
           | |- context [half pi ?x ?i] => generalize (half pi x i); intro
           | |- context [enc pi ?a ?b ?c ?i] => generalize (enc pi a b c i); intro
           end.

  (* The per-gate simulation lemma: 2 (value of a) x 2 (value of b) x
     2 x 2 (permute bits) cases per gate kind. *)
  Lemma gate_sim r a b (va vb : bool) id o gi0 gi1 go gw ew :
    sbit r = true ->
    nth gi0 gw w0 = a -> nth gi1 gw w0 = b ->
    wire_ok r a -> (o = INV \/ wire_ok r b) ->
    nth gi0 ew 0 = pick a va -> (o = INV \/ nth gi1 ew 0 = pick b vb) ->
    let g := mkGate gi0 gi1 go o in
    let '(c, id', row) := garble_gate pi r gw id g in
    geval_gate pi ew id g row = Some (pick c (gate_fn o va vb), id') /\ wire_ok r c.
  Proof.
    intros Hr Ha Hb Wa Wb Ea Eb g; subst g.
    destruct a as [a0 a1]; destruct b as [b0 b1]; unfold wire_ok in *; cbn [L0 L1] in *.
    subst a1.
    assert (Sa1 : sbit (lxor a0 r) = negb (sbit a0))
      by (rewrite sbit_lxor, Hr; destruct (sbit a0); reflexivity).
    destruct o; unfold garble_gate, geval_gate; cbn [gin0 gin1 gout gop];
      rewrite Ha, ?Hb, Ea; cbn [L0 L1]; clear Ha Hb Ea.
    - (* XOR *)
      destruct Wb as [?|Wb]; [discriminate|]. destruct Eb as [?|Eb]; [discriminate|].
      rewrite Eb; subst b1. split; [|reflexivity].
      f_equal. f_equal. destruct va, vb; cbn [pick L0 L1 gate_fn xorb negb]; xor_solve.
    - (* XNOR *)
      destruct Wb as [?|Wb]; [discriminate|]. destruct Eb as [?|Eb]; [discriminate|].
      rewrite Eb; subst b1. split; [|cbn [L0 L1]; xor_solve].
      f_equal. f_equal. destruct va, vb; cbn [pick L0 L1 gate_fn xorb negb]; xor_solve.
    - (* AND *)
      destruct Wb as [?|Wb]; [discriminate|]. destruct Eb as [?|Eb]; [discriminate|].
      rewrite Eb; subst b1.
      assert (Sb1 : sbit (lxor b0 r) = negb (sbit b0))
        by (rewrite sbit_lxor, Hr; destruct (sbit b0); reflexivity).
      split; [|reflexivity].
      f_equal. f_equal.
      destruct va, vb; cbn [pick L0 L1 gate_fn andb];
        rewrite ?Sa1, ?Sb1;
        destruct (sbit a0), (sbit b0); cbn [xor_if negb];
        atoms; xor_solve.
    - (* OR *)
      destruct Wb as [?|Wb]; [discriminate|]. destruct Eb as [?|Eb]; [discriminate|].
      rewrite Eb; subst b1.
      assert (Sb1 : sbit (lxor b0 r) = negb (sbit b0))
        by (rewrite sbit_lxor, Hr; destruct (sbit b0); reflexivity).
      unfold idx.
      destruct va, vb; cbn [pick L0 L1 gate_fn orb];
        rewrite ?Sa1, ?Sb1;
        destruct (sbit a0), (sbit b0); cbn [negb Nat.add upd nth Nat.eqb mapi mapi_from tl nth_error];
        rewrite dec_as_enc; (split; [|xor_solve]);
        f_equal; f_equal; cbn [pick L0 L1]; atoms; xor_solve.
    - (* INV *)
      unfold idxU.
      destruct va; cbn [pick L0 L1 gate_fn negb];
        rewrite ?Sa1;
        destruct (sbit a0); cbn [negb upd nth Nat.eqb mapi mapi_from tl nth_error];
        rewrite dec_as_enc; (split; [|xor_solve]);
        f_equal; f_equal; cbn [pick L0 L1]; atoms; xor_solve.
  Qed.
End P.

Section Q.
  Variable pi : N -> N.

  Lemma inv_step r n ni gw ew pv asg id g :
    sbit r = true -> Inv r n gw ew pv asg -> gate_ok n ni asg g = true ->
    let '(c, id', row) := garble_gate pi r gw id g in
    exists o, geval_gate pi ew id g row = Some (o, id') /\
      Inv r n (upd gw (gout g) c) (upd ew (gout g) o) (eval_gate pv g)
          (upd asg (gout g) true).
  Proof.
    intros Hr (Lg & Le & Lp & La & H) Hok.
    destruct g as [i0 i1 go o]. unfold gate_ok in Hok; cbn [gin0 gin1 gout gop] in *.
    repeat (apply andb_prop in Hok; destruct Hok as [Hok ?]).
    apply Nat.ltb_lt in Hok.
    match goal with Hx : (go <? n)%nat = true |- _ => apply Nat.ltb_lt in Hx end.
    match goal with Hx : nth i0 asg false = true |- _ => destruct (H _ Hx) as [Wa Ea] end.
    assert (HB : o = INV \/ (wire_ok r (nth i1 gw w0) /\
                 nth i1 ew 0 = pick (nth i1 gw w0) (nth i1 pv false))).
    { destruct o; try (left; reflexivity); right;
        match goal with Hx : _ && _ = true |- _ =>
          apply andb_prop in Hx; destruct Hx as [_ Hx]; exact (H _ Hx) end. }
    pose proof (gate_sim pi r (nth i0 gw w0) (nth i1 gw w0) (nth i0 pv false)
                  (nth i1 pv false) id o i0 i1 go gw ew Hr eq_refl eq_refl Wa) as GS.
    cbv zeta in GS.
    destruct (garble_gate pi r gw id (mkGate i0 i1 go o)) as [[c id'] row].
    destruct GS as [GE Wc]; [tauto| exact Ea | tauto |].
    eexists; split; [exact GE|].
    unfold eval_gate; cbn [gin0 gin1 gout gop].
    split; [rewrite upd_length; assumption|].
    split; [rewrite upd_length; assumption|].
    split; [rewrite upd_length; assumption|].
    split; [rewrite upd_length; assumption|].
    intros w Hw. destruct (Nat.eq_dec go w) as [->|Hne].
    - rewrite !nth_upd_eq by lia. split; [exact Wc | reflexivity].
    - rewrite !nth_upd_neq by assumption. rewrite nth_upd_neq in Hw by assumption.
      apply H; assumption.
  Qed.

  Lemma sim r n ni : sbit r = true -> forall gs gw ew pv asg id,
    Inv r n gw ew pv asg -> wf_gates n ni asg gs = true ->
    let '(gwf, idf, rows) := garble_gates pi r gw id gs in
    exists ewf, geval_gates pi ew id gs rows = Some ewf /\
      Inv r n gwf ewf (fold_left eval_gate gs pv) (final_asg asg gs).
  Proof.
    intros Hr. induction gs as [|g gs IH]; intros gw ew pv asg id HI Hwf.
    - cbn. exists ew. split; [reflexivity| exact HI].
    - cbn [wf_gates] in Hwf. apply andb_prop in Hwf. destruct Hwf as [Hok Hwf].
      cbn [garble_gates geval_gates fold_left].
      pose proof (inv_step r n ni gw ew pv asg id g Hr HI Hok) as ST.
      destruct (garble_gate pi r gw id g) as [[c id'] row].
      destruct ST as (o & GE & HI').
      specialize (IH _ _ _ _ id' HI' Hwf).
      destruct (garble_gates pi r (upd gw (gout g) c) id' gs) as [[gwf idf] rows].
      destruct IH as (ewf & GEs & HIf).
      exists ewf. cbn [hd tl]. rewrite GE. split; [exact GEs|].
      unfold final_asg in *. cbn [fold_left]. exact HIf.
  Qed.

  (* gates never write input wires => input wires survive garbling *)
  Lemma garble_gates_inputs r n ni : forall gs gw asg id w,
    wf_gates n ni asg gs = true -> (w < ni)%nat ->
    let '(gwf, _, _) := garble_gates pi r gw id gs in nth w gwf w0 = nth w gw w0.
  Proof.
    induction gs as [|g gs IH]; intros gw asg id w Hwf Hw; cbn [garble_gates].
    - reflexivity.
    - cbn [wf_gates] in Hwf. apply andb_prop in Hwf. destruct Hwf as [Hok Hwf].
      destruct (garble_gate pi r gw id g) as [[c id'] row].
      specialize (IH (upd gw (gout g) c) _ id' w Hwf Hw).
      destruct (garble_gates pi r (upd gw (gout g) c) id' gs) as [[gwf idf] rows].
      rewrite IH. apply nth_upd_neq.
      unfold gate_ok in Hok. repeat (apply andb_prop in Hok; destruct Hok as [Hok ?]).
      match goal with Hx : (ni <=? gout g)%nat = true |- _ => apply Nat.leb_le in Hx end. lia.
  Qed.
End Q.

Section Top.
  Variable pi : N -> N.

  Lemma nth_map_seq {A} (f : nat -> A) n w d : (w < n)%nat -> nth w (map f (seq 0 n)) d = f w.
  Proof.
    intros H. rewrite nth_indep with (d' := f 0%nat) by (rewrite map_length, seq_length; exact H).
    rewrite map_nth. rewrite seq_nth by exact H. reflexivity.
  Qed.

  Lemma nth_init_asg_true ni k w :
    nth w (repeat true ni ++ repeat false k) false = true -> (w < ni)%nat.
  Proof.
    intros H. destruct (Nat.lt_ge_cases w ni) as [Hl|Hg]; [exact Hl|].
    rewrite app_nth2 in H by (rewrite repeat_length; exact Hg).
    exfalso. revert H. generalize (w - length (repeat true ni))%nat. intros m.
    destruct (nth_in_or_default m (repeat false k) false) as [Hin|Hd].
    - apply repeat_spec in Hin. congruence.
    - congruence.
  Qed.

  Lemma decode_pick r w b : sbit r = true -> wire_ok r w -> decode w (pick w b) = Some b.
  Proof.
    intros Hr Hw. unfold decode. destruct b; cbn [pick].
    - rewrite Hw. destruct (N.eqb_spec (lxor (L0 w) r) (L0 w)) as [E|_].
      + exfalso. exact (lxor_r_neq _ _ Hr E).
      + rewrite N.eqb_refl. reflexivity.
    - rewrite N.eqb_refl. reflexivity.
  Qed.

  Theorem garble_eval_correct (rnd : nat -> N) (scratch : list wire) (c : circuit) (x : list bool) :
    wf c = true -> length x = ninputs c ->
    let g := garble pi rnd scratch c in
    exists ew, geval pi c (encode g c x) (gTables g) = Some ew /\
      forall o, In o (output_wires c) ->
        let b := nth o (eval_plain_wires c x) false in
        nth o ew 0 = pick (nth o (gWires g) w0) b /\
        decode (nth o (gWires g) w0) (nth o ew 0) = Some b /\
        L0 (nth o (gWires g) w0) <> L1 (nth o (gWires g) w0).
  Proof.
    intros Hwf Hx. unfold wf in Hwf.
    apply andb_prop in Hwf; destruct Hwf as [Hwf Hout].
    apply andb_prop in Hwf; destruct Hwf as [Hwf Hgs].
    apply andb_prop in Hwf; destruct Hwf as [Hni Hno].
    apply Nat.leb_le in Hni.
    set (r := setS (rnd 0%nat)).
    assert (Hr : sbit r = true) by apply sbit_setS.
    set (n := nwires c) in *. set (ni := ninputs c) in *.
    set (gw0 := input_wires r rnd ni ++
                firstn (n - ni) (skipn ni scratch ++ repeat w0 n)).
    assert (Lgw0 : length gw0 = n).
    { unfold gw0, input_wires. rewrite app_length, map_length, seq_length, firstn_length.
      rewrite app_length, repeat_length. lia. }
    assert (Hin0 : forall w, (w < ni)%nat ->
              nth w gw0 w0 = mkWire (rnd (S w)) (lxor (rnd (S w)) r)).
    { intros w Hw. unfold gw0. rewrite app_nth1 by (unfold input_wires; rewrite map_length, seq_length; exact Hw).
      unfold input_wires. apply (nth_map_seq (fun i => mkWire (rnd (S i)) (lxor (rnd (S i)) r))). exact Hw. }
    pose proof (garble_gates_inputs pi r n ni (gates c) gw0 (init_asg c) 0 ) as Hkeep.
    pose proof (sim pi r n ni Hr (gates c) gw0) as SIM.
    unfold garble, geval. fold r. fold ni. fold n. fold gw0.
    destruct (garble_gates pi r gw0 0 (gates c)) as [[gwf idf] rows] eqn:GG.
    cbn [gR gWires gTables].
    set (ew0 := encode (mkGarbled r gwf rows) c x).
    specialize (SIM ew0 (init_wires c x) (init_asg c) 0).
    rewrite GG in SIM.
    destruct SIM as (ewf & GE & HI).
    - (* initial invariant *)
      unfold Inv. split; [exact Lgw0|].
      split. { unfold ew0, encode. rewrite app_length, map_length, seq_length, repeat_length. fold ni n. lia. }
      split. { unfold init_wires. fold ni n. rewrite app_length, firstn_length, repeat_length. lia. }
      split. { unfold init_asg. fold ni n. rewrite app_length, !repeat_length. lia. }
      intros w Hw. unfold init_asg in Hw. apply nth_init_asg_true in Hw. fold ni in Hw.
      rewrite (Hin0 w Hw). split; [reflexivity|].
      unfold ew0, encode. cbn [gWires]. fold ni.
      rewrite app_nth1 by (rewrite map_length, seq_length; exact Hw).
      rewrite (nth_map_seq (fun i => pick (nth i gwf w0) (nth i x false))) by exact Hw.
      specialize (Hkeep w Hgs Hw). rewrite Hkeep, (Hin0 w Hw).
      unfold init_wires. fold ni. rewrite <- Hx at 1. rewrite firstn_all.
      rewrite app_nth1 by lia. reflexivity.
    - exact Hgs.
    - exists ewf. split; [exact GE|].
      intros o Ho.
      destruct HI as (_ & _ & _ & _ & HI).
      rewrite forallb_forall in Hout. specialize (Hout o Ho).
      destruct (HI o Hout) as [Wo Eo].
      unfold eval_plain_wires.
      split; [exact Eo|]. split.
      + rewrite Eo. apply decode_pick with (r := r); assumption.
      + rewrite Wo. intro E. symmetry in E. exact (lxor_r_neq _ _ Hr E).
  Qed.
End Top.

Lemma garble_decoded_outputs :
  forall pi rnd scratch c x, wf c = true -> length x = ninputs c ->
    let g := garble pi rnd scratch c in
    exists ew, geval pi c (encode g c x) (gTables g) = Some ew /\
      map (fun o => decode (nth o (gWires g) w0) (nth o ew 0)) (output_wires c)
      = map Some (eval_plain c x).
Proof.
  intros pi rnd scratch c x Hwf Hx g.
  destruct (garble_eval_correct pi rnd scratch c x Hwf Hx) as (ew & GE & H).
  exists ew. split; [exact GE|].
  unfold eval_plain. rewrite map_map. apply map_ext_in. intros o Ho.
  destruct (H o Ho) as (_ & D & _). exact D.
Qed.

(* non-vacuity: a 5-gate circuit with every gate kind, fan-out, in0 = in1 and an
   overwritten intermediate wire is well-formed *)
Example wf_example :
  wf (mkCircuit 8 2 2 [mkGate 0 1 2 XOR; mkGate 2 2 3 AND; mkGate 3 0 4 OR;
                       mkGate 4 0 2 INV; mkGate 2 1 5 XNOR; mkGate 5 4 6 AND;
                       mkGate 6 3 7 OR]) = true.
Proof. vm_compute. reflexivity. Qed.

(* every output wire of a garbling satisfies L1 = L0 xor R *)
Lemma garble_output_wires_ok pi rnd scratch c :
  wf c = true ->
  let g := garble pi rnd scratch c in
  forall o, In o (output_wires c) -> L1 (nth o (gWires g) w0) = lxor (L0 (nth o (gWires g) w0)) (gR g).
Proof.
  intros Hwf g o Ho.
  (* re-run the simulation to extract wire_ok; any input works *)
  set (x := repeat false (ninputs c)).
  assert (Hx : length x = ninputs c) by apply repeat_length.
  unfold wf in Hwf.
  apply andb_prop in Hwf; destruct Hwf as [Hwf Hout].
  apply andb_prop in Hwf; destruct Hwf as [Hwf Hgs].
  apply andb_prop in Hwf; destruct Hwf as [Hni Hno].
  apply Nat.leb_le in Hni.
  set (r := setS (rnd 0%nat)).
  assert (Hr : sbit r = true) by apply sbit_setS.
  set (n := nwires c) in *. set (ni := ninputs c) in *.
  set (gw0 := input_wires r rnd ni ++ firstn (n - ni) (skipn ni scratch ++ repeat w0 n)).
  assert (Lgw0 : length gw0 = n).
  { unfold gw0, input_wires. rewrite app_length, map_length, seq_length, firstn_length.
    rewrite app_length, repeat_length. lia. }
  assert (Hin0 : forall w, (w < ni)%nat ->
            nth w gw0 w0 = mkWire (rnd (S w)) (lxor (rnd (S w)) r)).
  { intros w Hw. unfold gw0. rewrite app_nth1 by (unfold input_wires; rewrite map_length, seq_length; exact Hw).
    unfold input_wires. apply (nth_map_seq (fun i => mkWire (rnd (S i)) (lxor (rnd (S i)) r))). exact Hw. }
  set (ew0 := map (fun w => pick (nth w gw0 w0) (nth w (init_wires c x) false)) (seq 0 n)).
  pose proof (sim pi r n ni Hr (gates c) gw0 ew0 (init_wires c x) (init_asg c) 0) as SIM.
  unfold g, garble. fold r ni n gw0.
  destruct (garble_gates pi r gw0 0 (gates c)) as [[gwf idf] rows].
  cbn [gR gWires].
  destruct SIM as (ewf & _ & HI).
  - unfold Inv. split; [exact Lgw0|].
    split. { unfold ew0. rewrite map_length, seq_length. reflexivity. }
    split. { unfold init_wires. fold ni n. rewrite app_length, firstn_length, repeat_length. lia. }
    split. { unfold init_asg. fold ni n. rewrite app_length, !repeat_length. lia. }
    intros w Hw. unfold init_asg in Hw. apply nth_init_asg_true in Hw. fold ni in Hw.
    split. { rewrite (Hin0 w Hw). reflexivity. }
    unfold ew0.
    apply (nth_map_seq (fun w1 => pick (nth w1 gw0 w0) (nth w1 (init_wires c x) false))). lia.
  - exact Hgs.
  - destruct HI as (_ & _ & _ & _ & HI).
    rewrite forallb_forall in Hout. specialize (Hout o Ho).
    destruct (HI o Hout) as [Wo _]. exact Wo.
Qed.
