(* GGarbleHubProof.v — C04 for HUB sessions of ANY length (the class the harness family
   harness/c04long.go samples at > 131072 streamed circuits, far beyond what the extracted
   model executes): a streaming session of k single-AND circuits that all read the SAME
   first input wire (global wire 0, the hub) and an arbitrary earlier wire, each writing a
   fresh global wire.  In such a session every first-half-gate hash is keyed by the hub's
   labels, so the transcript is safe only because the tweaks are pairwise distinct.  The
   session is well formed and consumes 2k tweaks, so C04_stream applies for every k < 2^31:
   no transmitted value is R and no two differ by R, with the session-wide counter. *)
From Coq Require Import NArith List Bool Arith Lia.
From Mpc Require Import Base.Label Circuit.Circuit Circuit.Garble Circuit.GGarble Circuit.GGarbleProof.
Import ListNotations.

(* circuit number i of the session: AND(in[0], in[1]) -> out[0] with in = [0; b_i], out = [j + i] *)
Fixpoint hub_steps_from (j : nat) (bs : list nat) : list scirc :=
  match bs with
  | [] => []
  | b :: t => mkSC [mkGate 0 1 2 AND] 3 [0; b]%nat [j] :: hub_steps_from (S j) t
  end.

(* the session: [ni] input wires (wire 0 = hub), second operands [bs] *)
Definition hub_steps (ni : nat) (bs : list nat) : list scirc := hub_steps_from ni bs.

(* every second operand is a session input or the output of an earlier circuit *)
Fixpoint hub_ok (j : nat) (bs : list nat) : Prop :=
  match bs with
  | [] => True
  | b :: t => (b < j)%nat /\ hub_ok (S j) t
  end.

Fixpoint hub_flat (j : nat) (bs : list nat) : list gate :=
  match bs with
  | [] => []
  | b :: t => mkGate 0 b j AND :: hub_flat (S j) t
  end.

Lemma hub_flat_eq G : forall bs j,
  concat (map (sflat G) (hub_steps_from j bs)) = hub_flat j bs.
Proof.
  induction bs as [|b t IH]; intros j; [reflexivity|].
  cbn [hub_steps_from map concat hub_flat]. rewrite IH. reflexivity.
Qed.

Lemma hub_tweaks : forall bs j, tweaks_of (hub_flat j bs) = (2 * N.of_nat (length bs))%N.
Proof.
  induction bs as [|b t IH]; intros j; [reflexivity|].
  cbn [hub_flat length]. rewrite tweaks_of_cons, IH. cbn [gop]. rewrite Nat2N.inj_succ.
  unfold gate_tweaks. lia.
Qed.

Lemma hub_wf n : forall bs j asg,
  (1 <= j)%nat -> length asg = n -> (j + length bs <= n)%nat ->
  (forall w, (w < j)%nat -> nth w asg false = true) ->
  hub_ok j bs ->
  wf_gates n 0 asg (hub_flat j bs) = true.
Proof.
  induction bs as [|b t IH]; intros j asg Hj Hlen Hn Hasg Hok; [reflexivity|].
  cbn [hub_flat wf_gates]. cbn [hub_ok] in Hok. destruct Hok as [Hb Hok].
  cbn [length] in Hn.
  apply andb_true_intro; split.
  - unfold gate_ok. cbn [gin0 gin1 gout gop].
    repeat (apply andb_true_intro; split).
    + apply Nat.ltb_lt. lia.
    + apply Nat.ltb_lt. lia.
    + apply Nat.leb_le. lia.
    + apply Hasg. lia.
    + apply Nat.ltb_lt. lia.
    + apply Hasg. exact Hb.
  - cbn [gout]. apply IH.
    + lia.
    + rewrite upd_length. exact Hlen.
    + lia.
    + intros w Hw. destruct (Nat.eq_dec w j) as [->|Hne].
      * apply nth_upd_eq. lia.
      * rewrite nth_upd_neq by (intro E; apply Hne; symmetry; exact E). apply Hasg. lia.
    + exact Hok.
Qed.

Lemma nth_repeat_true_app : forall ni w (l : list bool),
  (w < ni)%nat -> nth w (repeat true ni ++ l) false = true.
Proof.
  induction ni as [|ni IH]; intros w l Hw; [lia|].
  destruct w as [|w]; [reflexivity|]. cbn [repeat app nth]. apply IH. lia.
Qed.

Theorem stream_hub_safe (perm : nat -> bool) (ni : nat) (bs : list nat) (x : list bool) :
  (1 <= ni)%nat -> hub_ok ni bs -> (2 * N.of_nat (length bs) <= 2 ^ 32)%N ->
  r_safe Rsym (sym_stream_transcript false perm (ni + length bs) ni (ni + length bs + 3)
                 (hub_steps ni bs) x).
Proof.
  intros Hni Hok Htw. unfold hub_steps.
  apply sym_stream_safe.
  - lia.
  - rewrite hub_flat_eq. apply hub_wf.
    + exact Hni.
    + unfold init_asg. cbn [ninputs nwires]. rewrite app_length, !repeat_length. lia.
    + lia.
    + intros w Hw. unfold init_asg. cbn [ninputs nwires]. apply nth_repeat_true_app. exact Hw.
    + exact Hok.
  - rewrite hub_flat_eq, hub_tweaks. exact Htw.
Qed.

(* non-vacuity: a session of 2^31 circuits satisfies the hypotheses (nothing is computed) *)
Lemma hub_ok_repeat_1 : forall k j, (2 <= j)%nat -> hub_ok j (repeat 1%nat k).
Proof.
  induction k as [|k IH]; intros j Hj; [exact I|].
  cbn [repeat hub_ok]. split; [lia|apply IH; lia].
Qed.
