(* ComputeIOProof.v — theorems about the big.Int layer of Circuit.Compute
   (model: ComputeIO.v). *)
From Coq Require Import ZArith NArith List Bool Arith Lia.
From Mpc Require Import Base.Label Circuit.Circuit Circuit.Garble Circuit.GarbleProof Circuit.ComputeIO.
Import ListNotations.
Local Open Scope nat_scope.

(* ---------- list plumbing ---------- *)

Lemma map_seq_shift {A} (f : nat -> A) a n :
  map f (seq a n) = map (fun i => f (a + i)) (seq 0 n).
Proof.
  revert a f. induction n as [|n IH]; intros a f; simpl; [reflexivity|].
  rewrite Nat.add_0_r. f_equal.
  rewrite (IH (S a) f), (IH 1 (fun i => f (a + i))).
  apply map_ext. intros i. f_equal. lia.
Qed.

Lemma map_nth_seq_firstn {A} (l : list A) d n :
  n <= length l -> map (fun i => nth i l d) (seq 0 n) = firstn n l.
Proof.
  revert n. induction l as [|h t IH]; intros n Hn; simpl in Hn.
  - assert (n = 0) by lia. subst. reflexivity.
  - destruct n as [|n]; [reflexivity|].
    change (seq 0 (S n)) with (0 :: seq 1 n). rewrite map_cons.
    rewrite (map_seq_shift (fun i => nth i (h :: t) d) 1 n). simpl. f_equal.
    apply IH. lia.
Qed.

Lemma nth_skipn {A} (l : list A) w i d : nth (w + i) l d = nth i (skipn w l) d.
Proof.
  revert l. induction w as [|w IH]; intros l; simpl; [reflexivity|].
  destruct l as [|h t]; simpl; [destruct i; reflexivity|]. apply IH.
Qed.

Lemma map_nth_window {A} (l : list A) d w n :
  w + n <= length l ->
  map (fun i => nth (w + i) l d) (seq 0 n) = firstn n (skipn w l).
Proof.
  intros H.
  rewrite (map_ext _ (fun i => nth i (skipn w l) d)) by (intros; apply nth_skipn).
  apply map_nth_seq_firstn. rewrite skipn_length. lia.
Qed.

Lemma skipn_skipn {A} (l : list A) a b : skipn b (skipn a l) = skipn (a + b) l.
Proof.
  revert l. induction a as [|a IH]; intros l; simpl; [reflexivity|].
  destruct l as [|h t]; [destruct b; reflexivity|]. apply IH.
Qed.

(* ---------- widths ---------- *)

Lemma sum_widths_iobits outs : sum_widths (map iobits outs) = io_size outs.
Proof. induction outs as [|a t IH]; simpl; [reflexivity|]. rewrite IH. reflexivity. Qed.

Lemma zbits_length w v : length (zbits w v) = w.
Proof. unfold zbits. rewrite map_length, seq_length. reflexivity. Qed.

Lemma flatten_inputs_length ws : forall vs, length vs = length ws ->
  length (flatten_inputs ws vs) = sum_widths ws.
Proof.
  induction ws as [|w ws IH]; intros [|v vs] H; simpl in *; try discriminate; [reflexivity|].
  rewrite app_length, zbits_length, IH by lia. reflexivity.
Qed.

(* ---------- input side: what of an argument value reaches the wires ---------- *)

Lemma zbits_mod w v : zbits w (v mod 2 ^ Z.of_nat w) = zbits w v.
Proof.
  unfold zbits. apply map_ext_in. intros i Hi. apply in_seq in Hi.
  apply Z.mod_pow2_bits_low. lia.
Qed.

Lemma flatten_inputs_reduce ws : forall vs,
  flatten_inputs ws (reduce_vals ws vs) = flatten_inputs ws vs.
Proof.
  induction ws as [|w ws IH]; intros [|v vs]; simpl; try reflexivity.
  rewrite zbits_mod, IH. reflexivity.
Qed.

Lemma zbits_ext w u v : (u mod 2 ^ Z.of_nat w = v mod 2 ^ Z.of_nat w)%Z -> zbits w u = zbits w v.
Proof. intros H. rewrite <- (zbits_mod w u), <- (zbits_mod w v), H. reflexivity. Qed.

(* bit i of the flattened argument k *)
Lemma zbits_nth w v i : i < w -> nth i (zbits w v) false = Z.testbit v (Z.of_nat i).
Proof.
  intros H. unfold zbits.
  rewrite (nth_indep _ false (Z.testbit v (Z.of_nat 0))) by (rewrite map_length, seq_length; exact H).
  rewrite (map_nth (fun i => Z.testbit v (Z.of_nat i))), seq_nth by exact H. reflexivity.
Qed.

(* ---------- output side: packing ---------- *)

Lemma bits_to_Z_range l : (0 <= bits_to_Z l < 2 ^ Z.of_nat (length l))%Z.
Proof.
  induction l as [|b t IH]; simpl length; cbn [bits_to_Z]; [simpl; lia|].
  rewrite Nat2Z.inj_succ, Z.pow_succ_r by lia.
  destruct b; simpl Z.b2z; lia.
Qed.

Lemma zbits_succ w v :
  zbits (S w) v = Z.testbit v 0 :: zbits w (Z.div2 v).
Proof.
  unfold zbits. simpl seq. simpl map. f_equal.
  rewrite (map_seq_shift _ 1 w). apply map_ext. intros i.
  rewrite Z.div2_spec, Z.shiftr_spec by lia. f_equal. lia.
Qed.

Lemma bits_to_Z_div2 b t : Z.div2 (bits_to_Z (b :: t)) = bits_to_Z t.
Proof.
  cbn [bits_to_Z]. rewrite Z.add_comm.
  rewrite Z.div2_div. destruct b; simpl Z.b2z.
  - replace (2 * bits_to_Z t + 1)%Z with (1 + bits_to_Z t * 2)%Z by lia.
    rewrite Z.div_add by lia. reflexivity.
  - replace (2 * bits_to_Z t + 0)%Z with (0 + bits_to_Z t * 2)%Z by lia.
    rewrite Z.div_add by lia. reflexivity.
Qed.

(* reading the packed value back with big.Int.Bit gives the wires again *)
Lemma zbits_bits_to_Z l : zbits (length l) (bits_to_Z l) = l.
Proof.
  induction l as [|b t IH]; [reflexivity|].
  simpl length. rewrite zbits_succ, bits_to_Z_div2, IH. f_equal.
  cbn [bits_to_Z]. rewrite Z.add_comm. apply Z.testbit_0_r.
Qed.

Lemma pack_from_pack_bits outs : forall w wires,
  w + sum_widths outs <= length wires ->
  pack_from outs w wires = pack_bits outs (skipn w wires).
Proof.
  induction outs as [|n t IH]; intros w wires H; simpl in *; [reflexivity|].
  rewrite map_nth_window by lia. f_equal.
  rewrite IH by lia. rewrite skipn_skipn. reflexivity.
Qed.

Lemma pack_bits_length outs : forall bs, length (pack_bits outs bs) = length outs.
Proof. induction outs as [|n t IH]; intros bs; simpl; [reflexivity|]. rewrite IH. reflexivity. Qed.

(* every packed result fits its declared width and unpacking the results with the
   input-side reader returns the bit vector *)
Lemma pack_bits_roundtrip outs : forall bs, length bs = sum_widths outs ->
  flatten_inputs outs (pack_bits outs bs) = bs /\
  Forall2 (fun n r => (0 <= r < 2 ^ Z.of_nat n)%Z) outs (pack_bits outs bs).
Proof.
  induction outs as [|n t IH]; intros bs H; simpl in *.
  - destruct bs; [split; constructor | discriminate].
  - assert (Hn : length (firstn n bs) = n) by (rewrite firstn_length; lia).
    destruct (IH (skipn n bs)) as [IH1 IH2]; [rewrite skipn_length; lia|].
    split.
    + pose proof (zbits_bits_to_Z (firstn n bs)) as Z1. rewrite Hn in Z1.
      rewrite IH1, Z1. apply firstn_skipn.
    + constructor; [|exact IH2].
      pose proof (bits_to_Z_range (firstn n bs)) as R. rewrite Hn in R. exact R.
Qed.

(* ---------- the gate loop ---------- *)

Lemma eval_gate_length ws g : length (eval_gate ws g) = length ws.
Proof. unfold eval_gate. apply upd_length. Qed.

Lemma fold_eval_gate_length gs : forall ws, length (fold_left eval_gate gs ws) = length ws.
Proof.
  induction gs as [|g gs IH]; intros ws; simpl; [reflexivity|].
  rewrite IH. apply eval_gate_length.
Qed.

Lemma eval_plain_wires_length c x :
  length x = ninputs c -> ninputs c <= nwires c -> length (eval_plain_wires c x) = nwires c.
Proof.
  intros Hx Hle. unfold eval_plain_wires, init_wires.
  rewrite fold_eval_gate_length, app_length, firstn_length, repeat_length. lia.
Qed.

Lemma eval_plain_skipn c x :
  length x = ninputs c -> ninputs c <= nwires c -> noutputs c <= nwires c ->
  eval_plain c x = skipn (nwires c - noutputs c) (eval_plain_wires c x).
Proof.
  intros Hx Hi Ho. unfold eval_plain, output_wires.
  pose proof (eval_plain_wires_length c x Hx Hi) as HL.
  rewrite (map_seq_shift (fun w => nth w (eval_plain_wires c x) false)).
  rewrite map_nth_window by lia.
  apply firstn_all2. rewrite skipn_length. lia.
Qed.

(* ---------- Compute over []*big.Int = eval_plain on the flattened bits ---------- *)

(* the declared interface fits the circuit *)
Definition layout_ok (c : circuit) (ins outs : list ioarg) : Prop :=
  sum_widths (flat_args ins) = ninputs c /\ ninputs c <= nwires c /\
  io_size outs = noutputs c /\ noutputs c <= nwires c.

Theorem compute_io_eq_eval_plain :
  forall (c : circuit) (ins outs : list ioarg) (vals : list Z),
    layout_ok c ins outs -> length vals = length (flat_args ins) ->
    compute_io c ins outs vals
    = COk (pack_bits (map iobits outs) (eval_plain c (flatten_inputs (flat_args ins) vals))).
Proof.
  intros c ins outs vals (Hin & Hile & Hout & Hole) Hlen.
  pose proof (flatten_inputs_length _ _ Hlen) as HL.
  set (bits := flatten_inputs (flat_args ins) vals) in *.
  assert (Hx : length bits = ninputs c) by lia.
  unfold compute_io. fold bits.
  rewrite Hlen, Nat.eqb_refl. cbn [negb].
  replace (nwires c <? length bits) with false by (symmetry; apply Nat.ltb_ge; lia).
  replace (nwires c <? io_size outs) with false by (symmetry; apply Nat.ltb_ge; lia).
  f_equal.
  assert (HW : fold_left eval_gate (gates c) (bits ++ repeat false (nwires c - length bits))
               = eval_plain_wires c bits).
  { unfold eval_plain_wires, init_wires. rewrite firstn_all2 by lia. rewrite Hx. reflexivity. }
  rewrite HW.
  rewrite pack_from_pack_bits.
  - rewrite Hout. rewrite <- eval_plain_skipn by assumption. reflexivity.
  - rewrite sum_widths_iobits, eval_plain_wires_length by assumption. lia.
Qed.

(* the results are determined by the argument values modulo 2^width: a negative value
   is read as its two's complement, a value wider than the argument is truncated, a
   narrower one zero-extended *)
Theorem compute_io_vals_mod :
  forall c ins outs vals,
    length vals = length (flat_args ins) ->
    compute_io c ins outs (reduce_vals (flat_args ins) vals) = compute_io c ins outs vals.
Proof.
  intros c ins outs vals Hlen. unfold compute_io.
  assert (HR : length (reduce_vals (flat_args ins) vals) = length vals).
  { clear - Hlen. revert vals Hlen. induction (flat_args ins) as [|w ws IH]; intros [|v vs] H;
      simpl in *; try discriminate; [reflexivity|]. rewrite IH by lia. reflexivity. }
  rewrite HR, flatten_inputs_reduce. reflexivity.
Qed.

(* results fit their widths, and read back bit by bit they are the plain outputs *)
Theorem compute_io_results_roundtrip :
  forall c ins outs vals,
    layout_ok c ins outs -> length vals = length (flat_args ins) ->
    exists rs, compute_io c ins outs vals = COk rs /\
      length rs = length outs /\
      Forall2 (fun n r => (0 <= r < 2 ^ Z.of_nat n)%Z) (map iobits outs) rs /\
      flatten_inputs (map iobits outs) rs = eval_plain c (flatten_inputs (flat_args ins) vals).
Proof.
  intros c ins outs vals HL Hlen.
  eexists. split; [apply compute_io_eq_eval_plain; assumption|].
  destruct HL as (Hin & Hile & Hout & Hole).
  assert (HE : length (eval_plain c (flatten_inputs (flat_args ins) vals))
               = sum_widths (map iobits outs)).
  { unfold eval_plain, output_wires. rewrite map_length, seq_length, sum_widths_iobits. lia. }
  destruct (pack_bits_roundtrip _ _ HE) as [R1 R2].
  split; [rewrite pack_bits_length, map_length; reflexivity|]. split; assumption.
Qed.

(* wrong number of argument values: the explicit error, whatever the circuit *)
Theorem compute_io_arg_count :
  forall c ins outs vals, length vals <> length (flat_args ins) ->
    compute_io c ins outs vals = CErrArgs (length vals) (length (flat_args ins)).
Proof.
  intros c ins outs vals H. unfold compute_io.
  apply Nat.eqb_neq in H. rewrite H. reflexivity.
Qed.

(* garbled evaluation on the labels encoding the flattened argument values, decoded
   and packed per declared output, is what Compute returns for those values *)
Theorem garbled_eq_compute_io :
  forall (pi : N -> N) (rnd : nat -> N) (scratch : list wire) c ins outs vals,
    wf c = true -> layout_ok c ins outs -> length vals = length (flat_args ins) ->
    let x := flatten_inputs (flat_args ins) vals in
    let g := garble pi rnd scratch c in
    exists ew bs, geval pi c (encode g c x) (gTables g) = Some ew /\
      map (fun o => decode (nth o (gWires g) w0) (nth o ew 0%N)) (output_wires c) = map Some bs /\
      compute_io c ins outs vals = COk (pack_bits (map iobits outs) bs).
Proof.
  intros pi rnd scratch c ins outs vals Hwf HL Hlen x g.
  assert (Hx : length x = ninputs c).
  { unfold x. rewrite flatten_inputs_length by exact Hlen. apply HL. }
  destruct (garble_decoded_outputs pi rnd scratch c x Hwf Hx) as (ew & GE & D).
  exists ew, (eval_plain c x). split; [exact GE|]. split; [exact D|].
  apply compute_io_eq_eval_plain; assumption.
Qed.

(* ---------- non-vacuity ---------- *)

(* a 7-wire circuit, arguments (uint3, struct{uint1,uint1}) = three values, outputs (uint1, uint1):
   the hypotheses hold, a negative and an over-wide value are accepted *)
Definition ex_c : circuit :=
  mkCircuit 7 5 2 [mkGate 0 3 5 AND; mkGate 2 4 6 XOR].
Definition ex_ins : list ioarg := [mkIO 3 []; mkIO 2 [1; 1]].
Definition ex_outs : list ioarg := [mkIO 1 []; mkIO 1 []].

Example layout_ok_ex : layout_ok ex_c ex_ins ex_outs /\ wf ex_c = true.
Proof. unfold layout_ok. vm_compute. repeat split; lia. Qed.

Example compute_io_ex :
  compute_io ex_c ex_ins ex_outs [(-3)%Z; 255%Z; 0%Z] = COk [1%Z; 1%Z] /\
  compute_io ex_c ex_ins ex_outs [5%Z; 1%Z; 0%Z] = COk [1%Z; 1%Z] /\
  compute_io ex_c ex_ins ex_outs [5%Z; 1%Z] = CErrArgs 2 3 /\
  compute_io ex_c (mkIO 9 [] :: ex_ins) ex_outs [0%Z; 5%Z; 1%Z; 0%Z] = CPanic.
Proof. vm_compute. repeat split. Qed.
