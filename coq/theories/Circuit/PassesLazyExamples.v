(* PassesLazyExamples.v — non-vacuity of the hypotheses added for the
   constant-free graphs ([wfg0] + [unvalued]) and for ConstPropagate's
   panic-freedom ([wfe]).  (Property C09) *)
From Coq Require Import List Bool Arith Lia.
From Mpc Require Import Circuit.Circuit Circuit.Passes Circuit.PassesProof Circuit.PassesBFS
  Circuit.PassesIO Circuit.PassesInv Circuit.PassesExamples Circuit.PassesLazy Circuit.PassesPanicCP.
Import ListNotations.

(* ---- [wfe] holds of the example with constants ----------------------- *)

Example ex_wfe : wfe ex_graph.
Proof.
  intros w c H.
  do 11 (destruct w as [|w];
         [vm_compute in H;
          repeat (destruct H as [<-|H]; [vm_compute; lia|]); destruct H|]).
  vm_compute in H. destruct H.
Qed.

Example ex_no_panic :
  gerr (const_propagate ex_graph) = 0 /\
  gerr (cg (compile_assign (optimize true ex_graph))) = 0.
Proof. exact (no_panic_pipeline true ex_graph ex_wfg ex_wfb ex_wfx ex_wfe). Qed.

(* ---- a graph built without cc.ZeroWire()/cc.OneWire() ---------------- *)

(* inputs w0 w1 w2; w3 = w0 AND w1 has fan-out 2; w4 = w3 XOR w2 (output);
   w5 = INV w1 is unused (pruned); w6 = w3 OR w0 (output); the outputs are
   flagged sink wires (no ID gates, hence no zero wire) *)
Definition ex0_build : graph :=
  let G := empty_graph 3 in
  let '(G, w3) := gate_to_new G AND 0 1 in
  let '(G, w4) := gate_to_new G XOR w3 2 in
  let '(G, _) := inv_to_new G 1 in
  let '(G, w6) := gate_to_new G OR w3 0 in
  flag_outputs G [w4; w6].

Definition ex0_graph : graph := Eval vm_compute in ex0_build.

Example ex0_shape :
  gnw ex0_graph = 7 /\ gorder ex0_graph = [0; 1; 2; 3] /\ gouts ex0_graph = [4; 6] /\
  gzero ex0_graph = None /\ gone ex0_graph = None /\ ginv ex0_graph = None /\ gerr ex0_graph = 0.
Proof. vm_compute. repeat split. Qed.

Lemma ex0_unvalued : unvalued ex0_graph.
Proof. intros w. do 7 (destruct w as [|w]; [reflexivity|]). reflexivity. Qed.

Lemma ex0_wfg0 : wfg0 ex0_graph.
Proof.
  constructor.
  - vm_compute. repeat constructor; simpl; intuition; discriminate.
  - intros gid H. vm_compute in H. repeat (destruct H as [<-|H]; [reflexivity|]). destruct H.
  - intros l1 g l2 E.
    assert (TT : topo_ok ex0_graph [] (gorder ex0_graph) = true) by (vm_compute; reflexivity).
    exact (topo_ok_sound ex0_graph (gorder ex0_graph) [] TT l1 g l2 E).
Qed.

Lemma ex0_wfb : wfb ex0_graph.
Proof.
  constructor.
  - intros w. do 7 (destruct w as [|w]; [reflexivity|]). reflexivity.
  - intros g. do 4 (destruct g as [|g]; [reflexivity|]). reflexivity.
  - intros w H. vm_compute in H. repeat (destruct H as [<-|H]; [reflexivity|]). destruct H.
  - vm_compute. repeat constructor; simpl; intuition; discriminate.
  - intros w. do 7 (destruct w as [|w]; [vm_compute; split; intros H; try discriminate; intuition; discriminate|]).
    vm_compute. split; intros H; try discriminate. intuition; discriminate.
  - intros g H. vm_compute in H.
    repeat (destruct H as [<-|H]; [intros w Hw; vm_compute in Hw;
            repeat (destruct Hw as [<-|Hw]; [vm_compute; auto 12|]); destruct Hw|]). destruct H.
  - intros w c H. do 7 (destruct w as [|w]; [vm_compute in H |- *; intuition|]).
    vm_compute in H. destruct H.
  - intros g H. vm_compute in H.
    repeat (destruct H as [<-|H]; [intros w Hw; vm_compute in Hw;
            repeat (destruct Hw as [<-|Hw]; [reflexivity|]); destruct Hw|]). destruct H.
  - intros g H. vm_compute in H. repeat (destruct H as [<-|H]; [vm_compute; lia|]). destruct H.
  - intros o H. vm_compute in H. destruct H as [<-|[<-|[]]].
    + exists 1. vm_compute. auto 12.
    + exists 3. vm_compute. auto 12.
Qed.

Lemma ex0_wfx : wfx ex0_graph.
Proof.
  constructor.
  - vm_compute. repeat constructor; simpl; intuition; discriminate.
  - intros c w H. vm_compute in H.
    repeat (destruct H as [<-|H];
            [do 7 (destruct w as [|w]; [vm_compute; lia|]); vm_compute; lia|]). destruct H.
  - intros w. do 7 (destruct w as [|w]; [vm_compute; lia|]). vm_compute. lia.
  - intros h H. vm_compute in H. repeat (destruct H as [<-|H]; [reflexivity|]). destruct H.
  - intros w p H. do 7 (destruct w as [|w]; [vm_compute in H; try discriminate; inversion H; subst; vm_compute; auto 12|]).
    vm_compute in H. discriminate.
  - intros c H. vm_compute in H.
    repeat (destruct H as [<-|H]; [split; [vm_compute; lia|intros w Hw; vm_compute in Hw;
            repeat (destruct Hw as [<-|Hw]; [vm_compute; lia|]); destruct Hw]|]). destruct H.
  - intros w H. vm_compute in H. repeat (destruct H as [<-|H]; [vm_compute; lia|]). destruct H.
  - intros o H. vm_compute in H. repeat (destruct H as [<-|H]; [vm_compute; lia|]). destruct H.
  - intros k [H|H]; vm_compute in H; discriminate.
Qed.

Definition all_inputs3 : list (list bool) :=
  [[false; false; false]; [true; false; false]; [false; true; false]; [true; true; false];
   [false; false; true]; [true; false; true]; [false; true; true]; [true; true; true]].

(* not degenerate: Prune kills the unused INV, the outputs are not constant *)
Example ex0_dead_gate :
  let G3 := optimize true ex0_graph in
  existsb (fun g => ndead (gn G3 g)) (seq 0 (gnn G3)) = true /\
  length (gorder G3) < length (gorder ex0_graph) /\
  existsb (fun x => negb (lb_eqb (graph_eval ex0_graph x) (graph_eval ex0_graph [false; false; false])))
          all_inputs3 = true.
Proof. vm_compute. repeat split; auto. Qed.

Example ex0_pipeline :
  forall (do_prune : bool) t x, length x = 3 ->
    eval_plain (pipeline do_prune t ex0_graph) x = graph_eval ex0_graph x.
Proof.
  intros p t x Hx.
  exact (pipeline_correct_unvalued p t ex0_graph x ex0_wfg0 ex0_wfb ex0_wfx ex0_unvalued Hx).
Qed.
