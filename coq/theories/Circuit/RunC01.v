(* RunC01.v — executable entry point of the C01 model for the correspondence
   check.  input  = ((key bytes) (nwires ninputs noutputs) ((op in0 in1 out)...)
                     (rnd labels...) (x bits...) (scratch (L0 L1)...))
   output = (R ((L0 L1)...) ((row...)...) (evaluated output labels...)
             (decoded bits...) (plain bits...))
   A second kind of case (first item the atom 1 instead of the key list) runs the
   []*big.Int layer of Circuit.Compute (Circuit/ComputeIO.v):
   input  = (1 (nwires ninputs noutputs) ((op in0 in1 out)...)
               ((bits (compound member bits...))...)   declared Inputs
               ((bits (compound member bits...))...)   declared Outputs
               (argument values...))                   may be negative / over-wide
   output = (0 (results...)) | (1 got expected) "invalid inputs" | (2) panic  *)
From Coq Require Import ZArith NArith List Bool.
From Mpc Require Import Gen.Consts Base.Sx Base.Label Base.Aes Circuit.Circuit Circuit.Garble Circuit.ComputeIO.
Import ListNotations.

(* circuit.Operation enum values come from the regenerated Gen/Consts.v *)
Definition op_of_Z (z : Z) : op :=
  if Z.eqb z circuit_XOR then XOR else if Z.eqb z circuit_XNOR then XNOR
  else if Z.eqb z circuit_AND then AND else if Z.eqb z circuit_OR then OR else INV.

Definition gate_of_sx (s : sx) : gate :=
  mkGate (getnat (nthx 1 s)) (getnat (nthx 2 s)) (getnat (nthx 3 s)) (op_of_Z (getZ (nthx 0 s))).

Definition circuit_of_sx (dims gs : sx) : circuit :=
  mkCircuit (getnat (nthx 0 dims)) (getnat (nthx 1 dims)) (getnat (nthx 2 dims))
            (map gate_of_sx (getL gs)).

Definition wire_of_sx (s : sx) : wire := mkWire (getN (nthx 0 s)) (getN (nthx 1 s)).
Definition sx_of_wire (w : wire) : sx := SL [ofN (L0 w); ofN (L1 w)].

Definition opt_bit (o : option bool) : sx :=
  match o with Some b => ofB b | None => SZ (-1) end.

Definition run_c01_garble (inp : sx) : sx :=
  let rks := aes_schedule (getLN (nthx 0 inp)) in
  let pi := aes_pi rks in
  let c := circuit_of_sx (nthx 1 inp) (nthx 2 inp) in
  let rl := getLN (nthx 3 inp) in
  let rnd := fun i => nth i rl 0%N in
  let x := getLB (nthx 4 inp) in
  let scratch := map wire_of_sx (getL (nthx 5 inp)) in
  let g := garble pi rnd scratch c in
  match geval pi c (encode g c x) (gTables g) with
  | None => sx_err 1
  | Some ew =>
      let outs := output_wires c in
      SL [ ofN (gR g);
           SL (map sx_of_wire (gWires g));
           SL (map ofLN (gTables g));
           ofLN (map (fun o => nth o ew 0%N) outs);
           SL (map (fun o => opt_bit (decode (nth o (gWires g) w0) (nth o ew 0%N))) outs);
           ofLB (eval_plain c x) ]
  end.

Definition ioarg_of_sx (s : sx) : ioarg := mkIO (getnat (nthx 0 s)) (getLnat (nthx 1 s)).

Definition sx_of_cres (r : cres) : sx :=
  match r with
  | COk l => SL [SZ 0; ofLZ l]
  | CErrArgs g e => SL [SZ 1; ofnat g; ofnat e]
  | CPanic => SL [SZ 2]
  end.

Definition run_c01_io (inp : sx) : sx :=
  let c := circuit_of_sx (nthx 1 inp) (nthx 2 inp) in
  sx_of_cres (compute_io c (map ioarg_of_sx (getL (nthx 3 inp)))
                           (map ioarg_of_sx (getL (nthx 4 inp)))
                           (getLZ (nthx 5 inp))).

Definition run_c01 (inp : sx) : sx :=
  match nthx 0 inp with
  | SZ 1%Z => run_c01_io inp
  | _ => run_c01_garble inp
  end.

Lemma op_enum_ok :
  map op_of_Z [circuit_XOR; circuit_XNOR; circuit_AND; circuit_OR; circuit_INV]
  = [XOR; XNOR; AND; OR; INV].
Proof. vm_compute. reflexivity. Qed.

(* What the circuit-file parsers enforced before /repo commit 407ba55: [wf] without "no gate
   writes an input wire" (since 407ba55 both parsers reject such a gate: finding F35, fixed). *)
Definition wf_parser (c : circuit) : bool :=
  (ninputs c <=? nwires c)%nat && (noutputs c <=? nwires c)%nat &&
  wf_gates (nwires c) 0 (init_asg c) (gates c) &&
  forallb (fun w => nth w (final_asg (init_asg c) (gates c)) false) (output_wires c).

(* a parser-accepted circuit whose first gate overwrites input wire 0 *)
Definition overwrite_circuit : circuit :=
  mkCircuit 3 2 1 [mkGate 0 1 0 XOR; mkGate 0 1 2 AND].

Definition decoded_outputs (pi : N -> N) (rnd : nat -> N) (c : circuit) (x : list bool) : option (list (option bool)) :=
  let g := garble pi rnd [] c in
  match geval pi c (encode g c x) (gTables g) with
  | None => None
  | Some ew => Some (map (fun o => decode (nth o (gWires g) w0) (nth o ew 0%N)) (output_wires c))
  end.

(* The hypothesis "no gate writes an input wire" of C01 cannot be dropped: the
   garbler hands out input labels from Garbled.Wires AFTER garbling, so for a
   circuit that overwrites an input wire the evaluated output label is not one
   of the output wire's labels (BitFromLabel errors) although Compute is defined. *)
Lemma input_overwrite_refuted :
  wf_parser overwrite_circuit = true /\ wf overwrite_circuit = false /\
  eval_plain overwrite_circuit [true; true] = [false] /\
  decoded_outputs (aes_pi (aes_schedule (be_bytes 16 7))) (fun i => N.of_nat (1000 + 37 * i))
                  overwrite_circuit [true; true] = Some [None].
Proof. vm_compute. repeat split. Qed.
