(* GGarble.v — the garbling of one gate (Gate.garbleInto in circuit/garble.go,
   Streaming.garbleGate in circuit/stream_garble.go: the same code twice)
   written once, generically over
     - the point-and-permute bit function [sbitf],
     - a stateful hash oracle [H] (state type [St]).
   Instantiated concretely (St = unit, H = the fixed-key AES hashes) it IS
   the C01 model's garble_gate (GGarbleProof.ggate_concrete); instantiated
   symbolically (H = memoising random oracle returning fresh basis
   elements) it yields the transcript analysed for C04.  No proofs here. *)
From Coq Require Import NArith List Bool Arith.
From Mpc Require Import Base.Label Circuit.Circuit Circuit.Garble.
Import ListNotations.
Open Scope N_scope.

Inductive hkind := HHalf | HFull.
(* what is hashed: kind, label a, label b (0 for half / unary), tweak as
   NewTweak makes it (uint32) *)
Definition hkey := (hkind * N * N * N)%type.

Section GG.
  Variable St : Type.
  Variable sbitf : N -> bool.
  Variable H : hkey -> St -> N * St.

  Definition gidx (l0 l1 : N) : nat :=
    ((if sbitf l0 then 2 else 0) + (if sbitf l1 then 1 else 0))%nat.
  Definition gidxU (l0 : N) : nat := if sbitf l0 then 1%nat else 0%nat.

  Definition ggate_core (r : N) (a b : wire) (o : op) (id : N) (st : St)
    : wire * N * list N * St :=
    match o with
    | XOR =>
        let l0 := lxor (L0 a) (L0 b) in (mkWire l0 (lxor l0 r), id, [], st)
    | XNOR =>
        let l0 := lxor (L0 a) (L0 b) in (mkWire (lxor l0 r) l0, id, [], st)
    | AND =>
        let '(ha0, st) := H (HHalf, L0 a, 0, tweak id) st in
        let '(ha1, st) := H (HHalf, L1 a, 0, tweak id) st in
        let '(hb0, st) := H (HHalf, L0 b, 0, tweak (id + 1)) st in
        let '(hb1, st) := H (HHalf, L1 b, 0, tweak (id + 1)) st in
        let pa := sbitf (L0 a) in
        let pb := sbitf (L0 b) in
        let tg := xor_if pb (lxor ha0 ha1) r in
        let wg0 := xor_if pa ha0 tg in
        let te := lxor (lxor hb0 hb1) (L0 a) in
        let we0 := if pb then lxor (lxor hb0 te) (L0 a) else hb0 in
        let l0 := lxor wg0 we0 in
        (mkWire l0 (lxor l0 r), id + 2, [tg; te], st)
    | OR =>
        let '(h00, st) := H (HFull, L0 a, L0 b, tweak id) st in
        let '(h01, st) := H (HFull, L0 a, L1 b, tweak id) st in
        let '(h10, st) := H (HFull, L1 a, L0 b, tweak id) st in
        let '(h11, st) := H (HFull, L1 a, L1 b, tweak id) st in
        let t := [0; 0; 0; 0] in
        let t := upd t (gidx (L0 a) (L0 b)) h00 in
        let t := upd t (gidx (L0 a) (L1 b)) h01 in
        let t := upd t (gidx (L1 a) (L0 b)) h10 in
        let t := upd t (gidx (L1 a) (L1 b)) h11 in
        let l0i := gidx (L0 a) (L0 b) in
        let cl := nth 0 t 0 in
        let c0 := if Nat.eqb l0i 0 then cl else lxor cl r in
        let c1 := if Nat.eqb l0i 0 then lxor cl r else cl in
        let t := mapi (fun i e => lxor e (if Nat.eqb i l0i then c0 else c1)) t in
        (mkWire c0 c1, id + 1, tl t, st)
    | INV =>
        let '(h0, st) := H (HFull, L0 a, 0, tweak id) st in
        let '(h1, st) := H (HFull, L1 a, 0, tweak id) st in
        let t := [0; 0] in
        let t := upd t (gidxU (L0 a)) h0 in
        let t := upd t (gidxU (L1 a)) h1 in
        let l0i := gidxU (L0 a) in
        let cl := nth 0 t 0 in
        let c0 := if Nat.eqb l0i 0 then lxor cl r else cl in
        let c1 := if Nat.eqb l0i 0 then cl else lxor cl r in
        let t := mapi (fun i e => lxor e (if Nat.eqb i l0i then c1 else c0)) t in
        (mkWire c0 c1, id + 1, tl t, st)
    end.

  (* whole-circuit gate loop (Circuit.Garble) *)
  Fixpoint ggates (r : N) (gw : list wire) (id : N) (st : St) (gs : list gate)
    : list wire * N * list (list N) * St :=
    match gs with
    | [] => (gw, id, [], st)
    | g :: gs' =>
        let '(c, id', row, st') :=
          ggate_core r (nth (gin0 g) gw w0) (nth (gin1 g) gw w0) (gop g) id st in
        let '(gwf, idf, rows, stf) := ggates r (upd gw (gout g) c) id' st' gs' in
        (gwf, idf, row :: rows, stf)
    end.
End GG.

(* ---- concrete instance: the fixed-key hashes of circuit/garble.go *)
Definition conc_H (pi : N -> N) (k : hkey) (st : unit) : N * unit :=
  match k with
  | (HHalf, a, _, t) => (half pi a t, st)
  | (HFull, a, b, t) => (enc pi a b 0 t, st)
  end.

(* ---- symbolic instance (idealised): a value is a GF(2)-combination of
   basis elements, encoded as a bitset in N:
     bit 0      the point-and-permute bit of the value (so it xors linearly),
     bit 1      the coefficient of the secret offset R,
     bit n+2    the coefficient of basis element n (a random label or a
                hash output).
   R itself is 3 (its S bit is forced to 1).  The hash is a memoising
   random oracle: a key never seen before yields a fresh basis element with
   an arbitrary S bit [perm n]; a key seen before yields the same value. *)
Definition Rsym : N := 3.
Definition basis (perm : nat -> bool) (n : nat) : N :=
  N.lxor (2 ^ (N.of_nat n + 2)) (if perm n then 1 else 0).

Record sst := mkSst { snext : nat; stable : list (hkey * nat) }.

Definition hkey_eqb (x y : hkey) : bool :=
  let '(k1, a1, b1, t1) := x in
  let '(k2, a2, b2, t2) := y in
  (match k1, k2 with HHalf, HHalf | HFull, HFull => true | _, _ => false end)
  && N.eqb a1 a2 && N.eqb b1 b2 && N.eqb t1 t2.

Fixpoint slookup (k : hkey) (tb : list (hkey * nat)) : option nat :=
  match tb with
  | [] => None
  | (k', n) :: rest => if hkey_eqb k k' then Some n else slookup k rest
  end.

Definition sym_H (perm : nat -> bool) (k : hkey) (st : sst) : N * sst :=
  match slookup k (stable st) with
  | Some n => (basis perm n, st)
  | None => (basis perm (snext st), mkSst (S (snext st)) ((k, snext st) :: stable st))
  end.

Definition sym_sbit (v : N) : bool := N.testbit v 0.

(* symbolic whole-circuit garbling: input wire i has L0 = basis i *)
Definition sym_inputs (perm : nat -> bool) (n : nat) : list wire :=
  map (fun i => mkWire (basis perm i) (lxor (basis perm i) Rsym)) (seq 0 n).

Definition sym_garble (perm : nat -> bool) (c : circuit) : list wire * list (list N) :=
  let gw := sym_inputs perm (ninputs c) ++ repeat w0 (nwires c - ninputs c) in
  let '(gwf, _, rows, _) :=
    ggates sst sym_sbit (sym_H perm) Rsym gw 0 (mkSst (ninputs c) []) (gates c) in
  (gwf, rows).

(* everything the garbler transmits that depends on labels, in creation
   order: the active label of every input wire (its own inputs directly, the
   evaluator's through the OT, which delivers exactly one per wire — C06),
   then the garbled rows gate by gate *)
Definition sym_transcript (perm : nat -> bool) (c : circuit) (x : list bool) : list N :=
  let '(gwf, rows) := sym_garble perm c in
  map (fun i => pick (nth i gwf w0) (nth i x false)) (seq 0 (ninputs c)) ++ concat rows.

(* no transmitted value is R and no two transmitted values differ by R *)
Definition r_safe (R : N) (tr : list N) : Prop :=
  (forall u, In u tr -> u <> R) /\
  (forall i j, (i < length tr)%nat -> (j < length tr)%nat -> lxor (nth i tr 0) (nth j tr 0) <> R).

(* executable version of the same predicate: list of offending index pairs
   (i <= j; i = j encodes "value i is R itself") *)
Definition r_pairs (R : N) (tr : list N) : list (nat * nat) :=
  flat_map (fun i =>
    (if N.eqb (nth i tr 0) R then [(i, i)] else []) ++
    flat_map (fun j => if N.eqb (lxor (nth i tr 0) (nth j tr 0)) R then [(i, j)] else [])
             (seq (S i) (length tr - S i)))
    (seq 0 (length tr)).

(* number of tweaks a gate list consumes *)
Definition tweaks_of (gs : list gate) : N :=
  fold_right (fun g acc => (match gop g with AND => 2 | OR | INV => 1 | _ => 0 end) + acc) 0 gs.

(* ------------------------------------------------------------------ *)
(* Streaming mode (circuit/stream_garble.go).  One streamed circuit works
   on its inputs/outputs through the global wire store and on its
   intermediate wires in the session-long [tmp] array: Streaming.Get/Set.
   With the store at addresses [0, G) and tmp wire t at address G + t, a
   streamed circuit is the flat gate list [sflat G c] over one memory. *)
Record scirc := mkSC { sc_gates : list gate; sc_nw : nat; sc_in : list nat; sc_out : list nat }.

Definition saddr (G : nat) (c : scirc) (w : nat) : nat :=
  if (w <? length (sc_in c))%nat then nth w (sc_in c) 0%nat
  else if (sc_nw c - length (sc_out c) <=? w)%nat
       then nth (w - (sc_nw c - length (sc_out c))) (sc_out c) 0%nat
       else (G + w)%nat.

Definition sflat (G : nat) (c : scirc) : list gate :=
  map (fun g => mkGate (saddr G c (gin0 g)) (saddr G c (gin1 g)) (saddr G c (gout g)) (gop g))
      (sc_gates c).

Section GS.
  Variable St : Type.
  Variable sbitf : N -> bool.
  Variable H : hkey -> St -> N * St.

  (* tweak counter carried through the whole session *)
  Definition gstream_session (G : nat) (r : N) (mem : list wire) (st : St) (steps : list scirc)
    : list wire * N * list (list N) * St :=
    ggates St sbitf H r mem 0 st (concat (map (sflat G) steps)).

  (* tweak counter restarted at 0 for every streamed circuit (the code
     before the fix: `var id uint32` inside Streaming.Garble) *)
  Fixpoint gstream_reset (G : nat) (r : N) (mem : list wire) (st : St) (steps : list scirc)
    : list wire * list (list N) * St :=
    match steps with
    | [] => (mem, [], st)
    | c :: rest =>
        let '(mem', _, rows, st') := ggates St sbitf H r mem 0 st (sflat G c) in
        let '(memf, rows', stf) := gstream_reset G r mem' st' rest in
        (memf, rows ++ rows', stf)
    end.
End GS.

(* symbolic streaming transcript: the session's [ni] input wires get basis
   labels; every one of them is transmitted once (own inputs directly, the
   peer's through the OT); then the rows of every streamed gate *)
Definition sym_stream_mem (perm : nat -> bool) (ni n : nat) : list wire :=
  sym_inputs perm ni ++ repeat w0 (n - ni).

Definition sym_stream_transcript (reset : bool) (perm : nat -> bool) (G ni n : nat)
           (steps : list scirc) (x : list bool) : list N :=
  let mem := sym_stream_mem perm ni n in
  let rows :=
    if reset then
      let '(_, rows, _) := gstream_reset sst sym_sbit (sym_H perm) G Rsym mem (mkSst ni []) steps in rows
    else
      let '(_, _, rows, _) := gstream_session sst sym_sbit (sym_H perm) G Rsym mem (mkSst ni []) steps in rows in
  map (fun i => pick (nth i mem w0) (nth i x false)) (seq 0 ni) ++ concat rows.
