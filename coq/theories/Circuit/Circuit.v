(* Circuit.v — model of circuit.Circuit / circuit.Gate (circuit/circuit.go)
   and of Circuit.Compute (circuit/computer.go). *)
From Coq Require Import NArith List Bool Arith Lia.
Import ListNotations.

Inductive op := XOR | XNOR | AND | OR | INV.

Record gate := mkGate { gin0 : nat; gin1 : nat; gout : nat; gop : op }.

Record circuit := mkCircuit {
  nwires : nat;      (* Circuit.NumWires *)
  ninputs : nat;     (* Circuit.Inputs.Size() *)
  noutputs : nat;    (* Circuit.Outputs.Size() *)
  gates : list gate
}.

(* array write wires[i] = v (in range; out of range is excluded by [wf]) *)
Fixpoint upd {A} (l : list A) (i : nat) (v : A) : list A :=
  match l, i with
  | [], _ => []
  | _ :: t, O => v :: t
  | h :: t, S j => h :: upd t j v
  end.

Lemma upd_length {A} (l : list A) i v : length (upd l i v) = length l.
Proof. revert i; induction l as [|h t IH]; intros [|j]; simpl; auto. Qed.

Lemma nth_upd_eq {A} (l : list A) i v d : i < length l -> nth i (upd l i v) d = v.
Proof.
  revert i; induction l as [|h t IH]; intros [|j] H; simpl in *; try lia; auto.
  apply IH; lia.
Qed.

Lemma nth_upd_neq {A} (l : list A) i j v d : i <> j -> nth j (upd l i v) d = nth j l d.
Proof.
  revert i j; induction l as [|h t IH]; intros [|i] [|j] H; simpl; auto; try lia.
Qed.

Definition gate_fn (o : op) (a b : bool) : bool :=
  match o with
  | XOR => xorb a b
  | XNOR => negb (xorb a b)
  | AND => andb a b
  | OR => orb a b
  | INV => negb a
  end.

(* one iteration of the gate loop of Circuit.Compute *)
Definition eval_gate (ws : list bool) (g : gate) : list bool :=
  upd ws (gout g) (gate_fn (gop g) (nth (gin0 g) ws false) (nth (gin1 g) ws false)).

Definition init_wires (c : circuit) (x : list bool) : list bool :=
  firstn (ninputs c) x ++ repeat false (nwires c - ninputs c).

Definition eval_plain_wires (c : circuit) (x : list bool) : list bool :=
  fold_left eval_gate (gates c) (init_wires c x).

(* the last Outputs.Size() wires *)
Definition output_wires (c : circuit) : list nat :=
  seq (nwires c - noutputs c) (noutputs c).

Definition eval_plain (c : circuit) (x : list bool) : list bool :=
  map (fun w => nth w (eval_plain_wires c x) false) (output_wires c).

(* Well-formedness: what ParseMPCLC/ParseBristol enforce and the compiler
   produces.  Ids in range, every gate input assigned before use, every
   output wire assigned at the end, and no gate writes an *input* wire
   (a gate may overwrite an intermediate wire).  The last condition is not
   enforced by the parsers; the compiler's circuits are single-assignment.
   Without it the protocol is not even well-defined: the garbler sends the
   input labels from Garbled.Wires *after* garbling. *)
Definition gate_ok (n ni : nat) (asg : list bool) (g : gate) : bool :=
  (gin0 g <? n) && (gout g <? n) && (ni <=? gout g) && nth (gin0 g) asg false &&
  match gop g with
  | INV => true
  | _ => (gin1 g <? n) && nth (gin1 g) asg false
  end.

Fixpoint wf_gates (n ni : nat) (asg : list bool) (gs : list gate) : bool :=
  match gs with
  | [] => true
  | g :: gs' => gate_ok n ni asg g && wf_gates n ni (upd asg (gout g) true) gs'
  end.

Definition final_asg (asg : list bool) (gs : list gate) : list bool :=
  fold_left (fun a g => upd a (gout g) true) gs asg.

Definition init_asg (c : circuit) : list bool :=
  repeat true (ninputs c) ++ repeat false (nwires c - ninputs c).

Definition wf (c : circuit) : bool :=
  (ninputs c <=? nwires c) && (noutputs c <=? nwires c) &&
  wf_gates (nwires c) (ninputs c) (init_asg c) (gates c) &&
  forallb (fun w => nth w (final_asg (init_asg c) (gates c)) false) (output_wires c).
