(* PoolProof.v — theorems about the scratch-pool model of Pool.v, by induction
   over the step relation: all interleavings of any number of goroutines, all
   programs (histories), all resolutions of pool.Get(), arbitrary pool drops. *)
From Coq Require Import Arith List Bool PeanoNat Lia.
From Mpc Require Import Circuit.Pool.
Import ListNotations.

Lemma upd_same {A} (f : nat -> A) i v : upd f i v i = v.
Proof. unfold upd. now rewrite Nat.eqb_refl. Qed.
Lemma upd_other {A} (f : nat -> A) i j v : j <> i -> upd f i v j = f j.
Proof. unfold upd. intros H. apply Nat.eqb_neq in H. now rewrite H. Qed.

(* ------------------------------------------------------------------ *)
(** * Ownership invariant *)

(* where a scratch is: in a pool, held by a goroutine inside Garble, or owned
   by a live handle.  The invariant says that every occurrence of a scratch
   in the state is recorded by ONE function [loc]; since a function has one
   value per scratch, no scratch is in two places. *)
Inductive place := InPool (p : nat) | Held (t : nat) | Live (t hi : nat).

Definition Own (st : state) (loc : nat -> option place) : Prop :=
  (forall p, NoDup (s_pool st p)) /\
  (forall p s, In s (s_pool st p) -> loc s = Some (InPool p) /\ s < s_nscr st) /\
  (forall t seed p s, t_pc (s_thr st t) = GFill seed p s -> loc s = Some (Held t) /\ s < s_nscr st) /\
  (forall t hi, live (s_thr st t) hi = true ->
     loc (h_scr (t_h (s_thr st t) hi)) = Some (Live t hi) /\
     h_scr (t_h (s_thr st t) hi) < s_nscr st /\
     s_contents st (h_scr (t_h (s_thr st t) hi)) = h_gid (t_h (s_thr st t) hi)).

Definition Inv (st : state) : Prop := s_dput st = false /\ exists loc, Own st loc.

Lemma remove_nth_In i : forall l x, In x (remove_nth i l) -> In x l.
Proof.
  induction i as [|i IH]; intros [|a r] x; simpl; auto.
  intros [->|H]; auto.
Qed.

Lemma remove_nth_NoDup i : forall l, NoDup l -> NoDup (remove_nth i l).
Proof.
  induction i as [|i IH]; intros [|a r] ND; simpl; auto; inversion ND; subst; auto.
  constructor; auto. intros H. apply remove_nth_In in H. contradiction.
Qed.

Lemma remove_nth_nth i : forall l, NoDup l -> i < length l -> ~ In (nth i l 0) (remove_nth i l).
Proof.
  induction i as [|i IH]; intros [|a r] ND Hl; simpl in *; try lia; inversion ND; subst; auto.
  intros [H|H].
  - apply H1. rewrite H. apply nth_In. lia.
  - revert H. apply IH; auto. lia.
Qed.

Lemma NoDup_snoc (l : list nat) s : NoDup l -> ~ In s l -> NoDup (l ++ [s]).
Proof.
  induction l as [|a r IH]; simpl; intros ND Hn.
  - constructor; [intros []|constructor].
  - inversion ND; subst. constructor.
    + intros H. apply in_app_or in H. destruct H as [H|[H|[]]]; [contradiction|]. apply Hn. now left.
    + apply IH; auto.
Qed.

(* steps that change neither the pools, the contents, the scratch counter nor
   any place of goroutine t *)
Lemma own_frame st st' loc t th' :
  Own st loc ->
  s_pool st' = s_pool st -> s_contents st' = s_contents st -> s_nscr st' = s_nscr st ->
  s_thr st' = upd (s_thr st) t th' ->
  (forall hi, live th' hi = true -> live (s_thr st t) hi = true /\ t_h th' hi = t_h (s_thr st t) hi) ->
  (forall seed p s, t_pc th' = GFill seed p s -> t_pc (s_thr st t) = GFill seed p s) ->
  Own st' loc.
Proof.
  intros (O1 & O2 & O3 & O4) Hp Hc Hn Ht Hl Hg. unfold Own. rewrite Hp, Hc, Hn, Ht.
  split; [assumption|]. split; [assumption|]. split.
  - intros t' seed p s. destruct (Nat.eq_dec t' t) as [->|Hne].
    + rewrite upd_same. intros H. apply (O3 t seed p s). now apply Hg.
    + rewrite upd_other by assumption. apply O3.
  - intros t' hi. destruct (Nat.eq_dec t' t) as [->|Hne].
    + rewrite upd_same. intros H. destruct (Hl hi H) as (A & ->). now apply O4.
    + rewrite upd_other by assumption. apply O4.
Qed.

Lemma live_pc_irrelevant th pc' hi :
  (forall h, t_pc th <> RClear h) -> (forall h, pc' <> RClear h) ->
  live (th_pc th pc') hi = live th hi.
Proof.
  intros H1 H2. unfold live, th_pc. simpl.
  destruct (t_pc th); try (exfalso; eapply H1; reflexivity);
    destruct pc'; try (exfalso; eapply H2; reflexivity); reflexivity.
Qed.

Lemma live_ret th r hi :
  (forall h, t_pc th <> RClear h) -> live (th_ret th r) hi = live th hi.
Proof.
  intros H1. unfold live, th_ret. simpl.
  destruct (t_pc th); try (exfalso; eapply H1; reflexivity); reflexivity.
Qed.

Ltac frame_pc HO :=
  eexists; eapply own_frame; [exact HO|reflexivity|reflexivity|reflexivity|reflexivity| |];
  [ let hx := fresh "hx" in let Hlx := fresh "Hlx" in
    intros hx Hlx; split; [|reflexivity];
    first [ rewrite live_pc_irrelevant in Hlx; [exact Hlx|congruence|congruence]
          | rewrite live_ret in Hlx; [exact Hlx|congruence] ]
  | simpl; intros; congruence ].

Lemma step_dput t ch st st' : s_dput st = false -> step t ch st = Some st' -> s_dput st' = false.
Proof.
  intros Hd H. unfold step in H.
  destruct (t_pc (s_thr st t)); [destruct (t_prog (s_thr st t)) as [|[]]| | | | | | |];
    repeat match type of H with
           | None = Some _ => discriminate
           | Some _ = Some _ => injection H as <-; simpl; assumption
           | context [match ?x with _ => _ end] => destruct x
           end.
Qed.

Lemma step_inv t ch st st' : Inv st -> step t ch st = Some st' -> Inv st'.
Proof.
  intros (Hdp & loc & HO) Hstep. split; [revert Hstep; apply step_dput; assumption|]. revert Hstep.
  pose proof HO as (O1 & O2 & O3 & O4).
  unfold step. set (th := s_thr st t) in *.
  destruct (t_pc th) eqn:Hpc.
  - (* Idle: next call *)
    destruct (t_prog th) as [|[seed|seed site|hi|hi|x] prog] eqn:Hprog; [discriminate| | | | |].
    + (* Garble: Load *)
      destruct (s_ptr st) as [p|]; intros [= <-]; frame_pc HO.
    + (* failing Garble: Load *)
      destruct (s_ptr st) as [p|]; intros [= <-]; frame_pc HO.
    + (* Release *)
      destruct (h_pool (t_h th hi)) as [p|] eqn:Hp.
      2:{ intros [= <-]. frame_pc HO. }
      destruct (hi <? t_nh th) eqn:Hhi.
      2:{ intros [= <-]. frame_pc HO. }
      (* Put *)
      intros [= <-].
      assert (Hlive : live th hi = true).
      { unfold live. rewrite Hhi, Hp, Hpc. reflexivity. }
      destruct (O4 t hi Hlive) as (L1 & L2 & L3). fold th in L1, L2, L3.
      set (s := h_scr (t_h th hi)) in *.
      exists (upd loc s (Some (InPool p))). unfold Own. simpl. split; [|split; [|split]].
      * intros p'. unfold upd at 1. destruct (p' =? p) eqn:Ep; [|apply O1].
        apply Nat.eqb_eq in Ep. subst p'. apply NoDup_snoc; [apply O1|].
        intros Hin. destruct (O2 p s Hin) as (A & _). congruence.
      * intros p' s'. unfold upd at 1. destruct (p' =? p) eqn:Ep.
        -- apply Nat.eqb_eq in Ep. subst p'. intros Hin. apply in_app_or in Hin.
           destruct Hin as [Hin|[<-|[]]].
           ++ destruct (O2 p s' Hin) as (A & B). split; [|assumption].
              rewrite upd_other; [assumption|]. intros ->. congruence.
           ++ rewrite upd_same. auto.
        -- intros Hin. destruct (O2 p' s' Hin) as (A & B). split; [|assumption].
           rewrite upd_other; [assumption|]. intros ->. congruence.
      * intros t' seed p' s'. destruct (Nat.eq_dec t' t) as [->|Hne].
        -- rewrite upd_same. simpl. discriminate.
        -- rewrite (upd_other _ t t') by assumption. intros H. destruct (O3 t' seed p' s' H) as (A & B).
           split; [|assumption]. rewrite upd_other; [assumption|]. intros ->. congruence.
      * intros t' hi'. destruct (Nat.eq_dec t' t) as [->|Hne].
        -- rewrite upd_same. unfold live, th_pc. simpl. intros H.
           assert (Hne : hi' <> hi).
           { intros ->. rewrite Nat.eqb_refl in H. simpl in H. rewrite andb_false_r in H. discriminate. }
           assert (Hl' : live th hi' = true).
           { unfold live. rewrite Hpc. apply andb_true_iff in H. destruct H as (H & _). rewrite H. reflexivity. }
           destruct (O4 t hi' Hl') as (A & B & C). fold th in A, B, C. split; [|split; assumption].
           rewrite upd_other; [assumption|]. intros E. rewrite E in A. congruence.
        -- rewrite (upd_other _ t t') by assumption. intros H. destruct (O4 t' hi' H) as (A & B & C).
           split; [|split; assumption]. rewrite upd_other; [assumption|]. intros E. rewrite E in A. congruence.
    + (* Eval: first read *)
      destruct (h_pool (t_h th hi)) as [p|] eqn:Hp.
      2:{ intros [= <-]. frame_pc HO. }
      destruct (hi <? t_nh th); intros [= <-]; frame_pc HO.
    + (* Compute *)
      intros [= <-]. frame_pc HO.
  - (* CAS *)
    destruct (s_ptr st); [|destruct (s_late st)]; intros [= <-]; frame_pc HO.
  - (* Load after a lost CAS *)
    destruct (s_ptr st); intros [= <-]; frame_pc HO.
  - (* late New (regression variant only) *)
    intros [= <-]. frame_pc HO.
  - (* pool.Get() *)
    destruct (ch <? length (s_pool st p)) eqn:Hch.
    + (* an element of the pool *)
      apply Nat.ltb_lt in Hch. intros [= <-]. set (s := nth ch (s_pool st p) 0).
      assert (Hin : In s (s_pool st p)) by (apply nth_In; assumption).
      destruct (O2 p s Hin) as (Ls & Bs).
      exists (upd loc s (Some (Held t))). unfold Own. simpl. split; [|split; [|split]].
      * intros p'. unfold upd at 1. destruct (p' =? p); [apply remove_nth_NoDup|]; apply O1.
      * intros p' s'. unfold upd at 1. destruct (p' =? p) eqn:Ep.
        -- apply Nat.eqb_eq in Ep. subst p'. intros Hin'.
           assert (s' <> s) by (intros ->; revert Hin'; apply remove_nth_nth; auto).
           apply remove_nth_In in Hin'. destruct (O2 p s' Hin') as (A & B). split; [|assumption].
           now rewrite upd_other.
        -- intros Hin'. destruct (O2 p' s' Hin') as (A & B). split; [|assumption].
           rewrite upd_other; [assumption|]. intros ->. rewrite A in Ls. injection Ls as ->.
           now rewrite Nat.eqb_refl in Ep.
      * intros t' seed' p' s'. destruct (Nat.eq_dec t' t) as [->|Hne].
        -- rewrite upd_same. simpl. intros [= <- <- <-]. rewrite upd_same. auto.
        -- rewrite (upd_other _ t t') by assumption. intros H. destruct (O3 t' seed' p' s' H) as (A & B).
           split; [|assumption]. rewrite upd_other; [assumption|]. intros ->. congruence.
      * intros t' hi'. destruct (Nat.eq_dec t' t) as [->|Hne].
        -- rewrite upd_same. intros H. rewrite live_pc_irrelevant in H; [|fold th; congruence|congruence].
           destruct (O4 t hi' H) as (A & B & C). fold th in A, B, C. simpl. split; [|split; assumption].
           rewrite upd_other; [assumption|]. intros E. rewrite E in A. congruence.
        -- rewrite (upd_other _ t t') by assumption. intros H. destruct (O4 t' hi' H) as (A & B & C).
           split; [|split; assumption]. rewrite upd_other; [assumption|]. intros E. rewrite E in A. congruence.
    + (* New() *)
      destruct (negb (s_newset st p)); [intros [= <-]; frame_pc HO|].
      intros [= <-]. set (s := s_nscr st).
      exists (upd loc s (Some (Held t))). unfold Own. simpl. split; [|split; [|split]].
      * apply O1.
      * intros p' s' Hin'. destruct (O2 p' s' Hin') as (A & B). split; [|lia].
        rewrite upd_other; [assumption|]. unfold s. lia.
      * intros t' seed' p' s'. destruct (Nat.eq_dec t' t) as [->|Hne].
        -- rewrite upd_same. simpl. intros [= <- <- <-]. rewrite upd_same. split; [reflexivity|]. unfold s. lia.
        -- rewrite (upd_other _ t t') by assumption. intros H. destruct (O3 t' seed' p' s' H) as (A & B).
           split; [|lia]. rewrite upd_other; [assumption|]. unfold s. lia.
      * intros t' hi'. destruct (Nat.eq_dec t' t) as [->|Hne].
        -- rewrite upd_same. intros H. rewrite live_pc_irrelevant in H; [|fold th; congruence|congruence].
           destruct (O4 t hi' H) as (A & B & C). fold th in A, B, C. simpl.
           rewrite !upd_other by (unfold s; lia). split; [assumption|]. split; [lia|assumption].
        -- rewrite (upd_other _ t t') by assumption. intros H. destruct (O4 t' hi' H) as (A & B & C).
           rewrite !upd_other by (unfold s; lia). split; [assumption|]. split; [lia|assumption].
  - (* fill the scratch: return the handle, or fail and put the scratch back *)
    destruct (O3 t seed p s Hpc) as (Ls & Bs).
    assert (Succ : exists loc', Own (mkState (s_ptr st) (s_npools st) (s_pool st) (upd (s_contents st) s seed) (s_nscr st)
                     (upd (s_thr st) t (mkThread (tl (t_prog th)) Idle (S (t_nh th))
                        (upd (t_h th) (t_nh th) (mkHandle s (Some p) seed)) (RGarble seed :: t_res th))) (s_dput st) (s_newset st) (s_late st)) loc').
    {
    exists (upd loc s (Some (Live t (t_nh th)))). unfold Own. simpl. split; [|split; [|split]].
      + apply O1.
      + intros p' s' Hin'. destruct (O2 p' s' Hin') as (A & B). split; [|assumption].
        rewrite upd_other; [assumption|]. intros ->. congruence.
      + intros t' seed' p' s'. destruct (Nat.eq_dec t' t) as [->|Hne].
        * rewrite upd_same. simpl. discriminate.
        * rewrite (upd_other _ t t') by assumption. intros H. destruct (O3 t' seed' p' s' H) as (A & B).
          split; [|assumption]. rewrite upd_other; [assumption|]. intros ->. congruence.
      + intros t' hi'. destruct (Nat.eq_dec t' t) as [->|Hne].
        * rewrite upd_same. unfold live. simpl. intros H.
          apply andb_true_iff in H. destruct H as (H & _). apply andb_true_iff in H. destruct H as (H1 & H2).
          apply Nat.ltb_lt in H1. destruct (Nat.eq_dec hi' (t_nh th)) as [->|Eh].
          -- rewrite !upd_same. cbn [h_scr h_gid h_pool]. rewrite ?upd_same. auto.
          -- rewrite (upd_other (t_h th)) in H2 by assumption.
             rewrite !(upd_other (t_h th) (t_nh th) hi') by assumption.
             assert (Hl' : live th hi' = true).
             { unfold live. rewrite Hpc. rewrite andb_true_r. apply andb_true_iff. split; [apply Nat.ltb_lt; lia|exact H2]. }
             destruct (O4 t hi' Hl') as (A & B & C). fold th in A, B, C.
             assert (h_scr (t_h th hi') <> s) by (intros E; rewrite E in A; congruence).
             rewrite !upd_other by assumption. auto.
        * rewrite (upd_other _ t t') by assumption. intros H. destruct (O4 t' hi' H) as (A & B & C).
          assert (h_scr (t_h (s_thr st t') hi') <> s) by (intros E; rewrite E in A; congruence).
          rewrite !upd_other by assumption. auto.
    }
    destruct (t_prog th) as [|[seed0|seed0 site|hi0|hi0|x0] prog0] eqn:Hprog; try (intros [= <-]; exact Succ).
    (* the failing Garble *)
    rewrite Hdp. simpl andb. cbv iota. intros [= <-].
    assert (Hnin : forall p', ~ In s (s_pool st p')).
    { intros p' Hin. destruct (O2 p' s Hin) as (A & _). congruence. }
    assert (Cont : forall (b : bool) x, x <> s -> (if b then upd (s_contents st) s seed else s_contents st) x = s_contents st x).
    { intros b x Hx. destruct b; [now rewrite upd_other|reflexivity]. }
    exists (upd loc s (Some (InPool p))). unfold Own. simpl. split; [|split; [|split]].
    + intros p'. unfold upd at 1. destruct (p' =? p) eqn:Ep; [|apply O1].
      apply Nat.eqb_eq in Ep. subst p'. apply NoDup_snoc; [apply O1|apply Hnin].
    + intros p' s'. unfold upd at 1. destruct (p' =? p) eqn:Ep.
      * apply Nat.eqb_eq in Ep. subst p'. intros Hin. apply in_app_or in Hin. destruct Hin as [Hin|[<-|[]]].
        -- destruct (O2 p s' Hin) as (A & B). split; [|assumption]. rewrite upd_other; [assumption|]. intros ->. now apply (Hnin p).
        -- rewrite upd_same. auto.
      * intros Hin. destruct (O2 p' s' Hin) as (A & B). split; [|assumption].
        rewrite upd_other; [assumption|]. intros ->. now apply (Hnin p').
    + intros t' seed' p' s'. destruct (Nat.eq_dec t' t) as [->|Hne].
      * rewrite upd_same. simpl. discriminate.
      * rewrite (upd_other _ t t') by assumption. intros H. destruct (O3 t' seed' p' s' H) as (A & B).
        split; [|assumption]. rewrite upd_other; [assumption|]. intros ->. congruence.
    + intros t' hi'. destruct (Nat.eq_dec t' t) as [->|Hne].
      * rewrite upd_same. intros H. rewrite live_ret in H by (fold th; congruence).
        destruct (O4 t hi' H) as (A & B & C). fold th in A, B, C. unfold th_ret. cbn [t_h].
        assert (Hs : h_scr (t_h th hi') <> s) by (intros E; rewrite E in A; congruence).
        rewrite upd_other by assumption. rewrite Cont by assumption. auto.
      * rewrite (upd_other _ t t') by assumption. intros H. destruct (O4 t' hi' H) as (A & B & C).
        assert (Hs : h_scr (t_h (s_thr st t') hi') <> s) by (intros E; rewrite E in A; congruence).
        rewrite upd_other by assumption. rewrite Cont by assumption. auto.
  - (* Release: clear the fields *)
    intros [= <-]. eexists. eapply own_frame; [exact HO|reflexivity|reflexivity|reflexivity|reflexivity| |].
    + intros hi' H. unfold live in H. simpl in H.
      apply andb_true_iff in H. destruct H as (H & _). apply andb_true_iff in H. destruct H as (H1 & H2).
      unfold upd in H2. destruct (hi' =? hi) eqn:Eh; [simpl in H2; discriminate|].
      split.
      * unfold live. fold th. rewrite Hpc, H1, H2. simpl. rewrite Nat.eqb_sym, Eh. reflexivity.
      * simpl. unfold upd. now rewrite Eh.
    + simpl. intros; congruence.
  - (* Eval: last read *)
    intros [= <-]. frame_pc HO.
Qed.

Lemma exec_inv st it : Inv st -> Inv (exec st it).
Proof.
  intros HI. destruct it as [t ch|p i]; simpl.
  - destruct (step t ch st) eqn:Hs; [eapply step_inv; eauto|exact HI].
  - (* sync.Pool drops an element *)
    destruct HI as (Hd & loc & O1 & O2 & O3 & O4). split; [exact Hd|]. exists loc. unfold Own. simpl. split; [|split; [|split]]; auto.
    + intros p'. unfold upd. destruct (p' =? p); [apply remove_nth_NoDup|]; apply O1.
    + intros p' s. unfold upd. destruct (p' =? p) eqn:Ep; [|apply O2].
      apply Nat.eqb_eq in Ep. subst p'. intros H. apply remove_nth_In in H. now apply O2.
Qed.

Lemma init_inv progs : Inv (init progs).
Proof.
  split; [reflexivity|]. exists (fun _ => None). unfold Own, init, init_cfg. simpl. split; [intros; constructor|].
  split; [intros p s []|]. split; [intros; discriminate|].
  intros t hi H. unfold live, init_thread in H. simpl in H. discriminate.
Qed.

Lemma run_inv sched : forall st, Inv st -> Inv (run_from st sched).
Proof.
  induction sched as [|it r IH]; intros st HI; [exact HI|].
  unfold run_from in *. simpl. apply IH. now apply exec_inv.
Qed.

(* ------------------------------------------------------------------ *)
(** * Consequences *)

Section Reachable.
Variable progs : list (list op).
Variable sched : list sitem.
Let st := run_from (init progs) sched.

(* C17_exclusive *)
Lemma exclusive_handles t1 h1 t2 h2 :
  live (s_thr st t1) h1 = true -> live (s_thr st t2) h2 = true ->
  h_scr (t_h (s_thr st t1) h1) = h_scr (t_h (s_thr st t2) h2) -> t1 = t2 /\ h1 = h2.
Proof.
  destruct (run_inv sched _ (init_inv progs)) as (_ & loc & _ & _ & _ & O4). fold st in O4.
  intros L1 L2 E. destruct (O4 t1 h1 L1) as (A & _). destruct (O4 t2 h2 L2) as (B & _).
  rewrite E in A. rewrite A in B. injection B as -> ->. auto.
Qed.

Lemma exclusive_pool t h p :
  live (s_thr st t) h = true -> ~ In (h_scr (t_h (s_thr st t) h)) (s_pool st p).
Proof.
  destruct (run_inv sched _ (init_inv progs)) as (_ & loc & _ & O2 & _ & O4). fold st in O2, O4.
  intros L Hin. destruct (O4 t h L) as (A & _). destruct (O2 _ _ Hin) as (B & _). congruence.
Qed.

Lemma exclusive_held t h t' seed p s :
  live (s_thr st t) h = true -> t_pc (s_thr st t') = GFill seed p s ->
  h_scr (t_h (s_thr st t) h) <> s /\ (forall p', ~ In s (s_pool st p')) /\
  (forall t'' seed' p', t_pc (s_thr st t'') = GFill seed' p' s -> t'' = t').
Proof.
  destruct (run_inv sched _ (init_inv progs)) as (_ & loc & _ & O2 & O3 & O4). fold st in O2, O3, O4.
  intros L H. destruct (O4 t h L) as (A & _). destruct (O3 _ _ _ _ H) as (B & _). split; [|split].
  - intros E. rewrite E in A. congruence.
  - intros p' Hin. destruct (O2 _ _ Hin) as (C & _). congruence.
  - intros t'' seed' p' H'. destruct (O3 _ _ _ _ H') as (C & _). congruence.
Qed.

Lemma pool_nodup p : NoDup (s_pool st p).
Proof. destruct (run_inv sched _ (init_inv progs)) as (_ & loc & O1 & _). apply O1. Qed.

(* C17_valid_until_release *)
Lemma valid_until_release t h :
  live (s_thr st t) h = true ->
  s_contents st (h_scr (t_h (s_thr st t) h)) = h_gid (t_h (s_thr st t) h).
Proof.
  destruct (run_inv sched _ (init_inv progs)) as (_ & loc & _ & _ & _ & O4). fold st in O4.
  intros L. now destruct (O4 t h L) as (_ & _ & C).
Qed.

End Reachable.

(* ------------------------------------------------------------------ *)
(** * One pool *)

Lemma step_ptr_stable t ch st st' p : step t ch st = Some st' -> s_ptr st = Some p -> s_ptr st' = Some p.
Proof.
  unfold step. intros H Hp. rewrite Hp in H.
  destruct (t_pc (s_thr st t)); [destruct (t_prog (s_thr st t)) as [|[]]| | | | | | |];
    repeat match type of H with
           | None = Some _ => discriminate
           | Some _ = Some _ => injection H as <-; simpl; auto
           | context [match ?x with _ => _ end] => destruct x
           end.
Qed.

Lemma exec_ptr_stable st it p : s_ptr st = Some p -> s_ptr (exec st it) = Some p.
Proof.
  intros Hp. destruct it as [t ch|q i]; simpl; [|assumption].
  destruct (step t ch st) eqn:Hs; [eapply step_ptr_stable; eauto|assumption].
Qed.

Lemma run_ptr_stable sched : forall st p, s_ptr st = Some p -> s_ptr (run_from st sched) = Some p.
Proof.
  induction sched as [|it r IH]; intros st p Hp; [exact Hp|].
  unfold run_from in *. simpl. apply IH. now apply exec_ptr_stable.
Qed.

(* ---- initialise, then publish *)
Lemma step_frame t ch st st' t' : step t ch st = Some st' -> t' <> t -> s_thr st' t' = s_thr st t'.
Proof.
  intros H Hne. unfold step in H.
  destruct (t_pc (s_thr st t)); [destruct (t_prog (s_thr st t)) as [|[]]| | | | | | |];
    repeat match type of H with
           | None = Some _ => discriminate
           | Some _ = Some _ => injection H as <-; simpl; now rewrite upd_other
           | context [match ?x with _ => _ end] => destruct x
           end.
Qed.

(* the pool object is complete (its New function is set) before anybody can
   see it: when it is the CompareAndSwap argument, when it is installed, when
   a goroutine is about to Get from it *)
Definition InitInv (st : state) : Prop :=
  s_late st = false /\
  (forall p, s_ptr st = Some p -> s_newset st p = true) /\
  (forall t seed p, t_pc (s_thr st t) = GCas seed p \/ t_pc (s_thr st t) = GGet seed p -> s_newset st p = true) /\
  (forall t seed p, t_pc (s_thr st t) <> GInit seed p).

Lemma step_initinv t ch st st' : InitInv st -> step t ch st = Some st' -> InitInv st'.
Proof.
  intros (Hl & I1 & I2 & I3) H. pose proof (fun t0 => step_frame t ch st st' t0 H) as Other.
  assert (Goal0 : s_late st' = false /\
                 (forall x, s_newset st x = true -> s_newset st' x = true) /\
                 (forall p, s_ptr st' = Some p -> s_ptr st = Some p \/ s_newset st' p = true) /\
                 (forall seed p, t_pc (s_thr st' t) = GCas seed p \/ t_pc (s_thr st' t) = GGet seed p -> s_newset st' p = true) /\
                 (forall seed p, t_pc (s_thr st' t) <> GInit seed p)).
  { unfold step in H. rewrite Hl in H. simpl negb in H. cbv iota in H.
    destruct (t_pc (s_thr st t)) eqn:Hpc.
    - destruct (t_prog (s_thr st t)) as [|[seed|seed site|hi|hi|x] rest]; [discriminate| | | | |].
      + destruct (s_ptr st) as [p|] eqn:Hp; injection H as <-; simpl; rewrite upd_same; simpl;
          (split; [first [assumption|reflexivity]|]); (split; [intros x Hx; unfold upd; destruct (x =? s_npools st); auto|]);
          (split; [intros p0 Hp0; first [left; congruence|discriminate]|]); split; try (intros; discriminate).
        * intros seed0 p0 [E|E]; [discriminate|]. injection E as _ <-. auto.
        * intros seed0 p0 [E|E]; [|discriminate]. injection E as _ <-. now rewrite upd_same.
      + destruct (s_ptr st) as [p|] eqn:Hp; injection H as <-; simpl; rewrite upd_same; simpl;
          (split; [first [assumption|reflexivity]|]); (split; [intros x Hx; unfold upd; destruct (x =? s_npools st); auto|]);
          (split; [intros p0 Hp0; first [left; congruence|discriminate]|]); split; try (intros; discriminate).
        * intros seed0 p0 [E|E]; [discriminate|]. injection E as _ <-. auto.
        * intros seed0 p0 [E|E]; [|discriminate]. injection E as _ <-. now rewrite upd_same.
      + destruct (h_pool (t_h (s_thr st t) hi)); [destruct (hi <? t_nh (s_thr st t))|]; injection H as <-; simpl;
          rewrite upd_same; simpl; repeat split; auto; try (intros; discriminate); intros ? ? [E|E]; discriminate.
      + destruct (h_pool (t_h (s_thr st t) hi)); [destruct (hi <? t_nh (s_thr st t))|]; injection H as <-; simpl;
          rewrite upd_same; simpl; repeat split; auto; try (intros; discriminate); intros ? ? [E|E]; discriminate.
      + injection H as <-; simpl; rewrite upd_same; simpl; repeat split; auto; try (intros; discriminate); intros ? ? [E|E]; discriminate.
    - assert (Np : s_newset st p = true) by (apply (I2 t seed p); now left).
      destruct (s_ptr st) as [q|] eqn:Hp; injection H as <-; simpl; rewrite upd_same; simpl;
        (split; [first [assumption|reflexivity]|]); (split; [auto|]); split.
      + intros p0 Hp0. left. congruence.
      + split; [intros ? ? [E|E]; discriminate|intros; discriminate].
      + intros p0 [= <-]. now right.
      + split; [|intros; discriminate]. intros seed0 p0 [E|E]; [discriminate|]. injection E as _ <-. exact Np.
    - destruct (s_ptr st) as [q|] eqn:Hp; injection H as <-; simpl; rewrite upd_same; simpl;
        (split; [first [assumption|reflexivity]|]); (split; [auto|]); (split; [intros p0 Hp0; first [left; congruence|discriminate]|]); split; try (intros; discriminate).
      + intros seed0 p0 [E|E]; [discriminate|]. injection E as _ <-. auto.
      + intros ? ? [E|E]; discriminate.
    - exfalso. exact (I3 t seed p Hpc).
    - destruct (ch <? length (s_pool st p)); [|destruct (negb (s_newset st p))]; injection H as <-; simpl;
        rewrite upd_same; simpl; repeat split; auto; try (intros; discriminate); intros ? ? [E|E]; discriminate.
    - destruct (t_prog (s_thr st t)) as [|[]]; injection H as <-; simpl; rewrite upd_same; simpl;
        repeat split; auto; try (intros; discriminate); intros ? ? [E|E]; discriminate.
    - injection H as <-; simpl; rewrite upd_same; simpl; repeat split; auto; try (intros; discriminate); intros ? ? [E|E]; discriminate.
    - injection H as <-; simpl; rewrite upd_same; simpl; repeat split; auto; try (intros; discriminate); intros ? ? [E|E]; discriminate. }
  destruct Goal0 as (G1 & G2 & G3 & G4 & G5). split; [exact G1|]. split; [|split].
  - intros p Hp. destruct (G3 p Hp) as [A|A]; [apply G2; auto|exact A].
  - intros t' seed p. destruct (Nat.eq_dec t' t) as [->|Hne]; [apply G4|]. rewrite Other by assumption.
    intros E. apply G2. eapply I2; eauto.
  - intros t' seed p. destruct (Nat.eq_dec t' t) as [->|Hne]; [apply G5|]. rewrite Other by assumption. apply I3.
Qed.

(* every pool a goroutine is about to use, and the pool of every handle, is
   the installed one: CAS losers use the winner's *)
Definition PoolInv (st : state) : Prop :=
  (forall t seed p, t_pc (s_thr st t) = GGet seed p -> s_ptr st = Some p) /\
  (forall t seed p s, t_pc (s_thr st t) = GFill seed p s -> s_ptr st = Some p) /\
  (forall t hi p, h_pool (t_h (s_thr st t) hi) = Some p -> s_ptr st = Some p).

Lemma step_poolinv t ch st st' : InitInv st -> PoolInv st -> step t ch st = Some st' -> PoolInv st'.
Proof.
  intros (Hl & _ & _ & Hni) (P1 & P2 & P3) H.
  assert (Stable : forall p, s_ptr st = Some p -> s_ptr st' = Some p)
    by (intros p; eapply step_ptr_stable; eauto).
  assert (Other : forall t', t' <> t -> s_thr st' t' = s_thr st t').
  { intros t' Hne. unfold step in H.
    destruct (t_pc (s_thr st t)); [destruct (t_prog (s_thr st t)) as [|[]]| | | | | | |];
      repeat match type of H with
             | None = Some _ => discriminate
             | Some _ = Some _ => injection H as <-; simpl; now rewrite upd_other
             | context [match ?x with _ => _ end] => destruct x
             end. }
  unfold PoolInv. split; [|split].
  - intros t' seed p. destruct (Nat.eq_dec t' t) as [->|Hne].
    + unfold step in H. rewrite Hl in H. destruct (t_pc (s_thr st t)) eqn:Hpc;
        [destruct (t_prog (s_thr st t)) as [|[]]| | |exfalso; exact (Hni _ _ _ Hpc)| | | |];
        repeat match type of H with
               | None = Some _ => discriminate
               | Some _ = Some _ => injection H as <-; simpl; rewrite upd_same; simpl;
                                    try discriminate; try (intros [= <- <-]); auto
               | context [match ?x with _ => _ end] => destruct x eqn:?
               end.
    + rewrite Other by assumption. intros Hg. apply Stable. eapply P1; eauto.
  - intros t' seed p s. destruct (Nat.eq_dec t' t) as [->|Hne].
    + unfold step in H. rewrite Hl in H. destruct (t_pc (s_thr st t)) eqn:Hpc;
        [destruct (t_prog (s_thr st t)) as [|[]]| | |exfalso; exact (Hni _ _ _ Hpc)| | | |];
        repeat match type of H with
               | None = Some _ => discriminate
               | Some _ = Some _ => injection H as <-; simpl; rewrite upd_same; simpl;
                                    try discriminate; try (intros [= <- <- <-]); eauto
               | context [match ?x with _ => _ end] => destruct x eqn:?
               end.
    + rewrite Other by assumption. intros Hg. apply Stable. eapply P2; eauto.
  - intros t' hi p. destruct (Nat.eq_dec t' t) as [->|Hne].
    + unfold step in H. rewrite Hl in H. destruct (t_pc (s_thr st t)) eqn:Hpc;
        [destruct (t_prog (s_thr st t)) as [|[]]| | |exfalso; exact (Hni _ _ _ Hpc)| | | |];
        repeat match type of H with
               | None = Some _ => discriminate
               | Some _ = Some _ => injection H as <-; simpl; rewrite upd_same; simpl
               | context [match ?x with _ => _ end] => destruct x eqn:?
               end;
        try (intros Hh; eapply P3; eauto; fail);
        try (intros Hh; apply Stable; eapply P3; eauto; fail).
      (* GFill: the new handle carries the pool the goroutine looked up *)
      all: try (unfold upd; destruct (hi =? t_nh (s_thr st t)); simpl;
                [intros [= <-]; eapply P2; eauto|intros Hh; eapply P3; eauto]; fail).
      (* RClear *)
      unfold upd. match goal with |- context [hi =? ?x] => destruct (hi =? x) end; simpl; [discriminate|].
      intros Hh. eapply P3; eauto.
    + rewrite Other by assumption. intros Hg. apply Stable. eapply P3; eauto.
Qed.

Lemma run_initinv progs sched : InitInv (run_from (init progs) sched).
Proof.
  assert (G : forall sched st, InitInv st -> InitInv (run_from st sched)).
  { induction sched0 as [|it r IH]; intros st HI; [exact HI|].
    unfold run_from in *. simpl. apply IH. destruct it as [t ch|p i]; simpl.
    - destruct (step t ch st) eqn:Hs; [eapply step_initinv; eauto|exact HI].
    - exact HI. }
  apply G. unfold InitInv, init, init_cfg. simpl. repeat split; intros; try discriminate.
  destruct H; discriminate.
Qed.

Lemma run_poolinv progs sched : PoolInv (run_from (init progs) sched).
Proof.
  assert (G : forall sched st, InitInv st -> PoolInv st -> InitInv (run_from st sched) /\ PoolInv (run_from st sched)).
  { induction sched0 as [|it r IH]; intros st HN HI; [split; assumption|].
    unfold run_from in *. simpl. destruct it as [t ch|p i]; simpl.
    - destruct (step t ch st) eqn:Hs; [|now apply IH].
      apply IH; [eapply step_initinv; eauto|eapply step_poolinv; eauto].
    - apply IH; assumption. }
  apply G.
  - apply (run_initinv progs []).
  - unfold PoolInv, init, init_cfg. simpl. repeat split; intros; discriminate.
Qed.

(* ------------------------------------------------------------------ *)
(** * Release twice *)

(* shared part of the state *)
Definition shared_eq (a b : state) : Prop :=
  s_ptr a = s_ptr b /\ s_npools a = s_npools b /\ s_pool a = s_pool b /\
  s_contents a = s_contents b /\ s_nscr a = s_nscr b.

(* the step that completes Release leaves the handle with no pool ... *)
Lemma release_clears t ch st st' hi :
  t_pc (s_thr st t) = RClear hi -> step t ch st = Some st' ->
  h_pool (t_h (s_thr st' t) hi) = None /\ t_pc (s_thr st' t) = Idle.
Proof.
  unfold step. intros ->. intros [= <-]. simpl. rewrite !upd_same. simpl. rewrite upd_same. auto.
Qed.

(* ... and Release on such a handle is one step that touches nothing shared,
   puts nothing into any pool and leaves every handle as it is *)
Lemma release_again t ch st st' hi rest :
  t_pc (s_thr st t) = Idle -> t_prog (s_thr st t) = ORelease hi :: rest ->
  h_pool (t_h (s_thr st t) hi) = None -> step t ch st = Some st' ->
  shared_eq st st' /\ t_h (s_thr st' t) = t_h (s_thr st t) /\ t_nh (s_thr st' t) = t_nh (s_thr st t) /\
  t_pc (s_thr st' t) = Idle /\ t_prog (s_thr st' t) = rest /\ t_res (s_thr st' t) = RUnit :: t_res (s_thr st t) /\
  (forall t', t' <> t -> s_thr st' t' = s_thr st t').
Proof.
  intros Hpc Hprog Hh. unfold step. rewrite Hpc, Hprog, Hh. intros [= <-]. simpl.
  rewrite !upd_same. simpl. rewrite Hprog. simpl.
  split; [repeat split|]. split; [reflexivity|]. split; [reflexivity|]. split; [reflexivity|].
  split; [reflexivity|]. split; [reflexivity|]. intros t' Hne. now apply upd_other.
Qed.

(* ------------------------------------------------------------------ *)
(** * Eval returns the handle's own garbling *)

Definition EvalInv (st : state) : Prop :=
  forall t hi v1, t_pc (s_thr st t) = EEnd hi v1 ->
    live (s_thr st t) hi = true /\ v1 = h_gid (t_h (s_thr st t) hi).

Lemma step_evalinv t ch st st' : Inv st -> EvalInv st -> step t ch st = Some st' -> EvalInv st'.
Proof.
  intros (_ & loc & O1 & O2 & O3 & O4) HE H.
  assert (Other : forall t', t' <> t -> s_thr st' t' = s_thr st t').
  { intros t' Hne. unfold step in H.
    destruct (t_pc (s_thr st t)); [destruct (t_prog (s_thr st t)) as [|[]]| | | | | | |];
      repeat match type of H with
             | None = Some _ => discriminate
             | Some _ = Some _ => injection H as <-; simpl; now rewrite upd_other
             | context [match ?x with _ => _ end] => destruct x
             end. }
  intros t' hi v1. destruct (Nat.eq_dec t' t) as [->|Hne].
  - unfold step in H. destruct (t_pc (s_thr st t)) eqn:Hpc;
      [destruct (t_prog (s_thr st t)) as [|[]] eqn:Hprog| | | | | | |];
      repeat match type of H with
             | None = Some _ => discriminate
             | Some _ = Some _ => injection H as <-; simpl; rewrite upd_same; simpl; try discriminate
             | context [match ?x with _ => _ end] => destruct x eqn:?
             end.
    all: try (destruct (s_late st); simpl; discriminate).
    (* the only step that enters EEnd: the first read of Eval *)
    intros [= <- <-].
    assert (Hl : live (s_thr st t) hi0 = true).
    { unfold live. rewrite Hpc. rewrite andb_true_r. apply andb_true_iff. split; [assumption|].
      now rewrite Heqo. }
    split.
    + unfold live, th_pc. simpl. unfold live in Hl. rewrite Hpc in Hl. exact Hl.
    + now destruct (O4 t hi0 Hl) as (_ & _ & C).
  - rewrite Other by assumption. apply HE.
Qed.

Lemma run_evalinv progs sched : EvalInv (run_from (init progs) sched).
Proof.
  assert (G : forall sched st, Inv st -> EvalInv st -> Inv (run_from st sched) /\ EvalInv (run_from st sched)).
  { induction sched0 as [|it r IH]; intros st HI HE; [split; assumption|].
    unfold run_from in *. simpl. apply IH.
    - now apply exec_inv.
    - destruct it as [t ch|p i]; simpl.
      + destruct (step t ch st) eqn:Hs; [eapply step_evalinv; eauto|exact HE].
      + exact HE. }
  apply G; [apply init_inv|]. intros t hi v1. unfold init, init_thread. simpl. discriminate.
Qed.

(* the result of every Eval in every interleaving: the garbling of the handle
   it was called on, seen unchanged from the first to the last read — what the
   same call returns when no other goroutine exists ([solo]) *)
Lemma eval_result progs sched t ch hi v1 st' :
  let st := run_from (init progs) sched in
  t_pc (s_thr st t) = EEnd hi v1 -> step t ch st = Some st' ->
  t_res (s_thr st' t) = REval (h_gid (t_h (s_thr st t) hi)) :: t_res (s_thr st t).
Proof.
  intros st Hpc Hs. destruct (run_evalinv progs sched t hi v1 Hpc) as (Hl & ->). fold st in Hl.
  pose proof (valid_until_release progs sched t hi Hl) as Hv. fold st in Hv.
  unfold step in Hs. rewrite Hpc in Hs. injection Hs as <-. simpl. rewrite upd_same. simpl.
  rewrite Hv, Nat.eqb_refl. reflexivity.
Qed.

(* ------------------------------------------------------------------ *)
(** * Linearizability: every goroutine's results are those of its program run alone *)

Definition abs (th : thread) (hi : nat) : nat * bool :=
  (h_gid (t_h th hi), match h_pool (t_h th hi) with None => true | Some _ => false end).

Definition gprog (th : thread) (seed : nat) : Prop :=
  exists r, t_prog th = OGarble seed :: r \/ exists site, t_prog th = OGarbleFail seed site :: r.

Definition pc_ok (st : state) (th : thread) : Prop :=
  match t_pc th with
  | Idle => True
  | GCas seed _ | GInit seed _ | GGet seed _ | GFill seed _ _ => gprog th seed
  | GLoad seed => gprog th seed /\ s_ptr st <> None
  | RClear hi => exists r, t_prog th = ORelease hi :: r /\ hi < t_nh th /\ h_pool (t_h th hi) <> None
  | EEnd hi _ => exists r, t_prog th = OEval hi :: r
  end.

Definition lin_ok (prog0 : list op) (th : thread) : Prop :=
  rev (t_res th) ++ solo (t_prog th) (t_nh th) (abs th) = solo_run prog0.

Definition LinInv (progs : list (list op)) (st : state) : Prop :=
  forall t, pc_ok st (s_thr st t) /\ lin_ok (nth t progs []) (s_thr st t).

Lemma solo_ext prog : forall nh f g, (forall hi, f hi = g hi) -> solo prog nh f = solo prog nh g.
Proof.
  induction prog as [|[seed|seed site|hi|hi|x] r IH]; intros nh f g H; simpl; auto.
  - f_equal. apply IH. intros hi. unfold upd. destruct (hi =? nh); auto.
  - f_equal. now apply IH.
  - f_equal. rewrite (H hi). destruct ((hi <? nh) && negb (snd (g hi))); apply IH; auto.
    intros hi'. unfold upd. destruct (hi' =? hi); auto.
  - rewrite (H hi). f_equal. now apply IH.
  - f_equal. now apply IH.
Qed.

Lemma lin_push prog0 res r rest nh f g :
  rev res ++ r :: solo rest nh g = solo_run prog0 -> (forall hi, f hi = g hi) ->
  rev (r :: res) ++ solo rest nh f = solo_run prog0.
Proof.
  intros H E. simpl. rewrite <- app_assoc. simpl. rewrite (solo_ext rest nh f g E). exact H.
Qed.

Lemma step_other t ch st st' t' : step t ch st = Some st' -> t' <> t -> s_thr st' t' = s_thr st t'.
Proof.
  intros H Hne. unfold step in H.
  destruct (t_pc (s_thr st t)); [destruct (t_prog (s_thr st t)) as [|[]]| | | | | | |];
    repeat match type of H with
           | None = Some _ => discriminate
           | Some _ = Some _ => injection H as <-; simpl; now rewrite upd_other
           | context [match ?x with _ => _ end] => destruct x
           end.
Qed.

Lemma step_lininv progs t ch st st' :
  Inv st -> InitInv st -> EvalInv st -> LinInv progs st -> step t ch st = Some st' -> LinInv progs st'.
Proof.
  intros (_ & loc & O1 & O2 & O3 & O4) (Hlate & _ & IN2 & IN3) HE HL H t'.
  destruct (Nat.eq_dec t' t) as [->|Hne].
  2:{ rewrite (step_other _ _ _ _ _ H Hne). destruct (HL t') as (A & B). split; [|exact B].
      unfold pc_ok in *. destruct (t_pc (s_thr st t')); auto. destruct A as (A1 & A2). split; [assumption|].
      destruct (s_ptr st) as [p|] eqn:Hp; [|contradiction]. rewrite (step_ptr_stable _ _ _ _ _ H Hp). discriminate. }
  destruct (HL t) as (PC & LIN). unfold pc_ok in PC. unfold lin_ok in LIN.
  unfold step in H. rewrite Hlate in H. set (th := s_thr st t) in *.
  destruct (t_pc th) eqn:Hpc.
  - (* Idle *)
    destruct (t_prog th) as [|[seed|seed site|hi|hi|x] rest] eqn:Hprog; [discriminate| | | | |].
    + destruct (s_ptr st) as [p|]; injection H as <-; simpl; rewrite upd_same;
        (split; [unfold pc_ok, gprog; simpl; eauto|unfold lin_ok; simpl; rewrite Hprog; exact LIN]).
    + destruct (s_ptr st) as [p|]; injection H as <-; simpl; rewrite upd_same;
        (split; [unfold pc_ok, gprog; simpl; eauto|unfold lin_ok; simpl; rewrite Hprog; exact LIN]).
    + simpl in LIN. destruct (h_pool (t_h th hi)) as [p|] eqn:Hp.
      * destruct (hi <? t_nh th) eqn:Hhi; injection H as <-; simpl; rewrite upd_same.
        -- split.
           ++ unfold pc_ok. simpl. exists rest. apply Nat.ltb_lt in Hhi. rewrite Hp. repeat split; auto. discriminate.
           ++ unfold lin_ok. simpl. rewrite Hprog. simpl. rewrite Hhi, Hp. exact LIN.
        -- split; [exact I|]. unfold lin_ok, th_ret. cbn [t_res t_prog t_nh t_h]. rewrite Hprog. cbn [tl].
           eapply lin_push; [exact LIN|]. intros; reflexivity.
      * injection H as <-. simpl. rewrite upd_same. split; [exact I|].
        unfold lin_ok, th_ret. cbn [t_res t_prog t_nh t_h]. rewrite Hprog. cbn [tl].
        simpl in LIN. rewrite andb_false_r in LIN. eapply lin_push; [exact LIN|]. intros; reflexivity.
    + simpl in LIN. destruct (h_pool (t_h th hi)) as [p|] eqn:Hp.
      * destruct (hi <? t_nh th) eqn:Hhi; injection H as <-; simpl; rewrite upd_same.
        -- split; [unfold pc_ok; simpl; eauto|]. unfold lin_ok. simpl. rewrite Hprog. simpl. rewrite Hhi, Hp. exact LIN.
        -- split; [exact I|]. unfold lin_ok, th_ret. cbn [t_res t_prog t_nh t_h]. rewrite Hprog. cbn [tl].
           eapply lin_push; [exact LIN|]. intros; reflexivity.
      * injection H as <-. simpl. rewrite upd_same. split; [exact I|].
        unfold lin_ok, th_ret. cbn [t_res t_prog t_nh t_h]. rewrite Hprog. cbn [tl].
        simpl in LIN. rewrite andb_false_r in LIN.
        eapply lin_push; [exact LIN|]. intros; reflexivity.
    + injection H as <-. simpl. rewrite upd_same. split; [exact I|].
      unfold lin_ok, th_ret. cbn [t_res t_prog t_nh t_h]. rewrite Hprog. cbn [tl].
      simpl in LIN. eapply lin_push; [exact LIN|]. intros; reflexivity.
  - (* CAS *)
    destruct (s_ptr st) as [q|] eqn:Hptr; injection H as <-; simpl; rewrite upd_same.
    + split; [|exact LIN]. unfold pc_ok. simpl. split; [exact PC|]. rewrite Hptr. discriminate.
    + split; [|exact LIN]. unfold pc_ok. simpl. exact PC.
  - (* Load *)
    destruct PC as (PC & Hnn).
    destruct (s_ptr st) as [q|] eqn:Hptr; [|contradiction]. injection H as <-. simpl. rewrite upd_same.
    split; [|exact LIN]. unfold pc_ok. simpl. exact PC.
  - (* late New: not reachable *)
    exfalso. exact (IN3 t seed p Hpc).
  - (* Get: the pool has its New function, so Get never returns nil *)
    rewrite (IN2 t seed p (or_intror Hpc)) in H. simpl negb in H. cbv iota in H.
    destruct (ch <? length (s_pool st p)); injection H as <-; simpl; rewrite upd_same;
      (split; [unfold pc_ok; simpl; exact PC|exact LIN]).
  - (* Fill *)
    destruct PC as (r & [Hprog|(site & Hprog)]); rewrite Hprog in H; injection H as <-; simpl; rewrite upd_same;
      (split; [exact I|]).
    + unfold lin_ok. cbn [t_res t_prog t_nh t_h]. rewrite Hprog in *. cbn [tl]. simpl in LIN.
      eapply lin_push; [exact LIN|]. intros hi. unfold abs. cbn [t_h]. unfold upd.
      destruct (hi =? t_nh th); reflexivity.
    + unfold lin_ok, th_ret. cbn [t_res t_prog t_nh t_h]. rewrite Hprog in *. cbn [tl]. simpl in LIN.
      eapply lin_push; [exact LIN|]. intros; reflexivity.
  - (* Release: clear *)
    destruct PC as (r & Hprog & Hhi & Hp). injection H as <-. simpl. rewrite upd_same. split; [exact I|].
    unfold lin_ok. cbn [t_res t_prog t_nh t_h]. rewrite Hprog in *. cbn [tl]. simpl in LIN.
    apply Nat.ltb_lt in Hhi. rewrite Hhi in LIN. unfold abs in LIN at 1.
    destruct (h_pool (t_h th hi)) eqn:Hpool; [|contradiction]. simpl in LIN.
    eapply lin_push; [exact LIN|]. intros hi'. unfold abs. cbn [t_h]. unfold upd.
    destruct (hi' =? hi) eqn:Eh; [|reflexivity]. apply Nat.eqb_eq in Eh. subst hi'. reflexivity.
  - (* Eval: last read *)
    destruct PC as (r & Hprog). destruct (HE t hi v1 Hpc) as (Hl & Hv). fold th in Hl, Hv.
    destruct (O4 t hi Hl) as (_ & _ & Hc). fold th in Hc.
    injection H as <-. simpl. rewrite upd_same. split; [exact I|].
    unfold lin_ok, th_ret. cbn [t_res t_prog t_nh t_h]. rewrite Hprog in *. cbn [tl]. simpl in LIN.
    rewrite Hc, Hv, Nat.eqb_refl.
    unfold live in Hl. apply andb_true_iff in Hl. destruct Hl as (Hl & _). apply andb_true_iff in Hl. destruct Hl as (Hl1 & Hl2).
    rewrite Hl1 in LIN. unfold abs in LIN. destruct (h_pool (t_h th hi)); [|discriminate]. simpl in LIN.
    eapply lin_push; [exact LIN|]. intros; reflexivity.
Qed.

Lemma run_lininv progs sched : LinInv progs (run_from (init progs) sched).
Proof.
  assert (G : forall sched st, Inv st -> InitInv st -> EvalInv st -> LinInv progs st ->
              LinInv progs (run_from st sched)).
  { induction sched0 as [|it r IH]; intros st HI HN HE HL; [exact HL|].
    unfold run_from in *. simpl. apply IH.
    - now apply exec_inv.
    - destruct it as [t ch|p i]; simpl; [|exact HN].
      destruct (step t ch st) eqn:Hs; [eapply step_initinv; eauto|exact HN].
    - destruct it as [t ch|p i]; simpl; [|exact HE].
      destruct (step t ch st) eqn:Hs; [eapply step_evalinv; eauto|exact HE].
    - destruct it as [t ch|p i]; simpl.
      + destruct (step t ch st) eqn:Hs; [eapply step_lininv; eauto|exact HL].
      + intros t. destruct (HL t) as (A & B). split; [|exact B]. unfold pc_ok in *. simpl.
        destruct (t_pc (s_thr st t)); auto. }
  apply G.
  - apply init_inv.
  - apply (run_initinv progs []).
  - intros t hi v1. unfold init, init_cfg, init_thread. simpl. discriminate.
  - intros t. unfold init, init_cfg, init_thread. simpl. split; [exact I|]. unfold lin_ok, solo_run. simpl. reflexivity.
Qed.

(* In every interleaving, at every moment, the results a goroutine has
   obtained so far followed by what the rest of its program yields alone are
   the results of its whole program run alone; when its program is finished,
   its results ARE those of the program run alone. *)
Lemma linearizable progs sched t :
  let th := s_thr (run_from (init progs) sched) t in
  rev (t_res th) ++ solo (t_prog th) (t_nh th) (abs th) = solo_run (nth t progs []) /\
  (t_prog th = [] -> rev (t_res th) = solo_run (nth t progs [])).
Proof.
  intros th. destruct (run_lininv progs sched t) as (_ & L). fold th in L. unfold lin_ok in L.
  split; [exact L|]. intros E. rewrite E in L. simpl in L. now rewrite app_nil_r in L.
Qed.

(* ------------------------------------------------------------------ *)
(** * Regression record: the double Put on a failing Garble *)

(* In the variant [s_dput = true] (the error returns inside the two loops of
   Garble put the scratch back twice: once explicitly, once through a deferred
   cleanup) the invariant breaks with ONE failed Garble followed by two
   overlapping garblings: both live handles are backed by the same scratch,
   the first handle's buffers hold the second one's garbling, the pool held
   the scratch twice. *)
Definition dput_progs : list (list op) := [[OGarbleFail 1 2; OGarble 2]; [OGarble 3]].
Definition dput_sched : list sitem :=
  [SThread 0 0; SThread 0 0; SThread 0 0; SThread 0 0;      (* Garble fails at the first input label *)
   SThread 0 0; SThread 0 0; SThread 0 0;                    (* goroutine 0 garbles: gets the scratch *)
   SThread 1 0; SThread 1 0; SThread 1 0].                   (* goroutine 1 garbles: gets it, too *)

Lemma double_put_refuted :
  let st := run_from (init_cfg true false dput_progs) dput_sched in
  live (s_thr st 0) 0 = true /\ live (s_thr st 1) 0 = true /\
  h_scr (t_h (s_thr st 0) 0) = h_scr (t_h (s_thr st 1) 0) /\
  s_contents st (h_scr (t_h (s_thr st 0) 0)) <> h_gid (t_h (s_thr st 0) 0) /\
  exclusive 2 st = false /\
  (* right after the failed call the pool holds the scratch twice *)
  s_pool (run_from (init_cfg true false dput_progs) (firstn 4 dput_sched)) 0 = [0; 0].
Proof. vm_compute. repeat split; try reflexivity. discriminate. Qed.

(* the same history on the model of the code as it is: exclusive *)
Example single_put_ok :
  let st := run_from (init dput_progs) dput_sched in
  exclusive 2 st = true /\ h_scr (t_h (s_thr st 0) 0) <> h_scr (t_h (s_thr st 1) 0).
Proof. vm_compute. split; [reflexivity|discriminate]. Qed.

(* ------------------------------------------------------------------ *)
(** * Frame: a goroutine's results do not depend on the other goroutines *)

(* Two runs with arbitrary other goroutines, arbitrary schedules, arbitrary
   pool behaviour: if goroutine t has the same program in both and has
   finished it in both, its results are the same (both are [solo_run] of the
   program).  In the model Eval reads the tables of its own handle and nothing
   else — in particular nothing mutable of the Circuit; that the Go code has no
   such state is what the source inventory of harness c17 checks. *)
Lemma frame progs progs' sched sched' t :
  nth t progs [] = nth t progs' [] ->
  let th := s_thr (run_from (init progs) sched) t in
  let th' := s_thr (run_from (init progs') sched') t in
  t_prog th = [] -> t_prog th' = [] -> t_res th = t_res th'.
Proof.
  intros E th th' H H'.
  destruct (linearizable progs sched t) as (_ & A). destruct (linearizable progs' sched' t) as (_ & B).
  fold th in A. fold th' in B. specialize (A H). specialize (B H'). rewrite E in A. rewrite <- B in A.
  apply (f_equal (@rev res)) in A. now rewrite !rev_involutive in A.
Qed.

(* ------------------------------------------------------------------ *)
(** * Initialise, then publish *)

Lemma solo_no_panic prog : forall nh hs, ~ In RPanic (solo prog nh hs).
Proof.
  induction prog as [|[seed|seed site|hi|hi|x] r IH]; intros nh hs; simpl; [tauto| | | | |];
    intros [H|H]; try discriminate; try (revert H; apply IH).
  destruct ((hi <? nh) && negb (snd (hs hi))); discriminate.
Qed.

(* pool.Get() never returns nil: no Garble panics, in any interleaving *)
Lemma no_panic progs sched t : ~ In RPanic (t_res (s_thr (run_from (init progs) sched) t)).
Proof.
  intros H. destruct (linearizable progs sched t) as (L & _).
  apply (solo_no_panic (nth t progs []) 0 (fun _ => (0, true))). fold (solo_run (nth t progs [])).
  rewrite <- L. apply in_or_app. left. now apply in_rev in H.
Qed.

(* Regression record: in the variant that publishes an EMPTY pool by
   CompareAndSwap and assigns New afterwards, a goroutine that finds the
   pointer already set reaches pool.Get() before New exists: Get returns nil
   and its Garble panics.  Two goroutines, first use. *)
Definition late_progs : list (list op) := [[OGarble 1]; [OGarble 2]].
Definition late_sched : list sitem :=
  [SThread 0 0; SThread 0 0;      (* goroutine 0: Load = nil, builds the empty pool, wins the CAS *)
   SThread 1 0; SThread 1 0].     (* goroutine 1: Load = the empty pool, Get -> nil *)

Lemma late_init_refuted :
  let st := run_from (init_cfg false true late_progs) late_sched in
  t_res (s_thr st 1) = [RPanic] /\ t_pc (s_thr st 0) = GInit 1 0 /\ s_ptr st = Some 0 /\ s_newset st 0 = false.
Proof. vm_compute. repeat split. Qed.

Example late_sched_ok_now :
  let st := run_from (init late_progs) (late_sched ++ [SThread 0 0; SThread 0 0; SThread 1 0]) in
  rev (t_res (s_thr st 0)) = [RGarble 1] /\ rev (t_res (s_thr st 1)) = [RGarble 2].
Proof. vm_compute. split; reflexivity. Qed.
