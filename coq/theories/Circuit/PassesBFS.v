(* PassesBFS.v — Compile's wire-id assignment (Passes.compile_assign) yields a
   dependency-respecting emission ([emission_ok]) with levels growing along
   dependencies ([levels_ok]) for every graph satisfying [cwf].  (Property C09) *)
From Coq Require Import List Bool Arith Lia Permutation Sorting.Sorted.
From Mpc Require Import Circuit.Circuit Circuit.Passes Circuit.PassesProof.
Import ListNotations.

(* a wire whose bit is computable from the inputs through live gates *)
Inductive avail (G : graph) : nat -> Prop :=
| av_in : forall w, In w (gins G) -> avail G w
| av_gate : forall g, live G g ->
    (forall w, In w (inputs_of (gn G g)) -> avail G w) -> avail G (nO (gn G g)).

(* what Compile needs of the graph it is given *)
Record cwf (G : graph) : Prop := {
  c_fresh : forall w, wid (gw G w) = None;
  c_unvis : forall g, nvis (gn G g) = false;
  c_ins_nodup : NoDup (gins G);
  c_ins_flag : forall w, In w (gins G) -> wout (gw G w) = false;
  c_outs_nodup : NoDup (gouts G);
  c_outs_flag : forall w, wout (gw G w) = true <-> In w (gouts G);
  c_lists : forall g, live G g -> forall w, In w (inputs_of (gn G g)) -> In g (wouts (gw G w));
  c_entries : forall w c, In c (wouts (gw G w)) -> ndead (gn G c) = false -> In c (gorder G);
  c_noconsume : forall g, live G g -> forall w, In w (inputs_of (gn G g)) -> wout (gw G w) = false;
  c_prod : forall g, live G g -> ~ In (nO (gn G g)) (gins G);
  c_uniq : forall g1 g2, live G g1 -> live G g2 -> nO (gn G g1) = nO (gn G g2) -> g1 = g2;
  c_range : forall g, In g (gorder G) -> g < gnn G;
  c_avail : forall o, In o (gouts G) -> avail G o }.

Lemma NoDup_snoc {A} (l : list A) a : NoDup l -> ~ In a l -> NoDup (l ++ [a]).
Proof.
  induction l as [|b l IH]; simpl; intros Hn Hi.
  - constructor; auto; constructor.
  - inversion Hn; subst. constructor.
    + rewrite in_app_iff. simpl. intros [H|[H|[]]]; auto.
    + apply IH; auto.
Qed.

Definition asg (st : cstate) (w : nat) : Prop := assigned (cg st) w = true.

Section BFS.
  Variable G : graph.
  Hypothesis CW : cwf G.

  Record core (extra : list nat) (st : cstate) : Prop := {
    k_st : cstable G (cg st);
    k_w : forall w, wout (gw (cg st) w) = wout (gw G w) /\ wouts (gw (cg st) w) = wouts (gw G w);
    k_vis : forall g, nvis (gn (cg st) g) = true <-> In g (casg st ++ extra ++ cpend st);
    k_nodup : NoDup (casg st ++ extra ++ cpend st);
    k_idlt : forall w i, wid (gw (cg st) w) = Some i -> i < cnext st;
    k_idinj : forall w1 w2 i, wid (gw (cg st) w1) = Some i -> wid (gw (cg st) w2) = Some i -> w1 = w2;
    k_noflag : forall w, asg st w -> wout (gw G w) = false;
    k_pend : forall g, In g (cpend st) ->
             live G g /\ forall w, In w (inputs_of (gn G g)) -> asg st w }.

  Lemma cst_fields st g : cstable G (cg st) ->
    nop (gn (cg st) g) = nop (gn G g) /\ nA (gn (cg st) g) = nA (gn G g) /\
    nB (gn (cg st) g) = nB (gn G g) /\ nO (gn (cg st) g) = nO (gn G g) /\
    ndead (gn (cg st) g) = ndead (gn G g).
  Proof. intros (_ & _ & _ & H). apply H. Qed.

  Lemma visit_cases l st c :
    (visit l st c = st) \/
    (ndead (gn (cg st) c) = false /\ nvis (gn (cg st) c) = false /\
     (forall w, In w (inputs_of (gn (cg st) c)) -> asg st w) /\
     visit l st c = mkC (set_n (cg st) c (n_visit (gn (cg st) c) l)) (cnext st)
                        (cpend st ++ [c]) (casg st)).
  Proof.
    unfold visit.
    destruct (ndead (gn (cg st) c)) eqn:Ed; simpl; auto.
    destruct (nvis (gn (cg st) c)) eqn:Ev; simpl; auto.
    destruct (if is_inv (nop (gn (cg st) c)) then assigned (cg st) (nA (gn (cg st) c))
              else assigned (cg st) (nA (gn (cg st) c)) && assigned (cg st) (nB (gn (cg st) c))) eqn:Er; auto.
    right. repeat split; auto.
    intros w Hw. unfold inputs_of in Hw. unfold asg.
    destruct (is_inv (nop (gn (cg st) c))).
    - destruct Hw as [<-|[]]. exact Er.
    - apply andb_true_iff in Er. destruct Er as [E1 E2].
      destruct Hw as [<-|[<-|[]]]; auto.
  Qed.

  (* a not-ready or already handled gate is left alone; otherwise it is
     marked and queued *)
  Lemma visit_not_ready l st c :
    (exists w, In w (inputs_of (gn (cg st) c)) /\ assigned (cg st) w = false) ->
    visit l st c = st.
  Proof.
    intros (w & Hw & Hn). destruct (visit_cases l st c) as [H|(_ & _ & Hr & _)]; auto.
    specialize (Hr w Hw). unfold asg in Hr. congruence.
  Qed.

  Lemma inputs_of_cst st g : cstable G (cg st) ->
    inputs_of (gn (cg st) g) = inputs_of (gn G g).
  Proof.
    intros H. destruct (cst_fields st g H) as (a & b & c & _). unfold inputs_of. now rewrite a, b, c.
  Qed.

  Lemma visit_core ex l st c :
    core ex st -> (ndead (gn G c) = false -> In c (gorder G)) -> core ex (visit l st c).
  Proof.
    intros K Hc. destruct (visit_cases l st c) as [->|(Ed & Ev & Hr & ->)]; auto.
    pose proof (cst_fields st c (k_st _ _ K)) as (f1 & f2 & f3 & f4 & f5).
    assert (Hnin : ~ In c (casg st ++ ex ++ cpend st)).
    { intros H. apply (k_vis _ _ K) in H. congruence. }
    constructor; simpl.
    - eapply cstable_trans; [apply (k_st _ _ K)|].
      split; [reflexivity|]. split; [reflexivity|]. split; [reflexivity|].
      intros g. simpl. unfold fupd. destruct (Nat.eqb_spec g c); subst; simpl; auto.
    - apply (k_w _ _ K).
    - intros g. unfold fupd. destruct (Nat.eqb_spec g c); subst; simpl.
      + split; auto. intros _. rewrite !in_app_iff. simpl. auto.
      + rewrite (k_vis _ _ K). rewrite !in_app_iff. simpl. split; [tauto|].
        intros [H|[H|[H|[H|[]]]]]; auto. exfalso. apply n. auto.
    - replace (casg st ++ ex ++ cpend st ++ [c]) with ((casg st ++ ex ++ cpend st) ++ [c])
        by (now rewrite <- !app_assoc).
      apply NoDup_snoc; auto. apply (k_nodup _ _ K).
    - apply (k_idlt _ _ K).
    - apply (k_idinj _ _ K).
    - apply (k_noflag _ _ K).
    - intros g Hg. apply in_app_or in Hg. destruct Hg as [Hg|[<-|[]]].
      + apply (k_pend _ _ K g Hg).
      + split.
        * split; [apply Hc; congruence|congruence].
        * intros w Hw. unfold asg. simpl. apply Hr.
          rewrite (inputs_of_cst st c (k_st _ _ K)). exact Hw.
  Qed.

  Lemma visit_gw l st c : gw (cg (visit l st c)) = gw (cg st).
  Proof. destruct (visit_cases l st c) as [->|(_ & _ & _ & ->)]; reflexivity. Qed.

  Lemma visit_casg l st c : casg (visit l st c) = casg st /\ cnext (visit l st c) = cnext st.
  Proof. destruct (visit_cases l st c) as [->|(_ & _ & _ & ->)]; auto. Qed.

  Lemma visit_marks l st c :
    ndead (gn (cg st) c) = false ->
    (forall w, In w (inputs_of (gn (cg st) c)) -> asg st w) ->
    nvis (gn (cg (visit l st c)) c) = true.
  Proof.
    intros Hd Hr. unfold visit. rewrite Hd. simpl.
    destruct (nvis (gn (cg st) c)) eqn:Ev; simpl; auto.
    assert (E : (if is_inv (nop (gn (cg st) c)) then assigned (cg st) (nA (gn (cg st) c))
                 else assigned (cg st) (nA (gn (cg st) c)) && assigned (cg st) (nB (gn (cg st) c))) = true).
    { unfold inputs_of, asg in Hr. destruct (is_inv (nop (gn (cg st) c))).
      - apply Hr. now left.
      - rewrite (Hr (nA (gn (cg st) c))) by (now left).
        rewrite (Hr (nB (gn (cg st) c))) by (right; now left). reflexivity. }
    rewrite E. simpl. unfold fupd. rewrite Nat.eqb_refl. reflexivity.
  Qed.

  (* what one call of visit does to the nodes and the queue *)
  Lemma visit_nodes l st c :
    (forall g, nvis (gn (cg st) g) = true -> gn (cg (visit l st c)) g = gn (cg st) g) /\
    (forall g, nvis (gn (cg st) g) = true -> nvis (gn (cg (visit l st c)) g) = true) /\
    (exists new, cpend (visit l st c) = cpend st ++ new /\
       forall g, In g new -> nvis (gn (cg st) g) = false /\ nvis (gn (cg (visit l st c)) g) = true /\
                             nlevel (gn (cg (visit l st c)) g) = l).
  Proof.
    destruct (visit_cases l st c) as [->|(Ed & Ev & Hr & ->)].
    - split; auto. split; auto. exists []. rewrite app_nil_r. split; auto. intros g [].
    - simpl. split; [|split].
      + intros g Hg. unfold fupd. destruct (Nat.eqb_spec g c); subst; auto. congruence.
      + intros g Hg. unfold fupd. destruct (Nat.eqb_spec g c); subst; auto.
      + exists [c]. split; auto. intros g [<-|[]]. unfold fupd. rewrite Nat.eqb_refl. auto.
  Qed.

  Lemma visits_inv ex l cs : forall st,
    core ex st -> (forall c, In c cs -> ndead (gn G c) = false -> In c (gorder G)) ->
    let st' := fold_left (visit l) cs st in
    core ex st' /\ gw (cg st') = gw (cg st) /\ casg st' = casg st /\ cnext st' = cnext st /\
    (exists new, cpend st' = cpend st ++ new /\
       forall g, In g new -> nvis (gn (cg st) g) = false /\ nvis (gn (cg st') g) = true /\
                             nlevel (gn (cg st') g) = l) /\
    (forall g, nvis (gn (cg st) g) = true -> gn (cg st') g = gn (cg st) g) /\
    (forall c, In c cs -> live G c -> (forall w, In w (inputs_of (gn G c)) -> asg st w) ->
               nvis (gn (cg st') c) = true).
  Proof.
    induction cs as [|c cs IH]; intros st K Hcs; simpl.
    - split; auto. split; auto. split; auto. split; auto.
      split; [exists []; rewrite app_nil_r; split; auto; intros g []|].
      split; [auto|intros c []].
    - pose proof (visit_core ex l st c K (Hcs c (or_introl eq_refl))) as K1.
      destruct (visit_nodes l st c) as (N1 & N2 & (new1 & P1 & Q1)).
      destruct (visit_casg l st c) as [C1 C2].
      pose proof (visit_gw l st c) as W1.
      destruct (IH (visit l st c) K1) as (K' & W' & C' & X' & (new2 & P2 & Q2) & N' & M').
      { intros d Hd. apply Hcs. now right. }
      split; auto. split; [congruence|]. split; [congruence|]. split; [congruence|].
      assert (Mono : forall g, nvis (gn (cg st) g) = true ->
                nvis (gn (cg (fold_left (visit l) cs (visit l st c))) g) = true).
      { intros g Hg. rewrite N' by (apply N2; exact Hg). apply N2. exact Hg. }
      split; [|split].
      + exists (new1 ++ new2). split; [rewrite P2, P1, app_assoc; reflexivity|].
        intros g Hg. apply in_app_or in Hg. destruct Hg as [Hg|Hg].
        * destruct (Q1 g Hg) as (q1 & q2 & q3). split; auto.
          rewrite N' by exact q2. auto.
        * destruct (Q2 g Hg) as (q1 & q2 & q3). split; auto.
          destruct (nvis (gn (cg st) g)) eqn:E; auto. rewrite (N2 g E) in q1. discriminate.
      + intros g Hg. rewrite N' by (apply N2; exact Hg). apply N1. exact Hg.
      + intros d [<-|Hd] Ld Rd.
        * assert (V : nvis (gn (cg (visit l st c)) c) = true).
          { apply visit_marks.
            - destruct (cst_fields st c (k_st _ _ K)) as (_ & _ & _ & _ & f5). rewrite f5. apply Ld.
            - intros w Hw. apply Rd. rewrite <- (inputs_of_cst st c (k_st _ _ K)). exact Hw. }
          rewrite N' by exact V. exact V.
        * apply M'; auto. intros w Hw. unfold asg, assigned. rewrite W1. now apply Rd.
  Qed.

  Definition closed (st : cstate) : Prop :=
    forall g, live G g -> (forall w, In w (inputs_of (gn G g)) -> asg st w) ->
              nvis (gn (cg st) g) = true.

  (* giving the wire its id (the first half of Wire.Assign) *)
  Definition give_id (st : cstate) (w : nat) : cstate :=
    if assigned (cg st) w then st
    else mkC (set_w (cg st) w (w_set_id (gw (cg st) w) (Some (cnext st))))
             (S (cnext st)) (cpend st) (casg st).

  Lemma give_id_core ex st w :
    core ex st -> wout (gw G w) = false ->
    core ex (give_id st w) /\ casg (give_id st w) = casg st /\ cpend (give_id st w) = cpend st /\
    gn (cg (give_id st w)) = gn (cg st) /\
    (forall w', asg (give_id st w) w' <-> asg st w' \/ w' = w) /\
    (forall w', w' <> w -> wid (gw (cg (give_id st w)) w') = wid (gw (cg st) w')) /\
    (asg st w -> give_id st w = st) /\
    (~ asg st w -> cnext (give_id st w) = S (cnext st) /\
                   wid (gw (cg (give_id st w)) w) = Some (cnext st)) /\
    cnext st <= cnext (give_id st w).
  Proof.
    intros K Hf. unfold give_id. destruct (assigned (cg st) w) eqn:Ea.
    - split; auto. split; auto. split; auto. split; auto.
      split; [intros w'; split; auto; intros [H|H]; subst; auto|].
      split; auto. split; auto. split; [|lia]. intros H. exfalso. apply H. exact Ea.
    - assert (Hn : wid (gw (cg st) w) = None).
      { unfold assigned in Ea. destruct (wid (gw (cg st) w)); congruence. }
      split; [|split; [reflexivity|split; [reflexivity|split; [reflexivity|]]]].
      + constructor; simpl.
        * eapply cstable_trans; [apply (k_st _ _ K)|apply cstable_set_w].
        * intros w'. unfold fupd. destruct (Nat.eqb_spec w' w); subst; simpl; apply (k_w _ _ K).
        * apply (k_vis _ _ K).
        * apply (k_nodup _ _ K).
        * intros w' i. unfold fupd. destruct (Nat.eqb_spec w' w); subst; simpl.
          -- intros E. inversion E. lia.
          -- intros E. pose proof (k_idlt _ _ K _ _ E). lia.
        * intros w1 w2 i. unfold fupd.
          destruct (Nat.eqb_spec w1 w), (Nat.eqb_spec w2 w); subst; simpl; auto.
          -- intros E1 E2. inversion E1; subst. pose proof (k_idlt _ _ K _ _ E2). lia.
          -- intros E1 E2. inversion E2; subst. pose proof (k_idlt _ _ K _ _ E1). lia.
          -- apply (k_idinj _ _ K).
        * intros w'. unfold asg, assigned. simpl. unfold fupd.
          destruct (Nat.eqb_spec w' w); subst; simpl; auto. apply (k_noflag _ _ K).
        * intros g Hg. destruct (k_pend _ _ K g Hg) as [L R]. split; auto.
          intros w' Hw'. specialize (R w' Hw'). unfold asg, assigned in *. simpl. unfold fupd.
          destruct (Nat.eqb_spec w' w); subst; simpl; auto.
      + split; [|split; [|split; [|split; [|simpl; lia]]]].
        * intros w'. unfold asg, assigned. simpl. unfold fupd.
          destruct (Nat.eqb_spec w' w); subst; simpl; [tauto|].
          split; [auto|intros [H|H]; [auto|contradiction]].
        * intros w' Hne. simpl. unfold fupd. destruct (Nat.eqb_spec w' w); [contradiction|reflexivity].
        * intros H. unfold asg in H. congruence.
        * intros _. simpl. unfold fupd. rewrite Nat.eqb_refl. auto.
  Qed.

  Lemma wire_assign_eq st l w :
    wout (gw (cg st) w) = false ->
    wire_assign st l w = fold_left (visit l) (wouts (gw (cg (give_id st w)) w)) (give_id st w).
  Proof. intros H. unfold wire_assign, give_id. rewrite H. destruct (assigned (cg st) w); reflexivity. Qed.

  Lemma wire_assign_inv ex st l w :
    core ex st -> wout (gw G w) = false -> closed st ->
    let st' := wire_assign st l w in
    core ex st' /\ casg st' = casg st /\
    (forall w', asg st' w' <-> asg st w' \/ w' = w) /\
    closed st' /\
    (forall w', w' <> w -> wid (gw (cg st') w') = wid (gw (cg st) w')) /\
    (asg st w -> cnext st' = cnext st /\ wid (gw (cg st') w) = wid (gw (cg st) w)) /\
    (~ asg st w -> cnext st' = S (cnext st) /\ wid (gw (cg st') w) = Some (cnext st)) /\
    (exists new, cpend st' = cpend st ++ new /\
       forall g, In g new -> nvis (gn (cg st) g) = false /\ nlevel (gn (cg st') g) = l) /\
    (forall g, nvis (gn (cg st) g) = true -> gn (cg st') g = gn (cg st) g).
  Proof.
    intros K Hf Hc. simpl.
    assert (Hf' : wout (gw (cg st) w) = false) by (rewrite (proj1 (k_w _ _ K w)); exact Hf).
    rewrite (wire_assign_eq st l w Hf').
    destruct (give_id_core ex st w K Hf) as (K1 & C1 & P1 & N1 & A1 & I1 & S1 & F1 & L1).
    set (st1 := give_id st w) in *.
    assert (Hw : wouts (gw (cg st1) w) = wouts (gw G w)) by apply (k_w _ _ K1).
    rewrite Hw.
    destruct (visits_inv ex l (wouts (gw G w)) st1 K1) as (K' & W' & C' & X' & (new & P' & Q') & N' & M').
    { intros c Hc1 Hd. eapply (c_entries _ CW); eauto. }
    set (st' := fold_left (visit l) (wouts (gw G w)) st1) in *.
    assert (AS : forall w', asg st' w' <-> asg st1 w').
    { intros w'. unfold asg, assigned. rewrite W'. tauto. }
    split; auto. split; [congruence|].
    split; [intros w'; rewrite AS; apply A1|].
    split.
    - intros g Lg Rg.
      assert (Rg1 : forall w', In w' (inputs_of (gn G g)) -> asg st1 w').
      { intros w' Hw'. apply AS. now apply Rg. }
      destruct (in_dec Nat.eq_dec w (inputs_of (gn G g))) as [Hin|Hnin].
      + apply M'; auto. apply (c_lists _ CW); auto.
      + assert (V : nvis (gn (cg st) g) = true).
        { apply Hc; auto. intros w' Hw'. destruct (proj1 (A1 w') (Rg1 w' Hw')) as [H|H]; auto.
          subst w'. contradiction. }
        rewrite N' by (rewrite N1; exact V). rewrite N1. exact V.
    - split; [intros w' Hne; rewrite W'; now apply I1|].
      split; [intros Ha; rewrite X', W', (S1 Ha); auto|].
      split; [intros Hna; destruct (F1 Hna) as [E1 E2]; rewrite X', W'; auto|].
      split.
      + exists new. rewrite P', P1. split; auto. intros g Hg. destruct (Q' g Hg) as (q1 & q2 & q3).
        rewrite N1 in q1. auto.
      + intros g Hg. rewrite N' by (rewrite N1; exact Hg). now rewrite N1.
  Qed.

  Lemma snoc_split {A} (l : list A) a l1 g l2 :
    l ++ [a] = l1 ++ g :: l2 ->
    (exists l2', l = l1 ++ g :: l2' /\ l2 = l2' ++ [a]) \/ (l1 = l /\ g = a /\ l2 = []).
  Proof.
    destruct l2 as [|x l2'] using rev_ind; intros H.
    - right. apply app_inj_tail in H. destruct H; subst; auto.
    - clear IHl2'. left. exists l2'. change (g :: l2' ++ [x]) with ((g :: l2') ++ [x]) in H.
      rewrite app_assoc in H. apply app_inj_tail in H. destruct H; subst; auto.
  Qed.

  Record binv (st : cstate) : Prop := {
    b_core : core [] st;
    b_asg : forall w, asg st w ->
            In w (gins G) \/ exists p, In p (casg st) /\ nO (gn G p) = w;
    b_casg : forall p, In p (casg st) ->
             live G p /\ (wout (gw G (nO (gn G p))) = false -> asg st (nO (gn G p)));
    b_dep : forall l1 g l2, casg st = l1 ++ g :: l2 ->
            forall w, In w (inputs_of (gn G g)) ->
            In w (gins G) \/ exists p, In p l1 /\ nO (gn G p) = w;
    b_closed : closed st;
    b_vasg : forall g, In g (casg st) -> forall w, In w (inputs_of (gn G g)) -> asg st w }.

  (* one iteration of "for len(cc.pending) > 0" *)
  Lemma drain_step st g0 rest :
    binv st -> cpend st = g0 :: rest ->
    let st' := gate_assign (mkC (cg st) (cnext st) rest (casg st)) g0 in
    binv st' /\ casg st' = casg st ++ [g0] /\
    (forall w, asg st w -> wid (gw (cg st') w) = wid (gw (cg st) w)) /\
    (exists new, cpend st' = rest ++ new /\
       forall g, In g new -> nvis (gn (cg st) g) = false /\
                             nlevel (gn (cg st') g) = S (nlevel (gn (cg st) g0))) /\
    (forall g, nvis (gn (cg st) g) = true -> gn (cg st') g = gn (cg st) g).
  Proof.
    intros B Hp. pose proof (b_core _ B) as K.
    set (st0 := mkC (cg st) (cnext st) rest (casg st)).
    assert (K0 : core [g0] st0).
    { unfold st0. constructor; simpl.
      - exact (k_st _ _ K).
      - exact (k_w _ _ K).
      - intros g. rewrite (k_vis _ _ K g), Hp. simpl. tauto.
      - pose proof (k_nodup _ _ K) as N. rewrite Hp in N. exact N.
      - exact (k_idlt _ _ K).
      - exact (k_idinj _ _ K).
      - exact (k_noflag _ _ K).
      - intros g Hg. apply (k_pend _ _ K). rewrite Hp. now right. }
    destruct (k_pend _ _ K g0) as [L0 R0]; [rewrite Hp; now left|].
    destruct (cst_fields st g0 (k_st _ _ K)) as (f1 & f2 & f3 & f4 & f5).
    simpl. unfold gate_assign. simpl. destruct L0 as [L0i L0d]. rewrite f5, L0d. rewrite f4.
    set (O := nO (gn G g0)).
    assert (C0 : closed st0) by (exact (b_closed _ B)).
    destruct (wout (gw G O)) eqn:Ef.
    - (* output wire: Wire.Assign returns at once *)
      assert (E : wire_assign st0 (S (nlevel (gn (cg st) g0))) O = st0).
      { unfold wire_assign. simpl. rewrite (proj1 (k_w _ _ K O)), Ef. reflexivity. }
      rewrite E. simpl.
      split; [|split; [reflexivity|split; [auto|split; [exists []; rewrite app_nil_r; split; auto; intros g []|auto]]]].
      constructor; simpl.
      + constructor; simpl; try apply K0.
        * intros g. pose proof (k_vis _ _ K0 g) as V. unfold st0 in V. simpl in V.
          rewrite V, <- app_assoc. simpl. tauto.
        * pose proof (k_nodup _ _ K0) as N. unfold st0 in N. simpl in N. rewrite <- app_assoc. exact N.
      + intros w Hw. destruct (b_asg _ B w Hw) as [H|(p & Hp1 & Hp2)]; auto.
        right. exists p. split; auto. apply in_or_app. now left.
      + intros p Hp1. apply in_app_or in Hp1. destruct Hp1 as [Hp1|[<-|[]]].
        * apply (b_casg _ B p Hp1).
        * split; [split; auto|]. fold O. congruence.
      + intros l1 g l2 Hs w Hw. destruct (snoc_split _ _ _ _ _ Hs) as [(l2' & E1 & E2)|(E1 & E2 & E3)].
        * eapply (b_dep _ B); eauto.
        * subst. destruct (b_asg _ B w (R0 w Hw)) as [H|H]; auto.
      + exact (b_closed _ B).
      + intros p Hp1 w Hw. apply in_app_or in Hp1. destruct Hp1 as [Hp1|[<-|[]]].
        * apply (b_vasg _ B p Hp1 w Hw).
        * apply (R0 w Hw).
    - destruct (wire_assign_inv [g0] st0 (S (nlevel (gn (cg st) g0))) O K0 Ef C0)
        as (K1 & C1 & A1 & Cl1 & I1 & S1 & F1 & (new & P1 & Q1) & N1).
      set (st1 := wire_assign st0 (S (nlevel (gn (cg st) g0))) O) in *.
      simpl.
      split; [|split; [now rewrite C1|split; [|split; [exists new; split; auto|exact N1]]]].
      + constructor; simpl.
        * constructor; simpl; try apply K1.
          -- intros g. pose proof (k_vis _ _ K1 g) as V. simpl in V.
             rewrite V, <- app_assoc. simpl. tauto.
          -- pose proof (k_nodup _ _ K1) as N. simpl in N. rewrite <- app_assoc. exact N.
        * intros w Hw. apply A1 in Hw. destruct Hw as [Hw| ->].
          -- destruct (b_asg _ B w Hw) as [H|(p & Hp1 & Hp2)]; auto.
             right. exists p. split; auto. rewrite C1. apply in_or_app. now left.
          -- right. exists g0. split; auto. rewrite C1. apply in_or_app. right. now left.
        * intros p Hp1. rewrite C1 in Hp1. apply in_app_or in Hp1. destruct Hp1 as [Hp1|[<-|[]]].
          -- destruct (b_casg _ B p Hp1) as [Lp Ap]. split; auto.
             intros Hf. apply A1. left. now apply Ap.
          -- split; [split; auto|]. intros _. apply A1. now right.
        * intros l1 g l2 Hs w Hw. rewrite C1 in Hs.
          destruct (snoc_split _ _ _ _ _ Hs) as [(l2' & E1 & E2)|(E1 & E2 & E3)].
          -- eapply (b_dep _ B); eauto.
          -- subst. destruct (b_asg _ B w (R0 w Hw)) as [H|H]; auto.
        * exact Cl1.
        * intros p Hp1 w Hw. apply A1. left. rewrite C1 in Hp1.
          apply in_app_or in Hp1. destruct Hp1 as [Hp1|[<-|[]]].
          -- apply (b_vasg _ B p Hp1 w Hw).
          -- apply (R0 w Hw).
      + intros w Hw. destruct (Nat.eq_dec w O) as [->|Hne].
        * apply S1. exact Hw.
        * now apply I1.
  Qed.

  Lemma binv_bound st : binv st -> length (casg st ++ cpend st) <= gnn G.
  Proof.
    intros B. pose proof (k_nodup _ _ (b_core _ B)) as N. simpl in N.
    rewrite <- (seq_length (gnn G) 0). apply NoDup_incl_length; auto.
    intros g Hg. apply in_seq. split; [lia|]. simpl. apply (c_range _ CW).
    apply in_app_or in Hg. destruct Hg as [Hg|Hg].
    - apply (b_casg _ B g Hg).
    - apply (k_pend _ _ (b_core _ B) g Hg).
  Qed.

  Lemma asg_wid st w : asg st w <-> exists i, wid (gw (cg st) w) = Some i.
  Proof.
    unfold asg, assigned. destruct (wid (gw (cg st) w)); split; eauto; try congruence.
    intros (i & H). discriminate.
  Qed.

  Lemma drain_inv fuel : forall st,
    binv st -> length (casg st) + fuel > gnn G ->
    let st' := drain fuel st in
    binv st' /\ cpend st' = [] /\
    (forall w, asg st w -> wid (gw (cg st') w) = wid (gw (cg st) w)).
  Proof.
    induction fuel as [|f IH]; intros st B Hf; simpl.
    - destruct (cpend st) as [|g0 rest] eqn:Hp; [auto|].
      pose proof (binv_bound st B) as Hb. rewrite app_length, Hp in Hb. simpl in Hb. lia.
    - destruct (cpend st) as [|g0 rest] eqn:Hp; [auto|].
      destruct (drain_step st g0 rest B Hp) as (B1 & C1 & I1 & _).
      set (st1 := gate_assign (mkC (cg st) (cnext st) rest (casg st)) g0) in *.
      destruct (IH st1 B1) as (B2 & P2 & I2).
      { rewrite C1, app_length. simpl. lia. }
      split; auto. split; auto. intros w Hw.
      rewrite I2; [now apply I1|]. apply asg_wid. rewrite (I1 w Hw). now apply asg_wid.
  Qed.

  (* ---- the input phase: "for _, w := range cc.InputWires { w.Assign(cc, 0) }" *)

  Lemma input_phase todo : forall done st,
    gins G = done ++ todo ->
    core [] st -> casg st = [] -> closed st ->
    (forall w, asg st w <-> In w done) -> cnext st = length done ->
    (forall i, i < length done -> wid (gw (cg st) (nth i done 0)) = Some i) ->
    let st' := fold_left (fun st w => wire_assign st 0 w) todo st in
    core [] st' /\ casg st' = [] /\ closed st' /\
    (forall w, asg st' w <-> In w (gins G)) /\ cnext st' = length (gins G) /\
    (forall i, i < length (gins G) -> wid (gw (cg st') (nth i (gins G) 0)) = Some i).
  Proof.
    induction todo as [|w todo IH]; intros done st Hg K C Cl A N I; simpl.
    - rewrite app_nil_r in Hg. subst done. repeat (split; [assumption|]). assumption.
    - assert (Hf : wout (gw G w) = false).
      { apply (c_ins_flag _ CW). rewrite Hg. apply in_or_app. right. now left. }
      assert (Hnd : ~ In w done).
      { pose proof (c_ins_nodup _ CW) as ND. rewrite Hg in ND.
        apply NoDup_remove_2 in ND. intros H. apply ND. apply in_or_app. now left. }
      destruct (wire_assign_inv [] st 0 w K Hf Cl) as (K1 & C1 & A1 & Cl1 & I1 & S1 & F1 & _ & _).
      assert (Hna : ~ asg st w) by (rewrite A; exact Hnd).
      destruct (F1 Hna) as [E1 E2].
      apply (IH (done ++ [w])); auto.
      + rewrite <- app_assoc. exact Hg.
      + congruence.
      + intros w'. rewrite A1, A, in_app_iff. simpl. intuition.
      + rewrite E1, N, app_length. simpl. lia.
      + intros i Hi. rewrite app_length in Hi. simpl in Hi.
        destruct (Nat.eq_dec i (length done)) as [->|Hne].
        * rewrite nth_middle. congruence.
        * rewrite app_nth1 by lia. rewrite I1; [apply I; lia|].
          intros E. apply Hnd. rewrite <- E. apply nth_In. lia.
  Qed.

  (* ---- "Assign outputs" ---------------------------------------------- *)

  Lemma output_phase todo : forall st,
    NoDup todo -> (forall o, In o todo -> ~ asg st o) ->
    let st' := fold_left assign_output todo st in
    gn (cg st') = gn (cg st) /\ casg st' = casg st /\ cnext st' = cnext st + length todo /\
    cstable (cg st) (cg st') /\
    (forall w, ~ In w todo -> wid (gw (cg st') w) = wid (gw (cg st) w)) /\
    (forall k, k < length todo -> wid (gw (cg st') (nth k todo 0)) = Some (cnext st + k)).
  Proof.
    induction todo as [|o todo IH]; intros st ND NA; simpl.
    - split; [reflexivity|]. split; [reflexivity|]. split; [lia|]. split; [apply cstable_refl|].
      split; [auto|intros k Hk; lia].
    - inversion ND as [|? ? Hno ND']; subst.
      assert (Ho : assigned (cg st) o = false).
      { destruct (assigned (cg st) o) eqn:E; auto. exfalso. apply (NA o); [now left|exact E]. }
      set (st1 := assign_output st o).
      assert (E1 : st1 = mkC (set_w (cg st) o (w_set_id (gw (cg st) o) (Some (cnext st))))
                             (S (cnext st)) (cpend st) (casg st)).
      { unfold st1, assign_output. now rewrite Ho. }
      destruct (IH st1 ND') as (N' & C' & X' & S' & I' & O').
      { intros o' Ho' Ha. rewrite E1 in Ha. unfold asg, assigned in Ha. simpl in Ha.
        unfold fupd in Ha. destruct (Nat.eqb_spec o' o); [subst; contradiction|].
        apply (NA o'); [now right|exact Ha]. }
      split; [rewrite N', E1; reflexivity|]. split; [rewrite C', E1; reflexivity|].
      split; [rewrite X', E1; simpl; lia|].
      split; [eapply cstable_trans; [|exact S']; rewrite E1; apply cstable_set_w|].
      split.
      + intros w Hw. rewrite I' by (intros H; apply Hw; now right).
        rewrite E1. simpl. unfold fupd. destruct (Nat.eqb_spec w o); [|reflexivity].
        exfalso. apply Hw. now left.
      + intros [|k] Hk.
        * rewrite I' by exact Hno. rewrite E1. simpl. unfold fupd. rewrite Nat.eqb_refl. simpl.
          f_equal. lia.
        * rewrite O' by lia. rewrite E1. simpl. f_equal. lia.
  Qed.

  (* every wire computable from the inputs is reached by the traversal *)
  Lemma bfs_complete st :
    binv st -> cpend st = [] -> (forall w, In w (gins G) -> asg st w) ->
    forall w, avail G w ->
      (In w (gins G) \/ exists g, In g (casg st) /\ nO (gn G g) = w) /\
      (wout (gw G w) = false -> asg st w).
  Proof.
    intros B Hp Hi w Hav. induction Hav as [w Hw|g Lg Hin IH].
    - split; auto.
    - assert (Hasg : forall w, In w (inputs_of (gn G g)) -> asg st w).
      { intros w Hw. apply IH; auto. apply (c_noconsume _ CW g Lg w Hw). }
      assert (V : nvis (gn (cg st) g) = true) by (apply (b_closed _ B); auto).
      apply (k_vis _ _ (b_core _ B)) in V. rewrite Hp in V. simpl in V. rewrite app_nil_r in V.
      split; [right; eauto|]. apply (b_casg _ B g V).
  Qed.

  Theorem compile_emission_ok :
    let st := compile_assign G in
    emission_ok (cg st) (id_of (cg st)) (cnext st) (casg st).
  Proof.
    unfold compile_assign.
    set (st0 := mkC G 0 [] []).
    assert (K0 : core [] st0).
    { constructor; simpl.
      - apply cstable_refl.
      - auto.
      - intros g. rewrite (c_unvis _ CW g). split; [discriminate|intros []].
      - constructor.
      - intros w i. rewrite (c_fresh _ CW w). discriminate.
      - intros w1 w2 i. rewrite (c_fresh _ CW w1). discriminate.
      - intros w. unfold asg, assigned. simpl. rewrite (c_fresh _ CW w). discriminate.
      - intros g []. }
    assert (A0 : forall w, asg st0 w <-> In w []).
    { intros w. unfold asg, assigned. simpl. rewrite (c_fresh _ CW w). split; [discriminate|intros []]. }
    assert (Cl0 : closed st0).
    { intros g Lg Hr. exfalso. assert (H : asg st0 (nA (gn G g))).
      { apply Hr. unfold inputs_of. destruct (is_inv _); now left. }
      apply A0 in H. exact H. }
    destruct (input_phase (gins G) [] st0 eq_refl K0 eq_refl Cl0 A0 eq_refl)
      as (K1 & C1 & Cl1 & A1 & N1 & I1).
    { intros i Hi. simpl in Hi. lia. }
    set (st1 := fold_left (fun st w => wire_assign st 0 w) (gins G) st0) in *.
    assert (B1 : binv st1).
    { constructor; auto.
      - intros w Hw. left. now apply A1.
      - rewrite C1. intros p [].
      - rewrite C1. intros l1 g l2 H. destruct l1; discriminate.
      - rewrite C1. intros g []. }
    destruct (drain_inv (S (gnn G)) st1 B1) as (B2 & P2 & W2); [lia|].
    set (st2 := drain (S (gnn G)) st1) in *.
    pose proof (b_core _ B2) as K2.
    assert (Ains : forall w, In w (gins G) -> asg st2 w).
    { intros w Hw. apply asg_wid. apply A1 in Hw. rewrite (W2 w Hw). now apply asg_wid. }
    assert (NA : forall o, In o (gouts G) -> ~ asg st2 o).
    { intros o Ho Ha. apply (k_noflag _ _ K2) in Ha. apply (c_outs_flag _ CW) in Ho. congruence. }
    destruct (output_phase (gouts G) st2 (c_outs_nodup _ CW) NA) as (N3 & C3 & X3 & S3 & I3 & O3).
    set (st3 := fold_left assign_output (gouts G) st2) in *.
    assert (CS : cstable G (cg st3)) by (eapply cstable_trans; [apply (k_st _ _ K2)|exact S3]).
    pose proof CS as (Gi & Go & Gord & Gn).
    assert (Fn : forall g, nO (gn (cg st3) g) = nO (gn G g) /\
                           inputs_of (gn (cg st3) g) = inputs_of (gn G g)).
    { intros g. destruct (Gn g) as (a & b & c & d & e). split; auto.
      unfold inputs_of. now rewrite a, b, c. }
    (* ids *)
    assert (IdA : forall w i, wid (gw (cg st2) w) = Some i -> id_of (cg st3) w = i /\ i < cnext st2).
    { intros w i E. split; [|apply (k_idlt _ _ K2 _ _ E)].
      unfold id_of. rewrite I3, E; auto.
      intros Hin. apply (NA w Hin). apply asg_wid. eauto. }
    assert (IdO : forall k, k < length (gouts G) ->
                  id_of (cg st3) (nth k (gouts G) 0) = cnext st2 + k).
    { intros k Hk. unfold id_of. now rewrite O3. }
    assert (Cls : forall w, rel (cg st3) (casg st3) w ->
                  (exists i, wid (gw (cg st2) w) = Some i) \/ In w (gouts G)).
    { intros w [Hw|(p & Hp & E)].
      - left. apply asg_wid. apply Ains. now rewrite <- Gi.
      - rewrite C3 in Hp. rewrite (proj1 (Fn p)) in E. subst w.
        destruct (b_casg _ B2 p Hp) as [Lp Ap].
        destruct (wout (gw G (nO (gn G p)))) eqn:Ef.
        + right. now apply (c_outs_flag _ CW).
        + left. apply asg_wid. now apply Ap. }
    constructor.
    - intros g Hg. rewrite C3 in Hg. destruct (b_casg _ B2 g Hg) as [[Li Ld] _].
      split; [now rewrite Gord|]. destruct (Gn g) as (_ & _ & _ & _ & e). congruence.
    - intros l1 g l2 Hs w Hw. rewrite C3 in Hs. rewrite (proj2 (Fn g)) in Hw.
      destruct (b_dep _ B2 l1 g l2 Hs w Hw) as [H|(p & Hp & E)].
      + left. now rewrite Gi.
      + right. exists p. split; auto. now rewrite (proj1 (Fn p)).
    - intros w1 w2 R1 R2 E.
      destruct (Cls w1 R1) as [(i1 & E1)|H1], (Cls w2 R2) as [(i2 & E2)|H2].
      + destruct (IdA _ _ E1) as [J1 _]. destruct (IdA _ _ E2) as [J2 _].
        apply (k_idinj _ _ K2 w1 w2 i1); congruence.
      + destruct (IdA _ _ E1) as [J1 L1]. destruct (In_nth_ex _ _ H2) as (k & Hk & <-).
        rewrite (IdO k Hk) in E. lia.
      + destruct (IdA _ _ E2) as [J2 L2]. destruct (In_nth_ex _ _ H1) as (k & Hk & <-).
        rewrite (IdO k Hk) in E. lia.
      + destruct (In_nth_ex _ _ H1) as (k1 & Hk1 & <-). destruct (In_nth_ex _ _ H2) as (k2 & Hk2 & <-).
        rewrite (IdO k1 Hk1), (IdO k2 Hk2) in E. f_equal. lia.
    - intros w R. rewrite X3. destruct (Cls w R) as [(i & E)|H].
      + destruct (IdA _ _ E). lia.
      + destruct (In_nth_ex _ _ H) as (k & Hk & <-). rewrite (IdO k Hk). lia.
    - intros i Hi. rewrite Gi in *.
      assert (E : wid (gw (cg st2) (nth i (gins G) 0)) = Some i).
      { rewrite W2; [now apply I1|]. apply A1. now apply nth_In. }
      apply (IdA _ _ E).
    - intros k Hk. rewrite Go in *. split.
      + assert (Ho : In (nth k (gouts G) 0) (gouts G)) by (now apply nth_In).
        destruct (bfs_complete st2 B2 P2 Ains _ (c_avail _ CW _ Ho)) as [[Hin|(g & Hg & E)] _].
        * exfalso. apply (c_ins_flag _ CW) in Hin. apply (c_outs_flag _ CW) in Ho. congruence.
        * right. exists g. rewrite C3. split; auto. now rewrite (proj1 (Fn g)).
      + rewrite (IdO k Hk), X3. lia.
  Qed.

  (* ---- levels ------------------------------------------------------- *)

  Definition lev (st : cstate) (g : nat) : nat := nlevel (gn (cg st) g).

  Record linv (st : cstate) : Prop := {
    lv_sorted : StronglySorted le (map (lev st) (casg st ++ cpend st));
    lv_bound : forall h rest, cpend st = h :: rest -> forall g, In g rest -> lev st g <= S (lev st h);
    lv_dep : forall g, In g (casg st ++ cpend st) ->
             forall w, In w (inputs_of (gn G g)) ->
             forall p, In p (casg st) -> nO (gn G p) = w -> lev st p < lev st g }.

  Lemma sorted_snoc_const l c n :
    StronglySorted le l -> (forall x, In x l -> x <= c) -> StronglySorted le (l ++ repeat c n).
  Proof.
    induction 1 as [|a l Hs IH Hf]; intros Hb; simpl.
    - induction n; simpl; constructor; auto. apply Forall_forall. intros x Hx.
      apply repeat_spec in Hx. lia.
    - constructor.
      + apply IH. intros x Hx. apply Hb. now right.
      + apply Forall_app. split; auto. apply Forall_forall. intros x Hx.
        apply repeat_spec in Hx. subst. apply Hb. now left.
  Qed.

  Lemma sorted_app_le l1 a l2 :
    StronglySorted le (l1 ++ a :: l2) ->
    (forall x, In x l1 -> x <= a) /\ (forall x, In x l2 -> a <= x).
  Proof.
    induction l1 as [|b l1 IH]; simpl; intros H.
    - inversion H as [|? ? _ Hf]; subst. split; [intros x []|]. now apply Forall_forall.
    - inversion H as [|? ? Hs Hf]; subst. destruct (IH Hs) as [I1 I2]. split; auto.
      intros x [<-|Hx]; auto. rewrite Forall_forall in Hf. apply Hf. apply in_or_app. right. now left.
  Qed.

  Lemma map_const_repeat {A} (f : A -> nat) l c :
    (forall x, In x l -> f x = c) -> map f l = repeat c (length l).
  Proof.
    induction l as [|a l IH]; simpl; intros H; auto. rewrite H by (now left).
    f_equal. apply IH. intros x Hx. apply H. now right.
  Qed.


  Lemma drain_step_lv st g0 rest :
    binv st -> linv st -> cpend st = g0 :: rest ->
    linv (gate_assign (mkC (cg st) (cnext st) rest (casg st)) g0).
  Proof.
    intros B L Hp.
    destruct (drain_step st g0 rest B Hp) as (B1 & C1 & I1 & (new & P1 & Q1) & N1).
    set (st' := gate_assign (mkC (cg st) (cnext st) rest (casg st)) g0) in *.
    pose proof (b_core _ B) as K.
    set (L0 := lev st g0).
    assert (U : forall g, In g (casg st ++ g0 :: rest) -> lev st' g = lev st g).
    { intros g Hg. unfold lev. rewrite N1; auto. apply (k_vis _ _ K). simpl. now rewrite Hp. }
    assert (Nw : forall g, In g new -> lev st' g = S L0).
    { intros g Hg. apply (Q1 g Hg). }
    assert (El : casg st' ++ cpend st' = (casg st ++ g0 :: rest) ++ new).
    { rewrite C1, P1, <- !app_assoc. reflexivity. }
    pose proof (lv_sorted _ L) as SS. rewrite Hp in SS.
    assert (Bd : forall g, In g (casg st ++ g0 :: rest) -> lev st g <= S L0).
    { intros g Hg. rewrite map_app in SS. simpl in SS.
      destruct (sorted_app_le _ _ _ SS) as [S1 S2].
      apply in_app_or in Hg. destruct Hg as [Hg|[<-|Hg]].
      - specialize (S1 (lev st g) (in_map _ _ _ Hg)). fold L0 in S1. lia.
      - fold L0. lia.
      - apply (lv_bound _ L g0 rest Hp g Hg). }
    assert (Bc : forall g, In g (casg st) -> lev st g <= L0).
    { intros g Hg. rewrite map_app in SS. simpl in SS.
      destruct (sorted_app_le _ _ _ SS) as [S1 _]. apply (S1 (lev st g) (in_map _ _ _ Hg)). }
    assert (Br : forall g, In g rest -> L0 <= lev st g).
    { intros g Hg. rewrite map_app in SS. simpl in SS.
      destruct (sorted_app_le _ _ _ SS) as [_ S2]. apply (S2 (lev st g) (in_map _ _ _ Hg)). }
    constructor.
    - rewrite El, map_app.
      rewrite (map_ext_in _ _ _ U).
      rewrite (map_const_repeat (lev st') new (S L0) Nw).
      apply sorted_snoc_const; auto.
      intros x Hx. apply in_map_iff in Hx. destruct Hx as (g & <- & Hg). now apply Bd.
    - intros h t Hc g Hg. rewrite P1 in Hc.
      destruct rest as [|r rest'].
      + simpl in Hc. subst new. rewrite (Nw h) by (now left). rewrite (Nw g) by (now right). lia.
      + simpl in Hc. inversion Hc; subst h t.
        assert (Uh : lev st' r = lev st r) by (apply U; apply in_or_app; right; right; now left).
        specialize (Br r (or_introl eq_refl)).
        apply in_app_or in Hg. destruct Hg as [Hg|Hg].
        * rewrite U by (apply in_or_app; right; right; now right).
          assert (lev st g <= S L0) by (apply Bd; apply in_or_app; right; right; now right). lia.
        * rewrite (Nw g Hg). lia.
    - intros g Hg w Hw p Hp1 Ep. rewrite El in Hg. rewrite C1 in Hp1.
      apply in_app_or in Hg. apply in_app_or in Hp1.
      destruct Hg as [Hg|Hg].
      + rewrite (U g Hg).
        destruct Hp1 as [Hp1|[<-|[]]].
        * rewrite U by (apply in_or_app; now left).
          apply (lv_dep _ L g) with (w := w); auto. rewrite Hp. exact Hg.
        * (* the gate being processed cannot already feed a visited gate *)
          exfalso.
          assert (Ha : asg st (nO (gn G g0))).
          { rewrite Ep. apply in_app_or in Hg. destruct Hg as [Hg|Hg].
            - apply (b_vasg _ B g Hg w Hw).
            - apply (k_pend _ _ K g); auto. now rewrite Hp. }
          destruct (k_pend _ _ K g0) as [Lg0 _]; [rewrite Hp; now left|].
          destruct (b_asg _ B _ Ha) as [Hin|(p' & Hp' & E')].
          -- apply (c_prod _ CW g0 Lg0 Hin).
          -- destruct (b_casg _ B p' Hp') as [Lp' _].
             assert (p' = g0) by (apply (c_uniq _ CW); auto). subst p'.
             pose proof (k_nodup _ _ K) as ND. simpl in ND. rewrite Hp in ND.
             apply NoDup_remove_2 in ND. apply ND. apply in_or_app. now left.
      + rewrite (Nw g Hg).
        destruct Hp1 as [Hp1|[<-|[]]].
        * rewrite U by (apply in_or_app; now left). specialize (Bc p Hp1). lia.
        * rewrite U by (apply in_or_app; right; now left). fold L0. lia.
  Qed.

  Lemma drain_inv_lv fuel : forall st,
    binv st -> linv st -> length (casg st) + fuel > gnn G -> linv (drain fuel st).
  Proof.
    induction fuel as [|f IH]; intros st B L Hf; simpl.
    - destruct (cpend st) as [|g0 rest] eqn:Hp; [auto|].
      pose proof (binv_bound st B) as Hb. rewrite app_length, Hp in Hb. simpl in Hb. lia.
    - destruct (cpend st) as [|g0 rest] eqn:Hp; [auto|].
      destruct (drain_step st g0 rest B Hp) as (B1 & C1 & _).
      apply IH; auto.
      + now apply drain_step_lv.
      + rewrite C1, app_length. simpl. lia.
  Qed.

  Lemma input_phase_lv todo : forall st,
    core [] st -> casg st = [] -> closed st ->
    (forall w, In w todo -> wout (gw G w) = false) ->
    (forall g, In g (cpend st) -> lev st g = 0) ->
    forall g, In g (cpend (fold_left (fun st w => wire_assign st 0 w) todo st)) ->
              lev (fold_left (fun st w => wire_assign st 0 w) todo st) g = 0.
  Proof.
    induction todo as [|w todo IH]; intros st K C Cl Hf H0; simpl; auto.
    destruct (wire_assign_inv [] st 0 w K (Hf w (or_introl eq_refl)) Cl)
      as (K1 & C1 & _ & Cl1 & _ & _ & _ & (new & P1 & Q1) & N1).
    apply IH; auto.
    - congruence.
    - intros w' Hw'. apply Hf. now right.
    - intros g Hg. rewrite P1 in Hg. apply in_app_or in Hg. destruct Hg as [Hg|Hg].
      + unfold lev. rewrite N1; [now apply H0|].
        apply (k_vis _ _ K). simpl. rewrite C. exact Hg.
      + apply (Q1 g Hg).
  Qed.

  Theorem compile_levels_ok :
    let st := compile_assign G in levels_ok (cg st) (casg st).
  Proof.
    unfold compile_assign.
    set (st0 := mkC G 0 [] []).
    assert (K0 : core [] st0).
    { constructor; simpl.
      - apply cstable_refl.
      - auto.
      - intros g. rewrite (c_unvis _ CW g). split; [discriminate|intros []].
      - constructor.
      - intros w i. rewrite (c_fresh _ CW w). discriminate.
      - intros w1 w2 i. rewrite (c_fresh _ CW w1). discriminate.
      - intros w. unfold asg, assigned. simpl. rewrite (c_fresh _ CW w). discriminate.
      - intros g []. }
    assert (A0 : forall w, asg st0 w <-> In w []).
    { intros w. unfold asg, assigned. simpl. rewrite (c_fresh _ CW w). split; [discriminate|intros []]. }
    assert (Cl0 : closed st0).
    { intros g Lg Hr. exfalso. assert (H : asg st0 (nA (gn G g))).
      { apply Hr. unfold inputs_of. destruct (is_inv _); now left. }
      apply A0 in H. exact H. }
    destruct (input_phase (gins G) [] st0 eq_refl K0 eq_refl Cl0 A0 eq_refl)
      as (K1 & C1 & Cl1 & A1 & N1 & I1).
    { intros i Hi. simpl in Hi. lia. }
    pose proof (input_phase_lv (gins G) st0 K0 eq_refl Cl0 (c_ins_flag _ CW)) as LV0.
    set (st1 := fold_left (fun st w => wire_assign st 0 w) (gins G) st0) in *.
    assert (B1 : binv st1).
    { constructor; auto.
      - intros w Hw. left. now apply A1.
      - rewrite C1. intros p [].
      - rewrite C1. intros l1 g l2 H. destruct l1; discriminate.
      - rewrite C1. intros g []. }
    assert (Z1 : forall g, In g (cpend st1) -> lev st1 g = 0) by (apply LV0; intros g []).
    assert (L1 : linv st1).
    { constructor.
      - rewrite C1. simpl. rewrite (map_const_repeat (lev st1) (cpend st1) 0 Z1).
        apply (sorted_snoc_const [] 0 (length (cpend st1))); [constructor|intros x []].
      - intros h rest E g Hg. rewrite (Z1 g), (Z1 h); [lia|rewrite E; now left|rewrite E; now right].
      - rewrite C1. intros g _ w _ p []. }
    pose proof (drain_inv_lv (S (gnn G)) st1 B1 L1) as L2.
    destruct (drain_inv (S (gnn G)) st1 B1) as (B2 & P2 & W2); [lia|].
    set (st2 := drain (S (gnn G)) st1) in *.
    assert (L2' : linv st2) by (apply L2; lia).
    pose proof (b_core _ B2) as K2.
    assert (NA : forall o, In o (gouts G) -> ~ asg st2 o).
    { intros o Ho Ha. apply (k_noflag _ _ K2) in Ha. apply (c_outs_flag _ CW) in Ho. congruence. }
    destruct (output_phase (gouts G) st2 (c_outs_nodup _ CW) NA) as (N3 & C3 & X3 & S3 & I3 & O3).
    set (st3 := fold_left assign_output (gouts G) st2) in *.
    assert (CS : cstable G (cg st3)) by (eapply cstable_trans; [apply (k_st _ _ K2)|exact S3]).
    pose proof CS as (Gi & Go & Gord & Gn).
    intros l1 g l2 Hs w Hw p Hp Ep.
    rewrite C3 in Hs. rewrite N3.
    destruct (Gn g) as (a & b & c & d & e). destruct (Gn p) as (_ & _ & _ & dp & _).
    apply (lv_dep _ L2' g) with (w := w).
    - rewrite Hs, P2, app_nil_r. apply in_or_app. right. now left.
    - unfold inputs_of in *. rewrite <- a, <- b, <- c. exact Hw.
    - rewrite Hs. apply in_or_app. now left.
    - now rewrite <- dp.
  Qed.
End BFS.

(* Compile is correct for both targets on every graph satisfying [cwf] *)
Theorem compile_correct_cwf t G x v :
  cwf G -> sat G x v -> length x = length (gins G) ->
  eval_plain (compile t G) x = map v (gouts G).
Proof.
  intros CW S Hx. apply compile_correct; auto.
  - now apply compile_emission_ok.
  - intros _. now apply compile_levels_ok.
Qed.

(* ------------------------------------------------------------------ *)
(* freshly built graphs satisfy [cwf]                                 *)

(* the bookkeeping of a freshly built graph (what NewWire / BinaryGate /
   INVGate / AddGate / SetOutput leave behind) *)
Record wfb (G : graph) : Prop := {
  fb_fresh : forall w, wid (gw G w) = None;
  fb_unvis : forall g, nvis (gn G g) = false;
  fb_ins_flag : forall w, In w (gins G) -> wout (gw G w) = false;
  fb_outs_nodup : NoDup (gouts G);
  fb_outs_flag : forall w, wout (gw G w) = true <-> In w (gouts G);
  fb_lists : forall g, In g (gorder G) -> forall w, In w (inputs_of (gn G g)) -> In g (wouts (gw G w));
  fb_entries : forall w c, In c (wouts (gw G w)) -> In c (gorder G);
  fb_noconsume : forall g, In g (gorder G) -> forall w, In w (inputs_of (gn G g)) -> wout (gw G w) = false;
  fb_range : forall g, In g (gorder G) -> g < gnn G;
  fb_outs_prod : forall o, In o (gouts G) -> exists g, In g (gorder G) /\ nO (gn G g) = o }.

Lemma wfg0_avail G : wfg0 G ->
  forall l1 l2, gorder G = l1 ++ l2 -> forall g, In g l1 -> avail G (nO (gn G g)).
Proof.
  intros WF l1. induction l1 as [|a l IH] using rev_ind; intros l2 Ho g Hg; [destruct Hg|].
  rewrite <- app_assoc in Ho. simpl in Ho.
  apply in_app_or in Hg. destruct Hg as [Hg|[<-|[]]].
  - eapply IH; eauto.
  - destruct (w0_topo _ WF l a l2 Ho) as (Tin & _ & _).
    apply av_gate.
    + split; [rewrite Ho; apply in_or_app; right; now left|].
      apply (w0_nodead _ WF). rewrite Ho. apply in_or_app. right. now left.
    + intros w Hw. destruct (Tin w Hw) as [H|(p & Hp & <-)]; [now apply av_in|].
      eapply IH; eauto.
Qed.

Theorem fresh_cwf0 G : wfg0 G -> wfb G -> cwf G.
Proof.
  intros WF FB. constructor.
  - apply (fb_fresh _ FB).
  - apply (fb_unvis _ FB).
  - apply (w0_nodup_ins _ WF).
  - apply (fb_ins_flag _ FB).
  - apply (fb_outs_nodup _ FB).
  - apply (fb_outs_flag _ FB).
  - intros g [Lg _]. now apply (fb_lists _ FB).
  - intros w c Hc _. eapply (fb_entries _ FB); eauto.
  - intros g [Lg _]. now apply (fb_noconsume _ FB).
  - intros g [Lg _]. destruct (in_split _ _ Lg) as (l1 & l2 & E).
    apply (w0_topo _ WF l1 g l2 E).
  - intros g1 g2 [L1 _] [L2 _] E.
    destruct (Nat.eq_dec g1 g2) as [|Hne]; auto. exfalso.
    destruct (in_split _ _ L1) as (l1 & l2 & E1).
    rewrite E1 in L2. apply in_app_or in L2. destruct L2 as [L2|[L2|L2]].
    + destruct (w0_topo _ WF l1 g1 l2 E1) as (_ & _ & D). apply (D g2 L2). now symmetry.
    + congruence.
    + destruct (in_split _ _ L2) as (a & b & E2).
      assert (Hs : gorder G = (l1 ++ g1 :: a) ++ g2 :: b).
      { rewrite E1, E2, <- app_assoc. reflexivity. }
      destruct (w0_topo _ WF _ _ _ Hs) as (_ & _ & D). apply (D g1); auto.
      apply in_or_app. right. now left.
  - apply (fb_range _ FB).
  - intros o Ho. destruct (fb_outs_prod _ FB o Ho) as (g & Hg & <-).
    apply (wfg0_avail G WF (gorder G) []); auto. now rewrite app_nil_r.
Qed.

Lemma wfg_avail G : wfg G ->
  forall l1 l2, gorder G = l1 ++ l2 -> forall g, In g l1 -> avail G (nO (gn G g)).
Proof. intros WF. apply wfg0_avail. now apply wfg_wfg0. Qed.

Theorem fresh_cwf G : wfg G -> wfb G -> cwf G.
Proof. intros WF. apply fresh_cwf0. now apply wfg_wfg0. Qed.

(* Compile alone, on every freshly built graph: the circuit computes the
   graph's meaning for both targets *)
Theorem compile_fresh_correct t G x :
  wfg G -> wfb G -> length x = length (gins G) ->
  eval_plain (compile t G) x = graph_eval G x.
Proof.
  intros WF FB Hx. unfold graph_eval.
  apply compile_correct_cwf; auto using fresh_cwf.
  apply (geval_sat G WF x).
Qed.

(* the pipeline of CompileCircuit with Compile's side conditions discharged:
   what remains is that the graph handed to Compile satisfies [cwf] and that
   ShortCircuitXORZero fires through exact producer links *)
Theorem pipeline_correct_cwf (do_prune : bool) t G x :
  wfg G -> length x = length (gins G) ->
  let G1 := const_propagate G in
  ranged G1 -> links_exact G1 (gorder G1) ->
  (forall o, In o (gouts G) -> o < gnw G1) ->
  let G3 := optimize do_prune G in
  gins G3 = gins G -> gouts G3 = gouts G ->
  cwf G3 ->
  eval_plain (pipeline do_prune t G) x = graph_eval G x.
Proof.
  intros WF Hx G1 RG LE Ho G3 Hi Hou CW.
  apply pipeline_correct; auto.
  - now apply compile_emission_ok.
  - intros _. now apply compile_levels_ok.
Qed.
