(* PassesLazy.v — gate graphs on which the constant wires were never created
   (cc.ZeroWire()/cc.OneWire() are lazy: compiler.go creates them on first
   use).  Wire.SetValue is called by ZeroWire/OneWire and by ConstPropagate
   only, so on such a graph no wire carries a value ([unvalued]); then
   ConstPropagate and ShortCircuitXORZero are the identity — in particular no
   constant is created lazily inside ConstPropagate — and the pipeline of
   CompileCircuit is Prune + Compile.  (Property C09) *)
From Coq Require Import List Bool Arith Lia.
From Mpc Require Import Circuit.Circuit Circuit.Passes Circuit.PassesProof Circuit.PassesBFS
  Circuit.PassesIO Circuit.PassesTV Circuit.PassesInv Circuit.PassesPrune Circuit.PassesPanic.
Import ListNotations.

(* no Wire.SetValue(Zero/One) has happened *)
Definition unvalued (G : graph) : Prop := forall w, wv (gw G w) = Unknown.

Lemma cp_action_unknown o : cp_action o Unknown Unknown = ActNone.
Proof. destruct o; reflexivity. Qed.

(* one iteration of ConstPropagate's loop: no switch branch is taken and
   neither substitution block (the only callers of cc.ZeroWire()/cc.OneWire()
   inside the pass) is entered *)
Lemma cp_step_unvalued G g : unvalued G -> cp_step G g = G.
Proof.
  intros U. unfold cp_step.
  rewrite (U (nA (gn G g))).
  assert (E : (if is_inv (nop (gn G g)) then Unknown else wv (gw G (nB (gn G g)))) = Unknown).
  { destruct (is_inv _); auto. }
  rewrite E, cp_action_unknown.
  unfold cp_subst_A. rewrite (U (nA (gn G g))).
  unfold cp_subst_B. destruct (is_inv (nop (gn G g))); auto.
  now rewrite (U (nB (gn G g))).
Qed.

Lemma cp_fold_unvalued l : forall G, unvalued G -> fold_left cp_step l G = G.
Proof.
  induction l as [|g l IH]; intros G U; simpl; auto.
  rewrite (cp_step_unvalued G g U). now apply IH.
Qed.

Theorem const_propagate_unvalued G : unvalued G -> const_propagate G = G.
Proof. intros U. unfold const_propagate. now apply cp_fold_unvalued. Qed.

Lemma scx_try_unvalued G g zin oin : unvalued G -> scx_try G g zin oin = G.
Proof. intros U. unfold scx_try. now rewrite (U zin). Qed.

Lemma scx_step_unvalued G g : unvalued G -> scx_step G g = G.
Proof.
  intros U. unfold scx_step. destruct (is_xor _); auto.
  rewrite (scx_try_unvalued G g _ _ U). now apply scx_try_unvalued.
Qed.

Theorem short_circuit_xor_zero_unvalued G : unvalued G -> short_circuit_xor_zero G = G.
Proof.
  intros U. unfold short_circuit_xor_zero. generalize (gorder G) as l.
  induction l as [|g l IH]; simpl; auto. now rewrite (scx_step_unvalued G g U).
Qed.

Theorem optimize_unvalued (do_prune : bool) G :
  unvalued G -> optimize do_prune G = if do_prune then prune G else G.
Proof.
  intros U. unfold optimize.
  now rewrite (const_propagate_unvalued G U), (short_circuit_xor_zero_unvalued G U).
Qed.

(* ---- the invariants of a freshly built constant-free graph ----------- *)

Lemma fresh_TV0 G : wfg0 G -> wfb G -> TV G.
Proof.
  intros WF FB. constructor.
  - apply (fb_fresh _ FB).
  - apply (fb_unvis _ FB).
  - apply (w0_nodup_ins _ WF).
  - apply (fb_ins_flag _ FB).
  - apply (fb_outs_nodup _ FB).
  - apply (fb_outs_flag _ FB).
Qed.

Lemma fresh_BK0 G : wfg0 G -> wfb G -> wfx G -> BK G.
Proof.
  intros WF FB X. constructor.
  - apply (x_nodup _ X).
  - apply (fb_range _ FB).
  - intros c w Hc. unfold lslots. rewrite (w0_nodead _ WF c Hc). now apply (x_lists _ X).
  - apply (x_cnt _ X).
  - intros w c Hc _. eapply (fb_entries _ FB); eauto.
Qed.

(* the position-based rank is an acyclicity witness; no constant wire has to
   be placed *)
Lemma fresh_ST00 G : wfg0 G -> wfb G -> wfx G -> ST0 (base_rank G) G.
Proof.
  intros WF FB X. pose proof (fresh_cwf0 G WF FB) as CW.
  assert (LV : forall c, In c (gorder G) -> live G c).
  { intros c Hc. split; auto. now apply (w0_nodead _ WF). }
  constructor.
  - apply (w0_nodead _ WF).
  - apply (fb_noconsume _ FB).
  - intros c Hc. apply (c_prod _ CW c (LV c Hc)).
  - intros c1 c2 H1 H2. apply (c_uniq _ CW); auto.
  - apply (base_rank_edge0 G WF).
  - apply (c_avail _ CW).
  - apply (x_rng _ X).
  - apply (x_rng_in _ X).
  - apply (fb_entries _ FB).
  - intros o Ho. split; [now apply (fb_outs_flag _ FB)|now apply (x_rng_out _ X)].
Qed.

(* the graph handed to Compile satisfies Compile's precondition *)
Theorem optimize_cwf_unvalued (do_prune : bool) G :
  wfg0 G -> wfb G -> wfx G -> unvalued G -> cwf (optimize do_prune G).
Proof.
  intros WF FB X U. rewrite (optimize_unvalued do_prune G U). destruct do_prune.
  - apply (prune_cwf (base_rank G)); auto using fresh_BK0, fresh_ST00, fresh_TV0.
  - now apply fresh_cwf0.
Qed.

(* ---- Prune keeps a satisfying valuation (no constants needed) --------- *)

Lemma shrinks_sat x v G G' :
  shrinks G G' -> (forall gid, In gid (gorder G') -> In gid (gorder G)) ->
  sat G x v -> sat G' x v.
Proof.
  intros (Hi & _ & _ & _ & Hn & Hd) Ho (Hin & Hg).
  split; [now rewrite Hi|].
  intros gid [Hl Hdead]. destruct (Hn gid) as (p1&p2&p3&p4).
  unfold node_fn. rewrite p1, p2, p3, p4. apply Hg. split; auto.
  destruct (ndead (gn G gid)) eqn:E; auto. rewrite (Hd gid E) in Hdead. discriminate.
Qed.

Theorem prune_sat0 x v G : sat G x v -> sat (prune G) x v.
Proof.
  intros HS. unfold prune. rewrite prune_sweep_eq.
  pose proof (prune_fold (rev (gorder G)) (G, [])) as H. simpl in H.
  destruct (fold_left prune_step (rev (gorder G)) (G, [])) as [G1 kept] eqn:E.
  simpl in H. destruct H as (S & O & K).
  apply (shrinks_sat x v G).
  - destruct S as (a1&a2&a3&a4&a5&a6). repeat split; auto; apply a5.
  - simpl. intros gid Hin. destruct (K gid Hin) as [[]|H]. now apply in_rev.
  - exact HS.
Qed.

(* ---- C09 for graphs built without the constant wires ----------------- *)

Theorem pipeline_correct_unvalued (do_prune : bool) t G x :
  wfg0 G -> wfb G -> wfx G -> unvalued G -> length x = length (gins G) ->
  eval_plain (pipeline do_prune t G) x = graph_eval G x.
Proof.
  intros WF FB X U Hx. unfold pipeline.
  pose proof (optimize_cwf_unvalued do_prune G WF FB X U) as CW.
  destruct (io_optimize do_prune G) as (I3 & O3 & _).
  assert (S3 : sat (optimize do_prune G) x (geval G x)).
  { rewrite (optimize_unvalued do_prune G U).
    pose proof (geval_sat0 G WF x) as S0. destruct do_prune; auto. now apply prune_sat0. }
  rewrite (compile_correct_cwf t _ x (geval G x) CW S3) by (rewrite I3; exact Hx).
  rewrite O3. reflexivity.
Qed.

(* no pass panics — ConstPropagate included — on a constant-free fresh graph *)
Theorem no_panic_unvalued (do_prune : bool) G :
  wfg0 G -> wfb G -> wfx G -> unvalued G ->
  gerr (const_propagate G) = gerr G /\
  gerr (cg (compile_assign (optimize do_prune G))) = gerr G.
Proof.
  intros WF FB X U. split; [now rewrite (const_propagate_unvalued G U)|].
  rewrite (compile_gerr _ (optimize_cwf_unvalued do_prune G WF FB X U)).
  rewrite (optimize_unvalued do_prune G U). destruct do_prune; auto.
  apply (prune_gerr (base_rank G)); auto using fresh_BK0, fresh_ST00, fresh_TV0.
Qed.

(* the pass leaves the constant-wire fields alone: nothing is created *)
Theorem no_lazy_creation_unvalued G :
  unvalued G ->
  gnw (const_propagate G) = gnw G /\ gnn (const_propagate G) = gnn G /\
  gzero (const_propagate G) = gzero G /\ gone (const_propagate G) = gone G /\
  ginv (const_propagate G) = ginv G.
Proof. intros U. rewrite (const_propagate_unvalued G U). repeat split. Qed.

(* ---- the lazy creation itself (compiler.go InvI0Wire/ZeroWire/OneWire) --- *)

(* Wire.SetInput ("wire input gate already set") is the only panic site of the
   creation; it is never reached, on any graph: the output wire of the new gate
   comes straight from Calloc.Wire() *)
Lemma set_input_blank G w g : winp (gw G w) = None -> gerr (set_input G w g) = gerr G.
Proof. intros H. unfold set_input. now rewrite H. Qed.

Lemma winp_add_output G a g w : winp (gw (add_output G a g) w) = winp (gw G w).
Proof. unfold add_output. simpl. unfold fupd. destruct (Nat.eqb_spec w a); subst; reflexivity. Qed.

Lemma gerr_add_binary_gate G o a b out :
  winp (gw G out) = None -> gerr (add_binary_gate G o a b out) = gerr G.
Proof.
  intros H. unfold add_binary_gate, alloc_node. simpl.
  rewrite set_input_blank; [reflexivity|]. now rewrite !winp_add_output.
Qed.

Lemma gerr_add_inv_gate G a out :
  winp (gw G out) = None -> gerr (add_inv_gate G a out) = gerr G.
Proof.
  intros H. unfold add_inv_gate, alloc_node. simpl.
  rewrite set_input_blank; [reflexivity|]. now rewrite winp_add_output.
Qed.

(* wires other than the output keep their input gate *)
Lemma winp_set_input G out g w : w <> out -> winp (gw (set_input G out g) w) = winp (gw G w).
Proof.
  intros H. unfold set_input. destruct (winp (gw G out)); simpl; auto.
  unfold fupd. destruct (Nat.eqb_spec w out); [contradiction|reflexivity].
Qed.

Lemma winp_add_inv_gate G a out w :
  w <> out -> winp (gw (add_inv_gate G a out) w) = winp (gw G w).
Proof.
  intros H. unfold add_inv_gate, alloc_node. simpl.
  rewrite winp_set_input by auto. now rewrite winp_add_output.
Qed.

Lemma gerr_inv_i0_wire G : gerr (fst (inv_i0_wire G)) = gerr G.
Proof.
  unfold inv_i0_wire. destruct (ginv G); [reflexivity|]. cbn -[add_inv_gate].
  rewrite gerr_add_inv_gate; [reflexivity|]. simpl. unfold fupd. now rewrite Nat.eqb_refl.
Qed.

(* ... and InvI0Wire leaves a freshly allocated wire without input gate *)
Lemma winp_inv_i0_wire G w :
  winp (gw G w) = None -> w < gnw G -> winp (gw (fst (inv_i0_wire G)) w) = None.
Proof.
  intros Hn Hw. unfold inv_i0_wire. destruct (ginv G); [exact Hn|]. cbn -[add_inv_gate].
  rewrite winp_add_inv_gate by lia. simpl. unfold fupd.
  destruct (Nat.eqb_spec w (gnw G)); [lia|exact Hn].
Qed.

Theorem creation_no_panic G :
  gerr (fst (inv_i0_wire G)) = gerr G /\
  gerr (fst (zero_wire G)) = gerr G /\ gerr (fst (one_wire G)) = gerr G.
Proof.
  split; [apply gerr_inv_i0_wire|]. split.
  - unfold zero_wire. destruct (gzero G); [reflexivity|].
    cbn -[add_binary_gate inv_i0_wire set_consts set_value].
    set (G2 := set_consts _ _ _ _).
    assert (W0 : winp (gw G2 (gnw G)) = None) by (simpl; unfold fupd; now rewrite Nat.eqb_refl).
    assert (L0 : gnw G < gnw G2) by (simpl; lia).
    pose proof (gerr_inv_i0_wire G2) as E. pose proof (winp_inv_i0_wire G2 (gnw G) W0 L0) as W.
    destruct (inv_i0_wire G2) as [G3 i]. cbn [fst] in *.
    unfold set_value, set_w; cbn [gerr].
    rewrite gerr_add_binary_gate; auto.
  - unfold one_wire. destruct (gone G); [reflexivity|].
    cbn -[add_binary_gate inv_i0_wire set_consts set_value].
    set (G2 := set_consts _ _ _ _).
    assert (W0 : winp (gw G2 (gnw G)) = None) by (simpl; unfold fupd; now rewrite Nat.eqb_refl).
    assert (L0 : gnw G < gnw G2) by (simpl; lia).
    pose proof (gerr_inv_i0_wire G2) as E. pose proof (winp_inv_i0_wire G2 (gnw G) W0 L0) as W.
    destruct (inv_i0_wire G2) as [G3 i]. cbn [fst] in *.
    unfold set_value, set_w; cbn [gerr].
    rewrite gerr_add_binary_gate; auto.
Qed.
