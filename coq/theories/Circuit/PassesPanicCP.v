(* PassesPanicCP.v — ConstPropagate reaches none of its panic sites on a
   freshly built graph (property C09):

   * Wire.RemoveOutput -> SetNumOutputs(NumOutputs-1) "wire outputs overflow"
     (model error 1), three call sites: Gate.ReplaceInput and the two
     substitution blocks after the switch;
   * Gate.ReplaceInput "... is not input for gate ..." (model error 3): a stale
     entry of a wire's output-gate list reaching Gate.ShortCircuit's loop;
   * Wire.SetInput "wire input gate already set" (model error 2): only inside
     cc.ZeroWire()/cc.OneWire(), not called when both constants exist.

   RemoveOutput never removes a list entry, so stale entries do exist — but
   only in the lists of wires that carry a value ([EX]: the list of an
   unvalued wire is exact, with multiplicity), and Gate.ShortCircuit only ever
   walks the list of an unvalued wire: the output of a gate that is still to
   be processed is unvalued or a constant wire ([UV]), and the gates producing
   the constants (and INV(in0)) read wires that never get a value ([CS]), so
   they take no branch of the switch. *)
From Coq Require Import List Bool Arith Lia.
From Mpc Require Import Circuit.Circuit Circuit.Passes Circuit.PassesProof Circuit.PassesBFS
  Circuit.PassesIO Circuit.PassesTV Circuit.PassesInv Circuit.PassesPrune Circuit.PassesPanic.
Import ListNotations.

(* ---- the additional hypothesis on the freshly built graph ------------ *)

(* the output-gate lists contain nothing but consumer slots, with
   multiplicity (Allocator.BinaryGate/INVGate call AddOutput once per input
   slot); together with wfx.x_lists the lists are exact *)
Definition wfe (G : graph) : Prop :=
  forall w c, In c (wouts (gw G w)) ->
    count_occ Nat.eq_dec (wouts (gw G w)) c <= slots (gn G c) w.

(* ---- exactness of the lists of unvalued wires ------------------------ *)

Definition EXe (X : nat) (G : graph) : Prop :=
  forall w, w <> X -> wv (gw G w) = Unknown ->
  forall c, count_occ Nat.eq_dec (wouts (gw G w)) c <= lslots G c w.

Definition EX (G : graph) : Prop :=
  forall w, wv (gw G w) = Unknown ->
  forall c, count_occ Nat.eq_dec (wouts (gw G w)) c <= lslots G c w.

Lemma EX_EXe X G : EX G -> EXe X G.
Proof. intros E w _. apply E. Qed.

Lemma EXe_EX X G : EXe X G -> wv (gw G X) <> Unknown -> EX G.
Proof.
  intros E Hv w Hw. destruct (Nat.eq_dec w X) as [->|Hne]; [contradiction|]. now apply E.
Qed.

Lemma moved_EXe sa G G' c from to :
  moved sa G G' c from to -> ndead (gn G c) = false -> EXe from G -> EXe from G'.
Proof.
  intros M Hd E w Hw Hv c'.
  rewrite (proj1 (m_wire _ _ _ _ _ _ M w)) in Hv.
  specialize (E w Hw Hv c').
  destruct (moved_lslots _ _ _ _ _ _ M) as [Lo Lc].
  rewrite (m_wouts _ _ _ _ _ _ M w).
  assert (Ef : Nat.eqb from w = false) by (apply Nat.eqb_neq; auto).
  destruct (Nat.eq_dec c' c) as [->|Hne].
  - specialize (Lc w). rewrite Hd, Ef in Lc.
    destruct (Nat.eqb_spec w to) as [->|Hwt].
    + rewrite count_occ_snoc, !Nat.eqb_refl in *. lia.
    + assert (Et : Nat.eqb to w = false) by (apply Nat.eqb_neq; auto). rewrite Et in Lc. lia.
  - rewrite (Lo c' w Hne). destruct (Nat.eqb w to); auto.
    rewrite count_occ_snoc. assert (Ec : Nat.eqb c c' = false) by (apply Nat.eqb_neq; auto).
    rewrite Ec. lia.
Qed.

(* ---- wires that never get a value ------------------------------------ *)

Record CS (U : nat -> Prop) (G : graph) : Prop := {
  cs_unk : forall w, U w -> wv (gw G w) = Unknown;
  cs_clo : forall c, In c (gorder G) -> U (nO (gn G c)) ->
           forall w, In w (inputs_of (gn G c)) -> U w;
  cs_const : forall k, isconst G k ->
             exists p, In p (gorder G) /\ nO (gn G p) = k /\
                       forall w, In w (inputs_of (gn G p)) -> U w }.

(* a gate whose inputs carry no value takes no branch of the switch *)
Lemma act_none G n :
  (forall w, In w (inputs_of n) -> wv (gw G w) = Unknown) ->
  cp_action (nop n) (wv (gw G (nA n)))
            (if is_inv (nop n) then Unknown else wv (gw G (nB n))) = ActNone.
Proof.
  intros H. unfold inputs_of in H. destruct (is_inv (nop n)) eqn:Ei.
  - rewrite (H (nA n)) by (now left). destruct (nop n); reflexivity.
  - rewrite (H (nA n)) by (now left). rewrite (H (nB n)) by (right; now left).
    destruct (nop n); reflexivity.
Qed.

Lemma moved_from_input sa G G' c from to :
  moved sa G G' c from to -> In from (inputs_of (gn G c)).
Proof.
  intros M. destruct (m_from _ _ _ _ _ _ M) as [Hf Hi]. unfold inputs_of.
  destruct sa.
  - destruct (is_inv _); left; exact Hf.
  - rewrite (Hi eq_refl). right. left. exact Hf.
Qed.

Lemma moved_nO sa G G' c from to :
  moved sa G G' c from to -> forall i, nO (gn G' i) = nO (gn G i) /\ ndead (gn G' i) = ndead (gn G i).
Proof.
  intros M i. destruct (Nat.eq_dec i c) as [->|Hne].
  - rewrite (m_node_c _ _ _ _ _ _ M). destruct sa; split; reflexivity.
  - rewrite (m_node_o _ _ _ _ _ _ M i Hne). split; reflexivity.
Qed.

Lemma moved_CS (U : nat -> Prop) sa G G' c from to :
  moved sa G G' c from to -> ~ U from -> CS U G -> CS U G'.
Proof.
  intros M Hu C. pose proof (moved_from_input _ _ _ _ _ _ M) as Hin.
  constructor.
  - intros w Hw. rewrite (proj1 (m_wire _ _ _ _ _ _ M w)). now apply (cs_unk _ _ C).
  - intros c' Hc' Hu' w Hw. rewrite (m_order _ _ _ _ _ _ M) in Hc'.
    rewrite (proj1 (moved_nO _ _ _ _ _ _ M c')) in Hu'.
    destruct (Nat.eq_dec c' c) as [->|Hne].
    + exfalso. apply Hu. now apply (cs_clo _ _ C c Hc' Hu').
    + rewrite (m_node_o _ _ _ _ _ _ M c' Hne) in Hw. now apply (cs_clo _ _ C c' Hc' Hu').
  - intros k Hk. assert (Hk' : isconst G k).
    { unfold isconst in *. now rewrite <- (m_zero _ _ _ _ _ _ M), <- (m_one _ _ _ _ _ _ M). }
    destruct (cs_const _ _ C k Hk') as (p & Hp & Ep & Hi).
    exists p. rewrite (m_order _ _ _ _ _ _ M).
    destruct (Nat.eq_dec p c) as [->|Hne].
    + exfalso. apply Hu. now apply Hi.
    + rewrite (m_node_o _ _ _ _ _ _ M p Hne). auto.
Qed.

(* ---- counters are positive where a live gate reads the wire ---------- *)

Lemma BK_pos G c w : BK G -> In c (gorder G) -> 0 < lslots G c w -> 0 < wnum (gw G w).
Proof.
  intros B Hc Hl. pose proof (bk_cnt _ B w) as Hu. unfold uses in Hu.
  pose proof (sum_pos_in (gorder G) (fun i => lslots G i w) c Hc) as P. simpl in P. lia.
Qed.

Lemma lslots_A G c : ndead (gn G c) = false -> 0 < lslots G c (nA (gn G c)).
Proof. intros Hd. unfold lslots, slots, slotA. rewrite Hd, Nat.eqb_refl. lia. Qed.

Lemma lslots_B G c :
  ndead (gn G c) = false -> is_inv (nop (gn G c)) = false -> 0 < lslots G c (nB (gn G c)).
Proof. intros Hd Hi. unfold lslots, slots, slotB. rewrite Hd, Hi, Nat.eqb_refl. simpl. lia. Qed.

Lemma lslots_pos_side G c w :
  0 < lslots G c w ->
  ndead (gn G c) = false /\
  (nA (gn G c) = w \/ (nA (gn G c) <> w /\ is_inv (nop (gn G c)) = false /\ nB (gn G c) = w)).
Proof.
  unfold lslots, slots, slotA, slotB. destruct (ndead (gn G c)); [lia|]. intros H. split; auto.
  destruct (Nat.eqb_spec (nA (gn G c)) w); auto. right. split; auto.
  destruct (is_inv (nop (gn G c))); simpl in H; [lia|].
  destruct (Nat.eqb_spec (nB (gn G c)) w); [auto|lia].
Qed.

(* Gate.ReplaceInput neither underflows nor takes its final else *)
Lemma replace_input_gerr_A G c from to :
  0 < wnum (gw G from) -> nA (gn G c) = from -> gerr (replace_input G c from to) = gerr G.
Proof.
  intros Hn HA. unfold replace_input. rewrite HA, Nat.eqb_refl. unfold remove_output.
  destruct (wnum (gw G from)); [lia|]. reflexivity.
Qed.

Lemma replace_input_gerr_B G c from to :
  0 < wnum (gw G from) -> nA (gn G c) <> from -> is_inv (nop (gn G c)) = false ->
  nB (gn G c) = from -> gerr (replace_input G c from to) = gerr G.
Proof.
  intros Hn HA Hi HB. unfold replace_input.
  destruct (Nat.eqb_spec (nA (gn G c)) from); [contradiction|].
  rewrite Hi, HB, Nat.eqb_refl. simpl. unfold remove_output.
  destruct (wnum (gw G from)); [lia|]. reflexivity.
Qed.

(* ---- the loop of Gate.ShortCircuit over an exact list ----------------- *)

Lemma sc_fold_noerr (U : nat -> Prop) O o : forall l G,
  BK G -> (forall c, In c (gorder G) -> ndead (gn G c) = false) ->
  (forall c, In c l -> In c (gorder G)) -> o <> O -> ~ U O ->
  (forall c, count_occ Nat.eq_dec l c <= lslots G c O) ->
  EXe O G -> CS U G ->
  let G' := fold_left (fun G c => replace_input G c O o) l G in
  gerr G' = gerr G /\ EXe O G' /\ CS U G' /\
  (forall w, wv (gw G' w) = wv (gw G w)) /\
  (forall i, nO (gn G' i) = nO (gn G i)) /\
  gorder G' = gorder G /\ gzero G' = gzero G /\ gone G' = gone G.
Proof.
  induction l as [|h l IH]; intros G B ND Hl HoO HU Q E C; simpl.
  - split; [reflexivity|]. split; [exact E|]. split; [exact C|]. repeat split.
  - assert (Hh : In h (gorder G)) by (apply Hl; now left).
    assert (Hpos : 0 < lslots G h O).
    { specialize (Q h). simpl in Q. destruct (Nat.eq_dec h h); [lia|contradiction]. }
    destruct (lslots_pos_side G h O Hpos) as (Hd & Side).
    pose proof (BK_pos G h O B Hh Hpos) as Hn.
    assert (Step : exists sa, moved sa G (replace_input G h O o) h O o /\
                              gerr (replace_input G h O o) = gerr G).
    { destruct Side as [EA|(NA & Ei & EB)].
      - exists true. split; [now apply replace_input_moved_A|now apply replace_input_gerr_A].
      - exists false. split; [now apply replace_input_moved_B|now apply replace_input_gerr_B]. }
    destruct Step as (sa & M & Eg).
    set (G1 := replace_input G h O o) in *.
    destruct (moved_lslots _ _ _ _ _ _ M) as [Lo Lc].
    pose proof (m_order _ _ _ _ _ _ M) as Eo.
    destruct (IH G1) as (a1 & a2 & a3 & a4 & a5 & a6 & a7 & a8); auto.
    + eapply moved_BK; eauto. split; auto.
    + intros c Hc. rewrite Eo in Hc. rewrite (proj2 (moved_nO _ _ _ _ _ _ M c)). now apply ND.
    + intros c Hc. rewrite Eo. apply Hl. now right.
    + intros c. specialize (Q c). simpl in Q.
      destruct (Nat.eq_dec c h) as [->|Hne].
      * specialize (Lc O). rewrite Hd, Nat.eqb_refl in Lc.
        assert (Et : Nat.eqb o O = false) by (apply Nat.eqb_neq; auto). rewrite Et in Lc.
        destruct (Nat.eq_dec h h); [lia|contradiction].
      * rewrite (Lo c O Hne). destruct (Nat.eq_dec h c); [congruence|lia].
    + eapply moved_EXe; eauto.
    + eapply moved_CS; eauto.
    + split; [congruence|]. split; auto. split; auto.
      split; [intros w; rewrite a4; apply (m_wire _ _ _ _ _ _ M)|].
      split; [intros i; rewrite a5; apply (moved_nO _ _ _ _ _ _ M)|].
      split; [congruence|]. split.
      * rewrite a7. apply (m_zero _ _ _ _ _ _ M).
      * rewrite a8. apply (m_one _ _ _ _ _ _ M).
Qed.

(* what one sub-step of an iteration keeps, besides SI and Inv *)
Definition keeps (U : nat -> Prop) (G G' : graph) : Prop :=
  gerr G' = gerr G /\ EX G' /\ CS U G' /\ (forall i, nO (gn G' i) = nO (gn G i)).

Lemma keeps_refl (U : nat -> Prop) G : EX G -> CS U G -> keeps U G G.
Proof. intros E C. split; [reflexivity|]. split; [exact E|]. split; [exact C|]. reflexivity. Qed.

Lemma CS_ext (U : nat -> Prop) G G' :
  gorder G' = gorder G -> gzero G' = gzero G -> gone G' = gone G ->
  (forall i, gn G' i = gn G i) ->
  (forall w, U w -> wv (gw G' w) = wv (gw G w)) -> CS U G -> CS U G'.
Proof.
  intros Ho Hz Hone Hn Hv C. constructor.
  - intros w Hw. rewrite (Hv w Hw). now apply (cs_unk _ _ C).
  - intros c Hc. rewrite Ho in Hc. rewrite Hn. now apply (cs_clo _ _ C).
  - intros k Hk. assert (Hk' : isconst G k) by (unfold isconst in *; now rewrite <- Hz, <- Hone).
    destruct (cs_const _ _ C k Hk') as (p & Hp & Ep & Hi). exists p. rewrite Ho, Hn. auto.
Qed.

(* Gate.ShortCircuit on a gate whose output wire is unvalued *)
Lemma short_circuit_keeps rank (U : nat -> Prop) G g o :
  SI rank G -> In g (gorder G) -> In o (inputs_of (gn G g)) ->
  wv (gw G (nO (gn G g))) = Unknown -> ~ U (nO (gn G g)) ->
  EX G -> CS U G ->
  keeps U G (short_circuit G g o) /\
  forall w, wv (gw (short_circuit G g o) w) = wv (gw G w).
Proof.
  intros [B S] Hg Ho Hv HU E C. unfold short_circuit.
  destruct (wout (gw G (nO (gn G g)))); [split; [now apply keeps_refl|reflexivity]|].
  set (O := nO (gn G g)) in *.
  assert (HoO : o <> O).
  { pose proof (st_rank _ _ S g Hg o Ho). fold O in H. intros ->. lia. }
  destruct (sc_fold_noerr U O o (wouts (gw G O)) G B (st_nodead _ _ S))
    as (a1 & a2 & a3 & a4 & a5 & a6 & a7 & a8); auto.
  - intros c Hc. eapply (st_entries _ _ S); eauto.
  - now apply EX_EXe.
  - set (G' := fold_left (fun G c => replace_input G c O o) (wouts (gw G O)) G) in *.
    split; [|intros w; simpl; unfold fupd; destruct (Nat.eqb_spec w O); subst; simpl; apply a4].
    split; [exact a1|]. split; [|split].
    + intros w Hw c. simpl in Hw |- *. unfold fupd in *.
      destruct (Nat.eqb_spec w O) as [Ew|Hne]; simpl in *.
      * lia.
      * specialize (a2 w Hne Hw c). unfold lslots in *. simpl. exact a2.
    + apply (CS_ext U G'); auto. intros w _. simpl. unfold fupd.
      destruct (Nat.eqb_spec w O); subst; reflexivity.
    + intros i. simpl. apply a5.
Qed.

(* the switch *)
Lemma cp_switch_keeps rank (U : nat -> Prop) G g :
  SI rank G -> In g (gorder G) -> EX G -> CS U G ->
  (wv (gw G (nO (gn G g))) <> Unknown -> isconst G (nO (gn G g))) ->
  keeps U G (cp_switch G g) /\
  forall w, w <> nO (gn G g) -> wv (gw (cp_switch G g) w) = wv (gw G w).
Proof.
  intros SIG Hg E C UVg. pose proof SIG as [B S]. unfold cp_switch.
  set (act := cp_action (nop (gn G g)) (wv (gw G (nA (gn G g))))
                (if is_inv (nop (gn G g)) then Unknown else wv (gw G (nB (gn G g))))).
  (* a gate that takes a branch has a valued input, so it is none of the
     gates whose inputs never get a value *)
  assert (NU : act <> ActNone -> ~ U (nO (gn G g)) /\ wv (gw G (nO (gn G g))) = Unknown).
  { intros Ha. assert (N1 : ~ U (nO (gn G g))).
    { intros Hu. apply Ha. apply act_none. intros w Hw. apply (cs_unk _ _ C).
      now apply (cs_clo _ _ C g Hg Hu). }
    split; auto.
    destruct (wv (gw G (nO (gn G g)))) eqn:Ev; auto; exfalso.
    - destruct (cs_const _ _ C _ (UVg ltac:(discriminate))) as (p & Hp & Ep & Hi).
      assert (p = g) by (apply (st_uniq _ _ S); auto). subst p.
      apply Ha. apply act_none. intros w Hw. apply (cs_unk _ _ C). now apply Hi.
    - destruct (cs_const _ _ C _ (UVg ltac:(discriminate))) as (p & Hp & Ep & Hi).
      assert (p = g) by (apply (st_uniq _ _ S); auto). subst p.
      apply Ha. apply act_none. intros w Hw. apply (cs_unk _ _ C). now apply Hi. }
  assert (Val : forall v, act <> ActNone ->
            keeps U G (set_value G (nO (gn G g)) v) /\
            forall w, w <> nO (gn G g) -> wv (gw (set_value G (nO (gn G g)) v) w) = wv (gw G w)).
  { intros v Ha. destruct (NU Ha) as [N1 N2]. split.
    - split; [reflexivity|]. split; [|split; [|intros i; reflexivity]].
      + intros w Hw c. simpl in Hw |- *. unfold fupd in *.
        destruct (Nat.eqb_spec w (nO (gn G g))) as [Ew|Hne]; simpl in *.
        * rewrite Ew. assert (X := E _ N2 c). unfold lslots in *. simpl. exact X.
        * assert (X := E _ Hw c). unfold lslots in *. simpl. exact X.
      + apply (CS_ext U G); auto. intros w Hw. simpl. unfold fupd.
        destruct (Nat.eqb_spec w (nO (gn G g))); subst; [contradiction|reflexivity].
    - intros w Hw. simpl. unfold fupd. destruct (Nat.eqb_spec w (nO (gn G g))); [contradiction|reflexivity]. }
  destruct act eqn:Ea.
  - split; [now apply keeps_refl|reflexivity].
  - apply Val. discriminate.
  - apply Val. discriminate.
  - destruct NU as [N1 N2]; [discriminate|].
    destruct (short_circuit_keeps rank U G g (nB (gn G g)) SIG Hg) as [K W]; auto.
    unfold inputs_of. fold act in Ea. unfold act in Ea. rewrite (cp_action_scb _ _ _ Ea). right. now left.
  - destruct NU as [N1 N2]; [discriminate|].
    destruct (short_circuit_keeps rank U G g (nA (gn G g)) SIG Hg) as [K W]; auto.
    unfold inputs_of. destruct (is_inv _); now left.
Qed.

(* the substitution blocks *)
Lemma moved_keeps (U : nat -> Prop) sa G G' c from to :
  moved sa G G' c from to -> gerr G' = gerr G -> ndead (gn G c) = false ->
  wv (gw G from) <> Unknown -> EX G -> CS U G -> keeps U G G'.
Proof.
  intros M Eg Hd Hv E C. split; auto. split; [|split].
  - apply (EXe_EX from).
    + eapply moved_EXe; eauto. now apply EX_EXe.
    + now rewrite (proj1 (m_wire _ _ _ _ _ _ M from)).
  - eapply moved_CS; eauto. intros Hu. apply Hv. now apply (cs_unk _ _ C).
  - intros i. apply (moved_nO _ _ _ _ _ _ M).
Qed.

Lemma cp_subst_A_keeps rank (U : nat -> Prop) G g :
  SI rank G -> In g (gorder G) -> consts_ok G -> EX G -> CS U G ->
  keeps U G (cp_subst_A G g) /\ forall w, wv (gw (cp_subst_A G g) w) = wv (gw G w).
Proof.
  intros [B S] Hg (z & o & Hz & Ho & _) E C.
  pose proof (st_nodead _ _ S g Hg) as Hd.
  pose proof (BK_pos G g _ B Hg (lslots_A G g Hd)) as Hn.
  destruct (wv (gw G (nA (gn G g)))) eqn:Ev.
  - unfold cp_subst_A. rewrite Ev. split; [now apply keeps_refl|reflexivity].
  - pose proof (cp_subst_A_moved G g z Ev Hz) as M. split.
    + apply (moved_keeps U _ _ _ _ _ _ M); auto; [|rewrite Ev; discriminate].
      unfold cp_subst_A. rewrite Ev. unfold remove_output, zero_wire.
      destruct (wnum (gw G (nA (gn G g)))); [lia|]. simpl. rewrite Hz. reflexivity.
    + intros w. apply (m_wire _ _ _ _ _ _ M).
  - pose proof (cp_subst_A_moved1 G g o Ev Ho) as M. split.
    + apply (moved_keeps U _ _ _ _ _ _ M); auto; [|rewrite Ev; discriminate].
      unfold cp_subst_A. rewrite Ev. unfold remove_output, one_wire.
      destruct (wnum (gw G (nA (gn G g)))); [lia|]. simpl. rewrite Ho. reflexivity.
    + intros w. apply (m_wire _ _ _ _ _ _ M).
Qed.

Lemma cp_subst_B_keeps rank (U : nat -> Prop) G g :
  SI rank G -> In g (gorder G) -> consts_ok G -> EX G -> CS U G ->
  keeps U G (cp_subst_B G g) /\ forall w, wv (gw (cp_subst_B G g) w) = wv (gw G w).
Proof.
  intros [B S] Hg (z & o & Hz & Ho & _) E C.
  pose proof (st_nodead _ _ S g Hg) as Hd.
  destruct (is_inv (nop (gn G g))) eqn:Ei.
  { unfold cp_subst_B. rewrite Ei. split; [now apply keeps_refl|reflexivity]. }
  pose proof (BK_pos G g _ B Hg (lslots_B G g Hd Ei)) as Hn.
  destruct (wv (gw G (nB (gn G g)))) eqn:Ev.
  - unfold cp_subst_B. rewrite Ei, Ev. split; [now apply keeps_refl|reflexivity].
  - pose proof (cp_subst_B_moved G g z Ei Ev Hz) as M. split.
    + apply (moved_keeps U _ _ _ _ _ _ M); auto; [|rewrite Ev; discriminate].
      unfold cp_subst_B. rewrite Ei, Ev. unfold remove_output, zero_wire.
      destruct (wnum (gw G (nB (gn G g)))); [lia|]. simpl. rewrite Hz. reflexivity.
    + intros w. apply (m_wire _ _ _ _ _ _ M).
  - pose proof (cp_subst_B_moved1 G g o Ei Ev Ho) as M. split.
    + apply (moved_keeps U _ _ _ _ _ _ M); auto; [|rewrite Ev; discriminate].
      unfold cp_subst_B. rewrite Ei, Ev. unfold remove_output, one_wire.
      destruct (wnum (gw G (nB (gn G g)))); [lia|]. simpl. rewrite Ho. reflexivity.
    + intros w. apply (m_wire _ _ _ _ _ _ M).
Qed.

Lemma keeps_trans (U : nat -> Prop) G1 G2 G3 : keeps U G1 G2 -> keeps U G2 G3 -> keeps U G1 G3.
Proof.
  intros (a1 & a2 & a3 & a4) (b1 & b2 & b3 & b4).
  split; [congruence|]. split; auto. split; auto. intros i. now rewrite b4, a4.
Qed.

(* one iteration of ConstPropagate's loop *)
Lemma cp_step_keeps rank x v (U : nat -> Prop) G g :
  SI rank G -> In g (gorder G) -> Inv x v G -> EX G -> CS U G ->
  (wv (gw G (nO (gn G g))) <> Unknown -> isconst G (nO (gn G g))) ->
  keeps U G (cp_step G g) /\
  forall w, w <> nO (gn G g) -> wv (gw (cp_step G g) w) = wv (gw G w).
Proof.
  intros SIG Hg HI E C UVg. rewrite cp_step_eq.
  assert (Lg : live G g) by (eapply st_live; [apply SIG|auto]).
  destruct (cp_switch_SI rank G g SIG Hg) as (S1 & F1 & _).
  pose proof (cp_switch_Inv x v G g Lg HI) as I1.
  destruct (cp_switch_keeps rank U G g SIG Hg E C UVg) as (K1 & W1).
  assert (Hg1 : In g (gorder (cp_switch G g))) by (destruct F1 as (Eo & _); now rewrite Eo).
  destruct (cp_subst_A_SI rank _ g S1 Hg1 (Inv_consts _ _ _ I1)) as (S2 & F2).
  pose proof (cp_subst_A_Inv x v _ g I1) as I2.
  destruct K1 as (k1 & k2 & k3 & k4).
  destruct (cp_subst_A_keeps rank U _ g S1 Hg1 (Inv_consts _ _ _ I1) k2 k3) as (K2 & W2).
  assert (Hg2 : In g (gorder (cp_subst_A (cp_switch G g) g))) by (destruct F2 as (Eo & _); now rewrite Eo).
  destruct K2 as (l1 & l2 & l3 & l4).
  destruct (cp_subst_B_keeps rank U _ g S2 Hg2 (Inv_consts _ _ _ I2) l2 l3) as (K3 & W3).
  split.
  - eapply keeps_trans; [|exact K3]. eapply keeps_trans.
    + split; [exact k1|]. split; [exact k2|]. split; [exact k3|exact k4].
    + split; [exact l1|]. split; [exact l2|]. split; [exact l3|exact l4].
  - intros w Hw. rewrite W3, W2. now apply W1.
Qed.

(* the whole loop: [rest] are the gates still to be processed *)
Lemma cp_fold_keeps rank x v (U : nat -> Prop) : forall rest G,
  SI rank G -> NoDup rest -> (forall g, In g rest -> In g (gorder G)) -> Inv x v G ->
  EX G -> CS U G ->
  (forall g, In g rest -> wv (gw G (nO (gn G g))) <> Unknown -> isconst G (nO (gn G g))) ->
  gerr (fold_left cp_step rest G) = gerr G.
Proof.
  induction rest as [|g rest IH]; intros G SIG ND Hl HI E C UV; simpl; auto.
  inversion ND as [|? ? Hng ND']; subst.
  assert (Hg : In g (gorder G)) by (apply Hl; now left).
  destruct (cp_step_SI rank x v G g SIG Hg HI) as (S1 & (Fo & Fz & Fone)).
  assert (Lg : live G g) by (eapply st_live; [apply SIG|auto]).
  pose proof (cp_step_Inv x v G g Lg HI) as I1.
  destruct (cp_step_keeps rank x v U G g SIG Hg HI E C (UV g (or_introl eq_refl)))
    as ((k1 & k2 & k3 & k4) & W1).
  rewrite IH; auto.
  - intros h Hh. rewrite Fo. apply Hl. now right.
  - intros h Hh. rewrite k4. intros Hv.
    assert (Hne : nO (gn G h) <> nO (gn G g)).
    { intros Eq. destruct SIG as [_ S].
      assert (h = g) by (apply (st_uniq _ _ S); auto; apply Hl; now right). subst h. contradiction. }
    rewrite (W1 _ Hne) in Hv.
    pose proof (UV h (or_intror Hh) Hv) as Hk. unfold isconst in *. now rewrite Fz, Fone.
Qed.

(* ---- the freshly built graph ------------------------------------------ *)

Lemma wfg_input0 G : wfg G -> In (input0 G) (gins G).
Proof.
  intros WF.
  destruct (wf_consts _ WF) as (z & o & iw & gz & go & gi & _ & _ & _ & _ & _ & Li & _).
  destruct Li as [Li _].
  destruct (gorder G) as [|g0 rest] eqn:Eo; [destruct Li|].
  destruct (wf_topo _ WF [] g0 rest Eo) as (Tin & _ & _).
  assert (Ha : In (nA (gn G g0)) (inputs_of (gn G g0))).
  { unfold inputs_of. destruct (is_inv _); now left. }
  unfold input0. destruct (Tin _ Ha) as [H|(p & [] & _)].
  destruct (gins G); [destruct H|now left].
Qed.

Theorem const_propagate_no_panic G :
  wfg G -> wfb G -> wfx G -> wfe G -> gerr (const_propagate G) = gerr G.
Proof.
  intros WF FB X XE.
  destruct (fresh_SI G WF FB X) as (rank & SIG).
  pose proof (geval_sat G WF []) as I0.
  pose proof (fresh_cwf G WF FB) as CW.
  pose proof (wfg_input0 G WF) as Hin0.
  assert (LV : forall c, In c (gorder G) -> live G c).
  { intros c Hc. split; auto. now apply (wf_nodead _ WF). }
  destruct (wf_consts _ WF) as (z & o & iw & gz & go & gi & Hz & Ho & Vz & Vo & Hall &
                                Li & Oi & Ai & Wi & Lz & Oz & Az & Bz & Wz & Lo & Oo & Ao & Bo & Wo).
  assert (NP : forall c, In c (gorder G) -> nO (gn G c) <> input0 G).
  { intros c Hc Eq. apply (c_prod _ CW c (LV c Hc)). now rewrite Eq. }
  assert (Hzi : z <> input0 G) by (rewrite <- Wz; apply NP; apply Lz).
  assert (Hoi : o <> input0 G) by (rewrite <- Wo; apply NP; apply Lo).
  assert (Hzw : z <> iw).
  { intros Eq. assert (gz = gi) by (apply (c_uniq _ CW); auto; congruence). subst gz.
    rewrite Oi in Oz. discriminate. }
  assert (How : o <> iw).
  { intros Eq. assert (go = gi) by (apply (c_uniq _ CW); auto; congruence). subst go.
    rewrite Oi in Oo. discriminate. }
  set (U := fun w => w = input0 G \/ w = iw).
  apply (cp_fold_keeps rank [] (geval G []) U); auto.
  - apply (x_nodup _ X).
  - (* EX *)
    intros w _ c. destruct (in_dec Nat.eq_dec c (wouts (gw G w))) as [Hc|Hc].
    + unfold lslots. rewrite (wf_nodead _ WF c (fb_entries _ FB w c Hc)). now apply XE.
    + rewrite (proj1 (count_occ_not_In Nat.eq_dec _ _) Hc). lia.
  - (* CS *)
    constructor.
    + intros w Hw. destruct (wv (gw G w)) eqn:Ev; auto; exfalso;
        (destruct (Hall w) as [-> | ->]; [rewrite Ev; discriminate| |]);
        destruct Hw; congruence.
    + intros c Hc [Hu|Hu] w Hw.
      * exfalso. now apply (NP c Hc).
      * assert (c = gi) by (apply (c_uniq _ CW); auto; congruence). subst c.
        unfold inputs_of in Hw. rewrite Oi in Hw. simpl in Hw. destruct Hw as [<-|[]].
        left. exact Ai.
    + intros k [Hk|Hk].
      * rewrite Hz in Hk. inversion Hk; subst k. exists gz. split; [apply Lz|]. split; auto.
        intros w Hw. unfold inputs_of in Hw. rewrite Oz in Hw. simpl in Hw.
        destruct Hw as [<-|[<-|[]]]; [left; exact Az|right; exact Bz].
      * rewrite Ho in Hk. inversion Hk; subst k. exists go. split; [apply Lo|]. split; auto.
        intros w Hw. unfold inputs_of in Hw. rewrite Oo in Hw. simpl in Hw.
        destruct Hw as [<-|[<-|[]]]; [left; exact Ao|right; exact Bo].
  - (* UV *)
    intros g _ Hv. destruct (Hall _ Hv) as [E|E]; rewrite E; [now left|now right].
Qed.

(* no pass of the pipeline panics on a freshly built graph *)
Theorem no_panic_pipeline (do_prune : bool) G :
  wfg G -> wfb G -> wfx G -> wfe G ->
  gerr (const_propagate G) = gerr G /\
  gerr (cg (compile_assign (optimize do_prune G))) = gerr G.
Proof.
  intros WF FB X XE. pose proof (const_propagate_no_panic G WF FB X XE) as E.
  split; auto. now rewrite (no_panic_after_cp do_prune G WF FB X).
Qed.

(* ---- index expressions that the model makes total by construction ----- *)

(* cc.InputWires[0] (InvI0Wire, ZeroWire, OneWire; [input0] = hd 0 in the
   model): in range on every well-formed graph — the first gate of cc.Gates
   can only read input wires, so InputWires is not empty *)
Theorem input0_in_range G : wfg G -> In (input0 G) (gins G) /\ 0 < length (gins G).
Proof.
  intros WF. pose proof (wfg_input0 G WF) as H. split; auto.
  destruct (gins G); [destruct H|simpl; lia].
Qed.

(* stats[g.Op]++ in ConstPropagate/ShortCircuitXORZero/Compile: circuit.Stats
   is [MaxWidth+1]uint64 and every operation of the model's gate type is an
   index below it (constants regenerated from circuit/circuit.go) *)
From Coq Require Import ZArith.
From Mpc Require Import Gen.Consts Circuit.RunC09.

Theorem stats_index_in_range :
  forall o : op, (0 <= Z_of_op o)%Z /\ (Z_of_op o < circuit_Count)%Z /\
                 (circuit_Count <= circuit_MaxWidth)%Z /\ op_of_Z9 (Z_of_op o) = o.
Proof. destruct o; cbv; repeat split; intros H; discriminate H. Qed.
