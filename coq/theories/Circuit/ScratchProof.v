(* ScratchProof.v — theorems about Circuit/Scratch.v: the pooled scratch is sized
   exactly for its circuit, by the circuit alone. *)
From Coq Require Import NArith List Bool Arith Lia.
From Mpc Require Import Base.Label Circuit.Circuit Circuit.Garble Circuit.Scratch.
Import ListNotations.
Open Scope nat_scope.

Definition rows_of (gs : list gate) : list nat := map (fun g => op_rows (gop g)) gs.

Lemma fold_rows_acc gs a :
  fold_left (fun s g => s + op_rows (gop g)) gs a = a + list_sum (rows_of gs).
Proof.
  revert a; induction gs as [|g gs IH]; intros a; simpl; [lia|].
  rewrite IH. lia.
Qed.

Lemma slab_size_sum gs : slab_size gs = list_sum (rows_of gs).
Proof. unfold slab_size. rewrite fold_rows_acc. lia. Qed.

Lemma mapi_from_length {A B} (f : nat -> A -> B) i l : length (mapi_from f i l) = length l.
Proof. revert i; induction l as [|x t IH]; intros i; simpl; auto. Qed.

Lemma tl_length' {A} (l : list A) : length (tl l) = length l - 1.
Proof. destruct l; simpl; lia. Qed.

(* Gate.garbleInto returns count = 2 / 3 / 1 / 0 rows by gate kind alone *)
Lemma garble_gate_rows pi r gw id g :
  length (snd (garble_gate pi r gw id g)) = op_rows (gop g).
Proof.
  unfold garble_gate. destruct (gop g); cbv zeta; cbn [snd op_rows]; try reflexivity.
  - unfold mapi. rewrite tl_length', mapi_from_length, !upd_length. reflexivity.
  - unfold mapi. rewrite tl_length', mapi_from_length, !upd_length. reflexivity.
Qed.

Lemma garble_gates_rows pi gs : forall r gw id,
  map (@length label) (snd (garble_gates pi r gw id gs)) = rows_of gs.
Proof.
  induction gs as [|g gs IH]; intros r gw id; simpl; [reflexivity|].
  pose proof (garble_gate_rows pi r gw id g) as Hg.
  destruct (garble_gate pi r gw id g) as [[c id'] row] eqn:E. simpl in Hg.
  specialize (IH r (upd gw (gout g) c) id').
  destruct (garble_gates pi r (upd gw (gout g) c) id' gs) as [[gwf idf] rows] eqn:E2.
  simpl in *. rewrite Hg, IH. reflexivity.
Qed.

Lemma garble_gates_wires_length pi gs : forall r gw id,
  length (fst (fst (garble_gates pi r gw id gs))) = length gw.
Proof.
  induction gs as [|g gs IH]; intros r gw id; simpl; [reflexivity|].
  destruct (garble_gate pi r gw id g) as [[c id'] row] eqn:E.
  specialize (IH r (upd gw (gout g) c) id').
  destruct (garble_gates pi r (upd gw (gout g) c) id' gs) as [[gwf idf] rows] eqn:E2.
  simpl in *. rewrite IH, upd_length. reflexivity.
Qed.

(* the row counts of a garbling are a function of the circuit's gate kinds: not of the
   key (pi), the random source, the scratch content *)
Theorem garble_rows_by_circuit : forall pi rnd scr c,
  map (@length label) (gTables (garble pi rnd scr c)) = rows_of (gates c).
Proof.
  intros pi rnd scr c. unfold garble.
  match goal with |- context [garble_gates pi ?r ?gw ?id (gates c)] =>
    pose proof (garble_gates_rows pi (gates c) r gw id) as H;
    destruct (garble_gates pi r gw id (gates c)) as [[gwf idf] rows] end.
  simpl in *. exact H.
Qed.

Theorem garble_rows_same : forall pi pi' rnd rnd' scr scr' c,
  map (@length label) (gTables (garble pi rnd scr c))
  = map (@length label) (gTables (garble pi' rnd' scr' c)).
Proof. intros. rewrite !garble_rows_by_circuit. reflexivity. Qed.

Theorem garble_rows_total : forall pi rnd scr c ng,
  list_sum (map (@length label) (gTables (garble pi rnd scr c))) = sh_slab (scratch_shape c ng).
Proof. intros. rewrite garble_rows_by_circuit. simpl. rewrite slab_size_sum. reflexivity. Qed.

Lemma garble_wires_length pi rnd scr c :
  ninputs c <= nwires c -> length (gWires (garble pi rnd scr c)) = nwires c.
Proof.
  intros Hn. unfold garble.
  match goal with |- context [garble_gates pi ?r ?gw ?id (gates c)] =>
    pose proof (garble_gates_wires_length pi (gates c) r gw id) as H;
    destruct (garble_gates pi r gw id (gates c)) as [[gwf idf] rows] end.
  simpl in *. rewrite H. unfold input_wires.
  rewrite app_length, map_length, seq_length, firstn_length, app_length, repeat_length. lia.
Qed.

Lemma blit_length slab off row :
  off + length row <= length slab -> length (blit slab off row) = length slab.
Proof.
  intros H. unfold blit. rewrite !app_length, firstn_length, skipn_length. lia.
Qed.

(* the carving loop stays inside a slab and a header array that are large enough, ends at
   offset + total rows, and keeps the buffer lengths *)
Lemma carve_ok : forall rows i off slab hdrs,
  off + list_sum (map (@length label) rows) <= length slab ->
  i + length rows <= length hdrs ->
  exists s h, carve rows i off slab hdrs = CarveOk s h (off + list_sum (map (@length label) rows))
              /\ length s = length slab /\ length h = length hdrs.
Proof.
  induction rows as [|row rest IH]; intros i off slab hdrs Hs Hh; simpl in *.
  - exists slab, hdrs. rewrite Nat.add_0_r. auto.
  - destruct (length hdrs <=? i) eqn:E; [apply Nat.leb_le in E; lia|].
    destruct row as [|x row'].
    + simpl in *. destruct (IH (S i) off slab (upd hdrs i None)) as (s & h & H1 & H2 & H3);
        [lia | rewrite upd_length; lia |].
      exists s, h. rewrite H1, H2, H3, upd_length. auto.
    + remember (x :: row') as row eqn:Er.
      destruct (length slab <? off + length row) eqn:E2; [apply Nat.ltb_lt in E2; lia|].
      destruct (IH (S i) (off + length row) (blit slab off row) (upd hdrs i (Some (off, length row))))
        as (s & h & H1 & H2 & H3).
      * rewrite blit_length by lia. lia.
      * rewrite upd_length. lia.
      * exists s, h. rewrite H1, H2, H3, upd_length, blit_length by lia.
        split; [f_equal; lia | auto].
Qed.

(* and panics when the slab is too small for the rows (the sizes are tight) *)
Lemma carve_panics : forall rows i off slab hdrs,
  off <= length slab ->
  length slab < off + list_sum (map (@length label) rows) ->
  i + length rows <= length hdrs ->
  exists gi, carve rows i off slab hdrs = CarvePanic gi 1.
Proof.
  induction rows as [|row rest IH]; intros i off slab hdrs Ho Hs Hh; simpl in *; [lia|].
  destruct (length hdrs <=? i) eqn:E; [apply Nat.leb_le in E; lia|].
  destruct row as [|x row'].
  - simpl in *. apply IH; [lia | lia | rewrite upd_length; lia].
  - remember (x :: row') as row eqn:Er.
    destruct (length slab <? off + length row) eqn:E2; [eexists; reflexivity|].
    apply Nat.ltb_ge in E2.
    apply IH; [rewrite blit_length by lia; lia | rewrite blit_length by lia; lia | rewrite upd_length; lia].
Qed.

Lemma wf_inputs_le c : wf c = true -> ninputs c <= nwires c.
Proof.
  unfold wf. rewrite !andb_true_iff. intros [[[H _] _] _]. apply Nat.leb_le. exact H.
Qed.

(* Circuit.Garble on a scratch of the circuit's shape: no index or slice expression on the
   slab and the header array goes out of range, the slab is used up exactly, and the scratch
   has the same shape afterwards *)
Theorem garble_into_ok : forall pi rnd sc c,
  ninputs c <= nwires c ->
  has_shape sc (scratch_shape c (length (gates c))) ->
  exists g sc', garble_into pi rnd sc c = GOk g sc' (slab_size (gates c))
                /\ g = garble pi rnd (sc_wires sc) c
                /\ has_shape sc' (scratch_shape c (length (gates c))).
Proof.
  intros pi rnd sc c Hn (Hw & Hs & Hg). simpl in *.
  unfold garble_into.
  pose proof (garble_rows_by_circuit pi rnd (sc_wires sc) c) as Hr.
  set (g := garble pi rnd (sc_wires sc) c) in *.
  assert (Hlen : length (gTables g) = length (gates c)).
  { rewrite <- (map_length (@length label)), Hr. unfold rows_of. apply map_length. }
  destruct (carve_ok (gTables g) 0 0 (sc_slab sc) (sc_gates sc)) as (s & h & H1 & H2 & H3).
  - rewrite Hr, <- slab_size_sum. lia.
  - lia.
  - rewrite H1. exists g, (mkScratch (gWires g) s h).
    rewrite Hr, <- slab_size_sum. simpl. split; [reflexivity|]. split; [reflexivity|].
    unfold has_shape; simpl. repeat split; try lia.
    apply garble_wires_length. exact Hn.
Qed.

(* any number of garblings, with any keys and random sources, into one recycled scratch *)
Theorem garble_seq_ok : forall calls sc c,
  ninputs c <= nwires c ->
  has_shape sc (scratch_shape c (length (gates c))) ->
  exists sc', garble_seq calls sc c = Some sc'
              /\ has_shape sc' (scratch_shape c (length (gates c))).
Proof.
  induction calls as [|[pi rnd] rest IH]; intros sc c Hn Hsh; simpl.
  - exists sc. auto.
  - destruct (garble_into_ok pi rnd sc c Hn Hsh) as (g & sc' & H1 & _ & H3).
    rewrite H1. apply IH; assumption.
Qed.

Lemma new_scratch_shape sh : has_shape (new_scratch sh) sh.
Proof. unfold has_shape, new_scratch; simpl. rewrite !repeat_length. auto. Qed.

(* a scratch whose slab is smaller than the circuit needs makes Garble panic *)
Theorem garble_into_small_slab_panics : forall pi rnd sc c,
  length (sc_slab sc) < slab_size (gates c) ->
  length (sc_gates sc) = length (gates c) ->
  exists gi, garble_into pi rnd sc c = GPanic gi 1.
Proof.
  intros pi rnd sc c Hs Hg. unfold garble_into.
  pose proof (garble_rows_by_circuit pi rnd (sc_wires sc) c) as Hr.
  set (g := garble pi rnd (sc_wires sc) c) in *.
  assert (Hlen : length (gTables g) = length (gates c)).
  { rewrite <- (map_length (@length label)), Hr. unfold rows_of. apply map_length. }
  destruct (carve_panics (gTables g) 0 0 (sc_slab sc) (sc_gates sc)) as (gi & H).
  - lia.
  - rewrite Hr, <- slab_size_sum. lia.
  - lia.
  - exists gi. rewrite H. reflexivity.
Qed.

(* wire indices *)
Lemma wf_gates_indices n ni : forall gs asg,
  wf_gates n ni asg gs = true -> Forall (fun i => i < n) (flat_map gate_indices gs).
Proof.
  induction gs as [|g gs IH]; intros asg H; simpl in *; [constructor|].
  apply andb_true_iff in H. destruct H as [Hg Hrest].
  apply Forall_app. split; [|eapply IH; exact Hrest].
  unfold gate_ok in Hg. rewrite !andb_true_iff in Hg.
  destruct Hg as [[[[H0 Ho] _] _] H1].
  apply Nat.ltb_lt in H0. apply Nat.ltb_lt in Ho.
  unfold gate_indices.
  destruct (gop g); try (apply andb_true_iff in H1; destruct H1 as [H1 _]; apply Nat.ltb_lt in H1);
    repeat constructor; assumption.
Qed.

Theorem garble_indices_in_range : forall c ng,
  wf c = true -> Forall (fun i => i < sh_wires (scratch_shape c ng)) (garble_indices c).
Proof.
  intros c ng H. simpl. unfold garble_indices. apply Forall_app. split.
  - apply Forall_forall. intros i Hi. apply in_seq in Hi.
    pose proof (wf_inputs_le c H). lia.
  - unfold wf in H. rewrite !andb_true_iff in H. destruct H as [[[_ _] H] _].
    eapply wf_gates_indices. exact H.
Qed.

(* non-vacuity and the refutation of pooling by (NumWires, NumGates) *)
Example mix_wf : wf mix_light = true /\ wf mix_heavy = true.
Proof. vm_compute. auto. Qed.

Example shape_hypotheses_inhabited :
  ninputs mix_heavy <= nwires mix_heavy /\
  has_shape (new_scratch (scratch_shape mix_heavy 1)) (scratch_shape mix_heavy (length (gates mix_heavy))).
Proof. split; [vm_compute; lia | apply new_scratch_shape]. Qed.

Theorem pool_by_counts_refuted :
  nwires mix_light = nwires mix_heavy /\ length (gates mix_light) = length (gates mix_heavy) /\
  wf mix_light = true /\ wf mix_heavy = true /\
  scratch_shape mix_light 1 <> scratch_shape mix_heavy 1 /\
  forall pi rnd, exists gi,
    garble_into pi rnd (new_scratch (scratch_shape mix_light 1)) mix_heavy = GPanic gi 1.
Proof.
  repeat split; try (vm_compute; reflexivity).
  - vm_compute. intros H. discriminate H.
  - intros pi rnd. apply garble_into_small_slab_panics; vm_compute; lia.
Qed.
