(* RunC04.v — executable entries for C04.
   kind 0: whole-circuit symbolic   (0 dims gates (x bits) (perm bits))
             -> (nslots ((i j)...))        pairs of transcript slots that are
                                            R apart (i=j: the slot is R itself)
   kind 1: streaming symbolic       (1 G ni n steps (x bits) (perm bits))   -> same
   kind 2: streaming concrete       (2 (key bytes) G ni n steps (rnd labels...))
             -> (R (rows of every gate...))  byte-exact rows of Streaming.Garble
   steps = ((nw (in ids...) (out ids...) (gates...))...) ; the tweak counter
   follows the code as it is now in /repo (stream_tweak_mode). *)
From Coq Require Import ZArith NArith List Bool.
From Mpc Require Import Base.Sx Base.Label Base.Aes Circuit.Circuit Circuit.Garble Circuit.GGarble
     Circuit.RunC01.
Import ListNotations.

(* false = session-wide tweak counter (current code); true = restarted per
   streamed circuit (the code before the fix) *)
Definition stream_tweak_reset_now : bool := false.

Definition scirc_of_sx (s : sx) : scirc :=
  mkSC (map gate_of_sx (getL (nthx 3 s))) (getnat (nthx 0 s)) (getLnat (nthx 1 s)) (getLnat (nthx 2 s)).

Definition perm_of (l : list bool) (n : nat) : bool := nth n l (Nat.odd n).

Definition pairs_sx (tr : list N) : sx :=
  SL [ofnat (length tr);
      SL (map (fun p => SL [ofnat (fst p); ofnat (snd p)]) (r_pairs Rsym tr))].

Definition conc_stream (reset : bool) (pi : N -> N) (G : nat) (r : N) (mem : list wire)
           (steps : list scirc) : list (list N) :=
  if reset then
    let '(_, rows, _) := gstream_reset unit sbit (conc_H pi) G r mem tt steps in rows
  else
    let '(_, _, rows, _) := gstream_session unit sbit (conc_H pi) G r mem tt steps in rows.

Definition run_c04 (inp : sx) : sx :=
  match getZ (nthx 0 inp) with
  | 0%Z =>
      let c := circuit_of_sx (nthx 1 inp) (nthx 2 inp) in
      pairs_sx (sym_transcript (perm_of (getLB (nthx 4 inp))) c (getLB (nthx 3 inp)))
  | 1%Z =>
      let G := getnat (nthx 1 inp) in
      let ni := getnat (nthx 2 inp) in
      let n := getnat (nthx 3 inp) in
      let steps := map scirc_of_sx (getL (nthx 4 inp)) in
      pairs_sx (sym_stream_transcript stream_tweak_reset_now (perm_of (getLB (nthx 6 inp)))
                  G ni n steps (getLB (nthx 5 inp)))
  | 2%Z =>
      let pi := aes_pi (aes_schedule (getLN (nthx 1 inp))) in
      let G := getnat (nthx 2 inp) in
      let ni := getnat (nthx 3 inp) in
      let n := getnat (nthx 4 inp) in
      let steps := map scirc_of_sx (getL (nthx 5 inp)) in
      let rl := getLN (nthx 6 inp) in
      let r := setS (nth 0 rl 0%N) in
      let mem := map (fun i => let l0 := nth (S i) rl 0%N in mkWire l0 (lxor l0 r)) (seq 0 ni)
                 ++ repeat w0 (n - ni) in
      SL [ofN r; SL (map ofLN (conc_stream stream_tweak_reset_now pi G r mem steps))]
  | _ => sx_err 9
  end.
