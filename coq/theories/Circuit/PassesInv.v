(* PassesInv.v — the bookkeeping invariant of the rewriting passes
   (output-gate lists cover every consumer slot, NumOutputs >= true use
   count, acyclicity, availability of the output cone) through
   ConstPropagate, ShortCircuitXORZero and Prune.  (Property C09) *)
From Coq Require Import List Bool Arith Lia.
From Mpc Require Import Circuit.Circuit Circuit.Passes Circuit.PassesProof Circuit.PassesBFS
  Circuit.PassesIO Circuit.PassesTV.
Import ListNotations.

(* ---- consumer slots ------------------------------------------------ *)

Definition slotA (n : node) (w : nat) : nat := if Nat.eqb (nA n) w then 1 else 0.
Definition slotB (n : node) (w : nat) : nat :=
  if negb (is_inv (nop n)) && Nat.eqb (nB n) w then 1 else 0.
Definition slots (n : node) (w : nat) : nat := slotA n w + slotB n w.
Definition lslots (G : graph) (c w : nat) : nat :=
  if ndead (gn G c) then 0 else slots (gn G c) w.
Definition uses (G : graph) (w : nat) : nat :=
  list_sum (map (fun c => lslots G c w) (gorder G)).

Lemma slots_inputs n w : In w (inputs_of n) <-> 0 < slots n w.
Proof.
  unfold inputs_of, slots, slotA, slotB. destruct (is_inv (nop n)); simpl.
  - destruct (Nat.eqb_spec (nA n) w); split; intros H; try lia; auto;
      destruct H as [H|[]]; contradiction.
  - destruct (Nat.eqb_spec (nA n) w), (Nat.eqb_spec (nB n) w); split; intros H; try lia; auto;
      destruct H as [H|[H|[]]]; contradiction.
Qed.

Lemma sum_same {A} (l : list A) f f' :
  (forall x, In x l -> f' x = f x) -> list_sum (map f' l) = list_sum (map f l).
Proof.
  induction l as [|a l IH]; simpl; intros H; [reflexivity|].
  rewrite H by (now left). rewrite IH; [reflexivity|]. intros x Hx. apply H. now right.
Qed.

Lemma sum_change (l : list nat) f f' c :
  NoDup l -> In c l -> (forall x, x <> c -> f' x = f x) ->
  list_sum (map f' l) + f c = list_sum (map f l) + f' c.
Proof.
  induction l as [|a l IH]; simpl; intros ND Hin H; [destruct Hin|].
  inversion ND as [|? ? Hna ND']; subst. destruct Hin as [->|Hin].
  - rewrite (sum_same l f f'); [lia|]. intros x Hx. apply H. intros ->. contradiction.
  - assert (a <> c) by (intros ->; contradiction).
    rewrite (H a) by auto. specialize (IH ND' Hin H). lia.
Qed.

Lemma sum_pos_in (l : list nat) f c : In c l -> f c <= list_sum (map f l).
Proof.
  induction l as [|a l IH]; simpl; intros H; [destruct H|].
  destruct H as [->|H]; [lia|]. specialize (IH H). lia.
Qed.

(* ---- the bookkeeping part of the invariant ------------------------- *)

Record BK (G : graph) : Prop := {
  bk_nodup : NoDup (gorder G);
  bk_range : forall g, In g (gorder G) -> g < gnn G;
  bk_lists : forall c w, In c (gorder G) ->
             lslots G c w <= count_occ Nat.eq_dec (wouts (gw G w)) c;
  bk_cnt : forall w, uses G w <= wnum (gw G w);
  bk_entries : forall w c, In c (wouts (gw G w)) -> ndead (gn G c) = false -> In c (gorder G) }.

(* "the [side] input of gate c moves from wire [from] to wire [to]":
   Gate.ReplaceInput and the substitution blocks of ConstPropagate *)
Record moved (sideA : bool) (G G' : graph) (c from to : nat) : Prop := {
  m_order : gorder G' = gorder G;
  m_ins : gins G' = gins G;
  m_outs : gouts G' = gouts G;
  m_nw : gnw G' = gnw G;
  m_nn : gnn G' = gnn G;
  m_zero : gzero G' = gzero G;
  m_one : gone G' = gone G;
  m_node_o : forall i, i <> c -> gn G' i = gn G i;
  m_node_c : gn G' c = if sideA then n_set_A (gn G c) to else n_set_B (gn G c) to;
  m_from : (if sideA then nA (gn G c) else nB (gn G c)) = from /\
           (sideA = false -> is_inv (nop (gn G c)) = false);
  m_wire : forall w, wv (gw G' w) = wv (gw G w) /\ wout (gw G' w) = wout (gw G w) /\
                     winp (gw G' w) = winp (gw G w) /\ wid (gw G' w) = wid (gw G w);
  m_wouts : forall w, wouts (gw G' w) =
                      if Nat.eqb w to then wouts (gw G w) ++ [c] else wouts (gw G w);
  m_wnum : forall w, wnum (gw G w) + (if Nat.eqb w to then 1 else 0)
                     <= wnum (gw G' w) + (if Nat.eqb w from then 1 else 0) }.

Lemma moved_lslots sa G G' c from to :
  moved sa G G' c from to ->
  (forall i w, i <> c -> lslots G' i w = lslots G i w) /\
  (forall w, lslots G' c w + (if ndead (gn G c) then 0 else if Nat.eqb from w then 1 else 0)
             = lslots G c w + (if ndead (gn G c) then 0 else if Nat.eqb to w then 1 else 0)).
Proof.
  intros M. split.
  - intros i w Hi. unfold lslots. now rewrite (m_node_o _ _ _ _ _ _ M i Hi).
  - intros w. unfold lslots. rewrite (m_node_c _ _ _ _ _ _ M).
    destruct (m_from _ _ _ _ _ _ M) as [Hf Hinv].
    destruct sa; simpl.
    + destruct (ndead (gn G c)); auto. unfold slots, slotA, slotB. simpl. rewrite Hf.
      destruct (Nat.eqb from w), (Nat.eqb to w); lia.
    + destruct (ndead (gn G c)); auto. unfold slots, slotA, slotB. simpl.
      rewrite (Hinv eq_refl). simpl. rewrite Hf.
      destruct (Nat.eqb from w), (Nat.eqb to w); lia.
Qed.

Lemma count_occ_snoc (l : list nat) a c :
  count_occ Nat.eq_dec (l ++ [a]) c = count_occ Nat.eq_dec l c + (if Nat.eqb a c then 1 else 0).
Proof.
  rewrite count_occ_app. simpl. destruct (Nat.eq_dec a c), (Nat.eqb_spec a c); try lia; contradiction.
Qed.

Lemma moved_BK sa G G' c from to :
  moved sa G G' c from to -> BK G -> live G c -> BK G'.
Proof.
  intros M B [Hin Hd]. destruct (moved_lslots _ _ _ _ _ _ M) as [Lo Lc].
  pose proof (m_order _ _ _ _ _ _ M) as Eo.
  constructor.
  - rewrite Eo. apply (bk_nodup _ B).
  - rewrite Eo, (m_nn _ _ _ _ _ _ M). apply (bk_range _ B).
  - intros i w Hi. rewrite Eo in Hi. rewrite (m_wouts _ _ _ _ _ _ M w).
    pose proof (bk_lists _ B i w Hi) as H.
    destruct (Nat.eq_dec i c) as [->|Hne].
    + specialize (Lc w). rewrite Hd in Lc. destruct (Nat.eqb_spec w to) as [->|Hwt].
      * rewrite count_occ_snoc, Nat.eqb_refl. rewrite Nat.eqb_refl in Lc.
        destruct (Nat.eqb from to); lia.
      * assert (E : Nat.eqb to w = false) by (apply Nat.eqb_neq; auto).
        rewrite E in Lc. destruct (Nat.eqb from w); lia.
    + rewrite (Lo i w Hne). destruct (Nat.eqb w to); auto.
      rewrite count_occ_snoc. lia.
  - intros w. pose proof (m_wnum _ _ _ _ _ _ M w) as Hn. pose proof (bk_cnt _ B w) as Hu.
    unfold uses in *. rewrite Eo.
    pose proof (sum_change (gorder G) (fun i => lslots G i w) (fun i => lslots G' i w) c
                  (bk_nodup _ B) Hin (fun i Hi => Lo i w Hi)) as S. simpl in S.
    specialize (Lc w). rewrite Hd in Lc.
    rewrite (Nat.eqb_sym w to), (Nat.eqb_sym w from) in Hn.
    pose proof (sum_pos_in (gorder G) (fun i => lslots G i w) c Hin) as P. simpl in P.
    destruct (Nat.eqb from w), (Nat.eqb to w); lia.
  - intros w i Hi Hdi. rewrite Eo. rewrite (m_wouts _ _ _ _ _ _ M w) in Hi.
    assert (Hdi' : ndead (gn G i) = false).
    { destruct (Nat.eq_dec i c) as [->|Hne]; auto.
      rewrite (m_node_o _ _ _ _ _ _ M i Hne) in Hdi. exact Hdi. }
    destruct (Nat.eqb w to).
    + apply in_app_or in Hi. destruct Hi as [Hi|[<-|[]]]; [eapply (bk_entries _ B); eauto|auto].
    + eapply (bk_entries _ B); eauto.
Qed.

(* ---- the structural part ------------------------------------------- *)

Definition isconst (G : graph) (k : nat) : Prop := gzero G = Some k \/ gone G = Some k.

Record ST (rank : nat -> nat) (G : graph) : Prop := {
  st_nodead : forall g, In g (gorder G) -> ndead (gn G g) = false;
  st_nocons : forall c, In c (gorder G) -> forall w, In w (inputs_of (gn G c)) -> wout (gw G w) = false;
  st_prod : forall c, In c (gorder G) -> ~ In (nO (gn G c)) (gins G);
  st_uniq : forall c1 c2, In c1 (gorder G) -> In c2 (gorder G) ->
            nO (gn G c1) = nO (gn G c2) -> c1 = c2;
  st_rank : forall c, In c (gorder G) -> forall w, In w (inputs_of (gn G c)) ->
            rank w < rank (nO (gn G c));
  st_vrank : forall w k, wv (gw G w) <> Unknown -> isconst G k -> rank k <= rank w;
  st_cavail : forall k, isconst G k -> avail G k /\ wout (gw G k) = false /\ k < gnw G;
  st_avail : forall o, In o (gouts G) -> avail G o;
  st_rng : forall c, In c (gorder G) ->
           nO (gn G c) < gnw G /\ forall w, In w (inputs_of (gn G c)) -> w < gnw G;
  st_rng_in : forall w, In w (gins G) -> w < gnw G;
  st_winp1 : forall h, In h (gorder G) -> winp (gw G (nO (gn G h))) = Some h;
  st_winp2 : forall w p, winp (gw G w) = Some p -> In p (gorder G) /\ nO (gn G p) = w;
  st_entries : forall w c, In c (wouts (gw G w)) -> In c (gorder G);
  st_oflag : forall o, In o (gouts G) -> wout (gw G o) = true /\ o < gnw G }.

Lemma st_live rank G c : ST rank G -> In c (gorder G) -> live G c.
Proof. intros S H. split; auto. apply (st_nodead _ _ S c H). Qed.

(* availability depends on the gates, the order and the inputs only *)
Lemma avail_ext G G' :
  gins G' = gins G -> gorder G' = gorder G ->
  (forall c, In c (gorder G) -> gn G' c = gn G c) ->
  forall w, avail G w -> avail G' w.
Proof.
  intros Hi Ho Hn w H. induction H as [w Hw|g [Lg Dg] Hin IH].
  - apply av_in. now rewrite Hi.
  - rewrite <- (Hn g Lg). apply av_gate.
    + split; [now rewrite Ho|now rewrite (Hn g Lg)].
    + intros w Hw. rewrite (Hn g Lg) in Hw. now apply IH.
Qed.

Lemma inputs_set_A n to w : In w (inputs_of (n_set_A n to)) -> In w (inputs_of n) \/ w = to.
Proof.
  unfold inputs_of. simpl. destruct (is_inv (nop n)); simpl; intuition.
Qed.
Lemma inputs_set_B n to w : In w (inputs_of (n_set_B n to)) -> In w (inputs_of n) \/ w = to.
Proof.
  unfold inputs_of. simpl. destruct (is_inv (nop n)); simpl; intuition.
Qed.

Lemma moved_inputs sa G G' c from to :
  moved sa G G' c from to ->
  forall i w, In w (inputs_of (gn G' i)) -> In w (inputs_of (gn G i)) \/ (i = c /\ w = to).
Proof.
  intros M i w Hw. destruct (Nat.eq_dec i c) as [->|Hne].
  - rewrite (m_node_c _ _ _ _ _ _ M) in Hw. destruct sa.
    + destruct (inputs_set_A _ _ _ Hw); auto.
    + destruct (inputs_set_B _ _ _ Hw); auto.
  - rewrite (m_node_o _ _ _ _ _ _ M i Hne) in Hw. auto.
Qed.

Lemma moved_fields sa G G' c from to :
  moved sa G G' c from to ->
  forall i, nO (gn G' i) = nO (gn G i) /\ ndead (gn G' i) = ndead (gn G i) /\
            nop (gn G' i) = nop (gn G i).
Proof.
  intros M i. destruct (Nat.eq_dec i c) as [->|Hne].
  - rewrite (m_node_c _ _ _ _ _ _ M). destruct sa; auto.
  - rewrite (m_node_o _ _ _ _ _ _ M i Hne). auto.
Qed.

Lemma avail_inv_gate rank G w : ST rank G -> avail G w -> ~ In w (gins G) ->
  exists g, In g (gorder G) /\ nO (gn G g) = w /\
            forall w', In w' (inputs_of (gn G g)) -> avail G w'.
Proof.
  intros S H Hn. destruct H as [w Hw|g [Lg Dg] Hin]; [contradiction|]. eauto.
Qed.

Lemma avail_moved rank sa G G' c from to :
  ST rank G -> moved sa G G' c from to -> In c (gorder G) ->
  rank to < rank (nO (gn G c)) -> (avail G (nO (gn G c)) -> avail G to) ->
  forall n w, rank w < n -> avail G w -> avail G' w.
Proof.
  intros S M Hc Hr Ha. induction n as [|n IH]; intros w Hn Hw; [lia|].
  destruct Hw as [w Hw|g [Lg Dg] Hin].
  - apply av_in. now rewrite (m_ins _ _ _ _ _ _ M).
  - destruct (moved_fields _ _ _ _ _ _ M g) as (f1 & f2 & f3).
    rewrite <- f1. apply av_gate.
    + split; [now rewrite (m_order _ _ _ _ _ _ M)|congruence].
    + intros w' Hw'. destruct (moved_inputs _ _ _ _ _ _ M g w' Hw') as [H|[-> ->]].
      * apply IH; [|now apply Hin]. pose proof (st_rank _ _ S g Lg w' H). lia.
      * apply IH; [lia|]. apply Ha. apply av_gate; [split; auto|exact Hin].
Qed.

Lemma moved_ST rank sa G G' c from to :
  ST rank G -> moved sa G G' c from to -> In c (gorder G) ->
  wout (gw G to) = false -> rank to < rank (nO (gn G c)) ->
  (avail G (nO (gn G c)) -> avail G to) -> to < gnw G ->
  ST rank G'.
Proof.
  intros S M Hc Hf Hr Ha Hlt.
  pose proof (m_order _ _ _ _ _ _ M) as Eo.
  assert (AV : forall w, avail G w -> avail G' w).
  { intros w Hw. apply (avail_moved rank sa G G' c from to S M Hc Hr Ha (Datatypes.S (rank w)) w); auto. }
  assert (IC : forall k, isconst G' k -> isconst G k).
  { intros k. unfold isconst. now rewrite (m_zero _ _ _ _ _ _ M), (m_one _ _ _ _ _ _ M). }
  constructor.
  - intros g Hg. rewrite Eo in Hg. destruct (moved_fields _ _ _ _ _ _ M g) as (_ & f2 & _).
    rewrite f2. now apply (st_nodead _ _ S).
  - intros i Hi w Hw. rewrite Eo in Hi. rewrite (proj1 (proj2 (m_wire _ _ _ _ _ _ M w))).
    destruct (moved_inputs _ _ _ _ _ _ M i w Hw) as [H|[-> ->]]; auto.
    now apply (st_nocons _ _ S i).
  - intros i Hi. rewrite Eo in Hi. destruct (moved_fields _ _ _ _ _ _ M i) as (f1 & _ & _).
    rewrite f1, (m_ins _ _ _ _ _ _ M). now apply (st_prod _ _ S).
  - intros c1 c2 H1 H2. rewrite Eo in H1, H2.
    destruct (moved_fields _ _ _ _ _ _ M c1) as (f1 & _ & _).
    destruct (moved_fields _ _ _ _ _ _ M c2) as (f2 & _ & _).
    rewrite f1, f2. now apply (st_uniq _ _ S).
  - intros i Hi w Hw. rewrite Eo in Hi. destruct (moved_fields _ _ _ _ _ _ M i) as (f1 & _ & _).
    rewrite f1. destruct (moved_inputs _ _ _ _ _ _ M i w Hw) as [H|[-> ->]]; auto.
    now apply (st_rank _ _ S i).
  - intros w k Hv Hk. rewrite (proj1 (m_wire _ _ _ _ _ _ M w)) in Hv.
    apply (st_vrank _ _ S w k Hv (IC k Hk)).
  - intros k Hk. destruct (st_cavail _ _ S k (IC k Hk)) as (a & b & c0).
    split; [now apply AV|]. rewrite (proj1 (proj2 (m_wire _ _ _ _ _ _ M k))), (m_nw _ _ _ _ _ _ M). auto.
  - intros o Ho. rewrite (m_outs _ _ _ _ _ _ M) in Ho. apply AV. now apply (st_avail _ _ S).
  - intros i Hi. rewrite Eo in Hi. destruct (moved_fields _ _ _ _ _ _ M i) as (f1 & _ & _).
    rewrite f1, (m_nw _ _ _ _ _ _ M). destruct (st_rng _ _ S i Hi) as [r1 r2]. split; auto.
    intros w Hw. destruct (moved_inputs _ _ _ _ _ _ M i w Hw) as [H|[-> ->]]; auto.
  - intros w Hw. rewrite (m_ins _ _ _ _ _ _ M) in Hw. rewrite (m_nw _ _ _ _ _ _ M).
    now apply (st_rng_in _ _ S).
  - intros h Hh. rewrite Eo in Hh. destruct (moved_fields _ _ _ _ _ _ M h) as (f1 & _ & _).
    rewrite f1. rewrite (proj1 (proj2 (proj2 (m_wire _ _ _ _ _ _ M _)))). now apply (st_winp1 _ _ S).
  - intros w p Hp. rewrite (proj1 (proj2 (proj2 (m_wire _ _ _ _ _ _ M _)))) in Hp.
    destruct (st_winp2 _ _ S w p Hp) as [a b]. rewrite Eo.
    destruct (moved_fields _ _ _ _ _ _ M p) as (f1 & _ & _). rewrite f1. auto.
  - intros w i Hi. rewrite Eo. rewrite (m_wouts _ _ _ _ _ _ M w) in Hi.
    destruct (Nat.eqb w to); [|eapply (st_entries _ _ S); eauto].
    apply in_app_or in Hi. destruct Hi as [Hi|[<-|[]]]; auto. eapply (st_entries _ _ S); eauto.
  - intros o Ho. rewrite (m_outs _ _ _ _ _ _ M) in Ho.
    rewrite (proj1 (proj2 (m_wire _ _ _ _ _ _ M o))), (m_nw _ _ _ _ _ _ M). now apply (st_oflag _ _ S).
Qed.

(* ---- edits that leave (part of) the invariant's footprint alone ----- *)

Lemma lslots_ext G G' c w : gn G' c = gn G c -> lslots G' c w = lslots G c w.
Proof. intros H. unfold lslots. now rewrite H. Qed.

Lemma uses_ext G G' w :
  gorder G' = gorder G -> (forall c, gn G' c = gn G c) -> uses G' w = uses G w.
Proof.
  intros Ho Hn. unfold uses. rewrite Ho. apply sum_same. intros c _. now apply lslots_ext.
Qed.

Lemma BK_ext G G' :
  gorder G' = gorder G -> gnn G' = gnn G -> (forall c, gn G' c = gn G c) ->
  (forall w, wouts (gw G' w) = wouts (gw G w) /\ wnum (gw G' w) = wnum (gw G w)) ->
  BK G -> BK G'.
Proof.
  intros Ho Hnn Hn Hw B. constructor.
  - rewrite Ho. apply (bk_nodup _ B).
  - rewrite Ho, Hnn. apply (bk_range _ B).
  - intros c w Hc. rewrite Ho in Hc. rewrite (lslots_ext _ _ _ _ (Hn c)), (proj1 (Hw w)).
    now apply (bk_lists _ B).
  - intros w. rewrite (uses_ext _ _ w Ho Hn), (proj2 (Hw w)). apply (bk_cnt _ B).
  - intros w c Hc Hd. rewrite (proj1 (Hw w)) in Hc. rewrite Hn in Hd. rewrite Ho.
    eapply (bk_entries _ B); eauto.
Qed.

Lemma ST_ext rank G G' :
  gorder G' = gorder G -> gins G' = gins G -> gouts G' = gouts G ->
  gzero G' = gzero G -> gone G' = gone G -> gnw G' = gnw G ->
  (forall c, gn G' c = gn G c) ->
  (forall w, wout (gw G' w) = wout (gw G w) /\ winp (gw G' w) = winp (gw G w)) ->
  (forall w k, wv (gw G' w) <> Unknown -> isconst G k -> rank k <= rank w) ->
  (forall w c, In c (wouts (gw G' w)) -> In c (wouts (gw G w))) ->
  ST rank G -> ST rank G'.
Proof.
  intros Ho Hi Hou Hz Hone Hnw Hn Hw Hv He S.
  assert (AV : forall w, avail G w -> avail G' w).
  { apply avail_ext; auto. }
  assert (IC : forall k, isconst G' k -> isconst G k).
  { intros k. unfold isconst. now rewrite Hz, Hone. }
  constructor.
  - intros g Hg. rewrite Ho in Hg. rewrite Hn. now apply (st_nodead _ _ S).
  - intros c Hc w Hwi. rewrite Ho in Hc. rewrite Hn in Hwi. rewrite (proj1 (Hw w)).
    now apply (st_nocons _ _ S c).
  - intros c Hc. rewrite Ho in Hc. rewrite Hn, Hi. now apply (st_prod _ _ S).
  - intros c1 c2 H1 H2. rewrite Ho in H1, H2. rewrite !Hn. now apply (st_uniq _ _ S).
  - intros c Hc w Hwi. rewrite Ho in Hc. rewrite Hn in *. now apply (st_rank _ _ S c).
  - intros w k Hvw Hk. apply (Hv w k Hvw (IC k Hk)).
  - intros k Hk. destruct (st_cavail _ _ S k (IC k Hk)) as (a & b & c).
    rewrite (proj1 (Hw k)), Hnw. auto.
  - intros o Hin. rewrite Hou in Hin. apply AV. now apply (st_avail _ _ S).
  - intros c Hc. rewrite Ho in Hc. rewrite Hn, Hnw. now apply (st_rng _ _ S).
  - intros w Hin. rewrite Hi in Hin. rewrite Hnw. now apply (st_rng_in _ _ S).
  - intros h Hh. rewrite Ho in Hh. rewrite Hn, (proj2 (Hw _)). now apply (st_winp1 _ _ S).
  - intros w p Hp. rewrite (proj2 (Hw w)) in Hp. rewrite Ho, Hn. now apply (st_winp2 _ _ S).
  - intros w c Hc. rewrite Ho. apply (st_entries _ _ S w c). now apply He.
  - intros o Hin. rewrite Hou in Hin. rewrite (proj1 (Hw o)), Hnw. now apply (st_oflag _ _ S).
Qed.

Lemma set_err_BK G e : BK G -> BK (set_err G e).
Proof. apply BK_ext; auto. Qed.
Lemma set_err_ST rank G e : ST rank G -> ST rank (set_err G e).
Proof. intros S. apply (ST_ext rank G); auto. intros w k. apply (st_vrank _ _ S). Qed.


Lemma set_value_BK G w v : BK G -> BK (set_value G w v).
Proof.
  apply BK_ext; auto. intros w'. simpl. unfold fupd.
  destruct (Nat.eqb w' w) eqn:E; auto. apply Nat.eqb_eq in E. subst. auto.
Qed.

Lemma set_value_ST rank G w v :
  (forall k, isconst G k -> rank k <= rank w) -> ST rank G -> ST rank (set_value G w v).
Proof.
  intros Hk S. apply (ST_ext rank G); auto.
  - intros w'. simpl. unfold fupd. destruct (Nat.eqb w' w) eqn:E; auto.
    apply Nat.eqb_eq in E. subst. auto.
  - intros w' k Hv Hc. simpl in Hv. unfold fupd in Hv.
    destruct (Nat.eqb_spec w' w); subst; auto. apply (st_vrank _ _ S w' k Hv Hc).
  - intros w' c. simpl. unfold fupd. destruct (Nat.eqb_spec w' w); subst; auto.
Qed.

Lemma disconnect_ST rank G w : ST rank G -> ST rank (disconnect_outputs G w).
Proof.
  intros S. apply (ST_ext rank G); auto.
  - intros w'. simpl. unfold fupd. destruct (Nat.eqb w' w) eqn:E; auto.
    apply Nat.eqb_eq in E. subst. auto.
  - intros w' k Hv Hc. simpl in Hv. unfold fupd in Hv.
    destruct (Nat.eqb_spec w' w); subst; apply (st_vrank _ _ S _ k Hv Hc).
  - intros w' c. simpl. unfold fupd. destruct (Nat.eqb_spec w' w); subst; simpl; auto. intros [].
Qed.

Lemma disconnect_BK G w :
  (forall c, In c (gorder G) -> lslots G c w = 0) -> BK G -> BK (disconnect_outputs G w).
Proof.
  intros Hz B.
  assert (Hn : forall c, gn (disconnect_outputs G w) c = gn G c) by reflexivity.
  constructor.
  - apply (bk_nodup _ B).
  - apply (bk_range _ B).
  - intros c w' Hc. rewrite (lslots_ext _ _ _ _ (Hn c)). simpl. unfold fupd.
    destruct (Nat.eqb_spec w' w); subst; simpl; [rewrite (Hz c Hc); lia|now apply (bk_lists _ B)].
  - intros w'. rewrite (uses_ext G (disconnect_outputs G w) w' eq_refl Hn). simpl. unfold fupd.
    destruct (Nat.eqb_spec w' w); subst; simpl; [|apply (bk_cnt _ B)].
    unfold uses. rewrite (sum_same (gorder G) (fun _ => 0)); [|intros c Hc; now apply Hz].
    clear. induction (gorder G); simpl; auto.
  - intros w' c Hc Hd. simpl in Hc. unfold fupd in Hc.
    destruct (Nat.eqb_spec w' w); subst; simpl in Hc; [destruct Hc|].
    eapply (bk_entries _ B); eauto.
Qed.

(* ---- Gate.ReplaceInput and the substitution blocks are moves -------- *)

Ltac moved_tac :=
  constructor; simpl; try reflexivity; auto;
  try (intros; unfold fupd;
       repeat match goal with |- context [Nat.eqb ?a ?b] => destruct (Nat.eqb_spec a b) end;
       subst; simpl; try lia; try congruence; auto).

Lemma replace_input_moved_A G c from to :
  nA (gn G c) = from -> moved true G (replace_input G c from to) c from to.
Proof.
  intros HA. unfold replace_input. rewrite HA, Nat.eqb_refl.
  unfold remove_output. destruct (wnum (gw G from)) eqn:En; moved_tac.
Qed.

Lemma replace_input_moved_B G c from to :
  nA (gn G c) <> from -> is_inv (nop (gn G c)) = false -> nB (gn G c) = from ->
  moved false G (replace_input G c from to) c from to.
Proof.
  intros HA Hi HB. unfold replace_input.
  destruct (Nat.eqb_spec (nA (gn G c)) from); [contradiction|].
  rewrite Hi, HB, Nat.eqb_refl. simpl.
  unfold remove_output. destruct (wnum (gw G from)) eqn:En; moved_tac.
Qed.

Lemma replace_input_err G c from to :
  nA (gn G c) <> from -> (is_inv (nop (gn G c)) = true \/ nB (gn G c) <> from) ->
  replace_input G c from to = set_err G 3.
Proof.
  intros HA HB. unfold replace_input.
  destruct (Nat.eqb_spec (nA (gn G c)) from); [contradiction|].
  destruct HB as [HB|HB]; [now rewrite HB|].
  destruct (Nat.eqb_spec (nB (gn G c)) from); [contradiction|]. now rewrite andb_false_r.
Qed.

Lemma cp_subst_A_moved G gid z :
  wv (gw G (nA (gn G gid))) = Zero -> gzero G = Some z ->
  moved true G (cp_subst_A G gid) gid (nA (gn G gid)) z.
Proof.
  intros Hv Hz. unfold cp_subst_A. rewrite Hv. unfold zero_wire.
  unfold remove_output. destruct (wnum (gw G (nA (gn G gid)))) eqn:En; simpl; rewrite Hz; moved_tac.
Qed.

Lemma cp_subst_A_moved1 G gid o :
  wv (gw G (nA (gn G gid))) = One -> gone G = Some o ->
  moved true G (cp_subst_A G gid) gid (nA (gn G gid)) o.
Proof.
  intros Hv Ho. unfold cp_subst_A. rewrite Hv. unfold one_wire.
  unfold remove_output. destruct (wnum (gw G (nA (gn G gid)))) eqn:En; simpl; rewrite Ho; moved_tac.
Qed.

Lemma cp_subst_B_moved G gid z :
  is_inv (nop (gn G gid)) = false ->
  wv (gw G (nB (gn G gid))) = Zero -> gzero G = Some z ->
  moved false G (cp_subst_B G gid) gid (nB (gn G gid)) z.
Proof.
  intros Hi Hv Hz. unfold cp_subst_B. rewrite Hi, Hv. unfold zero_wire.
  unfold remove_output. destruct (wnum (gw G (nB (gn G gid)))) eqn:En; simpl; rewrite Hz; moved_tac.
Qed.

Lemma cp_subst_B_moved1 G gid o :
  is_inv (nop (gn G gid)) = false ->
  wv (gw G (nB (gn G gid))) = One -> gone G = Some o ->
  moved false G (cp_subst_B G gid) gid (nB (gn G gid)) o.
Proof.
  intros Hi Hv Ho. unfold cp_subst_B. rewrite Hi, Hv. unfold one_wire.
  unfold remove_output. destruct (wnum (gw G (nB (gn G gid)))) eqn:En; simpl; rewrite Ho; moved_tac.
Qed.

(* ---- ConstPropagate ------------------------------------------------- *)

Definition SI (rank : nat -> nat) (G : graph) : Prop := BK G /\ ST rank G.
Definition fr (G G' : graph) : Prop :=
  gorder G' = gorder G /\ gzero G' = gzero G /\ gone G' = gone G.

Lemma fr_refl G : fr G G. Proof. repeat split. Qed.
Lemma fr_trans G1 G2 G3 : fr G1 G2 -> fr G2 G3 -> fr G1 G3.
Proof. intros (a & b & c) (d & e & f). repeat split; congruence. Qed.
Lemma moved_fr sa G G' c from to : moved sa G G' c from to -> fr G G'.
Proof. intros M. repeat split; apply M. Qed.

Lemma moved_SI rank sa G G' c from to :
  SI rank G -> moved sa G G' c from to -> In c (gorder G) ->
  wout (gw G to) = false -> rank to < rank (nO (gn G c)) ->
  (avail G (nO (gn G c)) -> avail G to) -> to < gnw G ->
  SI rank G'.
Proof.
  intros [B S] M Hc H1 H2 H3 H4. split.
  - eapply moved_BK; eauto. eapply st_live; eauto.
  - eapply moved_ST; eauto.
Qed.

Lemma avail_input rank G c w :
  ST rank G -> In c (gorder G) -> In w (inputs_of (gn G c)) ->
  avail G (nO (gn G c)) -> avail G w.
Proof.
  intros S Hc Hw Ha.
  destruct (avail_inv_gate rank G _ S Ha (st_prod _ _ S c Hc)) as (g & Hg & E & Hin).
  assert (g = c) by (apply (st_uniq _ _ S); auto). subst g. now apply Hin.
Qed.

(* the loop of Gate.ShortCircuit: g's output O is replaced by g's input o in
   every listed consumer *)
Lemma sc_fold rank g O o : forall l G,
  SI rank G -> In g (gorder G) -> nO (gn G g) = O -> In o (inputs_of (gn G g)) ->
  (forall c, In c (gorder G) -> lslots G c O <= count_occ Nat.eq_dec l c) ->
  (forall c, In c l -> In c (gorder G)) ->
  let G' := fold_left (fun G c => replace_input G c O o) l G in
  SI rank G' /\ fr G G' /\ gn G' g = gn G g /\
  (forall w, wv (gw G' w) = wv (gw G w)) /\
  (forall c, In c (gorder G) -> lslots G' c O = 0).
Proof.
  induction l as [|h l IH]; intros G SIG Hg HO Ho Q Hl; simpl.
  - split; auto. split; [apply fr_refl|]. split; auto. split; auto.
    intros c Hc. specialize (Q c Hc). simpl in Q. lia.
  - destruct SIG as [B S].
    assert (Hh : In h (gorder G)) by (apply Hl; now left).
    assert (Hro : rank o < rank O) by (rewrite <- HO; now apply (st_rank _ _ S g)).
    assert (HoO : o <> O) by (intros ->; lia).
    assert (Hstep : exists G1, G1 = replace_input G h O o /\ SI rank G1 /\ fr G G1 /\
              gn G1 g = gn G g /\ (forall w, wv (gw G1 w) = wv (gw G w)) /\
              (forall c, In c (gorder G) -> lslots G1 c O <= count_occ Nat.eq_dec l c)).
    { exists (replace_input G h O o). split; auto.
      assert (Side : forall sa, moved sa G (replace_input G h O o) h O o ->
                In O (inputs_of (gn G h)) ->
                SI rank (replace_input G h O o) /\ fr G (replace_input G h O o) /\
                gn (replace_input G h O o) g = gn G g /\
                (forall w, wv (gw (replace_input G h O o) w) = wv (gw G w)) /\
                (forall c, In c (gorder G) ->
                   lslots (replace_input G h O o) c O <= count_occ Nat.eq_dec l c)).
      { intros sa M HinO.
        assert (Hhg : h <> g).
        { intros E. subst h. pose proof (st_rank _ _ S g Hg O HinO) as X. rewrite HO in X. lia. }
        assert (RO : rank O < rank (nO (gn G h))) by (now apply (st_rank _ _ S h)).
        split; [|split; [eapply moved_fr; eauto|split; [apply (m_node_o _ _ _ _ _ _ M); auto|split]]].
        - eapply moved_SI; eauto; [split; auto| | | |].
          + now apply (st_nocons _ _ S g).
          + lia.
          + intros Ha. apply (avail_input rank G g o S Hg Ho). rewrite HO.
            now apply (avail_input rank G h O S Hh HinO).
          + now apply (st_rng _ _ S g Hg).
        - intros w. apply (m_wire _ _ _ _ _ _ M).
        - intros c Hc. destruct (moved_lslots _ _ _ _ _ _ M) as [Lo Lc].
          specialize (Q c Hc). simpl in Q.
          destruct (Nat.eq_dec c h) as [->|Hne].
          + specialize (Lc O). rewrite (st_nodead _ _ S h Hh), Nat.eqb_refl in Lc.
            assert (E : Nat.eqb o O = false) by (now apply Nat.eqb_neq). rewrite E in Lc.
            destruct (Nat.eq_dec h h); [lia|contradiction].
          + rewrite (Lo c O Hne). destruct (Nat.eq_dec h c); [congruence|lia]. }
      destruct (Nat.eq_dec (nA (gn G h)) O) as [EA|NA].
      - apply (Side true (replace_input_moved_A G h O o EA)).
        apply slots_inputs. unfold slots, slotA. rewrite EA, Nat.eqb_refl. lia.
      - destruct (is_inv (nop (gn G h))) eqn:Ei.
        + rewrite (replace_input_err G h O o NA (or_introl Ei)).
          split; [split; [now apply set_err_BK|now apply set_err_ST]|].
          split; [repeat split|]. split; auto. split; auto.
          intros c Hc. specialize (Q c Hc). simpl in Q. simpl.
          destruct (Nat.eq_dec h c) as [->|Hne]; [|exact Q].
          unfold lslots, slots, slotA, slotB. simpl.
          destruct (ndead (gn G c)); [lia|]. rewrite Ei. simpl.
          destruct (Nat.eqb_spec (nA (gn G c)) O); [contradiction|lia].
        + destruct (Nat.eq_dec (nB (gn G h)) O) as [EB|NB].
          * apply (Side false (replace_input_moved_B G h O o NA Ei EB)).
            apply slots_inputs. unfold slots, slotB. rewrite Ei, EB, Nat.eqb_refl. simpl. lia.
          * rewrite (replace_input_err G h O o NA (or_intror NB)).
            split; [split; [now apply set_err_BK|now apply set_err_ST]|].
            split; [repeat split|]. split; auto. split; auto.
            intros c Hc. specialize (Q c Hc). simpl in Q. simpl.
            destruct (Nat.eq_dec h c) as [->|Hne]; [|exact Q].
            unfold lslots, slots, slotA, slotB. simpl.
            destruct (ndead (gn G c)); [lia|]. rewrite Ei. simpl.
            destruct (Nat.eqb_spec (nA (gn G c)) O); [contradiction|].
            destruct (Nat.eqb_spec (nB (gn G c)) O); [contradiction|lia]. }
    destruct Hstep as (G1 & -> & SI1 & (F1 & F2 & F3) & N1 & W1 & Q1).
    destruct (IH (replace_input G h O o)) as (SI' & F' & N' & W' & Z'); auto.
    + now rewrite F1.
    + now rewrite N1.
    + now rewrite N1.
    + intros c Hc. rewrite F1 in Hc. now apply Q1.
    + intros c Hc. rewrite F1. apply Hl. now right.
    + split; auto. split; [eapply fr_trans; eauto; repeat split; auto|].
      split; [congruence|]. split; [intros w; now rewrite W', W1|].
      intros c Hc. apply Z'. now rewrite F1.
Qed.

Lemma short_circuit_SI rank G g o :
  SI rank G -> In g (gorder G) -> In o (inputs_of (gn G g)) ->
  SI rank (short_circuit G g o) /\ fr G (short_circuit G g o) /\
  gn (short_circuit G g o) g = gn G g.
Proof.
  intros SIG Hg Ho. unfold short_circuit.
  destruct (wout (gw G (nO (gn G g)))); [split; auto; split; [apply fr_refl|auto]|].
  destruct SIG as [B S].
  destruct (sc_fold rank g (nO (gn G g)) o (wouts (gw G (nO (gn G g)))) G (conj B S) Hg eq_refl Ho)
    as ((B' & S') & F' & N' & W' & Z').
  - intros c Hc. now apply (bk_lists _ B).
  - intros c Hc. eapply (st_entries _ _ S); eauto.
  - split; [split|split; [|exact N']].
    + apply disconnect_BK; auto. intros c Hc. apply Z'. destruct F' as (E & _). now rewrite <- E.
    + now apply disconnect_ST.
    + destruct F' as (a & b & c). repeat split; auto.
Qed.

Lemma cp_action_valued o a b :
  (cp_action o a b = ActZero \/ cp_action o a b = ActOne) ->
  a <> Unknown \/ (is_inv o = false /\ b <> Unknown).
Proof.
  destruct o, a, b; simpl; intros [H|H]; try discriminate;
    try (left; discriminate); right; split; auto; discriminate.
Qed.

Lemma cp_switch_SI rank G g :
  SI rank G -> In g (gorder G) ->
  SI rank (cp_switch G g) /\ fr G (cp_switch G g) /\ gn (cp_switch G g) g = gn G g.
Proof.
  intros SIG Hg. unfold cp_switch.
  pose proof SIG as [B S].
  assert (Val : forall v, (cp_action (nop (gn G g)) (wv (gw G (nA (gn G g))))
             (if is_inv (nop (gn G g)) then Unknown else wv (gw G (nB (gn G g)))) = ActZero \/
             cp_action (nop (gn G g)) (wv (gw G (nA (gn G g))))
             (if is_inv (nop (gn G g)) then Unknown else wv (gw G (nB (gn G g)))) = ActOne) ->
             SI rank (set_value G (nO (gn G g)) v)).
  { intros v Hact. split; [now apply set_value_BK|]. apply set_value_ST; auto.
    intros k Hk. destruct (cp_action_valued _ _ _ Hact) as [Ha|[Hi Hb]].
    - pose proof (st_vrank _ _ S _ k Ha Hk).
      assert (rank (nA (gn G g)) < rank (nO (gn G g))).
      { apply (st_rank _ _ S g Hg). unfold inputs_of. destruct (is_inv _); now left. }
      lia.
    - rewrite Hi in Hb. pose proof (st_vrank _ _ S _ k Hb Hk).
      assert (rank (nB (gn G g)) < rank (nO (gn G g))).
      { apply (st_rank _ _ S g Hg). unfold inputs_of. rewrite Hi. right. now left. }
      lia. }
  destruct (cp_action _ _ _) eqn:E.
  - split; auto. split; [apply fr_refl|auto].
  - split; [apply Val; auto|split; [repeat split|reflexivity]].
  - split; [apply Val; auto|split; [repeat split|reflexivity]].
  - apply short_circuit_SI; auto. unfold inputs_of. rewrite (cp_action_scb _ _ _ E). right. now left.
  - apply short_circuit_SI; auto. unfold inputs_of. destruct (is_inv _); now left.
Qed.

Lemma subst_side rank G g a k :
  ST rank G -> In g (gorder G) -> In a (inputs_of (gn G g)) ->
  wv (gw G a) <> Unknown -> isconst G k ->
  wout (gw G k) = false /\ rank k < rank (nO (gn G g)) /\
  (avail G (nO (gn G g)) -> avail G k) /\ k < gnw G.
Proof.
  intros S Hg Ha Hv Hk. destruct (st_cavail _ _ S k Hk) as (c1 & c2 & c3).
  pose proof (st_vrank _ _ S a k Hv Hk). pose proof (st_rank _ _ S g Hg a Ha).
  repeat split; auto. lia.
Qed.

Lemma cp_subst_A_SI rank G g :
  SI rank G -> In g (gorder G) -> consts_ok G ->
  SI rank (cp_subst_A G g) /\ fr G (cp_subst_A G g).
Proof.
  intros SIG Hg (z & o & Hz & Ho & _). pose proof SIG as [B S].
  assert (Ha : In (nA (gn G g)) (inputs_of (gn G g))).
  { unfold inputs_of. destruct (is_inv _); now left. }
  destruct (wv (gw G (nA (gn G g)))) eqn:Ev.
  - unfold cp_subst_A. rewrite Ev. split; auto. apply fr_refl.
  - pose proof (cp_subst_A_moved G g z Ev Hz) as M.
    destruct (subst_side rank G g _ z S Hg Ha) as (s1 & s2 & s3 & s4);
      [rewrite Ev; discriminate|now left|].
    split; [eapply moved_SI; eauto|eapply moved_fr; eauto].
  - pose proof (cp_subst_A_moved1 G g o Ev Ho) as M.
    destruct (subst_side rank G g _ o S Hg Ha) as (s1 & s2 & s3 & s4);
      [rewrite Ev; discriminate|now right|].
    split; [eapply moved_SI; eauto|eapply moved_fr; eauto].
Qed.

Lemma cp_subst_B_SI rank G g :
  SI rank G -> In g (gorder G) -> consts_ok G ->
  SI rank (cp_subst_B G g) /\ fr G (cp_subst_B G g).
Proof.
  intros SIG Hg (z & o & Hz & Ho & _). pose proof SIG as [B S].
  destruct (is_inv (nop (gn G g))) eqn:Ei.
  { unfold cp_subst_B. rewrite Ei. split; auto. apply fr_refl. }
  assert (Hb : In (nB (gn G g)) (inputs_of (gn G g))).
  { unfold inputs_of. rewrite Ei. right. now left. }
  destruct (wv (gw G (nB (gn G g)))) eqn:Ev.
  - unfold cp_subst_B. rewrite Ei, Ev. split; auto. apply fr_refl.
  - pose proof (cp_subst_B_moved G g z Ei Ev Hz) as M.
    destruct (subst_side rank G g _ z S Hg Hb) as (s1 & s2 & s3 & s4);
      [rewrite Ev; discriminate|now left|].
    split; [eapply moved_SI; eauto|eapply moved_fr; eauto].
  - pose proof (cp_subst_B_moved1 G g o Ei Ev Ho) as M.
    destruct (subst_side rank G g _ o S Hg Hb) as (s1 & s2 & s3 & s4);
      [rewrite Ev; discriminate|now right|].
    split; [eapply moved_SI; eauto|eapply moved_fr; eauto].
Qed.

Lemma cp_step_SI rank x v G g :
  SI rank G -> In g (gorder G) -> Inv x v G ->
  SI rank (cp_step G g) /\ fr G (cp_step G g).
Proof.
  intros SIG Hg HI. rewrite cp_step_eq.
  assert (Lg : live G g) by (eapply st_live; [apply SIG|auto]).
  destruct (cp_switch_SI rank G g SIG Hg) as (S1 & F1 & _).
  pose proof (cp_switch_Inv x v G g Lg HI) as I1.
  assert (Hg1 : In g (gorder (cp_switch G g))) by (destruct F1 as (E & _); now rewrite E).
  destruct (cp_subst_A_SI rank _ g S1 Hg1 (Inv_consts _ _ _ I1)) as (S2 & F2).
  pose proof (cp_subst_A_Inv x v _ g I1) as I2.
  assert (Hg2 : In g (gorder (cp_subst_A (cp_switch G g) g))) by (destruct F2 as (E & _); now rewrite E).
  destruct (cp_subst_B_SI rank _ g S2 Hg2 (Inv_consts _ _ _ I2)) as (S3 & F3).
  split; auto. eapply fr_trans; [exact F1|]. eapply fr_trans; eauto.
Qed.

Lemma cp_fold_SI rank x v l : forall G,
  SI rank G -> (forall g, In g l -> In g (gorder G)) -> Inv x v G ->
  SI rank (fold_left cp_step l G) /\ fr G (fold_left cp_step l G).
Proof.
  induction l as [|g l IH]; intros G SIG Hl HI; simpl.
  - split; auto. apply fr_refl.
  - assert (Hg : In g (gorder G)) by (apply Hl; now left).
    destruct (cp_step_SI rank x v G g SIG Hg HI) as (S1 & F1).
    assert (Lg : live G g) by (eapply st_live; [apply SIG|auto]).
    destruct (IH (cp_step G g) S1) as (S2 & F2).
    + intros h Hh. destruct F1 as (E & _). rewrite E. apply Hl. now right.
    + now apply cp_step_Inv.
    + split; auto. eapply fr_trans; eauto.
Qed.

Theorem const_propagate_SI rank x v G :
  SI rank G -> Inv x v G ->
  SI rank (const_propagate G) /\ fr G (const_propagate G).
Proof. intros S I. apply (cp_fold_SI rank x v); auto. Qed.

(* ---- ShortCircuitXORZero -------------------------------------------- *)

Record ST0 (rank : nat -> nat) (G : graph) : Prop := {
  s0_nodead : forall g, In g (gorder G) -> ndead (gn G g) = false;
  s0_nocons : forall c, In c (gorder G) -> forall w, In w (inputs_of (gn G c)) -> wout (gw G w) = false;
  s0_prod : forall c, In c (gorder G) -> ~ In (nO (gn G c)) (gins G);
  s0_uniq : forall c1 c2, In c1 (gorder G) -> In c2 (gorder G) ->
            nO (gn G c1) = nO (gn G c2) -> c1 = c2;
  s0_rank : forall c, In c (gorder G) -> forall w, In w (inputs_of (gn G c)) ->
            rank w < rank (nO (gn G c));
  s0_avail : forall o, In o (gouts G) -> avail G o;
  s0_rng : forall c, In c (gorder G) ->
           nO (gn G c) < gnw G /\ forall w, In w (inputs_of (gn G c)) -> w < gnw G;
  s0_rng_in : forall w, In w (gins G) -> w < gnw G;
  s0_entries : forall w c, In c (wouts (gw G w)) -> In c (gorder G);
  s0_oflag : forall o, In o (gouts G) -> wout (gw G o) = true /\ o < gnw G }.

Lemma ST_ST0 rank G : ST rank G -> ST0 rank G.
Proof. intros S. constructor; apply S. Qed.

(* the producer links as ShortCircuitXORZero leaves them: exact, or pointing
   to a gate whose output is a fresh unused wire, or nobody left to look *)
Definition CL (L : list nat) (G : graph) : Prop :=
  forall w p, winp (gw G w) = Some p ->
    In p (gorder G) /\
    (nO (gn G p) = w \/ wnum (gw G (nO (gn G p))) = 0 \/
     forall h, In h L -> ~ In w (inputs_of (gn G h))).

Lemma sum_two (l : list nat) f a b :
  NoDup l -> In a l -> In b l -> a <> b -> f a + f b <= list_sum (map f l).
Proof.
  induction l as [|x l IH]; simpl; intros ND Ha Hb Hne; [destruct Ha|].
  inversion ND; subst. destruct Ha as [->|Ha], Hb as [->|Hb].
  - contradiction.
  - pose proof (sum_pos_in l f b Hb). lia.
  - pose proof (sum_pos_in l f a Ha). lia.
  - specialize (IH H2 Ha Hb Hne). lia.
Qed.

Lemma only_consumer G g w :
  BK G -> In g (gorder G) -> wnum (gw G w) = 1 -> 0 < lslots G g w ->
  forall c, In c (gorder G) -> c <> g -> lslots G c w = 0.
Proof.
  intros B Hg Hn Hs c Hc Hne. pose proof (bk_cnt _ B w) as U. rewrite Hn in U. unfold uses in U.
  pose proof (sum_two (gorder G) (fun i => lslots G i w) g c (bk_nodup _ B) Hg Hc) as T.
  simpl in T. specialize (T (fun E => Hne (eq_sym E))). lia.
Qed.

Definition rank_ext (rank : nat -> nat) (f v : nat) : nat -> nat :=
  fun w => if Nat.eqb w f then v else rank w.

(* one firing: p.ResetOutput(g.O); g.O = fresh *)
Definition clp (L : list nat) (G : graph) (w : nat) : Prop :=
  forall p, winp (gw G w) = Some p ->
    In p (gorder G) /\
    (nO (gn G p) = w \/ wnum (gw G (nO (gn G p))) = 0 \/
     forall h, In h L -> ~ In w (inputs_of (gn G h))).

Lemma scx_fire rank G g oin p :
  BK G -> ST0 rank G -> In g (gorder G) ->
  In oin (inputs_of (gn G g)) -> In p (gorder G) -> nO (gn G p) = oin ->
  wnum (gw G oin) = 1 ->
  let G1 := set_n G p (n_set_O (gn G p) (nO (gn G g))) in
  let G2 := fst (new_wire G1) in
  let G' := set_n G2 g (n_set_O (gn G2 g) (gnw G)) in
  BK G' /\ ST0 (rank_ext rank (gnw G) (rank (nO (gn G g)))) G' /\
  (forall L w, (forall h, In h L -> In h (gorder G)) -> (w = oin -> ~ In g L) ->
               clp L G w -> clp L G' w) /\
  gorder G' = gorder G /\
  (forall i, nop (gn G' i) = nop (gn G i) /\ nA (gn G' i) = nA (gn G i) /\
             nB (gn G' i) = nB (gn G i) /\ ndead (gn G' i) = ndead (gn G i)) /\
  (forall w, w < gnw G -> gw G' w = gw G w) /\
  (TV G -> TV G').
Proof.
  intros B S Hg Hoin Hp HOp Hn1. intros G1 G2 G'.
  set (f := gnw G) in *. set (Oo := nO (gn G g)) in *.
  assert (Hpg : p <> g).
  { intros ->. pose proof (s0_rank _ _ S g Hg oin Hoin). rewrite HOp in H. lia. }
  assert (Shape : forall i, nop (gn G' i) = nop (gn G i) /\ nA (gn G' i) = nA (gn G i) /\
                            nB (gn G' i) = nB (gn G i) /\ ndead (gn G' i) = ndead (gn G i)).
  { intros i. unfold G', G2, G1. simpl. unfold fupd.
    destruct (Nat.eqb_spec i g); subst; simpl.
    - destruct (Nat.eqb_spec g p); subst; simpl; auto.
    - destruct (Nat.eqb_spec i p); subst; simpl; auto. }
  assert (Inp : forall i, inputs_of (gn G' i) = inputs_of (gn G i)).
  { intros i. destruct (Shape i) as (a & b & c & _). unfold inputs_of. now rewrite a, b, c. }
  assert (Og : nO (gn G' g) = f).
  { unfold G', G2, G1. simpl. unfold fupd. rewrite Nat.eqb_refl. reflexivity. }
  assert (Opp : nO (gn G' p) = Oo).
  { unfold G', G2, G1. simpl. unfold fupd. destruct (Nat.eqb_spec p g); [contradiction|].
    rewrite Nat.eqb_refl. reflexivity. }
  assert (Oth : forall i, i <> g -> i <> p -> gn G' i = gn G i).
  { intros i H1 H2. unfold G', G2, G1. simpl. unfold fupd.
    destruct (Nat.eqb_spec i g); [contradiction|]. destruct (Nat.eqb_spec i p); [contradiction|]. reflexivity. }
  assert (Wold : forall w, w <> f -> gw G' w = gw G w).
  { intros w Hw. unfold G', G2, G1. simpl. unfold fupd. fold f. destruct (Nat.eqb_spec w f); [contradiction|reflexivity]. }
  assert (Wf : gw G' f = blank_wire).
  { unfold G', G2, G1. simpl. unfold fupd. fold f. now rewrite Nat.eqb_refl. }
  assert (LS : forall c w, lslots G' c w = lslots G c w).
  { intros c w. unfold lslots, slots, slotA, slotB. destruct (Shape c) as (a & b & c0 & d).
    now rewrite a, b, c0, d. }
  assert (InLt : forall c w, In c (gorder G) -> In w (inputs_of (gn G c)) -> w <> f).
  { intros c w Hc Hw. pose proof (proj2 (s0_rng _ _ S c Hc) w Hw). unfold f. lia. }
  assert (LSf : forall c, In c (gorder G) -> lslots G c f = 0).
  { intros c Hc. unfold lslots. destruct (ndead (gn G c)); auto.
    destruct (Nat.eq_dec (slots (gn G c) f) 0); auto.
    exfalso. assert (X : In f (inputs_of (gn G c))) by (apply slots_inputs; lia).
    exact (InLt c f Hc X eq_refl). }
  assert (OoLt : Oo < f) by (exact (proj1 (s0_rng _ _ S g Hg))).
  assert (Only : forall c, In c (gorder G) -> c <> g -> ~ In oin (inputs_of (gn G c))).
  { intros c Hc Hne Hin.
    assert (0 < lslots G g oin).
    { unfold lslots. rewrite (s0_nodead _ _ S g Hg). now apply slots_inputs. }
    pose proof (only_consumer G g oin B Hg Hn1 H c Hc Hne) as Z.
    unfold lslots in Z. rewrite (s0_nodead _ _ S c Hc) in Z. apply slots_inputs in Hin. lia. }
  assert (Rk : forall w, w <> f -> rank_ext rank f (rank Oo) w = rank w).
  { intros w Hw. unfold rank_ext. destruct (Nat.eqb_spec w f); [contradiction|reflexivity]. }
  assert (TVI : TV G -> TV G').
  { intros T.
    assert (Nv : forall i, nvis (gn G' i) = nvis (gn G i)).
    { intros i. unfold G', G2, G1. simpl. unfold fupd.
      destruct (Nat.eqb_spec i g); subst; simpl.
      - destruct (Nat.eqb_spec g p); subst; simpl; auto.
      - destruct (Nat.eqb_spec i p); subst; simpl; auto. }
    constructor.
    - intros w. destruct (Nat.eq_dec w f) as [->|Hw]; [now rewrite Wf|].
      rewrite (Wold w Hw). apply (tv_fresh _ T).
    - intros i. rewrite Nv. apply (tv_unvis _ T).
    - apply (tv_ins_nodup _ T).
    - intros w Hw. change (gins G') with (gins G) in Hw.
      rewrite (Wold w) by (pose proof (s0_rng_in _ _ S w Hw); unfold f; lia).
      now apply (tv_ins_flag _ T).
    - apply (tv_outs_nodup _ T).
    - intros w. change (gouts G') with (gouts G). destruct (Nat.eq_dec w f) as [->|Hw].
      + rewrite Wf. simpl. split; [discriminate|].
        intros Hin. destruct (s0_oflag _ _ S f Hin). unfold f in *. lia.
      + rewrite (Wold w Hw). apply (tv_outs_flag _ T). }
  split; [|split; [|split; [|split; [reflexivity|split; [exact Shape|split; [|exact TVI]]]]]];
    [| | |intros w Hw; apply Wold; unfold f; lia].
  - (* BK *)
    constructor.
    + apply (bk_nodup _ B).
    + apply (bk_range _ B).
    + intros c w Hc. rewrite LS. destruct (Nat.eq_dec w f) as [->|Hw].
      * rewrite (LSf c Hc). lia.
      * rewrite (Wold w Hw). now apply (bk_lists _ B).
    + intros w. assert (E : uses G' w = uses G w).
      { unfold uses. apply sum_same. intros c _. apply LS. }
      rewrite E. destruct (Nat.eq_dec w f) as [->|Hw].
      * unfold uses. rewrite (sum_same (gorder G) (fun _ => 0)); [|intros c Hc; now apply LSf].
        clear. induction (gorder G); simpl; auto. lia.
      * rewrite (Wold w Hw). apply (bk_cnt _ B).
    + intros w c Hc Hd. destruct (Nat.eq_dec w f) as [->|Hw].
      * rewrite Wf in Hc. destruct Hc.
      * rewrite (Wold w Hw) in Hc. destruct (Shape c) as (_ & _ & _ & d). rewrite d in Hd.
        eapply (bk_entries _ B); eauto.
  - (* ST0 *)
    assert (NOlt : forall c, In c (gorder G) -> nO (gn G' c) < Datatypes.S f /\
                     (c <> g -> nO (gn G' c) <> f)).
    { intros c Hc. destruct (Nat.eq_dec c g) as [->|Hcg]; [rewrite Og; split; [lia|congruence]|].
      destruct (Nat.eq_dec c p) as [->|Hcp]; [rewrite Opp; split; [lia|intros _; lia]|].
      rewrite (Oth c Hcg Hcp). pose proof (proj1 (s0_rng _ _ S c Hc)). fold f in H.
      split; [lia|intros _; lia]. }
    constructor.
    + intros c Hc. destruct (Shape c) as (_ & _ & _ & d). rewrite d. now apply (s0_nodead _ _ S).
    + intros c Hc w Hw. rewrite Inp in Hw. rewrite (Wold w (InLt c w Hc Hw)).
      now apply (s0_nocons _ _ S c).
    + intros c Hc Hin. change (gins G') with (gins G) in Hin.
      pose proof (s0_rng_in _ _ S _ Hin) as Hlt. fold f in Hlt.
      destruct (Nat.eq_dec c g) as [->|Hcg]; [rewrite Og in Hlt; lia|].
      destruct (Nat.eq_dec c p) as [->|Hcp].
      * rewrite Opp in Hin. apply (s0_prod _ _ S g Hg Hin).
      * rewrite (Oth c Hcg Hcp) in Hin. apply (s0_prod _ _ S c Hc Hin).
    + intros c1 c2 H1 H2 E. change (gorder G') with (gorder G) in H1, H2.
      destruct (Nat.eq_dec c1 g) as [->|N1].
      * destruct (Nat.eq_dec c2 g) as [->|N2]; auto. rewrite Og in E.
        exfalso. apply (proj2 (NOlt c2 H2) N2). congruence.
      * destruct (Nat.eq_dec c2 g) as [->|N2].
        { rewrite Og in E. exfalso. apply (proj2 (NOlt c1 H1) N1). congruence. }
        destruct (Nat.eq_dec c1 p) as [->|P1], (Nat.eq_dec c2 p) as [->|P2]; auto.
        -- rewrite Opp, (Oth c2 N2 P2) in E. exfalso. apply N2. apply (s0_uniq _ _ S); auto.
        -- rewrite Opp, (Oth c1 N1 P1) in E. exfalso. apply N1. apply (s0_uniq _ _ S); auto.
        -- rewrite (Oth c1 N1 P1), (Oth c2 N2 P2) in E. apply (s0_uniq _ _ S); auto.
    + intros c Hc w Hw. change (gorder G') with (gorder G) in Hc. rewrite Inp in Hw.
      rewrite (Rk w (InLt c w Hc Hw)).
      pose proof (s0_rank _ _ S c Hc w Hw) as E.
      destruct (Nat.eq_dec c g) as [->|Hcg].
      * rewrite Og. unfold rank_ext. rewrite Nat.eqb_refl. exact E.
      * destruct (Nat.eq_dec c p) as [->|Hcp].
        -- rewrite Opp, Rk by lia. rewrite HOp in E.
           pose proof (s0_rank _ _ S g Hg oin Hoin). fold Oo in H. lia.
        -- rewrite (Oth c Hcg Hcp), Rk; auto.
           pose proof (proj1 (s0_rng _ _ S c Hc)). fold f in H. lia.
    + (* availability of the outputs *)
      assert (AV : forall n w, rank w < n -> avail G w -> w <> oin -> avail G' w).
      { induction n as [|n IH]; intros w Hn Hw Hne; [lia|].
        destruct Hw as [w Hw|c [Lc Dc] Hin]; [now apply av_in|].
        destruct (Nat.eq_dec c p) as [->|Hcp]; [congruence|].
        destruct (Nat.eq_dec c g) as [->|Hcg].
        - (* the old output of g is now produced by p *)
          fold Oo. rewrite <- Opp. apply av_gate.
          + split; auto. destruct (Shape p) as (_ & _ & _ & d). rewrite d.
            now apply (s0_nodead _ _ S).
          + intros w' Hw'. rewrite Inp in Hw'.
            pose proof (s0_rank _ _ S p Hp w' Hw') as R1. rewrite HOp in R1.
            pose proof (s0_rank _ _ S g Lc oin Hoin) as R2.
            apply IH; [lia| |intros ->; lia].
            (* p's inputs are available because oin is *)
            assert (Ao : avail G oin) by (now apply Hin).
            destruct Ao as [w0 Hw0|q [Lq Dq] Hq].
            * exfalso. rewrite <- HOp in Hw0. apply (s0_prod _ _ S p Hp Hw0).
            * assert (q = p) by (apply (s0_uniq _ _ S); auto; congruence). subst q. now apply Hq.
        - rewrite <- (Oth c Hcg Hcp). apply av_gate.
          + split; auto. destruct (Shape c) as (_ & _ & _ & d). now rewrite d.
          + intros w' Hw'. rewrite Inp in Hw'.
            pose proof (s0_rank _ _ S c Lc w' Hw').
            apply IH; [lia|now apply Hin|]. intros ->. apply (Only c Lc Hcg Hw'). }
      intros o Ho. change (gouts G') with (gouts G) in Ho.
      apply (AV (Datatypes.S (rank o))); auto; [now apply (s0_avail _ _ S)|].
      intros ->. pose proof (s0_nocons _ _ S g Hg oin Hoin).
      destruct (s0_oflag _ _ S oin Ho). congruence.
    + intros c Hc. change (gorder G') with (gorder G) in Hc. change (gnw G') with (Datatypes.S f).
      split; [apply (NOlt c Hc)|]. intros w Hw. rewrite Inp in Hw.
      pose proof (proj2 (s0_rng _ _ S c Hc) w Hw). fold f in H. lia.
    + intros w Hw. change (gins G') with (gins G) in Hw. change (gnw G') with (Datatypes.S f).
      pose proof (s0_rng_in _ _ S w Hw). fold f in H. lia.
    + intros w c Hc. destruct (Nat.eq_dec w f) as [->|Hw].
      * rewrite Wf in Hc. destruct Hc.
      * rewrite (Wold w Hw) in Hc. eapply (s0_entries _ _ S); eauto.
    + intros o Ho. change (gouts G') with (gouts G) in Ho. change (gnw G') with (Datatypes.S f).
      destruct (s0_oflag _ _ S o Ho) as [a b]. fold f in b.
      rewrite (Wold o) by lia. split; auto.
  - (* producer links *)
    intros L w HL HgL C q Hq. destruct (Nat.eq_dec w f) as [->|Hw]; [rewrite Wf in Hq; discriminate|].
    rewrite (Wold w Hw) in Hq. destruct (C q Hq) as [Hqo D]. split; auto.
    assert (Wn0 : wnum (gw G' f) = 0) by (now rewrite Wf).
    destruct (Nat.eq_dec q g) as [->|Hqg].
    + right. left. now rewrite Og.
    + destruct (Nat.eq_dec q p) as [->|Hqp].
      * right. right. intros h Hh Hin. rewrite Inp in Hin.
        destruct D as [D|[D|D]].
        -- rewrite HOp in D. subst w.
           assert (Hhg : h <> g) by (intros ->; now apply HgL).
           apply (Only h (HL h Hh) Hhg Hin).
        -- rewrite HOp in D. lia.
        -- apply (D h Hh Hin).
      * rewrite (Oth q Hqg Hqp).
        assert (nO (gn G q) <> f).
        { pose proof (proj1 (s0_rng _ _ S q Hqo)). fold f in H. lia. }
        rewrite (Wold _ H). destruct D as [D|[D|D]]; auto.
        right. right. intros h Hh Hin. rewrite Inp in Hin. apply (D h Hh Hin).
Qed.

Lemma clp_weaken L L' G w : (forall h, In h L' -> In h L) -> clp L G w -> clp L' G w.
Proof.
  intros H C p Hp. destruct (C p Hp) as [a [d|[d|d]]]; (split; [exact a|]); auto;
    try (right; right; intros h Hh; apply d; now apply H).
Qed.

Definition same_io_nodes (G G' : graph) : Prop :=
  forall i, nop (gn G' i) = nop (gn G i) /\ nA (gn G' i) = nA (gn G i) /\
            nB (gn G' i) = nB (gn G i) /\ ndead (gn G' i) = ndead (gn G i).

Lemma scx_try_XI rank G g zin oin :
  BK G -> ST0 rank G -> In g (gorder G) -> In oin (inputs_of (gn G g)) ->
  link_ok G zin oin -> (forall p, winp (gw G oin) = Some p -> In p (gorder G)) ->
  let G' := scx_try G g zin oin in
  exists rank', BK G' /\ ST0 rank' G' /\
    (forall L w, (forall h, In h L -> In h (gorder G)) -> (w = oin -> ~ In g L) ->
                 clp L G w -> clp L G' w) /\
    gorder G' = gorder G /\ same_io_nodes G G' /\
    (forall w, w < gnw G -> gw G' w = gw G w) /\
    (G' = G \/ slots (gn G g) oin = 1) /\ (TV G -> TV G').
Proof.
  intros B S Hg Hoin LK Hpo. simpl. unfold scx_try.
  assert (Triv : exists rank', BK G /\ ST0 rank' G /\
    (forall L w, (forall h, In h L -> In h (gorder G)) -> (w = oin -> ~ In g L) ->
                 clp L G w -> clp L G w) /\
    gorder G = gorder G /\ same_io_nodes G G /\
    (forall w, w < gnw G -> gw G w = gw G w) /\ (G = G \/ slots (gn G g) oin = 1) /\
    (TV G -> TV G)).
  { exists rank. split; [exact B|]. split; [exact S|]. split; [auto|]. split; [auto|].
    split; [intros i; auto|]. split; auto. }
  destruct (isZ (wv (gw G zin))) eqn:EZ; auto.
  destruct (winp (gw G oin)) as [p|] eqn:EP; auto.
  destruct (Nat.eqb_spec (wnum (gw G (nO (gn G p)))) 1) as [E1|E1]; auto.
  clear Triv. pose proof (LK p EZ EP E1) as Hlink. rewrite Hlink in E1.
  destruct (scx_fire rank G g oin p B S Hg Hoin (Hpo p eq_refl) Hlink E1)
    as (B' & S' & T' & O' & Sh' & W' & TV').
  exists (rank_ext rank (gnw G) (rank (nO (gn G g)))).
  split; [exact B'|]. split; [exact S'|]. split; [exact T'|]. split; [exact O'|].
  split; [exact Sh'|]. split; [exact W'|]. split; [|exact TV']. right.
  (* g holds exactly one slot on oin *)
  assert (H1 : 0 < slots (gn G g) oin) by (now apply slots_inputs).
  pose proof (bk_cnt _ B oin) as U. rewrite E1 in U.
  pose proof (sum_pos_in (gorder G) (fun i => lslots G i oin) g Hg) as P. simpl in P.
  unfold uses in U.
  assert (E : lslots G g oin = slots (gn G g) oin) by (unfold lslots; now rewrite (s0_nodead _ _ S g Hg)).
  lia.
Qed.

Lemma sio_inputs G G' i : same_io_nodes G G' -> inputs_of (gn G' i) = inputs_of (gn G i).
Proof. intros H. destruct (H i) as (a & b & c & _). unfold inputs_of. now rewrite a, b, c. Qed.

Lemma link_from_clp L G g zin oin :
  In g L -> In oin (inputs_of (gn G g)) -> clp L G oin -> link_ok G zin oin.
Proof.
  intros Hg Hin C p _ Hp Hn. destruct (C p Hp) as [_ [d|[d|d]]]; auto; [lia|].
  exfalso. apply (d g Hg Hin).
Qed.

Lemma scx_fold_XI l : forall G rank,
  NoDup l -> (forall h, In h l -> In h (gorder G)) ->
  BK G -> ST0 rank G -> (forall w, clp l G w) ->
  links_exact G l /\
  exists rank', BK (fold_left scx_step l G) /\ ST0 rank' (fold_left scx_step l G) /\
                gorder (fold_left scx_step l G) = gorder G /\
                (TV G -> TV (fold_left scx_step l G)).
Proof.
  induction l as [|g l IH]; intros G rank ND Hl B S C; simpl.
  - split; auto. exists rank. auto.
  - inversion ND as [|? ? Hgl ND']; subst.
    assert (Hg : In g (gorder G)) by (apply Hl; now left).
    assert (Hl' : forall h, In h l -> In h (gorder G)) by (intros h Hh; apply Hl; now right).
    assert (Cl' : forall G0, (forall w, clp (g :: l) G0 w) -> forall w, clp l G0 w).
    { intros G0 H w. apply (clp_weaken (g :: l)); auto. intros h Hh. now right. }
    destruct (is_xor (nop (gn G g))) eqn:EX.
    + assert (Hop : is_inv (nop (gn G g)) = false) by (destruct (nop (gn G g)); simpl in *; congruence).
      set (A := nA (gn G g)) in *. set (Bw := nB (gn G g)) in *.
      assert (HA : In A (inputs_of (gn G g))) by (unfold inputs_of; rewrite Hop; now left).
      assert (HB : In Bw (inputs_of (gn G g))) by (unfold inputs_of; rewrite Hop; right; now left).
      assert (K1 : link_ok G A Bw) by (apply (link_from_clp (g :: l) G g); auto; now left).
      destruct (scx_try_XI rank G g A Bw B S Hg HB K1) as (r1 & B1 & S1 & T1 & O1 & Sh1 & W1 & F1 & V1).
      { intros p Hp. apply (C Bw p Hp). }
      set (G1 := scx_try G g A Bw) in *.
      destruct (Sh1 g) as (s1 & s2 & s3 & s4). fold A in s2. fold Bw in s3.
      assert (Hg1 : In g (gorder G1)) by (now rewrite O1).
      assert (HA1 : In A (inputs_of (gn G1 g))) by (now rewrite (sio_inputs G G1 g Sh1)).
      assert (CA1 : clp (g :: l) G1 A).
      { destruct F1 as [E|E].
        - rewrite E. apply C.
        - apply T1; auto. intros EAB. exfalso.
          unfold slots, slotA, slotB in E. rewrite Hop in E. fold A in E. fold Bw in E.
          rewrite EAB, Nat.eqb_refl in E. simpl in E. lia. }
      assert (K2 : link_ok G1 Bw A) by (apply (link_from_clp (g :: l) G1 g); auto; now left).
      destruct (scx_try_XI r1 G1 g Bw A B1 S1 Hg1 HA1 K2) as (r2 & B2 & S2 & T2 & O2 & Sh2 & W2 & F2 & V2).
      { intros p Hp. apply (CA1 p Hp). }
      set (G2 := scx_try G1 g Bw A) in *.
      assert (E : scx_step G g = G2).
      { unfold scx_step. rewrite EX. fold A. fold Bw. fold G1. now rewrite s2, s3. }
      rewrite E.
      destruct (IH G2 r2 ND') as (LE & r3 & B3 & S3 & O3 & V3); auto.
      * intros h Hh. rewrite O2, O1. now apply Hl'.
      * intros w. apply T2; [intros h Hh; rewrite O1; now apply Hl'|intros _; exact Hgl|].
        apply T1; [exact Hl'|intros _; exact Hgl|]. apply Cl'. exact C.
      * split; [split; [intros _; split; auto|exact LE]|].
        exists r3. split; auto. split; auto. split; [now rewrite O3, O2, O1|auto].
    + assert (E : scx_step G g = G) by (unfold scx_step; now rewrite EX). rewrite E.
      destruct (IH G rank ND' Hl' B S (Cl' G C)) as (LE & r3 & B3 & S3 & O3 & V3).
      split; [split; [intros H; discriminate|exact LE]|]. exists r3. auto.
Qed.

(* ---- the freshly built graph satisfies the invariant ----------------- *)

(* the rest of the builder's bookkeeping: exact-enough lists and counters,
   producer links and ranges (the acyclicity witness is derived from the
   construction order, [fresh_rank]) *)
Record wfx (G : graph) : Prop := {
  x_nodup : NoDup (gorder G);
  x_lists : forall c w, In c (gorder G) ->
            slots (gn G c) w <= count_occ Nat.eq_dec (wouts (gw G w)) c;
  x_cnt : forall w, uses G w <= wnum (gw G w);
  x_winp1 : forall h, In h (gorder G) -> winp (gw G (nO (gn G h))) = Some h;
  x_winp2 : forall w p, winp (gw G w) = Some p -> In p (gorder G) /\ nO (gn G p) = w;
  x_rng : forall c, In c (gorder G) ->
          nO (gn G c) < gnw G /\ forall w, In w (inputs_of (gn G c)) -> w < gnw G;
  x_rng_in : forall w, In w (gins G) -> w < gnw G;
  x_rng_out : forall o, In o (gouts G) -> o < gnw G;
  x_const : forall k, isconst G k -> wout (gw G k) = false /\ k < gnw G }.

(* ---- an acyclicity witness from the construction order --------------- *)

(* index of the first gate of l that writes w *)
Fixpoint first_prod (G : graph) (l : list nat) (w : nat) : option nat :=
  match l with
  | [] => None
  | g :: t => if Nat.eqb (nO (gn G g)) w then Some 0 else option_map S (first_prod G t w)
  end.

Definition base_rank (G : graph) (w : nat) : nat :=
  match first_prod G (gorder G) w with Some i => S i | None => 0 end.

Lemma first_prod_none G l w :
  (forall g, In g l -> nO (gn G g) <> w) -> first_prod G l w = None.
Proof.
  induction l as [|a l IH]; simpl; intros H; auto.
  destruct (Nat.eqb_spec (nO (gn G a)) w) as [E|E]; [exfalso; apply (H a); auto|].
  rewrite IH; auto.
Qed.

Lemma first_prod_here G l1 c l2 :
  (forall p, In p l1 -> nO (gn G p) <> nO (gn G c)) ->
  first_prod G (l1 ++ c :: l2) (nO (gn G c)) = Some (length l1).
Proof.
  induction l1 as [|a l1 IH]; simpl; intros H.
  - now rewrite Nat.eqb_refl.
  - destruct (Nat.eqb_spec (nO (gn G a)) (nO (gn G c))) as [E|E]; [exfalso; apply (H a); auto|].
    rewrite IH; auto.
Qed.

Lemma first_prod_before G l1 l2 p w :
  In p l1 -> nO (gn G p) = w ->
  exists i, first_prod G (l1 ++ l2) w = Some i /\ i < length l1.
Proof.
  induction l1 as [|a l1 IH]; simpl; intros Hp E; [destruct Hp|].
  destruct (Nat.eqb_spec (nO (gn G a)) w) as [Ea|Ea].
  - exists 0. split; auto. lia.
  - destruct Hp as [->|Hp]; [contradiction|].
    destruct (IH Hp E) as (i & Hi & Hlt). exists (S i). rewrite Hi. simpl. split; auto. lia.
Qed.

(* the position-based rank decreases along every gate of a graph built in
   dependency order *)
Lemma base_rank_edge0 G : wfg0 G ->
  forall c, In c (gorder G) -> forall w, In w (inputs_of (gn G c)) ->
  base_rank G w < base_rank G (nO (gn G c)).
Proof.
  intros WF c Hc w Hw. destruct (in_split _ _ Hc) as (l1 & l2 & E).
  destruct (w0_topo _ WF l1 c l2 E) as (Tin & Tnot & Tdist).
  unfold base_rank. rewrite E. rewrite (first_prod_here G l1 c l2 Tdist).
  destruct (Tin w Hw) as [Hi|(p & Hp & Ep)].
  - rewrite first_prod_none; [lia|]. intros g Hg Eg. rewrite <- E in Hg.
    destruct (in_split _ _ Hg) as (a & b & E').
    destruct (w0_topo _ WF a g b E') as (_ & N & _). apply N. now rewrite Eg.
  - destruct (first_prod_before G l1 (c :: l2) p w Hp Ep) as (i & Hi & Hlt). rewrite Hi. lia.
Qed.

Lemma base_rank_edge G : wfg G ->
  forall c, In c (gorder G) -> forall w, In w (inputs_of (gn G c)) ->
  base_rank G w < base_rank G (nO (gn G c)).
Proof. intros WF. apply base_rank_edge0. now apply wfg_wfg0. Qed.

(* both constant wires are put at the lower of their two positions *)
Definition fresh_rank (G : graph) (z o : nat) : nat -> nat :=
  fun w => if Nat.eqb w z || Nat.eqb w o
           then Nat.min (base_rank G z) (base_rank G o) else base_rank G w.

Lemma fresh_rank_ok G : wfg G ->
  exists rank,
    (forall c, In c (gorder G) -> forall w, In w (inputs_of (gn G c)) -> rank w < rank (nO (gn G c))) /\
    (forall k k', isconst G k -> isconst G k' -> rank k = rank k').
Proof.
  intros WF.
  destruct (wf_consts _ WF) as (z & o & iw & gz & go & gi & Hz & Ho & Vz & Vo & Hall &
                                Li & Oi & Ai & Wi & Lz & Oz & Az & Bz & Wz & Lo & Oo & Ao & Bo & Wo).
  exists (fresh_rank G z o).
  pose proof (base_rank_edge G WF) as BE.
  assert (Le : forall w, fresh_rank G z o w <= base_rank G w).
  { intros w. unfold fresh_rank.
    destruct (Nat.eqb_spec w z) as [->|Nz]; simpl; [lia|].
    destruct (Nat.eqb_spec w o) as [->|No]; simpl; lia. }
  assert (InZ : forall w, In w (inputs_of (gn G gz)) -> base_rank G w < base_rank G z).
  { intros w Hw. rewrite <- Wz. apply BE; auto. apply Lz. }
  assert (InO : forall w, In w (inputs_of (gn G go)) -> base_rank G w < base_rank G o).
  { intros w Hw. rewrite <- Wo. apply BE; auto. apply Lo. }
  assert (Same : inputs_of (gn G gz) = inputs_of (gn G go)).
  { unfold inputs_of. rewrite Oz, Oo, Az, Ao, Bz, Bo. reflexivity. }
  split.
  - intros c Hc w Hw. pose proof (BE c Hc w Hw) as E. pose proof (Le w) as L.
    unfold fresh_rank at 2.
    destruct (Nat.eqb_spec (nO (gn G c)) z) as [Ez|Nz]; simpl.
    + (* c writes the zero wire: c = gz *)
      assert (c = gz).
      { destruct (Nat.eq_dec c gz) as [|Hne]; auto. exfalso.
        assert (CW : forall g1 g2, In g1 (gorder G) -> In g2 (gorder G) ->
                       nO (gn G g1) = nO (gn G g2) -> g1 = g2).
        { intros g1 g2 H1 H2 E12. destruct (Nat.eq_dec g1 g2) as [|Hn]; auto. exfalso.
          destruct (in_split _ _ H1) as (l1 & l2 & E1).
          rewrite E1 in H2. apply in_app_or in H2. destruct H2 as [H2|[H2|H2]].
          - destruct (wf_topo _ WF l1 g1 l2 E1) as (_ & _ & D). apply (D g2 H2). now symmetry.
          - congruence.
          - destruct (in_split _ _ H2) as (a & b & E2).
            assert (Hs : gorder G = (l1 ++ g1 :: a) ++ g2 :: b).
            { rewrite E1, E2, <- app_assoc. reflexivity. }
            destruct (wf_topo _ WF _ _ _ Hs) as (_ & _ & D). apply (D g1); auto.
            apply in_or_app. right. now left. }
        apply Hne. apply CW; auto; [apply Lz|congruence]. }
      subst c. pose proof (InZ w Hw). rewrite Same in Hw. pose proof (InO w Hw). lia.
    + destruct (Nat.eqb_spec (nO (gn G c)) o) as [Eo|No]; simpl; [|lia].
      assert (c = go).
      { destruct (Nat.eq_dec c go) as [|Hne]; auto. exfalso.
        assert (CW : forall g1 g2, In g1 (gorder G) -> In g2 (gorder G) ->
                       nO (gn G g1) = nO (gn G g2) -> g1 = g2).
        { intros g1 g2 H1 H2 E12. destruct (Nat.eq_dec g1 g2) as [|Hn]; auto. exfalso.
          destruct (in_split _ _ H1) as (l1 & l2 & E1).
          rewrite E1 in H2. apply in_app_or in H2. destruct H2 as [H2|[H2|H2]].
          - destruct (wf_topo _ WF l1 g1 l2 E1) as (_ & _ & D). apply (D g2 H2). now symmetry.
          - congruence.
          - destruct (in_split _ _ H2) as (a & b & E2).
            assert (Hs : gorder G = (l1 ++ g1 :: a) ++ g2 :: b).
            { rewrite E1, E2, <- app_assoc. reflexivity. }
            destruct (wf_topo _ WF _ _ _ Hs) as (_ & _ & D). apply (D g1); auto.
            apply in_or_app. right. now left. }
        apply Hne. apply CW; auto; [apply Lo|congruence]. }
      subst c. pose proof (InO w Hw). rewrite <- Same in Hw. pose proof (InZ w Hw). lia.
  - intros k k' [Hk|Hk] [Hk'|Hk']; rewrite ?Hz, ?Ho in *; inversion Hk; inversion Hk'; subst;
      unfold fresh_rank; rewrite ?Nat.eqb_refl, ?orb_true_r; simpl; reflexivity.
Qed.

Lemma fresh_SI G : wfg G -> wfb G -> wfx G -> exists rank, SI rank G.
Proof.
  intros WF FB X. destruct (fresh_rank_ok G WF) as (rank & R1 & R2). exists rank.
  pose proof (fresh_cwf G WF FB) as CW.
  assert (LV : forall c, In c (gorder G) -> live G c).
  { intros c Hc. split; auto. now apply (wf_nodead _ WF). }
  destruct (wf_consts _ WF) as (z & o & iw & gz & go & gi & Hz & Ho & Vz & Vo & Hall & _ & _ & _ & _ &
                                Lz & _ & _ & _ & Wz & Lo & _ & _ & _ & Wo).
  assert (AllAv : forall g, In g (gorder G) -> avail G (nO (gn G g))).
  { intros g Hg. apply (wfg_avail G WF (gorder G) []); auto. now rewrite app_nil_r. }
  split.
  - constructor.
    + apply (x_nodup _ X).
    + apply (fb_range _ FB).
    + intros c w Hc. unfold lslots. rewrite (wf_nodead _ WF c Hc). now apply (x_lists _ X).
    + apply (x_cnt _ X).
    + intros w c Hc _. eapply (fb_entries _ FB); eauto.
  - constructor.
    + apply (wf_nodead _ WF).
    + apply (fb_noconsume _ FB).
    + intros c Hc. apply (c_prod _ CW c (LV c Hc)).
    + intros c1 c2 H1 H2. apply (c_uniq _ CW); auto.
    + exact R1.
    + intros w k Hv Hk. destruct (Hall w Hv) as [-> | ->].
      * rewrite (R2 k z Hk); auto. now left.
      * rewrite (R2 k o Hk); auto. now right.
    + intros k Hk. destruct (x_const _ X k Hk) as [a b]. split; [|auto].
      destruct Hk as [Hk|Hk].
      * rewrite Hz in Hk. inversion Hk; subst k. rewrite <- Wz. apply AllAv. apply Lz.
      * rewrite Ho in Hk. inversion Hk; subst k. rewrite <- Wo. apply AllAv. apply Lo.
    + apply (c_avail _ CW).
    + apply (x_rng _ X).
    + apply (x_rng_in _ X).
    + apply (x_winp1 _ X).
    + apply (x_winp2 _ X).
    + apply (fb_entries _ FB).
    + intros o0 Ho0. split; [now apply (fb_outs_flag _ FB)|now apply (x_rng_out _ X)].
Qed.

(* ShortCircuitXORZero fires through exact producer links after
   ConstPropagate, on every freshly built graph *)
Theorem links_exact_derived G :
  wfg G -> wfb G -> wfx G ->
  links_exact (const_propagate G) (gorder (const_propagate G)).
Proof.
  intros WF FB X. destruct (fresh_SI G WF FB X) as (rank & SIG).
  pose proof (geval_sat G WF []) as I0.
  destruct (const_propagate_SI rank [] _ G SIG I0) as ((B1 & S1) & F1).
  set (G1 := const_propagate G) in *.
  destruct (scx_fold_XI (gorder G1) G1 rank) as (LE & _); auto.
  - apply (bk_nodup _ B1).
  - now apply ST_ST0.
  - intros w p Hp. destruct (st_winp2 _ _ S1 w p Hp) as [a b]. split; auto.
Qed.

(* ... and the graph after both rewriting passes still satisfies the
   bookkeeping and structural invariants *)
Theorem rewriting_invariant G :
  wfg G -> wfb G -> wfx G ->
  let G2 := short_circuit_xor_zero (const_propagate G) in
  BK G2 /\ exists rank, ST0 rank G2.
Proof.
  intros WF FB X. destruct (fresh_SI G WF FB X) as (rank & SIG).
  pose proof (geval_sat G WF []) as I0.
  destruct (const_propagate_SI rank [] _ G SIG I0) as ((B1 & S1) & F1).
  set (G1 := const_propagate G) in *.
  destruct (scx_fold_XI (gorder G1) G1 rank) as (_ & r & B2 & S2 & _); auto.
  - apply (bk_nodup _ B1).
  - now apply ST_ST0.
  - intros w p Hp. destruct (st_winp2 _ _ S1 w p Hp) as [a b]. split; auto.
  - split; auto. exists r. exact S2.
Qed.

Lemma wfx_ranged G : wfg G -> wfx G -> ranged G.
Proof.
  intros WF X. split; [|split; [|split]].
  - intros gid [Hg _]. apply (x_rng _ X gid Hg).
  - apply (x_rng_in _ X).
  - intros z Hz. apply (x_const _ X). now left.
  - intros o Ho. apply (x_const _ X). now right.
Qed.

(* ShortCircuitXORZero after ConstPropagate on every freshly built graph:
   the meaning of every existing wire is kept — no further hypothesis *)
Theorem short_circuit_sat_wf G x :
  wfg G -> wfb G -> wfx G ->
  let G1 := const_propagate G in
  exists v', Inv x v' (short_circuit_xor_zero G1) /\
             forall w, w < gnw G1 -> v' w = geval G x w.
Proof.
  intros WF FB X G1.
  pose proof (geval_sat G WF x) as I0.
  destruct (const_propagate_sat x _ G (wf_nodead _ WF) I0) as [I1 S1]. fold G1 in I1, S1.
  apply short_circuit_xor_zero_sat; auto.
  - intros gid Hin. destruct S1 as [So Sd]. rewrite Sd. apply (wf_nodead _ WF). now rewrite <- So.
  - apply const_propagate_ranged; auto. now apply wfx_ranged.
  - now apply links_exact_derived.
Qed.

(* the pipeline of CompileCircuit on every freshly built graph: the only
   hypothesis left beyond the well-formedness of the initial graph is that the
   optimised graph satisfies Compile's precondition *)
Theorem pipeline_correct_wf (do_prune : bool) t G x :
  wfg G -> wfb G -> wfx G -> length x = length (gins G) ->
  cwf (optimize do_prune G) ->
  eval_plain (pipeline do_prune t G) x = graph_eval G x.
Proof.
  intros WF FB X Hx CW. apply pipeline_correct_final; auto.
  - now apply wfx_ranged.
  - apply (x_rng_out _ X).
  - now apply links_exact_derived.
Qed.

(* Gate.ShortCircuit moves EVERY consumer slot of the bypassed wire, in
   particular both inputs of a consumer op(w, w): such a gate is listed twice
   in w's output gates (Allocator.BinaryGate calls AddOutput for a and for b)
   and ForEachOutput calls Gate.ReplaceInput once per entry (A first, then B). *)
Theorem short_circuit_moves_every_slot rank G g o :
  SI rank G -> In g (gorder G) -> In o (inputs_of (gn G g)) ->
  wout (gw G (nO (gn G g))) = false ->
  forall c, In c (gorder G) -> lslots (short_circuit G g o) c (nO (gn G g)) = 0.
Proof.
  intros [B S] Hg Ho Hf c Hc. unfold short_circuit. rewrite Hf.
  destruct (sc_fold rank g (nO (gn G g)) o (wouts (gw G (nO (gn G g)))) G (conj B S) Hg eq_refl Ho)
    as (_ & _ & _ & _ & Z').
  - intros c' Hc'. now apply (bk_lists _ B).
  - intros c' Hc'. eapply (st_entries _ _ S); eauto.
  - rewrite <- (Z' c Hc). apply lslots_ext. reflexivity.
Qed.
