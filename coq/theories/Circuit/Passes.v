(* Passes.v — executable model of the functional gate graph of
   compiler/circuits (gates.go, wire.go, allocator.go) and of the passes of
   compiler/circuits/compiler.go: ConstPropagate, ShortCircuitXORZero, Prune,
   Compile (with the GMW level sort), driven as ssa/circuitgen.go
   CompileCircuit drives them; and of circuit.AssignLevels (circuit/circuit.go).
   No proofs here (PassesProof.v).

   Pointers become indices: a wire is a [nat] into [gw], a gate a [nat] into
   [gn]; pointer equality is [Nat.eqb].  Maps are total functions with a size
   counter, so every mutation is a point update.  A Go panic is the sticky
   error code [gerr] (0 = no panic). *)
From Coq Require Import List Bool Arith Lia.
From Mpc Require Import Circuit.Circuit.
Import ListNotations.

(* wire.go: WireValue *)
Inductive wval := Unknown | Zero | One.

Definition wval_eqb (a b : wval) : bool :=
  match a, b with
  | Unknown, Unknown | Zero, Zero | One, One => true
  | _, _ => false
  end.

(* wire.go: Wire.  ovnum = (output flag, value, NumOutputs counter);
   gates[0] = [winp] (the "input gate", only ever written by SetInput),
   gates[1:] = [wouts] (append-only list of output gates: RemoveOutput
   decrements the counter and leaves the entry in place);
   id = [wid] (None = UnassignedID). *)
Record wire := mkW {
  wv : wval; wout : bool; wnum : nat;
  winp : option nat; wouts : list nat; wid : option nat }.

(* Allocator.Wire: Reset(UnassignedID) *)
Definition blank_wire : wire := mkW Unknown false 0 None [] None.

(* gates.go: Gate.  For INV gates B is nil in Go; here [nB] is unused (0)
   and "g.B != nil" is [negb (is_inv (nop g))]. *)
Record node := mkN {
  nop : op; nA : nat; nB : nat; nO : nat;
  ndead : bool; nvis : bool; nlevel : nat }.

Definition is_inv (o : op) : bool := match o with INV => true | _ => false end.
Definition is_and (o : op) : bool := match o with AND => true | _ => false end.
Definition is_xor (o : op) : bool := match o with XOR => true | _ => false end.

(* compiler.go: Compiler (the fields the passes use) *)
Record graph := mkG {
  gw : nat -> wire; gnw : nat;          (* all wires ever allocated *)
  gn : nat -> node; gnn : nat;          (* all gates ever allocated *)
  gorder : list nat;                    (* cc.Gates *)
  gins : list nat; gouts : list nat;    (* cc.InputWires, cc.OutputWires *)
  ginv : option nat; gzero : option nat; gone : option nat;
  gerr : nat }.

Definition fupd {A} (f : nat -> A) (i : nat) (v : A) : nat -> A :=
  fun j => if Nat.eqb j i then v else f j.

Definition set_w (G : graph) (i : nat) (w : wire) : graph :=
  mkG (fupd (gw G) i w) (gnw G) (gn G) (gnn G) (gorder G) (gins G) (gouts G)
      (ginv G) (gzero G) (gone G) (gerr G).
Definition set_n (G : graph) (i : nat) (n : node) : graph :=
  mkG (gw G) (gnw G) (fupd (gn G) i n) (gnn G) (gorder G) (gins G) (gouts G)
      (ginv G) (gzero G) (gone G) (gerr G).
Definition set_err (G : graph) (e : nat) : graph :=
  mkG (gw G) (gnw G) (gn G) (gnn G) (gorder G) (gins G) (gouts G)
      (ginv G) (gzero G) (gone G) (if Nat.eqb (gerr G) 0 then e else gerr G).
Definition set_order (G : graph) (o : list nat) : graph :=
  mkG (gw G) (gnw G) (gn G) (gnn G) o (gins G) (gouts G)
      (ginv G) (gzero G) (gone G) (gerr G).
Definition set_consts (G : graph) (i z o : option nat) : graph :=
  mkG (gw G) (gnw G) (gn G) (gnn G) (gorder G) (gins G) (gouts G) i z o (gerr G).

(* ---- wire.go ------------------------------------------------------- *)

Definition w_set_value (w : wire) (v : wval) : wire :=
  mkW v (wout w) (wnum w) (winp w) (wouts w) (wid w).
Definition w_set_num (w : wire) (n : nat) : wire :=
  mkW (wv w) (wout w) n (winp w) (wouts w) (wid w).
Definition w_set_id (w : wire) (i : option nat) : wire :=
  mkW (wv w) (wout w) (wnum w) (winp w) (wouts w) i.

(* Wire.SetValue *)
Definition set_value (G : graph) (w : nat) (v : wval) : graph :=
  set_w G w (w_set_value (gw G w) v).

(* Wire.AddOutput: append to gates, NumOutputs+1 *)
Definition add_output (G : graph) (w gid : nat) : graph :=
  let r := gw G w in
  set_w G w (mkW (wv r) (wout r) (S (wnum r)) (winp r) (wouts r ++ [gid]) (wid r)).

(* Wire.RemoveOutput: NumOutputs-1, the list is untouched.  0-1 wraps to
   0xFFFFFFFF > numMask and SetNumOutputs panics: error 1. *)
Definition remove_output (G : graph) (w : nat) : graph :=
  let r := gw G w in
  match wnum r with
  | O => set_err G 1
  | S k => set_w G w (w_set_num r k)
  end.

(* Wire.DisconnectOutputs *)
Definition disconnect_outputs (G : graph) (w : nat) : graph :=
  let r := gw G w in
  set_w G w (mkW (wv r) (wout r) 0 (winp r) [] (wid r)).

(* Wire.SetInput(gate), gate != nil: panics when gates[0] is set: error 2 *)
Definition set_input (G : graph) (w gid : nat) : graph :=
  let r := gw G w in
  match winp r with
  | None => set_w G w (mkW (wv r) (wout r) (wnum r) (Some gid) (wouts r) (wid r))
  | Some _ => set_err G 2
  end.

(* ---- allocator.go -------------------------------------------------- *)

(* Allocator.Wire *)
Definition new_wire (G : graph) : graph * nat :=
  (mkG (fupd (gw G) (gnw G) blank_wire) (S (gnw G)) (gn G) (gnn G) (gorder G)
       (gins G) (gouts G) (ginv G) (gzero G) (gone G) (gerr G), gnw G).

Definition alloc_node (G : graph) (n : node) : graph * nat :=
  (mkG (gw G) (gnw G) (fupd (gn G) (gnn G) n) (S (gnn G)) (gorder G)
       (gins G) (gouts G) (ginv G) (gzero G) (gone G) (gerr G), gnn G).

(* Allocator.BinaryGate followed by Compiler.AddGate *)
Definition add_binary_gate (G : graph) (o : op) (a b out : nat) : graph :=
  let '(G1, gid) := alloc_node G (mkN o a b out false false 0) in
  let G2 := add_output G1 a gid in
  let G3 := add_output G2 b gid in
  let G4 := set_input G3 out gid in
  set_order G4 (gorder G4 ++ [gid]).

(* Allocator.INVGate followed by Compiler.AddGate *)
Definition add_inv_gate (G : graph) (a out : nat) : graph :=
  let '(G1, gid) := alloc_node G (mkN INV a 0 out false false 0) in
  let G2 := add_output G1 a gid in
  let G3 := set_input G2 out gid in
  set_order G3 (gorder G3 ++ [gid]).

(* ---- compiler.go: InvI0Wire / ZeroWire / OneWire ------------------- *)

Definition input0 (G : graph) : nat := hd 0 (gins G).

Definition inv_i0_wire (G : graph) : graph * nat :=
  match ginv G with
  | Some w => (G, w)
  | None =>
      let '(G1, w) := new_wire G in
      let G2 := set_consts G1 (Some w) (gzero G1) (gone G1) in
      (add_inv_gate G2 (input0 G2) w, w)
  end.

(* cc.zeroWire is allocated first, then the argument cc.InvI0Wire() is
   evaluated, then the AND gate is created and added, then SetValue(Zero) *)
Definition zero_wire (G : graph) : graph * nat :=
  match gzero G with
  | Some w => (G, w)
  | None =>
      let '(G1, z) := new_wire G in
      let G2 := set_consts G1 (ginv G1) (Some z) (gone G1) in
      let '(G3, i) := inv_i0_wire G2 in
      let G4 := add_binary_gate G3 AND (input0 G3) i z in
      (set_value G4 z Zero, z)
  end.

Definition one_wire (G : graph) : graph * nat :=
  match gone G with
  | Some w => (G, w)
  | None =>
      let '(G1, o) := new_wire G in
      let G2 := set_consts G1 (ginv G1) (gzero G1) (Some o) in
      let '(G3, i) := inv_i0_wire G2 in
      let G4 := add_binary_gate G3 XOR (input0 G3) i o in
      (set_value G4 o One, o)
  end.

(* ---- gates.go ------------------------------------------------------ *)

Definition n_set_A (n : node) (a : nat) : node :=
  mkN (nop n) a (nB n) (nO n) (ndead n) (nvis n) (nlevel n).
Definition n_set_B (n : node) (b : nat) : node :=
  mkN (nop n) (nA n) b (nO n) (ndead n) (nvis n) (nlevel n).
Definition n_set_O (n : node) (o : nat) : node :=
  mkN (nop n) (nA n) (nB n) o (ndead n) (nvis n) (nlevel n).
Definition n_set_dead (n : node) : node :=
  mkN (nop n) (nA n) (nB n) (nO n) true (nvis n) (nlevel n).
Definition n_visit (n : node) (l : nat) : node :=
  mkN (nop n) (nA n) (nB n) (nO n) (ndead n) true l.

(* Gate.ReplaceInput(from, to); the final else panics: error 3 *)
Definition replace_input (G : graph) (gid from to : nat) : graph :=
  let g := gn G gid in
  if Nat.eqb (nA g) from then
    let G1 := remove_output G from in
    let G2 := add_output G1 to gid in
    set_n G2 gid (n_set_A (gn G2 gid) to)
  else if negb (is_inv (nop g)) && Nat.eqb (nB g) from then
    let G1 := remove_output G from in
    let G2 := add_output G1 to gid in
    set_n G2 gid (n_set_B (gn G2 gid) to)
  else set_err G 3.

(* Gate.ShortCircuit(o): the range runs over the slice gates[1:] as it is
   when the loop starts *)
Definition short_circuit (G : graph) (gid o : nat) : graph :=
  let out := nO (gn G gid) in
  if wout (gw G out) then G
  else
    let G1 := fold_left (fun G c => replace_input G c out o) (wouts (gw G out)) G in
    disconnect_outputs G1 out.

(* ---- compiler.go: ConstPropagate ----------------------------------- *)

Inductive cp_act := ActNone | ActZero | ActOne | ActSCB | ActSCA.

Definition isZ (v : wval) := wval_eqb v Zero.
Definition isO (v : wval) := wval_eqb v One.

(* the switch over g.Op, branch by branch *)
Definition cp_action (o : op) (a b : wval) : cp_act :=
  match o with
  | XOR =>
      if (isZ a && isZ b) || (isO a && isO b) then ActZero
      else if (isZ a && isO b) || (isO a && isZ b) then ActOne
      else if isZ a then ActSCB
      else if isZ b then ActSCA
      else ActNone
  | XNOR =>
      if (isZ a && isZ b) || (isO a && isO b) then ActOne
      else if (isZ a && isO b) || (isO a && isZ b) then ActZero
      else ActNone
  | AND =>
      if isZ a || isZ b then ActZero
      else if isO a && isO b then ActOne
      else if isO a then ActSCB
      else if isO b then ActSCA
      else ActNone
  | OR =>
      if isO a || isO b then ActOne
      else if isZ a && isZ b then ActZero
      else if isZ a then ActSCB
      else if isZ b then ActSCA
      else ActNone
  | INV =>
      if isO a then ActZero
      else if isZ a then ActOne
      else ActNone
  end.

(* the "g.A.Value() == Zero { RemoveOutput; g.A = cc.ZeroWire(); AddOutput }"
   blocks after the switch *)
Definition cp_subst_A (G : graph) (gid : nat) : graph :=
  let a := nA (gn G gid) in
  match wv (gw G a) with
  | Zero =>
      let G1 := remove_output G a in
      let '(G2, z) := zero_wire G1 in
      let G3 := set_n G2 gid (n_set_A (gn G2 gid) z) in
      add_output G3 z gid
  | One =>
      let G1 := remove_output G a in
      let '(G2, z) := one_wire G1 in
      let G3 := set_n G2 gid (n_set_A (gn G2 gid) z) in
      add_output G3 z gid
  | Unknown => G
  end.

Definition cp_subst_B (G : graph) (gid : nat) : graph :=
  if is_inv (nop (gn G gid)) then G else
  let b := nB (gn G gid) in
  match wv (gw G b) with
  | Zero =>
      let G1 := remove_output G b in
      let '(G2, z) := zero_wire G1 in
      let G3 := set_n G2 gid (n_set_B (gn G2 gid) z) in
      add_output G3 z gid
  | One =>
      let G1 := remove_output G b in
      let '(G2, z) := one_wire G1 in
      let G3 := set_n G2 gid (n_set_B (gn G2 gid) z) in
      add_output G3 z gid
  | Unknown => G
  end.

Definition cp_step (G : graph) (gid : nat) : graph :=
  let g := gn G gid in
  let a := wv (gw G (nA g)) in
  let b := if is_inv (nop g) then Unknown else wv (gw G (nB g)) in
  let G1 :=
    match cp_action (nop g) a b with
    | ActNone => G
    | ActZero => set_value G (nO g) Zero
    | ActOne => set_value G (nO g) One
    | ActSCB => short_circuit G gid (nB g)
    | ActSCA => short_circuit G gid (nA g)
    end in
  cp_subst_B (cp_subst_A G1 gid) gid.

(* "for _, g := range cc.Gates": the range expression is evaluated once,
   gates appended by ZeroWire/OneWire during the loop are not visited *)
Definition const_propagate (G : graph) : graph :=
  fold_left cp_step (gorder G) G.

(* ---- compiler.go: ShortCircuitXORZero ------------------------------ *)

(* one of the two "if" blocks; [zin] is the input tested for Zero and [oin]
   the other one *)
Definition scx_try (G : graph) (gid : nat) (zin oin : nat) : graph :=
  if isZ (wv (gw G zin)) then
    match winp (gw G oin) with
    | None => G                                  (* IsInput() *)
    | Some p =>
        if Nat.eqb (wnum (gw G (nO (gn G p)))) 1 then
          (* p.ResetOutput(g.O); g.O = cc.Calloc.Wire() *)
          let G1 := set_n G p (n_set_O (gn G p) (nO (gn G gid))) in
          let '(G2, f) := new_wire G1 in
          set_n G2 gid (n_set_O (gn G2 gid) f)
        else G
    end
  else G.

Definition scx_step (G : graph) (gid : nat) : graph :=
  if is_xor (nop (gn G gid)) then
    let G1 := scx_try G gid (nA (gn G gid)) (nB (gn G gid)) in
    scx_try G1 gid (nB (gn G1 gid)) (nA (gn G1 gid))
  else G.

Definition short_circuit_xor_zero (G : graph) : graph :=
  fold_left scx_step (gorder G) G.

(* ---- gates.go Gate.Prune, compiler.go Prune ------------------------ *)

(* returns the new state and Gate.Prune()'s result *)
Definition gate_prune (G : graph) (gid : nat) : graph * bool :=
  let g := gn G gid in
  if ndead g || wout (gw G (nO g)) || negb (Nat.eqb (wnum (gw G (nO g))) 0)
  then (G, false)
  else
    let G1 := set_n G gid (n_set_dead g) in
    let G2 := if is_inv (nop g) then G1 else remove_output G1 (nB g) in
    (remove_output G2 (nA g), true).

(* backward sweep; the kept gates keep their relative order *)
Definition prune_sweep (G : graph) (rev_order : list nat) : graph * list nat :=
  fold_left (fun '(G, kept) gid =>
               let '(G1, p) := gate_prune G gid in
               (G1, if p then kept else gid :: kept))
            rev_order (G, []).

Definition prune (G : graph) : graph :=
  let '(G1, kept) := prune_sweep G (rev (gorder G)) in
  set_order G1 kept.

(* ---- compiler.go Compile, gates.go Visit/Assign/Compile,
        wire.go Wire.Assign ------------------------------------------- *)

Inductive target := Yao | GMW.      (* utils.TargetYao, utils.TargetGMW *)

Record cstate := mkC {
  cg : graph;
  cnext : nat;            (* cc.nextWireID *)
  cpend : list nat;       (* cc.pending *)
  casg : list nat }.      (* cc.assigned *)

Definition assigned (G : graph) (w : nat) : bool :=
  match wid (gw G w) with Some _ => true | None => false end.

(* Gate.Visit *)
Definition visit (level : nat) (st : cstate) (gid : nat) : cstate :=
  let G := cg st in
  let g := gn G gid in
  let ready := if is_inv (nop g) then assigned G (nA g)
               else assigned G (nA g) && assigned G (nB g) in
  if negb (ndead g) && negb (nvis g) && ready then
    mkC (set_n G gid (n_visit g level)) (cnext st) (cpend st ++ [gid]) (casg st)
  else st.

(* Wire.Assign *)
Definition wire_assign (st : cstate) (level w : nat) : cstate :=
  let G := cg st in
  if wout (gw G w) then st
  else
    let st1 := if assigned G w then st
              else mkC (set_w G w (w_set_id (gw G w) (Some (cnext st))))
                       (S (cnext st)) (cpend st) (casg st) in
    fold_left (visit level) (wouts (gw (cg st1) w)) st1.

(* Gate.Assign *)
Definition gate_assign (st : cstate) (gid : nat) : cstate :=
  let g := gn (cg st) gid in
  if ndead g then st
  else
    let st1 := wire_assign st (S (nlevel g)) (nO g) in
    mkC (cg st1) (cnext st1) (cpend st1) (casg st1 ++ [gid]).

(* "for len(cc.pending) > 0": every gate enters pending at most once (the
   Visited flag), so [fuel] = number of gates + 1 is enough; exhaustion is
   error 5 *)
Fixpoint drain (fuel : nat) (st : cstate) : cstate :=
  match cpend st with
  | [] => st
  | gid :: rest =>
      match fuel with
      | O => mkC (set_err (cg st) 5) (cnext st) (cpend st) (casg st)
      | S f =>
          drain f (gate_assign (mkC (cg st) (cnext st) rest (casg st)) gid)
      end
  end.

(* "Assign outputs": cc.OutputsAssigned is false in CompileCircuit, an
   already assigned output wire panics: error 4 *)
Definition assign_output (st : cstate) (w : nat) : cstate :=
  let G := cg st in
  if assigned G w then mkC (set_err G 4) (cnext st) (cpend st) (casg st)
  else mkC (set_w G w (w_set_id (gw G w) (Some (cnext st))))
           (S (cnext st)) (cpend st) (casg st).

(* the comparator handed to sort.SliceStable *)
Definition gmw_less (G : graph) (i j : nat) : bool :=
  let gi := gn G i in let gj := gn G j in
  if negb (Nat.eqb (nlevel gi) (nlevel gj)) then Nat.ltb (nlevel gi) (nlevel gj)
  else is_and (nop gi) && negb (is_and (nop gj)).

(* stable sort: insertion from the right; [x] goes before the first element
   that is not less than it *)
Fixpoint sinsert (less : nat -> nat -> bool) (x : nat) (l : list nat) : list nat :=
  match l with
  | [] => [x]
  | y :: t => if less y x then y :: sinsert less x t else x :: y :: t
  end.
Definition ssort (less : nat -> nat -> bool) (l : list nat) : list nat :=
  fold_right (sinsert less) [] l.

(* Wire.ID().  UnassignedID = MaxUint32 cannot be a Peano [nat]; an emitted
   gate that mentions an unassigned wire is reported by [emit_ok] instead
   (RunC09 turns it into an error value) and reads as 0 here. *)
Definition id_of (G : graph) (w : nat) : nat :=
  match wid (gw G w) with Some i => i | None => 0 end.

Definition emit_ok (G : graph) (gid : nat) : bool :=
  let g := gn G gid in
  ndead g || (assigned G (nA g) && assigned G (nO g) &&
              (is_inv (nop g) || assigned G (nB g))).

(* Gate.Compile (the Compiled flag only guards against duplicates in
   cc.assigned, which the Visited flag already excludes) *)
Definition emit (G : graph) (gid : nat) : list gate :=
  let g := gn G gid in
  if ndead g then []
  else if is_inv (nop g) then [mkGate (id_of G (nA g)) 0 (id_of G (nO g)) INV]
  else [mkGate (id_of G (nA g)) (id_of G (nB g)) (id_of G (nO g)) (nop g)].

Definition compile_assign (G : graph) : cstate :=
  let st0 := mkC G 0 [] [] in
  let st1 := fold_left (fun st w => wire_assign st 0 w) (gins G) st0 in
  let st2 := drain (S (gnn G)) st1 in
  fold_left assign_output (gouts G) st2.

Definition compile_order (t : target) (st : cstate) : list nat :=
  match t with
  | Yao => casg st
  | GMW => ssort (gmw_less (cg st)) (casg st)
  end.

Definition compile_state (t : target) (G : graph) : cstate * circuit :=
  let st := compile_assign G in
  (st, mkCircuit (cnext st) (length (gins G)) (length (gouts G))
                 (flat_map (emit (cg st)) (compile_order t st))).

Definition compile (t : target) (G : graph) : circuit := snd (compile_state t G).

(* ---- ssa/circuitgen.go CompileCircuit: the pass pipeline ----------- *)

Definition optimize (do_prune : bool) (G : graph) : graph :=
  let G1 := const_propagate G in
  let G2 := short_circuit_xor_zero G1 in
  if do_prune then prune G2 else G2.

Definition pipeline (do_prune : bool) (t : target) (G : graph) : circuit :=
  compile t (optimize do_prune G).

(* ---- circuit/circuit.go AssignLevels ------------------------------- *)

Definition al_step (t : target) (st : list nat * list nat) (g : gate) : list nat * list nat :=
  let '(levels, out) := st in
  let l0 := nth (gin0 g) levels 0 in
  let level := match gop g with
               | INV => l0
               | _ => Nat.max l0 (nth (gin1 g) levels 0)
               end in
  let next := match t with
              | Yao => S level
              | GMW => if is_and (gop g) then S level else level
              end in
  (upd levels (gout g) next, out ++ [level]).

(* per-gate Level as AssignLevels stores it *)
Definition assign_levels (t : target) (c : circuit) : list nat :=
  snd (fold_left (al_step t) (gates c) (repeat 0 (nwires c), [])).

(* ---- semantics of a gate graph ------------------------------------- *)

(* a gate of cc.Gates that is not dead *)
Definition live (G : graph) (gid : nat) : Prop :=
  In gid (gorder G) /\ ndead (gn G gid) = false.

Definition node_fn (g : node) (v : nat -> bool) : bool :=
  gate_fn (nop g) (v (nA g)) (if is_inv (nop g) then false else v (nB g)).

(* [v] is a consistent assignment of bits to wires for input [x] *)
Definition sat (G : graph) (x : list bool) (v : nat -> bool) : Prop :=
  (forall i, i < length (gins G) -> v (nth i (gins G) 0) = nth i x false) /\
  (forall gid, live G gid -> v (nO (gn G gid)) = node_fn (gn G gid) v).

(* forward evaluation of cc.Gates in list order: the meaning of a freshly
   built graph, whose gates are in dependency order *)
Definition geval_step (G : graph) (v : nat -> bool) (gid : nat) : nat -> bool :=
  if ndead (gn G gid) then v else fupd v (nO (gn G gid)) (node_fn (gn G gid) v).

Fixpoint init_val (ins : list nat) (x : list bool) (v : nat -> bool) : nat -> bool :=
  match ins with
  | [] => v
  | w :: ins' => init_val ins' (tl x) (fupd v w (hd false x))
  end.

Definition geval (G : graph) (x : list bool) : nat -> bool :=
  fold_left (geval_step G) (gorder G) (init_val (gins G) x (fun _ => false)).

Definition graph_eval (G : graph) (x : list bool) : list bool :=
  map (geval G x) (gouts G).
