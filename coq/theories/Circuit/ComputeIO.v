(* ComputeIO.v — model of the []*big.Int layer of Circuit.Compute
   (circuit/computer.go) and of IO.Size (circuit/ioarg.go): how the argument
   values are flattened into wires (one level of Compound members, bit i of
   argument k = big.Int.Bit(i), two's complement for negative values, widths
   that are no multiple of 8/64, values wider or narrower than the declared
   width) and how the output wires are packed back into one big.Int per
   declared output.  The gate loop is [eval_gate] of Circuit.v.
   No proofs here (ComputeIOProof.v). *)
From Coq Require Import ZArith NArith List Bool Arith.
From Mpc Require Import Circuit.Circuit.
Import ListNotations.

(* circuit.IOArg: Type.Bits and the Type.Bits of the Compound members *)
Record ioarg := mkIO { iobits : nat; iocomp : list nat }.

(* IO.Size(): sum of the top-level Type.Bits *)
Definition io_size (l : list ioarg) : nat :=
  fold_right (fun a s => iobits a + s) 0 l.

(* "Flatten circuit arguments": a compound argument is replaced by its
   members (one level), any other argument stays *)
Definition flat_args (ins : list ioarg) : list nat :=
  flat_map (fun a => match iocomp a with [] => [iobits a] | l => l end) ins.

Definition sum_widths (ws : list nat) : nat := fold_right Nat.add 0 ws.

(* for bit := 0; bit < Bits; bit++ { inputs[idx].Bit(bit) }.  big.Int.Bit on a
   negative value is the two's-complement bit = Z.testbit *)
Definition zbits (w : nat) (v : Z) : list bool :=
  map (fun i => Z.testbit v (Z.of_nat i)) (seq 0 w).

(* "Flatten inputs and arguments" *)
Fixpoint flatten_inputs (ws : list nat) (vs : list Z) : list bool :=
  match ws, vs with
  | w :: ws', v :: vs' => zbits w v ++ flatten_inputs ws' vs'
  | _, _ => []
  end.

(* r.SetBit(r, bit, 1) for every set wire, LSB first *)
Fixpoint bits_to_Z (l : list bool) : Z :=
  match l with
  | [] => 0%Z
  | b :: t => (Z.b2z b + 2 * bits_to_Z t)%Z
  end.

(* "Construct outputs": w runs on from NumWires - Outputs.Size() *)
Fixpoint pack_from (outs : list nat) (w : nat) (wires : list bool) : list Z :=
  match outs with
  | [] => []
  | n :: t => bits_to_Z (map (fun i => nth (w + i) wires false) (seq 0 n))
              :: pack_from t (w + n) wires
  end.

Inductive cres :=
| COk (results : list Z)
| CErrArgs (got expected : nat)   (* "invalid inputs: got %d, expected %d" *)
| CPanic.                          (* index out of range on the wires slice *)

Definition compute_io (c : circuit) (ins outs : list ioarg) (vals : list Z) : cres :=
  let ws := flat_args ins in
  if negb (length vals =? length ws) then CErrArgs (length vals) (length ws)
  else
    let bits := flatten_inputs ws vals in
    if nwires c <? length bits then CPanic
    else
      let wires := fold_left eval_gate (gates c)
                             (bits ++ repeat false (nwires c - length bits)) in
      if nwires c <? io_size outs then CPanic
      else COk (pack_from (map iobits outs) (nwires c - io_size outs) wires).

(* specification side: a bit vector cut into consecutive fields of the given
   widths, each read as an unsigned number *)
Fixpoint pack_bits (outs : list nat) (bs : list bool) : list Z :=
  match outs with
  | [] => []
  | n :: t => bits_to_Z (firstn n bs) :: pack_bits t (skipn n bs)
  end.

(* every argument value reduced to its declared width *)
Fixpoint reduce_vals (ws : list nat) (vs : list Z) : list Z :=
  match ws, vs with
  | w :: ws', v :: vs' => (v mod 2 ^ Z.of_nat w)%Z :: reduce_vals ws' vs'
  | _, _ => []
  end.
