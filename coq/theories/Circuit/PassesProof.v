(* PassesProof.v — theorems about Circuit/Passes.v (property C09).

   Meaning of a gate graph: a valuation [v : wire -> bool] with [sat G x v]
   (inputs carry x, every live gate's equation holds).  For a freshly built
   graph (gates in dependency order) [geval G x] is such a valuation.

   Part 1: every pass keeps a satisfying valuation (ConstPropagate: the same
           one; ShortCircuitXORZero: extended to the fresh wires; Prune: the
           same one) and keeps the constant annotations sound.
   Part 2: Compile: the flat circuit evaluates every emitted gate's output
           wire to the valuation's bit (any order in which inputs are written
           before they are read will do; the GMW sort yields such an order). *)
From Coq Require Import List Bool Arith Lia Permutation Sorting.Sorted.
From Mpc Require Import Circuit.Circuit Circuit.Passes.
Import ListNotations.

(* ------------------------------------------------------------------ *)
(* basics                                                             *)

Lemma fupd_same {A} (f : nat -> A) i v : fupd f i v i = v.
Proof. unfold fupd. now rewrite Nat.eqb_refl. Qed.

Lemma fupd_other {A} (f : nat -> A) i j v : j <> i -> fupd f i v j = f j.
Proof. unfold fupd. intros H. destruct (Nat.eqb_spec j i); congruence. Qed.

Lemma wval_eqb_eq a b : wval_eqb a b = true <-> a = b.
Proof. destruct a, b; simpl; split; congruence. Qed.

Lemma isZ_true v : isZ v = true <-> v = Zero.
Proof. apply wval_eqb_eq. Qed.
Lemma isO_true v : isO v = true <-> v = One.
Proof. apply wval_eqb_eq. Qed.

(* ------------------------------------------------------------------ *)
(* Part 1: the passes keep a satisfying valuation                     *)

(* the constant annotations are right for the valuation *)
Definition vsound (G : graph) (v : nat -> bool) : Prop :=
  forall w, (wv (gw G w) = Zero -> v w = false) /\ (wv (gw G w) = One -> v w = true).

(* cc.ZeroWire() and cc.OneWire() exist (CompileCircuit creates both before
   any gate is added) and carry their values *)
Definition consts_ok (G : graph) : Prop :=
  exists z o, gzero G = Some z /\ gone G = Some o /\
              wv (gw G z) = Zero /\ wv (gw G o) = One.

Definition node_eqv (v : nat -> bool) (n n' : node) : Prop :=
  ndead n' = ndead n /\ nO n' = nO n /\ node_fn n' v = node_fn n v.

Lemma node_eqv_refl v n : node_eqv v n n.
Proof. repeat split. Qed.

Lemma sat_congr G G' x v :
  gorder G' = gorder G -> gins G' = gins G ->
  (forall gid, node_eqv v (gn G gid) (gn G' gid)) ->
  sat G x v -> sat G' x v.
Proof.
  intros Ho Hi Hn [Hin Hg]. split.
  - rewrite Hi. exact Hin.
  - intros gid [Hl Hd]. destruct (Hn gid) as (Hd' & HO & Hf).
    rewrite HO, Hf. apply Hg. split; [now rewrite <- Ho | congruence].
Qed.

Definition Inv (x : list bool) (v : nat -> bool) (G : graph) : Prop :=
  sat G x v /\ vsound G v /\ consts_ok G.

(* an edit that touches only wire bookkeeping (counter, lists, ids) or the
   error code *)
Definition wonly (G G' : graph) : Prop :=
  gn G' = gn G /\ gorder G' = gorder G /\ gins G' = gins G /\
  gzero G' = gzero G /\ gone G' = gone G /\
  (forall w, wv (gw G' w) = wv (gw G w)).

Lemma wonly_refl G : wonly G G.
Proof. repeat split. Qed.

Lemma wonly_trans G1 G2 G3 : wonly G1 G2 -> wonly G2 G3 -> wonly G1 G3.
Proof.
  intros (a1&a2&a3&a4&a5&a6) (b1&b2&b3&b4&b5&b6).
  split; [congruence|]. split; [congruence|]. split; [congruence|].
  split; [congruence|]. split; [congruence|]. intros w. now rewrite b6, a6.
Qed.

Lemma wonly_Inv x v G G' : wonly G G' -> Inv x v G -> Inv x v G'.
Proof.
  intros (Hn & Ho & Hi & Hz & Hone & Hv) (Hs & Hvs & (z & o & Hz1 & Ho1 & Hz2 & Ho2)).
  split; [|split].
  - apply (sat_congr G); [exact Ho|exact Hi| |exact Hs].
    intros gid. rewrite Hn. apply node_eqv_refl.
  - intros w. rewrite Hv. apply Hvs.
  - exists z, o. rewrite Hz, Hone, !Hv. auto.
Qed.

Lemma wonly_set_err G e : wonly G (set_err G e).
Proof. repeat split. Qed.

Lemma wonly_set_w G w r : wv r = wv (gw G w) -> wonly G (set_w G w r).
Proof.
  intros H. repeat split. intros w'. simpl. unfold fupd.
  destruct (Nat.eqb_spec w' w); subst; auto.
Qed.

Lemma wonly_add_output G w gid : wonly G (add_output G w gid).
Proof. apply wonly_set_w. reflexivity. Qed.

Lemma wonly_remove_output G w : wonly G (remove_output G w).
Proof.
  unfold remove_output. destruct (wnum (gw G w)).
  - apply wonly_set_err.
  - apply wonly_set_w. reflexivity.
Qed.

Lemma wonly_disconnect G w : wonly G (disconnect_outputs G w).
Proof. apply wonly_set_w. reflexivity. Qed.

(* node edits that keep the gate's function under v *)
Lemma set_n_Inv x v G gid n' :
  node_eqv v (gn G gid) n' -> Inv x v G -> Inv x v (set_n G gid n').
Proof.
  intros He (Hs & Hvs & Hc). split; [|split]; auto.
  apply (sat_congr G); [reflexivity|reflexivity| |exact Hs].
  intros g. simpl. unfold fupd.
  destruct (Nat.eqb_spec g gid); subst; auto using node_eqv_refl.
Qed.

(* a variant without the side conditions: setting a value that is right keeps
   sat and vsound; consts_ok is kept when the value written to a constant
   wire is its own *)
Lemma set_value_Inv' x v G w val :
  (val = Zero -> v w = false) -> (val = One -> v w = true) -> val <> Unknown ->
  Inv x v G -> Inv x v (set_value G w val).
Proof.
  intros Hz Ho Hnu (Hs & Hvs & (z & o & Hz1 & Ho1 & Hz2 & Ho2)).
  split; [|split].
  - apply (sat_congr G); [reflexivity|reflexivity| |exact Hs].
    intros g. apply node_eqv_refl.
  - intros w'. simpl. unfold fupd. destruct (Nat.eqb_spec w' w); subst; simpl; auto;
      try apply Hvs.
  - exists z, o. simpl. unfold fupd.
    destruct (Hvs z) as [Hzf _]. destruct (Hvs o) as [_ Hot].
    specialize (Hzf Hz2). specialize (Hot Ho2).
    repeat split; auto.
    + destruct (Nat.eqb_spec z w); subst; simpl; auto.
      destruct val; auto; try congruence. specialize (Ho eq_refl). congruence.
    + destruct (Nat.eqb_spec o w); subst; simpl; auto.
      destruct val; auto; try congruence. specialize (Hz eq_refl). congruence.
Qed.

Lemma node_fn_set_A v n a :
  v a = v (nA n) -> node_fn (n_set_A n a) v = node_fn n v.
Proof. unfold node_fn. simpl. now intros ->. Qed.

Lemma node_fn_set_B v n b :
  v b = v (nB n) -> node_fn (n_set_B n b) v = node_fn n v.
Proof. unfold node_fn. simpl. now intros ->. Qed.

(* Gate.ReplaceInput keeps the valuation when both wires carry the same bit *)
Lemma replace_input_Inv x v G c from to :
  v from = v to -> Inv x v G -> Inv x v (replace_input G c from to).
Proof.
  intros Hv HI. unfold replace_input.
  destruct (Nat.eqb_spec (nA (gn G c)) from) as [HA|HA].
  - apply set_n_Inv.
    + assert (Hg : gn (add_output (remove_output G from) to c) = gn G).
      { destruct (wonly_trans _ _ _ (wonly_remove_output G from)
                   (wonly_add_output (remove_output G from) to c)) as (E & _). exact E. }
      rewrite Hg. repeat split. apply node_fn_set_A. congruence.
    + eapply wonly_Inv; [|exact HI].
      eapply wonly_trans; [apply wonly_remove_output|apply wonly_add_output].
  - destruct (negb (is_inv (nop (gn G c))) && Nat.eqb (nB (gn G c)) from) eqn:HB.
    + apply andb_true_iff in HB. destruct HB as [_ HB]. apply Nat.eqb_eq in HB.
      apply set_n_Inv.
      * assert (Hg : gn (add_output (remove_output G from) to c) = gn G).
        { destruct (wonly_trans _ _ _ (wonly_remove_output G from)
                     (wonly_add_output (remove_output G from) to c)) as (E & _). exact E. }
        rewrite Hg. repeat split. apply node_fn_set_B. congruence.
      * eapply wonly_Inv; [|exact HI].
        eapply wonly_trans; [apply wonly_remove_output|apply wonly_add_output].
    + eapply wonly_Inv; [apply wonly_set_err|exact HI].
Qed.

Lemma fold_replace_Inv x v from to l : forall G,
  v from = v to -> Inv x v G ->
  Inv x v (fold_left (fun G c => replace_input G c from to) l G).
Proof.
  induction l as [|c l IH]; intros G Hv HI; simpl; auto.
  apply IH; auto. now apply replace_input_Inv.
Qed.

(* Gate.ShortCircuit(o) when the gate's output carries the same bit as o *)
Lemma short_circuit_Inv x v G gid o :
  v (nO (gn G gid)) = v o -> Inv x v G -> Inv x v (short_circuit G gid o).
Proof.
  intros Hv HI. unfold short_circuit.
  destruct (wout (gw G (nO (gn G gid)))); auto.
  eapply wonly_Inv; [apply wonly_disconnect|].
  now apply fold_replace_Inv.
Qed.

(* what the switch of ConstPropagate decides is right for the valuation *)
Lemma cp_action_sound o a b va vb :
  (a = Zero -> va = false) -> (a = One -> va = true) ->
  (b = Zero -> vb = false) -> (b = One -> vb = true) ->
  match cp_action o a b with
  | ActNone => True
  | ActZero => gate_fn o va vb = false
  | ActOne => gate_fn o va vb = true
  | ActSCB => gate_fn o va vb = vb /\ o <> INV
  | ActSCA => gate_fn o va vb = va
  end.
Proof.
  intros Haz Hao Hbz Hbo.
  destruct o, a, b; simpl;
    try (specialize (Haz eq_refl)); try (specialize (Hao eq_refl));
    try (specialize (Hbz eq_refl)); try (specialize (Hbo eq_refl));
    subst; simpl; auto; try (split; [|discriminate]);
    try (destruct va; reflexivity); try (destruct vb; reflexivity).
Qed.

Lemma live_dec G gid : In gid (gorder G) -> ndead (gn G gid) = false -> live G gid.
Proof. split; auto. Qed.

Lemma cp_subst_A_Inv x v G gid : Inv x v G -> Inv x v (cp_subst_A G gid).
Proof.
  intros HI. unfold cp_subst_A.
  destruct (wv (gw G (nA (gn G gid)))) eqn:Hval; auto.
  - (* Zero *)
    pose proof (wonly_remove_output G (nA (gn G gid))) as Hw.
    pose proof (wonly_Inv _ _ _ _ Hw HI) as HI1.
    destruct HI1 as (Hs1 & Hvs1 & (z & o & Hz1 & Ho1 & Hz2 & Ho2)).
    unfold zero_wire. rewrite Hz1.
    eapply wonly_Inv; [apply wonly_add_output|].
    apply set_n_Inv; [|split; [|split]; auto; exists z, o; auto].
    destruct Hw as (Hn & _ & _ & _ & _ & Hwv).
    repeat split. apply node_fn_set_A.
    rewrite Hn. destruct (Hvs1 z) as [Hzf _]. rewrite (Hzf Hz2).
    destruct HI as (_ & Hvs & _). destruct (Hvs (nA (gn G gid))) as [Haf _].
    now rewrite (Haf Hval).
  - (* One *)
    pose proof (wonly_remove_output G (nA (gn G gid))) as Hw.
    pose proof (wonly_Inv _ _ _ _ Hw HI) as HI1.
    destruct HI1 as (Hs1 & Hvs1 & (z & o & Hz1 & Ho1 & Hz2 & Ho2)).
    unfold one_wire. rewrite Ho1.
    eapply wonly_Inv; [apply wonly_add_output|].
    apply set_n_Inv; [|split; [|split]; auto; exists z, o; auto].
    destruct Hw as (Hn & _ & _ & _ & _ & Hwv).
    repeat split. apply node_fn_set_A.
    rewrite Hn. destruct (Hvs1 o) as [_ Hot]. rewrite (Hot Ho2).
    destruct HI as (_ & Hvs & _). destruct (Hvs (nA (gn G gid))) as [_ Hat].
    now rewrite (Hat Hval).
Qed.

Lemma cp_subst_B_Inv x v G gid : Inv x v G -> Inv x v (cp_subst_B G gid).
Proof.
  intros HI. unfold cp_subst_B.
  destruct (is_inv (nop (gn G gid))); auto.
  destruct (wv (gw G (nB (gn G gid)))) eqn:Hval; auto.
  - pose proof (wonly_remove_output G (nB (gn G gid))) as Hw.
    pose proof (wonly_Inv _ _ _ _ Hw HI) as HI1.
    destruct HI1 as (Hs1 & Hvs1 & (z & o & Hz1 & Ho1 & Hz2 & Ho2)).
    unfold zero_wire. rewrite Hz1.
    eapply wonly_Inv; [apply wonly_add_output|].
    apply set_n_Inv; [|split; [|split]; auto; exists z, o; auto].
    destruct Hw as (Hn & _ & _ & _ & _ & Hwv).
    repeat split. apply node_fn_set_B.
    rewrite Hn. destruct (Hvs1 z) as [Hzf _]. rewrite (Hzf Hz2).
    destruct HI as (_ & Hvs & _). destruct (Hvs (nB (gn G gid))) as [Haf _].
    now rewrite (Haf Hval).
  - pose proof (wonly_remove_output G (nB (gn G gid))) as Hw.
    pose proof (wonly_Inv _ _ _ _ Hw HI) as HI1.
    destruct HI1 as (Hs1 & Hvs1 & (z & o & Hz1 & Ho1 & Hz2 & Ho2)).
    unfold one_wire. rewrite Ho1.
    eapply wonly_Inv; [apply wonly_add_output|].
    apply set_n_Inv; [|split; [|split]; auto; exists z, o; auto].
    destruct Hw as (Hn & _ & _ & _ & _ & Hwv).
    repeat split. apply node_fn_set_B.
    rewrite Hn. destruct (Hvs1 o) as [_ Hot]. rewrite (Hot Ho2).
    destruct HI as (_ & Hvs & _). destruct (Hvs (nB (gn G gid))) as [_ Hat].
    now rewrite (Hat Hval).
Qed.

(* one iteration of ConstPropagate's loop on a live gate *)
Lemma cp_step_Inv x v G gid :
  live G gid -> Inv x v G -> Inv x v (cp_step G gid).
Proof.
  intros Hl HI. unfold cp_step.
  apply cp_subst_B_Inv. apply cp_subst_A_Inv.
  set (g := gn G gid).
  destruct HI as (Hs & Hvs & Hc).
  assert (Heq : v (nO g) = node_fn g v) by (apply Hs; exact Hl).
  set (a := wv (gw G (nA g))).
  set (b := if is_inv (nop g) then Unknown else wv (gw G (nB g))).
  pose proof (cp_action_sound (nop g) a b (v (nA g))
                (if is_inv (nop g) then false else v (nB g))) as Hact.
  assert (Ha : (a = Zero -> v (nA g) = false) /\ (a = One -> v (nA g) = true)) by apply Hvs.
  assert (Hb : (b = Zero -> (if is_inv (nop g) then false else v (nB g)) = false) /\
               (b = One -> (if is_inv (nop g) then false else v (nB g)) = true)).
  { unfold b. destruct (is_inv (nop g)); [split; discriminate|apply Hvs]. }
  specialize (Hact (proj1 Ha) (proj2 Ha) (proj1 Hb) (proj2 Hb)).
  fold (node_fn g v) in Hact.
  assert (HI : Inv x v G) by (split; [|split]; auto).
  destruct (cp_action (nop g) a b).
  - exact HI.
  - apply set_value_Inv'; auto; try congruence.
  - apply set_value_Inv'; auto; try congruence.
  - destruct Hact as [Hf Hni]. apply short_circuit_Inv; auto.
    fold g. rewrite Heq. unfold node_fn in *. rewrite Hf.
    destruct (nop g); simpl; congruence.
  - apply short_circuit_Inv; auto. fold g. rewrite Heq. exact Hact.
Qed.

(* liveness is not changed by an iteration (no gate is added when the
   constants exist, none is marked dead) *)
Definition same_gates (G G' : graph) : Prop :=
  gorder G' = gorder G /\ forall i, ndead (gn G' i) = ndead (gn G i).

Lemma same_gates_refl G : same_gates G G.
Proof. split; auto. Qed.
Lemma same_gates_trans G1 G2 G3 : same_gates G1 G2 -> same_gates G2 G3 -> same_gates G1 G3.
Proof. intros [a b] [c d]. split; [congruence|]. intros i. now rewrite d, b. Qed.

Lemma wonly_same_gates G G' : wonly G G' -> same_gates G G'.
Proof. intros (Hn & Ho & _). split; auto. intros i. now rewrite Hn. Qed.

Lemma set_n_same_gates G gid n' :
  ndead n' = ndead (gn G gid) -> same_gates G (set_n G gid n').
Proof.
  intros H. split; auto. intros i. simpl. unfold fupd.
  destruct (Nat.eqb_spec i gid); subst; auto.
Qed.

Lemma replace_input_same_gates G c from to : same_gates G (replace_input G c from to).
Proof.
  unfold replace_input.
  assert (W : wonly G (add_output (remove_output G from) to c)).
  { eapply wonly_trans; [apply wonly_remove_output|apply wonly_add_output]. }
  destruct (Nat.eqb (nA (gn G c)) from).
  - eapply same_gates_trans; [apply (wonly_same_gates _ _ W)|].
    apply set_n_same_gates. reflexivity.
  - destruct (negb (is_inv (nop (gn G c))) && Nat.eqb (nB (gn G c)) from).
    + eapply same_gates_trans; [apply (wonly_same_gates _ _ W)|].
      apply set_n_same_gates. reflexivity.
    + apply wonly_same_gates, wonly_set_err.
Qed.

Lemma fold_replace_same_gates from to l : forall G,
  same_gates G (fold_left (fun G c => replace_input G c from to) l G).
Proof.
  induction l as [|c l IH]; intros G; simpl; [apply same_gates_refl|].
  eapply same_gates_trans; [apply replace_input_same_gates|apply IH].
Qed.

Lemma short_circuit_same_gates G gid o : same_gates G (short_circuit G gid o).
Proof.
  unfold short_circuit. destruct (wout _); [apply same_gates_refl|].
  eapply same_gates_trans; [apply fold_replace_same_gates|].
  apply wonly_same_gates, wonly_disconnect.
Qed.

Lemma set_value_same_gates G w val : same_gates G (set_value G w val).
Proof. split; auto. Qed.

Lemma subst_same_gates G1 gid n' z :
  ndead n' = ndead (gn G1 gid) -> same_gates G1 (add_output (set_n G1 gid n') z gid).
Proof.
  intros H. apply same_gates_trans with (set_n G1 gid n').
  - now apply set_n_same_gates.
  - apply wonly_same_gates, wonly_add_output.
Qed.

Lemma cp_subst_A_same_gates G gid : consts_ok G -> same_gates G (cp_subst_A G gid).
Proof.
  intros (z & o & Hz & Ho & _). unfold cp_subst_A.
  pose proof (wonly_remove_output G (nA (gn G gid))) as W.
  destruct (wv (gw G (nA (gn G gid)))); [apply same_gates_refl| |].
  - unfold zero_wire. pose proof W as (Wn & Wo & Wi & Wz & Wone & Wv). rewrite Wz, Hz.
    eapply same_gates_trans; [exact (wonly_same_gates _ _ W)|].
    apply subst_same_gates; reflexivity.
  - unfold one_wire. pose proof W as (Wn & Wo & Wi & Wz & Wone & Wv). rewrite Wone, Ho.
    eapply same_gates_trans; [exact (wonly_same_gates _ _ W)|].
    apply subst_same_gates; reflexivity.
Qed.

Lemma cp_subst_B_same_gates G gid : consts_ok G -> same_gates G (cp_subst_B G gid).
Proof.
  intros (z & o & Hz & Ho & _). unfold cp_subst_B.
  destruct (is_inv _); [apply same_gates_refl|].
  pose proof (wonly_remove_output G (nB (gn G gid))) as W.
  destruct (wv (gw G (nB (gn G gid)))); [apply same_gates_refl| |].
  - unfold zero_wire. pose proof W as (Wn & Wo & Wi & Wz & Wone & Wv). rewrite Wz, Hz.
    eapply same_gates_trans; [exact (wonly_same_gates _ _ W)|].
    apply subst_same_gates; reflexivity.
  - unfold one_wire. pose proof W as (Wn & Wo & Wi & Wz & Wone & Wv). rewrite Wone, Ho.
    eapply same_gates_trans; [exact (wonly_same_gates _ _ W)|].
    apply subst_same_gates; reflexivity.
Qed.

(* the switch of ConstPropagate as a function of its own *)
Definition cp_switch (G : graph) (gid : nat) : graph :=
  let g := gn G gid in
  let a := wv (gw G (nA g)) in
  let b := if is_inv (nop g) then Unknown else wv (gw G (nB g)) in
  match cp_action (nop g) a b with
  | ActNone => G
  | ActZero => set_value G (nO g) Zero
  | ActOne => set_value G (nO g) One
  | ActSCB => short_circuit G gid (nB g)
  | ActSCA => short_circuit G gid (nA g)
  end.

Lemma cp_step_eq G gid :
  cp_step G gid = cp_subst_B (cp_subst_A (cp_switch G gid) gid) gid.
Proof. reflexivity. Qed.

Lemma cp_switch_same_gates G gid : same_gates G (cp_switch G gid).
Proof.
  unfold cp_switch. destruct (cp_action _ _ _);
    auto using same_gates_refl, set_value_same_gates, short_circuit_same_gates.
Qed.

Lemma Inv_consts x v G : Inv x v G -> consts_ok G.
Proof. now intros (_ & _ & H). Qed.

Lemma cp_step_same_gates x v G gid :
  live G gid -> Inv x v G -> same_gates G (cp_step G gid).
Proof.
  intros Hl HI. rewrite cp_step_eq.
  assert (H1 : Inv x v (cp_switch G gid)).
  { (* the switch part of cp_step_Inv *)
    pose proof (cp_step_Inv x v G gid Hl HI) as _.
    unfold cp_switch. set (g := gn G gid).
    destruct HI as (Hs & Hvs & Hc).
    assert (Heq : v (nO g) = node_fn g v) by (apply Hs; exact Hl).
    set (a := wv (gw G (nA g))).
    set (b := if is_inv (nop g) then Unknown else wv (gw G (nB g))).
    pose proof (cp_action_sound (nop g) a b (v (nA g))
                  (if is_inv (nop g) then false else v (nB g))) as Hact.
    assert (Ha : (a = Zero -> v (nA g) = false) /\ (a = One -> v (nA g) = true)) by apply Hvs.
    assert (Hb : (b = Zero -> (if is_inv (nop g) then false else v (nB g)) = false) /\
                 (b = One -> (if is_inv (nop g) then false else v (nB g)) = true)).
    { unfold b. destruct (is_inv (nop g)); [split; discriminate|apply Hvs]. }
    specialize (Hact (proj1 Ha) (proj2 Ha) (proj1 Hb) (proj2 Hb)).
    fold (node_fn g v) in Hact.
    assert (HI : Inv x v G) by (split; [|split]; auto).
    destruct (cp_action (nop g) a b).
    - exact HI.
    - apply set_value_Inv'; auto; try congruence.
    - apply set_value_Inv'; auto; try congruence.
    - destruct Hact as [Hf Hni]. apply short_circuit_Inv; auto.
      fold g. rewrite Heq. unfold node_fn in *. rewrite Hf.
      destruct (nop g); simpl; congruence.
    - apply short_circuit_Inv; auto. fold g. rewrite Heq. exact Hact. }
  eapply same_gates_trans; [apply cp_switch_same_gates|].
  eapply same_gates_trans; [apply cp_subst_A_same_gates; eapply Inv_consts; eauto|].
  apply cp_subst_B_same_gates. eapply Inv_consts. apply cp_subst_A_Inv. eauto.
Qed.

Lemma same_gates_live G G' gid : same_gates G G' -> live G gid -> live G' gid.
Proof. intros [Ho Hd] [Hi Hn]. split; [now rewrite Ho|now rewrite Hd]. Qed.

Lemma cp_fold_Inv x v l : forall G,
  (forall gid, In gid l -> live G gid) -> Inv x v G ->
  Inv x v (fold_left cp_step l G) /\ same_gates G (fold_left cp_step l G).
Proof.
  induction l as [|gid l IH]; intros G Hl HI; simpl.
  - split; auto using same_gates_refl.
  - assert (Hg : live G gid) by (apply Hl; now left).
    pose proof (cp_step_Inv x v G gid Hg HI) as HI1.
    pose proof (cp_step_same_gates x v G gid Hg HI) as HS1.
    destruct (IH (cp_step G gid)) as [HI2 HS2]; auto.
    + intros g Hin. eapply same_gates_live; eauto. apply Hl. now right.
    + split; auto. eapply same_gates_trans; eauto.
Qed.

(* ConstPropagate: when no gate of cc.Gates is dead, the same valuation
   satisfies the propagated graph, the (new) constant annotations are right
   for it, and the set of live gates is unchanged *)
Theorem const_propagate_sat x v G :
  (forall gid, In gid (gorder G) -> ndead (gn G gid) = false) ->
  Inv x v G ->
  Inv x v (const_propagate G) /\ same_gates G (const_propagate G).
Proof.
  intros Hd HI. apply cp_fold_Inv; auto.
  intros gid Hin. split; auto.
Qed.

(* ---- Prune --------------------------------------------------------- *)

(* an edit that removes constraints only *)
Definition shrinks (G G' : graph) : Prop :=
  gins G' = gins G /\ gzero G' = gzero G /\ gone G' = gone G /\
  (forall w, wv (gw G' w) = wv (gw G w)) /\
  (forall gid, nop (gn G' gid) = nop (gn G gid) /\ nA (gn G' gid) = nA (gn G gid) /\
               nB (gn G' gid) = nB (gn G gid) /\ nO (gn G' gid) = nO (gn G gid)) /\
  (forall gid, ndead (gn G gid) = true -> ndead (gn G' gid) = true).

Lemma shrinks_refl G : shrinks G G.
Proof. repeat split; auto. Qed.

Lemma shrinks_trans G1 G2 G3 : shrinks G1 G2 -> shrinks G2 G3 -> shrinks G1 G3.
Proof.
  intros (a1&a2&a3&a4&a5&a6) (b1&b2&b3&b4&b5&b6).
  split; [congruence|]. split; [congruence|]. split; [congruence|].
  split; [intros w; now rewrite b4, a4|].
  split; [|auto].
  intros gid. destruct (a5 gid) as (p1&p2&p3&p4). destruct (b5 gid) as (q1&q2&q3&q4).
  repeat split; congruence.
Qed.

Lemma wonly_shrinks G G' : wonly G G' -> shrinks G G'.
Proof.
  intros (Hn & Ho & Hi & Hz & Hone & Hv).
  split; [auto|]. split; [auto|]. split; [auto|]. split; [auto|].
  split; intros gid; rewrite Hn; auto.
Qed.

Lemma gate_prune_shrinks G gid :
  shrinks G (fst (gate_prune G gid)) /\
  gorder (fst (gate_prune G gid)) = gorder G.
Proof.
  unfold gate_prune.
  destruct (ndead (gn G gid) || wout (gw G (nO (gn G gid))) ||
            negb (Nat.eqb (wnum (gw G (nO (gn G gid)))) 0)); simpl.
  - split; auto using shrinks_refl.
  - set (G1 := set_n G gid (n_set_dead (gn G gid))).
    assert (S1 : shrinks G G1).
    { split; [reflexivity|]. split; [reflexivity|]. split; [reflexivity|].
      split; [reflexivity|]. split.
      - intros g. simpl. unfold fupd. destruct (Nat.eqb_spec g gid); subst; auto.
      - intros g. simpl. unfold fupd. destruct (Nat.eqb_spec g gid); subst; auto. }
    set (G2 := if is_inv (nop (gn G gid)) then G1 else remove_output G1 (nB (gn G gid))).
    assert (W2 : wonly G1 G2).
    { unfold G2. destruct (is_inv _); [apply wonly_refl|apply wonly_remove_output]. }
    pose proof (wonly_remove_output G2 (nA (gn G gid))) as W3.
    split.
    + eapply shrinks_trans; [exact S1|].
      eapply shrinks_trans; apply wonly_shrinks; eauto.
    + destruct W3 as (_ & O3 & _). destruct W2 as (_ & O2 & _). rewrite O3, O2. reflexivity.
Qed.

Definition prune_step : graph * list nat -> nat -> graph * list nat :=
  fun '(G, kept) gid =>
    let '(G1, p) := gate_prune G gid in
    (G1, if p then kept else gid :: kept).

Lemma prune_sweep_eq G l : prune_sweep G l = fold_left prune_step l (G, []).
Proof. reflexivity. Qed.

Lemma prune_fold l : forall st,
  let st' := fold_left prune_step l st in
  shrinks (fst st) (fst st') /\ gorder (fst st') = gorder (fst st) /\
  (forall g, In g (snd st') -> In g (snd st) \/ In g l).
Proof.
  induction l as [|gid l IH]; intros [G kept]; simpl.
  - split; [apply shrinks_refl|]. split; auto.
  - destruct (gate_prune_shrinks G gid) as [S1 O1].
    destruct (gate_prune G gid) as [G1 p] eqn:E. simpl in S1, O1.
    specialize (IH (G1, if p then kept else gid :: kept)). simpl in IH.
    destruct IH as (S2 & O2 & K2).
    split; [eapply shrinks_trans; eauto|]. split; [congruence|].
    intros g Hg. destruct (K2 g Hg) as [H|H]; auto.
    destruct p; simpl in H; auto. destruct H; auto.
Qed.

Lemma shrinks_Inv x v G G' :
  shrinks G G' -> (forall gid, In gid (gorder G') -> In gid (gorder G)) ->
  Inv x v G -> Inv x v G'.
Proof.
  intros (Hi & Hz & Hone & Hv & Hn & Hd) Ho ((Hin & Hg) & Hvs & (z & o & Hz1 & Ho1 & Hz2 & Ho2)).
  split; [|split].
  - split; [now rewrite Hi|].
    intros gid [Hl Hdead]. destruct (Hn gid) as (p1&p2&p3&p4).
    unfold node_fn. rewrite p1, p2, p3, p4. apply Hg. split; auto.
    destruct (ndead (gn G gid)) eqn:E; auto. rewrite (Hd gid E) in Hdead. discriminate.
  - intros w. rewrite Hv. apply Hvs.
  - exists z, o. rewrite Hz, Hone, !Hv. auto.
Qed.

(* Prune: the same valuation satisfies the pruned graph *)
Theorem prune_sat x v G : Inv x v G -> Inv x v (prune G).
Proof.
  intros HI. unfold prune. rewrite prune_sweep_eq.
  pose proof (prune_fold (rev (gorder G)) (G, [])) as H. simpl in H.
  destruct (fold_left prune_step (rev (gorder G)) (G, [])) as [G1 kept] eqn:E.
  simpl in H. destruct H as (S & O & K).
  apply (shrinks_Inv x v G).
  - destruct S as (a1&a2&a3&a4&a5&a6). repeat split; auto; apply a5.
  - simpl. intros gid Hin. destruct (K gid Hin) as [[]|H]. now apply in_rev.
  - exact HI.
Qed.

(* ------------------------------------------------------------------ *)
(* Part 2: Compile — renumbering and reordering                       *)

Definition inputs_of (g : node) : list nat :=
  if is_inv (nop g) then [nA g] else [nA g; nB g].

(* a wire that holds a bit in the flat circuit: a circuit input or the
   output of an emitted gate *)
Definition rel (G : graph) (order : list nat) (w : nat) : Prop :=
  In w (gins G) \/ exists p, In p order /\ nO (gn G p) = w.

(* [order] with the wire numbering [idf] is a dependency-respecting,
   injectively numbered emission of gates of G that writes all outputs into
   the last wires *)
Record emission_ok (G : graph) (idf : nat -> nat) (nw : nat) (order : list nat) : Prop := {
  e_live : forall gid, In gid order -> live G gid;
  e_dep : forall l1 g l2, order = l1 ++ g :: l2 ->
          forall w, In w (inputs_of (gn G g)) ->
          In w (gins G) \/ exists p, In p l1 /\ nO (gn G p) = w;
  e_inj : forall w1 w2, rel G order w1 -> rel G order w2 -> idf w1 = idf w2 -> w1 = w2;
  e_lt : forall w, rel G order w -> idf w < nw;
  e_ins : forall i, i < length (gins G) -> idf (nth i (gins G) 0) = i;
  e_outs : forall k, k < length (gouts G) ->
           rel G order (nth k (gouts G) 0) /\
           idf (nth k (gouts G) 0) = nw - length (gouts G) + k }.

(* Gate.Compile with an arbitrary numbering *)
Definition emit_with (G : graph) (idf : nat -> nat) (gid : nat) : list gate :=
  let g := gn G gid in
  if ndead g then []
  else if is_inv (nop g) then [mkGate (idf (nA g)) 0 (idf (nO g)) INV]
  else [mkGate (idf (nA g)) (idf (nB g)) (idf (nO g)) (nop g)].

Lemma emit_emit_with G gid : emit G gid = emit_with G (id_of G) gid.
Proof. reflexivity. Qed.

Definition flat (G : graph) (idf : nat -> nat) (nw : nat) (order : list nat) : circuit :=
  mkCircuit nw (length (gins G)) (length (gouts G)) (flat_map (emit_with G idf) order).

Lemma nth_init_wires ni nw (x : list bool) i :
  length x = ni -> ni <= nw -> i < ni ->
  nth i (firstn ni x ++ repeat false (nw - ni)) false = nth i x false.
Proof.
  intros Hx Hle Hi. rewrite firstn_all2 by lia. rewrite app_nth1 by lia. reflexivity.
Qed.

Lemma In_nth_ex (l : list nat) w : In w l -> exists i, i < length l /\ nth i l 0 = w.
Proof. intros H. destruct (In_nth l w 0 H) as (i & Hi & He). eauto. Qed.

Section FlatEval.
  Variables (G : graph) (idf : nat -> nat) (nw : nat) (order : list nat).
  Variables (x : list bool) (v : nat -> bool).
  Hypothesis EO : emission_ok G idf nw order.
  Hypothesis SAT : sat G x v.

  Lemma run_suffix : forall l2 l1 ws,
    order = l1 ++ l2 -> length ws = nw ->
    (forall w, (In w (gins G) \/ exists p, In p l1 /\ nO (gn G p) = w) ->
               nth (idf w) ws false = v w) ->
    let ws' := fold_left eval_gate (flat_map (emit_with G idf) l2) ws in
    length ws' = nw /\ forall w, rel G order w -> nth (idf w) ws' false = v w.
  Proof.
    induction l2 as [|g l2 IH]; intros l1 ws Ho Hlen Hready; simpl.
    - split; auto. intros w Hr. apply Hready. rewrite app_nil_r in Ho. subst l1. exact Hr.
    - assert (Hg : live G g) by (apply (e_live _ _ _ _ EO); rewrite Ho; apply in_or_app; right; now left).
      assert (Heq : v (nO (gn G g)) = node_fn (gn G g) v) by (apply SAT; exact Hg).
      assert (HrO : rel G order (nO (gn G g))).
      { right. exists g. split; auto. rewrite Ho. apply in_or_app. right. now left. }
      pose proof (e_lt _ _ _ _ EO _ HrO) as HltO.
      assert (Hrd : forall w, In w (inputs_of (gn G g)) -> nth (idf w) ws false = v w).
      { intros w Hw. apply Hready. eapply (e_dep _ _ _ _ EO); eauto. }
      assert (Hrel1 : forall w, (In w (gins G) \/ exists p, In p l1 /\ nO (gn G p) = w) ->
                                rel G order w).
      { intros w [H|(p & Hp & E)]; [now left|]. right. exists p. split; auto.
        rewrite Ho. apply in_or_app. now left. }
      rewrite fold_left_app.
      set (ws1 := fold_left eval_gate (emit_with G idf g) ws).
      assert (H1 : length ws1 = nw /\
                   forall w, (In w (gins G) \/ exists p, In p (l1 ++ [g]) /\ nO (gn G p) = w) ->
                             nth (idf w) ws1 false = v w).
      { unfold ws1, emit_with. destruct Hg as [_ Hd]. rewrite Hd.
        assert (Hval : forall val, val = v (nO (gn G g)) ->
                  length (upd ws (idf (nO (gn G g))) val) = nw /\
                  forall w, (In w (gins G) \/ exists p, In p (l1 ++ [g]) /\ nO (gn G p) = w) ->
                            nth (idf w) (upd ws (idf (nO (gn G g))) val) false = v w).
        { intros val Hv. split; [now rewrite upd_length|].
          intros w Hw.
          destruct (Nat.eq_dec (idf w) (idf (nO (gn G g)))) as [E|E].
          - assert (w = nO (gn G g)).
            { apply (e_inj _ _ _ _ EO); auto.
              destruct Hw as [H|(p & Hp & Ep)]; [now left|].
              apply in_app_or in Hp. destruct Hp as [Hp|[<-|[]]]; [apply Hrel1; right; eauto|rewrite <- Ep; exact HrO]. }
            subst w. rewrite nth_upd_eq by lia. auto.
          - rewrite nth_upd_neq by auto.
            destruct Hw as [H|(p & Hp & Ep)]; [apply Hready; now left|].
            apply in_app_or in Hp. destruct Hp as [Hp|[<-|[]]].
            + apply Hready. right. eauto.
            + exfalso. apply E. now rewrite <- Ep. }
        unfold inputs_of in Hrd.
        destruct (is_inv (nop (gn G g))) eqn:Ei; simpl; unfold eval_gate; simpl.
        - apply Hval. rewrite Heq. unfold node_fn. rewrite Ei.
          rewrite (Hrd (nA (gn G g))) by (now left).
          destruct (nop (gn G g)); try discriminate. reflexivity.
        - apply Hval. rewrite Heq. unfold node_fn. rewrite Ei.
          rewrite (Hrd (nA (gn G g))) by (now left).
          rewrite (Hrd (nB (gn G g))) by (right; now left). reflexivity. }
      destruct H1 as [Hl1 Hr1].
      apply (IH (l1 ++ [g]) ws1); auto.
      rewrite <- app_assoc. exact Ho.
  Qed.

  (* the flat circuit evaluates the output wires to the valuation's bits *)
  Lemma flat_eval_correct :
    length x = length (gins G) ->
    eval_plain (flat G idf nw order) x = map v (gouts G).
  Proof.
    intros Hx.
    assert (Hni : length (gins G) <= nw).
    { destruct (gins G) as [|a l] eqn:E; simpl; [lia|].
      assert (H : idf (nth (length l) (gins G) 0) < nw).
      { apply (e_lt _ _ _ _ EO). left. apply nth_In. rewrite E. simpl. lia. }
      rewrite (e_ins _ _ _ _ EO) in H by (rewrite E; simpl; lia). lia. }
    unfold eval_plain, eval_plain_wires, init_wires, flat. simpl.
    destruct (run_suffix order [] (firstn (length (gins G)) x ++ repeat false (nw - length (gins G))))
      as [Hlen Hall]; auto.
    - rewrite app_length, firstn_all2, repeat_length by lia. lia.
    - intros w [Hw|(p & [] & _)].
      destruct (In_nth_ex _ _ Hw) as (i & Hi & <-).
      rewrite (e_ins _ _ _ _ EO) by auto.
      rewrite nth_init_wires by (auto; lia).
      symmetry. apply SAT. exact Hi.
    - unfold output_wires. simpl.
      set (ws := fold_left eval_gate (flat_map (emit_with G idf) order) _) in *.
      assert (Hk : forall k, k < length (gouts G) ->
                  nth (nw - length (gouts G) + k) ws false = v (nth k (gouts G) 0)).
      { intros k Hk. destruct (e_outs _ _ _ _ EO k Hk) as [Hr Hid].
        rewrite <- Hid. now apply Hall. }
      clear - Hk. revert Hk. generalize (nw - length (gouts G)) as base.
      induction (gouts G) as [|o l IH]; intros base Hk; simpl; auto.
      f_equal.
      + specialize (Hk 0). simpl in Hk. rewrite Nat.add_0_r in Hk. apply Hk. lia.
      + apply IH. intros k Hlt. specialize (Hk (S k)). simpl in Hk.
        replace (S base + k) with (base + S k) by lia. apply Hk. lia.
  Qed.
End FlatEval.

(* ---- the stable sort of Compile (GMW) ------------------------------ *)

Section Sort.
  Variable less : nat -> nat -> bool.
  Variable key : nat -> nat.
  Hypothesis less_key : forall a b, less a b = (key a <? key b).

  Definition kle (a b : nat) : Prop := key a <= key b.

  Lemma sinsert_perm x l : Permutation (sinsert less x l) (x :: l).
  Proof.
    induction l as [|y t IH]; simpl; auto.
    destruct (less y x); auto.
    eapply perm_trans; [apply perm_skip, IH|apply perm_swap].
  Qed.

  Lemma ssort_perm l : Permutation (ssort less l) l.
  Proof.
    induction l as [|x l IH]; simpl; auto.
    eapply perm_trans; [apply sinsert_perm|]. now apply perm_skip.
  Qed.

  Lemma sinsert_sorted x l :
    StronglySorted kle l -> StronglySorted kle (sinsert less x l).
  Proof.
    induction 1 as [|y t Hs IH Hf]; simpl.
    - constructor; constructor.
    - rewrite less_key. destruct (Nat.ltb_spec (key y) (key x)) as [Hlt|Hge].
      + constructor; auto.
        eapply Permutation_Forall; [apply Permutation_sym, sinsert_perm|].
        constructor; auto. unfold kle. lia.
      + constructor; [constructor; auto|].
        constructor; [unfold kle; lia|].
        eapply Forall_impl; [|exact Hf]. unfold kle. intros z Hz. lia.
  Qed.

  Lemma ssort_sorted l : StronglySorted kle (ssort less l).
  Proof.
    induction l as [|x l IH]; simpl; [constructor|]. now apply sinsert_sorted.
  Qed.

  Lemma sorted_before s1 g s2 :
    StronglySorted kle (s1 ++ g :: s2) -> forall p, In p s2 -> key g <= key p.
  Proof.
    induction s1 as [|a s1 IH]; simpl; intros H p Hp.
    - inversion H as [|? ? _ Hf]; subst. rewrite Forall_forall in Hf. now apply Hf.
    - inversion H; subst. eauto.
  Qed.
End Sort.

Definition gmw_key (G : graph) (g : nat) : nat :=
  2 * nlevel (gn G g) + (if is_and (nop (gn G g)) then 0 else 1).

Lemma gmw_less_key G a b : gmw_less G a b = (gmw_key G a <? gmw_key G b).
Proof.
  unfold gmw_less, gmw_key.
  destruct (Nat.eqb_spec (nlevel (gn G a)) (nlevel (gn G b))) as [E|E]; simpl.
  - rewrite E. destruct (is_and (nop (gn G a))), (is_and (nop (gn G b))); simpl;
      symmetry; [apply Nat.ltb_ge|apply Nat.ltb_lt|apply Nat.ltb_ge|apply Nat.ltb_ge]; lia.
  - destruct (Nat.ltb_spec (nlevel (gn G a)) (nlevel (gn G b))) as [L|L];
      symmetry; [apply Nat.ltb_lt|apply Nat.ltb_ge];
      destruct (is_and (nop (gn G a))), (is_and (nop (gn G b))); lia.
Qed.

(* levels grow along dependencies inside the emitted order *)
Definition levels_ok (G : graph) (order : list nat) : Prop :=
  forall l1 g l2, order = l1 ++ g :: l2 ->
  forall w, In w (inputs_of (gn G g)) ->
  forall p, In p l1 -> nO (gn G p) = w -> nlevel (gn G p) < nlevel (gn G g).

Lemma rel_perm G l l' w : Permutation l l' -> rel G l w -> rel G l' w.
Proof.
  intros P [H|(p & Hp & E)]; [now left|]. right. exists p. split; auto.
  eapply Permutation_in; eauto.
Qed.

(* any order sorted by (level, AND first) in which levels grow along
   dependencies is again a dependency-respecting emission: this is the
   sort.SliceStable step of Compile for the GMW target *)
Theorem emission_ok_sorted G idf nw order :
  emission_ok G idf nw order -> levels_ok G order ->
  emission_ok G idf nw (ssort (gmw_less G) order).
Proof.
  intros EO LP.
  pose proof (ssort_perm (gmw_less G) order) as P.
  pose proof (ssort_sorted (gmw_less G) (gmw_key G) (gmw_less_key G) order) as SS.
  constructor.
  - intros gid Hin. apply (e_live _ _ _ _ EO). eapply Permutation_in; eauto.
  - intros s1 g s2 Hs w Hw.
    assert (Hg : In g order).
    { eapply Permutation_in; [exact P|]. rewrite Hs. apply in_or_app. right. now left. }
    destruct (in_split _ _ Hg) as (l1 & l2 & Hl).
    destruct (e_dep _ _ _ _ EO l1 g l2 Hl w Hw) as [H|(p & Hp & E)]; [now left|].
    right. exists p. split; auto.
    pose proof (LP l1 g l2 Hl w Hw p Hp E) as Hlev.
    assert (Hk : gmw_key G p < gmw_key G g).
    { unfold gmw_key. destruct (is_and _), (is_and _); lia. }
    assert (Hps : In p (s1 ++ g :: s2)).
    { rewrite <- Hs. eapply Permutation_in; [apply Permutation_sym, P|].
      rewrite Hl. apply in_or_app. now left. }
    apply in_app_or in Hps. destruct Hps as [H|[H|H]]; auto.
    + subst p. lia.
    + rewrite Hs in SS. pose proof (sorted_before (gmw_key G) s1 g s2 SS p H). lia.
  - intros w1 w2 H1 H2. apply (e_inj _ _ _ _ EO); eapply rel_perm; eauto.
  - intros w H. apply (e_lt _ _ _ _ EO). eapply rel_perm; eauto.
  - apply (e_ins _ _ _ _ EO).
  - intros k Hk. destruct (e_outs _ _ _ _ EO k Hk) as [H1 H2]. split; auto.
    eapply rel_perm; [apply Permutation_sym|]; eauto.
Qed.

(* ---- Compile does not change the graph's gates --------------------- *)

Definition cstable (G G' : graph) : Prop :=
  gins G' = gins G /\ gouts G' = gouts G /\ gorder G' = gorder G /\
  forall gid, nop (gn G' gid) = nop (gn G gid) /\ nA (gn G' gid) = nA (gn G gid) /\
              nB (gn G' gid) = nB (gn G gid) /\ nO (gn G' gid) = nO (gn G gid) /\
              ndead (gn G' gid) = ndead (gn G gid).

Lemma cstable_refl G : cstable G G.
Proof. repeat split; auto. Qed.

Lemma cstable_trans G1 G2 G3 : cstable G1 G2 -> cstable G2 G3 -> cstable G1 G3.
Proof.
  intros (a1&a2&a3&a4) (b1&b2&b3&b4).
  split; [congruence|]. split; [congruence|]. split; [congruence|].
  intros gid. destruct (a4 gid) as (p1&p2&p3&p4&p5). destruct (b4 gid) as (q1&q2&q3&q4&q5).
  repeat split; congruence.
Qed.

Lemma cstable_set_w G w r : cstable G (set_w G w r).
Proof. repeat split; auto. Qed.

Lemma cstable_set_err G e : cstable G (set_err G e).
Proof. repeat split; auto. Qed.

Lemma cstable_visit level st gid : cstable (cg st) (cg (visit level st gid)).
Proof.
  unfold visit. destruct (_ && _ && _); [|apply cstable_refl]. simpl.
  split; [reflexivity|]. split; [reflexivity|]. split; [reflexivity|].
  intros g. simpl. unfold fupd. destruct (Nat.eqb_spec g gid); subst; simpl; auto.
Qed.

Lemma cstable_fold_visit level l : forall st,
  cstable (cg st) (cg (fold_left (visit level) l st)).
Proof.
  induction l as [|g l IH]; intros st; simpl; [apply cstable_refl|].
  eapply cstable_trans; [apply cstable_visit|apply IH].
Qed.

Lemma cstable_wire_assign st level w : cstable (cg st) (cg (wire_assign st level w)).
Proof.
  unfold wire_assign. destruct (wout _); [apply cstable_refl|].
  destruct (assigned (cg st) w).
  - apply cstable_fold_visit.
  - eapply cstable_trans; [|apply cstable_fold_visit]. simpl. apply cstable_set_w.
Qed.

Lemma cstable_gate_assign st gid : cstable (cg st) (cg (gate_assign st gid)).
Proof.
  unfold gate_assign. destruct (ndead _); [apply cstable_refl|]. simpl.
  apply cstable_wire_assign.
Qed.

Lemma cstable_drain fuel : forall st, cstable (cg st) (cg (drain fuel st)).
Proof.
  induction fuel as [|f IH]; intros st; simpl.
  - destruct (cpend st); [apply cstable_refl|]. simpl. apply cstable_set_err.
  - destruct (cpend st) as [|gid rest]; [apply cstable_refl|].
    eapply cstable_trans; [|apply IH].
    apply (cstable_gate_assign (mkC (cg st) (cnext st) rest (casg st)) gid).
Qed.

Lemma cstable_assign_output st w : cstable (cg st) (cg (assign_output st w)).
Proof.
  unfold assign_output. destruct (assigned _ _); simpl;
    [apply cstable_set_err|apply cstable_set_w].
Qed.

Lemma cstable_fold {A} (f : cstate -> A -> cstate) l :
  (forall st a, cstable (cg st) (cg (f st a))) ->
  forall st, cstable (cg st) (cg (fold_left f l st)).
Proof.
  intros H. induction l as [|a l IH]; intros st; simpl; [apply cstable_refl|].
  eapply cstable_trans; [apply H|apply IH].
Qed.

Lemma cstable_compile_assign G : cstable G (cg (compile_assign G)).
Proof.
  unfold compile_assign.
  eapply cstable_trans; [|apply cstable_fold; apply cstable_assign_output].
  eapply cstable_trans; [|apply cstable_drain].
  apply (cstable_fold (fun st w => wire_assign st 0 w) (gins G)
           (fun st a => cstable_wire_assign st 0 a) (mkC G 0 [] [])).
Qed.

Lemma cstable_sat G G' x v : cstable G G' -> sat G x v -> sat G' x v.
Proof.
  intros (Hi & _ & Ho & Hn). apply sat_congr; auto.
  intros gid. destruct (Hn gid) as (p1&p2&p3&p4&p5).
  repeat split; auto. unfold node_fn. now rewrite p1, p2, p3.
Qed.

(* Compile: if the assigned order and numbering form a dependency-respecting
   emission (and, for GMW, levels grow along dependencies), then the flat
   circuit computes the graph's valuation on the output wires *)
Theorem compile_correct t G x v :
  let st := compile_assign G in
  emission_ok (cg st) (id_of (cg st)) (cnext st) (casg st) ->
  (t = GMW -> levels_ok (cg st) (casg st)) ->
  sat G x v -> length x = length (gins G) ->
  eval_plain (compile t G) x = map v (gouts G).
Proof.
  intros st EO LP SAT Hx.
  pose proof (cstable_compile_assign G) as CS. fold st in CS.
  pose proof CS as (Hi & Hou & _).
  assert (SAT' : sat (cg st) x v) by (eapply cstable_sat; eauto).
  assert (EO' : emission_ok (cg st) (id_of (cg st)) (cnext st) (compile_order t st)).
  { destruct t; simpl; auto. apply emission_ok_sorted; auto. }
  pose proof (flat_eval_correct (cg st) (id_of (cg st)) (cnext st) (compile_order t st) x v EO' SAT') as F.
  rewrite Hi, Hou in F. specialize (F Hx).
  unfold compile, compile_state. fold st. simpl.
  unfold flat in F. rewrite Hi, Hou in F. exact F.
Qed.

(* ------------------------------------------------------------------ *)
(* Part 3: meaning of a freshly built graph                           *)

Lemma node_fn_ext g v v' :
  (forall w, In w (inputs_of g) -> v w = v' w) -> node_fn g v = node_fn g v'.
Proof.
  unfold node_fn, inputs_of. intros H. destruct (is_inv (nop g)).
  - rewrite (H (nA g)) by (now left). reflexivity.
  - rewrite (H (nA g)) by (now left). rewrite (H (nB g)) by (right; now left). reflexivity.
Qed.

(* cc.ZeroWire()/cc.OneWire() as compiler.go builds them, and nothing else
   carries a constant annotation *)
Definition std_consts (G : graph) : Prop :=
  exists z o iw gz go gi,
    gzero G = Some z /\ gone G = Some o /\
    wv (gw G z) = Zero /\ wv (gw G o) = One /\
    (forall w, wv (gw G w) <> Unknown -> w = z \/ w = o) /\
    live G gi /\ nop (gn G gi) = INV /\ nA (gn G gi) = input0 G /\ nO (gn G gi) = iw /\
    live G gz /\ nop (gn G gz) = AND /\ nA (gn G gz) = input0 G /\ nB (gn G gz) = iw /\
    nO (gn G gz) = z /\
    live G go /\ nop (gn G go) = XOR /\ nA (gn G go) = input0 G /\ nB (gn G go) = iw /\
    nO (gn G go) = o.

Lemma std_consts_sound G x v : std_consts G -> sat G x v -> vsound G v /\ consts_ok G.
Proof.
  intros (z & o & iw & gz & go & gi & Hz & Ho & Vz & Vo & Hall &
          Li & Oi & Ai & Wi & Lz & Oz & Az & Bz & Wz & Lo & Oo & Ao & Bo & Wo) [_ Hg].
  pose proof (Hg gi Li) as Ei. pose proof (Hg gz Lz) as Ez. pose proof (Hg go Lo) as Eo.
  unfold node_fn in Ei, Ez, Eo. rewrite Oi, Ai, Wi in Ei. rewrite Oz, Az, Bz, Wz in Ez.
  rewrite Oo, Ao, Bo, Wo in Eo. simpl in Ei, Ez, Eo.
  assert (Fz : v z = false) by (rewrite Ez, Ei; destruct (v (input0 G)); reflexivity).
  assert (Fo : v o = true) by (rewrite Eo, Ei; destruct (v (input0 G)); reflexivity).
  split.
  - intros w. split; intros Hw.
    + destruct (Hall w) as [->| ->]; [congruence|auto|congruence].
    + destruct (Hall w) as [->| ->]; [congruence|congruence|auto].
  - exists z, o. auto.
Qed.

(* a freshly built graph: gates in dependency order, single assignment,
   inputs distinct and never written, no dead gate, standard constants *)
(* the part of [wfg] that does not mention the constant wires: gates in
   dependency order, single assignment, inputs distinct and never written,
   no dead gate.  Graphs built without cc.ZeroWire()/cc.OneWire() satisfy it. *)
Record wfg0 (G : graph) : Prop := {
  w0_nodup_ins : NoDup (gins G);
  w0_nodead : forall gid, In gid (gorder G) -> ndead (gn G gid) = false;
  w0_topo : forall l1 g l2, gorder G = l1 ++ g :: l2 ->
      (forall w, In w (inputs_of (gn G g)) ->
                 In w (gins G) \/ exists p, In p l1 /\ nO (gn G p) = w) /\
      ~ In (nO (gn G g)) (gins G) /\
      (forall p, In p l1 -> nO (gn G p) <> nO (gn G g)) }.

Record wfg (G : graph) : Prop := {
  wf_nodup_ins : NoDup (gins G);
  wf_nodead : forall gid, In gid (gorder G) -> ndead (gn G gid) = false;
  wf_topo : forall l1 g l2, gorder G = l1 ++ g :: l2 ->
      (forall w, In w (inputs_of (gn G g)) ->
                 In w (gins G) \/ exists p, In p l1 /\ nO (gn G p) = w) /\
      ~ In (nO (gn G g)) (gins G) /\
      (forall p, In p l1 -> nO (gn G p) <> nO (gn G g));
  wf_consts : std_consts G }.

Lemma wfg_wfg0 G : wfg G -> wfg0 G.
Proof. intros WF. constructor; apply WF. Qed.

Lemma init_val_notin ins : forall x v0 w, ~ In w ins -> init_val ins x v0 w = v0 w.
Proof.
  induction ins as [|a ins IH]; intros x v0 w Hn; simpl; auto.
  rewrite IH by (intros H; apply Hn; now right).
  apply fupd_other. intros ->. apply Hn. now left.
Qed.

Lemma init_val_spec ins : forall x v0 i,
  NoDup ins -> i < length ins -> init_val ins x v0 (nth i ins 0) = nth i x false.
Proof.
  induction ins as [|a ins IH]; intros x v0 i Hnd Hi; simpl in *; [lia|].
  inversion Hnd as [|? ? Hna Hnd']; subst.
  destruct i as [|j].
  - rewrite init_val_notin by auto. rewrite fupd_same. destruct x; reflexivity.
  - rewrite IH by (auto; lia). destruct x; simpl; auto. destruct j; reflexivity.
Qed.

Section Geval.
  Variable G : graph.
  Hypothesis WF : wfg0 G.

  Lemma geval_fold : forall l2 l1 v0,
    gorder G = l1 ++ l2 ->
    let vf := fold_left (geval_step G) l2 v0 in
    (forall w, (forall g, In g l2 -> nO (gn G g) <> w) -> vf w = v0 w) /\
    (forall g, In g l2 -> vf (nO (gn G g)) = node_fn (gn G g) vf).
  Proof.
    induction l2 as [|g l2 IH]; intros l1 v0 Ho; simpl.
    - split; auto. intros g [].
    - assert (Hd : ndead (gn G g) = false).
      { apply (w0_nodead _ WF). rewrite Ho. apply in_or_app. right. now left. }
      set (v1 := fupd v0 (nO (gn G g)) (node_fn (gn G g) v0)).
      assert (Hstep : geval_step G v0 g = v1) by (unfold geval_step; rewrite Hd; reflexivity).
      rewrite Hstep.
      assert (Ho' : gorder G = (l1 ++ [g]) ++ l2) by (rewrite <- app_assoc; exact Ho).
      destruct (IH (l1 ++ [g]) v1 Ho') as [IHa IHb].
      destruct (w0_topo _ WF l1 g l2 Ho) as (Tin & Tnot & Tdist).
      (* outputs of later gates differ from those of g and of earlier gates *)
      assert (Later : forall h, In h l2 ->
                nO (gn G h) <> nO (gn G g) /\ ~ In (nO (gn G h)) (gins G) /\
                forall p, In p l1 -> nO (gn G p) <> nO (gn G h)).
      { intros h Hh. destruct (in_split _ _ Hh) as (a & b & E).
        assert (Hs : gorder G = (l1 ++ g :: a) ++ h :: b).
        { rewrite Ho, E. rewrite <- app_assoc. reflexivity. }
        destruct (w0_topo _ WF _ _ _ Hs) as (_ & N & D).
        split; [|split; auto].
        - intros Eq. apply (D g); [apply in_or_app; right; now left|congruence].
        - intros p Hp. apply D. apply in_or_app. now left. }
      split.
      + intros w Hw. rewrite IHa by (intros h Hh; apply Hw; now right).
        unfold v1. apply fupd_other. intros ->. apply (Hw g); [now left|reflexivity].
      + intros h [<-|Hh]; [|now apply IHb].
        rewrite IHa by (intros h' Hh'; apply (proj1 (Later h' Hh'))).
        unfold v1 at 1. rewrite fupd_same.
        apply node_fn_ext. intros w Hw. symmetry.
        rewrite IHa.
        * unfold v1. apply fupd_other. intros ->.
          destruct (Tin _ Hw) as [H|(p & Hp & E)]; [contradiction|].
          apply (Tdist p Hp E).
        * intros h Hh Eq. destruct (Later h Hh) as (_ & N & D).
          destruct (Tin _ Hw) as [H|(p & Hp & E)]; [congruence|].
          apply (D p Hp). congruence.
  Qed.

  (* forward evaluation is a satisfying valuation *)
  Theorem geval_sat0 x : sat G x (geval G x).
  Proof.
    unfold geval.
    destruct (geval_fold (gorder G) [] (init_val (gins G) x (fun _ => false)) eq_refl) as [Ha Hb].
    split.
    - intros i Hi. rewrite Ha.
      + apply init_val_spec; auto. apply (w0_nodup_ins _ WF).
      + intros g Hg Eq. destruct (in_split _ _ Hg) as (a & b & E).
        destruct (w0_topo _ WF a g b E) as (_ & N & _). apply N. rewrite Eq. now apply nth_In.
    - intros gid [Hin _]. now apply Hb.
  Qed.
End Geval.

(* ... sound for the constants *)
Theorem geval_sat G (WF : wfg G) x : Inv x (geval G x) G.
Proof.
  pose proof (geval_sat0 G (wfg_wfg0 G WF) x) as S.
  destruct (std_consts_sound G x _ (wf_consts _ WF) S) as [V C].
  split; [|split]; auto.
Qed.

(* ------------------------------------------------------------------ *)
(* Part 4: ShortCircuitXORZero                                        *)

Definition ranged (G : graph) : Prop :=
  (forall gid, live G gid ->
     nO (gn G gid) < gnw G /\ forall w, In w (inputs_of (gn G gid)) -> w < gnw G) /\
  (forall w, In w (gins G) -> w < gnw G) /\
  (forall z, gzero G = Some z -> z < gnw G) /\ (forall o, gone G = Some o -> o < gnw G).

(* the gates keep operation, inputs and dead flag *)
Definition same_shape (G G' : graph) : Prop :=
  forall i, nop (gn G' i) = nop (gn G i) /\ nA (gn G' i) = nA (gn G i) /\
            nB (gn G' i) = nB (gn G i) /\ ndead (gn G' i) = ndead (gn G i).

Lemma node_fn_congr n n' v v' :
  nop n' = nop n -> nA n' = nA n -> nB n' = nB n ->
  (forall w, In w (inputs_of n) -> v' w = v w) -> node_fn n' v' = node_fn n v.
Proof.
  intros H1 H2 H3 H. unfold node_fn. rewrite H1, H2, H3.
  unfold inputs_of in H. destruct (is_inv (nop n)).
  - rewrite (H (nA n)) by (now left). reflexivity.
  - rewrite (H (nA n)) by (now left). rewrite (H (nB n)) by (right; now left). reflexivity.
Qed.

(* the exactness of the producer link that a firing of the rewrite relies on:
   the gate found through Wire.Input() really produces the wire *)
Definition link_ok (G : graph) (zin oin : nat) : Prop :=
  forall p, isZ (wv (gw G zin)) = true -> winp (gw G oin) = Some p ->
            wnum (gw G (nO (gn G p))) = 1 -> nO (gn G p) = oin.

Lemma scx_try_Inv x v1 G g zin oin :
  ranged G -> live G g -> nop (gn G g) = XOR ->
  ((zin = nA (gn G g) /\ oin = nB (gn G g)) \/ (zin = nB (gn G g) /\ oin = nA (gn G g))) ->
  link_ok G zin oin -> Inv x v1 G ->
  let G' := scx_try G g zin oin in
  exists v2, Inv x v2 G' /\ (forall w, w < gnw G -> v2 w = v1 w) /\
             ranged G' /\ gnw G <= gnw G' /\ same_gates G G' /\ same_shape G G'.
Proof.
  intros RG Lg Hop Hor LK HI. simpl. unfold scx_try.
  assert (Triv : exists v2, Inv x v2 G /\ (forall w, w < gnw G -> v2 w = v1 w) /\
             ranged G /\ gnw G <= gnw G /\ same_gates G G /\ same_shape G G).
  { exists v1. split; [exact HI|]. split; [auto|]. split; [exact RG|]. split; [lia|].
    split; [apply same_gates_refl|]. intros i. auto. }
  destruct (isZ (wv (gw G zin))) eqn:EZ; auto.
  destruct (winp (gw G oin)) as [p|] eqn:EP; auto.
  destruct (Nat.eqb_spec (wnum (gw G (nO (gn G p)))) 1) as [E1|E1]; auto.
  clear Triv. pose proof (LK p EZ EP E1) as Hlink.
  destruct HI as ((Hin & Hg) & Hvs & (z & o & Hz1 & Ho1 & Hz2 & Ho2)).
  destruct RG as (Rg & Ri & Rz & Ro).
  set (f := gnw G).
  set (v2 := fupd v1 f (v1 oin)).
  assert (Ag : forall w, w < gnw G -> v2 w = v1 w).
  { intros w Hw. unfold v2. apply fupd_other. unfold f. lia. }
  (* the nodes of the new graph *)
  set (G' := set_n (fst (new_wire (set_n G p (n_set_O (gn G p) (nO (gn G g)))))) g
                (n_set_O (gn (fst (new_wire (set_n G p (n_set_O (gn G p) (nO (gn G g)))))) g) f)).
  assert (Shape : same_shape G G').
  { intros i. unfold G'. simpl. unfold fupd.
    destruct (Nat.eqb_spec i g); subst; simpl.
    - destruct (Nat.eqb_spec g p); subst; simpl; auto.
    - destruct (Nat.eqb_spec i p); subst; simpl; auto. }
  assert (Og : nO (gn G' g) = f).
  { unfold G'. simpl. unfold fupd. rewrite Nat.eqb_refl. reflexivity. }
  assert (Opp : p <> g -> nO (gn G' p) = nO (gn G g)).
  { intros Hne. unfold G'. simpl. unfold fupd.
    destruct (Nat.eqb_spec p g); [contradiction|]. rewrite Nat.eqb_refl. reflexivity. }
  assert (Oth : forall i, i <> g -> i <> p -> gn G' i = gn G i).
  { intros i H1 H2. unfold G'. simpl. unfold fupd.
    destruct (Nat.eqb_spec i g); [contradiction|].
    destruct (Nat.eqb_spec i p); [contradiction|]. reflexivity. }
  assert (SG : same_gates G G').
  { split; [reflexivity|]. intros i. apply Shape. }
  assert (Lv : forall i, live G' i <-> live G i).
  { intros i. unfold live. destruct SG as [So Sd]. rewrite So, Sd. tauto. }
  (* value of the rewritten XOR *)
  assert (Vz : v1 zin = false) by (apply Hvs; now apply isZ_true).
  destruct (Rg g Lg) as [ROg RIg].
  assert (HA : nA (gn G g) < gnw G) by (apply RIg; unfold inputs_of; rewrite Hop; simpl; auto).
  assert (HB : nB (gn G g) < gnw G) by (apply RIg; unfold inputs_of; rewrite Hop; simpl; auto).
  assert (Vg : node_fn (gn G g) v1 = v1 oin).
  { unfold node_fn. rewrite Hop. simpl.
    destruct Hor as [[-> ->]|[-> ->]].
    - rewrite Vz. now destruct (v1 (nB (gn G g))).
    - rewrite Vz. now destruct (v1 (nA (gn G g))). }
  assert (EG : (let '(G2, f0) := new_wire (set_n G p (n_set_O (gn G p) (nO (gn G g)))) in
                set_n G2 g (n_set_O (gn G2 g) f0)) = G') by reflexivity.
  rewrite EG. clear EG.
  exists v2.
  split; [|split; [exact Ag|split; [|split; [simpl; lia|split; [exact SG|exact Shape]]]]].
  - split; [|split].
    + (* sat *)
      split.
      * intros i Hi. simpl in Hi |- *. rewrite Ag; [now apply Hin|].
        apply Ri. now apply nth_In.
      * intros gid HL. apply Lv in HL.
        destruct (Shape gid) as (S1 & S2 & S3 & S4).
        destruct (Rg gid HL) as [ROi RIi].
        destruct (Nat.eq_dec gid g) as [->|Ng].
        -- rewrite Og. unfold v2 at 1. rewrite fupd_same. rewrite <- Vg.
           symmetry. apply node_fn_congr; auto; intros w Hw; apply Ag; now apply RIi.
        -- destruct (Nat.eq_dec gid p) as [->|Np].
           ++ rewrite (Opp Ng). rewrite Ag by exact ROg.
              rewrite (Hg g Lg), Vg, <- Hlink, (Hg p HL).
              symmetry. apply node_fn_congr; auto; intros w Hw; apply Ag; now apply RIi.
           ++ rewrite (Oth gid Ng Np). rewrite Ag by exact ROi. rewrite (Hg gid HL).
              symmetry. apply node_fn_ext. intros w Hw. apply Ag. now apply RIi.
    + (* vsound *)
      intros w. unfold G'. simpl. unfold fupd, v2, fupd. fold f.
      destruct (Nat.eqb_spec w f); subst; simpl; [split; discriminate|apply Hvs].
    + exists z, o. unfold G'. simpl. unfold fupd. fold f.
      pose proof (Rz z Hz1). pose proof (Ro o Ho1).
      destruct (Nat.eqb_spec z f); [unfold f in *; lia|].
      destruct (Nat.eqb_spec o f); [unfold f in *; lia|]. auto.
  - (* ranged *)
    assert (NW : gnw G' = S (gnw G)) by reflexivity.
    assert (NI : gins G' = gins G) by reflexivity.
    assert (NZ : gzero G' = gzero G) by reflexivity.
    assert (NO : gone G' = gone G) by reflexivity.
    unfold ranged. rewrite NW, NI, NZ, NO.
    split; [|split; [|split]].
    + intros gid HL. apply Lv in HL. destruct (Shape gid) as (S1 & S2 & S3 & S4).
      destruct (Rg gid HL) as [ROi RIi].
      split.
      * destruct (Nat.eq_dec gid g) as [->|Ng]; [rewrite Og; unfold f; lia|].
        destruct (Nat.eq_dec gid p) as [->|Np]; [rewrite (Opp Ng); lia|].
        rewrite (Oth gid Ng Np). lia.
      * intros w Hw. unfold inputs_of in Hw. rewrite S1, S2, S3 in Hw.
        specialize (RIi w Hw). lia.
    + intros w Hw. specialize (Ri w Hw). lia.
    + intros z' Hz'. specialize (Rz z' Hz'). lia.
    + intros o' Ho'. specialize (Ro o' Ho'). lia.
Qed.

(* every firing of the sweep goes through an exact producer link *)
Fixpoint links_exact (G : graph) (l : list nat) : Prop :=
  match l with
  | [] => True
  | g :: l' =>
      (is_xor (nop (gn G g)) = true ->
       link_ok G (nA (gn G g)) (nB (gn G g)) /\
       link_ok (scx_try G g (nA (gn G g)) (nB (gn G g))) (nB (gn G g)) (nA (gn G g))) /\
      links_exact (scx_step G g) l'
  end.

Lemma scx_fold_Inv x l : forall G v1,
  (forall g, In g l -> live G g) -> ranged G -> Inv x v1 G -> links_exact G l ->
  exists v2, Inv x v2 (fold_left scx_step l G) /\ (forall w, w < gnw G -> v2 w = v1 w).
Proof.
  induction l as [|g l IH]; intros G v1 Hl RG HI LE; simpl.
  - exists v1. auto.
  - destruct LE as [L1 L2].
    assert (Lg : live G g) by (apply Hl; now left).
    assert (Step : exists v2, Inv x v2 (scx_step G g) /\ (forall w, w < gnw G -> v2 w = v1 w) /\
                     ranged (scx_step G g) /\ gnw G <= gnw (scx_step G g) /\
                     same_gates G (scx_step G g)).
    { unfold scx_step in *. destruct (is_xor (nop (gn G g))) eqn:EX.
      - assert (Hop : nop (gn G g) = XOR) by (destruct (nop (gn G g)); simpl in EX; congruence).
        destruct (L1 eq_refl) as [K1 K2].
        destruct (scx_try_Inv x v1 G g (nA (gn G g)) (nB (gn G g)) RG Lg Hop
                    (or_introl (conj eq_refl eq_refl)) K1 HI)
          as (va & Ia & Aa & Ra & Na & Sa & Sha).
        set (G1 := scx_try G g (nA (gn G g)) (nB (gn G g))) in *.
        destruct (Sha g) as (s1 & s2 & s3 & s4).
        assert (Lg1 : live G1 g) by (eapply same_gates_live; eauto).
        assert (Hop1 : nop (gn G1 g) = XOR) by congruence.
        rewrite s2, s3.
        assert (K2' : link_ok G1 (nB (gn G g)) (nA (gn G g))) by exact K2.
        destruct (scx_try_Inv x va G1 g (nB (gn G g)) (nA (gn G g)) Ra Lg1 Hop1
                    (or_intror (conj (eq_sym s3) (eq_sym s2))) K2' Ia) as
            (vb & Ib & Ab & Rb & Nb & Sb & Shb).
        exists vb. split; auto. split.
        + intros w Hw. rewrite Ab by lia. now apply Aa.
        + split; auto. split; [lia|]. eapply same_gates_trans; eauto.
      - exists v1. split; [exact HI|]. split; [auto|]. split; [exact RG|]. split; [lia|].
        apply same_gates_refl. }
    destruct Step as (va & Ia & Aa & Ra & Na & Sa).
    destruct (IH (scx_step G g) va) as (vb & Ib & Ab); auto.
    + intros h Hh. eapply same_gates_live; eauto. apply Hl. now right.
    + exists vb. split; auto. intros w Hw. rewrite Ab by lia. now apply Aa.
Qed.

(* ShortCircuitXORZero: a satisfying valuation extends to the fresh wires *)
Theorem short_circuit_xor_zero_sat x v G :
  (forall gid, In gid (gorder G) -> ndead (gn G gid) = false) ->
  ranged G -> links_exact G (gorder G) -> Inv x v G ->
  exists v', Inv x v' (short_circuit_xor_zero G) /\ forall w, w < gnw G -> v' w = v w.
Proof.
  intros Hd RG LE HI. apply scx_fold_Inv; auto.
  intros g Hg. split; auto.
Qed.

(* ------------------------------------------------------------------ *)
(* Part 5: the pipeline of CompileCircuit                             *)

(* For all prune flags and targets the compiled circuit computes the meaning
   of the freshly built graph.  The structural side conditions that are not
   derived here from [wfg] are explicit hypotheses: wire ids in range and
   exact producer links at every firing of ShortCircuitXORZero (a consequence
   of "NumOutputs >= true use count"), Compile's BFS order being a
   dependency-respecting emission with growing levels, and the passes leaving
   cc.InputWires / cc.OutputWires alone. *)
Theorem pipeline_correct (do_prune : bool) t G x :
  wfg G -> length x = length (gins G) ->
  let G1 := const_propagate G in
  ranged G1 -> links_exact G1 (gorder G1) ->
  (forall o, In o (gouts G) -> o < gnw G1) ->
  let G3 := optimize do_prune G in
  gins G3 = gins G -> gouts G3 = gouts G ->
  let st := compile_assign G3 in
  emission_ok (cg st) (id_of (cg st)) (cnext st) (casg st) ->
  (t = GMW -> levels_ok (cg st) (casg st)) ->
  eval_plain (pipeline do_prune t G) x = graph_eval G x.
Proof.
  intros WF Hx G1 RG LE Ho G3 Hi Hou st EO LP.
  pose proof (geval_sat G WF x) as I0.
  destruct (const_propagate_sat x _ G (wf_nodead _ WF) I0) as [I1 S1]. fold G1 in I1, S1.
  assert (Hd1 : forall gid, In gid (gorder G1) -> ndead (gn G1 gid) = false).
  { intros gid Hin. destruct S1 as [So Sd]. rewrite Sd. apply (wf_nodead _ WF). now rewrite <- So. }
  destruct (short_circuit_xor_zero_sat x _ G1 Hd1 RG LE I1) as (v' & I2 & Ag).
  assert (I3 : Inv x v' G3).
  { unfold G3, optimize. fold G1. destruct do_prune; [now apply prune_sat|exact I2]. }
  destruct I3 as (S3 & _).
  unfold pipeline. fold G3.
  rewrite (compile_correct t G3 x v' EO LP S3) by (rewrite Hi; exact Hx).
  rewrite Hou. unfold graph_eval. apply map_ext_in. intros o Hin. apply Ag. now apply Ho.
Qed.

(* the hypothesis-free corollaries at the pass level: for every well-formed
   graph and input, ConstPropagate and Prune (and ShortCircuitXORZero when its
   links are exact) leave the output bits of the satisfying valuation alone *)
Corollary passes_keep_outputs x G :
  wfg G ->
  let v := geval G x in
  Inv x v (const_propagate G) /\ Inv x v (prune (const_propagate G)).
Proof.
  intros WF v. pose proof (geval_sat G WF x) as I0.
  destruct (const_propagate_sat x _ G (wf_nodead _ WF) I0) as [I1 _].
  split; auto. now apply prune_sat.
Qed.
