(* Scratch.v — executable model of the SIZING and CARVING of the pooled garbling
   scratch (circuit/garble.go):
     garbleScratchPool   the slabSize loop over c.Gates and the pool's New function
                         (wires: NumWires, slab: slabSize, gates: NumGates)
     Circuit.Garble      the gate loop's use of the scratch: every gate's rows
                         table[start:start+count] are copied to slab[slabOff:slabOff+count],
                         gates[i] becomes that 3-index slice (or nil when count = 0),
                         slabOff += count
   The rows themselves are those of the C01 model (Circuit/Garble.v, garble_gate).
   Go's run-time checks are explicit: an index or slice expression out of range is
   the value [CarvePanic].  No proofs here; see ScratchProof.v. *)
From Coq Require Import NArith List Bool Arith.
From Mpc Require Import Base.Label Circuit.Circuit Circuit.Garble.
Import ListNotations.
Open Scope nat_scope.

(* the switch of the slabSize loop in garbleScratchPool *)
Definition op_rows (o : op) : nat :=
  match o with
  | AND => 2
  | OR => 3
  | INV => 1
  | XOR | XNOR => 0
  end.

(* var slabSize int; for i := range c.Gates { switch c.Gates[i].Op {...} } *)
Definition slab_size (gs : list gate) : nat :=
  fold_left (fun s g => s + op_rows (gop g)) gs 0.

(* lengths of the three buffers of a garbledScratch *)
Record shape := mkShape { sh_wires : nat; sh_slab : nat; sh_gates : nat }.

(* pool.New: make([]ot.Wire, c.NumWires), make([]ot.Label, slabSize),
   make([][]ot.Label, c.NumGates); [numgates] is the field Circuit.NumGates
   (the circuit model of Circuit.v has the gate list only). *)
Definition scratch_shape (c : circuit) (numgates : nat) : shape :=
  mkShape (nwires c) (slab_size (gates c)) numgates.

(* a slice header into the slab: None = nil, Some (off, len); cap = len because of
   the full slice expression slab[off : off+count : off+count] *)
Definition hdr := option (nat * nat).

Record scratch := mkScratch { sc_wires : list wire; sc_slab : list label; sc_gates : list hdr }.

Definition new_scratch (sh : shape) : scratch :=
  mkScratch (repeat w0 (sh_wires sh)) (repeat 0%N (sh_slab sh)) (repeat None (sh_gates sh)).

Definition has_shape (sc : scratch) (sh : shape) : Prop :=
  length (sc_wires sc) = sh_wires sh /\ length (sc_slab sc) = sh_slab sh /\
  length (sc_gates sc) = sh_gates sh.

(* copy(slab[off:off+len(row)], row) for off + len(row) <= len(slab) *)
Definition blit (slab : list label) (off : nat) (row : list label) : list label :=
  firstn off slab ++ row ++ skipn (off + length row) slab.

(* site 0: gates[i] index out of range; site 1: slab[slabOff:slabOff+count] out of range *)
Inductive carve_res :=
| CarveOk (slab : list label) (hdrs : list hdr) (off : nat)
| CarvePanic (gi : nat) (site : nat).

(* the scratch part of the gate loop of Circuit.Garble; [rows] = what garbleInto
   returned for gates i, i+1, ... *)
Fixpoint carve (rows : list (list label)) (i off : nat) (slab : list label) (hdrs : list hdr)
  : carve_res :=
  match rows with
  | [] => CarveOk slab hdrs off
  | row :: rest =>
      if length hdrs <=? i then CarvePanic i 0
      else match row with
           | [] => carve rest (S i) off slab (upd hdrs i None)
           | _ :: _ =>
               let n := length row in
               if length slab <? off + n then CarvePanic i 1
               else carve rest (S i) (off + n) (blit slab off row) (upd hdrs i (Some (off, n)))
           end
  end.

Inductive gres :=
| GOk (g : garbled) (sc : scratch) (off : nat)
| GPanic (gi : nat) (site : nat).

(* Circuit.Garble on a scratch taken from the pool *)
Definition garble_into (pi : N -> N) (rnd : nat -> N) (sc : scratch) (c : circuit) : gres :=
  let g := garble pi rnd (sc_wires sc) c in
  match carve (gTables g) 0 0 (sc_slab sc) (sc_gates sc) with
  | CarveOk s h off => GOk g (mkScratch (gWires g) s h) off
  | CarvePanic i k => GPanic i k
  end.

(* what the caller reads through Garbled.Gates *)
Definition view1 (slab : list label) (h : hdr) : list label :=
  match h with
  | None => []
  | Some (o, n) => firstn n (skipn o slab)
  end.
Definition view (slab : list label) (hdrs : list hdr) : list (list label) :=
  map (view1 slab) hdrs.

(* a sequence of garblings, each into the scratch the previous one left (Release, then
   pool.Get handing the same object out again); None = some garbling panicked *)
Fixpoint garble_seq (calls : list ((N -> N) * (nat -> N))) (sc : scratch) (c : circuit)
  : option scratch :=
  match calls with
  | [] => Some sc
  | (pi, rnd) :: rest =>
      match garble_into pi rnd sc c with
      | GOk _ sc' _ => garble_seq rest sc' c
      | GPanic _ _ => None
      end
  end.

(* indices of [wires] touched by Circuit.Garble: wires[i] = w for the inputs, then per gate
   the reads of garbleInto (b = wires[g.Input1] except for INV, a = wires[g.Input0]) and
   the write wires[g.Output] = c *)
Definition gate_indices (g : gate) : list nat :=
  match gop g with
  | INV => [gin0 g; gout g]
  | _ => [gin1 g; gin0 g; gout g]
  end.
Definition garble_indices (c : circuit) : list nat :=
  seq 0 (ninputs c) ++ flat_map gate_indices (gates c).

(* two circuits with equal NumWires and NumGates and different slab sizes *)
Definition mix_light : circuit := mkCircuit 3 2 1 [mkGate 0 1 2 XOR].
Definition mix_heavy : circuit := mkCircuit 3 2 1 [mkGate 0 1 2 OR].
