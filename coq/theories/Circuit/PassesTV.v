(* PassesTV.v — frame facts of the passes (property C09): no pass assigns a
   wire id, sets Visited, changes an output flag or touches
   InputWires/OutputWires/the constant wires. *)
From Coq Require Import List Bool Arith Lia.
From Mpc Require Import Circuit.Circuit Circuit.Passes Circuit.PassesProof Circuit.PassesBFS
  Circuit.PassesIO.
Import ListNotations.

Record TV (G : graph) : Prop := {
  tv_fresh : forall w, wid (gw G w) = None;
  tv_unvis : forall g, nvis (gn G g) = false;
  tv_ins_nodup : NoDup (gins G);
  tv_ins_flag : forall w, In w (gins G) -> wout (gw G w) = false;
  tv_outs_nodup : NoDup (gouts G);
  tv_outs_flag : forall w, wout (gw G w) = true <-> In w (gouts G) }.

Definition tvs (G G' : graph) : Prop :=
  gins G' = gins G /\ gouts G' = gouts G /\ gzero G' = gzero G /\ gone G' = gone G /\
  (forall w, wid (gw G' w) = wid (gw G w) /\ wout (gw G' w) = wout (gw G w)) /\
  (forall g, nvis (gn G' g) = nvis (gn G g)).

Lemma tvs_refl G : tvs G G.
Proof. repeat split. Qed.

Lemma tvs_trans G1 G2 G3 : tvs G1 G2 -> tvs G2 G3 -> tvs G1 G3.
Proof.
  intros (a1&a2&a3&a4&a5&a6) (b1&b2&b3&b4&b5&b6).
  split; [congruence|]. split; [congruence|]. split; [congruence|]. split; [congruence|].
  split.
  - intros w. destruct (a5 w), (b5 w). split; congruence.
  - intros g. now rewrite b6, a6.
Qed.

Lemma tvs_TV G G' : tvs G G' -> TV G -> TV G'.
Proof.
  intros (a1&a2&a3&a4&a5&a6) T. constructor.
  - intros w. rewrite (proj1 (a5 w)). apply (tv_fresh _ T).
  - intros g. rewrite a6. apply (tv_unvis _ T).
  - rewrite a1. apply (tv_ins_nodup _ T).
  - intros w Hw. rewrite a1 in Hw. rewrite (proj2 (a5 w)). now apply (tv_ins_flag _ T).
  - rewrite a2. apply (tv_outs_nodup _ T).
  - intros w. rewrite (proj2 (a5 w)), a2. apply (tv_outs_flag _ T).
Qed.

Lemma tvs_set_err G e : tvs G (set_err G e). Proof. repeat split. Qed.
Lemma tvs_set_order G o : tvs G (set_order G o). Proof. repeat split. Qed.

Lemma tvs_set_w G w r :
  wid r = wid (gw G w) -> wout r = wout (gw G w) -> tvs G (set_w G w r).
Proof.
  intros H1 H2. split; [reflexivity|]. split; [reflexivity|]. split; [reflexivity|].
  split; [reflexivity|]. split; [|intros g; reflexivity].
  intros w0. simpl. unfold fupd. destruct (Nat.eqb_spec w0 w); subst; auto.
Qed.

Lemma tvs_set_n G i n : nvis n = nvis (gn G i) -> tvs G (set_n G i n).
Proof.
  intros H. split; [reflexivity|]. split; [reflexivity|]. split; [reflexivity|].
  split; [reflexivity|]. split; [intros w; split; reflexivity|].
  intros g. simpl. unfold fupd. destruct (Nat.eqb_spec g i); subst; auto.
Qed.

Lemma tvs_set_value G w v : tvs G (set_value G w v). Proof. apply tvs_set_w; reflexivity. Qed.
Lemma tvs_add_output G w g : tvs G (add_output G w g). Proof. apply tvs_set_w; reflexivity. Qed.
Lemma tvs_disconnect G w : tvs G (disconnect_outputs G w). Proof. apply tvs_set_w; reflexivity. Qed.
Lemma tvs_remove_output G w : tvs G (remove_output G w).
Proof. unfold remove_output. destruct (wnum _); [apply tvs_set_err|apply tvs_set_w; reflexivity]. Qed.

Lemma tvs_replace_input G c from to : tvs G (replace_input G c from to).
Proof.
  unfold replace_input.
  assert (H : tvs G (add_output (remove_output G from) to c)).
  { eapply tvs_trans; [apply tvs_remove_output|apply tvs_add_output]. }
  destruct (Nat.eqb _ _); [eapply tvs_trans; [exact H|apply tvs_set_n; reflexivity]|].
  destruct (_ && _); [eapply tvs_trans; [exact H|apply tvs_set_n; reflexivity]|apply tvs_set_err].
Qed.

Lemma tvs_fold {A} (f : graph -> A -> graph) l :
  (forall G a, tvs G (f G a)) -> forall G, tvs G (fold_left f l G).
Proof.
  intros H. induction l as [|a l IH]; intros G; simpl; [apply tvs_refl|].
  eapply tvs_trans; [apply H|apply IH].
Qed.

Lemma tvs_short_circuit G gid o : tvs G (short_circuit G gid o).
Proof.
  unfold short_circuit. destruct (wout _); [apply tvs_refl|].
  eapply tvs_trans; [|apply tvs_disconnect]. apply tvs_fold. intros; apply tvs_replace_input.
Qed.

Lemma tvs_cp_switch G gid : tvs G (cp_switch G gid).
Proof.
  unfold cp_switch. destruct (cp_action _ _ _);
    auto using tvs_refl, tvs_set_value, tvs_short_circuit.
Qed.

Lemma tvs_subst G1 gid n' z :
  nvis n' = nvis (gn G1 gid) -> tvs G1 (add_output (set_n G1 gid n') z gid).
Proof.
  intros H. apply tvs_trans with (set_n G1 gid n'); [now apply tvs_set_n|apply tvs_add_output].
Qed.

(* with both constants present the substitution blocks allocate nothing *)
Lemma tvs_cp_subst_A G gid z o :
  gzero G = Some z -> gone G = Some o -> tvs G (cp_subst_A G gid).
Proof.
  intros Hz Ho. unfold cp_subst_A.
  pose proof (tvs_remove_output G (nA (gn G gid))) as R. pose proof R as (_ & _ & rz & ro & _).
  destruct (wv _); [apply tvs_refl| |].
  - unfold zero_wire. rewrite rz, Hz.
    eapply tvs_trans; [exact R|]. apply tvs_subst. reflexivity.
  - unfold one_wire. rewrite ro, Ho.
    eapply tvs_trans; [exact R|]. apply tvs_subst. reflexivity.
Qed.

Lemma tvs_cp_subst_B G gid z o :
  gzero G = Some z -> gone G = Some o -> tvs G (cp_subst_B G gid).
Proof.
  intros Hz Ho. unfold cp_subst_B. destruct (is_inv _); [apply tvs_refl|].
  pose proof (tvs_remove_output G (nB (gn G gid))) as R. pose proof R as (_ & _ & rz & ro & _).
  destruct (wv _); [apply tvs_refl| |].
  - unfold zero_wire. rewrite rz, Hz.
    eapply tvs_trans; [exact R|]. apply tvs_subst. reflexivity.
  - unfold one_wire. rewrite ro, Ho.
    eapply tvs_trans; [exact R|]. apply tvs_subst. reflexivity.
Qed.

Lemma tvs_cp_step G gid z o :
  gzero G = Some z -> gone G = Some o -> tvs G (cp_step G gid).
Proof.
  intros Hz Ho. rewrite cp_step_eq.
  pose proof (tvs_cp_switch G gid) as T1. pose proof T1 as (_ & _ & z1 & o1 & _).
  pose proof (tvs_cp_subst_A (cp_switch G gid) gid z o) as T2.
  rewrite z1, o1 in T2. specialize (T2 Hz Ho). pose proof T2 as (_ & _ & z2 & o2 & _).
  pose proof (tvs_cp_subst_B (cp_subst_A (cp_switch G gid) gid) gid z o) as T3.
  rewrite z2, z1, o2, o1 in T3. specialize (T3 Hz Ho).
  eapply tvs_trans; [exact T1|]. eapply tvs_trans; eauto.
Qed.

Lemma tvs_cp_fold z o l : forall G,
  gzero G = Some z -> gone G = Some o -> tvs G (fold_left cp_step l G).
Proof.
  induction l as [|g l IH]; intros G Hz Ho; simpl; [apply tvs_refl|].
  pose proof (tvs_cp_step G g z o Hz Ho) as T. pose proof T as (_ & _ & z1 & o1 & _).
  eapply tvs_trans; [exact T|]. apply IH; congruence.
Qed.

Lemma tvs_const_propagate G : consts_ok G -> tvs G (const_propagate G).
Proof. intros (z & o & Hz & Ho & _). now apply (tvs_cp_fold z o). Qed.

Lemma tvs_gate_prune G g : tvs G (fst (gate_prune G g)).
Proof.
  unfold gate_prune. destruct (_ || _ || _); simpl; [apply tvs_refl|].
  eapply tvs_trans; [|apply tvs_remove_output].
  apply tvs_trans with (set_n G g (n_set_dead (gn G g))); [apply tvs_set_n; reflexivity|].
  destruct (is_inv _); [apply tvs_refl|apply tvs_remove_output].
Qed.
