(* GGarbleProof.v —
   (1) the generic gate code instantiated concretely is the C01 model's
       garble_gate / garble_gates (so the byte-exact tie of C01 covers it);
   (2) C04, whole-circuit mode: in the symbolic (random-oracle) execution
       the transcript never contains R nor two values differing by R. *)
From Coq Require Import NArith List Bool Arith Lia ZifyN ZifyNat ZifyBool.
From Mpc Require Import Base.Label Circuit.Circuit Circuit.Garble Circuit.GarbleProof Circuit.GGarble.
Import ListNotations.
Open Scope N_scope.

(* ---------------------------------------------------------------- (1) *)
Lemma tweak_idem t : tweak (tweak t) = tweak t.
Proof. unfold tweak. apply N.mod_mod. discriminate. Qed.

Lemma half_tweak pi a t : half pi a (tweak t) = half pi a t.
Proof. unfold half. rewrite tweak_idem. reflexivity. Qed.

Lemma enc_tweak pi a b c t : enc pi a b c (tweak t) = enc pi a b c t.
Proof. unfold enc, makeK. rewrite tweak_idem. reflexivity. Qed.

Lemma ggate_concrete pi r gw id g :
  ggate_core unit sbit (conc_H pi) r (nth (gin0 g) gw w0) (nth (gin1 g) gw w0) (gop g) id tt
  = (garble_gate pi r gw id g, tt).
Proof.
  unfold ggate_core, garble_gate, conc_H, gidx, gidxU, idx, idxU.
  destruct (gop g); cbv zeta; rewrite ?half_tweak, ?enc_tweak; reflexivity.
Qed.

Lemma ggates_concrete pi r : forall gs gw id,
  ggates unit sbit (conc_H pi) r gw id tt gs = (garble_gates pi r gw id gs, tt).
Proof.
  induction gs as [|g gs IH]; intros gw id; cbn [ggates garble_gates].
  - reflexivity.
  - rewrite ggate_concrete.
    destruct (garble_gate pi r gw id g) as [[c id'] row].
    rewrite IH. destruct (garble_gates pi r (upd gw (gout g) c) id' gs) as [[gwf idf] rows].
    reflexivity.
Qed.

(* ---------------------------------------------------------------- (2) *)
Definition clear_from (m : N) (v : N) : Prop := forall k, m <= k -> N.testbit v k = false.

Lemma clear_from_mono m m' v : m <= m' -> clear_from m v -> clear_from m' v.
Proof. intros H C k Hk. apply C. lia. Qed.

Lemma clear_from_lxor m a b : clear_from m a -> clear_from m b -> clear_from m (lxor a b).
Proof. intros A B k Hk. unfold lxor. rewrite N.lxor_spec, (A k Hk), (B k Hk). reflexivity. Qed.

Lemma clear_from_0 m : clear_from m 0.
Proof. intros k _. apply N.bits_0. Qed.

Lemma bits_R k : N.testbit Rsym k = (k <? 2).
Proof.
  unfold Rsym. destruct k as [|p]; [reflexivity|].
  destruct p as [p|p|]; try reflexivity; destruct p; reflexivity.
Qed.

Lemma bits_b2n (p : bool) k : N.testbit (if p then 1 else 0) k = (p && (k =? 0)).
Proof.
  destruct p; cbn [andb]; [|apply N.bits_0].
  destruct k as [|q]; [reflexivity|]. destruct q; reflexivity.
Qed.

Lemma bits_basis perm n k :
  N.testbit (basis perm n) k = xorb (k =? N.of_nat n + 2) (perm n && (k =? 0)).
Proof.
  unfold basis. rewrite N.lxor_spec, N.pow2_bits_eqb, bits_b2n.
  rewrite (N.eqb_sym (N.of_nat n + 2) k). reflexivity.
Qed.

Lemma clear_from_R m : 2 <= m -> clear_from m Rsym.
Proof. intros H k Hk. rewrite bits_R. lia. Qed.

Lemma clear_from_basis perm n m : N.of_nat n + 3 <= m -> clear_from m (basis perm n).
Proof. intros H k Hk. rewrite bits_basis. destruct (perm n); cbn [andb]; lia. Qed.

(* every value has a bit (>= 2, i.e. a basis element) that no earlier value has *)
Definition chain (tr : list N) : Prop :=
  forall k, (k < length tr)%nat ->
    exists b, 2 <= b /\ N.testbit (nth k tr 0) b = true /\
              forall i, (i < k)%nat -> N.testbit (nth i tr 0) b = false.

Lemma chain_nil : chain [].
Proof. intros k H. cbn in H. lia. Qed.

Lemma chain_snoc tr v b :
  chain tr -> 2 <= b -> N.testbit v b = true ->
  (forall u, In u tr -> N.testbit u b = false) -> chain (tr ++ [v]).
Proof.
  intros C Hb Hv Hu k Hk. rewrite app_length in Hk. cbn [length] in Hk.
  destruct (Nat.lt_ge_cases k (length tr)) as [Hl|Hg].
  - destruct (C k Hl) as (b' & B1 & B2 & B3). exists b'. split; [exact B1|].
    rewrite app_nth1 by exact Hl. split; [exact B2|].
    intros i Hi. rewrite app_nth1 by lia. apply B3. exact Hi.
  - assert (k = length tr) by lia. subst k. exists b. split; [exact Hb|].
    rewrite app_nth2 by lia. rewrite Nat.sub_diag. cbn [nth]. split; [exact Hv|].
    intros i Hi. rewrite app_nth1 by exact Hi. apply Hu. apply nth_In. exact Hi.
Qed.

Lemma chain_r_safe tr : chain tr -> r_safe Rsym tr.
Proof.
  intros C. split.
  - intros u Hu E. subst u. destruct (In_nth _ _ 0 Hu) as (k & Hk & Ek).
    destruct (C k Hk) as (b & B1 & B2 & _). rewrite Ek, bits_R in B2. lia.
  - assert (W : forall i j, (i < j)%nat -> (j < length tr)%nat ->
                 lxor (nth i tr 0) (nth j tr 0) <> Rsym).
    { intros i j Hij Hj E. destruct (C j Hj) as (b & B1 & B2 & B3).
      specialize (B3 i Hij).
      assert (T : N.testbit (lxor (nth i tr 0) (nth j tr 0)) b = true)
        by (unfold lxor; rewrite N.lxor_spec, B2, B3; reflexivity).
      rewrite E, bits_R in T. lia. }
    intros i j Hi Hj E.
    destruct (Nat.lt_trichotomy i j) as [H|[H|H]].
    + exact (W i j H Hj E).
    + subst j. rewrite lxor_nilp in E. discriminate.
    + rewrite lxor_comm in E. exact (W j i H Hi E).
Qed.

(* ---- the memoising oracle *)
Definition tbl_ok (next : nat) (id : N) (tbl : list (hkey * nat)) : Prop :=
  forall k n, In (k, n) tbl -> (n < next)%nat /\ snd k < id.

Lemma hkey_eqb_tweak_ne kd a b t kd' a' b' t' :
  t <> t' -> hkey_eqb (kd, a, b, t) (kd', a', b', t') = false.
Proof.
  intros H. unfold hkey_eqb. destruct (N.eqb_spec t t'); [contradiction|].
  rewrite andb_false_r. reflexivity.
Qed.

Lemma hkey_eqb_a_ne kd a b t kd' a' b' t' :
  a <> a' -> hkey_eqb (kd, a, b, t) (kd', a', b', t') = false.
Proof.
  intros H. unfold hkey_eqb. destruct (N.eqb_spec a a'); [contradiction|].
  rewrite andb_false_r. reflexivity.
Qed.

Lemma hkey_eqb_b_ne kd a b t kd' a' b' t' :
  b <> b' -> hkey_eqb (kd, a, b, t) (kd', a', b', t') = false.
Proof.
  intros H. unfold hkey_eqb. destruct (N.eqb_spec b b'); [contradiction|].
  rewrite andb_false_r. reflexivity.
Qed.

Lemma slookup_fresh next id tbl kd a b t :
  tbl_ok next id tbl -> id <= t -> slookup (kd, a, b, t) tbl = None.
Proof.
  induction tbl as [|[k n] tbl IH]; intros Hok Ht; cbn [slookup]; [reflexivity|].
  destruct k as [[[kd' a'] b'] t'].
  assert (Hlt : t' < id) by (apply (Hok (kd', a', b', t') n); left; reflexivity).
  rewrite hkey_eqb_tweak_ne by lia.
  apply IH; [|exact Ht]. intros k0 n0 Hin. apply Hok. right. exact Hin.
Qed.

Lemma lxor_R_ne a : lxor a Rsym <> a.
Proof.
  intros E. assert (lxor (lxor a Rsym) a = 0) by (rewrite E; apply lxor_nilp).
  assert (Rsym = 0) by (rewrite <- H; xor_solve). discriminate.
Qed.

Lemma tweak_small t : t < 2 ^ 32 -> tweak t = t.
Proof. intros H. unfold tweak. apply N.mod_small. exact H. Qed.

Ltac cl := repeat (first [assumption | apply clear_from_lxor]).
Ltac bb :=
  unfold lxor, xor_if in *;
  repeat (rewrite ?N.lxor_spec, ?bits_basis, ?bits_R, ?N.bits_0 in * );
  lia.

Lemma sym_H_new perm k next tbl :
  slookup k tbl = None ->
  sym_H perm k (mkSst next tbl) = (basis perm next, mkSst (S next) ((k, next) :: tbl)).
Proof. intros H. unfold sym_H. cbn [stable snext]. rewrite H. reflexivity. Qed.

Definition gate_tweaks (o : op) : N := match o with AND => 2 | OR | INV => 1 | _ => 0 end.

(* what one gate does to the symbolic state *)
Definition step_post (perm : nat -> bool) (next : nat) (id : N) (tr : list N) (o : op)
           (res : wire * N * list N * sst) : Prop :=
  let '(c, id', rows, st') := res in
  (next <= snext st')%nat /\ id' = id + gate_tweaks o /\
  L1 c = lxor (L0 c) Rsym /\ clear_from (N.of_nat (snext st') + 2) (L0 c) /\
  (forall v, In v rows -> clear_from (N.of_nat (snext st') + 2) v) /\
  tbl_ok (snext st') id' (stable st') /\ chain (tr ++ rows).

Section Step.
  Variable perm : nat -> bool.
  Variables (next : nat) (id : N) (tbl : list (hkey * nat)) (tr : list N).
  Variables (a0 b0 : N).
  Hypothesis Ha : clear_from (N.of_nat next + 2) a0.
  Hypothesis Htr : forall v, In v tr -> clear_from (N.of_nat next + 2) v.
  Hypothesis Htbl : tbl_ok next id tbl.
  Hypothesis Hch : chain tr.

  Let a := mkWire a0 (lxor a0 Rsym).
  Let b := mkWire b0 (lxor b0 Rsym).

  Lemma tbl_ok_ext k1 n1 id' next' tb :
    tbl_ok next' id' tb -> (n1 < next')%nat -> snd k1 < id' -> tbl_ok next' id' ((k1, n1) :: tb).
  Proof.
    intros H Hn Hk k n [E|Hin]; [injection E as <- <-; split; assumption|apply H; exact Hin].
  Qed.

  Lemma tbl_ok_weaken next' id' :
    (next <= next')%nat -> id <= id' -> tbl_ok next' id' tbl.
  Proof. intros Hn Hi k n Hin. destruct (Htbl k n Hin). split; lia. Qed.

  Lemma old_bit_clear u k : In u tr -> N.of_nat next + 2 <= k -> N.testbit u k = false.
  Proof. intros Hu Hk. apply (Htr u Hu). exact Hk. Qed.

  Lemma step_xor (Hb : clear_from (N.of_nat next + 2) b0) :
    step_post perm next id tr XOR
      (ggate_core sst sym_sbit (sym_H perm) Rsym a b XOR id (mkSst next tbl)).
  Proof.
    cbn [ggate_core step_post L0 L1 a b snext stable gate_tweaks].
    split; [lia|]. split; [lia|]. split; [reflexivity|].
    split; [apply clear_from_lxor; assumption|].
    split; [intros v []|]. split; [exact Htbl|]. rewrite app_nil_r. exact Hch.
  Qed.

  Lemma step_xnor (Hb : clear_from (N.of_nat next + 2) b0) :
    step_post perm next id tr XNOR
      (ggate_core sst sym_sbit (sym_H perm) Rsym a b XNOR id (mkSst next tbl)).
  Proof.
    cbn [ggate_core step_post L0 L1 a b snext stable gate_tweaks].
    split; [lia|]. split; [lia|]. split; [xor_solve|].
    split; [apply clear_from_lxor; [apply clear_from_lxor; assumption| apply clear_from_R; lia]|].
    split; [intros v []|]. split; [exact Htbl|]. rewrite app_nil_r. exact Hch.
  Qed.

  Lemma step_and (Hb : clear_from (N.of_nat next + 2) b0) (Hid : id + 2 <= 2 ^ 32) :
    step_post perm next id tr AND
      (ggate_core sst sym_sbit (sym_H perm) Rsym a b AND id (mkSst next tbl)).
  Proof.
    unfold ggate_core. cbn [L0 L1 a b].
    rewrite (tweak_small id) by lia. rewrite (tweak_small (id + 1)) by lia.
    pose proof (lxor_R_ne a0) as Na. pose proof (lxor_R_ne b0) as Nb.
    (* four fresh oracle answers *)
    rewrite sym_H_new by (eapply slookup_fresh; [exact Htbl|lia]).
    rewrite sym_H_new
      by (cbn [slookup]; rewrite hkey_eqb_a_ne by exact Na; eapply slookup_fresh; [exact Htbl|lia]).
    rewrite sym_H_new
      by (cbn [slookup]; rewrite !hkey_eqb_tweak_ne by lia; eapply slookup_fresh; [exact Htbl|lia]).
    rewrite sym_H_new
      by (cbn [slookup]; rewrite hkey_eqb_a_ne by exact Nb; rewrite !hkey_eqb_tweak_ne by lia;
          eapply slookup_fresh; [exact Htbl|lia]).
    set (h0 := basis perm next). set (h1 := basis perm (S next)).
    set (h2 := basis perm (S (S next))). set (h3 := basis perm (S (S (S next)))).
    cbn [step_post snext stable gate_tweaks L0 L1].
    assert (C0 : clear_from (N.of_nat (S (S (S (S next)))) + 2) h0) by (apply clear_from_basis; lia).
    assert (C1 : clear_from (N.of_nat (S (S (S (S next)))) + 2) h1) by (apply clear_from_basis; lia).
    assert (C2 : clear_from (N.of_nat (S (S (S (S next)))) + 2) h2) by (apply clear_from_basis; lia).
    assert (C3 : clear_from (N.of_nat (S (S (S (S next)))) + 2) h3) by (apply clear_from_basis; lia).
    assert (CR : clear_from (N.of_nat (S (S (S (S next)))) + 2) Rsym) by (apply clear_from_R; lia).
    assert (Ca : clear_from (N.of_nat (S (S (S (S next)))) + 2) a0) by (eapply clear_from_mono; [|exact Ha]; lia).
    assert (Cb : clear_from (N.of_nat (S (S (S (S next)))) + 2) b0) by (eapply clear_from_mono; [|exact Hb]; lia).
    split; [lia|]. split; [reflexivity|]. split; [reflexivity|].
    split.
    { unfold xor_if. destruct (sym_sbit a0), (sym_sbit b0);
        cl. }
    split.
    { intros v [<-|[<-|[]]]; unfold xor_if; destruct (sym_sbit b0);
        cl. }
    split.
    { repeat (apply tbl_ok_ext; [|lia|cbn [snd]; lia]).
      apply tbl_ok_weaken; lia. }
    (* chain: tg carries basis next+1, te carries basis next+3 *)
    change (tr ++ [xor_if (sym_sbit b0) (lxor h0 h1) Rsym; lxor (lxor h2 h3) a0])
      with (tr ++ [xor_if (sym_sbit b0) (lxor h0 h1) Rsym] ++ [lxor (lxor h2 h3) a0]).
    rewrite app_assoc.
    apply chain_snoc with (b := N.of_nat (S (S (S next))) + 2).
    - apply chain_snoc with (b := N.of_nat (S next) + 2).
      + exact Hch.
      + lia.
      + unfold h0, h1. destruct (sym_sbit b0); bb.
      + intros u Hu. apply old_bit_clear; [exact Hu|lia].
    - lia.
    - unfold h2, h3, lxor. rewrite !N.lxor_spec.
      rewrite (Ha (N.of_nat (S (S (S next))) + 2)) by lia. bb.
    - intros u Hu. apply in_app_or in Hu. destruct Hu as [Hu|[<-|[]]].
      + apply old_bit_clear; [exact Hu|lia].
      + unfold h0, h1. destruct (sym_sbit b0); bb.
  Qed.

  Lemma step_or (Hb : clear_from (N.of_nat next + 2) b0) (Hid : id + 1 <= 2 ^ 32) :
    step_post perm next id tr OR
      (ggate_core sst sym_sbit (sym_H perm) Rsym a b OR id (mkSst next tbl)).
  Proof.
    unfold ggate_core. cbn [L0 L1 a b].
    rewrite (tweak_small id) by lia.
    pose proof (lxor_R_ne a0) as Na. pose proof (lxor_R_ne b0) as Nb.
    assert (Na' : a0 <> lxor a0 Rsym) by (intro E; apply Na; symmetry; exact E).
    assert (Nb' : b0 <> lxor b0 Rsym) by (intro E; apply Nb; symmetry; exact E).
    rewrite sym_H_new by (eapply slookup_fresh; [exact Htbl|lia]).
    rewrite sym_H_new
      by (cbn [slookup]; rewrite hkey_eqb_b_ne by exact Nb; eapply slookup_fresh; [exact Htbl|lia]).
    rewrite sym_H_new
      by (cbn [slookup]; rewrite !hkey_eqb_a_ne by exact Na; eapply slookup_fresh; [exact Htbl|lia]).
    rewrite sym_H_new
      by (cbn [slookup]; rewrite hkey_eqb_b_ne by exact Nb; rewrite !hkey_eqb_a_ne by exact Na;
          eapply slookup_fresh; [exact Htbl|lia]).
    set (h0 := basis perm next). set (h1 := basis perm (S next)).
    set (h2 := basis perm (S (S next))). set (h3 := basis perm (S (S (S next)))).
    assert (Sa : sym_sbit (lxor a0 Rsym) = negb (sym_sbit a0))
      by (unfold sym_sbit, lxor; rewrite N.lxor_spec; destruct (N.testbit a0 0); reflexivity).
    assert (Sb : sym_sbit (lxor b0 Rsym) = negb (sym_sbit b0))
      by (unfold sym_sbit, lxor; rewrite N.lxor_spec; destruct (N.testbit b0 0); reflexivity).
    unfold gidx. rewrite Sa, Sb.
    assert (C0 : clear_from (N.of_nat (S (S (S (S next)))) + 2) h0) by (apply clear_from_basis; lia).
    assert (C1 : clear_from (N.of_nat (S (S (S (S next)))) + 2) h1) by (apply clear_from_basis; lia).
    assert (C2 : clear_from (N.of_nat (S (S (S (S next)))) + 2) h2) by (apply clear_from_basis; lia).
    assert (C3 : clear_from (N.of_nat (S (S (S (S next)))) + 2) h3) by (apply clear_from_basis; lia).
    assert (CR : clear_from (N.of_nat (S (S (S (S next)))) + 2) Rsym) by (apply clear_from_R; lia).
    assert (CZ : clear_from (N.of_nat (S (S (S (S next)))) + 2) 0) by apply clear_from_0.
    assert (OB : forall u k, In u tr -> N.of_nat next + 2 <= k -> N.testbit u k = false)
      by (intros; apply old_bit_clear; assumption).
    destruct (sym_sbit a0), (sym_sbit b0);
      cbn [negb Nat.add upd nth Nat.eqb mapi mapi_from tl step_post snext stable gate_tweaks L0 L1];
      (split; [lia|]); (split; [reflexivity|]); (split; [xor_solve|]);
      (split; [cl|]);
      (split; [intros v [<-|[<-|[<-|[]]]]; cl|]);
      (split; [repeat (apply tbl_ok_ext; [|lia|cbn [snd]; lia]); apply tbl_ok_weaken; lia|]).
    (* chain, per permutation: each transmitted row carries its own hash *)
    all: match goal with |- chain (tr ++ [?x; ?y; ?z]) =>
           change (tr ++ [x; y; z]) with (tr ++ [x] ++ [y] ++ [z]); rewrite !app_assoc end.
    - (* pa=1 pb=1: rows h2^h3, h1^h3, h0^h3^R *)
      apply chain_snoc with (b := N.of_nat next + 2);
        [apply chain_snoc with (b := N.of_nat (S next) + 2);
          [apply chain_snoc with (b := N.of_nat (S (S next)) + 2); [exact Hch|lia|unfold h2,h3; bb|intros u Hu; apply OB; [exact Hu|lia]]
          |lia|unfold h1,h3; bb
          |intros u Hu; apply in_app_or in Hu; destruct Hu as [Hu|[<-|[]]]; [apply OB; [exact Hu|lia]|unfold h2,h3; bb]]
        |lia|unfold h0,h3; bb
        |intros u Hu; apply in_app_or in Hu; destruct Hu as [Hu|[<-|[]]];
          [apply in_app_or in Hu; destruct Hu as [Hu|[<-|[]]]; [apply OB; [exact Hu|lia]|unfold h2,h3; bb]|unfold h1,h3; bb]].
    - (* pa=1 pb=0 *)
      apply chain_snoc with (b := N.of_nat (S next) + 2);
        [apply chain_snoc with (b := N.of_nat next + 2);
          [apply chain_snoc with (b := N.of_nat (S (S (S next))) + 2); [exact Hch|lia|unfold h2,h3; bb|intros u Hu; apply OB; [exact Hu|lia]]
          |lia|unfold h0,h2; bb
          |intros u Hu; apply in_app_or in Hu; destruct Hu as [Hu|[<-|[]]]; [apply OB; [exact Hu|lia]|unfold h2,h3; bb]]
        |lia|unfold h1,h2; bb
        |intros u Hu; apply in_app_or in Hu; destruct Hu as [Hu|[<-|[]]];
          [apply in_app_or in Hu; destruct Hu as [Hu|[<-|[]]]; [apply OB; [exact Hu|lia]|unfold h2,h3; bb]|unfold h0,h2; bb]].
    - (* pa=0 pb=1 *)
      apply chain_snoc with (b := N.of_nat (S (S next)) + 2);
        [apply chain_snoc with (b := N.of_nat (S (S (S next))) + 2);
          [apply chain_snoc with (b := N.of_nat next + 2); [exact Hch|lia|unfold h0,h1; bb|intros u Hu; apply OB; [exact Hu|lia]]
          |lia|unfold h3,h1; bb
          |intros u Hu; apply in_app_or in Hu; destruct Hu as [Hu|[<-|[]]]; [apply OB; [exact Hu|lia]|unfold h0,h1; bb]]
        |lia|unfold h2,h1; bb
        |intros u Hu; apply in_app_or in Hu; destruct Hu as [Hu|[<-|[]]];
          [apply in_app_or in Hu; destruct Hu as [Hu|[<-|[]]]; [apply OB; [exact Hu|lia]|unfold h0,h1; bb]|unfold h3,h1; bb]].
    - (* pa=0 pb=0 *)
      apply chain_snoc with (b := N.of_nat (S (S (S next))) + 2);
        [apply chain_snoc with (b := N.of_nat (S (S next)) + 2);
          [apply chain_snoc with (b := N.of_nat (S next) + 2); [exact Hch|lia|unfold h1,h0; bb|intros u Hu; apply OB; [exact Hu|lia]]
          |lia|unfold h2,h0; bb
          |intros u Hu; apply in_app_or in Hu; destruct Hu as [Hu|[<-|[]]]; [apply OB; [exact Hu|lia]|unfold h1,h0; bb]]
        |lia|unfold h3,h0; bb
        |intros u Hu; apply in_app_or in Hu; destruct Hu as [Hu|[<-|[]]];
          [apply in_app_or in Hu; destruct Hu as [Hu|[<-|[]]]; [apply OB; [exact Hu|lia]|unfold h1,h0; bb]|unfold h2,h0; bb]].
  Qed.

  Lemma step_inv (bw : wire) (Hid : id + 1 <= 2 ^ 32) :
    step_post perm next id tr INV
      (ggate_core sst sym_sbit (sym_H perm) Rsym a bw INV id (mkSst next tbl)).
  Proof.
    unfold ggate_core. cbn [L0 L1 a].
    rewrite (tweak_small id) by lia.
    pose proof (lxor_R_ne a0) as Na.
    rewrite sym_H_new by (eapply slookup_fresh; [exact Htbl|lia]).
    rewrite sym_H_new
      by (cbn [slookup]; rewrite hkey_eqb_a_ne by exact Na; eapply slookup_fresh; [exact Htbl|lia]).
    set (h0 := basis perm next). set (h1 := basis perm (S next)).
    assert (Sa : sym_sbit (lxor a0 Rsym) = negb (sym_sbit a0))
      by (unfold sym_sbit, lxor; rewrite N.lxor_spec; destruct (N.testbit a0 0); reflexivity).
    unfold gidxU. rewrite Sa.
    assert (C0 : clear_from (N.of_nat (S (S next)) + 2) h0) by (apply clear_from_basis; lia).
    assert (C1 : clear_from (N.of_nat (S (S next)) + 2) h1) by (apply clear_from_basis; lia).
    assert (CR : clear_from (N.of_nat (S (S next)) + 2) Rsym) by (apply clear_from_R; lia).
    assert (OB : forall u k, In u tr -> N.of_nat next + 2 <= k -> N.testbit u k = false)
      by (intros; apply old_bit_clear; assumption).
    destruct (sym_sbit a0);
      cbn [negb upd nth Nat.eqb mapi mapi_from tl step_post snext stable gate_tweaks L0 L1];
      (split; [lia|]); (split; [reflexivity|]); (split; [xor_solve|]);
      (split; [cl|]);
      (split; [intros v [<-|[]]; cl|]);
      (split; [repeat (apply tbl_ok_ext; [|lia|cbn [snd]; lia]); apply tbl_ok_weaken; lia|]).
    - apply chain_snoc with (b := N.of_nat next + 2);
        [exact Hch|lia|unfold h0,h1; bb|intros u Hu; apply OB; [exact Hu|lia]].
    - apply chain_snoc with (b := N.of_nat (S next) + 2);
        [exact Hch|lia|unfold h0,h1; bb|intros u Hu; apply OB; [exact Hu|lia]].
  Qed.
End Step.

Definition wire_sym_ok (m : N) (w : wire) : Prop :=
  L1 w = lxor (L0 w) Rsym /\ clear_from m (L0 w).

Lemma sym_core_step perm next id tbl tr (a b : wire) (o : op) :
  wire_sym_ok (N.of_nat next + 2) a ->
  (o = INV \/ wire_sym_ok (N.of_nat next + 2) b) ->
  (forall v, In v tr -> clear_from (N.of_nat next + 2) v) ->
  tbl_ok next id tbl -> chain tr -> id + gate_tweaks o <= 2 ^ 32 ->
  step_post perm next id tr o
    (ggate_core sst sym_sbit (sym_H perm) Rsym a b o id (mkSst next tbl)).
Proof.
  intros [Ea Ca] Hb Htr Htbl Hch Hid.
  destruct a as [a0 a1]. cbn [L0 L1] in Ea, Ca. subst a1.
  destruct o; cbn [gate_tweaks] in Hid.
  - destruct Hb as [?|[Eb Cb]]; [discriminate|]. destruct b as [b0 b1]. cbn [L0 L1] in Eb, Cb. subst b1.
    apply step_xor; assumption.
  - destruct Hb as [?|[Eb Cb]]; [discriminate|]. destruct b as [b0 b1]. cbn [L0 L1] in Eb, Cb. subst b1.
    apply step_xnor; assumption.
  - destruct Hb as [?|[Eb Cb]]; [discriminate|]. destruct b as [b0 b1]. cbn [L0 L1] in Eb, Cb. subst b1.
    apply step_and; assumption.
  - destruct Hb as [?|[Eb Cb]]; [discriminate|]. destruct b as [b0 b1]. cbn [L0 L1] in Eb, Cb. subst b1.
    apply step_or; assumption.
  - apply step_inv; assumption.
Qed.

Definition SInv (perm : nat -> bool) (n : nat) (next : nat) (id : N) (tbl : list (hkey * nat))
           (gw : list wire) (asg : list bool) (tr : list N) : Prop :=
  length gw = n /\ length asg = n /\
  (forall w, nth w asg false = true -> wire_sym_ok (N.of_nat next + 2) (nth w gw w0)) /\
  (forall v, In v tr -> clear_from (N.of_nat next + 2) v) /\
  tbl_ok next id tbl /\ chain tr.

Lemma tweaks_of_cons g gs : tweaks_of (g :: gs) = gate_tweaks (gop g) + tweaks_of gs.
Proof. reflexivity. Qed.

Lemma sym_fold perm n ni : forall gs gw asg id next tbl tr,
  SInv perm n next id tbl gw asg tr ->
  wf_gates n ni asg gs = true ->
  id + tweaks_of gs <= 2 ^ 32 ->
  let '(gwf, idf, rows, stf) :=
    ggates sst sym_sbit (sym_H perm) Rsym gw id (mkSst next tbl) gs in
  SInv perm n (snext stf) idf (stable stf) gwf (final_asg asg gs) (tr ++ concat rows) /\
  (forall w, (w < ni)%nat -> nth w gwf w0 = nth w gw w0).
Proof.
  induction gs as [|g gs IH]; intros gw asg id next tbl tr HI Hwf Hid.
  - cbn [ggates concat snext stable final_asg fold_left]. rewrite app_nil_r. split; [exact HI|reflexivity].
  - cbn [wf_gates] in Hwf. apply andb_prop in Hwf. destruct Hwf as [Hok Hwf].
    rewrite tweaks_of_cons in Hid.
    destruct HI as (Lg & La & HW & HT & HTb & HC).
    pose proof Hok as Hok'. unfold gate_ok in Hok'.
    repeat (apply andb_prop in Hok'; destruct Hok' as [Hok' ?]).
    apply Nat.ltb_lt in Hok'.
    match goal with Hx : (gout g <? n)%nat = true |- _ => apply Nat.ltb_lt in Hx end.
    match goal with Hx : (ni <=? gout g)%nat = true |- _ => apply Nat.leb_le in Hx end.
    assert (HB : gop g = INV \/ wire_sym_ok (N.of_nat next + 2) (nth (gin1 g) gw w0)).
    { destruct (gop g); try (left; reflexivity); right;
        match goal with Hx : _ && _ = true |- _ =>
          apply andb_prop in Hx; destruct Hx as [_ Hx]; exact (HW _ Hx) end. }
    assert (HA : wire_sym_ok (N.of_nat next + 2) (nth (gin0 g) gw w0)) by (apply HW; assumption).
    pose proof (sym_core_step perm next id tbl tr _ _ (gop g) HA HB HT HTb HC ltac:(lia)) as ST.
    cbn [ggates].
    destruct (ggate_core sst sym_sbit (sym_H perm) Rsym (nth (gin0 g) gw w0)
                (nth (gin1 g) gw w0) (gop g) id (mkSst next tbl)) as [[[c id'] row] st'].
    cbn [step_post] in ST. destruct ST as (Hn & Hid' & Wc & Cc & Crow & Tb' & Ch').
    destruct st' as [next' tbl']. cbn [snext stable] in *.
    specialize (IH (upd gw (gout g) c) (upd asg (gout g) true) id' next' tbl' (tr ++ row)).
    destruct (ggates sst sym_sbit (sym_H perm) Rsym (upd gw (gout g) c) id' (mkSst next' tbl') gs)
      as [[[gwf idf] rows] stf].
    destruct IH as [HIf Hkeep].
    + split; [rewrite upd_length; exact Lg|]. split; [rewrite upd_length; exact La|].
      split.
      { intros w Hw. destruct (Nat.eq_dec (gout g) w) as [<-|Hne].
        - rewrite nth_upd_eq by lia. split; assumption.
        - rewrite nth_upd_neq in Hw by assumption. rewrite nth_upd_neq by assumption.
          destruct (HW w Hw) as [E C]. split; [exact E|]. eapply clear_from_mono; [|exact C]. lia. }
      split.
      { intros v Hv. apply in_app_or in Hv. destruct Hv as [Hv|Hv].
        - eapply clear_from_mono; [|apply HT; exact Hv]. lia.
        - apply Crow. exact Hv. }
      split; assumption.
    + exact Hwf.
    + lia.
    + cbn [concat]. rewrite app_assoc. split.
      * unfold final_asg in *. cbn [fold_left]. exact HIf.
      * intros w Hw. rewrite Hkeep by exact Hw. apply nth_upd_neq. lia.
Qed.

(* C04, whole-circuit mode *)
Theorem sym_whole_circuit_safe (perm : nat -> bool) (c : circuit) (x : list bool) :
  wf c = true -> tweaks_of (gates c) <= 2 ^ 32 ->
  r_safe Rsym (sym_transcript perm c x).
Proof.
  intros Hwf Htw. apply chain_r_safe.
  unfold wf in Hwf.
  apply andb_prop in Hwf; destruct Hwf as [Hwf Hout].
  apply andb_prop in Hwf; destruct Hwf as [Hwf Hgs].
  apply andb_prop in Hwf; destruct Hwf as [Hni Hno].
  apply Nat.leb_le in Hni.
  unfold sym_transcript, sym_garble.
  set (n := nwires c) in *. set (ni := ninputs c) in *.
  set (gw0 := sym_inputs perm ni ++ repeat w0 (n - ni)).
  (* the input labels, in creation order, already form a chain *)
  set (ins := fun (gwf : list wire) => map (fun i => pick (nth i gwf w0) (nth i x false)) (seq 0 ni)).
  assert (Hin0 : forall w, (w < ni)%nat ->
            nth w gw0 w0 = mkWire (basis perm w) (lxor (basis perm w) Rsym)).
  { intros w Hw. unfold gw0. rewrite app_nth1 by (unfold sym_inputs; rewrite map_length, seq_length; exact Hw).
    unfold sym_inputs.
    rewrite nth_indep with (d' := (fun i => mkWire (basis perm i) (lxor (basis perm i) Rsym)) 0%nat)
      by (rewrite map_length, seq_length; exact Hw).
    rewrite (map_nth (fun i => mkWire (basis perm i) (lxor (basis perm i) Rsym))).
    rewrite seq_nth by exact Hw. reflexivity. }
  assert (Hins : forall k, (k <= ni)%nat ->
            chain (map (fun i => pick (nth i gw0 w0) (nth i x false)) (seq 0 k)) /\
            forall v, In v (map (fun i => pick (nth i gw0 w0) (nth i x false)) (seq 0 k)) ->
                      clear_from (N.of_nat k + 2) v).
  { induction k as [|k IHk]; intros Hk.
    - cbn. split; [apply chain_nil|intros v []].
    - destruct (IHk ltac:(lia)) as [Ck Bk].
      rewrite seq_S, map_app. cbn [map Nat.add].
      assert (Cv : clear_from (N.of_nat (S k) + 2) (pick (nth k gw0 w0) (nth k x false))).
      { rewrite Hin0 by lia. destruct (nth k x false); cbn [pick L0 L1];
          [apply clear_from_lxor; [apply clear_from_basis; lia|apply clear_from_R; lia]
          |apply clear_from_basis; lia]. }
      split.
      + apply chain_snoc with (b := N.of_nat k + 2); [exact Ck|lia| |].
        * rewrite Hin0 by lia. destruct (nth k x false); cbn [pick L0 L1]; bb.
        * intros u Hu. apply (Bk u Hu). lia.
      + intros v Hv. apply in_app_or in Hv. destruct Hv as [Hv|[<-|[]]].
        * eapply clear_from_mono; [|apply Bk; exact Hv]. lia.
        * exact Cv. }
  destruct (Hins ni (Nat.le_refl _)) as [Cin Bin].
  pose proof (sym_fold perm n ni (gates c) gw0 (init_asg c) 0 ni []
                (map (fun i => pick (nth i gw0 w0) (nth i x false)) (seq 0 ni))) as SF.
  destruct (ggates sst sym_sbit (sym_H perm) Rsym gw0 0 (mkSst ni []) (gates c))
    as [[[gwf idf] rows] stf].
  destruct SF as [HI Hkeep].
  - split. { unfold gw0, sym_inputs. rewrite app_length, map_length, seq_length, repeat_length. lia. }
    split. { unfold init_asg. fold ni n. rewrite app_length, !repeat_length. lia. }
    split.
    { intros w Hw. unfold init_asg in Hw. fold ni in Hw.
      assert (Hlt : (w < ni)%nat).
      { destruct (Nat.lt_ge_cases w ni) as [Hl|Hg]; [exact Hl|].
        rewrite app_nth2 in Hw by (rewrite repeat_length; exact Hg).
        exfalso. revert Hw. generalize (w - length (repeat true ni))%nat. intros m.
        destruct (nth_in_or_default m (repeat false (nwires c - ni)) false) as [Hin|Hd].
        - apply repeat_spec in Hin. congruence.
        - congruence. }
      rewrite (Hin0 w Hlt). split; [reflexivity|]. cbn [L0]. apply clear_from_basis. lia. }
    split; [exact Bin|]. split; [intros k m []|exact Cin].
  - exact Hgs.
  - lia.
  - destruct HI as (_ & _ & _ & _ & _ & CH).
    assert (E : map (fun i => pick (nth i gwf w0) (nth i x false)) (seq 0 ni)
              = map (fun i => pick (nth i gw0 w0) (nth i x false)) (seq 0 ni)).
    { apply map_ext_in. intros i Hi. apply in_seq in Hi. rewrite Hkeep by lia. reflexivity. }
    rewrite E. exact CH.
Qed.

(* non-vacuity / executable check of the same predicate on a concrete circuit *)
Example sym_example :
  r_pairs Rsym (sym_transcript (fun n => Nat.odd n)
     (mkCircuit 8 2 2 [mkGate 0 1 2 XOR; mkGate 2 2 3 AND; mkGate 3 0 4 OR;
                       mkGate 4 0 2 INV; mkGate 2 1 5 XNOR; mkGate 5 4 6 AND;
                       mkGate 6 3 7 OR]) [true; false]) = [].
Proof. vm_compute. reflexivity. Qed.

(* ---------------------------------------------------------------- (3) *)
(* C04, streaming mode with a session-wide tweak counter: the streamed
   session is the whole-circuit garbling of the flattened gate list, so the
   same invariant applies.  [n] = size of the memory (store ++ tmp),
   the first [ni] addresses are the session inputs. *)
Theorem sym_stream_safe (perm : nat -> bool) (G ni n : nat) (steps : list scirc) (x : list bool) :
  (ni <= n)%nat ->
  wf_gates n 0 (init_asg (mkCircuit n ni 0 [])) (concat (map (sflat G) steps)) = true ->
  tweaks_of (concat (map (sflat G) steps)) <= 2 ^ 32 ->
  r_safe Rsym (sym_stream_transcript false perm G ni n steps x).
Proof.
  intros Hni Hgs Htw. apply chain_r_safe.
  unfold sym_stream_transcript, gstream_session, sym_stream_mem.
  set (gw0 := sym_inputs perm ni ++ repeat w0 (n - ni)).
  assert (Hin0 : forall w, (w < ni)%nat ->
            nth w gw0 w0 = mkWire (basis perm w) (lxor (basis perm w) Rsym)).
  { intros w Hw. unfold gw0. rewrite app_nth1 by (unfold sym_inputs; rewrite map_length, seq_length; exact Hw).
    unfold sym_inputs.
    rewrite nth_indep with (d' := (fun i => mkWire (basis perm i) (lxor (basis perm i) Rsym)) 0%nat)
      by (rewrite map_length, seq_length; exact Hw).
    rewrite (map_nth (fun i => mkWire (basis perm i) (lxor (basis perm i) Rsym))).
    rewrite seq_nth by exact Hw. reflexivity. }
  assert (Hins : forall k, (k <= ni)%nat ->
            chain (map (fun i => pick (nth i gw0 w0) (nth i x false)) (seq 0 k)) /\
            forall v, In v (map (fun i => pick (nth i gw0 w0) (nth i x false)) (seq 0 k)) ->
                      clear_from (N.of_nat k + 2) v).
  { induction k as [|k IHk]; intros Hk.
    - cbn. split; [apply chain_nil|intros v []].
    - destruct (IHk ltac:(lia)) as [Ck Bk].
      rewrite seq_S, map_app. cbn [map Nat.add].
      assert (Cv : clear_from (N.of_nat (S k) + 2) (pick (nth k gw0 w0) (nth k x false))).
      { rewrite Hin0 by lia. destruct (nth k x false); cbn [pick L0 L1];
          [apply clear_from_lxor; [apply clear_from_basis; lia|apply clear_from_R; lia]
          |apply clear_from_basis; lia]. }
      split.
      + apply chain_snoc with (b := N.of_nat k + 2); [exact Ck|lia| |].
        * rewrite Hin0 by lia. destruct (nth k x false); cbn [pick L0 L1]; bb.
        * intros u Hu. apply (Bk u Hu). lia.
      + intros v Hv. apply in_app_or in Hv. destruct Hv as [Hv|[<-|[]]].
        * eapply clear_from_mono; [|apply Bk; exact Hv]. lia.
        * exact Cv. }
  destruct (Hins ni (Nat.le_refl _)) as [Cin Bin].
  pose proof (sym_fold perm n 0 (concat (map (sflat G) steps)) gw0
                (init_asg (mkCircuit n ni 0 [])) 0 ni []
                (map (fun i => pick (nth i gw0 w0) (nth i x false)) (seq 0 ni))) as SF.
  destruct (ggates sst sym_sbit (sym_H perm) Rsym gw0 0 (mkSst ni []) (concat (map (sflat G) steps)))
    as [[[gwf idf] rows] stf].
  destruct SF as [HI _].
  - split. { unfold gw0, sym_inputs. rewrite app_length, map_length, seq_length, repeat_length. lia. }
    split. { unfold init_asg. cbn [ninputs nwires]. rewrite app_length, !repeat_length. lia. }
    split.
    { intros w Hw. unfold init_asg in Hw. cbn [ninputs nwires] in Hw.
      apply nth_init_asg_true in Hw.
      rewrite (Hin0 w Hw). split; [reflexivity|]. cbn [L0]. apply clear_from_basis. lia. }
    split; [exact Bin|]. split; [intros k m []|exact Cin].
  - exact Hgs.
  - lia.
  - destruct HI as (_ & _ & _ & _ & _ & CH). exact CH.
Qed.

(* The tweak counter restarted per streamed circuit (the code before the fix)
   is NOT safe: two AND gates at the same position of two streamed circuits
   that share their first input wire transmit rows differing by R when the
   permute bits of their second inputs differ. *)
Definition reset_witness_steps : list scirc :=
  [ mkSC [mkGate 0 1 2 AND] 3 [0; 1]%nat [3]%nat;
    mkSC [mkGate 0 1 2 AND] 3 [0; 2]%nat [4]%nat ].
Definition reset_witness_perm (n : nat) : bool := Nat.eqb n 1.

Lemma stream_tweak_reset_refuted :
  exists perm G ni n steps x,
    wf_gates n 0 (init_asg (mkCircuit n ni 0 [])) (concat (map (sflat G) steps)) = true /\
    r_pairs Rsym (sym_stream_transcript true perm G ni n steps x) <> [] /\
    r_pairs Rsym (sym_stream_transcript false perm G ni n steps x) = [].
Proof.
  exists reset_witness_perm, 5%nat, 3%nat, 8%nat, reset_witness_steps, [false; false; false].
  vm_compute. repeat split; discriminate.
Qed.

(* ---------------------------------------------------------------- (4) *)
(* sha2pc.GarblerRound3 additionally transmits BOTH labels of every output
   wire (Round3Payload.OutputHints).  In the same symbolic execution that
   transcript is not safe: the two hints of an output wire are R apart. *)
Definition output_hints (gwf : list wire) (outs : list nat) : list N :=
  flat_map (fun o => [L0 (nth o gwf w0); L1 (nth o gwf w0)]) outs.

Definition sym_transcript_with_hints (perm : nat -> bool) (c : circuit) (x : list bool) : list N :=
  sym_transcript perm c x ++ output_hints (fst (sym_garble perm c)) (output_wires c).

Lemma sha2pc_output_hints_refuted :
  exists perm c x, wf c = true /\
    r_pairs Rsym (sym_transcript perm c x) = [] /\
    r_pairs Rsym (sym_transcript_with_hints perm c x) <> [].
Proof.
  exists (fun n => Nat.odd n),
    (mkCircuit 8 2 2 [mkGate 0 1 2 XOR; mkGate 2 2 3 AND; mkGate 3 0 4 OR;
                      mkGate 4 0 2 INV; mkGate 2 1 5 XNOR; mkGate 5 4 6 AND;
                      mkGate 6 3 7 OR]), [true; false].
  vm_compute. repeat split; discriminate.
Qed.
