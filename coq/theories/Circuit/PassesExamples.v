(* PassesExamples.v — non-vacuity of the hypotheses of the C09 theorems:
   a concrete graph built with the model's own builder functions (constants,
   fan-out, a gate that pruning kills) satisfies wfg / wfb / cwf, hence
   emission_ok and levels_ok hold of Compile's result on it; and the whole
   pipeline (with a dead gate after Prune) computes the graph's meaning on
   every input (vm_compute). *)
From Coq Require Import List Bool Arith Lia.
From Mpc Require Import Circuit.Circuit Circuit.Passes Circuit.PassesProof Circuit.PassesBFS
  Circuit.PassesIO Circuit.PassesInv.
Import ListNotations.

(* a checker for [wf_topo] *)
Fixpoint topo_ok (G : graph) (seen l : list nat) : bool :=
  match l with
  | [] => true
  | g :: l' =>
      forallb (fun w => existsb (Nat.eqb w) (gins G) ||
                        existsb (fun p => Nat.eqb (nO (gn G p)) w) seen) (inputs_of (gn G g)) &&
      negb (existsb (Nat.eqb (nO (gn G g))) (gins G)) &&
      forallb (fun p => negb (Nat.eqb (nO (gn G p)) (nO (gn G g)))) seen &&
      topo_ok G (g :: seen) l'
  end.

Lemma topo_ok_sound G l : forall seen,
  topo_ok G seen l = true ->
  forall l1 g l2, l = l1 ++ g :: l2 ->
    (forall w, In w (inputs_of (gn G g)) ->
       In w (gins G) \/ exists p, In p (seen ++ l1) /\ nO (gn G p) = w) /\
    ~ In (nO (gn G g)) (gins G) /\
    (forall p, In p (seen ++ l1) -> nO (gn G p) <> nO (gn G g)).
Proof.
  induction l as [|a l IH]; intros seen H l1 g l2 E; [destruct l1; discriminate|].
  simpl in H. apply andb_true_iff in H. destruct H as [H H4].
  apply andb_true_iff in H. destruct H as [H H3].
  apply andb_true_iff in H. destruct H as [H1 H2].
  destruct l1 as [|b l1]; simpl in E; inversion E; subst.
  - rewrite app_nil_r. split; [|split].
    + intros w Hw. rewrite forallb_forall in H1. specialize (H1 w Hw).
      apply orb_true_iff in H1. destruct H1 as [H1|H1]; apply existsb_exists in H1.
      * destruct H1 as (y & Hy & Ey). apply Nat.eqb_eq in Ey. subst. now left.
      * destruct H1 as (p & Hp & Ep). apply Nat.eqb_eq in Ep. right. eauto.
    + intros Hin. apply negb_true_iff in H2.
      assert (existsb (Nat.eqb (nO (gn G g))) (gins G) = true).
      { apply existsb_exists. exists (nO (gn G g)). split; auto. apply Nat.eqb_refl. }
      congruence.
    + intros p Hp Ep. rewrite forallb_forall in H3. specialize (H3 p Hp).
      apply negb_true_iff in H3. apply Nat.eqb_neq in H3. auto.
  - destruct (IH (b :: seen) H4 l1 g l2 eq_refl) as (A & B & C).
    assert (Hperm : forall p, In p (seen ++ b :: l1) <-> In p ((b :: seen) ++ l1)).
    { intros p. simpl. rewrite !in_app_iff. simpl. tauto. }
    split; [|split; auto].
    + intros w Hw. destruct (A w Hw) as [Hl|(p & Hp & Ep)]; auto.
      right. exists p. split; auto. now apply Hperm.
    + intros p Hp. apply C. now apply Hperm.
Qed.

(* ---- the example graph -------------------------------------------- *)

Definition empty_graph (ni : nat) : graph :=
  mkG (fun _ => blank_wire) ni (fun _ => mkN XOR 0 0 0 false false 0) 0 []
      (seq 0 ni) [] None None None 0.

Definition gate_to_new (G : graph) (o : op) (a b : nat) : graph * nat :=
  let '(G1, w) := new_wire G in (add_binary_gate G1 o a b w, w).
Definition inv_to_new (G : graph) (a : nat) : graph * nat :=
  let '(G1, w) := new_wire G in (add_inv_gate G1 a w, w).

(* Wire.SetOutput(true) on the wires of cc.OutputWires *)
Definition flag_outputs (G : graph) (outs : list nat) : graph :=
  let G1 := fold_left (fun G w => let r := gw G w in
               set_w G w (mkW (wv r) true (wnum r) (winp r) (wouts r) (wid r))) outs G in
  mkG (gw G1) (gnw G1) (gn G1) (gnn G1) (gorder G1) (gins G1) outs
      (ginv G1) (gzero G1) (gone G1) (gerr G1).

(* inputs w0 w1; constants as CompileCircuit creates them; w5 = w0 AND w1 has
   fan-out 2; an XOR with zero (short-circuited), an OR with one (constant),
   an unused INV (pruned); two outputs behind ID gates *)
Definition ex_graph_build : graph :=
  let G := empty_graph 2 in
  let '(G, z) := zero_wire G in
  let '(G, o) := one_wire G in
  let '(G, w5) := gate_to_new G AND 0 1 in
  let '(G, w6) := gate_to_new G XOR w5 z in
  let '(G, w7) := gate_to_new G OR w5 o in
  let '(G, _) := inv_to_new G 1 in
  let '(G, o1) := gate_to_new G XOR w6 z in
  let '(G, o2) := gate_to_new G XOR w7 z in
  flag_outputs G [o1; o2].

(* normalised once: later proofs compute on the closed record *)
Definition ex_graph : graph := Eval vm_compute in ex_graph_build.

Example ex_shape :
  gnw ex_graph = 11 /\ gorder ex_graph = [0; 1; 2; 3; 4; 5; 6; 7; 8] /\
  gouts ex_graph = [9; 10] /\ gzero ex_graph = Some 2 /\ gone ex_graph = Some 4 /\
  gerr ex_graph = 0.
Proof. vm_compute. repeat split. Qed.

Ltac all_nat w n :=
  do n (destruct w as [|w]; [vm_compute; try tauto; try (split; congruence); auto|]).

Lemma ex_wfg : wfg ex_graph.
Proof.
  constructor.
  - vm_compute. repeat constructor; simpl; intuition; discriminate.
  - intros gid H. vm_compute in H. repeat (destruct H as [<-|H]; [reflexivity|]). destruct H.
  - intros l1 g l2 E.
    assert (TT : topo_ok ex_graph [] (gorder ex_graph) = true) by (vm_compute; reflexivity).
    exact (topo_ok_sound ex_graph (gorder ex_graph) [] TT l1 g l2 E).
  - exists 2, 4, 3, 1, 2, 0.
    repeat split; try (vm_compute; auto 12; discriminate).
    intros w H.
    do 11 (destruct w as [|w]; [try (now left); try (now right); exfalso; apply H; vm_compute; reflexivity|]).
    exfalso. apply H. reflexivity.
Qed.

Lemma ex_wfb : wfb ex_graph.
Proof.
  constructor.
  - intros w. do 11 (destruct w as [|w]; [reflexivity|]). reflexivity.
  - intros g. do 9 (destruct g as [|g]; [reflexivity|]). reflexivity.
  - intros w H. vm_compute in H. repeat (destruct H as [<-|H]; [reflexivity|]). destruct H.
  - vm_compute. repeat constructor; simpl; intuition; discriminate.
  - intros w. do 11 (destruct w as [|w]; [vm_compute; split; intros H; try discriminate; intuition; discriminate|]).
    vm_compute. split; intros H; try discriminate. intuition; discriminate.
  - intros g H. vm_compute in H.
    repeat (destruct H as [<-|H]; [intros w Hw; vm_compute in Hw;
            repeat (destruct Hw as [<-|Hw]; [vm_compute; auto 12|]); destruct Hw|]). destruct H.
  - intros w c H. do 11 (destruct w as [|w]; [vm_compute in H |- *; intuition|]).
    vm_compute in H. destruct H.
  - intros g H. vm_compute in H.
    repeat (destruct H as [<-|H]; [intros w Hw; vm_compute in Hw;
            repeat (destruct Hw as [<-|Hw]; [reflexivity|]); destruct Hw|]). destruct H.
  - intros g H. vm_compute in H. repeat (destruct H as [<-|H]; [vm_compute; lia|]). destruct H.
  - intros o H. vm_compute in H. destruct H as [<-|[<-|[]]].
    + exists 7. vm_compute. auto 12.
    + exists 8. vm_compute. auto 12.
Qed.

(* non-vacuity of cwf, emission_ok and levels_ok: they hold of Compile's
   result on the example (constants, fan-out) *)
Example ex_cwf : cwf ex_graph.
Proof. exact (fresh_cwf _ ex_wfg ex_wfb). Qed.

Example ex_emission :
  let st := compile_assign ex_graph in
  emission_ok (cg st) (id_of (cg st)) (cnext st) (casg st) /\ levels_ok (cg st) (casg st).
Proof. split; [apply compile_emission_ok|apply compile_levels_ok]; exact ex_cwf. Qed.

(* the example is not degenerate: every pass changes it, pruning kills gates
   (dead gates stay referenced from the output-gate lists), the GMW order
   differs from the Yao order, and all four configurations compute the
   graph's meaning on all four inputs *)
Definition all_inputs2 : list (list bool) :=
  [[false; false]; [true; false]; [false; true]; [true; true]].

Example ex_dead_gates :
  let G3 := optimize true ex_graph in
  existsb (fun g => ndead (gn G3 g)) (seq 0 (gnn G3)) = true /\
  length (gorder G3) < length (gorder ex_graph) /\ gerr G3 = 0.
Proof. vm_compute. repeat split; auto. Qed.

Fixpoint lb_eqb (a b : list bool) : bool :=
  match a, b with
  | [], [] => true
  | x :: a', y :: b' => Bool.eqb x y && lb_eqb a' b'
  | _, _ => false
  end.

Example ex_pipeline_all_configs :
  forallb (fun x =>
    forallb (fun cfg : bool * target =>
      let c := pipeline (fst cfg) (snd cfg) ex_graph in
      lb_eqb (eval_plain c x) (graph_eval ex_graph x) && negb (Nat.eqb (length (eval_plain c x)) 0))
      [(false, Yao); (false, GMW); (true, Yao); (true, GMW)]) all_inputs2 = true.
Proof. vm_compute. reflexivity. Qed.

(* the example also satisfies the remaining builder bookkeeping [wfx] *)
Definition ex_rank (w : nat) : nat := nth w [0; 0; 2; 1; 2; 3; 4; 4; 1; 5; 5] 0.

Ltac in_order H := vm_compute in H; repeat (destruct H as [<-|H]; [|]); [..|destruct H].

Lemma ex_isconst k : isconst ex_graph k -> k = 2 \/ k = 4.
Proof. intros [H|H]; vm_compute in H; inversion H; auto. Qed.

Lemma ex_wfx : wfx ex_graph.
Proof.
  constructor.
  - vm_compute. repeat constructor; simpl; intuition; discriminate.
  - intros c w H. vm_compute in H.
    repeat (destruct H as [<-|H];
            [do 11 (destruct w as [|w]; [vm_compute; lia|]); vm_compute; lia|]). destruct H.
  - intros w. do 11 (destruct w as [|w]; [vm_compute; lia|]). vm_compute. lia.
  - intros h H. vm_compute in H. repeat (destruct H as [<-|H]; [reflexivity|]). destruct H.
  - intros w p H. do 11 (destruct w as [|w]; [vm_compute in H; try discriminate; inversion H; subst; vm_compute; auto 12|]).
    vm_compute in H. discriminate.
  - intros c H. vm_compute in H.
    repeat (destruct H as [<-|H]; [split; [vm_compute; lia|intros w Hw; vm_compute in Hw;
            repeat (destruct Hw as [<-|Hw]; [vm_compute; lia|]); destruct Hw]|]). destruct H.
  - intros w H. vm_compute in H. repeat (destruct H as [<-|H]; [vm_compute; lia|]). destruct H.
  - intros o H. vm_compute in H. repeat (destruct H as [<-|H]; [vm_compute; lia|]). destruct H.
  - intros k H. destruct (ex_isconst k H) as [-> | ->]; vm_compute; split; auto; lia.
Qed.

Example ex_links_exact :
  links_exact (const_propagate ex_graph) (gorder (const_propagate ex_graph)).
Proof. exact (links_exact_derived _ ex_wfg ex_wfb ex_wfx). Qed.

(* ---- a consumer with both inputs on the bypassed wire ---------------- *)

(* w = XOR(in0, zero) is short-circuited by ConstPropagate; c = AND(w, w) reads
   it on both inputs; d = XOR(c, in1); the output is ID(d). *)
Definition ex2_build : graph :=
  let G := empty_graph 2 in
  let '(G, z) := zero_wire G in
  let '(G, o) := one_wire G in
  let '(G, w) := gate_to_new G XOR 0 z in
  let '(G, c) := gate_to_new G AND w w in
  let '(G, d) := gate_to_new G XOR c 1 in
  let '(G, o1) := gate_to_new G XOR d z in
  flag_outputs G [o1].
Definition ex2_graph : graph := Eval vm_compute in ex2_build.

(* gate 3 is w's producer, gate 4 the consumer, wire 5 is w *)
Example ex2_shape :
  nO (gn ex2_graph 3) = 5 /\ nA (gn ex2_graph 4) = 5 /\ nB (gn ex2_graph 4) = 5 /\
  wouts (gw ex2_graph 5) = [4; 4] /\ wnum (gw ex2_graph 5) = 2.
Proof. vm_compute. repeat split. Qed.

(* ConstPropagate moves BOTH inputs of the consumer to in0 (wire 0), clears
   w's list and counter, and every configuration still computes the meaning *)
Example ex2_both_inputs_moved :
  let G1 := const_propagate ex2_graph in
  nA (gn G1 4) = 0 /\ nB (gn G1 4) = 0 /\ wouts (gw G1 5) = [] /\ wnum (gw G1 5) = 0 /\
  gerr G1 = 0.
Proof. vm_compute. repeat split. Qed.

Example ex2_pipeline_all_configs :
  forallb (fun x =>
    forallb (fun cfg : bool * target =>
      let c := pipeline (fst cfg) (snd cfg) ex2_graph in
      lb_eqb (eval_plain c x) (graph_eval ex2_graph x) && negb (Nat.eqb (length (eval_plain c x)) 0))
      [(false, Yao); (false, GMW); (true, Yao); (true, GMW)]) all_inputs2 = true.
Proof. vm_compute. reflexivity. Qed.

(* The "visit once" variant: ForEachOutput skips consecutive duplicate entries
   and DisconnectOutputs only zeroes the counter.  Then only the A input of
   op(w, w) is moved, w's counter is forced to 0 while B still reads w, Prune
   kills w's producer, and the compiled circuit is wrong (or Prune panics). *)
Fixpoint dedup_consec (l : list nat) : list nat :=
  match l with
  | a :: ((b :: _) as t) => if Nat.eqb a b then dedup_consec t else a :: dedup_consec t
  | _ => l
  end.

Definition short_circuit_once (G : graph) (gid o : nat) : graph :=
  let out := nO (gn G gid) in
  if wout (gw G out) then G
  else
    let G1 := fold_left (fun G c => replace_input G c out o) (dedup_consec (wouts (gw G out))) G in
    set_w G1 out (w_set_num (gw G1 out) 0).

Definition cp_step_once (G : graph) (gid : nat) : graph :=
  let g := gn G gid in
  let a := wv (gw G (nA g)) in
  let b := if is_inv (nop g) then Unknown else wv (gw G (nB g)) in
  let G1 :=
    match cp_action (nop g) a b with
    | ActNone => G
    | ActZero => set_value G (nO g) Zero
    | ActOne => set_value G (nO g) One
    | ActSCB => short_circuit_once G gid (nB g)
    | ActSCA => short_circuit_once G gid (nA g)
    end in
  cp_subst_B (cp_subst_A G1 gid) gid.

Definition const_propagate_once (G : graph) : graph := fold_left cp_step_once (gorder G) G.

Definition pipeline_once (do_prune : bool) (t : target) (G : graph) : graph * circuit :=
  let G2 := short_circuit_xor_zero (const_propagate_once G) in
  let G3 := if do_prune then prune G2 else G2 in
  (cg (fst (compile_state t G3)), compile t G3).

(* only input A of the consumer is moved *)
Example ex2_once_moves_one_input :
  let G1 := const_propagate_once ex2_graph in
  nA (gn G1 4) = 0 /\ nB (gn G1 4) = 5 /\ wnum (gw G1 5) = 0.
Proof. vm_compute. repeat split. Qed.

(* without pruning the variant is still right; with pruning it is refuted:
   some input gives a different output, or a pass panics *)
Example ex2_once_noprune_ok :
  forallb (fun x => lb_eqb (eval_plain (snd (pipeline_once false Yao ex2_graph)) x)
                           (graph_eval ex2_graph x)) all_inputs2 = true.
Proof. vm_compute. reflexivity. Qed.

Example ex2_visit_once_refuted :
  exists x, In x all_inputs2 /\
    (negb (Nat.eqb (gerr (fst (pipeline_once true Yao ex2_graph))) 0) ||
     negb (lb_eqb (eval_plain (snd (pipeline_once true Yao ex2_graph)) x)
                  (graph_eval ex2_graph x))) = true.
Proof. exists [false; true]. split; [simpl; auto|]. vm_compute. reflexivity. Qed.
