(* PassesPrune.v — the graph handed to Compile satisfies [cwf]: directly after
   the rewriting passes, and after Prune (a gate is pruned only when
   NumOutputs of its output is 0 >= its true use count, so no live gate and no
   circuit output needs it).  (Property C09) *)
From Coq Require Import List Bool Arith Lia.
From Mpc Require Import Circuit.Circuit Circuit.Passes Circuit.PassesProof Circuit.PassesBFS
  Circuit.PassesIO Circuit.PassesTV Circuit.PassesInv.
Import ListNotations.

Lemma count_pos_in (l : list nat) c : 0 < count_occ Nat.eq_dec l c -> In c l.
Proof. intros H. apply (count_occ_In Nat.eq_dec). lia. Qed.

(* without Prune *)
Theorem cwf_of_inv rank G : BK G -> ST0 rank G -> TV G -> cwf G.
Proof.
  intros B S T. constructor.
  - apply (tv_fresh _ T).
  - apply (tv_unvis _ T).
  - apply (tv_ins_nodup _ T).
  - apply (tv_ins_flag _ T).
  - apply (tv_outs_nodup _ T).
  - apply (tv_outs_flag _ T).
  - intros g [Hg Hd] w Hw. apply count_pos_in.
    pose proof (bk_lists _ B g w Hg) as L. unfold lslots in L. rewrite Hd in L.
    apply slots_inputs in Hw. lia.
  - intros w c Hc _. eapply (s0_entries _ _ S); eauto.
  - intros g [Hg _]. now apply (s0_nocons _ _ S).
  - intros g [Hg _]. now apply (s0_prod _ _ S).
  - intros g1 g2 [H1 _] [H2 _]. now apply (s0_uniq _ _ S).
  - apply (bk_range _ B).
  - apply (s0_avail _ _ S).
Qed.

(* ---- Prune ---------------------------------------------------------- *)

Definition node_same (n n' : node) : Prop :=
  nop n' = nop n /\ nA n' = nA n /\ nB n' = nB n /\ nO n' = nO n /\ nvis n' = nvis n.

Record PI (G0 G : graph) (kept done : list nat) : Prop := {
  p_order : gorder G = gorder G0;
  p_ins : gins G = gins G0;
  p_outs : gouts G = gouts G0;
  p_nodes : forall i, node_same (gn G0 i) (gn G i);
  p_dead : forall i, ~ In i done -> ndead (gn G i) = ndead (gn G0 i);
  p_kept : forall i, In i kept <-> In i done /\ ndead (gn G i) = false;
  p_wires : forall w, wouts (gw G w) = wouts (gw G0 w) /\ wout (gw G w) = wout (gw G0 w);
  p_cnt : forall w, uses G w <= wnum (gw G w);
  p_avail : forall o, In o (gouts G0) -> avail G o;
  p_err : gerr G = gerr G0 }.

Lemma node_same_inputs n n' : node_same n n' -> inputs_of n' = inputs_of n.
Proof. intros (a & b & c & _). unfold inputs_of. now rewrite a, b, c. Qed.
Lemma node_same_slots n n' w : node_same n n' -> slots n' w = slots n w.
Proof. intros (a & b & c & _). unfold slots, slotA, slotB. now rewrite a, b, c. Qed.

(* Wire.RemoveOutput when the counter is positive *)
Lemma remove_output_pos G w k :
  wnum (gw G w) = S k ->
  remove_output G w = set_w G w (w_set_num (gw G w) k).
Proof. intros H. unfold remove_output. now rewrite H. Qed.

Lemma uses_dead G G' g w :
  NoDup (gorder G) -> In g (gorder G) -> gorder G' = gorder G ->
  (forall i, i <> g -> gn G' i = gn G i) ->
  ndead (gn G g) = false -> ndead (gn G' g) = true ->
  uses G' w + slots (gn G g) w = uses G w.
Proof.
  intros ND Hg Ho Hn Hd Hd'. unfold uses. rewrite Ho.
  pose proof (sum_change (gorder G) (fun i => lslots G i w) (fun i => lslots G' i w) g ND Hg) as S.
  simpl in S.
  assert (E1 : lslots G g w = slots (gn G g) w) by (unfold lslots; now rewrite Hd).
  assert (E2 : lslots G' g w = 0) by (unfold lslots; now rewrite Hd').
  assert (Hf : forall x, x <> g -> lslots G' x w = lslots G x w).
  { intros i Hi. unfold lslots. now rewrite (Hn i Hi). }
  specialize (S Hf). lia.
Qed.

Lemma remove_output_ok G w : 0 < wnum (gw G w) -> gerr (remove_output G w) = gerr G.
Proof. intros H. unfold remove_output. destruct (wnum (gw G w)); [lia|reflexivity]. Qed.

Lemma remove_output_wnum G w w' :
  wnum (gw G w') <= wnum (gw (remove_output G w) w') + (if Nat.eqb w' w then 1 else 0).
Proof.
  unfold remove_output. destruct (wnum (gw G w)) eqn:E; simpl.
  - lia.
  - unfold fupd. destruct (Nat.eqb_spec w' w); subst; simpl; lia.
Qed.

Section PruneStep.
  Variables (rank : nat -> nat) (G0 : graph).
  Hypothesis B0 : BK G0.
  Hypothesis S0 : ST0 rank G0.
  Hypothesis T0 : TV G0.

  Lemma prune_step_PI G kept done g :
    PI G0 G kept done -> In g (gorder G0) -> ~ In g done ->
    let st' := prune_step (G, kept) g in
    PI G0 (fst st') (snd st') (g :: done).
  Proof.
    intros P Hg Hnd. simpl.
    assert (Hd0 : ndead (gn G g) = false).
    { rewrite (p_dead _ _ _ _ P g Hnd). now apply (s0_nodead _ _ S0). }
    destruct (p_nodes _ _ _ _ P g) as (f1 & f2 & f3 & f4 & f5).
    unfold gate_prune. rewrite Hd0. simpl.
    destruct (wout (gw G (nO (gn G g))) || negb (wnum (gw G (nO (gn G g))) =? 0)) eqn:Ek; simpl.
    - (* kept *)
      constructor; try apply P.
      + intros i Hi. apply (p_dead _ _ _ _ P). intros H. apply Hi. now right.
      + intros i. simpl. rewrite (p_kept _ _ _ _ P i). split.
        * intros [<-|[H1 H2]]; auto.
        * intros [[<-|H1] H2]; auto.
    - (* pruned *)
      apply orb_false_iff in Ek. destruct Ek as [Ef En].
      apply negb_false_iff in En. apply Nat.eqb_eq in En.
      set (O := nO (gn G g)) in *.
      set (G1 := set_n G g (n_set_dead (gn G g))).
      set (G2 := if is_inv (nop (gn G g)) then G1 else remove_output G1 (nB (gn G g))).
      set (G3 := remove_output G2 (nA (gn G g))).
      (* no live gate reads O *)
      assert (NoUse : forall c, In c (gorder G) -> ndead (gn G c) = false ->
                                ~ In O (inputs_of (gn G c))).
      { intros c Hc Hdc Hin. pose proof (p_cnt _ _ _ _ P O) as U. rewrite En in U.
        pose proof (sum_pos_in (gorder G) (fun i => lslots G i O) c Hc) as Q. simpl in Q.
        unfold uses in U. unfold lslots in Q at 1. rewrite Hdc in Q.
        apply slots_inputs in Hin. lia. }
      assert (ND : NoDup (gorder G)) by (rewrite (p_order _ _ _ _ P); apply (bk_nodup _ B0)).
      assert (HgG : In g (gorder G)) by (now rewrite (p_order _ _ _ _ P)).
      (* the counters of g's inputs are large enough *)
      assert (Cnt : forall w, slots (gn G g) w <= wnum (gw G w)).
      { intros w. pose proof (p_cnt _ _ _ _ P w) as U.
        pose proof (sum_pos_in (gorder G) (fun i => lslots G i w) g HgG) as Q. simpl in Q.
        unfold uses in U. unfold lslots in Q at 1. rewrite Hd0 in Q. lia. }
      (* shape of G3 *)
      assert (RO : forall H w, gn (remove_output H w) = gn H /\ gorder (remove_output H w) = gorder H /\
                        gins (remove_output H w) = gins H /\ gouts (remove_output H w) = gouts H).
      { intros H w. destruct (rsame_remove_output H w) as (a & b & _ & d & _).
        destruct (io_remove_output H w) as (_ & e & _). auto. }
      assert (R2 : gn G2 = gn G1 /\ gorder G2 = gorder G1 /\ gins G2 = gins G1 /\ gouts G2 = gouts G1).
      { unfold G2. destruct (is_inv (nop (gn G g))); [auto|apply RO]. }
      assert (N3 : gn G3 = gn G1).
      { unfold G3. destruct (RO G2 (nA (gn G g))) as (a & _). destruct R2 as (b & _). congruence. }
      assert (O3 : gorder G3 = gorder G /\ gins G3 = gins G /\ gouts G3 = gouts G).
      { unfold G3. destruct (RO G2 (nA (gn G g))) as (_ & a & b & c).
        destruct R2 as (_ & a' & b' & c'). rewrite a, b, c, a', b', c'. auto. }
      assert (W3 : forall w, wouts (gw G3 w) = wouts (gw G w) /\ wout (gw G3 w) = wout (gw G w) /\
                             wnum (gw G3 w) + slots (gn G g) w = wnum (gw G w)).
      { intros w. unfold G3, G2. unfold slots, slotA, slotB.
        destruct (is_inv (nop (gn G g))) eqn:Ei; simpl.
        - pose proof (Cnt (nA (gn G g))) as CA. unfold slots, slotA, slotB in CA.
          rewrite Ei, Nat.eqb_refl in CA. simpl in CA.
          destruct (wnum (gw G (nA (gn G g)))) as [|k] eqn:EA; [lia|].
          rewrite (remove_output_pos G1 _ k) by exact EA. simpl. unfold fupd.
          destruct (Nat.eqb_spec w (nA (gn G g))) as [->|Hne]; simpl.
          + rewrite Nat.eqb_refl. repeat split; auto. lia.
          + destruct (Nat.eqb_spec (nA (gn G g)) w); [congruence|]. repeat split; auto.
        - pose proof (Cnt (nB (gn G g))) as CB. pose proof (Cnt (nA (gn G g))) as CA.
          unfold slots, slotA, slotB in CA, CB. rewrite Ei in CA, CB. simpl in CA, CB.
          rewrite Nat.eqb_refl in CA, CB.
          destruct (wnum (gw G (nB (gn G g)))) as [|kb] eqn:EB;
            [destruct (Nat.eqb (nA (gn G g)) (nB (gn G g))); lia|].
          rewrite (remove_output_pos G1 _ kb) by exact EB.
          set (G2' := set_w G1 (nB (gn G g)) (w_set_num (gw G1 (nB (gn G g))) kb)).
          assert (EA' : exists ka, wnum (gw G2' (nA (gn G g))) = S ka /\
                          wnum (gw G (nA (gn G g))) =
                          S ka + (if Nat.eqb (nA (gn G g)) (nB (gn G g)) then 1 else 0)).
          { unfold G2'. simpl. unfold fupd.
            destruct (Nat.eqb_spec (nA (gn G g)) (nB (gn G g))) as [E|E]; simpl.
            - rewrite E in *. rewrite Nat.eqb_refl in CA. rewrite EB in CA.
              destruct kb; [lia|]. exists kb. split; [reflexivity|]. rewrite EB. lia.
            - destruct (wnum (gw G (nA (gn G g)))) as [|ka] eqn:EA; [simpl in CA; lia|].
              exists ka. split; [reflexivity|lia]. }
          destruct EA' as (ka & EA1 & EA2).
          rewrite (remove_output_pos G2' _ ka) by exact EA1. unfold G2'. simpl. unfold fupd.
          destruct (Nat.eqb_spec w (nA (gn G g))) as [->|HneA]; simpl.
          + rewrite Nat.eqb_refl.
            destruct (Nat.eqb_spec (nA (gn G g)) (nB (gn G g))) as [E|E]; simpl.
            * rewrite <- E. rewrite Nat.eqb_refl. simpl. repeat split; auto. lia.
            * destruct (Nat.eqb_spec (nB (gn G g)) (nA (gn G g))); [congruence|].
              simpl. repeat split; auto. lia.
          + destruct (Nat.eqb_spec (nA (gn G g)) w); [congruence|].
            destruct (Nat.eqb_spec w (nB (gn G g))) as [->|HneB]; simpl.
            * rewrite Nat.eqb_refl. simpl. repeat split; auto. lia.
            * destruct (Nat.eqb_spec (nB (gn G g)) w); [congruence|]. simpl. repeat split; auto. }
      assert (Dg : ndead (gn G3 g) = true).
      { rewrite N3. unfold G1. simpl. unfold fupd. now rewrite Nat.eqb_refl. }
      assert (Oth : forall i, i <> g -> gn G3 i = gn G i).
      { intros i Hi. rewrite N3. unfold G1. simpl. unfold fupd.
        destruct (Nat.eqb_spec i g); [contradiction|reflexivity]. }
      assert (NS : forall i, node_same (gn G i) (gn G3 i)).
      { intros i. destruct (Nat.eq_dec i g) as [->|Hi]; [|rewrite (Oth i Hi); repeat split].
        rewrite N3. unfold G1. simpl. unfold fupd. rewrite Nat.eqb_refl. repeat split. }
      destruct O3 as (o1 & o2 & o3).
      constructor.
      + now rewrite o1, (p_order _ _ _ _ P).
      + now rewrite o2, (p_ins _ _ _ _ P).
      + now rewrite o3, (p_outs _ _ _ _ P).
      + intros i. destruct (p_nodes _ _ _ _ P i) as (a & b & c & d & e).
        destruct (NS i) as (a' & b' & c' & d' & e'). repeat split; congruence.
      + intros i Hi. assert (i <> g) by (intros ->; apply Hi; now left).
        rewrite (Oth i H). apply (p_dead _ _ _ _ P). intros H1. apply Hi. now right.
      + intros i. rewrite (p_kept _ _ _ _ P i). simpl. split.
        * intros [H1 H2]. assert (i <> g) by (intros ->; contradiction).
          rewrite (Oth i H). auto.
        * intros [[<-|H1] H2]; [congruence|].
          assert (i <> g) by (intros ->; contradiction). rewrite (Oth i H) in H2. auto.
      + intros w. destruct (W3 w) as (a & b & _). destruct (p_wires _ _ _ _ P w). split; congruence.
      + intros w. destruct (W3 w) as (_ & _ & c).
        pose proof (uses_dead G G3 g w ND HgG o1 Oth Hd0 Dg) as U.
        pose proof (p_cnt _ _ _ _ P w). lia.
      + (* the outputs stay available *)
        assert (AV : forall w, avail G w -> w <> O -> avail G3 w).
        { intros w Hw. induction Hw as [w Hw|c [Lc Dc] Hin IH]; intros Hne.
          - apply av_in. now rewrite o2.
          - assert (Hcg : c <> g) by (intros ->; apply Hne; reflexivity).
            rewrite <- (Oth c Hcg). apply av_gate.
            + split; [now rewrite o1|]. now rewrite (Oth c Hcg).
            + intros w Hw. rewrite (Oth c Hcg) in Hw. apply IH; auto.
              intros ->. apply (NoUse c Lc Dc Hw). }
        intros o Ho. apply AV; [now apply (p_avail _ _ _ _ P)|].
        intros ->. rewrite <- (p_outs _ _ _ _ P) in Ho.
        assert (wout (gw G0 O) = true).
        { apply (tv_outs_flag _ T0). now rewrite <- (p_outs _ _ _ _ P). }
        rewrite <- (proj2 (p_wires _ _ _ _ P O)) in H. congruence.
      + (* no RemoveOutput underflow *)
        rewrite <- (p_err _ _ _ _ P).
        assert (CA : 0 < slots (gn G g) (nA (gn G g))).
        { apply slots_inputs. unfold inputs_of. destruct (is_inv _); now left. }
        unfold G3, G2. destruct (is_inv (nop (gn G g))) eqn:Ei.
        * rewrite remove_output_ok; [reflexivity|]. pose proof (Cnt (nA (gn G g))). simpl. lia.
        * assert (CB : 0 < slots (gn G g) (nB (gn G g))).
          { apply slots_inputs. unfold inputs_of. rewrite Ei. right. now left. }
          assert (E1 : gerr (remove_output G1 (nB (gn G g))) = gerr G).
          { rewrite remove_output_ok; [reflexivity|]. pose proof (Cnt (nB (gn G g))). simpl. lia. }
          rewrite remove_output_ok; [exact E1|].
          pose proof (remove_output_wnum G1 (nB (gn G g)) (nA (gn G g))) as W.
          pose proof (Cnt (nA (gn G g))) as CA'. simpl in W.
          unfold slots, slotA, slotB in CA'. rewrite Ei, Nat.eqb_refl in CA'. simpl in CA'.
          rewrite (Nat.eqb_sym (nB (gn G g))) in CA'.
          destruct (Nat.eqb (nA (gn G g)) (nB (gn G g))); lia.
  Qed.
End PruneStep.

Lemma gnn_remove_output G w : gnn (remove_output G w) = gnn G.
Proof. unfold remove_output. destruct (wnum _); reflexivity. Qed.

Lemma gnn_gate_prune G g : gnn (fst (gate_prune G g)) = gnn G.
Proof.
  unfold gate_prune. destruct (_ || _ || _); simpl; auto.
  rewrite gnn_remove_output. destruct (is_inv _); [reflexivity|now rewrite gnn_remove_output].
Qed.

Lemma gnn_prune_fold l : forall st, gnn (fst (fold_left prune_step l st)) = gnn (fst st).
Proof.
  induction l as [|g l IH]; intros [G kept]; simpl; auto.
  pose proof (gnn_gate_prune G g) as H. destruct (gate_prune G g) as [G1 p]. simpl in H.
  rewrite (IH (G1, if p then kept else g :: kept)). exact H.
Qed.

Lemma tvs_prune_fold l : forall st, tvs (fst st) (fst (fold_left prune_step l st)).
Proof.
  induction l as [|g l IH]; intros [G kept]; simpl; [apply tvs_refl|].
  pose proof (tvs_gate_prune G g) as H. destruct (gate_prune G g) as [G1 p]. simpl in H.
  eapply tvs_trans; [exact H|]. apply (IH (G1, if p then kept else g :: kept)).
Qed.

Lemma tvs_prune G : tvs G (prune G).
Proof.
  unfold prune. rewrite prune_sweep_eq.
  pose proof (tvs_prune_fold (rev (gorder G)) (G, [])) as H.
  destruct (fold_left prune_step (rev (gorder G)) (G, [])) as [G1 kept]. simpl in H.
  eapply tvs_trans; [exact H|apply tvs_set_order].
Qed.

Lemma avail_live_ext G G' :
  gins G' = gins G ->
  (forall c, live G c -> live G' c /\ gn G' c = gn G c) ->
  forall w, avail G w -> avail G' w.
Proof.
  intros Hi Hl w H. induction H as [w Hw|g Lg Hin IH].
  - apply av_in. now rewrite Hi.
  - destruct (Hl g Lg) as [L' E]. rewrite <- E. apply av_gate; auto.
    intros w Hw. rewrite E in Hw. now apply IH.
Qed.

Section PruneAll.
  Variables (rank : nat -> nat) (G0 : graph).
  Hypothesis B0 : BK G0.
  Hypothesis S0 : ST0 rank G0.
  Hypothesis T0 : TV G0.

  Lemma prune_fold_PI l : forall G kept done,
    NoDup l -> (forall g, In g l -> In g (gorder G0) /\ ~ In g done) ->
    PI G0 G kept done ->
    PI G0 (fst (fold_left prune_step l (G, kept))) (snd (fold_left prune_step l (G, kept)))
       (rev l ++ done).
  Proof.
    induction l as [|g l IH]; intros G kept done ND Hl P; [simpl; auto|].
    cbn [fold_left rev].
    inversion ND as [|? ? Hgl ND']; subst.
    destruct (Hl g (or_introl eq_refl)) as [Hg Hnd].
    pose proof (prune_step_PI rank G0 B0 S0 T0 G kept done g P Hg Hnd) as P1.
    destruct (prune_step (G, kept) g) as [G1 k1] eqn:E. simpl in P1.
    rewrite <- app_assoc. simpl.
    apply IH; auto.
    intros h Hh. destruct (Hl h (or_intror Hh)) as [a b]. split; auto.
    intros [<-|H]; auto.
  Qed.

  (* Prune hands Compile a graph satisfying cwf *)
  Theorem prune_cwf : cwf (prune G0).
  Proof.
    pose proof (tvs_TV _ _ (tvs_prune G0) T0) as T'.
    unfold prune in *. rewrite prune_sweep_eq in *.
    assert (P0 : PI G0 G0 [] []).
    { constructor.
      - reflexivity.
      - reflexivity.
      - reflexivity.
      - intros i. repeat split.
      - intros i _. reflexivity.
      - intros i. simpl. tauto.
      - intros w. split; reflexivity.
      - apply (bk_cnt _ B0).
      - intros o Ho. now apply (s0_avail _ _ S0).
      - reflexivity. }
    pose proof (prune_fold_PI (rev (gorder G0)) G0 [] []) as PF.
    destruct (fold_left prune_step (rev (gorder G0)) (G0, [])) as [G1 kept] eqn:E. simpl in PF.
    assert (P : PI G0 G1 kept (gorder G0)).
    { rewrite app_nil_r, rev_involutive in PF.
      apply PF; auto.
      - apply NoDup_rev. apply (bk_nodup _ B0).
      - intros g Hg. split; [now apply in_rev|intros []]. }
    clear PF.
    assert (NI : forall i, inputs_of (gn G1 i) = inputs_of (gn G0 i)).
    { intros i. apply node_same_inputs. apply (p_nodes _ _ _ _ P). }
    assert (NO : forall i, nO (gn G1 i) = nO (gn G0 i)).
    { intros i. apply (p_nodes _ _ _ _ P). }
    assert (LV : forall g, live (set_order G1 kept) g -> In g (gorder G0) /\ ndead (gn G1 g) = false).
    { intros g [Hk Hd]. simpl in Hk, Hd. apply (p_kept _ _ _ _ P) in Hk. tauto. }
    constructor; try apply T'.
    - (* lists *)
      intros g Lg w Hw. destruct (LV g Lg) as [Hg Hd]. simpl in Hw |- *. rewrite NI in Hw.
      rewrite (proj1 (p_wires _ _ _ _ P w)). apply count_pos_in.
      pose proof (bk_lists _ B0 g w Hg) as L. unfold lslots in L.
      rewrite (s0_nodead _ _ S0 g Hg) in L. apply slots_inputs in Hw. lia.
    - (* entries *)
      intros w c Hc Hd. simpl in Hc, Hd |- *. rewrite (proj1 (p_wires _ _ _ _ P w)) in Hc.
      apply (p_kept _ _ _ _ P). split; auto. eapply (s0_entries _ _ S0); eauto.
    - intros g Lg w Hw. destruct (LV g Lg) as [Hg Hd]. simpl in Hw |- *. rewrite NI in Hw.
      rewrite (proj2 (p_wires _ _ _ _ P w)). now apply (s0_nocons _ _ S0 g).
    - intros g Lg. destruct (LV g Lg) as [Hg Hd]. simpl. rewrite NO, (p_ins _ _ _ _ P).
      now apply (s0_prod _ _ S0).
    - intros g1 g2 L1 L2. destruct (LV g1 L1) as [H1 _]. destruct (LV g2 L2) as [H2 _].
      simpl. rewrite !NO. now apply (s0_uniq _ _ S0).
    - intros g Hg. simpl in Hg |- *. apply (p_kept _ _ _ _ P) in Hg. destruct Hg as [Hg _].
      assert (E' : gnn G1 = gnn G0).
      { pose proof (gnn_prune_fold (rev (gorder G0)) (G0, [])) as H. rewrite E in H. exact H. }
      rewrite E'. now apply (bk_range _ B0).
    - (* availability *)
      intros o Ho. simpl in Ho. rewrite (p_outs _ _ _ _ P) in Ho.
      apply (avail_live_ext G1); [reflexivity| |now apply (p_avail _ _ _ _ P)].
      intros c [Lc Dc]. split; [|reflexivity]. split; auto. simpl.
      apply (p_kept _ _ _ _ P). split; auto. now rewrite <- (p_order _ _ _ _ P).
  Qed.

  (* Prune never underflows a counter *)
  Theorem prune_gerr : gerr (prune G0) = gerr G0.
  Proof.
    unfold prune. rewrite prune_sweep_eq.
    assert (P0 : PI G0 G0 [] []).
    { constructor.
      - reflexivity.
      - reflexivity.
      - reflexivity.
      - intros i. repeat split.
      - intros i _. reflexivity.
      - intros i. simpl. tauto.
      - intros w. split; reflexivity.
      - apply (bk_cnt _ B0).
      - intros o Ho. now apply (s0_avail _ _ S0).
      - reflexivity. }
    pose proof (prune_fold_PI (rev (gorder G0)) G0 [] []) as PF.
    destruct (fold_left prune_step (rev (gorder G0)) (G0, [])) as [G1 kept] eqn:E. simpl in PF.
    simpl. apply (p_err G0 G1 kept (rev (rev (gorder G0)) ++ [])). apply PF; auto.
    - apply NoDup_rev. apply (bk_nodup _ B0).
    - intros g Hg. split; [now apply in_rev|intros []].
  Qed.
End PruneAll.

Lemma fresh_TV G : wfg G -> wfb G -> TV G.
Proof.
  intros WF FB. constructor.
  - apply (fb_fresh _ FB).
  - apply (fb_unvis _ FB).
  - apply (wf_nodup_ins _ WF).
  - apply (fb_ins_flag _ FB).
  - apply (fb_outs_nodup _ FB).
  - apply (fb_outs_flag _ FB).
Qed.

(* the graph handed to Compile satisfies its precondition, with and without
   pruning, for every freshly built graph *)
Theorem optimize_cwf (do_prune : bool) G : wfg G -> wfb G -> wfx G -> cwf (optimize do_prune G).
Proof.
  intros WF FB X. destruct (fresh_SI G WF FB X) as (rank & SIG).
  pose proof (geval_sat G WF []) as I0.
  pose proof (fresh_TV G WF FB) as T0.
  destruct (const_propagate_SI rank [] _ G SIG I0) as ((B1 & S1) & F1).
  pose proof (tvs_TV _ _ (tvs_const_propagate G (Inv_consts _ _ _ I0)) T0) as T1.
  set (G1 := const_propagate G) in *.
  destruct (scx_fold_XI (gorder G1) G1 rank) as (_ & r & B2 & S2 & _ & V2); auto.
  - apply (bk_nodup _ B1).
  - now apply ST_ST0.
  - intros w p Hp. destruct (st_winp2 _ _ S1 w p Hp) as [a b]. split; auto.
  - unfold optimize. fold G1. fold (short_circuit_xor_zero G1).
    destruct do_prune.
    + apply (prune_cwf r); auto.
    + apply (cwf_of_inv r); auto.
Qed.

(* C09: for all prune flags, all targets, every freshly built graph and every
   input the compiled circuit computes the graph's meaning *)
Theorem pipeline_correct_all (do_prune : bool) t G x :
  wfg G -> wfb G -> wfx G -> length x = length (gins G) ->
  eval_plain (pipeline do_prune t G) x = graph_eval G x.
Proof.
  intros WF FB X Hx. apply pipeline_correct_wf; auto. now apply optimize_cwf.
Qed.
