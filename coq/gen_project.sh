#!/bin/sh
# regenerate _CoqProject from the files present (so new theory files need no central edit)
cd "$(dirname "$0")"
{ echo "-Q theories Mpc"; echo "-arg -w -arg -notation-overridden,-deprecated,-ambiguous-paths"; find theories -name '*.v' ! -path 'theories/Props/*' ! -path 'theories/Extract/*' | sort; } > _CoqProject.new
if ! cmp -s _CoqProject.new _CoqProject; then mv _CoqProject.new _CoqProject; coq_makefile -f _CoqProject -o Makefile.coq >/dev/null; else rm _CoqProject.new; fi
[ -f Makefile.coq ] || coq_makefile -f _CoqProject -o Makefile.coq >/dev/null
