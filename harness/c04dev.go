package main

// c04dev.go — C04 against a DEVIATING evaluator: the peer follows the protocol except for the
// OT query (offset, count) it sends.  The garbler must hand to the OT only the wires of the
// evaluator's own input; any other accepted range that overlaps the garbler's input wires
// lets the evaluator obtain, through the OT, the second label of a wire whose first label was
// already sent in the clear (=> R and the garbler's whole input).  The model side is
// C16_range_check / C16_bytes_query: accepted <=> (offset, count) = (n0, n1).

import (
	"fmt"
	"strings"
	"sync"
	"time"

	"github.com/markkurossi/mpc/circuit"
	"github.com/markkurossi/mpc/env"
	"github.com/markkurossi/mpc/ot"
	"github.com/markkurossi/mpc/p2p"
)

// c04DeviatingEvaluator receives the first flight like circuit.Evaluator, then asks for the
// wire range [off, off+cnt) with all choice bits 1.
func c04DeviatingEvaluator(conn *p2p.Conn, oti ot.OT, circ *circuit.Circuit, off, cnt int) ([]ot.Label, error) {
	var ld ot.LabelData
	var l ot.Label
	if _, err := conn.ReceiveData(); err != nil {
		return nil, err
	}
	ng, err := conn.ReceiveUint32()
	if err != nil {
		return nil, err
	}
	for i := 0; i < ng; i++ {
		rows, err := conn.ReceiveUint32()
		if err != nil {
			return nil, err
		}
		for j := 0; j < rows; j++ {
			if err := conn.ReceiveLabel(&l, &ld); err != nil {
				return nil, err
			}
		}
	}
	for i := 0; i < int(circ.Inputs[0].Type.Bits); i++ {
		if err := conn.ReceiveLabel(&l, &ld); err != nil {
			return nil, err
		}
	}
	if err := oti.InitReceiver(conn); err != nil {
		return nil, err
	}
	if err := conn.SendUint32(off); err != nil {
		return nil, err
	}
	if err := conn.SendUint32(cnt); err != nil {
		return nil, err
	}
	if err := conn.Flush(); err != nil {
		return nil, err
	}
	flags := make([]bool, cnt)
	for i := range flags {
		flags[i] = true
	}
	labels := make([]ot.Label, cnt)
	if err := oti.Receive(flags, labels); err != nil {
		return nil, err
	}
	return labels, nil
}

func runDeviatingQuery(c *Ctx, idx int) error {
	r := c.rng.Fork()
	circ := GenCircuit(r, GenOpts{MinIn: 4, MaxIn: 12, MinGates: 5, MaxGates: 30, MaxOut: 4, Overwrite: true, TwoParty: true})
	n0 := int(circ.Inputs[0].Type.Bits)
	n1 := int(circ.Inputs[1].Type.Bits)
	x := make([]bool, n0)
	for k := range x {
		x[k] = r.Bool()
	}
	// ranges other than (n0, n1): below / above the boundary, ending at / before / after the last
	// input wire, whole input vector, a single garbler wire, an empty range
	type q struct{ off, cnt int }
	qs := []q{{0, n0 + n1}, {n0 - 1, n1 + 1}, {0, n0}, {0, 1}, {n0 - 1, 1}, {n0 - 1, n1}, {1, n0 + n1 - 1}, {n0, n1}}
	if n1 > 1 {
		qs = append(qs, q{n0 + 1, n1 - 1}, q{n0, n1 - 1})
	}
	kind := otKinds[idx%3]
	for qi, qq := range qs {
		if qq.off < 0 || qq.cnt <= 0 {
			continue
		}
		honest := qq.off == n0 && qq.cnt == n1
		sr := r.Fork()
		ga, ea, g2e, _ := newDuplexPair(sr, 0)
		gConn, eConn := p2p.NewConn(ga), p2p.NewConn(ea)
		grand := &blockLog{r: sr.Fork(), skipKey: true}
		gOT := &recOT{OT: kind.mk(sr.Fork())}
		eOT := kind.mk(sr.Fork())
		var wg sync.WaitGroup
		var gErr, eErr error
		var got []ot.Label
		wg.Add(2)
		go func() {
			defer wg.Done()
			defer func() {
				if p := recover(); p != nil {
					gErr = fmt.Errorf("panic: %v", p)
				}
				ga.Close() // the garbler is done (refused or served): unblock the peer
			}()
			if !honest {
				// a refusing garbler returns at once; a serving one would wait for result labels
				// that never come: the deferred Close of the peer side ends it
			}
			_, gErr = circuit.Garbler(&env.Config{Rand: grand}, gConn, gOT, circ, bitsToBig(x), false)
		}()
		go func() {
			defer wg.Done()
			defer func() {
				if p := recover(); p != nil {
					eErr = fmt.Errorf("panic: %v", p)
				}
				ea.Close()
			}()
			got, eErr = c04DeviatingEvaluator(eConn, eOT, circ, qq.off, qq.cnt)
		}()
		done := make(chan struct{})
		go func() { wg.Wait(); close(done) }()
		select {
		case <-done:
		case <-time.After(20 * time.Second):
			ga.Close()
			ea.Close()
			<-done
		}
		go gConn.Close()
		go eConn.Close()
		served := len(gOT.sent) > 0
		c.Hist("mode:deviating-ot-query:" + kind.name)
		c.Eval(fmt.Sprintf("devq|%s|%s|%d|%d|%s", circuitText(circ), bitsString(x), qq.off, qq.cnt, kind.name), true)
		if honest {
			if !served {
				c.Fail("c04:ot-query:honest-range-refused", fmt.Sprintf("the garbler refused the honest OT range (%d,%d): %v", qq.off, qq.cnt, gErr), nil)
			}
			continue
		}
		if !served {
			continue // refused, as it must
		}
		g2e.mu.Lock()
		stream := append([]byte(nil), g2e.log...)
		g2e.mu.Unlock()
		R := setS(grand.blocks[0])
		detail := fmt.Sprintf("n0=%d n1=%d, evaluator asked for wires [%d,%d) (query %d); garbler error: %v; evaluator error: %v", n0, n1, qq.off, qq.off+qq.cnt, qi, gErr, eErr)
		var recv [][]ot.Label
		if got != nil {
			recv = [][]ot.Label{got}
		}
		if leaks := otLeaks(stream, R, gOT.sent, recv); len(leaks) > 0 {
			detail += "; " + strings.Join(leaks, "; ")
		}
		c.Fail("c04:whole-circuit:ot-query-range-not-checked:serves-wires-outside-the-peer-input",
			"the garbler served an OT range other than exactly the evaluator's input wires: through the OT the evaluator obtains the second label of wires whose first label it already holds",
			c04Replay{Seed: c.Seed, Mode: "deviating-ot-query:" + kind.name, Case: idx, R: R.String(), Detail: detail, Inputs: bitsString(x)})
	}
	return nil
}
