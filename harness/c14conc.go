package main

// C14, overlapping calls: Marshal / MarshalBristol / MarshalFormat do not modify the circuit and
// the parsers only read their input, so callers may run them from several goroutines (circuits
// streamed over pipes / network writers).  Every writer and reader must then still produce what
// a sequential call produces.
// (a) deterministic: the destination of circuit A stalls inside its k-th Write (first / middle /
//     last gate) until circuit B has been serialised completely by another goroutine; the
//     source of a parse of A stalls inside its k-th Read until B has been parsed completely;
// (b) free-running: several goroutines serialise different circuits into io.Pipe ends that
//     concurrent parsers read, bounded by rounds and time.

import (
	"bytes"
	"fmt"
	"io"
	"sync"
	"time"

	"github.com/markkurossi/mpc/circuit"
)

type c14ConcReplay struct {
	Seed     uint64 `json:"seed"`
	Family   string `json:"family"`
	Writer   string `json:"call"`
	CircuitA string `json:"circuit_a"`
	CircuitB string `json:"circuit_b"`
	Stall    string `json:"stall_point"`
	Detail   string `json:"detail"`
}

// stallWriter blocks inside its k-th Write (before handing the bytes on) until released.
type stallWriter struct {
	buf     bytes.Buffer
	n, k    int
	reached chan struct{}
	release chan struct{}
}

func (w *stallWriter) Write(p []byte) (int, error) {
	if w.n == w.k {
		close(w.reached)
		select {
		case <-w.release:
		case <-time.After(10 * time.Second):
		}
	}
	w.n++
	return w.buf.Write(p)
}

type countWrites struct{ n int }

func (w *countWrites) Write(p []byte) (int, error) { w.n++; return len(p), nil }

// stallReader hands out the bytes in small pieces and blocks inside its k-th Read.
type stallReader struct {
	bs      []byte
	n, k    int
	reached chan struct{}
	release chan struct{}
}

func (r *stallReader) Read(p []byte) (int, error) {
	if r.n == r.k {
		close(r.reached)
		select {
		case <-r.release:
		case <-time.After(10 * time.Second):
		}
	}
	r.n++
	if len(r.bs) == 0 {
		return 0, io.EOF
	}
	m := 7
	if m > len(r.bs) {
		m = len(r.bs)
	}
	if m > len(p) {
		m = len(p)
	}
	copy(p, r.bs[:m])
	r.bs = r.bs[m:]
	return m, nil
}

type c14Writer struct {
	name   string
	format int
	run    func(c *circuit.Circuit, w io.Writer) error
}

var c14Writers = []c14Writer{
	{"Marshal", 0, func(c *circuit.Circuit, w io.Writer) error { return c.Marshal(w) }},
	{"MarshalBristol", 1, func(c *circuit.Circuit, w io.Writer) error { return c.MarshalBristol(w) }},
	{"MarshalFormat(mpclc)", 0, func(c *circuit.Circuit, w io.Writer) error { return c.MarshalFormat(w, "mpclc") }},
	{"MarshalFormat(bristol)", 1, func(c *circuit.Circuit, w io.Writer) error { return c.MarshalFormat(w, "bristol") }},
}

func c14ParseReader(format int, r io.Reader) (res string) {
	defer func() {
		if p := recover(); p != nil {
			res = fmt.Sprint("panic: ", p)
		}
	}()
	var c *circuit.Circuit
	var err error
	if format == 0 {
		c, err = circuit.ParseMPCLC(r)
	} else {
		c, err = circuit.ParseBristol(r)
	}
	if err != nil {
		return "error: " + err.Error()
	}
	return L(c14CircSX(c), c14StatsSX(c)).String()
}

func runC14Concurrent(c *Ctx) {
	short := func(circ *circuit.Circuit) string {
		s := circuitText(circ)
		if len(s) > 600 {
			s = s[:600] + "..."
		}
		return s
	}
	// ---- (a) deterministic stalls
	for i := 0; i < c.N(4, 60); i++ {
		r := c.rng.Fork()
		a := GenCircuit(r, GenOpts{MinIn: 2, MaxIn: 6, MinGates: 5, MaxGates: 20, MaxOut: 3})
		b := GenCircuit(r, GenOpts{MinIn: 2, MaxIn: 6, MinGates: 5, MaxGates: 20, MaxOut: 3})
		noGates := &circuit.Circuit{NumGates: a.NumGates, NumWires: a.NumWires, Inputs: a.Inputs, Outputs: a.Outputs}
		for _, wr := range c14Writers {
			seqA, seqB := c14Marshal(wr.format, a), c14Marshal(wr.format, b)
			var total, head countWrites
			wr.run(a, &total)
			wr.run(noGates, &head)
			if total.n <= head.n {
				head.n = 0
			}
			points := map[string]int{"first-gate": head.n, "middle-gate": head.n + (total.n-head.n)/2, "last-write": total.n - 1}
			for pname, k := range points {
				sw := &stallWriter{k: k, reached: make(chan struct{}), release: make(chan struct{})}
				var errA, errB error
				var bufB bytes.Buffer
				done := make(chan struct{})
				go func() { errA = wr.run(a, sw); close(done) }()
				select {
				case <-sw.reached:
				case <-done: // fewer writes than counted: nothing to overlap
				case <-time.After(10 * time.Second):
				}
				errB = wr.run(b, &bufB) // B is serialised completely while A is inside Write
				close(sw.release)
				<-done
				stall := fmt.Sprintf("A inside Write #%d of %d (%s) while B is serialised", k, total.n, pname)
				c.Eval(fmt.Sprintf("cw|%s|%s|%x|%x", wr.name, pname, seqA, seqB), true)
				c.Hist("concurrent:stall-writer:" + wr.name + ":" + pname)
				rp := c14ConcReplay{Seed: c.Seed, Family: "deterministic-stall", Writer: wr.name, CircuitA: short(a), CircuitB: short(b), Stall: stall}
				if errA != nil || errB != nil {
					rp.Detail = fmt.Sprint(errA, errB)
					c.Fail("c14:concurrent:"+wr.name+":write-error", "overlapping "+wr.name+" calls: "+rp.Detail, rp)
					continue
				}
				gotA := sw.buf.Bytes()
				if !bytes.Equal(gotA, seqA) || !bytes.Equal(bufB.Bytes(), seqB) {
					off := 0
					for off < len(gotA) && off < len(seqA) && gotA[off] == seqA[off] {
						off++
					}
					rp.Detail = fmt.Sprintf("A: %d bytes, sequential %d bytes, first difference at offset %d; B equal: %v; parse(A bytes) = %.80s",
						len(gotA), len(seqA), off, bytes.Equal(bufB.Bytes(), seqB), c14ParseReader(wr.format, bytes.NewReader(gotA)))
					c.Fail("c14:concurrent:"+wr.name+":bytes-differ-from-sequential",
						fmt.Sprintf("%s of circuit A while another goroutine runs %s of circuit B (%s): %s", wr.name, wr.name, stall, rp.Detail), rp)
					continue
				}
				o := c14Parse(wr.format, gotA)
				if o.class() != 0 || c14SameCircuit(wr.format, a, o.c) != "" {
					rp.Detail = o.className()
					c.Fail("c14:concurrent:"+wr.name+":does-not-parse-back", "bytes written under overlap do not parse back to the circuit", rp)
				}
			}
		}
		// readers: parse of A stalls inside a Read while B is parsed completely
		for f := 0; f < 2; f++ {
			bsA, bsB := c14Marshal(f, a), c14Marshal(f, b)
			wantA, wantB := c14ParseReader(f, bytes.NewReader(bsA)), c14ParseReader(f, bytes.NewReader(bsB))
			reads := (len(bsA) + 6) / 7
			for pname, k := range map[string]int{"first-read": 0, "middle-read": reads / 2, "last-read": reads - 1} {
				sr := &stallReader{bs: bsA, k: k, reached: make(chan struct{}), release: make(chan struct{})}
				var gotA string
				done := make(chan struct{})
				go func() { gotA = c14ParseReader(f, sr); close(done) }()
				select {
				case <-sr.reached:
				case <-done:
				case <-time.After(10 * time.Second):
				}
				gotB := c14ParseReader(f, bytes.NewReader(bsB))
				close(sr.release)
				<-done
				c.Eval(fmt.Sprintf("cr|%d|%s|%x|%x", f, pname, bsA, bsB), true)
				c.Hist("concurrent:stall-reader:" + c14Fmt[f] + ":" + pname)
				if gotA != wantA || gotB != wantB {
					c.Fail("c14:concurrent:"+c14Fmt[f]+":result-differs-from-sequential",
						"overlapping "+c14Fmt[f]+" calls return something else than sequential calls",
						c14ConcReplay{Seed: c.Seed, Family: "deterministic-stall", Writer: c14Fmt[f], CircuitA: short(a), CircuitB: short(b),
							Stall: fmt.Sprintf("A inside Read #%d (%s) while B is parsed", k, pname), Detail: fmt.Sprintf("%.120s", gotA)})
				}
			}
		}
	}

	// ---- (b) free-running: writers into io.Pipe, concurrent parsers at the other end
	const workers = 6
	circs := make([]*circuit.Circuit, workers)
	r := c.rng.Fork()
	for i := range circs {
		circs[i] = GenCircuit(r, GenOpts{MinIn: 2, MaxIn: 8, MinGates: 10, MaxGates: 60, MaxOut: 4})
	}
	deadline := time.Now().Add(time.Duration(c.N(1500, 15000)) * time.Millisecond)
	rounds := 0
	var mu sync.Mutex
	reported := map[string]bool{}
	for rounds < c.N(300, 5000) && time.Now().Before(deadline) {
		rounds++
		wr := c14Writers[rounds%len(c14Writers)]
		var wg sync.WaitGroup
		for wi := 0; wi < workers; wi++ {
			wg.Add(1)
			go func(wi int) {
				defer wg.Done()
				circ := circs[(wi+rounds)%workers]
				pr, pw := io.Pipe()
				var seen bytes.Buffer
				resc := make(chan string, 1)
				go func() { resc <- c14ParseReader(wr.format, io.TeeReader(pr, &seen)); io.Copy(io.Discard, pr) }()
				err := wr.run(circ, pw)
				pw.Close()
				res := <-resc
				seq := c14Marshal(wr.format, circ)
				want := c14ParseReader(wr.format, bytes.NewReader(seq))
				reason := ""
				switch {
				case err != nil:
					reason = "write-error"
				case !bytes.Equal(seen.Bytes(), seq):
					reason = "bytes-differ-from-sequential"
				case res != want:
					reason = "parse-differs-from-sequential"
				}
				if reason != "" {
					mu.Lock()
					defer mu.Unlock()
					key := "c14:concurrent:" + wr.name + ":" + reason
					if !reported[key] {
						reported[key] = true
						c.Fail(key, fmt.Sprintf("%d goroutines run %s into pipes read by concurrent parsers (round %d): %s", workers, wr.name, rounds, reason),
							c14ConcReplay{Seed: c.Seed, Family: "free-running", Writer: wr.name, CircuitA: short(circ),
								CircuitB: short(circs[(wi+1+rounds)%workers]), Stall: "scheduler", Detail: fmt.Sprintf("%.120s", res)})
					}
				}
			}(wi)
		}
		wg.Wait()
	}
	c.Eval(fmt.Sprintf("cfree|%d", workers), true)
	c.Hist("concurrent:free-running-rounds")
	c.Note("C14 free-running overlap: %d rounds x %d goroutines", rounds, workers)
}
