package main

// C07, less-travelled call patterns: ALIASED operands.  Every binary builder is
// called with operand vectors that share wires (x = y; x a prefix / suffix /
// permutation of y), where the shared vector comes from each kind of source the
// compiler produces: plain inputs, outputs of gates with a constant input
// (a & const, a | const, a ^ const: the gates ConstPropagate short-circuits),
// constant wires, outputs of another builder.  Each configuration is compiled
// without passes and through the real pipeline of ssa.Program.CompileCircuit
// (ConstPropagate, ShortCircuitXORZero, Prune off/on, Compile) and evaluated
// exhaustively against math/big.  (A result vector aliasing an operand is not
// a legal call: Wire.SetInput panics on a second driver.)

import (
	"fmt"
	"math/big"
	"math/bits"

	"github.com/markkurossi/mpc/circuit"
	"github.com/markkurossi/mpc/compiler/circuits"
	"github.com/markkurossi/mpc/compiler/utils"
)

type c07AliasCfg struct {
	B       int    `json:"builder"`
	Name    string `json:"builder_name"`
	Tgt     int    `json:"target"`
	Src     string `json:"operand_source"`
	Pat     string `json:"alias_pattern"`
	N       int    `json:"width"`
	Mask    int    `json:"const_mask"`
	Dsw     []int  `json:"dest_widths"`
	Passes  string `json:"passes,omitempty"`
	A       string `json:"a,omitempty"`
	Bv      string `json:"b,omitempty"`
	X       string `json:"x,omitempty"`
	Y       string `json:"y,omitempty"`
	Got     string `json:"got,omitempty"`
	Want    string `json:"want,omitempty"`
	Message string `json:"message,omitempty"`
}

var c07AliasSources = []string{"plain", "and-const", "or-const", "xor-const", "const", "builder-output"}
var c07AliasPatterns = []string{"same", "prefix", "suffix", "reversed"}

func c07AliasT(src string, n, mask int, a, b int) int {
	m := 1<<uint(n) - 1
	switch src {
	case "plain":
		return a
	case "and-const":
		return a & mask
	case "or-const":
		return (a | mask) & m
	case "xor-const":
		return (a ^ mask) & m
	case "const":
		return mask
	default: // builder-output: a + b
		return (a + b) & m
	}
}

func c07AliasXY(pat string, n, t int) (x, xw int) {
	switch pat {
	case "same":
		return t, n
	case "prefix":
		return t & (1<<uint(n-1) - 1), n - 1
	case "suffix":
		return t >> 1, n - 1
	default: // reversed
		r := 0
		for i := 0; i < n; i++ {
			if t>>uint(i)&1 == 1 {
				r |= 1 << uint(n-1-i)
			}
		}
		return r, n
	}
}

// c07AliasBuild builds the configuration and compiles it with the given passes.
func c07AliasBuild(cfg c07AliasCfg, passes int) (circ *circuit.Circuit, perr error) {
	defer func() {
		if r := recover(); r != nil {
			perr = fmt.Errorf("panic: %v", r)
		}
	}()
	n := cfg.N
	calloc := circuits.NewAllocator()
	params := utils.NewParams()
	if cfg.Tgt == 1 {
		params.Target = utils.TargetGMW
	}
	mk := func(k int) []*circuits.Wire {
		ws := make([]*circuits.Wire, k)
		for i := range ws {
			ws[i] = calloc.Wire()
		}
		return ws
	}
	va, vb := mk(n), mk(n)
	inputs := append(append([]*circuits.Wire(nil), va...), vb...)
	cc, err := circuits.NewCompiler(params, calloc, c07IO([]int{n, n}, "i"), c07IO(cfg.Dsw, "o"), inputs, nil)
	if err != nil {
		return nil, err
	}
	// ssa.Program.CompileCircuit: DefineConstants(cc.ZeroWire(), cc.OneWire())
	zero, one := cc.ZeroWire(), cc.OneWire()
	cv := make([]*circuits.Wire, n)
	for i := range cv {
		if cfg.Mask>>uint(i)&1 == 1 {
			cv[i] = one
		} else {
			cv[i] = zero
		}
	}
	var t []*circuits.Wire
	switch cfg.Src {
	case "plain":
		t = va
	case "and-const":
		t = mk(n)
		err = circuits.NewBinaryAND(cc, va, cv, t)
	case "or-const":
		t = mk(n)
		err = circuits.NewBinaryOR(cc, va, cv, t)
	case "xor-const":
		t = mk(n)
		err = circuits.NewBinaryXOR(cc, va, cv, t)
	case "const":
		t = cv
	default:
		t = mk(n)
		err = circuits.NewAdder(cc, va, vb, t)
	}
	if err != nil {
		return nil, err
	}
	var x []*circuits.Wire
	switch cfg.Pat {
	case "same":
		x = t
	case "prefix":
		x = t[:n-1]
	case "suffix":
		x = t[1:]
	default:
		x = make([]*circuits.Wire, n)
		for i := range x {
			x[i] = t[n-1-i]
		}
	}
	dst := [][]*circuits.Wire{nil, nil}
	for i, w := range cfg.Dsw {
		dst[i] = mk(w)
	}
	if cfg.B == bMux {
		err = c07Call(cc, cfg.B, t[:1], x, t, dst[0], dst[1], nil)
	} else {
		err = c07Call(cc, cfg.B, x, t, nil, dst[0], dst[1], []int{0})
	}
	if err != nil {
		return nil, err
	}
	return c07CompilePasses(&c07Built{cc: cc, dst: dst}, passes)
}

func c07AliasDsw(b, n int) []int {
	switch b {
	case bAdder, bKSAdder:
		return []int{n + 1}
	case bMult, bArrayMult, bWallace:
		return []int{2 * n}
	case bUDiv, bIDiv:
		return []int{n, n}
	case bHamming:
		return []int{bits.Len(uint(n)) + 1}
	case bSub, bKSSub, bBand, bBor, bBxor, bBclr, bMux:
		return []int{n}
	}
	return []int{1}
}

func c07AliasRun(c *Ctx) {
	builders := []int{bAdder, bSub, bMult, bArrayMult, bWallace, bKSAdder, bKSSub, bUDiv, bIDiv,
		bIntGt, bUintGt, bIntGe, bUintGe, bIntLt, bUintLt, bIntLe, bUintLe, bEq, bNeq,
		bBand, bBclr, bBor, bBxor, bHamming, bMux}
	widths := []int{3, 4}
	flavors := []string{"no-passes", "after-const-propagate", "after-const-propagate+prune"}
	nconf := 0
	for _, b := range builders {
		for tgt := 0; tgt <= 1; tgt++ {
			for _, n := range widths {
				for _, src := range c07AliasSources {
					for _, pat := range c07AliasPatterns {
						if tgt == 1 && (b == bUDiv || b == bIDiv) && (pat == "prefix" || pat == "suffix") {
							continue // the GMW divider indexes b with len(a): equal widths only
						}
						cfg := c07AliasCfg{B: b, Name: c07Names[b], Tgt: tgt, Src: src, Pat: pat, N: n,
							Mask: 0x1b & (1<<uint(n) - 1), Dsw: c07AliasDsw(b, n)}
						c07AliasOne(c, cfg, flavors)
						nconf++
					}
				}
			}
		}
	}
	c.Note("%d aliased-operand configurations (x3 pass pipelines)", nconf)
}

func c07AliasOne(c *Ctx, cfg c07AliasCfg, flavors []string) {
	tgtName := []string{"Yao", "GMW"}[cfg.Tgt]
	n := cfg.N
	c.Hist("aliased-source:" + cfg.Src)
	c.Hist("aliased-pattern:" + cfg.Pat)
	amax, bmax := 1<<uint(n), 1
	if cfg.Src == "builder-output" {
		bmax = 1 << uint(n)
	}
	for passes, flavor := range flavors {
		cfg.Passes = flavor
		circ, err := c07AliasBuild(cfg, passes)
		if err != nil {
			cfg.Message = err.Error()
			c.Fail(fmt.Sprintf("c07:pipeline:aliased-operands:%s:%s:%s:%s:panic-or-error", cfg.Name, tgtName, cfg.Src, cfg.Pat),
				fmt.Sprintf("%s (%s) with aliased operands (%s of %s, width %d), %s: %v", cfg.Name, tgtName, cfg.Pat, cfg.Src, n, flavor, err), cfg)
			continue
		}
		wires := make([]byte, circ.NumWires)
		reported := false
		for a := 0; a < amax; a++ {
			for b := 0; b < bmax; b++ {
				t := c07AliasT(cfg.Src, n, cfg.Mask, a, b)
				xv, xw := c07AliasXY(cfg.Pat, n, t)
				var kk c07Case
				var vals []*big.Int
				if cfg.B == bMux {
					kk = c07Case{B: cfg.B, Tgt: cfg.Tgt, Opw: []int{1, xw, n}, Dsw: cfg.Dsw}
					vals = []*big.Int{big.NewInt(int64(t & 1)), big.NewInt(int64(xv)), big.NewInt(int64(t))}
				} else {
					kk = c07Case{B: cfg.B, Tgt: cfg.Tgt, Opw: []int{xw, n}, Dsw: cfg.Dsw, Prm: []int{0}}
					vals = []*big.Int{big.NewInt(int64(xv)), big.NewInt(int64(t))}
				}
				want := c07Expected(kk, vals)
				got := c07Eval(circ, []int{n, n}, cfg.Dsw, []*big.Int{big.NewInt(int64(a)), big.NewInt(int64(b))}, wires)
				nontriv := false
				for i := range cfg.Dsw {
					if i >= len(want) || want[i] == nil {
						continue
					}
					nontriv = true
					if want[i].Cmp(got[i]) != 0 && !reported {
						reported = true
						f := cfg
						f.A, f.Bv, f.X, f.Y = fmt.Sprint(a), fmt.Sprint(b), fmt.Sprint(xv), fmt.Sprint(t)
						f.Got, f.Want = got[i].String(), want[i].String()
						c.Fail(fmt.Sprintf("c07:pipeline:aliased-operands:%s:%s:%s:%s:wrong-value", cfg.Name, tgtName, cfg.Src, cfg.Pat),
							fmt.Sprintf("%s (%s), x = %s of y, y = %s (width %d, const mask %#x), %s: inputs a=%d b=%d give x=%d y=%d: result[%d] = %s, exact %s",
								cfg.Name, tgtName, cfg.Pat, cfg.Src, n, cfg.Mask, flavor, a, b, xv, t, i, got[i], want[i]), f)
					}
				}
				c.Eval(fmt.Sprintf("alias|%d|%d|%s|%s|%d|%s|%d|%d", cfg.B, cfg.Tgt, cfg.Src, cfg.Pat, n, flavor, a, b), nontriv)
			}
		}
	}
}
