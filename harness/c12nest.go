package main

// C12, seventh part: NESTED folds across a cast.
//
// Every other family folds an operator whose operands are LITERALS cast to the
// operator's type (T(a), -T(a), T(-a)) or names bound to such constants.  A
// literal reaches the folder as mpa.Parse made it (a non-negative big.Int, or a
// non-negative int64), sized by Generator.Constant from its VALUE.  A constant
// that was itself FOLDED at another width W1 arrives differently: it is whatever
// the W1-wide small / big path of mpa.Int left behind (a 64-bit result with bit
// 63 set is a NEGATIVE int64 with values == nil; a result of a narrower type
// sits in a 32-bit container masked to W1 bits; a big-path result carries the
// width of its operands' containers), and a cast changes only the type, never
// the mpa.Int.  So the operand shapes "result of a fold at W1, cast to W2, then
// combined at W2" are a class of their own:
//
//     T2(T1(x) op1 T1(y))  op2  T2(z)          inner on the left
//     T2(z)  op2  T2(T1(x) op1 T1(y))          inner on the right
//     T2(T1(x) op1 T1(y))  op2  T2(T1(u) op1' T1(v))   both operands nested
//     T2(T1(x) op1 T1(y)) << n, >> n,  -T2(T1(x) op1 T1(y)),  T2(T1(x) op1 T1(y))
//
// for W1 < W2 (widening), W1 > W2 (narrowing) and W1 = W2, intN and uintN, inner
// results at the boundaries of W1 and of the 32/64-bit containers (all ones, top
// bit, 2^W1-5, max positive, bit 31 / bit 63 set), every binary operator and
// unary minus as op2.
//
// Run-time variant: the same expression with the literal leaves replaced by
// inputs (a, b of T1; c of T2; d, e of T1'): the casts become the run-time casts
// of the language (mov: truncation / zero extension; smov: sign extension of an
// intN into a wider intN).
//
// The inner fold is inside Fold.fold_ok_class at W1, and the OUTER fold is inside
// fold_ok_class at W2 for the VALUES its operands have (what a literal of the
// same value is proved to fold to), so none of the known single-fold findings
// can be the cause of a failure here.  Not generated: a NEGATIVE inner result
// widened into a wider intN (the constant cast keeps the container without sign
// extension — finding F6d, T(-x), through another door); a narrowing cast of a
// value that does not fit T2 (the operand of the outer operator is then not
// "representable in its declared type": outside the property's domain; the
// constant cast does not truncate — C12_GEN_NARROW_OVERFLOW=1 generates them).
//
// Finding F6m (genuine, on the unchanged tree, notes/C12-findings.md): the big
// path of mpa.Int And / Or / Xor / AndNot / Lsh / Rsh reads its operands with
// big(), which for a folded 64-bit constant with bit 63 set (small, i64 < 0) is a
// NEGATIVE big.Int: uint128(-uint64(5)) << 64 folds to 0x30000000000000000.  That
// class (uintN, W1 = 64, W2 > 64, bit 63 of an inner result set, op2 one of the
// six) is REPAIRED by mpa.Int.ubig() and is an ordinary part of the family (the
// expected value is the circuit's); a failure is keyed F6m only when the folded
// result is exactly what the DEFECTIVE code yielded (c12CommittedWideBitop), i.e.
// when the defect returns; anything else at the site keeps the unlisted key.
//
// Correspondence: run_c12 (single-expression entry; casts of run-time values are
// modelled by Fold.evalCast) must predict both variants.
// Oracle: constant variant == run-time variant; no panic; no compile error.

import (
	"encoding/json"
	"fmt"
	"math/big"
	"os"
	"path/filepath"
	"sort"
	"strings"
)

// one inner fold of type k/W1 whose result has the W1-bit pattern pat
type c12Inner struct {
	op   int // 0..16 binary, 19 unary minus
	a, b *big.Int
	pat  *big.Int
}

func (in *c12Inner) opName() string {
	if in.op == 19 {
		return "neg"
	}
	return c12OpNames[in.op]
}

// constant and run-time expression of the inner fold; the run-time inputs are
// named n1, n2
func (in *c12Inner) exprs(k, w int, n1, n2 string) (*c12Expr, *c12Expr) {
	switch {
	case in.op == 19:
		return c12NegE(c12Operand(k, w, in.a, 0)), c12NegE(c12InE(n1, k, w, in.a))
	case in.op == 9 || in.op == 10:
		lit := c12LitE(in.b)
		return c12BinE(in.op, c12Operand(k, w, in.a, 0), lit), c12BinE(in.op, c12InE(n1, k, w, in.a), lit)
	}
	return c12BinE(in.op, c12Operand(k, w, in.a, 0), c12Operand(k, w, in.b, 0)),
		c12BinE(in.op, c12InE(n1, k, w, in.a), c12InE(n2, k, w, in.b))
}

func (in *c12Inner) inClass(k, w int) bool {
	m := c12Meta{code: in.op, k: k, n: w, a: in.a, b: in.b}
	if in.op == 19 {
		m.b = big.NewInt(0)
	}
	return m.class() >= 1
}

// the folds of type k/w (inside fold_ok_class) whose result is the pattern v
func c12InnerFolds(r *RNG, k, w int, v *big.Int) []*c12Inner {
	var out []*c12Inner
	add := func(op int, a, b *big.Int) {
		in := &c12Inner{op: op, a: a, b: b, pat: v}
		if !c12Reprb(k, w, a) {
			return
		}
		if op != 19 && op != 9 && op != 10 && !c12Reprb(k, w, b) {
			return
		}
		if in.inClass(k, w) {
			out = append(out, in)
		}
	}
	for _, it := range c12FoldFor(r, k, w, v, "nest") {
		add(it.op, it.a, it.b)
	}
	sv := c12Signed(k, w, v)
	mod := c12Pow(w)
	// x + y
	q := big.NewInt(int64(1 + r.Intn(9)))
	add(0, new(big.Int).Sub(sv, q), q)
	// x * y with a small factor
	for _, f := range []int64{3, 5, 7} {
		bf := big.NewInt(f)
		if sv.Sign() > 0 && new(big.Int).Mod(sv, bf).Sign() == 0 {
			add(2, new(big.Int).Quo(sv, bf), bf)
			break
		}
	}
	// wrap-around product: v = (2^w - 1) * (2^w - v) mod 2^w for uintN
	if k == 1 && v.Sign() > 0 {
		add(2, new(big.Int).Sub(mod, big.NewInt(1)), new(big.Int).Sub(mod, v))
	}
	// unary minus
	if k == 1 {
		if v.Sign() > 0 {
			add(19, new(big.Int).Sub(mod, v), nil)
		}
	} else if sv.Cmp(new(big.Int).Neg(c12Pow(w-1))) != 0 {
		add(19, new(big.Int).Neg(sv), nil)
	}
	// 1 << (w-1)
	if v.Cmp(c12Pow(w-1)) == 0 && k == 1 {
		add(9, big.NewInt(1), big.NewInt(int64(w-1)))
	}
	return out
}

// value (signed for intN) of T2(e) for an expression e of type k/w1 whose value
// has the w1-bit pattern v: the language's cast (mov / smov)
func c12CastValue(k, w1, w2 int, v *big.Int) *big.Int {
	sv := c12Signed(k, w1, v)
	if w2 >= w1 {
		if k == 0 {
			return sv // smov sign-extends
		}
		return v // mov zero-extends
	}
	return c12Signed(k, w2, new(big.Int).Mod(v, c12Pow(w2)))
}

// is finding F6m listed in known_findings.json (next to build/)?  C12_GEN_F6M=1|0 overrides.
func c12GenF6m() bool {
	switch os.Getenv("C12_GEN_F6M") {
	case "1":
		return true
	case "0":
		return false
	}
	exe, err := os.Executable()
	if err != nil {
		return false
	}
	for _, p := range []string{filepath.Join(filepath.Dir(exe), "..", "known_findings.json"), "/verif/known_findings.json"} {
		data, err := os.ReadFile(p)
		if err != nil {
			continue
		}
		var kf struct {
			Findings []struct {
				ID       string `json:"id"`
				Property string `json:"property"`
			} `json:"findings"`
		}
		if json.Unmarshal(data, &kf) != nil {
			return false
		}
		for _, f := range kf.Findings {
			if f.ID == "F6m" && f.Property == "C12" {
				return true
			}
		}
		return false
	}
	return false
}

// big() of a uintN constant as the folder holds it: a folded 64-bit result with bit
// 63 set is a small Int with a negative i64 (values == nil), big() makes it a
// negative big.Int; everything else is the value itself.
func c12HeldBig(folded64 bool, pat *big.Int) *big.Int {
	if folded64 && pat.Bit(63) == 1 && pat.BitLen() <= 64 {
		return new(big.Int).Sub(pat, c12Pow(64))
	}
	return new(big.Int).Set(pat)
}

// c12CommittedWideBitop: what the COMMITTED folder makes of "x op y" (op = and, or,
// xor, andnot: codes 5..8) or "x << n" / "x >> n" (codes 9, 10; y = n) at a declared
// width w > 64 when big() of the operands is X, Y (finding F6m: X or Y negative),
// returned as the program sees the folded constant through "return E" of type
// uintw: (value, false), or (nil, true) when Return.SSA rejects it (MinBits > w).
// Plain arithmetic following mpint.go (big path of And/Or/Xor/AndNot/Lsh/Rsh),
// Generator.Constant (BitLen -> 32/64/n container, SetTypeSize) and ssa isSet.
func c12CommittedWideBitop(op int, X, Y *big.Int, xbits, w int) (*big.Int, bool) {
	V := new(big.Int)
	zbits := w
	switch op {
	case 5:
		V.And(X, Y)
	case 6:
		V.Or(X, Y)
	case 7:
		V.Xor(X, Y)
	case 8:
		V.AndNot(X, Y)
	case 9:
		V.Lsh(X, uint(Y.Int64()))
		for i := V.BitLen() - 1; i >= w; i-- {
			V.SetBit(V, i, 0)
		}
	case 10:
		V.Rsh(X, uint(Y.Int64()))
		zbits = xbits
	}
	bitLen := func(bits int) int {
		if bits <= 64 {
			v := new(big.Int).And(V, new(big.Int).Sub(c12Pow(64), big.NewInt(1))) // uint64(values.Int64())
			if v.BitLen() < 1 {
				return 1
			}
			return v.BitLen()
		}
		return V.BitLen()
	}
	minBits := bitLen(zbits)
	bits := 32
	if minBits > 64 {
		bits = minBits
	} else if minBits > 32 {
		bits = 64
	}
	typeBits := w
	if bits > typeBits {
		typeBits = bits
	}
	if minBits > w {
		return nil, true
	}
	bl := bitLen(bits)
	res := new(big.Int)
	for i := 0; i < typeBits && i < bl && i < w; i++ {
		if V.Bit(i) == 1 { // two's complement bit, as int64 >> i and big.Int.Bit give it
			res.SetBit(res, i, 1)
		}
	}
	return res, false
}

type c12NestReplay struct {
	Seed      uint64   `json:"seed"`
	Const     string   `json:"constant_variant"`
	Runtime   string   `json:"runtime_variant"`
	Names     []string `json:"runtime_input_names"`
	Inputs    []string `json:"runtime_inputs"`
	ConstGot  string   `json:"constant_variant_result"`
	RuntimeGo string   `json:"runtime_variant_result"`
	Inner     string   `json:"inner_fold"`
}

// "package main / func main(<inputs in name order>) R { return E }"
func c12NestProgram(e *c12Expr, rk, rn int) (string, []string, []*big.Int) {
	ins := map[string]*c12Expr{}
	e.inputs(ins)
	var names []string
	for nm := range ins {
		names = append(names, nm)
	}
	sort.Strings(names)
	var decl []string
	var vals []*big.Int
	for _, nm := range names {
		in := ins[nm]
		decl = append(decl, nm+" "+c12TypeName(in.k, in.n))
		vals = append(vals, c12Unsigned(in.v, in.n))
	}
	for i := len(names); i < 2; i++ { // main needs two parties
		nm := fmt.Sprintf("zz%d", i)
		names = append(names, nm)
		decl = append(decl, nm+" uint8")
		vals = append(vals, big.NewInt(0))
	}
	src := "package main\nfunc main(" + strings.Join(decl, ", ") + ") " + c12TypeName(rk, rn) +
		" {\n\treturn " + e.src() + "\n}\n"
	return src, names, vals
}

type c12NestPat struct {
	name string
	v    *big.Int
}

// boundary patterns of a w-bit result
func c12NestPatterns(r *RNG, w int, thorough bool, rot int) []c12NestPat {
	one := big.NewInt(1)
	var ps []c12NestPat
	add := func(name string, v *big.Int) {
		if v.Sign() < 0 || v.Cmp(c12Pow(w)) >= 0 {
			return
		}
		for _, p := range ps {
			if p.v.Cmp(v) == 0 {
				return
			}
		}
		ps = append(ps, c12NestPat{name, v})
	}
	add("all-ones", new(big.Int).Sub(c12Pow(w), one))
	add("top-bit+rnd", new(big.Int).Add(c12Pow(w-1), c12Rand(r, w-1)))
	if w >= 4 {
		add("minus-5", new(big.Int).Sub(c12Pow(w), big.NewInt(5)))
	}
	add("max-positive", new(big.Int).Sub(c12Pow(w-1), one))
	add("rnd", c12Rand(r, w-1))
	var extra []c12NestPat
	ex := func(name string, v *big.Int) {
		if v.Sign() >= 0 && v.Cmp(c12Pow(w)) < 0 {
			extra = append(extra, c12NestPat{name, v})
		}
	}
	ex("top-bit", c12Pow(w-1))
	ex("small", big.NewInt(int64(2+r.Intn(100))))
	if w > 32 {
		ex("bit31", new(big.Int).Add(c12Pow(31), c12Rand(r, 30)))
		ex("2^32-1", new(big.Int).Sub(c12Pow(32), one))
	}
	if w > 64 {
		ex("bit63", new(big.Int).Add(c12Pow(63), c12Rand(r, 62)))
		ex("2^64-1", new(big.Int).Sub(c12Pow(64), one))
		ex("bit64", new(big.Int).Add(c12Pow(64), c12Rand(r, 63)))
	}
	if thorough {
		for _, p := range extra {
			add(p.name, p.v)
		}
	} else {
		// two of the extra patterns per type pair, rotating
		for i := 0; i < 2 && len(extra) > 0; i++ {
			p := extra[(rot+i)%len(extra)]
			add(p.name, p.v)
		}
	}
	return ps
}

func runC12Nest(c *Ctx) {
	r := c.rng.Fork()
	type wp struct{ w1, w2 int }
	pairs := []wp{
		// widening
		{8, 32}, {16, 64}, {32, 64}, {33, 64}, {32, 128}, {64, 65}, {64, 100}, {64, 128}, {65, 128},
		// narrowing
		{128, 64}, {128, 32}, {100, 33}, {65, 64}, {64, 32}, {64, 8}, {32, 8},
		// same width (the cast is the identity)
		{64, 64},
	}
	if c.Thorough() {
		pairs = append(pairs, wp{8, 16}, wp{31, 32}, wp{63, 64}, wp{63, 65}, wp{64, 127}, wp{64, 130}, wp{32, 65},
			wp{127, 128}, wp{130, 64}, wp{129, 65}, wp{65, 63}, wp{64, 63}, wp{64, 33}, wp{33, 32}, wp{32, 32}, wp{128, 128})
	}
	sidesPer := c.N(1, 3)
	genF6m := true // F6m is repaired: the class is an ordinary part of the family
	genOverflow := os.Getenv("C12_GEN_NARROW_OVERFLOW") == "1"
	nProg, nFail, nSkip, nNoInner, nF6m := 0, 0, 0, 0, 0
	kNames := []string{"int", "uint"}

	// z: the other operand of the outer operator, a T2 constant
	zValues := func(k, w int) []*big.Int {
		one := big.NewInt(1)
		vs := []*big.Int{big.NewInt(3), one, big.NewInt(int64(2 + r.Intn(100)))}
		if k == 1 {
			vs = append(vs, new(big.Int).Sub(c12Pow(w), one), new(big.Int).Add(c12Pow(w-1), c12Rand(r, w-1)))
		} else {
			vs = append(vs, new(big.Int).Sub(c12Pow(w-1), one), big.NewInt(-1), new(big.Int).Neg(new(big.Int).Add(c12Rand(r, w-2), one)))
		}
		vs = append(vs, c12Rand(r, w-1), big.NewInt(0))
		if w > 64 {
			vs = append(vs, new(big.Int).Add(c12Pow(63), c12Rand(r, 62)))
		}
		var ok []*big.Int
		for _, v := range vs {
			if c12Reprb(k, w, v) {
				ok = append(ok, v)
			}
		}
		return ok
	}

	// one (constant variant, run-time variant) pair.  committed: for a case of the
	// F6m class, what the committed folder yields (value, or rejected); nil otherwise.
	type committed struct {
		val      *big.Int
		rejected bool
	}
	run := func(k, w1, w2 int, opn, label, innerDesc string, ec, ed *c12Expr, rk, rn int, cm *committed) {
		srcC, _, inC := c12NestProgram(ec, rk, rn)
		srcD, namesD, inD := c12NestProgram(ed, rk, rn)
		oc := c12Run(srcC, inC)
		od := c12Run(srcD, inD)
		nProg++
		cls := c12NoMeta()
		c.Case(L(I(rk), I(rn), ec.sx(), cls.sx()), oc.sx(0))
		c.Case(L(I(rk), I(rn), ed.sx(), cls.sx()), od.sx(0))
		dir := "same-width"
		if w1 < w2 {
			dir = "widening"
		} else if w1 > w2 {
			dir = "narrowing"
		}
		c.Hist("nest:" + dir)
		c.Hist("nest:" + kNames[k] + fmt.Sprintf(":%d->%d", w1, w2))
		folded := oc.kind != 0 || oc.nOps == 0
		c.Eval(srcC, folded && od.kind == 0)
		if oc.kind == 0 && !folded {
			c.Note("nest: not folded: %s", strings.ReplaceAll(srcC, "\n", " | "))
		}
		if nProg <= 3 {
			c.Sample(map[string]string{"constant": srcC, "runtime": srcD, "const_result": oc.String(), "runtime_result": od.String()})
		}
		var ins []string
		for _, v := range inD {
			ins = append(ins, "0x"+v.Text(16))
		}
		rp := c12NestReplay{Seed: c.Seed, Const: srcC, Runtime: srcD, Names: namesD, Inputs: ins,
			ConstGot: oc.String(), RuntimeGo: od.String(), Inner: innerDesc}
		key := fmt.Sprintf("c12:nested-fold-across-cast:%s:%s:%d-to-%d:%s", dir, kNames[k], w1, w2, label)
		// finding F6m: only when the constant variant is exactly what the committed
		// folder yields for a negative big() operand
		if cm != nil && od.kind == 0 {
			same := (cm.rejected && oc.kind == 1 && oc.class == 1) ||
				(!cm.rejected && oc.kind == 0 && cm.val != nil && oc.val.Cmp(cm.val) == 0)
			if same {
				key = fmt.Sprintf("c12:nested-fold-across-cast:F6m-folded-uint64-bit63-operand-on-big-path:%s:%s:%d-to-%d", opn, kNames[k], w1, w2)
			}
		}
		switch {
		case oc.kind == 2:
			nFail++
			c.Fail(key+":panic", "folding an operator whose operand is a folded constant of another width panics the compiler ("+oc.text+")", rp)
		case od.kind == 2:
			nFail++
			c.Fail(key+":runtime-panic", "run-time variant panics the compiler ("+od.text+")", rp)
		case od.kind != 0:
			c.Hist("nest:runtime-variant-rejected")
			c.Note("nest: run-time variant rejected: %s: %s", od.text, strings.ReplaceAll(srcD, "\n", " | "))
		case oc.kind == 1:
			nFail++
			c.Fail(key+":compile-error", "constant variant is rejected ("+oc.text+") but the run-time variant computes 0x"+od.val.Text(16)+" ("+innerDesc+")", rp)
		case oc.val.Cmp(od.val) != 0:
			nFail++
			c.Fail(key+":wrong-value", "folded result 0x"+oc.val.Text(16)+" differs from the circuit's 0x"+od.val.Text(16)+" ("+innerDesc+")", rp)
		}
	}

	for pi, p := range pairs {
		for k := 0; k < 2; k++ {
			// boundary VALUES of min(W1, W2) bits (they fit both types), as W1-bit patterns
			// (an intN value is sign-extended into W1)
			we := p.w1
			if p.w2 < we {
				we = p.w2
			}
			var pats []c12NestPat
			for _, q := range c12NestPatterns(r, we, c.Thorough(), pi+k) {
				pats = append(pats, c12NestPat{q.name, c12Unsigned(c12Signed(k, we, q.v), p.w1)})
			}
			if genOverflow && p.w1 > p.w2 {
				for _, q := range c12NestPatterns(r, p.w1, c.Thorough(), pi+k) {
					if !c12Reprb(k, p.w2, c12Signed(k, p.w1, q.v)) {
						pats = append(pats, c12NestPat{q.name + "(does-not-fit-T2)", q.v})
					}
				}
			}
			zs := zValues(k, p.w2)
			// a second inner fold for the both-nested shape
			var second []*c12Inner
			for _, q := range pats {
				second = append(second, c12InnerFolds(r, k, p.w1, q.v)...)
			}
			// is the operand "T2(inner)" a folded 64-bit constant with bit 63 set that the
			// big path will read as a negative number (F6m)?
			heldNeg := func(pat *big.Int) bool {
				return k == 1 && p.w1 == 64 && p.w2 > 64 && pat.Bit(63) == 1
			}
			for pj, pat := range pats {
				inners := c12InnerFolds(r, k, p.w1, pat.v)
				if len(inners) == 0 {
					nNoInner++
					c.Hist("nest:no-inner-fold-in-class")
					continue
				}
				A := c12CastValue(k, p.w1, p.w2, pat.v)
				// a negative folded constant widened into a wider intN: the constant cast
				// does not sign-extend (F6d); fa = 1 puts the case outside the class
				formA := 0
				if A.Sign() < 0 && p.w2 > p.w1 {
					formA = 1
				}
				// op2: 0..16 binary, 19 unary minus, 21 the cast on its own
				for _, op2 := range []int{0, 1, 2, 3, 4, 5, 6, 7, 8, 9, 10, 11, 12, 13, 14, 15, 16, 19, 21} {
					// a 32/64-bit result widened beyond 64 bits crosses from the small path to
					// the big path: all three shapes in every run
					sides := sidesPer
					if (p.w1 == 32 || p.w1 == 64) && p.w2 > 64 {
						sides = 3
					}
					for s := 0; s < sides; s++ {
						in1 := inners[r.Intn(len(inners))]
						ic, id := in1.exprs(k, p.w1, "a", "b")
						lc, ld := c12CastE(k, p.w2, ic), c12CastE(k, p.w2, id)
						desc := fmt.Sprintf("inner %s at %s gives pattern 0x%s (%s)", in1.opName(), c12TypeName(k, p.w1), pat.v.Text(16), pat.name)
						isShift := op2 == 9 || op2 == 10
						isBool := op2 >= 11 && op2 <= 16
						rk, rn := k, p.w2
						if isBool {
							rk, rn = 2, 1
						}
						opn := "cast"
						if op2 == 19 {
							opn = "neg"
						} else if op2 <= 16 {
							opn = c12OpNames[op2]
						}
						var ec, ed *c12Expr
						var meta c12Meta
						side := "unary"
						// F6m: the operands as the big path reads them
						f6m := false
						var X, Y *big.Int
						switch {
						case op2 == 21:
							if s > 0 {
								continue
							}
							if formA == 1 {
								nSkip++
								c.Hist("nest:skipped:negative-widened(F6d)")
								continue
							}
							ec, ed = lc, ld
						case op2 == 19:
							if s > 0 {
								continue
							}
							meta = c12Meta{code: 19, k: k, n: p.w2, a: A, b: big.NewInt(0), fa: formA}
							ec, ed = c12NegE(lc), c12NegE(ld)
						case isShift:
							counts := []int{0, 1, 7, p.w1 - 1, p.w1, p.w2 - 1, p.w2, 31, 32, 33, 63, 64}
							cnt := counts[(pj+op2+s+r.Intn(3))%len(counts)]
							lit := c12LitE(big.NewInt(int64(cnt)))
							meta = c12Meta{code: op2, k: k, n: p.w2, a: A, b: big.NewInt(int64(cnt)), fa: formA}
							ec, ed = c12BinE(op2, lc, lit), c12BinE(op2, ld, lit)
							side = fmt.Sprintf("count-%d", cnt)
							f6m = heldNeg(pat.v)
							X, Y = c12HeldBig(true, pat.v), big.NewInt(int64(cnt))
						default:
							which := (pj + op2 + s + pi) % 3
							z := zs[(pj+op2+s)%len(zs)]
							zc, zd := c12Operand(k, p.w2, z, 0), c12InE("c", k, p.w2, z)
							switch which {
							case 0:
								side = "inner-left"
								meta = c12Meta{code: op2, k: k, n: p.w2, a: A, b: z, fa: formA}
								ec, ed = c12BinE(op2, lc, zc), c12BinE(op2, ld, zd)
								f6m = heldNeg(pat.v)
								X, Y = c12HeldBig(true, pat.v), z
							case 1:
								side = "inner-right"
								meta = c12Meta{code: op2, k: k, n: p.w2, a: z, b: A, fb: formA}
								ec, ed = c12BinE(op2, zc, lc), c12BinE(op2, zd, ld)
								f6m = heldNeg(pat.v)
								X, Y = z, c12HeldBig(true, pat.v)
							default:
								side = "both-nested"
								in2 := second[r.Intn(len(second))]
								B := c12CastValue(k, p.w1, p.w2, in2.pat)
								formB := 0
								if B.Sign() < 0 && p.w2 > p.w1 {
									formB = 1
								}
								jc, jd := in2.exprs(k, p.w1, "d", "e")
								meta = c12Meta{code: op2, k: k, n: p.w2, a: A, b: B, fa: formA, fb: formB}
								ec, ed = c12BinE(op2, lc, c12CastE(k, p.w2, jc)), c12BinE(op2, ld, c12CastE(k, p.w2, jd))
								desc += fmt.Sprintf("; second inner %s gives 0x%s", in2.opName(), in2.pat.Text(16))
								f6m = heldNeg(pat.v) || heldNeg(in2.pat)
								X, Y = c12HeldBig(true, pat.v), c12HeldBig(true, in2.pat)
							}
						}
						if op2 != 21 && meta.class() < 1 {
							// a literal of the same value is not proved to fold right here
							// (known single-fold findings F6a-F6j): not this family's subject
							nSkip++
							c.Hist("nest:skipped:outer-fold-outside-proved-class:" + opn)
							continue
						}
						// a NEGATIVE intN inner result narrowed into T2 sits in its W1-wide (or
						// 64-bit) container, wider than T2; the class of + and of the comparisons
						// depends on the container (Add sizes the sum by the wider container: F6b /
						// F6j; Cmp reads the sign at the container width: F6e / F6h), so these are
						// outside the literal-equivalent class ...
						narrowedNeg := p.w2 < p.w1 && ((meta.a != nil && meta.a.Sign() < 0 && side != "inner-right") ||
							(meta.b != nil && meta.b.Sign() < 0 && (side == "inner-right" || side == "both-nested")))
						// ... and on the big path (W2 > 64) every binary operator sizes its result
						// by the widest container (mpa.Int.bin: max(x.bits, y.bits, z.bits); the
						// theorems need containers <= n): "invalid value int129 for return value int65"
						if narrowedNeg && (op2 == 0 || isBool || (p.w2 > 64 && op2 <= 8)) {
							nSkip++
							c.Hist("nest:skipped:negative-narrowed-operand(container-wider-than-type):" + opn)
							continue
						}
						var cm *committed
						if f6m && op2 >= 5 && op2 <= 10 {
							nF6m++
							v, rej := c12CommittedWideBitop(op2, X, Y, 64, p.w2)
							cm = &committed{v, rej}
						}
						c.Hist("nest:op2:" + opn)
						c.Hist("nest:op1:" + in1.opName())
						c.Hist("nest:pattern:" + pat.name)
						c.Hist("nest:side:" + strings.SplitN(side, "-", 2)[0])
						run(k, p.w1, p.w2, opn, in1.opName()+"-then-"+opn+":"+side+":"+pat.name, desc, ec, ed, rk, rn, cm)
					}
				}
			}
		}
	}
	c.Note("nested folds across a cast: %d pairs of (constant, run-time) variants, %d failing, %d shapes outside the literal-equivalent class skipped, %d patterns without an in-class inner fold; F6m class generated: %v (%d programs)",
		nProg, nFail, nSkip, nNoInner, genF6m, nF6m)
}
