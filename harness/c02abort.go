package main

// c02abort.go — correspondence for the ERROR EXITS of the C02 liveness model
// (Proto/LiveAbort.v): real Garbler/Evaluator sessions in which the transport
// of one party returns an error at that party's k-th Receive (k = 0, 1, ...),
// in both directions, for CO and COT.
//
// What the code does (p2p/protocol.go, circuit/garbler.go, circuit/evaluator.go,
// apps/garbled/main.go): the protocol function returns the error without
// touching the connection; its CALLER calls Conn.Close, which flushes the write
// buffer and closes the transport.  The harness plays the caller: as soon as a
// party's function returns it calls Conn.Close and closes that party's two
// pipes (reads of the peer see EOF once the bytes in flight are used up; writes
// of the peer are accepted and dropped, as a TCP stack does before the reset
// arrives).
//
// Oracle (independent of the model): both functions return within the
// watchdog, the party whose transport failed returns an error, and no write
// ends inside a message.  Case for the Coq model (tag 98): the per-party
// outcome (returned normally / closed after an error / failed on EOF, number of
// messages received) must be the one LiveAbort.aref predicts from the skeleton
// GENERATED from the source.

import (
	"fmt"
	"math/big"
	"sync"
	"time"

	"github.com/markkurossi/mpc/circuit"
	"github.com/markkurossi/mpc/env"
	"github.com/markkurossi/mpc/p2p"
)

type abortPipe struct {
	mu     *sync.Mutex
	cond   *sync.Cond
	kinds  []string // kinds of the messages the WRITER sends, in order
	cutAt  int      // the reader's transport fails when it needs message #cutAt (-1: never)
	log    []byte   // everything written
	rpos   int      // delivered to the reader
	closed bool     // the reader's or the writer's side has been closed
	split  bool     // a write ended inside a message
}

// ends of the complete messages in the log
func (p *abortPipe) ends() []int {
	var ends []int
	pos := 0
	for _, k := range p.kinds {
		sz := 0
		switch k {
		case "Uint32":
			sz = 4
		case "Label":
			sz = 16
		case "Byte":
			sz = 1
		case "Uint16":
			sz = 2
		case "Data":
			if pos+4 > len(p.log) {
				return ends
			}
			sz = 4 + int(uint32(p.log[pos])<<24|uint32(p.log[pos+1])<<16|uint32(p.log[pos+2])<<8|uint32(p.log[pos+3]))
		default:
			return ends
		}
		if pos+sz > len(p.log) {
			return ends
		}
		pos += sz
		ends = append(ends, pos)
	}
	return ends
}

func (p *abortPipe) Write(b []byte) (int, error) {
	p.mu.Lock()
	defer p.mu.Unlock()
	if p.closed {
		return len(b), nil // accepted and dropped
	}
	p.log = append(p.log, b...)
	e := p.ends()
	if (len(e) == 0 && len(p.log) != 0) || (len(e) > 0 && e[len(e)-1] != len(p.log)) {
		p.split = true
	}
	p.cond.Broadcast()
	return len(b), nil
}

func (p *abortPipe) Read(b []byte) (int, error) {
	p.mu.Lock()
	defer p.mu.Unlock()
	for {
		limit := len(p.log)
		cut := false
		if p.cutAt >= 0 {
			e := p.ends()
			if p.cutAt == 0 {
				limit, cut = 0, true
			} else if len(e) >= p.cutAt {
				limit, cut = e[p.cutAt-1], true
			}
		}
		if p.rpos < limit {
			n := copy(b, p.log[p.rpos:limit])
			p.rpos += n
			return n, nil
		}
		if cut {
			return 0, fmt.Errorf("injected transport error at message %d", p.cutAt)
		}
		if p.closed {
			return 0, fmt.Errorf("EOF")
		}
		p.cond.Wait()
	}
}

func (p *abortPipe) close() {
	p.mu.Lock()
	p.closed = true
	p.cond.Broadcast()
	p.mu.Unlock()
}

type abortEnd struct{ r, w *abortPipe }

func (e *abortEnd) Read(b []byte) (int, error)  { return e.r.Read(b) }
func (e *abortEnd) Write(b []byte) (int, error) { return e.w.Write(b) }

type c02AbortReplay struct {
	Seed    uint64 `json:"seed"`
	OT      string `json:"ot"`
	Circuit string `json:"circuit"`
	X       string `json:"x"`
	Y       string `json:"y"`
	Who     string `json:"party_whose_transport_fails"`
	K       int    `json:"at_its_receive_number"`
	Detail  string `json:"detail"`
}

var abortOnce sync.Once

// c02Abort: once per run, a small session per OT kind in {CO, COT}; every k for
// CO, a spread of k for COT (its base OT alone has several hundred messages).
func c02Abort(c *Ctx, r *RNG) {
	abortOnce.Do(func() {
		for _, kind := range []otMaker{otKinds[0], otKinds[1]} {
			rb := r.Fork()
			circ := GenCircuit(rb, GenOpts{MinIn: 4, MaxIn: 5, MinGates: 3, MaxGates: 4, MaxOut: 2, TwoParty: true})
			x := make([]bool, int(circ.Inputs[0].Type.Bits))
			y := make([]bool, int(circ.Inputs[1].Type.Bits))
			for k := range x {
				x[k] = rb.Bool()
			}
			for k := range y {
				y[k] = rb.Bool()
			}
			c02AbortKind(c, circ, x, y, kind, rb)
		}
	})
}

func c02AbortKind(c *Ctx, circ *circuit.Circuit, x, y []bool, kind otMaker, r *RNG) {
	rp := c02AbortReplay{Seed: c.Seed, OT: kind.name, Circuit: circuitText(circ), X: bitsString(x), Y: bitsString(y)}
	fail := func(key, detail string) {
		rp.Detail = detail
		c.Fail("c02abort:"+kind.name+":"+key, key+": "+detail, rp)
	}
	res, err := liveSkeleton()
	if err != nil || len(res.Errs) > 0 {
		return // reported by c02Live
	}
	impl := map[string]string{"co": "CO", "rsa": "RSA", "cot": "COT", "cot-malicious": "COT"}[kind.name]
	mal := kind.name == "cot-malicious"
	gs, err1 := liveExpand(res, res.Garbler, "", impl, mal, 0)
	es, err2 := liveExpand(res, res.Evaluator, "", impl, mal, 0)
	if err1 != nil || err2 != nil {
		return
	}
	d := &liveDims{gates: circ.NumGates, n0: int(circ.Inputs[0].Type.Bits), n1: int(circ.Inputs[1].Type.Bits),
		outputs: circ.Outputs.Size(), chunkRows: int(res.ChunkRows), batch: int(res.BatchSize)}
	for _, g := range circ.Gates {
		switch g.Op {
		case circuit.AND:
			d.rows = append(d.rows, 2)
		case circuit.OR:
			d.rows = append(d.rows, 3)
		case circuit.INV:
			d.rows = append(d.rows, 1)
		default:
			d.rows = append(d.rows, 0)
		}
	}
	rec := &liveEnvRec{keys: map[string]bool{}, vecs: map[string]*liveVec{}}
	var ga, ea []liveAct
	if liveFlatten(gs, nil, d, rec, &ga) != nil || liveFlatten(es, nil, d, rec, &ea) != nil {
		return
	}
	kindsOf := func(a []liveAct, op byte) []string {
		var k []string
		for _, x := range a {
			if x.op == op {
				k = append(k, x.kind)
			}
		}
		return k
	}
	gSends, eSends := kindsOf(ga, 's'), kindsOf(ea, 's')
	nRecv := map[bool]int{true: len(kindsOf(ga, 'r')), false: len(kindsOf(ea, 'r'))}
	maxK := c.N(40, 400)

	for _, gFails := range []bool{true, false} {
		n := nRecv[gFails]
		// k = n: no Receive left to fail — the session runs to its end (both return normally)
		var ks []int
		if n+1 <= maxK {
			for k := 0; k <= n; k++ {
				ks = append(ks, k)
			}
		} else {
			seen := map[int]bool{}
			for i := 0; i < maxK; i++ {
				k := i * n / (maxK - 1)
				if i < 12 {
					k = i
				}
				if !seen[k] {
					seen[k] = true
					ks = append(ks, k)
				}
			}
		}
		for _, k := range ks {
			rp.K = k
			rp.Who = map[bool]string{true: "garbler", false: "evaluator"}[gFails]
			mu := &sync.Mutex{}
			g2e := &abortPipe{mu: mu, kinds: gSends, cutAt: -1}
			e2g := &abortPipe{mu: mu, kinds: eSends, cutAt: -1}
			g2e.cond, e2g.cond = sync.NewCond(mu), sync.NewCond(mu)
			if k < n {
				if gFails {
					e2g.cutAt = k
				} else {
					g2e.cutAt = k
				}
			}
			gConn := p2p.NewConn(&abortEnd{r: e2g, w: g2e})
			eConn := p2p.NewConn(&abortEnd{r: g2e, w: e2g})
			rs := r.Fork()
			otG, otE := kind.mk(rs.Fork()), kind.mk(rs.Fork())
			grand := rs.Fork()
			var gErr, eErr error
			var gRes, eRes []*big.Int
			var wg sync.WaitGroup
			wg.Add(2)
			go func() {
				defer wg.Done()
				func() {
					defer func() {
						if p := recover(); p != nil {
							gErr = fmt.Errorf("panic: %v", p)
						}
					}()
					gRes, gErr = circuit.Garbler(&env.Config{Rand: grand}, gConn, otG, circ, bitsToBig(x), false)
				}()
				// the caller (apps/garbled garblerMode: defer conn.Close())
				gConn.Close()
				g2e.close()
				e2g.close()
			}()
			go func() {
				defer wg.Done()
				func() {
					defer func() {
						if p := recover(); p != nil {
							eErr = fmt.Errorf("panic: %v", p)
						}
					}()
					eRes, eErr = circuit.Evaluator(eConn, otE, circ, bitsToBig(y), false)
				}()
				// the caller (apps/garbled evaluatorMode: conn.Close() after Evaluator)
				eConn.Close()
				g2e.close()
				e2g.close()
			}()
			done := make(chan struct{})
			go func() { wg.Wait(); close(done) }()
			select {
			case <-done:
			case <-time.After(20 * time.Second):
				fail("peer-blocked-after-close", "a party has not returned 20 s after the other one's transport failed and was closed")
				// unblock: the real EOF on both pipes
				g2e.close()
				e2g.close()
				<-done
				continue
			}
			_, _ = gRes, eRes
			c.Hist("abort:ot:" + kind.name)
			if g2e.split || e2g.split {
				fail("write-splits-a-message", "a write ended inside a message")
				continue
			}
			aErr, bErr := gErr, eErr
			aIn, bIn := e2g, g2e // the pipe each party READS
			if !gFails {
				aErr, bErr = eErr, gErr
				aIn, bIn = g2e, e2g
			}
			if k < n && aErr == nil {
				fail("no-error-returned", "the party whose transport failed returned without error")
				continue
			}
			if k == n && (gErr != nil || eErr != nil) {
				fail("session error", fmt.Sprint(gErr, " / ", eErr))
				continue
			}
			// observed outcome: status code (0 returned normally, 1 error + close, 2 failed on the
			// peer's close) and number of messages received
			mu.Lock()
			aGot := len(aIn.ends())
			if k < n {
				aGot = k
			}
			bGot := len(bIn.ends())
			mu.Unlock()
			aCode, bCode := 1, 0
			if k == n {
				aCode = 0
			}
			if bErr != nil {
				bCode = 2
			}
			c.Hist(fmt.Sprintf("abort:peer-outcome:%d", bCode))
			gCode, gGot, eCode, eGot := aCode, aGot, bCode, bGot
			if !gFails {
				gCode, gGot, eCode, eGot = bCode, bGot, aCode, aGot
			}
			c.Eval(fmt.Sprintf("abort|%s|%v|%d", kind.name, gFails, k), bCode == 2)
			in := L(I(98), I(liveKindIndex[kind.name]), L(rec.scalars...), rec.vectorsSX(), L(rec.brs...), Bool(gFails), I(k))
			c.Case(in, L(I(gCode), I(gGot), I(eCode), I(eGot)))
		}
	}
}
