package main

// C14 door-inventory sweep (notes/C14-findings.md, table "Doors"): less-travelled ways into
// Marshal* / Parse*.  Every family uses the existing oracles (parse(write(c)) ≍ c, second write
// byte-identical, an Ok circuit is well-formed, no panic) and, where the model reaches,
// correspondence cases through offer().

import (
	"bytes"
	"context"
	"errors"
	"fmt"
	"io"
	"math/big"
	"os"
	"os/exec"
	"path/filepath"
	"regexp"
	"runtime"
	"runtime/debug"
	"strings"
	"testing/iotest"
	"time"

	"github.com/markkurossi/mpc/circuit"
	"github.com/markkurossi/mpc/compiler"
	"github.com/markkurossi/mpc/compiler/utils"
)

type c14DoorReplay struct {
	Seed   uint64 `json:"seed"`
	Door   string `json:"door"`
	Input  string `json:"input"`
	Detail string `json:"detail"`
}

func c14RepoRoot() string {
	if r := os.Getenv("VERIF_REPO"); r != "" {
		return r
	}
	return "/repo"
}

func c14Class(s string) string {
	switch {
	case strings.HasPrefix(s, "panic"):
		return "panic"
	case strings.HasPrefix(s, "error"):
		return "error"
	}
	return s
}

// random inputs for Circuit.Compute, one big.Int per input argument
func c14RandInputs(r *RNG, c *circuit.Circuit) []*big.Int {
	var in []*big.Int
	for _, a := range c.Inputs {
		v := new(big.Int)
		for b := 0; b < int(a.Type.Bits); b++ {
			if r.Bool() {
				v.SetBit(v, b, 1)
			}
		}
		in = append(in, v)
	}
	return in
}

func c14ComputeStr(c *circuit.Circuit, in []*big.Int) (res string) {
	defer func() {
		if p := recover(); p != nil {
			res = fmt.Sprint("panic: ", p)
		}
	}()
	// flatten to the total bit vector so that differently split signatures (Bristol) compare
	cp := make([]*big.Int, len(in))
	for i, v := range in {
		cp[i] = new(big.Int).Set(v)
	}
	out, err := c.Compute(cp)
	if err != nil {
		return "error: " + err.Error()
	}
	s := ""
	for i, o := range out {
		s += fmt.Sprintf("%0*b|", int(c.Outputs[i].Type.Bits), o)
	}
	return strings.ReplaceAll(s, "|", "")
}

// c14SameFunction: "hence the same function" — Compute agrees on random inputs.  The Bristol
// signature keeps the argument sizes, so the same per-argument values apply.
func c14SameFunction(c *Ctx, r *RNG, door string, a, b *circuit.Circuit) {
	if len(a.Inputs) != len(b.Inputs) {
		return
	}
	for k := 0; k < 3; k++ {
		in := c14RandInputs(r, a)
		ra, rb := c14ComputeStr(a, in), c14ComputeStr(b, in)
		if strings.HasPrefix(ra, "error") || strings.HasPrefix(rb, "error") {
			c.Hist("compute:skipped-signature-not-computable")
			return
		}
		c.Hist("compute:compared")
		if ra != rb {
			c.Fail("c14:door:"+door+":computes-different-function", "the circuit read back computes another function than the one written",
				c14DoorReplay{Seed: c.Seed, Door: door, Input: circuitText(a), Detail: fmt.Sprintf("inputs %v: %s vs %s", in, ra, rb)})
			return
		}
	}
}

// ---------------------------------------------------------------- shipped circuit files

func c14DoorShipped(c *Ctx, offer func(int, []byte, string, []byte)) {
	root := c14RepoRoot()
	for _, sub := range []string{"apps", "pkg", "bmr", "sha2pc", "circuit", "testsuite"} {
		filepath.Walk(filepath.Join(root, sub), func(p string, fi os.FileInfo, err error) error {
			if err != nil || fi.IsDir() || !circuit.IsFilename(p) {
				return nil
			}
			rel, _ := filepath.Rel(root, p)
			if fi.Size() == 0 {
				c.Hist("shipped:empty-file-skipped")
				return nil
			}
			if fi.Size() > 5<<20 {
				return nil
			}
			raw, _ := os.ReadFile(p)
			f := 1
			if strings.HasSuffix(p, ".mpclc") {
				f = 0
			}
			door := "shipped-file:" + rel
			rp := c14DoorReplay{Seed: c.Seed, Door: door, Input: rel}
			c.Eval("ship|"+rel, true)
			c.Hist("shipped:parsed")
			var circ *circuit.Circuit
			func() {
				defer func() {
					if pn := recover(); pn != nil {
						err = fmt.Errorf("panic: %v", pn)
					}
				}()
				circ, err = circuit.Parse(p)
			}()
			if err != nil {
				rp.Detail = err.Error()
				c.Fail("c14:door:shipped-file:parse-error", "a circuit file shipped in the repository does not parse: "+rel+": "+err.Error(), rp)
				return nil
			}
			if d := c14WellFormed(circ); d != "" {
				rp.Detail = d
				c.Fail("c14:door:shipped-file:not-wellformed", rel+": "+d, rp)
			}
			for g := 0; g < 2; g++ {
				b1 := c14Marshal(g, circ)
				o := c14Parse(g, b1)
				switch {
				case o.class() != 0:
					rp.Detail = c14FormatNames[g] + ": " + o.className()
					c.Fail("c14:door:shipped-file:rewrite-does-not-parse", rel+" re-marshalled as "+c14FormatNames[g]+" does not parse back", rp)
				case c14SameCircuit(g, circ, o.c) != "":
					rp.Detail = c14FormatNames[g] + ": " + c14SameCircuit(g, circ, o.c)
					c.Fail("c14:door:shipped-file:rewrite-differs", rel+" re-marshalled as "+c14FormatNames[g]+" parses to a different circuit", rp)
				case !bytes.Equal(c14Marshal(g, o.c), b1):
					rp.Detail = c14FormatNames[g]
					c.Fail("c14:door:shipped-file:second-write-differs", rel+": write(parse(write(c))) != write(c)", rp)
				}
				if g == f {
					if bytes.Equal(b1, raw) {
						c.Hist("shipped:rewrites-byte-identically")
					} else {
						c.Hist("shipped:rewrites-with-other-layout")
					}
				}
			}
			if len(raw) <= 9000 {
				offer(f, raw, "shipped:"+rel, nil)
			}
			return nil
		})
	}
}

// ---------------------------------------------------------------- awkward readers

type errAfter struct {
	bs []byte
	k  int
}

var errC14Reader = errors.New("c14: injected read error")

func (r *errAfter) Read(p []byte) (int, error) {
	if r.k <= 0 {
		return 0, errC14Reader
	}
	n := len(p)
	if n > r.k {
		n = r.k
	}
	if n > len(r.bs) {
		n = len(r.bs)
	}
	if n == 0 {
		return 0, errC14Reader
	}
	copy(p, r.bs[:n])
	r.bs = r.bs[n:]
	r.k -= n
	return n, nil
}

func c14DoorReaders(c *Ctx, r *RNG, format int, bs []byte, kind string) {
	want := c14ParseReader(format, bytes.NewReader(bs))
	readers := map[string]func() io.Reader{
		"one-byte":      func() io.Reader { return iotest.OneByteReader(bytes.NewReader(bs)) },
		"half":          func() io.Reader { return iotest.HalfReader(bytes.NewReader(bs)) },
		"data-with-eof": func() io.Reader { return iotest.DataErrReader(bytes.NewReader(bs)) },
		"multi":         func() io.Reader { return io.MultiReader(bytes.NewReader(bs[:len(bs)/2]), bytes.NewReader(bs[len(bs)/2:])) },
		"strings":       func() io.Reader { return strings.NewReader(string(bs)) },
	}
	for name, mk := range readers {
		got := c14ParseReader(format, mk())
		c.Eval(fmt.Sprintf("rd|%s|%d|%x", name, format, bs), true)
		c.Hist("reader:" + name + ":" + c14Fmt[format])
		same := got == want
		if c14Class(want) == "error" { // error texts may differ (EOF flavours); the class may not
			same = c14Class(got) == "error"
		}
		if !same {
			c.Fail("c14:door:reader-"+name+":"+c14Fmt[format]+":result-differs", c14Fmt[format]+" returns something else when the reader delivers the same bytes differently ("+name+", "+kind+")",
				c14DoorReplay{Seed: c.Seed, Door: "reader:" + name, Input: c14Hex(bs), Detail: fmt.Sprintf("%.100s  vs  %.100s", got, want)})
		}
	}
	// a reader that fails mid-way (and right after the last byte): an error, never a circuit, never a crash
	if len(bs) > 0 {
		for _, k := range []int{0, 1 + r.Intn(len(bs)), len(bs) / 2, len(bs) - 1, len(bs)} {
			got := c14ParseReader(format, &errAfter{bs: bs, k: k})
			c.Hist("reader:error-midway:" + c14Fmt[format])
			if c14Class(got) != "error" {
				c.Fail("c14:door:reader-error-midway:"+c14Fmt[format]+":no-error",
					fmt.Sprintf("%s on a reader that fails after %d of %d bytes does not return an error", c14Fmt[format], k, len(bs)),
					c14DoorReplay{Seed: c.Seed, Door: "reader:error-midway", Input: c14Hex(bs), Detail: fmt.Sprintf("k=%d: %.100s", k, got)})
			}
		}
	}
}

// ---------------------------------------------------------------- call patterns, environment

type failWriter struct {
	n, k int
	buf  bytes.Buffer
}

func (w *failWriter) Write(p []byte) (int, error) {
	if w.n == w.k {
		w.n++
		return 0, errC14Reader
	}
	w.n++
	return w.buf.Write(p)
}

func c14DoorCalls(c *Ctx, r *RNG, circ *circuit.Circuit, kind string) {
	rp := c14DoorReplay{Seed: c.Seed, Input: circuitText(circ)}
	for f := 0; f < 2; f++ {
		name := c14FormatNames[f]
		ref := c14Marshal(f, circ)
		// twice
		if !bytes.Equal(c14Marshal(f, circ), ref) {
			rp.Door = "marshal-twice"
			c.Fail("c14:door:marshal-twice:"+name+":bytes-differ", "two calls of the marshaller on the same circuit give different bytes", rp)
		}
		// destination fails at the k-th write: no panic; a retry into a fresh destination is complete
		var cw countWrites
		c14Writers[f].run(circ, &cw)
		for _, k := range []int{0, cw.n / 2, cw.n - 1} {
			fw := &failWriter{k: k}
			res := func() (s string) {
				defer func() {
					if p := recover(); p != nil {
						s = fmt.Sprint("panic: ", p)
					}
				}()
				c14Writers[f].run(circ, fw)
				return ""
			}()
			c.Hist("calls:failing-destination:" + name)
			if res != "" || !bytes.Equal(c14Marshal(f, circ), ref) {
				rp.Door = "failing-destination"
				rp.Detail = fmt.Sprintf("write #%d fails: %s", k, res)
				c.Fail("c14:door:failing-destination:"+name+":panic-or-retry-differs", "marshalling into a failing destination crashes or spoils a retry", rp)
			}
		}
		// results are independent values: spoiling one parse result does not change the next
		o1 := c14Parse(f, ref)
		if o1.class() == 0 {
			for i := range o1.c.Gates {
				o1.c.Gates[i].Output, o1.c.Gates[i].Input0 = 0, 0
			}
			if len(o1.c.Inputs) > 0 {
				o1.c.Inputs[0].Name = "spoiled"
				o1.c.Inputs[0].Type.Bits = 999
			}
			o2 := c14Parse(f, ref)
			if o2.class() != 0 || c14SameCircuit(f, circ, o2.c) != "" {
				rp.Door = "reuse-result"
				c.Fail("c14:door:reuse-result:"+c14Fmt[f]+":aliasing", "modifying one parse result changes what a later parse of the same bytes returns", rp)
			}
		}
	}
	// long-lived circuit: marshal after it has been used (Compute, Analyze, AssignLevels, Garble)
	used := &circuit.Circuit{NumGates: circ.NumGates, NumWires: circ.NumWires, Inputs: circ.Inputs, Outputs: circ.Outputs,
		Gates: append([]circuit.Gate(nil), circ.Gates...), Stats: circ.Stats}
	func() {
		defer func() { recover() }()
		c14ComputeStr(used, c14RandInputs(r, used))
		used.Analyze()
		used.AssignLevels(utils.TargetYao)
		if g, err := used.Garble(r, r.Bytes(32)); err == nil {
			g.Release()
		}
	}()
	for f := 0; f < 2; f++ {
		b1 := c14Marshal(f, used)
		o := c14Parse(f, b1)
		c.Hist("calls:marshal-after-use:" + c14FormatNames[f])
		if o.class() != 0 || c14SameCircuit(f, used, o.c) != "" || !bytes.Equal(c14Marshal(f, o.c), b1) {
			rp.Door = "marshal-after-use"
			rp.Detail = o.className()
			c.Fail("c14:door:marshal-after-use:"+c14FormatNames[f]+":roundtrip-fails", "a circuit that has been computed/levelled/garbled no longer round-trips", rp)
		} else {
			c14SameFunction(c, r, "marshal-after-use:"+c14FormatNames[f], circ, o.c)
		}
	}
}

// c14DoorBoundary: MPCLC files whose length (and the end of the I/O section) sits exactly on
// the bufio buffer boundaries.
func c14DoorBoundary(c *Ctx, r *RNG, roundTrip func(int, *circuit.Circuit, string) []byte) {
	for _, target := range []int{4095, 4096, 4097, 8191, 8192, 8193} {
		circ := GenCircuit(r, GenOpts{MinIn: 2, MaxIn: 5, MinGates: 4, MaxGates: 10, MaxOut: 2})
		circ.Inputs[0].Name = ""
		base := len(c14Marshal(0, circ))
		if target <= base {
			continue
		}
		circ.Inputs[0].Name = strings.Repeat("b", target-base)
		if len(c14Marshal(0, circ)) != target {
			continue
		}
		roundTrip(0, circ, fmt.Sprintf("file-length-%d", target))
	}
	// no gates at all: the outputs are the inputs
	id := &circuit.Circuit{NumGates: 0, NumWires: 3, Inputs: circuit.IO{{Name: "a", Type: uintInfo(3)}}, Outputs: circuit.IO{{Name: "r", Type: uintInfo(3)}}}
	roundTrip(0, id, "zero-gates")
	roundTrip(1, id, "zero-gates")
}

// ---------------------------------------------------------------- compiler doors

var c14DoorPrograms = []struct {
	src   string
	sizes [][]int
}{
	{"package main\ntype P struct {\n\tx uint4\n\ty int3\n}\nfunc main(a P, b [3]uint2) (uint4, uint2) {\n\treturn a.x + uint4(b[0]), b[1]\n}\n", nil},
	{"package main\nfunc main(a bool, b string8) (bool, uint8) {\n\treturn !a, uint8(len(b))\n}\n", nil},
	{"package main\nfunc main(a []uint4, b uint4) uint4 {\n\treturn a[0] + b\n}\n", [][]int{{8}, {4}}},
	{"package main\nfunc main(a, b int9) (int9, bool) {\n\treturn a - b, a < b\n}\n", nil},
}

// c14DoorCompiled: Circuit values produced by the compiler (struct/array/slice/bool/string
// arguments) against the parsed ones, incl. the function they compute.
func c14DoorCompiled(c *Ctx, r *RNG) {
	for pi, p := range c14DoorPrograms {
		params := utils.NewParams()
		circ, _, err := compiler.New(params).Compile(p.src, p.sizes)
		params.Close()
		door := fmt.Sprintf("compiled-program-%d", pi)
		c.Eval("cc|"+p.src, true)
		if err != nil {
			c.Note("C14 door %s: does not compile: %v", door, err)
			continue
		}
		c.Hist("compiled:programs")
		for f := 0; f < 2; f++ {
			b1 := c14Marshal(f, circ)
			o := c14Parse(f, b1)
			rp := c14DoorReplay{Seed: c.Seed, Door: door, Input: p.src}
			switch {
			case o.class() != 0:
				rp.Detail = fmt.Sprint(o.className(), " ", o.err, o.pmsg)
				c.Fail("c14:door:compiled:"+c14FormatNames[f]+":parse-error", "a compiled circuit does not parse back: "+rp.Detail, rp)
			case c14SameCircuit(f, circ, o.c) != "":
				rp.Detail = c14SameCircuit(f, circ, o.c)
				c.Fail("c14:door:compiled:"+c14FormatNames[f]+":differs-"+rp.Detail, "a compiled circuit parses back to a different circuit: "+rp.Detail, rp)
			case !bytes.Equal(c14Marshal(f, o.c), b1):
				c.Fail("c14:door:compiled:"+c14FormatNames[f]+":second-write-differs", "write(parse(write(c))) != write(c) for a compiled circuit", rp)
			default:
				c14SameFunction(c, r, "compiled:"+c14FormatNames[f], circ, o.c)
			}
		}
	}
}

// c14DoorNative: a written circuit file used as native("x.circ") / native("x.mpclc") by an MPCL
// program (compiler/ast/builtin.go nativeCircuit -> circuit.Parse by suffix).
func c14DoorNative(c *Ctx, r *RNG) {
	dir := filepath.Join(c.OutDir, "c14files")
	os.MkdirAll(dir, 0o755)
	for i := 0; i < 2; i++ {
		base := GenCircuit(r, GenOpts{MinIn: 2, MaxIn: 8, MinGates: 5, MaxGates: 30, MaxOut: 4, TwoParty: true})
		no := base.Outputs.Size()
		base.Outputs = circuit.IO{{Name: "r", Type: uintInfo(no)}}
		for f, suf := range []string{".mpclc", ".circ"} {
			name := fmt.Sprintf("nat%d%s", i, suf)
			os.WriteFile(filepath.Join(dir, name), c14Marshal(f, base), 0o644)
			src := fmt.Sprintf("package main\nfunc main(a uint%d, b uint%d) uint%d {\n\treturn native(\"%s\", a, b)\n}\n",
				base.Inputs[0].Type.Bits, base.Inputs[1].Type.Bits, no, name)
			mp := filepath.Join(dir, fmt.Sprintf("nat%d-%d.mpcl", i, f))
			os.WriteFile(mp, []byte(src), 0o644)
			params := utils.NewParams()
			circ, _, err := compiler.New(params).CompileFile(mp, nil)
			params.Close()
			c.Eval("nat|"+name+circuitText(base), true)
			c.Hist("native:" + suf)
			rp := c14DoorReplay{Seed: c.Seed, Door: "native(" + suf + ")", Input: circuitText(base)}
			if err != nil {
				rp.Detail = err.Error()
				c.Fail("c14:door:native"+suf+":compile-error", "a written circuit cannot be used as native circuit: "+err.Error(), rp)
				continue
			}
			c14SameFunction(c, r, "native"+suf, base, circ)
			os.Remove(mp)
		}
	}
}

// ---------------------------------------------------------------- command line front end

var c14ReObj = regexp.MustCompile(`- (gates|wires)\s*: (\d+)`)

func c14DoorCLI(c *Ctx) {
	dir := filepath.Join(c.OutDir, "c14cli")
	os.MkdirAll(dir, 0o755)
	bin := filepath.Join(dir, "garbled")
	ctx, cancel := context.WithTimeout(context.Background(), 120*time.Second)
	defer cancel()
	build := exec.CommandContext(ctx, "go", "build", "-o", bin, "./apps/garbled")
	build.Dir = c14RepoRoot()
	if out, err := build.CombinedOutput(); err != nil {
		c.Note("C14 door garbled CLI not driven: go build ./apps/garbled failed: %v %.200s", err, out)
		c.Hist("cli:not-built")
		return
	}
	run := func(args ...string) (string, error) {
		cx, cn := context.WithTimeout(context.Background(), 60*time.Second)
		defer cn()
		cmd := exec.CommandContext(cx, bin, args...)
		cmd.Dir = dir
		out, err := cmd.CombinedOutput()
		return string(out), err
	}
	for pi, src := range c14EntryPrograms[:2] {
		params := utils.NewParams()
		want, _, err := compiler.New(params).Compile(src, nil)
		params.Close()
		if err != nil {
			continue
		}
		stem := fmt.Sprintf("prog%d", pi)
		os.WriteFile(filepath.Join(dir, stem+".mpcl"), []byte(src), 0o644)
		check := func(door string, f int, file string, ref *circuit.Circuit, exact bool) *circuit.Circuit {
			rp := c14DoorReplay{Seed: c.Seed, Door: door, Input: src}
			c.Eval("cli|"+door+"|"+src, true)
			c.Hist("cli:" + door)
			bs, err := os.ReadFile(filepath.Join(dir, file))
			if err != nil {
				rp.Detail = err.Error()
				c.Fail("c14:door:cli:"+door+":no-output-file", "garbled did not write "+file, rp)
				return nil
			}
			got, err := circuit.Parse(filepath.Join(dir, file))
			if err != nil {
				rp.Detail = fmt.Sprintf("%d bytes: %v", len(bs), err)
				c.Fail("c14:door:cli:"+door+":parse-error", "the file written by garbled does not parse: "+rp.Detail, rp)
				return nil
			}
			if d := c14SameCircuit(f, ref, got); d != "" {
				rp.Detail = d
				c.Fail("c14:door:cli:"+door+":differs-"+d, "the file written by garbled holds a different circuit than the in-process compile: "+d, rp)
			} else if exact && !bytes.Equal(bs, c14Marshal(f, ref)) {
				rp.Detail = fmt.Sprintf("%d bytes vs %d", len(bs), len(c14Marshal(f, ref)))
				c.Fail("c14:door:cli:"+door+":bytes-differ", "the file written by garbled differs from Circuit.Marshal* of the same circuit", rp)
			}
			return got
		}
		fail := func(door, out string, err error) {
			c.Fail("c14:door:cli:"+door+":command-failed", "garbled "+door+" failed: "+err.Error(),
				c14DoorReplay{Seed: c.Seed, Door: door, Input: src, Detail: fmt.Sprintf("%.300s", out)})
		}
		// -circ -format mpclc|bristol (default suffix = format)
		// The command line compiles with its own options (-O1: gate pruning), so the reference
		// is the circuit the native-format file holds; it must compute the function of the
		// in-process compile, and every other file must hold that same circuit.
		inproc := want
		if out, err := run("-circ", "-format", "mpclc", stem+".mpcl"); err != nil {
			fail("-circ -format mpclc", out, err)
			continue
		}
		ref, err := circuit.Parse(filepath.Join(dir, stem+".mpclc"))
		if err != nil {
			c.Fail("c14:door:cli:-circ -format mpclc:parse-error", "the file written by garbled does not parse: "+err.Error(),
				c14DoorReplay{Seed: c.Seed, Door: "-circ -format mpclc", Input: src, Detail: err.Error()})
			continue
		}
		want = ref
		check("-circ -format mpclc", 0, stem+".mpclc", want, true)
		c14SameFunction(c, c.rng.Fork(), "cli:-circ -format mpclc", inproc, ref)
		if out, err := run("-circ", "-format", "bristol", stem+".mpcl"); err != nil {
			fail("-circ -format bristol", out, err)
		} else {
			check("-circ -format bristol", 1, stem+".bristol", want, true)
		}
		// -suffix: bristol text under .circ
		if out, err := run("-circ", "-format", "bristol", "-suffix", "circ", stem+".mpcl"); err != nil {
			fail("-circ -format bristol -suffix circ", out, err)
		} else {
			check("-circ -format bristol -suffix circ", 1, stem+".circ", want, true)
		}
		// conversion of a circuit file: .bristol -> .mpclc (into another stem so that the source is not truncated)
		os.Rename(filepath.Join(dir, stem+".mpclc"), filepath.Join(dir, stem+"-orig.mpclc"))
		if out, err := run("-circ", "-format", "mpclc", stem+".bristol"); err != nil {
			fail("-circ convert bristol->mpclc", out, err)
		} else if b, err := circuit.Parse(filepath.Join(dir, stem+".bristol")); err == nil {
			check("-circ convert bristol->mpclc", 1, stem+".mpclc", b, false)
		}
		os.Rename(filepath.Join(dir, stem+".bristol"), filepath.Join(dir, stem+"-b.bristol"))
		if out, err := run("-circ", "-format", "bristol", stem+"-orig.mpclc"); err != nil {
			fail("-circ convert mpclc->bristol", out, err)
		} else {
			check("-circ convert mpclc->bristol", 1, stem+"-orig.bristol", want, true)
		}
		// -objdump
		for f, file := range []string{stem + "-orig.mpclc", stem + "-b.bristol", stem + ".circ"} {
			out, err := run("-objdump", file)
			door := "-objdump " + filepath.Ext(file)
			c.Hist("cli:" + door)
			if err != nil {
				fail(door, out, err)
				continue
			}
			m := map[string]string{}
			for _, g := range c14ReObj.FindAllStringSubmatch(out, -1) {
				m[g[1]] = g[2]
			}
			if m["gates"] != fmt.Sprint(want.NumGates) || m["wires"] != fmt.Sprint(want.NumWires) {
				c.Fail("c14:door:cli:"+door+":counts-differ", "garbled -objdump reports other counts than the compiled circuit",
					c14DoorReplay{Seed: c.Seed, Door: door, Input: src, Detail: fmt.Sprintf("file %d: %v, want gates=%d wires=%d", f, m, want.NumGates, want.NumWires)})
			}
		}
	}
}

// ---------------------------------------------------------------- everything

func runC14Doors(c *Ctx, offer func(int, []byte, string, []byte), roundTrip func(int, *circuit.Circuit, string) []byte,
	validM, validB [][]byte) {
	r := c.rng.Fork()
	c14DoorShipped(c, offer)
	// awkward readers on valid and on mutated files
	for i := 0; i < c.N(6, 60) && i < len(validM); i++ {
		c14DoorReaders(c, r, 0, validM[i], "valid")
		c14DoorReaders(c, r, 1, validB[i], "valid")
		m, kind := c14MutMPCLC(r, validM[i], validM[(i+1)%len(validM)])
		if c14MPCLCSizesOK(m) {
			c14DoorReaders(c, r, 0, m, kind)
		}
		mb, kindb := c14MutBristol(r, validB[i], validB[(i+1)%len(validB)])
		if c14BristolSizesOK(mb) {
			c14DoorReaders(c, r, 1, mb, kindb)
		}
	}
	// call patterns; the same under GC pressure and on one P
	for i := 0; i < c.N(4, 40); i++ {
		circ := GenCircuit(r, GenOpts{MinIn: 2, MaxIn: 8, MinGates: 5, MaxGates: 40, MaxOut: 4, Overwrite: i%2 == 0})
		if i%2 == 1 {
			circ.Inputs = c14IO(r, circ.Inputs.Size(), "i")
			circ.Outputs = c14IO(r, circ.Outputs.Size(), "o")
		}
		c14DoorCalls(c, r, circ, "plain")
		if i == 0 {
			oldGC := debug.SetGCPercent(1)
			oldP := runtime.GOMAXPROCS(1)
			c14DoorCalls(c, r, circ, "GOGC=1,GOMAXPROCS=1")
			c14EntryPoints(c, 900000+i, circ, "GOGC=1,GOMAXPROCS=1")
			runtime.GOMAXPROCS(oldP)
			debug.SetGCPercent(oldGC)
			c.Hist("env:GOGC=1,GOMAXPROCS=1")
		}
	}
	c14DoorBoundary(c, r, roundTrip)
	c14DoorCompiled(c, r)
	c14DoorNative(c, r)
	c14DoorCLI(c)
}
