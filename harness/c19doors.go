package main

// C19 — less-travelled doors into mesh formation (see the table "Doors" in
// notes/C19-findings.md): argument checks of Create/Join, Peer.SetConn called
// out of order, address forms, a second mesh on the same addresses, the same
// scenarios under GOMAXPROCS=1 and under GOGC=1 (child processes of this
// binary), and parties running in separate processes.

import (
	"encoding/json"
	"fmt"
	"os"
	"os/exec"
	"path/filepath"
	"strings"
	"sync"
	"time"

	"github.com/markkurossi/mpc/p2p"
)

func init() {
	register("c19child", runC19Child)
	register("c19party", runC19Party)
}

// c19DoorCfgs: ordinary runs through other doors; they join the concurrent family.
func c19DoorCfgs(c *Ctx) []c19Cfg {
	return []c19Cfg{
		{N: 3, K: 2, Order: c19Perm(c.rng, 3, 0), Mode: "door", Late: -1, AddrForm: 1},
		{N: 2, K: 1, Order: c19Perm(c.rng, 2, 0), Mode: "door", Late: -1, AddrForm: 2},
		{N: 4, K: 1, Order: c19Perm(c.rng, 4, 2), Mode: "door", Late: -1, AddrForm: 1},
		{N: 3, K: 1, Order: c19Perm(c.rng, 3, 1), Mode: "door", Late: -1, Repeat: true},
		{N: 2, K: 3, Order: c19Perm(c.rng, 2, 0), Mode: "door", Late: -1, Repeat: true, AddrForm: 1},
	}
}

// c19ArgDoors: what the API rejects by design must be rejected with an error (and nothing
// else may happen); Peer.SetConn must store every index whatever the order of the calls.
func c19ArgDoors(c *Ctx) {
	bad := func(key, what string) {
		c.Fail("c19:api-door:"+key, what, map[string]interface{}{"door": key})
	}
	addrs, err := c19FreePorts(2)
	if err != nil {
		return
	}
	c.Eval("door/args", false)
	if nw, err := p2p.Create(addrs[0], 1, 1); err == nil {
		c19Close(nw)
		bad("create:one-party", "Create with numParties = 1 returned no error")
	}
	if nw, err := p2p.Create(addrs[0], 3, 0); err == nil {
		c19Close(nw)
		bad("create:zero-conns", "Create with numConns = 0 returned no error")
	}
	if nw, err := p2p.Join(addrs[0], addrs[1], 0, 1); err == nil {
		c19Close(nw)
		bad("join:id-0", "Join with id 0 returned no error")
	}
	if nw, err := p2p.Join(addrs[0], addrs[1], 1, 0); err == nil {
		c19Close(nw)
		bad("join:zero-conns", "Join with numConns = 0 returned no error")
	}
	// the rejected calls must not have left a listener behind: both addresses are still free
	for _, a := range addrs {
		nw, err := p2p.Create(a, 2, 1)
		if err != nil {
			bad("rejected-call-leaks-listener", "after rejected Create/Join calls the address "+a+" cannot be listened on: "+err.Error())
			continue
		}
		c19Close(nw)
	}
	// Peer.SetConn, every order of three indices
	for _, ord := range [][]int{{0, 1, 2}, {2, 1, 0}, {1, 2, 0}, {2, 0, 1}, {0, 2, 1}, {1, 0, 2}, {3, 1}} {
		c.Eval(fmt.Sprintf("door/setconn/%v", ord), false)
		p := &p2p.Peer{ID: 1, Addr: "x"}
		cs := map[int]*p2p.Conn{}
		for _, i := range ord {
			a, b := p2p.Pipe()
			_ = b
			cs[i] = a
			if err := p.SetConn(i, a); err != nil {
				bad("peer-setconn:error", fmt.Sprintf("SetConn order %v: index %d: %v", ord, i, err))
			}
		}
		for i, want := range cs {
			if i >= len(p.Conns) || p.Conns[i] != want {
				bad("peer-setconn:lost", fmt.Sprintf("SetConn order %v: Conns[%d] is not the connection stored there (len %d)", ord, i, len(p.Conns)))
			}
		}
		if err := p.SetConn(ord[0], cs[ord[0]]); err == nil {
			bad("peer-setconn:overwrite", fmt.Sprintf("SetConn order %v: storing index %d twice returned no error", ord, ord[0]))
		}
	}
}

// ---- the same scenarios in a child process with another runtime environment

type c19Child struct {
	env  string
	cmd  *exec.Cmd
	out  string
	done chan error
}

func c19StartChildren(c *Ctx) []*c19Child {
	var cs []*c19Child
	for _, env := range []string{"GOMAXPROCS=1", "GOGC=1"} {
		out := filepath.Join(c.OutDir, "child-"+strings.ReplaceAll(env, "=", ""))
		cmd := exec.Command(os.Args[0], "c19child", "-seed", fmt.Sprint(c.Seed+7), "-tier", c.Tier, "-out", out)
		cmd.Env = append(os.Environ(), env)
		ch := &c19Child{env: env, cmd: cmd, out: out, done: make(chan error, 1)}
		if err := cmd.Start(); err != nil {
			c.Note("c19 child %s: %v", env, err)
			continue
		}
		go func() { ch.done <- cmd.Wait() }()
		cs = append(cs, ch)
	}
	return cs
}

func c19MergeChildren(c *Ctx, cs []*c19Child) {
	for _, ch := range cs {
		var werr error
		select {
		case werr = <-ch.done:
		case <-time.After(120 * time.Second):
			ch.cmd.Process.Kill()
			werr = fmt.Errorf("timeout")
		}
		if werr != nil {
			c.Fail("c19:env-door:"+ch.env+":child-failed", "the c19 scenarios in a child process with "+ch.env+": "+werr.Error(),
				map[string]interface{}{"env": ch.env})
		}
		if b, err := os.ReadFile(filepath.Join(ch.out, "cases.txt")); err == nil {
			for _, ln := range strings.Split(string(b), "\n") {
				if strings.Contains(ln, "\t") {
					c.cases.WriteString(ln)
					c.cases.WriteByte('\n')
					c.nCases++
				}
			}
		}
		if b, err := os.ReadFile(filepath.Join(ch.out, "oracle.jsonl")); err == nil {
			for _, ln := range strings.Split(string(b), "\n") {
				if strings.TrimSpace(ln) == "" {
					continue
				}
				var rec map[string]interface{}
				if json.Unmarshal([]byte(ln), &rec) == nil {
					rec["what"] = fmt.Sprintf("[child process with %s] %v", ch.env, rec["what"])
					nb, _ := json.Marshal(rec)
					ln = string(nb)
				}
				c.oracleF.Write([]byte(ln + "\n"))
				c.nOracle++
			}
		}
		var st struct {
			Evaluations int `json:"evaluations"`
			Distinct    int `json:"distinct_nontrivial"`
		}
		if b, err := os.ReadFile(filepath.Join(ch.out, "stats.json")); err == nil && json.Unmarshal(b, &st) == nil {
			c.nEval += st.Evaluations
			c.nontriv += st.Distinct
		}
		c.Hist("env-door:" + ch.env)
	}
}

func runC19Child(c *Ctx) error {
	if devnull, err := os.OpenFile(os.DevNull, os.O_WRONLY, 0); err == nil {
		saved := os.Stdout
		os.Stdout = devnull
		defer func() { os.Stdout = saved; devnull.Close() }()
	}
	cfgs := []c19Cfg{
		{N: 2, K: 2, Order: []int{1}, Mode: "freeze", Freeze: 2},
		{N: 3, K: 1, Order: []int{1, 2}, Mode: "freeze", Freeze: 2},
		{N: 2, K: 1, Order: []int{1}, Mode: "free"},
		{N: 3, K: 2, Order: []int{2, 1}, Mode: "free"},
		{N: 4, K: 3, Order: []int{1, 3, 2}, Mode: "free"},
		{N: 6, K: 1, Order: []int{5, 4, 3, 2, 1}, Mode: "free"},
		{N: 3, K: 4, Order: []int{1, 2}, Mode: "delays"},
		{N: 3, K: 1, Order: []int{1, 2}, Mode: "door", Late: -1, AddrForm: 1, Repeat: true},
		{N: 3, K: 2, Order: []int{2, 1}, Mode: "late", Late: 1, StaggerMs: 300, StreamRecs: 40000},
	}
	for _, cfg := range cfgs {
		res, err := c19RunOne(cfg, c.rng.Fork())
		if err != nil {
			return fmt.Errorf("c19child %+v: %v", cfg, err)
		}
		c19Report(c, cfg, res)
	}
	return nil
}

// ---- parties in separate processes

type c19PartyOut struct {
	ID     int
	Err    string
	Peers  []int
	Conns  map[string][]bool // peer id -> stored flags
	Tokens map[string][]int  // "peer/c" -> token received there
}

// runC19Party: one party of a mesh in its own process; parameters in C19_PARTY =
// "n k id leaderAddr selfAddr".  It forms the mesh, sends (id, peer, c) on every connection,
// receives one token on every connection and writes what it saw to <out>/party.json.
func runC19Party(c *Ctx) error {
	if devnull, err := os.OpenFile(os.DevNull, os.O_WRONLY, 0); err == nil {
		os.Stdout = devnull
	}
	var n, k, id int
	var leader, self string
	if _, err := fmt.Sscan(os.Getenv("C19_PARTY"), &n, &k, &id, &leader, &self); err != nil {
		return err
	}
	out := c19PartyOut{ID: id, Conns: map[string][]bool{}, Tokens: map[string][]int{}}
	write := func() error {
		b, _ := json.Marshal(out)
		return os.WriteFile(filepath.Join(c.OutDir, "party.json"), b, 0o644)
	}
	var nw *p2p.Network
	var err error
	if id == 0 {
		nw, err = p2p.Create(self, n, k)
	} else {
		for try := 0; try < 50; try++ { // the leader's process may not be listening yet
			nw, err = p2p.Join(leader, self, id, k)
			if err == nil {
				break
			}
			time.Sleep(40 * time.Millisecond)
		}
	}
	if err != nil {
		out.Err = "create/join: " + err.Error()
		return write()
	}
	if err := nw.Connect(); err != nil {
		out.Err = "Connect: " + err.Error()
		return write()
	}
	snap := nw.VerifSnapshot()
	var mu sync.Mutex
	var wg sync.WaitGroup
	for _, row := range snap {
		out.Peers = append(out.Peers, row.ID)
		if row.ID == id {
			continue
		}
		fl := make([]bool, k)
		for cc := 0; cc < k && cc < len(row.Conns); cc++ {
			conn := row.Conns[cc]
			fl[cc] = conn != nil
			if conn == nil {
				continue
			}
			conn.SendUint32(id)
			conn.SendUint32(row.ID)
			conn.SendUint32(cc)
			conn.Flush()
			wg.Add(1)
			go func(peer, cc int, conn *p2p.Conn) {
				defer wg.Done()
				var tok []int
				for x := 0; x < 3; x++ {
					v, err := conn.ReceiveUint32()
					if err != nil {
						return
					}
					tok = append(tok, v)
				}
				mu.Lock()
				out.Tokens[fmt.Sprintf("%d/%d", peer, cc)] = tok
				mu.Unlock()
			}(row.ID, cc, conn)
		}
		if len(row.Conns) != k {
			fl = append(fl, false) // a table of the wrong length shows as a missing connection
		}
		out.Conns[fmt.Sprint(row.ID)] = fl
	}
	done := make(chan struct{})
	go func() { wg.Wait(); close(done) }()
	select {
	case <-done:
	case <-time.After(8 * time.Second):
	}
	mu.Lock()
	defer mu.Unlock()
	return write()
}

// c19Processes: every party in its own process (optionally with GOMAXPROCS=1).
func c19Processes(c *Ctx, n, k int, env string, resc chan<- func()) {
	addrs, err := c19FreePorts(n)
	if err != nil {
		resc <- func() {}
		return
	}
	type pr struct {
		cmd *exec.Cmd
		out string
	}
	var ps []pr
	for id := 0; id < n; id++ {
		out := filepath.Join(c.OutDir, fmt.Sprintf("party-%d-%d-%d", n, k, id))
		cmd := exec.Command(os.Args[0], "c19party", "-seed", "1", "-tier", "quick", "-out", out)
		cmd.Env = append(os.Environ(), fmt.Sprintf("C19_PARTY=%d %d %d %s %s", n, k, id, addrs[0], addrs[id]))
		if env != "" {
			cmd.Env = append(cmd.Env, env)
		}
		ps = append(ps, pr{cmd, out})
	}
	// the leader's process is started last but one: joiners retry until it listens
	order := []int{}
	for id := 1; id < n; id++ {
		order = append(order, id)
	}
	order = append(order[:len(order)/2], append([]int{0}, order[len(order)/2:]...)...)
	for _, id := range order {
		ps[id].cmd.Start()
	}
	outs := make([]*c19PartyOut, n)
	deadline := time.After(40 * time.Second)
	for id := range ps {
		ch := make(chan error, 1)
		go func(id int) { ch <- ps[id].cmd.Wait() }(id)
		select {
		case <-ch:
		case <-deadline:
			ps[id].cmd.Process.Kill()
		}
		var o c19PartyOut
		if b, err := os.ReadFile(filepath.Join(ps[id].out, "party.json")); err == nil && json.Unmarshal(b, &o) == nil {
			outs[id] = &o
		}
	}
	resc <- func() {
		key := fmt.Sprintf("procs/%d/%d/%s", n, k, env)
		c.Eval(key, true)
		c.Hist("separate-processes:" + env)
		var symptoms []string
		res := make([]c19Party, n)
		for id, o := range outs {
			switch {
			case o == nil:
				res[id].Status = 2
				symptoms = append(symptoms, fmt.Sprintf("party %d: no result (process stalled or died)", id))
				continue
			case o.Err != "":
				res[id].Status, res[id].Err = 1, o.Err
				symptoms = append(symptoms, fmt.Sprintf("party %d: %s", id, o.Err))
				continue
			}
			tab := &c19Table{Peers: o.Peers, Rows: map[int][]bool{}, Lens: map[int]int{}}
			for _, j := range o.Peers {
				if j == id {
					continue
				}
				fl := o.Conns[fmt.Sprint(j)]
				tab.Lens[j] = len(fl)
				if len(fl) > k {
					fl = fl[:k]
				}
				tab.Rows[j] = fl
				for cc := 0; cc < k && cc < len(fl); cc++ {
					if fl[cc] {
						res[id].Pings = append(res[id].Pings, c19Ping{J: j, C: cc, Tok: o.Tokens[fmt.Sprintf("%d/%d", j, cc)]})
					}
				}
			}
			res[id].Ret, res[id].Fin = tab, tab
			if s := tab.complete(id, n, k); s != "" {
				symptoms = append(symptoms, fmt.Sprintf("party %d: table: %s", id, s))
			}
			for _, pg := range res[id].Pings {
				if pg.Tok == nil {
					symptoms = append(symptoms, fmt.Sprintf("party %d: nothing arrived on Peers[%d].Conns[%d]", id, pg.J, pg.C))
				} else if pg.Tok[0] != pg.J || pg.Tok[1] != id || pg.Tok[2] != pg.C {
					symptoms = append(symptoms, fmt.Sprintf("party %d: Peers[%d].Conns[%d] is cross-wired: token %v", id, pg.J, pg.C, pg.Tok))
				}
			}
		}
		if len(symptoms) > 0 {
			c.Fail("c19:separate-processes:"+c19Symptom(symptoms),
				fmt.Sprintf("n=%d k=%d, every party in its own process (%s): %v", n, k, env, symptoms),
				map[string]interface{}{"n": n, "k": k, "env": env, "symptoms": symptoms})
			return
		}
		// the final tables are schedule-independent: compare with the canonical model run
		ord := make([]int, 0, n-1)
		for j := 1; j < n; j++ {
			ord = append(ord, j)
		}
		c.Case(L(I(n), I(k), Ints(ord), I(0)), c19ObsSX(res))
	}
}
