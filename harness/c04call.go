package main

import (
	"fmt"
	"reflect"

	"github.com/markkurossi/mpc/circuit"
)

// streamingGarble calls (*circuit.Streaming).Garble through reflection, so that a change of the
// exported method's parameter list (an added step / sequence number / option) does not stop the
// whole harness from building: the search for a failing input must still run on such a tree.
//
// Arguments are matched by TYPE: the *circuit.Circuit, the first []circuit.Wire (inputs), the
// second []circuit.Wire (outputs); every parameter of an integer kind receives `step` (the
// position of the circuit in the session, which is what Program.Stream passes wherever the
// streamer numbers its circuits); bool parameters receive false.  Any other parameter type is an
// error naming the signature (the caller reports it; nothing is guessed).  The last result of type
// error is returned.
func streamingGarble(st *circuit.Streaming, step int, c *circuit.Circuit, in, out []circuit.Wire) error {
	m := reflect.ValueOf(st).MethodByName("Garble")
	if !m.IsValid() {
		return fmt.Errorf("circuit.Streaming has no exported method Garble")
	}
	t := m.Type()
	if t.IsVariadic() {
		return fmt.Errorf("circuit.Streaming.Garble: unsupported signature %s", t)
	}
	wiresT := reflect.TypeOf([]circuit.Wire(nil))
	circT := reflect.TypeOf((*circuit.Circuit)(nil))
	args := make([]reflect.Value, t.NumIn())
	nw, nc := 0, 0
	for i := range args {
		pt := t.In(i)
		switch {
		case pt == circT:
			args[i] = reflect.ValueOf(c)
			nc++
		case pt == wiresT:
			if nw == 0 {
				args[i] = reflect.ValueOf(in)
			} else {
				args[i] = reflect.ValueOf(out)
			}
			nw++
		case pt.Kind() >= reflect.Int && pt.Kind() <= reflect.Uint64:
			args[i] = reflect.ValueOf(step).Convert(pt)
		case pt.Kind() == reflect.Bool:
			args[i] = reflect.Zero(pt)
		default:
			return fmt.Errorf("circuit.Streaming.Garble: unsupported signature %s", t)
		}
	}
	if nc != 1 || nw != 2 {
		return fmt.Errorf("circuit.Streaming.Garble: unsupported signature %s", t)
	}
	res := m.Call(args)
	errT := reflect.TypeOf((*error)(nil)).Elem()
	for i := len(res) - 1; i >= 0; i-- {
		if res[i].Type() == errT {
			if res[i].IsNil() {
				return nil
			}
			return res[i].Interface().(error)
		}
	}
	return nil
}
