package main

// c02doors.go — the less-travelled ways into circuit.Garbler / circuit.Evaluator (table "Doors"
// of notes/C02-findings.md).  Everything here is ORACLE ONLY: each session must end with both
// parties holding f(x, y) (plain evaluation by TruthEval, independent of the model); the Coq
// session model is indifferent to the transport, the OT object's history and the call pattern,
// so these sessions add nothing to the correspondence relation and emit no cases.
//
//	c02DoorTransports  p2p.Pipe() (io.Pipe: every Write blocks until it is read) and real TCP on
//	                   the loopback interface, for every OT; verbose=true (progress lines, timing
//	                   table over Conn.Stats); env.Config with no Rand (crypto/rand default);
//	                   circuits that went through MarshalFormat + Parse (mpclc, bristol); one
//	                   first flight larger than all of Conn's write buffers over each transport
//	c02DoorSameConn    several sessions one after the other over ONE pair of p2p.Conn, with the
//	                   OT objects kept (CO, RSA, COT created with shared=true in both adversary
//	                   modes: initialised once, later InitSender/InitReceiver only flush) or
//	                   made anew (COT, not shared)
//	c02DoorOverlap     several sessions at the same time on ONE *circuit.Circuit (every OT), once
//	                   with GOMAXPROCS(1) (per-P pools hand the same scratch to everybody) and a
//	                   GC percent of 1, once as the process runs
//	c02DoorAbortRetry  a session cut in the first flight / in the OT / in the evaluator's request /
//	                   in the returned output labels, then the next session with the SAME OT
//	                   objects (CO, RSA; roles swapped now and then) on the SAME circuit
//	c02DoorBoundaries  evaluator inputs of exactly 127..129, 511..513, 1023..1025 bits (IKNP base
//	                   width, IKNP chunk, KOS check block) and garbler inputs of 1, 64, 65, 128,
//	                   129 bits; both parties are handed the SAME *big.Int object (so the narrower
//	                   party's value has set bits beyond its width), unchanged afterwards

import (
	"bytes"
	"fmt"
	"math/big"
	"net"
	"os"
	"path/filepath"
	"runtime"
	"runtime/debug"
	"strings"
	"sync"
	"sync/atomic"
	"time"

	"github.com/markkurossi/mpc/circuit"
	"github.com/markkurossi/mpc/env"
	"github.com/markkurossi/mpc/ot"
	"github.com/markkurossi/mpc/p2p"
)

type c02Door struct {
	circ *circuit.Circuit
	x, y []bool
	want []*big.Int
}

func c02DoorInputs(r *RNG, circ *circuit.Circuit) *c02Door {
	n0, n1 := int(circ.Inputs[0].Type.Bits), int(circ.Inputs[1].Type.Bits)
	d := &c02Door{circ: circ, x: make([]bool, n0), y: make([]bool, n1)}
	for k := range d.x {
		d.x[k] = r.Bool()
	}
	for k := range d.y {
		d.y[k] = r.Bool()
	}
	d.want = JoinBig(circ, TruthEval(circ, append(append([]bool(nil), d.x...), d.y...)))
	return d
}

func c02GenDoor(r *RNG, minGates, maxGates int) *c02Door {
	return c02DoorInputs(r, GenCircuit(r, GenOpts{MinIn: 2, MaxIn: 12, MinGates: minGates, MaxGates: maxGates,
		MaxOut: 6, Overwrite: true, TwoParty: true}))
}

// c02GenSplit: a generated circuit whose two arguments have exactly n0 and n1 bits.
func c02GenSplit(r *RNG, n0, n1, minGates, maxGates int) *circuit.Circuit {
	circ := GenCircuit(r, GenOpts{MinIn: n0 + n1, MaxIn: n0 + n1, MinGates: minGates, MaxGates: maxGates,
		MaxOut: 9, Overwrite: true, TwoParty: true})
	circ.Inputs = circuit.IO{{Name: "a", Type: uintInfo(n0)}, {Name: "b", Type: uintInfo(n1)}}
	return circ
}

func c02Verdict(res *sessionResult, want []*big.Int) string {
	switch {
	case res.stalled:
		return "session stalled"
	case res.gErr != nil:
		return "garbler error: " + res.gErr.Error()
	case res.eErr != nil:
		return "evaluator error: " + res.eErr.Error()
	case bigsString(res.gRes) != bigsString(want):
		return "garbler result differs from plain evaluation"
	case bigsString(res.eRes) != bigsString(want):
		return "evaluator result differs from plain evaluation"
	}
	return ""
}

type c02DoorReplay struct {
	Seed    uint64 `json:"seed"`
	Door    string `json:"door"`
	OT      string `json:"ot"`
	Circuit string `json:"circuit"`
	X       string `json:"x"`
	Y       string `json:"y"`
	GRes    string `json:"garbler_result"`
	ERes    string `json:"evaluator_result"`
	Want    string `json:"want"`
	GErr    string `json:"garbler_error"`
	EErr    string `json:"evaluator_error"`
}

// c02DoorCheck evaluates the property on one finished session; true when it holds.
func c02DoorCheck(c *Ctx, door, otName, detail string, d *c02Door, res *sessionResult) bool {
	c.Hist("door:" + door)
	c.Eval(fmt.Sprintf("door|%s|%s|%s|%s|%s|%s", door, otName, detail, circuitText(d.circ), bitsString(d.x), bitsString(d.y)), true)
	bad := c02Verdict(res, d.want)
	if bad == "" {
		return true
	}
	ct := circuitText(d.circ)
	if len(ct) > 4000 {
		ct = fmt.Sprintf("generated circuit of %d gates (regenerate from the seed)", len(d.circ.Gates))
	}
	rp := c02DoorReplay{Seed: c.Seed, Door: door + " — " + detail, OT: otName, Circuit: ct, X: bitsString(d.x), Y: bitsString(d.y),
		GRes: bigsString(res.gRes), ERes: bigsString(res.eRes), Want: bigsString(d.want)}
	if res.gErr != nil {
		rp.GErr = res.gErr.Error()
	}
	if res.eErr != nil {
		rp.EErr = res.eErr.Error()
	}
	c.Fail("c02:door:"+door+":"+otName+":"+strings.SplitN(bad, ":", 2)[0], door+" ("+detail+"): "+bad, rp)
	return false
}

// c02RunConns runs the real Garbler and Evaluator on two given connections and leaves them
// open.  gIdle / eIdle (optional) tell whether the garbler / evaluator is blocked reading an
// empty transport; abort must make blocked reads of both parties fail.
func c02RunConns(cfg *env.Config, gConn, eConn *p2p.Conn, otG, otE ot.OT, circ *circuit.Circuit, gIn, eIn *big.Int,
	verbose bool, gIdle, eIdle func() bool, abort func(), timeout time.Duration) *sessionResult {

	res := &sessionResult{}
	var gDone, eDone atomic.Bool
	var wg sync.WaitGroup
	wg.Add(2)
	go func() {
		defer wg.Done()
		defer func() {
			if r := recover(); r != nil {
				res.gErr = fmt.Errorf("panic: %v", r)
			}
			gDone.Store(true)
		}()
		res.gRes, res.gErr = circuit.Garbler(cfg, gConn, otG, circ, gIn, verbose)
	}()
	go func() {
		defer wg.Done()
		defer func() {
			if r := recover(); r != nil {
				res.eErr = fmt.Errorf("panic: %v", r)
			}
			eDone.Store(true)
		}()
		res.eRes, res.eErr = circuit.Evaluator(eConn, otE, circ, eIn, verbose)
	}()
	done := make(chan struct{})
	go func() { wg.Wait(); close(done) }()
	deadline := time.Now().Add(timeout)
	idle := 0
	var oneGoneSince time.Time
	for {
		select {
		case <-done:
			return res
		case <-time.After(2 * time.Millisecond):
		}
		gd, ed := gDone.Load(), eDone.Load()
		if gIdle != nil && (gd || gIdle()) && (ed || eIdle()) {
			idle++
		} else {
			idle = 0
		}
		// without idle detection (TCP, io.Pipe): one party returned and the other one is still in
		// the session five seconds later (it waits for a peer that gave up): close the connection,
		// as the caller of the party that returned would
		if gd != ed && oneGoneSince.IsZero() {
			oneGoneSince = time.Now()
		}
		lonely := gIdle == nil && !oneGoneSince.IsZero() && time.Since(oneGoneSince) > 5*time.Second
		if idle >= 30 || lonely || time.Now().After(deadline) {
			res.stalled = !gd && !ed
			abort()
			select {
			case <-done:
			case <-time.After(5 * time.Second):
				// still blocked after the transport was closed: report a stall and abandon the
				// goroutines (a fresh result: they may still write to res)
				return &sessionResult{stalled: true}
			}
			return res
		}
	}
}

func c02TCPPair() (net.Conn, net.Conn, error) {
	ln, err := net.Listen("tcp", "127.0.0.1:0")
	if err != nil {
		return nil, nil, err
	}
	defer ln.Close()
	ch := make(chan net.Conn, 1)
	go func() {
		nc, err := ln.Accept()
		if err != nil {
			ch <- nil
			return
		}
		ch <- nc
	}()
	gc, err := net.Dial("tcp", ln.Addr().String())
	if err != nil {
		return nil, nil, err
	}
	select {
	case ec := <-ch:
		if ec == nil {
			gc.Close()
			return nil, nil, fmt.Errorf("accept failed")
		}
		return gc, ec, nil
	case <-time.After(10 * time.Second):
		gc.Close()
		return nil, nil, fmt.Errorf("accept timed out")
	}
}

// c02Reparse writes the circuit in the given format to a file and reads it back with
// circuit.Parse (what apps/garbled does for .mpclc / .bristol / .circ arguments).
func c02Reparse(c *Ctx, circ *circuit.Circuit, format string) (*circuit.Circuit, error) {
	var buf bytes.Buffer
	if err := circ.MarshalFormat(&buf, format); err != nil {
		return nil, err
	}
	f := filepath.Join(c.OutDir, "c02door."+format)
	if err := os.WriteFile(f, buf.Bytes(), 0o644); err != nil {
		return nil, err
	}
	defer os.Remove(f)
	return circuit.Parse(f)
}

func c02DoorTransports(c *Ctx) error {
	type tcase struct {
		kind      otMaker
		transport string
		big       bool
	}
	var cases []tcase
	for _, k := range otKinds {
		cases = append(cases, tcase{k, "p2p.Pipe", false}, tcase{k, "tcp", false})
	}
	// a first flight larger than the three 64 kB write buffers of Conn: the garbler's Flush waits
	// for the writer goroutine, which waits for the peer to read
	cases = append(cases, tcase{otKinds[0], "p2p.Pipe", true}, tcase{otKinds[1], "tcp", true})
	for ci, tc := range cases {
		r := c.rng.Fork()
		var d *c02Door
		if tc.big {
			d = c02DoorInputs(r, GenCircuit(r, GenOpts{MinIn: 6, MaxIn: 14, MinGates: 9000, MaxGates: 9500, MaxOut: 9, TwoParty: true}))
		} else {
			d = c02GenDoor(r, 4, 60)
		}
		detail := tc.transport
		verbose := false
		cfg := &env.Config{Rand: r.Fork()}
		if tc.transport == "tcp" && !tc.big {
			// the circuit as apps/garbled gets it from a circuit file
			format := []string{"mpclc", "bristol"}[ci/2%2]
			pc, err := c02Reparse(c, d.circ, format)
			if err != nil {
				return fmt.Errorf("c02 doors: %s round trip of a generated circuit: %v", format, err)
			}
			if len(pc.Inputs) != 2 || pc.Inputs[0].Type.Bits != d.circ.Inputs[0].Type.Bits || pc.Inputs[1].Type.Bits != d.circ.Inputs[1].Type.Bits ||
				pc.Outputs.Size() != d.circ.Outputs.Size() {
				return fmt.Errorf("c02 doors: %s round trip changed the interface of a generated circuit", format)
			}
			if format == "bristol" {
				// the Bristol format keeps the output widths only; split the expectation the same way
				d = &c02Door{circ: pc, x: d.x, y: d.y, want: JoinBig(pc, TruthEval(d.circ, append(append([]bool(nil), d.x...), d.y...)))}
			} else {
				d = &c02Door{circ: pc, x: d.x, y: d.y, want: d.want}
			}
			detail += ", circuit parsed from a ." + format + " file, env.Config without Rand"
			cfg = &env.Config{}
		}
		if tc.transport == "p2p.Pipe" && !tc.big {
			verbose = true
			detail += ", verbose"
		}
		if tc.big {
			detail += fmt.Sprintf(", %d gates (first flight beyond Conn's write buffers)", len(d.circ.Gates))
		}
		var gConn, eConn *p2p.Conn
		var abort func()
		if tc.transport == "tcp" {
			gc, ec, err := c02TCPPair()
			if err != nil {
				return fmt.Errorf("c02 doors: loopback TCP: %v", err)
			}
			gConn, eConn = p2p.NewConn(gc), p2p.NewConn(ec)
			abort = func() { gc.Close(); ec.Close() }
		} else {
			gConn, eConn = p2p.Pipe()
		}
		// Conn.Close must run once only (it closes a channel)
		closeG := sync.OnceFunc(func() { gConn.Close() })
		closeE := sync.OnceFunc(func() { eConn.Close() })
		if abort == nil {
			abort = func() { go closeG(); go closeE() }
		}
		res := c02RunConns(cfg, gConn, eConn, tc.kind.mk(r.Fork()), tc.kind.mk(r.Fork()), d.circ, bitsToBig(d.x), bitsToBig(d.y),
			verbose, nil, nil, abort, 30*time.Second)
		go closeG()
		go closeE()
		c02DoorCheck(c, "transport:"+tc.transport, tc.kind.name, detail, d, res)
	}
	return nil
}

func c02DoorSameConn(c *Ctx) {
	type variant struct {
		name  string
		mk    func(r *RNG) ot.OT
		fresh bool
	}
	variants := []variant{
		{"co", otKinds[0].mk, false},
		{"rsa", otKinds[3].mk, false},
		{"cot-shared", func(r *RNG) ot.OT { return ot.NewCOT(ot.NewCO(r.Fork()), r, false, true) }, false},
		{"cot-malicious-shared", func(r *RNG) ot.OT { return ot.NewCOT(ot.NewCO(r.Fork()), r, true, true) }, false},
		{"cot", otKinds[1].mk, true},
	}
	for _, v := range variants {
		r := c.rng.Fork()
		ga, ea, g2e, e2g := newDuplexPair(r, 17)
		gConn, eConn := p2p.NewConn(ga), p2p.NewConn(ea)
		otG, otE := v.mk(r.Fork()), v.mk(r.Fork())
		for s := 0; s < 3; s++ {
			if v.fresh && s > 0 {
				otG, otE = v.mk(r.Fork()), v.mk(r.Fork())
			}
			d := c02GenDoor(r, 4, 50)
			res := c02RunConns(&env.Config{Rand: r.Fork()}, gConn, eConn, otG, otE, d.circ, bitsToBig(d.x), bitsToBig(d.y),
				false, e2g.idle, g2e.idle, func() { ga.Close(); ea.Close() }, 30*time.Second)
			how := "OT objects kept"
			if v.fresh {
				how = "new OT objects"
			}
			if !c02DoorCheck(c, "same-connection", v.name, fmt.Sprintf("session %d of 3 over one pair of p2p.Conn, %s", s+1, how), d, res) {
				break
			}
		}
		ga.Close()
		ea.Close()
		go gConn.Close()
		go eConn.Close()
	}
}

func c02DoorOverlap(c *Ctx) {
	const K = 8
	for round := 0; round < 2; round++ {
		r := c.rng.Fork()
		circ := c02GenDoor(r, 30, 90).circ
		doors := make([]*c02Door, K)
		results := make([]*sessionResult, K)
		type args struct {
			grand, rg, re, rt *RNG
		}
		as := make([]args, K)
		for k := range doors {
			doors[k] = c02DoorInputs(r, circ)
			as[k] = args{r.Fork(), r.Fork(), r.Fork(), r.Fork()}
		}
		env1 := "GOMAXPROCS and GC percent of the process"
		restore := func() {}
		if round == 0 {
			oldP := runtime.GOMAXPROCS(1)
			oldGC := debug.SetGCPercent(1)
			restore = func() { runtime.GOMAXPROCS(oldP); debug.SetGCPercent(oldGC) }
			env1 = "GOMAXPROCS(1), GC percent 1"
		}
		var wg sync.WaitGroup
		for k := 0; k < K; k++ {
			wg.Add(1)
			go func(k int) {
				defer wg.Done()
				kind := otKinds[k%len(otKinds)]
				results[k] = runSession(circ, bitsToBig(doors[k].x), bitsToBig(doors[k].y), as[k].grand,
					kind.mk(as[k].rg), kind.mk(as[k].re), 64, as[k].rt, nil, 60*time.Second)
			}(k)
		}
		wg.Wait()
		restore()
		for k := 0; k < K; k++ {
			c02DoorCheck(c, "overlapping-sessions-on-one-circuit", otKinds[k%len(otKinds)].name,
				fmt.Sprintf("session %d of %d running at the same time on one *circuit.Circuit, %s", k+1, K, env1), doors[k], results[k])
		}
	}
}

func c02DoorAbortRetry(c *Ctx) {
	for _, kind := range []otMaker{otKinds[0], otKinds[3], otKinds[2]} {
		r := c.rng.Fork()
		keep := kind.name == "co" || kind.name == "rsa" // an ot.COT object serves one initialisation only
		otA, otB := kind.mk(r.Fork()), kind.mk(r.Fork())
		circ := c02GenDoor(r, 10, 50).circ
		// a clean session first: gives the stream lengths
		d := c02DoorInputs(r, circ)
		res := runSession(circ, bitsToBig(d.x), bitsToBig(d.y), r.Fork(), otA, otB, 0, r.Fork(), nil, 60*time.Second)
		if !c02DoorCheck(c, "abort-then-retry", kind.name, "first session on the circuit and OT objects", d, res) {
			continue
		}
		n0 := int(circ.Inputs[0].Type.Bits)
		first := len(res.g2e)
		flight := 0
		{
			flight = 4 + 32 + 4
			for _, g := range circ.Gates {
				switch g.Op {
				case circuit.AND:
					flight += 4 + 32
				case circuit.OR:
					flight += 4 + 48
				case circuit.INV:
					flight += 4 + 16
				default:
					flight += 4
				}
			}
			flight += 16 * n0
		}
		cuts := []struct {
			what string
			g2e  bool
			at   int
		}{
			{"garbler->evaluator stream cut inside the first flight", true, 1 + r.Intn(flight-1)},
			{"garbler->evaluator stream cut inside the OT", true, flight + 1 + r.Intn(imax(1, first-flight-8))},
			{"evaluator->garbler stream cut inside the OT request", false, 1 + r.Intn(7)},
			{"evaluator->garbler stream cut inside the returned output labels", false, imax(1, len(res.e2g)-1-r.Intn(imax(1, 16*circ.Outputs.Size()-1)))},
		}
		for ci, cut := range cuts {
			if !keep {
				otA, otB = kind.mk(r.Fork()), kind.mk(r.Fork())
			}
			da := c02DoorInputs(r, circ)
			at, g2eCut := cut.at, cut.g2e
			runSession(circ, bitsToBig(da.x), bitsToBig(da.y), r.Fork(), otA, otB, 0, r.Fork(), func(g2e, e2g *fragQueue) {
				if g2eCut {
					g2e.truncAt = at
				} else {
					e2g.truncAt = at
				}
			}, 20*time.Second)
			c.Hist("door:abort-then-retry:aborted-session")
			if !keep {
				otA, otB = kind.mk(r.Fork()), kind.mk(r.Fork())
			}
			otG, otE := otA, otB
			roles := "same roles"
			if keep && ci%2 == 1 {
				otG, otE = otB, otA
				roles = "roles swapped"
			}
			dr := c02DoorInputs(r, circ)
			rr := runSession(circ, bitsToBig(dr.x), bitsToBig(dr.y), r.Fork(), otG, otE, 0, r.Fork(), nil, 60*time.Second)
			how := "the same OT objects"
			if !keep {
				how = "new OT objects"
			}
			if !c02DoorCheck(c, "abort-then-retry", kind.name,
				fmt.Sprintf("session on the same circuit with %s (%s) right after a session that was aborted: %s at byte %d", how, roles, cut.what, at), dr, rr) {
				break
			}
		}
	}
}

func imax(a, b int) int {
	if a > b {
		return a
	}
	return b
}

func c02DoorBoundaries(c *Ctx) {
	n0s := []int{1, 64, 65, 128, 129, 3}
	type bc struct {
		n1   int
		kind otMaker
	}
	cot, mal := otKinds[1], otKinds[2]
	list := []bc{{127, cot}, {128, mal}, {129, cot}, {128, otKinds[0]}, {129, otKinds[3]},
		{511, mal}, {512, cot}, {512, mal}, {513, mal}, {513, cot},
		{1023, cot}, {1024, mal}, {1024, cot}, {1025, cot}, {1025, mal}}
	for i, b := range list {
		r := c.rng.Fork()
		n0 := n0s[i%len(n0s)]
		circ := c02GenSplit(r, n0, b.n1, 40, 100)
		// one *big.Int for both parties: its low n0 bits are the garbler's input, its low n1 bits
		// the evaluator's; the narrower party's argument carries set bits beyond its width
		w := imax(n0, b.n1)
		bits := make([]bool, w)
		for k := range bits {
			bits[k] = r.Bool()
		}
		bits[w-1] = true
		v := bitsToBig(bits)
		before := new(big.Int).Set(v)
		d := &c02Door{circ: circ, x: bits[:n0], y: bits[:b.n1]}
		d.want = JoinBig(circ, TruthEval(circ, append(append([]bool(nil), d.x...), d.y...)))
		res := runSession(circ, v, v, r.Fork(), b.kind.mk(r.Fork()), b.kind.mk(r.Fork()), []int{0, 17, 1000}[i%3], r.Fork(), nil, 60*time.Second)
		detail := fmt.Sprintf("n0=%d n1=%d, both parties given the same *big.Int object (%d bits)", n0, b.n1, w)
		if c02DoorCheck(c, "width-boundary", b.kind.name, detail, d, res) && v.Cmp(before) != 0 {
			c.Fail("c02:door:width-boundary:"+b.kind.name+":input-modified", "the input *big.Int handed to Garbler/Evaluator was modified by the session ("+detail+")",
				c02DoorReplay{Seed: c.Seed, Door: "width-boundary", OT: b.kind.name, X: before.Text(16), Y: v.Text(16)})
		}
	}
}

func c02Doors(c *Ctx) error {
	// verbose sessions print progress lines and timing tables
	if devnull, err := os.OpenFile(os.DevNull, os.O_WRONLY, 0); err == nil {
		old := os.Stdout
		os.Stdout = devnull
		defer func() { os.Stdout = old; devnull.Close() }()
	}
	if err := c02DoorTransports(c); err != nil {
		return err
	}
	c02DoorSameConn(c)
	c02DoorOverlap(c)
	c02DoorAbortRetry(c)
	c02DoorBoundaries(c)
	return nil
}
