package main

import (
	"bufio"
	"encoding/json"
	"fmt"
	"math/big"
	"os"
	"os/exec"
	"path/filepath"
	"strconv"
	"strings"
	"sync"
	"time"

	"github.com/markkurossi/mpc/circuit"
	"github.com/markkurossi/mpc/env"
	"github.com/markkurossi/mpc/ot"
)

func init() { register("c16", runC16) }

type c16Replay struct {
	Seed     uint64 `json:"seed"`
	Circuit  string `json:"circuit"`
	OT       string `json:"ot"`
	X        string `json:"x"`
	Y        string `json:"y"`
	Dir      string `json:"direction"`
	Offset   int    `json:"offset"`
	Kind     string `json:"fault"`
	Mask     int    `json:"mask"`
	Got      string `json:"garbler_result"`
	Want     string `json:"want"`
	CircSeed uint64 `json:"circuit_seed"`
}

type fault struct {
	dir   string // "g2e" or "e2g"
	off   int
	kind  string // flip, replace, burst, trunc, pair, burstff
	mask  byte
	off2  int          // pair: second offset
	count int          // burstff: length
	must  bool         // never sub-sampled
	setv  map[int]byte // setbytes / replay: replacement bytes by absolute offset
	off3  int          // swap: end of the second range ([off,off2) and [off2,off3) change places)
	ins   []byte       // insert: the bytes inserted before the byte at off
}

func (f fault) apply(g2e, e2g *fragQueue) {
	q := g2e
	if f.dir == "e2g" {
		q = e2g
	}
	switch f.kind {
	case "flip", "replace":
		q.corrupt = map[int]byte{f.off: f.mask}
	case "burst":
		q.corrupt = map[int]byte{}
		for k := 0; k < 8; k++ {
			q.corrupt[f.off+k] = byte(0xA5 + 17*k)
		}
	case "trunc":
		q.truncAt = f.off
	case "pair":
		// the same mask on the same byte of two different labels
		q.corrupt = map[int]byte{f.off: f.mask, f.off2: f.mask}
	case "set16":
		// a whole aligned 16-byte label replaced by a constant byte pattern
		q.set = map[int]byte{}
		for k := 0; k < 16; k++ {
			q.set[f.off+k] = f.mask
		}
	case "setbytes", "replay":
		// replay: the bytes of a message replaced by the bytes at the same place of an EARLIER
		// session's transcript (other session key, labels and OT randomness)
		q.set = f.setv
	case "delete", "insert", "swap":
		// stream edits (the rest of the stream shifts): see c16Editor in c16doors.go
	case "dup16":
		// the label at off2 (earlier in the stream) copied over the label at off
		q.dup = map[int]int{}
		for k := 0; k < 16; k++ {
			q.dup[f.off+k] = f.off2 + k
		}
	case "burstff":
		// constant-mask burst spanning several labels
		q.corrupt = map[int]byte{}
		for k := 0; k < f.count; k++ {
			q.corrupt[f.off+k] = f.mask
		}
	}
}

// runC16: sessions behind a corrupting transport.  Oracle: whenever the
// garbler returns a result without error it must equal the plain
// evaluation.  Correspondence: for faults outside the evaluator->garbler OT
// segment the model's garbler_finish on the labels actually delivered
// predicts the garbler's outcome (error / result values).
//
// A corrupted length field can make a party allocate tens of gigabytes and
// the Go runtime then dies with "fatal error: out of memory" (not a
// recoverable panic).  The corrupted sessions therefore run in a child
// process (this binary, C16_CHILD set); when the child dies at fault k the
// parent records outcome "crashed" for k and restarts the child at k+1.
func runC16(c *Ctx) error {
	if os.Getenv("C16_CHILD") != "" {
		return c16Child(c)
	}
	if os.Getenv("C16_SPAN_ONLY") != "" { // debugging: only the span cases (same cases as in a full run)
		return c16SpanCases(c)
	}
	ncirc := c.N(3, 10)
	exe, err := os.Executable()
	if err != nil {
		return err
	}
	// one child per circuit (ci == ncirc: the streaming sessions), run CONCURRENTLY; their
	// records are collected and accounted in circuit order afterwards so that the output does
	// not depend on the interleaving
	type c16Event struct {
		rec      *c16Rec
		crash    string
		basefail string
	}
	nchild := ncirc + 3 + c16NumDoorChildren
	events := make([][]c16Event, nchild)
	errs := make([]error, nchild)
	var wg sync.WaitGroup
	for ci := 0; ci < nchild; ci++ {
		wg.Add(1)
		go func(ci int) {
			defer wg.Done()
			t0 := time.Now()
			if os.Getenv("C16_TIMING") != "" {
				defer func() { fmt.Fprintf(os.Stderr, "c16 child %d: %.1fs, %d events\n", ci, time.Since(t0).Seconds(), len(events[ci])) }()
			}
			start := 0
			for restarts := 0; restarts < 400; restarts++ {
				// address-space limit: a corrupted count that asks for gigabytes kills the
				// child at once instead of thrashing the machine
				cmd := exec.Command("sh", "-c", `ulimit -v 3000000; exec "$0" "$@"`, exe, "c16", "-seed", fmt.Sprint(c.Seed), "-tier", c.Tier, "-out", filepath.Join(c.OutDir, fmt.Sprintf("child%d", ci)))
				cmd.Stderr = nil
				cmd.Env = append(os.Environ(), "C16_CHILD=1", fmt.Sprintf("C16_CIRC=%d", ci), fmt.Sprintf("C16_START=%d", start))
				if ci >= ncirc+3 {
					cmd.Env = append(cmd.Env, c16DoorEnv(ci-ncirc-3)...)
				}
				out, err := cmd.StdoutPipe()
				if err != nil {
					errs[ci] = err
					return
				}
				if err := cmd.Start(); err != nil {
					errs[ci] = err
					return
				}
				sc := bufio.NewScanner(out)
				sc.Buffer(make([]byte, 1<<20), 1<<26)
				last := start - 1
				current := -1
				finished := false
				var pendingDesc string
				for sc.Scan() {
					line := sc.Text()
					switch {
					case strings.HasPrefix(line, "BEGIN "):
						f := strings.SplitN(line, " ", 3)
						current, _ = strconv.Atoi(f[1])
						pendingDesc = f[2]
					case strings.HasPrefix(line, "END "):
						rec := new(c16Rec)
						if err := json.Unmarshal([]byte(line[4:]), rec); err != nil {
							errs[ci] = fmt.Errorf("child line: %v", err)
							continue
						}
						last = rec.Fi
						current = -1
						events[ci] = append(events[ci], c16Event{rec: rec})
					case line == "DONE":
						finished = true
					case strings.HasPrefix(line, "BASEFAIL "):
						events[ci] = append(events[ci], c16Event{basefail: line[9:]})
						finished = true
					}
				}
				cmd.Wait()
				if finished {
					break
				}
				// child died while processing fault `current`
				if current >= 0 {
					events[ci] = append(events[ci], c16Event{crash: pendingDesc})
					start = current + 1
				} else {
					start = last + 1
				}
			}
			os.RemoveAll(filepath.Join(c.OutDir, fmt.Sprintf("child%d", ci)))
		}(ci)
	}
	wg.Wait()
	for ci := 0; ci < nchild; ci++ {
		if errs[ci] != nil {
			return errs[ci]
		}
		for _, ev := range events[ci] {
			switch {
			case ev.rec != nil:
				c16Account(c, ci, ev.rec)
			case ev.basefail != "":
				c.Fail("c16:honest-baseline", "uncorrupted session does not produce f(x,y)", ev.basefail)
			default:
				c.Hist("garbler:crashed-process")
				c.Eval(fmt.Sprintf("%d|crash|%s", ci, ev.crash), true)
				c.Note("process died (out of memory / fatal) at circuit %d fault %s", ci, ev.crash)
			}
		}
	}
	// span cases (c16span.go): R is not a linear function of the evaluator's view
	return c16SpanCases(c)
}

type c16Rec struct {
	Fi      int        `json:"fi"`
	Dir     string     `json:"dir"`
	Kind    string     `json:"kind"`
	Off     int        `json:"off"`
	Outcome string     `json:"outcome"`
	Wrong   *c16Replay `json:"wrong,omitempty"`
	In      string     `json:"in,omitempty"`
	Obs     string     `json:"obs,omitempty"`
	Circuit string     `json:"circuit"`
}

func c16Account(c *Ctx, ci int, rec *c16Rec) {
	c.Hist("dir:" + rec.Dir)
	c.Hist("fault:" + rec.Kind)
	c.Hist("garbler:" + rec.Outcome)
	c.Eval(fmt.Sprintf("%d|%s|%d|%s", ci, rec.Dir, rec.Off, rec.Kind), true)
	if rec.Wrong != nil {
		c.Fail(fmt.Sprintf("c16:wrong-result:%s:%s", rec.Dir, rec.Kind),
			"garbler returned a wrong result as if the run had succeeded", rec.Wrong)
	}
	if rec.In != "" {
		c.cases.WriteString(rec.In)
		c.cases.WriteByte('\t')
		c.cases.WriteString(rec.Obs)
		c.cases.WriteByte('\n')
		c.nCases++
		if len(c.samples) < 4 && rec.Dir == "e2g" {
			c.Sample(map[string]interface{}{"circuit": rec.Circuit, "direction": rec.Dir, "offset": rec.Off, "kind": rec.Kind, "garbler_outcome": rec.Outcome})
		}
	}
}

func c16Child(c *Ctx) error {
	ncirc := c.N(3, 10)
	budget := c.N(560, 60000) // corrupted sessions in total (the standing fault catalogue)
	kinds := []otMaker{otKinds[0], otKinds[1]}
	per := budget / ncirc
	want_ci, _ := strconv.Atoi(os.Getenv("C16_CIRC"))
	startAt, _ := strconv.Atoi(os.Getenv("C16_START"))
	w := bufio.NewWriter(os.Stdout)
	defer w.Flush()
	if want_ci >= ncirc+3 {
		// the door children (c16doors2.go); the last two take over the second half of the two
		// longest standing children (handshake sweeps, wide-input stream) so that they run in parallel
		switch d := want_ci - ncirc - 3; d {
		case c16NumDoorChildren - 2:
			c16Half = 1
			return c16StreamChild(c, w, startAt, 1)
		case c16NumDoorChildren - 1:
			c16Half = 1
			return c16StreamChild(c, w, startAt, 2)
		default:
			return c16DoorChild(c, w, startAt, d)
		}
	}
	if want_ci >= ncirc {
		// ncirc: byte faults on a streaming session; ncirc+1: handshake sweeps
		return c16StreamChild(c, w, startAt, want_ci-ncirc)
	}
	for ci := 0; ci < ncirc; ci++ {
		r := c.rng.Fork()
		if ci != want_ci {
			continue
		}
		// circuit 0: ONE pair of OT objects, one env.Config and one entropy reader serve all the
		// sessions of the child (as the evaluator loop of apps/garbled keeps its OT object over
		// connections), the sessions after aborted ones included
		sp := c16Spec{kind: kinds[ci%len(kinds)], per: per, shortReads: ci%2 == 1, longLived: ci == 0, frag: []int{0, 0, 5}[ci%3], part: ci}
		if err := c16CircuitChild(c, w, r, startAt, sp); err != nil {
			return err
		}
	}
	fmt.Fprintln(w, "DONE")
	_ = big.NewInt
	return nil
}

// c16Spec: how the sessions of one whole-circuit child are set up.
type c16Spec struct {
	kind       otMaker
	per        int              // session budget of the standing catalogue (sub-sampled to it)
	shortReads bool             // entropy source handing out at most 32 bytes per Read
	longLived  bool             // one pair of OT objects / one env.Config for all sessions (CO, RSA)
	frag       int              // maximal read fragment of the transport (0: whatever is there)
	verbose    bool             // Garbler / Evaluator verbose flag
	circ       *circuit.Circuit // nil: generated
	editsOnly  bool             // only the edit / replay faults and a thin sample of the standing catalogue
	part       int              // standing children, quick tier: which third of the edit faults
}

func c16CircuitChild(c *Ctx, w *bufio.Writer, r *RNG, startAt int, sp c16Spec) error {
	{
		kind := sp.kind
		per := sp.per
		cseed := r.s
		opts := GenOpts{MinIn: 2, MaxIn: 6, MinGates: 5, MaxGates: 14, MaxOut: 4, Overwrite: false, TwoParty: true}
		circ := GenCircuit(r, opts)
		if sp.editsOnly && sp.circ == nil {
			// door children: a circuit with at least two output bits that take both values
			opts.MaxOut = 5
			for try := 0; try < 40; try++ {
				ok := false
				if circ.Outputs.Size() >= 2 {
					for k := 0; k < 16 && !ok; k++ {
						in := make([]bool, circ.Inputs.Size())
						for j := range in {
							in[j] = r.Bool()
						}
						ones := 0
						ob := TruthEval(circ, in)
						for _, b := range ob {
							if b {
								ones++
							}
						}
						ok = ones > 0 && ones < len(ob)
					}
				}
				if ok {
					break
				}
				circ = GenCircuit(r, opts)
			}
		}
		if sp.circ != nil {
			circ = sp.circ
		}
		// every other circuit: the configured entropy source (env.Config.Rand) hands out at most
		// 32 bytes per Read call (legal for an io.Reader); the garbler has at least 4 input
		// wires, all 1, so that the label sent for each of them is L1
		shortReads := sp.shortReads
		if shortReads {
			opts.MinIn, opts.MaxIn = 7, 9
			for circ = GenCircuit(r, opts); circ.Inputs[0].Type.Bits < 4; {
				circ = GenCircuit(r, opts)
			}
		}
		n0 := int(circ.Inputs[0].Type.Bits)
		n1 := int(circ.Inputs[1].Type.Bits)
		no := circ.Outputs.Size()
		x := make([]bool, n0)
		y := make([]bool, n1)
		for k := range x {
			x[k] = r.Bool() || shortReads
		}
		for k := range y {
			y[k] = r.Bool()
		}
		// inputs whose outputs contain a 1 (and a 0 when there are several output bits): an
		// unknown returned label that were decoded as a default value then shows in the result
		for try := 0; try < 24; try++ {
			ob := TruthEval(circ, append(append([]bool(nil), x...), y...))
			ones := 0
			for _, b := range ob {
				if b {
					ones++
				}
			}
			if ones > 0 && (ones < len(ob) || len(ob) == 1) {
				break
			}
			for k := range x {
				x[k] = r.Bool() || shortReads
			}
			for k := range y {
				y[k] = r.Bool()
			}
		}
		xy := append(append([]bool(nil), x...), y...)
		want := JoinBig(circ, TruthEval(circ, xy))
		sessSeed := r.U64()
		// long-lived objects: ONE env.Config (and entropy reader) and, for the OT implementations
		// that can be initialised again (CO, RSA), one OT object per party for all the sessions
		// of this child; their randomness is re-seeded per session so that the sessions of the
		// fault list share the honest transcript up to the fault
		llCfg := &env.Config{}
		llG, llE := &c16Reseed{}, &c16Reseed{}
		var llOtG, llOtE ot.OT
		if sp.longLived {
			llOtG, llOtE = kind.mk2(llG), kind.mk2(llE)
		}
		session := func(seed uint64, yv []bool, f *fault) (*sessionResult, *blockLog) {
			sr := NewRNG(seed)
			grand := &blockLog{r: sr.Fork(), skipKey: true}
			if shortReads {
				grand.maxRead = 32
			}
			o := c16SessOpts{circ: circ, gIn: bitsToBig(x), eIn: bitsToBig(yv), frag: sp.frag, f: f, timeout: 5 * time.Second, verbose: sp.verbose}
			if sp.longLived {
				llCfg.Rand = grand
				llG.r, llE.r = sr.Fork(), sr.Fork()
				o.cfg, o.otG, o.otE = llCfg, llOtG, llOtE
			} else {
				o.cfg, o.otG, o.otE = &env.Config{Rand: grand}, kind.mk(sr.Fork()), kind.mk(sr.Fork())
			}
			o.rng = sr.Fork()
			return c16Session(o), grand
		}
		run := func(f *fault) (*sessionResult, *blockLog) { return session(sessSeed, y, f) }
		// probe: a clean session with the complemented evaluator input (see below)
		yAlt := make([]bool, n1)
		for k := range y {
			yAlt[k] = !y[k]
		}
		wantAlt := JoinBig(circ, TruthEval(circ, append(append([]bool(nil), x...), yAlt...)))
		probes, maxProbes := 0, c.N(25, 400)
		if sp.longLived {
			maxProbes = c.N(60, 800)
		}
		probe := func() string {
			res, _ := session(sessSeed^0x5bd1e995, yAlt, nil)
			if res.gErr == nil && res.gRes != nil && bigsString(res.gRes) != bigsString(wantAlt) {
				return bigsString(res.gRes)
			}
			if res.gErr != nil || res.stalled {
				// a clean session after an aborted one should also SUCCEED (not part of C16's
				// claim — an error is never a wrong result: made visible in the histogram only)
				return "!"
			}
			return ""
		}
		base, _ := run(nil)
		if base.gErr != nil || base.eErr != nil || base.stalled || bigsString(base.gRes) != bigsString(want) {
			fmt.Fprintf(w, "BASEFAIL %s\n", circuitText(circ))
			return nil
		}
		lg, le := len(base.g2e), len(base.e2g)
		// fault list: every byte position of both directions (sampled to the budget)
		var faults []fault
		for off := 0; off < lg; off++ {
			faults = append(faults, fault{dir: "g2e", off: off, kind: "flip", mask: 1 << uint(off%8)})
		}
		for off := 0; off < le; off++ {
			faults = append(faults, fault{dir: "e2g", off: off, kind: "flip", mask: 1 << uint(off%8)})
		}
		for off := 0; off < lg; off += 3 {
			faults = append(faults, fault{dir: "g2e", off: off, kind: "replace", mask: 0xff})
		}
		for off := 0; off < le; off += 3 {
			faults = append(faults, fault{dir: "e2g", off: off, kind: "replace", mask: 0xff})
		}
		for off := 0; off+8 <= lg; off += 7 {
			faults = append(faults, fault{dir: "g2e", off: off, kind: "burst", mask: 0})
		}
		for off := 0; off+8 <= le; off += 7 {
			faults = append(faults, fault{dir: "e2g", off: off, kind: "burst", mask: 0})
		}
		for off := 0; off < lg; off += 11 {
			faults = append(faults, fault{dir: "g2e", off: off, kind: "trunc", mask: 0})
		}
		for off := 0; off < le; off += 11 {
			faults = append(faults, fault{dir: "e2g", off: off, kind: "trunc", mask: 0})
		}
		// multi-label faults whose masks could cancel in a combined check: the same mask
		// on the same byte of two labels, and constant bursts covering 2 or 4 labels —
		// on the returned output labels (e2g tail) and on the garbler's input labels (g2e)
		tail0 := le - 16*no
		inOff := 4 + 32 + 4
		for _, g := range circ.Gates {
			switch g.Op {
			case circuit.AND:
				inOff += 4 + 32
			case circuit.OR:
				inOff += 4 + 48
			case circuit.INV:
				inOff += 4 + 16
			default:
				inOff += 4
			}
		}
		regions := []struct {
			dir    string
			base   int
			labels int
		}{{"e2g", tail0, no}, {"g2e", inOff, n0}}
		for _, rg := range regions {
			for i := 0; i < rg.labels; i++ {
				for j := i + 1; j < rg.labels; j++ {
					for _, k := range []int{0, 7, 15} {
						for _, m := range []byte{0x80, 0x01, 0xff} {
							faults = append(faults, fault{dir: rg.dir, off: rg.base + 16*i + k, off2: rg.base + 16*j + k, kind: "pair", mask: m, must: true})
						}
					}
				}
			}
			for _, cnt := range []int{32, 64} {
				for off := rg.base - 8; off+cnt <= rg.base+16*rg.labels+8; off += 5 {
					if off < 0 {
						continue
					}
					for _, m := range []byte{0xff, 0x80} {
						faults = append(faults, fault{dir: rg.dir, off: off, kind: "burstff", mask: m, count: cnt, must: true})
					}
				}
			}
		}
		// constant-pattern labels (all-zero, all-ones, 0x80 00.. is covered by flips) and one
		// label copied over another: on every returned output label and every garbler input label
		for _, rg := range regions {
			for i := 0; i < rg.labels; i++ {
				for _, v := range []byte{0x00, 0xff, 0x01} {
					faults = append(faults, fault{dir: rg.dir, off: rg.base + 16*i, kind: "set16", mask: v, must: true})
				}
				for j := 0; j < i; j++ {
					faults = append(faults, fault{dir: rg.dir, off: rg.base + 16*i, off2: rg.base + 16*j, kind: "dup16", must: true})
				}
			}
		}
		if sp.editsOnly {
			// a thin sample of the standing catalogue (every kind stays represented)
			var thin []fault
			for k, f := range faults {
				f.must = false
				if k%((len(faults)+per-1)/per) == 0 {
					f.must = true
				}
				thin = append(thin, f)
			}
			faults = thin
		}
		// stream edits and replays (c16doors.go); the earlier session: same parties and circuit,
		// the complemented evaluator input, other randomness
		earlier, _ := session(sessSeed^0x2545f491, yAlt, nil)
		edits := c16EditFaults(circ, base.g2e, base.e2g, earlier, inOff, tail0, c.N(2, 40))
		if !sp.editsOnly && !c.Thorough() {
			// quick tier, standing children: each takes another third of the list
			var kept []fault
			for k, f := range edits {
				if k%3 == sp.part%3 {
					kept = append(kept, f)
				}
			}
			edits = kept
		}
		for k := range edits {
			edits[k].must = true
		}
		faults = append(faults, edits...)
		// always include all positions of the returned output labels and of the result message
		step := 1
		if len(faults) > per {
			step = (len(faults) + per - 1) / per
		}
		tail := le - 16*no
		dims, gs := CircuitSX(circ)
		for fi, f := range faults {
			inTail := f.dir == "e2g" && f.off >= tail-8 && !sp.editsOnly
			if fi%step != 0 && !inTail && !f.must {
				continue
			}
			if fi < startAt {
				continue
			}
			fmt.Fprintf(w, "BEGIN %d %s:%d:%s\n", fi, f.dir, f.off, f.kind)
			w.Flush()
			rec := c16Rec{Fi: fi, Dir: f.dir, Kind: f.kind, Off: f.off, Circuit: circuitText(circ)}
			emit := func() {
				b, _ := json.Marshal(rec)
				fmt.Fprintf(w, "END %s\n", b)
				w.Flush()
			}
			res, grand := run(&f)
			if (res.eErr != nil || res.stalled) && probes < maxProbes && fi%2 == 0 {
				// the session before this one was aborted on the evaluator's side: a CLEAN session
				// on the same *Circuit value with another evaluator input must be unaffected by it
				probes++
				bad := probe()
				if bad == "!" {
					c16Emit(w, &c16Rec{Fi: fi, Dir: f.dir, Kind: "clean-session-after-aborted-one:did-not-succeed", Off: f.off, Circuit: circuitText(circ), Outcome: "error"})
					bad = ""
				}
				if bad != "" {
					rec2 := c16Rec{Fi: fi, Dir: f.dir, Kind: "clean-session-after-aborted-one", Off: f.off, Circuit: circuitText(circ), Outcome: "result"}
					rec2.Wrong = &c16Replay{Seed: c.Seed, Circuit: circuitText(circ), OT: kind.name, X: bitsString(x), Y: bitsString(yAlt),
						Dir: f.dir, Offset: f.off, Kind: "clean session (evaluator input " + bitsString(yAlt) + ") on the same *Circuit right after a session with evaluator input " + bitsString(y) + " that was aborted by fault " + f.kind,
						Mask: int(f.mask), Got: bad, Want: bigsString(wantAlt), CircSeed: cseed}
					b, _ := json.Marshal(rec2)
					fmt.Fprintf(w, "END %s\n", b)
					w.Flush()
				}
			}
			outcome := "error"
			switch {
			case res.gErr == nil && res.gRes != nil:
				outcome = "result"
			case res.stalled && res.gErr == nil:
				outcome = "stalled"
			}
			rec.Outcome = outcome
			wrong := outcome == "result" && bigsString(res.gRes) != bigsString(want)
			if wrong {
				rec.Wrong = &c16Replay{Seed: c.Seed, Circuit: circuitText(circ), OT: kind.name, X: bitsString(x), Y: bitsString(y),
					Dir: f.dir, Offset: f.off, Kind: f.kind, Mask: int(f.mask), Got: bigsString(res.gRes), Want: bigsString(want), CircSeed: cseed}
			}
			// correspondence: only when the garbler reached its decode loop with an
			// intact e2g prefix (fault in g2e, or in the returned-labels tail of e2g)
			e2gPrefixIntact := f.dir == "g2e" || (f.off >= tail && f.kind != "trunc")
			if f.kind == "burstff" && f.dir == "e2g" && f.off < tail {
				e2gPrefixIntact = false
			}
			dl := res.e2gDelivered
			// alignment: the returned labels are located by the HONEST transcript's length.  The
			// evaluator's stream has variable-length fields (big integers of the OT without leading
			// zero bytes; RSA key generation is not even repeatable for one seed), so a corrupted
			// g2e stream, or another session of an RSA child, can make it a byte longer or shorter:
			// then the labels are not where the model input would take them from — oracle only
			aligned := len(res.e2g) == le && (f.dir == "e2g" || len(dl) == le)
			if !e2gPrefixIntact || res.stalled || len(dl) < le || len(res.g2eDelivered) < 36 || !aligned {
				emit()
				continue
			}
			returned := make([]ot.Label, no)
			for k := 0; k < no; k++ {
				returned[k].SetBytes(dl[tail+16*k : tail+16*k+16])
			}
			var obs SX
			if outcome == "result" {
				obs = L(I(0), bigsSX(res.gRes))
			} else {
				obs = L(I(-1))
			}
			// the garbler's own key and wires do not depend on the corruption
			key := base.g2e[4:36]
			// the raw tail bytes as delivered and a read fragmentation for the Conn model (the
			// model's result must not depend on it: C11)
			fragSX := []SX{}
			for k := 0; k < fi%4; k++ {
				fragSX = append(fragSX, I(1+(fi*7+k*5)%23))
			}
			in := L(Bytes(key), dims, gs, L(I(n0), I(n1)), Ints(outSizes(circ)), Labels(grand.blocks), Bits(x), Bits(y), Labels(returned), Bytes(dl[tail:]), L(fragSX...))
			rec.In = in.String()
			rec.Obs = obs.String()
			emit()
		}
	}
	return nil
}

// ---- streaming session behind the corrupting transport (oracle only): the
// streaming garbler's result loop is the same per-label decode.
const c16StreamProgram = "package main\nfunc main(a, b uint8) (uint8, bool) {\n\ts := a + b\n\treturn s ^ (a & b), s < a\n}\n"

var dumpHdr bool

// c16Half: which half (by running index) of the handshake sweeps / wide-input faults this child runs.
var c16Half = 0

func c16RunStream(seed uint64, av, bv int, f *fault) (gRes []*big.Int, gErr error, stalled bool, lg, le int) {
	return c16RunStreamProg(seed, c16StreamProgram, []string{fmt.Sprint(av)}, []string{fmt.Sprint(bv)}, f)
}

// c16LastG2E: the garbler->evaluator byte stream (as written) of the last c16RunStreamProg call.
var c16LastG2E []byte

func c16RunStreamProg(seed uint64, src string, gIn, eIn []string, f *fault) (gRes []*big.Int, gErr error, stalled bool, lg, le int) {
	return c16RunStreamOpt(seed, src, gIn, eIn, f, nil)
}

func c16StreamChild(c *Ctx, w *bufio.Writer, startAt int, part int) error {
	r := c.rng.Fork()
	av, bv := r.Intn(256), r.Intn(256)
	seed := r.U64()
	s := (av + bv) & 0xff
	want := []*big.Int{big.NewInt(int64(s ^ (av & bv))), big.NewInt(0)}
	if s < av {
		want[1] = big.NewInt(1)
	}
	res, err, stalled, lg, le := c16RunStream(seed, av, bv, nil)
	if err != nil || stalled || bigsString(res) != bigsString(want) {
		fmt.Fprintf(w, "BASEFAIL streaming baseline: %v %v %s want %s\n", err, stalled, bigsString(res), bigsString(want))
		return nil
	}
	no := 9
	tail := le - 16*no
	var faults []fault
	stepG := lg/c.N(120, 3000) + 1
	for off := 0; off < lg; off += stepG {
		faults = append(faults, fault{dir: "g2e", off: off, kind: "flip", mask: 1 << uint(off%8)})
	}
	stepE := (le-16*no)/c.N(40, 1000) + 1
	for off := 0; off < tail-4; off += stepE {
		faults = append(faults, fault{dir: "e2g", off: off, kind: "flip", mask: 1 << uint(off%8)})
	}
	for off := tail - 4; off < le; off++ {
		if off >= 0 {
			faults = append(faults, fault{dir: "e2g", off: off, kind: "flip", mask: 1 << uint(off%8)})
		}
	}
	for i := 0; i < no; i++ {
		for j := i + 1; j < no; j++ {
			for _, m := range []byte{0x80, 0xff} {
				faults = append(faults, fault{dir: "e2g", off: tail + 16*i, off2: tail + 16*j, kind: "pair", mask: m})
			}
		}
	}
	for _, cnt := range []int{32, 64} {
		for off := tail; off+cnt <= le; off += 16 {
			faults = append(faults, fault{dir: "e2g", off: off, kind: "burstff", mask: 0xff, count: cnt})
		}
	}
	// dense sweep of the END of the garbler's stream: the gate records of the last streamed
	// circuit (op byte, wire numbers, rows) and the return message (result wire numbers): low
	// bits of every byte — a corrupted wire NUMBER makes the evaluator use / return the label
	// of a neighbouring wire, which the garbler must not accept as a value of its result wire
	tailG := c.N(160, 600)
	for off := lg - tailG; off < lg; off++ {
		if off < 0 {
			continue
		}
		for _, m := range []byte{0x01, 0x02, 0x04} {
			faults = append(faults, fault{dir: "g2e", off: off, kind: "flip", mask: m})
		}
	}
	for i := 0; i < no; i++ {
		for _, v := range []byte{0x00, 0xff} {
			faults = append(faults, fault{dir: "e2g", off: tail + 16*i, kind: "set16", mask: v})
		}
		if i > 0 {
			faults = append(faults, fault{dir: "e2g", off: tail + 16*i, off2: tail + 16*(i-1), kind: "dup16"})
		}
	}
	for fi, f := range faults {
		if fi < startAt || part != 0 {
			continue
		}
		f := f
		fmt.Fprintf(w, "BEGIN %d stream:%s:%d:%s\n", fi, f.dir, f.off, f.kind)
		w.Flush()
		rec := c16Rec{Fi: fi, Dir: "stream-" + f.dir, Kind: f.kind, Off: f.off, Circuit: "streaming: " + c16StreamProgram}
		gres, gerr, st, _, _ := c16RunStream(seed, av, bv, &f)
		switch {
		case gerr == nil && gres != nil && !st:
			rec.Outcome = "result"
			if bigsString(gres) != bigsString(want) {
				rec.Wrong = &c16Replay{Seed: c.Seed, Circuit: "streaming: " + c16StreamProgram, OT: "co", X: fmt.Sprint(av), Y: fmt.Sprint(bv),
					Dir: f.dir, Offset: f.off, Kind: f.kind, Mask: int(f.mask), Got: bigsString(gres), Want: bigsString(want)}
			}
		case st && gerr == nil:
			rec.Outcome = "stalled"
		default:
			rec.Outcome = "error"
		}
		b, _ := json.Marshal(rec)
		fmt.Fprintf(w, "END %s\n", b)
		w.Flush()
	}
	// Directed: corrupt the program-info handshake (garbler -> evaluator: the transmitted
	// argument names, type strings and sizes) densely, for programs whose evaluator
	// argument is a scalar (two widths), a struct and an array.  The evaluator learns its
	// argument's type from this handshake and packs its input accordingly.
	structSrc := "package main\ntype In struct {\n\tx uint8\n\ty uint8\n}\nfunc main(a uint8, b In) uint16 {\n\treturn uint16(a) + uint16(b.x) * 3 + uint16(b.y) * 7\n}\n"
	arraySrc := "package main\nfunc main(a uint8, b [4]uint8) uint16 {\n\treturn uint16(a) + uint16(b[0]) + uint16(b[1]) * 3 + uint16(b[2]) * 5 + uint16(b[3]) * 7\n}\n"
	wideSrc := "package main\nfunc main(a, b uint32) uint32 {\n\treturn a + b\n}\n"
	wideOutSrc := "package main\nfunc main(a, b uint64) (uint128, bool, uint70) {\n\treturn uint128(a)<<64 | uint128(b), a > b, uint70(a) + uint70(b)\n}\n"
	wa, _ := new(big.Int).SetString("18446744073709551615", 10)
	wb, _ := new(big.Int).SetString("18446744073709551601", 10)
	wideOutWant := []*big.Int{new(big.Int).Or(new(big.Int).Lsh(wa, 64), wb), big.NewInt(1), new(big.Int).Add(wa, wb)}
	bits4 := []byte{0x01, 0x02, 0x04, 0x08}
	bits8 := []byte{0x01, 0x02, 0x04, 0x08, 0x10, 0x20, 0x40, 0x80}
	// quick tier: the evaluator argument's descriptor (offsets 56..92 in these programs: name,
	// type string, size, member count) with the masks that turn a width digit into a smaller
	// digit or change a count/size byte; thorough: the whole handshake, every bit
	scalarMasks, arrayMasks := []byte{0x01, 0x02, 0x08}, []byte{0x01, 0x04}
	lo, hi := 56, 92
	if c.Thorough() {
		scalarMasks, arrayMasks = bits8, bits8
		lo, hi = 36, 150
	}
	_ = bits4
	sweeps := []struct {
		dir    string
		src    string
		gIn    []string
		eIn    []string
		kind   string // "flip" (xor mask) or "replace" (set byte to mask)
		masks  []byte
		lo, hi int
		want   []*big.Int // expected honest result (nil: taken from the honest run)
	}{
		{"stream-struct-g2e", structSrc, []string{"1"}, []string{"200", "100"}, "replace", []byte{0x04, 0xff}, 36, 140, []*big.Int{big.NewInt(1 + 600 + 700)}},
		// outputs wider than a machine word that are not the last output: what the garbler RETURNS
		// after all labels passed its check goes through IO.Split
		{"stream-wide-outputs-g2e", wideOutSrc, []string{"18446744073709551615"}, []string{"18446744073709551601"}, "flip", []byte{0x01}, lo, lo + 6, wideOutWant},
		{"stream-scalar8-g2e", c16StreamProgram, []string{"77"}, []string{"218"}, "flip", scalarMasks, lo, hi, nil},
		{"stream-scalar32-g2e", wideSrc, []string{"305419896"}, []string{"4275878552"}, "flip", scalarMasks, lo, hi, nil},
		{"stream-array-g2e", arraySrc, []string{"1"}, []string{"0xc8641e0a"}, "flip", arrayMasks, lo, hi, nil},
	}
	fi := len(faults)
	for _, sw := range sweeps {
		if part != 1 {
			break
		}
		swant, serr, sst, slg, _ := c16RunStreamProg(seed, sw.src, sw.gIn, sw.eIn, nil)
		if serr != nil || sst || len(swant) == 0 {
			fmt.Fprintf(w, "BASEFAIL %s baseline: %v %v %s\n", sw.dir, serr, sst, bigsString(swant))
			return nil
		}
		if sw.want != nil && bigsString(swant) != bigsString(sw.want) {
			fmt.Fprintf(w, "BASEFAIL %s baseline: wrong value %s\n", sw.dir, bigsString(swant))
			return nil
		}
		for off := sw.lo; off < sw.hi && off < slg; off++ {
			for _, m := range sw.masks {
				fi++
				if fi < startAt || fi%2 != c16Half {
					continue
				}
				f := fault{dir: "g2e", off: off, kind: sw.kind, mask: m}
				fmt.Fprintf(w, "BEGIN %d %s:%d:%02x\n", fi, sw.dir, off, m)
				w.Flush()
				rec := c16Rec{Fi: fi, Dir: sw.dir, Kind: "handshake", Off: off, Circuit: "streaming: " + sw.src}
				gres, gerr, st, _, _ := c16RunStreamProg(seed, sw.src, sw.gIn, sw.eIn, &f)
				switch {
				case gerr == nil && gres != nil && !st:
					rec.Outcome = "result"
					if bigsString(gres) != bigsString(swant) {
						rec.Wrong = &c16Replay{Seed: c.Seed, Circuit: "streaming: " + sw.src, OT: "co", X: strings.Join(sw.gIn, ","), Y: strings.Join(sw.eIn, ","),
							Dir: "g2e", Offset: off, Kind: "handshake-argument-type:" + sw.kind, Mask: int(m), Got: bigsString(gres), Want: bigsString(swant)}
					}
				case st && gerr == nil:
					rec.Outcome = "stalled"
				default:
					rec.Outcome = "error"
				}
				b, _ := json.Marshal(rec)
				fmt.Fprintf(w, "END %s\n", b)
				w.Flush()
			}
		}
	}
	if part == 2 {
		if err := c16WideInputs(c, w, startAt, seed); err != nil {
			return err
		}
	}
	fmt.Fprintln(w, "DONE")
	return nil
}

// c16WideInputs: a streamed program with more than 256 input wires; faults that turn a
// transmitted 16-bit big-endian quantity (wire numbers in gate records and in the return
// message, counts) into its successor / predecessor, carries included (0x00ff <-> 0x0100): the
// evaluator then uses or returns the label of the NEIGHBOURING wire, which the garbler may
// accept only if it is a label of the wire it expected AND encodes that wire's value.
func c16WideInputs(c *Ctx, w *bufio.Writer, startAt int, seed uint64) error {
	src := "package main\nfunc main(a, b uint256) uint256 {\n\treturn a ^ b\n}\n"
	one := big.NewInt(1)
	av := new(big.Int).Lsh(one, 255)                                  // wire 255 = 1
	av.Or(av, big.NewInt(0x5a5a))                                     //
	bv := new(big.Int).Sub(new(big.Int).Lsh(one, 200), big.NewInt(2)) // wire 256 = 0, 257.. = 1
	want := []*big.Int{new(big.Int).Xor(av, bv)}
	gIn, eIn := []string{av.String()}, []string{bv.String()}
	res, err, st, lg, _ := c16RunStreamProg(seed, src, gIn, eIn, nil)
	if err != nil || st || bigsString(res) != bigsString(want) {
		fmt.Fprintf(w, "BASEFAIL stream-wide-inputs baseline: %v %v %s want %s\n", err, st, bigsString(res), bigsString(want))
		return nil
	}
	base := append([]byte(nil), c16LastG2E...)
	if len(base) != lg {
		fmt.Fprintf(w, "BASEFAIL stream-wide-inputs baseline: log length %d vs %d\n", len(base), lg)
		return nil
	}
	type wf struct {
		off   int
		delta int
	}
	var wfs []wf
	// quick: the last 3600 bytes of the stream (the streamed gate records and the return
	// message): every 16-bit value within 2 of a power of two >= 64 (where a carry happens)
	// and every 16th other offset; thorough: the whole stream, every offset
	step, from := 16, len(base)-3600
	if c.Thorough() {
		step, from = 1, 0
	}
	if from < 0 {
		from = 0
	}
	for off := from; off+1 < len(base); off++ {
		v := int(base[off])<<8 | int(base[off+1])
		boundary := false
		for k := 6; k < 16; k++ {
			if v >= 1<<uint(k)-2 && v <= 1<<uint(k)+1 {
				boundary = true
			}
		}
		if boundary || off%step == 0 {
			wfs = append(wfs, wf{off, 1}, wf{off, -1})
		}
	}
	fi := 1 << 20
	for _, x := range wfs {
		fi++
		if fi < startAt || (fi/2)%2 != c16Half {
			continue
		}
		v := (int(base[x.off])<<8 | int(base[x.off+1])) + x.delta
		f := fault{dir: "g2e", off: x.off, kind: "setbytes", setv: map[int]byte{x.off: byte(v >> 8), x.off + 1: byte(v)}}
		fmt.Fprintf(w, "BEGIN %d stream-wide-inputs-g2e:%d:%+d\n", fi, x.off, x.delta)
		w.Flush()
		rec := c16Rec{Fi: fi, Dir: "stream-wide-inputs-g2e", Kind: "word16-successor", Off: x.off, Circuit: "streaming: " + src}
		gres, gerr, st, _, _ := c16RunStreamProg(seed, src, gIn, eIn, &f)
		switch {
		case gerr == nil && gres != nil && !st:
			rec.Outcome = "result"
			if bigsString(gres) != bigsString(want) {
				rec.Wrong = &c16Replay{Seed: c.Seed, Circuit: "streaming: " + src, OT: "co", X: gIn[0], Y: eIn[0],
					Dir: "g2e", Offset: x.off, Kind: fmt.Sprintf("16-bit big-endian word at offset %d replaced by its value %+d (%#04x -> %#04x)", x.off, x.delta, v-x.delta, v&0xffff),
					Mask: x.delta, Got: bigsString(gres), Want: bigsString(want)}
			}
		case st && gerr == nil:
			rec.Outcome = "stalled"
		default:
			rec.Outcome = "error"
		}
		b, _ := json.Marshal(rec)
		fmt.Fprintf(w, "END %s\n", b)
		w.Flush()
	}
	return nil
}
