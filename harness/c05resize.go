package main

// Directed program family: ONE constant bit pattern (top defined bit set:
// -1 / 0xffffffff, -3 / 4294967293, -65536 / 0xffff0000) is used at one width
// > 32 (40, 64, 100) once as a signed operand (sign-extended) and once as an
// unsigned operand (zero-extended) — assignments in if/else branches, struct
// fields, array elements — in both orders; plus casts of one negative
// int8/int16/int32 variable to intN and uintN.  The programs with constants
// come with reference values computed here on big.Int (independent of the
// compiler): streamed, whole-circuit and reference results must all agree.

import (
	"fmt"
	"math/big"
)

type c05ResizeCfg struct {
	w           int    // width > 32
	k           int64  // the signed literal is -k, the unsigned one 2^32-k
	shape       string // branch | struct | array | cast
	signedFirst bool
	srcBits     int // cast: width of the source variable
}

func c05Mod(v *big.Int, w int) *big.Int {
	m := new(big.Int).Lsh(big.NewInt(1), uint(w))
	r := new(big.Int).Mod(v, m)
	return r
}

// c05ResizeProg returns the program, its inputs and (for constant shapes) the
// reference results.
func c05ResizeProg(r *RNG, cfg c05ResizeCfg) c05Prog {
	w := cfg.w
	neg := fmt.Sprintf("-%d", cfg.k)
	pos := fmt.Sprintf("%d", (int64(1)<<32)-cfg.k)
	it, ut := fmt.Sprintf("int%d", w), fmt.Sprintf("uint%d", w)
	ord := func(s, u string) string {
		if cfg.signedFirst {
			return s + u
		}
		return u + s
	}
	// inputs: a > b > 0, both above 2^32 so that the high bits matter
	bv := new(big.Int).SetUint64(r.U64()>>uint(64-min(w-2, 62)) | 1<<33)
	av := new(big.Int).Add(bv, big.NewInt(int64(1+r.Intn(1000))))
	p := c05Prog{g: []string{"0x" + av.Text(16)}, e: []string{"0x" + bv.Text(16)},
		feat: map[string]int{"sign-resize:" + cfg.shape: 1}, nstmts: 4}
	negV := big.NewInt(-cfg.k)
	posV := big.NewInt((int64(1) << 32) - cfg.k)
	want := func() []*big.Int {
		return []*big.Int{c05Mod(new(big.Int).Add(av, negV), w), new(big.Int).And(c05Mod(bv, w), posV)}
	}
	switch cfg.shape {
	case "branch":
		p.src = fmt.Sprintf("package main\n\nfunc main(a, b %s) (%s, %s) {\n\tvar step %s\n\tvar mask %s\n\tif a > b {\n%s\t} else {\n\t\tstep = 1\n\t\tmask = 0xffff\n\t}\n\treturn a + step, %s(b) & mask\n}\n",
			it, it, ut, it, ut, ord("\t\tstep = "+neg+"\n", "\t\tmask = "+pos+"\n"), ut)
		p.want = want()
	case "struct":
		p.src = fmt.Sprintf("package main\n\ntype P struct {\n\tI %s\n\tU %s\n}\n\nfunc main(a, b %s) (%s, %s) {\n\tvar s P\n%s\treturn a + s.I, %s(b) & s.U\n}\n",
			it, ut, it, it, ut, ord("\ts.I = "+neg+"\n", "\ts.U = "+pos+"\n"), ut)
		// no reference values: a negative constant stored into a wider struct field /
		// array element is zero-extended by the compiler in BOTH modes (constant
		// typing, properties C12/C03) — here only streamed == whole circuit is required
	case "array":
		p.src = fmt.Sprintf("package main\n\nfunc main(a, b %s) (%s, %s) {\n\tvar xs [2]%s\n\tvar us [2]%s\n%s\treturn a + xs[1], %s(b) & us[0]\n}\n",
			it, it, ut, it, ut, ord("\txs[1] = "+neg+"\n", "\tus[0] = "+pos+"\n"), ut)
	default: // cast: one negative narrow variable widened as intW and as uintW
		st := fmt.Sprintf("int%d", cfg.srcBits)
		p.src = fmt.Sprintf("package main\n\nfunc main(a %s, b %s) (%s, %s, %s) {\n%s\treturn x, y, x + %s(b)\n}\n",
			st, st, it, ut, it, ord("\tx := "+it+"(a)\n", "\ty := "+ut+"(a)\n"), it)
		p.g = []string{fmt.Sprintf("-%d", 1+r.Intn(100))}
		p.e = []string{fmt.Sprintf("-%d", 1+r.Intn(100))}
	}
	return p
}

func c05ResizePrograms(c *Ctx) []c05Prog {
	r := c.rng.Fork()
	widths := []int{64, 40, 100}
	ks := []int64{1, 3, 65536}
	shapes := []string{"branch", "struct", "array", "cast"}
	n := c.N(8, 48)
	var progs []c05Prog
	for i := 0; i < n; i++ {
		cfg := c05ResizeCfg{w: widths[(i/4+r.Intn(2))%len(widths)], k: ks[r.Intn(len(ks))], shape: shapes[i%len(shapes)],
			signedFirst: (i/len(shapes))%2 == 0, srcBits: []int{8, 16, 32}[r.Intn(3)]}
		if i < 2 {
			cfg.w = 64
		}
		progs = append(progs, c05ResizeProg(r, cfg))
	}
	return progs
}
