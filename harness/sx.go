package main

import (
	"math/big"
	"strconv"
	"strings"

	"github.com/markkurossi/mpc/ot"
)

// SX is the s-expression value exchanged with the Coq/OCaml model:
// an integer atom (hex) or a list.
type SX struct {
	atom  *big.Int
	small int64
	isBig bool
	list  []SX
	isL   bool
}

func I(v int) SX            { return SX{small: int64(v)} }
func I64(v int64) SX        { return SX{small: v} }
func U64(v uint64) SX       { return SX{atom: new(big.Int).SetUint64(v), isBig: true} }
func Big(v *big.Int) SX     { return SX{atom: new(big.Int).Set(v), isBig: true} }
func L(items ...SX) SX      { return SX{list: items, isL: true} }
func Bool(b bool) SX {
	if b {
		return I(1)
	}
	return I(0)
}
func Bytes(b []byte) SX {
	l := make([]SX, len(b))
	for i, v := range b {
		l[i] = I(int(v))
	}
	return L(l...)
}
func Bits(b []bool) SX {
	l := make([]SX, len(b))
	for i, v := range b {
		l[i] = Bool(v)
	}
	return L(l...)
}
func Ints(v []int) SX {
	l := make([]SX, len(v))
	for i, x := range v {
		l[i] = I(x)
	}
	return L(l...)
}

// Label is the 128-bit label as one integer (D0 high).
func Label(l ot.Label) SX {
	v := new(big.Int).SetUint64(l.D0)
	v.Lsh(v, 64)
	v.Or(v, new(big.Int).SetUint64(l.D1))
	return SX{atom: v, isBig: true}
}
func Labels(ls []ot.Label) SX {
	l := make([]SX, len(ls))
	for i, v := range ls {
		l[i] = Label(v)
	}
	return L(l...)
}

func (s SX) write(sb *strings.Builder) {
	if s.isL {
		sb.WriteByte('(')
		for i, it := range s.list {
			if i > 0 {
				sb.WriteByte(' ')
			}
			it.write(sb)
		}
		sb.WriteByte(')')
		return
	}
	if s.isBig {
		sb.WriteString(s.atom.Text(16))
		return
	}
	sb.WriteString(strconv.FormatInt(s.small, 16))
}

func (s SX) String() string {
	var sb strings.Builder
	s.write(&sb)
	return sb.String()
}
