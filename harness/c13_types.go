package main

// Property C13, the TEXT form of argument types: types.Parse (op 13) and
// types.Info.String (op 14) as correspondence cases of the C13 model
// (IO/IOTypes.v, which runs the models of IO/Marshal.v), and the oracle
// "the text of a type denotes the type": types.Parse(t.String()) is t again
// (a slice without its length), for every kind — bool, intN / uintN, stringN,
// arrays and slices of those, arrays of arrays — in the long and the short
// spelling, and IOArg.Parse / mpc.Result on the re-parsed type behave as on
// the original.

import (
	"fmt"
	"math/big"
	"strings"

	"github.com/markkurossi/mpc/circuit"
	"github.com/markkurossi/mpc/types"
)

type c13TypeReplay struct {
	Text   string `json:"text"`
	Type   string `json:"type,omitempty"`
	Got    string `json:"got"`
	Want   string `json:"want"`
	Detail string `json:"detail,omitempty"`
}

// short spelling of a shape's type ("i13", "[4]u8", "[]b", "s16")
func c13ShortText(s *c13Shape) string {
	switch s.kind {
	case c13Bool:
		return "b"
	case c13Int:
		return fmt.Sprintf("i%d", s.bits)
	case c13Uint:
		return fmt.Sprintf("u%d", s.bits)
	case c13String:
		return fmt.Sprintf("s%d", s.bits)
	case c13Array:
		return fmt.Sprintf("[%d]%s", s.n, c13ShortText(s.elem))
	case c13Slice:
		return "[]" + c13ShortText(s.elem)
	}
	return "struct"
}

// the shape types.Parse must give back: slices lose their length
func c13Reparsed(s *c13Shape) *c13Shape {
	switch s.kind {
	case c13Array:
		return &c13Shape{kind: c13Array, n: s.n, elem: c13Reparsed(s.elem)}
	case c13Slice:
		return &c13Shape{kind: c13Slice, n: 0, elem: c13Reparsed(s.elem)}
	}
	return s
}

func c13InfoProj(t *types.Info) string { return c13InfoSX(t).String() }

func c13TypesParse(text string) (info types.Info, code int) {
	defer func() {
		if e := recover(); e != nil {
			code = 2
		}
	}()
	info, err := types.Parse(text)
	if err != nil {
		return info, 1
	}
	return info, 0
}

func (x *c13Run) typeTextCase(text string) (types.Info, int) {
	info, code := c13TypesParse(text)
	obs := c13Err(code)
	if code == 0 {
		obs = L(I(1), c13InfoSX(&info))
	}
	x.c.Case(L(I(13), c13StrSX(text)), obs)
	return info, code
}

func (x *c13Run) typeStringCase(t types.Info) string {
	s := t.String()
	x.c.Case(L(I(14), c13InfoSX(&t)), c13StrSX(s))
	return s
}

func c13GenTypeShape(r *RNG, depth int) *c13Shape {
	switch k := r.Intn(10); {
	case k < 4 || depth >= 2:
		if r.Intn(5) == 0 {
			return &c13Shape{kind: c13String, bits: 8 * r.Intn(9)}
		}
		s := c13GenScalar(r)
		if r.Intn(6) == 0 {
			s.bits = r.Intn(1000)
		}
		return s
	case k < 8:
		return &c13Shape{kind: c13Array, n: r.Intn(9), elem: c13GenTypeShape(r, depth+1)}
	default:
		return &c13Shape{kind: c13Slice, n: r.Intn(5), elem: c13GenTypeShape(r, depth+1)}
	}
}

func (x *c13Run) typeTexts(r *RNG) {
	c := x.c
	// (a) well-formed types: String, Parse of the long and of the short text
	for i := 0; i < c.N(250, 4000); i++ {
		s := c13GenTypeShape(r, 0)
		t := s.Info()
		long := x.typeStringCase(t)
		want := c13Reparsed(s).Info()
		c.Hist("type-text:" + c13KindName(s))
		for _, text := range []string{long, c13ShortText(s)} {
			got, code := x.typeTextCase(text)
			c.Eval("types.Parse|"+text, true)
			if code != 0 || c13InfoProj(&got) != c13InfoProj(&want) || got.MinBits != got.Bits {
				c.Fail("c13:types.Parse:String-roundtrip:"+c13KindName(s), "types.Parse of the text of a type is not the type",
					c13TypeReplay{Text: text, Type: s.String(), Got: fmt.Sprintf("code %d %s", code, c13InfoProj(&got)), Want: c13InfoProj(&want)})
				continue
			}
			if again := got.String(); again != long {
				c.Fail("c13:types.Parse:String-not-stable", "the text of the re-parsed type differs from the text it was parsed from",
					c13TypeReplay{Text: text, Type: s.String(), Got: again, Want: long})
			}
			// the re-parsed type behaves as the original for Parse and Result (arrays and scalars: same Info)
			if s.kind == c13Struct || s.kind == c13String || (s.kind == c13Array && (s.elem.kind == c13Array || s.elem.kind == c13Slice)) || s.kind == c13Slice {
				continue
			}
			if s.kind == c13Array && (s.elem.kind == c13String || s.elem.Bits() == 0) {
				continue
			}
			if (s.kind == c13Int || s.kind == c13Uint) && s.bits == 0 {
				continue
			}
			v, _ := c13GenVal(r, s)
			str, sp := c13Spell(r, s, v)
			if sp == "" {
				continue
			}
			z1, c1 := c13Parse(circuit.IOArg{Type: t}, []string{str})
			z2, c2 := c13Parse(circuit.IOArg{Type: got}, []string{str})
			x.c.Case(L(I(0), c13ArgSX(circuit.IOArg{Type: got}), c13StrsSX([]string{str})), c13ValueWires(z2, c2, s.Bits()))
			if c1 != c2 || (c1 == 0 && bitsString(c13Wires(z1, s.Bits())) != bitsString(c13Wires(z2, s.Bits()))) {
				c.Fail("c13:types.Parse:reparsed-type:Parse-differs", "IOArg.Parse on the type re-read from its text differs from Parse on the type",
					c13TypeReplay{Text: text, Type: s.String(), Got: fmt.Sprintf("code %d %v", c2, z2), Want: fmt.Sprintf("code %d %v", c1, z1), Detail: str})
				continue
			}
			if c1 == 0 {
				enc := c13FromBits(c13Wires(z1, s.Bits()))
				o1, r1 := c13Result(new(big.Int).Set(enc), t)
				o2, r2 := c13Result(new(big.Int).Set(enc), got)
				if r1 != r2 || (r1 == 0 && c13OutProj(o1, t).String() != c13OutProj(o2, got).String()) {
					c.Fail("c13:types.Parse:reparsed-type:Result-differs", "mpc.Result on the type re-read from its text differs from Result on the type",
						c13TypeReplay{Text: text, Type: s.String(), Got: fmt.Sprint(o2), Want: fmt.Sprint(o1)})
				}
			}
		}
	}

	// (b) Info.String of every kind: unsized templates, structs (concrete and not), pointers, the remaining kinds
	u8 := (&c13Shape{kind: c13Uint, bits: 8}).Info()
	arr := (&c13Shape{kind: c13Array, n: 3, elem: &c13Shape{kind: c13Int, bits: 16}}).Info()
	st := (&c13Shape{kind: c13Struct, fields: []*c13Shape{{kind: c13Uint, bits: 8}, {kind: c13Bool}}})
	fixed := []types.Info{
		{Type: types.TInt}, {Type: types.TUint}, {Type: types.TBool}, {Type: types.TString}, {Type: types.TFloat},
		{Type: types.TFloat, IsConcrete: true, Bits: 32}, {Type: types.TUndefined, IsConcrete: true}, {Type: types.TNil, IsConcrete: true},
		types.Undefined, types.Nil, types.Bool, types.Byte, types.Rune, types.Int32, types.Uint32, types.Uint64,
		{Type: types.TSlice, ElementType: &u8}, {Type: types.TArray, ElementType: &u8},
		{Type: types.TPtr, IsConcrete: true, Bits: 24, ElementType: &arr}, {Type: types.TPtr, ElementType: &u8},
		st.Info(), st.Unsized(), {Type: types.TStruct}, {Type: types.TStruct, IsConcrete: true, Bits: 9},
		{Type: types.Type(42), IsConcrete: true, Bits: 7}, {Type: types.Type(42)},
	}
	for _, t := range fixed {
		text := x.typeStringCase(t)
		x.typeTextCase(text)
		c.Eval("Info.String|"+text, true)
	}
	for i := 0; i < c.N(60, 1000); i++ {
		t := c13GenStruct(r, 0).Unsized()
		if r.Bool() {
			t = c13GenStruct(r, 0).Info()
		}
		x.typeStringCase(t)
	}

	// (c) fixed texts: every alias, every error branch of types.Parse
	for _, text := range []string{"b", "bool", "byte", "rune", "b1", "bool7", "i", "int", "u", "uint", "s", "string", "struct", "struct16",
		"i0", "u0", "i007", "u2147483647", "u2147483648", "i99999999999999999999", "[0]u8", "[007]b", "[2147483647]b", "[2147483648]b",
		"[]", "[3]", "[]byte", "[]rune", "[2][3]u8", "[][]b", "[2][]i4", "[3] u8", "[ 3]u8", "[-1]u8", "[+1]u8", "[1]x", "[1]float32",
		"", " ", "x", "f32", "float", "float32", "ptr", "nil", "array", "slice", "Int8", "INT", "int8 ", " int8", "int_8", "int8x", "8", "8int",
		"[", "]", "[1", "1]", "[1]]u8", "[[1]]u8", "*u8", "uint8\n", "\nuint8", "x\nuint8", "[2]u8\ny", "bool\n", "inté", "é", "[٣]u8", "u٣"} {
		x.typeTextCase(text)
		c.Eval("types.Parse-fixed|"+text, true)
	}

	// (d) random texts over the alphabet of type texts
	const alpha = "[]0123456789biusntrgcelyx *_-+\n"
	for i := 0; i < c.N(400, 8000); i++ {
		var sb strings.Builder
		switch r.Intn(3) {
		case 0:
			for k := r.Intn(9); k > 0; k-- {
				sb.WriteByte(alpha[r.Intn(len(alpha))])
			}
		default: // a well-formed text with one edit
			t := []byte(c13ShortText(c13GenTypeShape(r, 0)))
			if r.Bool() {
				s := c13GenTypeShape(r, 0)
				ti := s.Info()
				t = []byte(ti.String())
			}
			switch r.Intn(4) {
			case 0:
				if len(t) > 0 {
					t[r.Intn(len(t))] = alpha[r.Intn(len(alpha))]
				}
			case 1:
				p := r.Intn(len(t) + 1)
				t = append(t[:p], append([]byte{alpha[r.Intn(len(alpha))]}, t[p:]...)...)
			case 2:
				if len(t) > 0 {
					p := r.Intn(len(t))
					t = append(t[:p], t[p+1:]...)
				}
			}
			sb.Write(t)
		}
		text := sb.String()
		_, code := x.typeTextCase(text)
		c.Eval("types.Parse-random|"+text, true)
		c.Hist(fmt.Sprintf("type-text-random:code%d", code))
	}
}
