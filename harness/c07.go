package main

// C07 — arithmetic and logic circuit builders are exact for every width.
//
// For every generated case (builder, target, operand widths, destination
// widths, parameters) the harness
//   - calls the real exported builder of /repo/compiler/circuits through
//     circuits.NewCompiler exactly as circuits_test.go / ssa.Program.Circuit do,
//   - dumps the gate graph the builder appended to Compiler.Gates (before any
//     optimisation pass and before Compile), canonically renumbered
//     (correspondence observable: the Gallina transcription must emit the
//     identical gate list, gate for gate), and
//   - wires the destination vectors to circuit outputs the way
//     ssa.Program.Circuit's Ret does (cc.ID into fresh output wires), compiles
//     with Compiler.Compile and evaluates the compiled circuit on operands
//     (exhaustively when there are few input bits, else boundary + random
//     values) against math/big (property oracle, independent of the model).

import (
	"fmt"
	"math/big"
	"math/bits"
	"sort"
	"strings"

	"github.com/markkurossi/mpc/circuit"
	"github.com/markkurossi/mpc/compiler/circuits"
	"github.com/markkurossi/mpc/compiler/utils"
	"github.com/markkurossi/mpc/types"
)

func init() { register("c07", runC07) }

// builder codes shared with coq/theories/Builders/RunC07.v (run_builder)
const (
	bAdder = iota
	bSub
	bMult
	bArrayMult
	bKaratsuba
	bWallace
	bUDiv
	bIDiv
	bIntGt
	bUintGt
	bIntGe
	bUintGe
	bIntLt
	bUintLt
	bIntLe
	bUintLe
	bEq
	bNeq
	bLAnd
	bLOr
	bBts
	bBtc
	bMux
	bIndex
	bBand
	bBclr
	bBor
	bBxor
	bHamming
	bKSAdder
	bKSSub
	bUDivLong
	bUDivRestoring
	bUDivArray
)

var c07Names = []string{"Adder", "Subtractor", "Multiplier", "ArrayMultiplier", "KaratsubaMultiplier",
	"WallaceMultiplier", "UDivider", "IDivider", "IntGt", "UintGt", "IntGe", "UintGe", "IntLt", "UintLt",
	"IntLe", "UintLe", "Eq", "Neq", "LogicalAND", "LogicalOR", "BitSetTest", "BitClrTest", "MUX", "Index",
	"BinaryAND", "BinaryClear", "BinaryOR", "BinaryXOR", "Hamming", "KoggeStoneAdder", "KoggeStoneSubtractor",
	"UDividerLong", "UDividerRestoring", "UDividerArray"}

type c07Case struct {
	B   int   `json:"builder"`
	Tgt int   `json:"target"` // 0 Yao, 1 GMW
	Pre bool  `json:"pre"`    // ZeroWire()/OneWire() created before the builder (ssa.CompileCircuit)
	Opw []int `json:"operand_widths"`
	Dsw []int `json:"dest_widths"`
	Prm []int `json:"params"`
}

func (k c07Case) String() string {
	return fmt.Sprintf("%s tgt=%d pre=%v ops=%v dst=%v prm=%v", c07Names[k.B], k.Tgt, k.Pre, k.Opw, k.Dsw, k.Prm)
}

type c07Built struct {
	cc     *circuits.Compiler
	ops    [][]*circuits.Wire
	dst    [][]*circuits.Wire // as the builder left them
	orig   [][]*circuits.Wire // destination wires as allocated
	ngates int
	err    error
}

func c07IO(ws []int, prefix string) circuit.IO {
	var io circuit.IO
	for i, w := range ws {
		io = append(io, circuit.IOArg{Name: fmt.Sprintf("%s%d", prefix, i),
			Type: types.Info{Type: types.TUint, IsConcrete: true, Bits: types.Size(w)}})
	}
	return io
}

// c07Build runs the real builder.  A panic of the builder is returned as err.
func c07Build(k c07Case) (res *c07Built, perr error) {
	defer func() {
		if r := recover(); r != nil {
			perr = fmt.Errorf("panic: %v", r)
		}
	}()
	calloc := circuits.NewAllocator()
	params := utils.NewParams()
	if k.Tgt == 1 {
		params.Target = utils.TargetGMW
	}
	mk := func(n int) []*circuits.Wire {
		ws := make([]*circuits.Wire, n)
		for i := range ws {
			ws[i] = calloc.Wire()
		}
		return ws
	}
	res = &c07Built{}
	var inputWires []*circuits.Wire
	for _, w := range k.Opw {
		o := mk(w)
		res.ops = append(res.ops, o)
		inputWires = append(inputWires, o...)
	}
	for _, w := range k.Dsw {
		d := mk(w)
		res.dst = append(res.dst, d)
		res.orig = append(res.orig, append([]*circuits.Wire(nil), d...))
	}
	for len(res.ops) < 3 {
		res.ops = append(res.ops, nil)
	}
	for len(res.dst) < 2 {
		res.dst = append(res.dst, nil)
		res.orig = append(res.orig, nil)
	}
	cc, err := circuits.NewCompiler(params, calloc, c07IO(k.Opw, "i"), c07IO(k.Dsw, "o"), inputWires, nil)
	if err != nil {
		return nil, err
	}
	res.cc = cc
	if k.Pre {
		cc.ZeroWire()
		cc.OneWire()
	}
	x, y, c3 := res.ops[0], res.ops[1], res.ops[2]
	z, r := res.dst[0], res.dst[1]
	err = c07Call(cc, k.B, x, y, c3, z, r, k.Prm)
	res.err = err
	res.ngates = len(cc.Gates)
	return res, nil
}

// c07Call calls the exported builder with code b.
func c07Call(cc *circuits.Compiler, b int, x, y, c3, z, r []*circuits.Wire, prms []int) (err error) {
	prm := func(i int) int {
		if i < len(prms) {
			return prms[i]
		}
		return 0
	}
	switch b {
	case bAdder:
		err = circuits.NewAdder(cc, x, y, z)
	case bSub:
		err = circuits.NewSubtractor(cc, x, y, z)
	case bMult:
		err = circuits.NewMultiplier(cc, prm(0), x, y, z)
	case bArrayMult:
		err = circuits.NewArrayMultiplier(cc, x, y, z)
	case bKaratsuba:
		err = circuits.NewKaratsubaMultiplier(cc, prm(0), x, y, z)
	case bWallace:
		err = circuits.NewWallaceMultiplier(cc, x, y, z)
	case bUDiv:
		err = circuits.NewUDivider(cc, x, y, z, r)
	case bIDiv:
		err = circuits.NewIDivider(cc, x, y, z, r)
	case bIntGt:
		err = circuits.NewIntGtComparator(cc, x, y, z)
	case bUintGt:
		err = circuits.NewUintGtComparator(cc, x, y, z)
	case bIntGe:
		err = circuits.NewIntGeComparator(cc, x, y, z)
	case bUintGe:
		err = circuits.NewUintGeComparator(cc, x, y, z)
	case bIntLt:
		err = circuits.NewIntLtComparator(cc, x, y, z)
	case bUintLt:
		err = circuits.NewUintLtComparator(cc, x, y, z)
	case bIntLe:
		err = circuits.NewIntLeComparator(cc, x, y, z)
	case bUintLe:
		err = circuits.NewUintLeComparator(cc, x, y, z)
	case bEq:
		err = circuits.NewEqComparator(cc, x, y, z)
	case bNeq:
		err = circuits.NewNeqComparator(cc, x, y, z)
	case bLAnd:
		err = circuits.NewLogicalAND(cc, x, y, z)
	case bLOr:
		err = circuits.NewLogicalOR(cc, x, y, z)
	case bBts:
		err = circuits.NewBitSetTest(cc, x, types.Size(prm(0)), z)
	case bBtc:
		err = circuits.NewBitClrTest(cc, x, types.Size(prm(0)), z)
	case bMux:
		err = circuits.NewMUX(cc, x, y, c3, z)
	case bIndex:
		err = circuits.NewIndex(cc, prm(0), x, y, z)
	case bBand:
		err = circuits.NewBinaryAND(cc, x, y, z)
	case bBclr:
		err = circuits.NewBinaryClear(cc, x, y, z)
	case bBor:
		err = circuits.NewBinaryOR(cc, x, y, z)
	case bBxor:
		err = circuits.NewBinaryXOR(cc, x, y, z)
	case bHamming:
		err = circuits.Hamming(cc, x, y, z)
	case bKSAdder:
		err = circuits.NewKoggeStoneAdder(cc, x, y, z)
	case bKSSub:
		err = circuits.NewKoggeStoneSubtractor(cc, x, y, z)
	case bUDivLong:
		err = circuits.NewUDividerLong(cc, x, y, z, r)
	case bUDivRestoring:
		err = circuits.NewUDividerRestoring(cc, x, y, z, r)
	case bUDivArray:
		err = circuits.NewUDividerArray(cc, x, y, z, r)
	default:
		err = fmt.Errorf("unknown builder %d", b)
	}
	return err
}

type c07Gate struct{ op, a, b, o int }

// c07Canon renumbers the wires of the builder's gate list: inputs and
// preallocated destinations keep their allocation numbers, every other wire
// is numbered by first appearance (A, B, O of each gate in emission order).
func c07Canon(bt *c07Built) (gates []c07Gate, d1, d2 []int, wfc, dbu bool) {
	id := map[*circuits.Wire]int{}
	n := 0
	for _, o := range bt.ops {
		for _, w := range o {
			id[w] = n
			n++
		}
	}
	ni := n
	for _, d := range bt.orig {
		for _, w := range d {
			id[w] = n
			n++
		}
	}
	get := func(w *circuits.Wire) int {
		if v, ok := id[w]; ok {
			return v
		}
		id[w] = n
		n++
		return n - 1
	}
	wfc, dbu = true, true
	seen := map[int]bool{}
	defd := map[int]bool{}
	for _, g := range bt.cc.Gates[:bt.ngates] {
		var cg c07Gate
		cg.op = int(g.Op)
		cg.a = get(g.A)
		if g.Op != circuit.INV {
			cg.b = get(g.B)
		}
		cg.o = get(g.O)
		gates = append(gates, cg)
		if cg.o < ni || cg.o == cg.a || cg.o == cg.b || seen[cg.o] {
			wfc = false
		}
		seen[cg.o], seen[cg.a], seen[cg.b] = true, true, true
		if !(cg.a < ni || defd[cg.a]) || (g.Op != circuit.INV && !(cg.b < ni || defd[cg.b])) {
			dbu = false
		}
		defd[cg.o] = true
	}
	look := func(ws []*circuits.Wire) []int {
		out := make([]int, len(ws))
		for i, w := range ws {
			if v, ok := id[w]; ok {
				out[i] = v
			} else {
				out[i] = -1
			}
		}
		return out
	}
	return gates, look(bt.dst[0]), look(bt.dst[1]), wfc, dbu
}

func c07Hash(gs []c07Gate) uint64 {
	h := uint64(14695981039346656037)
	step := func(v int) { h = (h ^ uint64(v)) * 1099511628211 }
	for _, g := range gs {
		step(g.op + 8*g.a)
		step(g.b + g.o<<32)
	}
	return h
}

const c07FullLimit = 1200

// circuits up to this many gates are also evaluated by the model on a few operand tuples
const c07EvalLimit = 25000

func c07InputSX(k c07Case, full bool, tuples [][]*big.Int) SX {
	ts := make([]SX, len(tuples))
	for i, t := range tuples {
		vs := make([]SX, len(t))
		for j, v := range t {
			vs[j] = Big(v)
		}
		ts[i] = L(vs...)
	}
	return L(I(k.B), I(k.Tgt), Bool(k.Pre), Ints(k.Opw), Ints(k.Dsw), Ints(k.Prm), Bool(full), L(ts...))
}

func c07ObservedSX(gs []c07Gate, d1, d2 []int, wfc, dbu, full bool, outs [][]*big.Int) SX {
	var gl []SX
	if full {
		gl = make([]SX, len(gs))
		for i, g := range gs {
			gl[i] = L(I(g.op), I(g.a), I(g.b), I(g.o))
		}
	}
	os := make([]SX, len(outs))
	for i, o := range outs {
		v2 := big.NewInt(0)
		if len(o) > 1 {
			v2 = o[1]
		}
		os[i] = L(Big(o[0]), Big(v2))
	}
	return L(I(len(gs)), U64(c07Hash(gs)), Bool(wfc), Bool(dbu), Ints(d1), Ints(d2), L(gl...), L(os...))
}

// ---- oracle ----

// c07Compile wires the destination vectors to outputs as ssa's Ret does and
// compiles.  Panics are returned as errors.
func c07Compile(bt *c07Built) (circ *circuit.Circuit, perr error) { return c07CompilePasses(bt, 0) }

// c07CompilePasses: passes = 0: Compile only (as circuits_test.go / mpa do);
// 1: ConstPropagate, ShortCircuitXORZero, Compile; 2: additionally Prune — the
// pipeline of ssa.Program.CompileCircuit (OptPruneGates off / on).
func c07CompilePasses(bt *c07Built, passes int) (circ *circuit.Circuit, perr error) {
	defer func() {
		if r := recover(); r != nil {
			perr = fmt.Errorf("panic: %v", r)
		}
	}()
	cc := bt.cc
	for _, d := range bt.dst {
		for _, w := range d {
			o := cc.Calloc.Wire()
			cc.ID(w, o)
			cc.OutputWires = append(cc.OutputWires, o)
		}
	}
	for _, o := range cc.OutputWires {
		o.SetOutput(true)
	}
	if passes >= 1 {
		cc.ConstPropagate()
		cc.ShortCircuitXORZero()
	}
	if passes >= 2 {
		cc.Prune()
	}
	return cc.Compile(), nil
}

// c07Eval evaluates the compiled circuit (same gate semantics as
// circuit.Circuit.Compute) on the operand values and splits the outputs.
func c07Eval(circ *circuit.Circuit, opw, dsw []int, vals []*big.Int, wires []byte) []*big.Int {
	for i := range wires {
		wires[i] = 0
	}
	w := 0
	for i, n := range opw {
		for b := 0; b < n; b++ {
			wires[w] = byte(vals[i].Bit(b))
			w++
		}
	}
	for i := range circ.Gates {
		g := &circ.Gates[i]
		var r byte
		switch g.Op {
		case circuit.XOR:
			r = wires[g.Input0] ^ wires[g.Input1]
		case circuit.XNOR:
			r = 1 ^ wires[g.Input0] ^ wires[g.Input1]
		case circuit.AND:
			r = wires[g.Input0] & wires[g.Input1]
		case circuit.OR:
			r = wires[g.Input0] | wires[g.Input1]
		case circuit.INV:
			r = 1 ^ wires[g.Input0]
		}
		wires[g.Output] = r
	}
	tot := 0
	for _, n := range dsw {
		tot += n
	}
	base := circ.NumWires - tot
	out := make([]*big.Int, len(dsw))
	for i, n := range dsw {
		v := new(big.Int)
		for b := 0; b < n; b++ {
			if wires[base+b] != 0 {
				v.SetBit(v, b, 1)
			}
		}
		base += n
		out[i] = v
	}
	return out
}

func c07Mask(v *big.Int, w int) *big.Int {
	m := new(big.Int).Lsh(big.NewInt(1), uint(w))
	m.Sub(m, big.NewInt(1))
	return new(big.Int).And(v, m)
}

func c07Signed(v *big.Int, w int) *big.Int {
	if w > 0 && v.Bit(w-1) == 1 {
		return new(big.Int).Sub(v, new(big.Int).Lsh(big.NewInt(1), uint(w)))
	}
	return new(big.Int).Set(v)
}

func c07Bool(b bool) *big.Int {
	if b {
		return big.NewInt(1)
	}
	return big.NewInt(0)
}

func c07Max(a, b int) int {
	if a > b {
		return a
	}
	return b
}

// c07Expected returns the mathematically exact results (nil = no claim for
// this destination / these operands, e.g. division by zero).
func c07Expected(k c07Case, v []*big.Int) []*big.Int {
	x, y := v[0], big.NewInt(0)
	if len(v) > 1 {
		y = v[1]
	}
	zw := k.Dsw[0]
	one := func(r *big.Int) []*big.Int { return []*big.Int{c07Mask(r, zw), nil} }
	mx := 0
	if len(k.Opw) > 1 {
		mx = c07Max(k.Opw[0], k.Opw[1])
	}
	switch k.B {
	case bAdder, bKSAdder:
		return one(new(big.Int).Add(x, y))
	case bSub, bKSSub:
		return one(new(big.Int).Sub(x, y))
	case bMult, bArrayMult, bKaratsuba, bWallace:
		return one(new(big.Int).Mul(x, y))
	case bUDiv, bUDivLong, bUDivRestoring, bUDivArray:
		var q, r *big.Int
		if y.Sign() == 0 {
			if k.B != bUDivRestoring && k.B != bUDivArray {
				return []*big.Int{nil, nil}
			}
			// zero divisor, restoring / array divider: what C07_udiv_restoring / C07_udiv_array
			// prove of the emitted circuit (every trial subtraction succeeds): all-ones
			// quotient on max(len a, len b) bits, remainder = dividend
			q = new(big.Int).Sub(new(big.Int).Lsh(big.NewInt(1), uint(mx)), big.NewInt(1))
			r = new(big.Int).Set(x)
		} else {
			q, r = new(big.Int).QuoRem(x, y, new(big.Int))
		}
		res := []*big.Int{nil, nil}
		if k.Dsw[0] > 0 {
			res[0] = c07Mask(q, k.Dsw[0])
		}
		if len(k.Dsw) > 1 && k.Dsw[1] > 0 {
			res[1] = c07Mask(r, k.Dsw[1])
		}
		return res
	case bIDiv:
		// unequal widths are zero padded by the builder to the wider width
		// (in-repo callers pass equal widths)
		xs, ys := c07Signed(x, mx), c07Signed(y, mx)
		if ys.Sign() == 0 {
			return []*big.Int{nil, nil}
		}
		// the repository's convention (testsuite/lang/modi.mpcl: -42 % 4 = 2,
		// 42 % -4 = 2): quotient = sign * (|a| / |b|) (truncated division),
		// remainder = |a| mod |b| (never negated)
		ax, ay := new(big.Int).Abs(xs), new(big.Int).Abs(ys)
		q, r := new(big.Int).QuoRem(ax, ay, new(big.Int))
		if xs.Sign()*ys.Sign() < 0 {
			q.Neg(q)
		}
		res := []*big.Int{nil, nil}
		if k.Dsw[0] > 0 {
			res[0] = c07Mask(q, k.Dsw[0])
		}
		if len(k.Dsw) > 1 && k.Dsw[1] > 0 {
			res[1] = c07Mask(r, k.Dsw[1])
		}
		return res
	case bIntGt, bIntGe, bIntLt, bIntLe:
		// unequal widths are zero padded by the builder to the wider width
		xs, ys := c07Signed(x, mx), c07Signed(y, mx)
		c := xs.Cmp(ys)
		return one(c07Bool((k.B == bIntGt && c > 0) || (k.B == bIntGe && c >= 0) || (k.B == bIntLt && c < 0) || (k.B == bIntLe && c <= 0)))
	case bUintGt, bUintGe, bUintLt, bUintLe:
		c := x.Cmp(y)
		return one(c07Bool((k.B == bUintGt && c > 0) || (k.B == bUintGe && c >= 0) || (k.B == bUintLt && c < 0) || (k.B == bUintLe && c <= 0)))
	case bEq:
		return one(c07Bool(x.Cmp(y) == 0))
	case bNeq:
		return one(c07Bool(x.Cmp(y) != 0))
	case bLAnd:
		return one(new(big.Int).And(x, y))
	case bLOr:
		return one(new(big.Int).Or(x, y))
	case bBts:
		return one(big.NewInt(int64(x.Bit(k.Prm[0]))))
	case bBtc:
		return one(big.NewInt(int64(1 - x.Bit(k.Prm[0]))))
	case bMux:
		if x.Sign() != 0 {
			return one(y)
		}
		return one(v[2])
	case bIndex:
		size := k.Prm[0]
		n := k.Opw[0] / size
		if n == 0 {
			return one(big.NewInt(0))
		}
		nb := 1
		for l := 2; l < n; l *= 2 {
			nb++
		}
		idx := int(c07Mask(y, nb).Int64())
		if idx >= n {
			return one(big.NewInt(0))
		}
		return one(c07Mask(new(big.Int).Rsh(x, uint(idx*size)), size))
	case bBand:
		return one(new(big.Int).And(x, y))
	case bBclr:
		return one(new(big.Int).AndNot(x, y))
	case bBor:
		return one(new(big.Int).Or(x, y))
	case bBxor:
		return one(new(big.Int).Xor(x, y))
	case bHamming:
		d := new(big.Int).Xor(x, y)
		c := 0
		for _, wd := range d.Bits() {
			c += bits.OnesCount64(uint64(wd))
		}
		return one(big.NewInt(int64(c)))
	}
	return []*big.Int{nil, nil}
}

// c07Class names the input class of a failing case for the finding key.
func c07Class(k c07Case, dest int, v []*big.Int) string {
	mx := 0
	if len(k.Opw) > 1 {
		mx = c07Max(k.Opw[0], k.Opw[1])
	}
	zw := k.Dsw[dest]
	switch k.B {
	case bSub, bKSSub:
		if zw > mx+1 {
			return "zw>max+1"
		}
	case bMult, bArrayMult, bKaratsuba:
		if mx == 1 && zw > 2 {
			return "1bit:zw>2"
		}
		if zw > 2*mx {
			return "zw>2max"
		}
	case bIDiv, bUDiv:
		what := "quotient"
		if dest == 1 {
			what = "remainder"
		}
		if k.Tgt == 1 {
			return "goldschmidt:wrong-" + what
		}
		return "wrong-" + what
	case bUDivRestoring, bUDivArray:
		what := "quotient"
		if dest == 1 {
			what = "remainder"
		}
		if len(v) > 1 && v[1].Sign() == 0 {
			return "zero-divisor:wrong-" + what
		}
		return "wrong-" + what
	}
	if zw == mx {
		return "zw=max"
	}
	if zw < mx {
		return "zw<max"
	}
	return "zw>max"
}

type c07Replay struct {
	Case     c07Case  `json:"case"`
	Dest     int      `json:"dest"`
	Operands []string `json:"operands"`
	Got      string   `json:"got"`
	Want     string   `json:"want"`
	Note     string   `json:"note,omitempty"`
}

func c07Operands(r *RNG, k c07Case, exhaustiveBits int, nrand int) [][]*big.Int {
	tot := 0
	for _, w := range k.Opw {
		tot += w
	}
	var out [][]*big.Int
	if tot <= exhaustiveBits {
		for v := 0; v < 1<<uint(tot); v++ {
			vals := make([]*big.Int, len(k.Opw))
			sh := 0
			for i, w := range k.Opw {
				vals[i] = big.NewInt(int64((v >> uint(sh)) & (1<<uint(w) - 1)))
				sh += w
			}
			out = append(out, vals)
		}
		return out
	}
	bnd := func(w int) []*big.Int {
		one := big.NewInt(1)
		all := new(big.Int).Sub(new(big.Int).Lsh(one, uint(w)), one)
		half := new(big.Int).Lsh(one, uint(w-1))
		l := []*big.Int{big.NewInt(0), big.NewInt(1), all, half, new(big.Int).Sub(half, one), c07Mask(new(big.Int).Add(half, one), w),
			c07Mask(big.NewInt(2), w), c07Mask(big.NewInt(3), w), new(big.Int).Sub(all, c07Mask(one, w))}
		return l
	}
	rnd := func(w int) *big.Int {
		v := new(big.Int).SetBytes(r.Bytes((w + 7) / 8))
		switch r.Intn(4) {
		case 0: // short value
			v = c07Mask(v, 1+r.Intn(w))
		case 1: // sparse
			v.And(v, new(big.Int).SetBytes(r.Bytes((w+7)/8)))
		}
		return c07Mask(v, w)
	}
	var lists [][]*big.Int
	for _, w := range k.Opw {
		lists = append(lists, bnd(w))
	}
	if (k.B == bUDiv || k.B == bIDiv || k.B == bUDivLong || k.B == bUDivRestoring || k.B == bUDivArray) && len(lists) >= 2 {
		// small and odd divisors (quotient estimate errors of the Goldschmidt divider)
		for d := 4; d <= 64; d++ {
			if d < 1<<uint(k.Opw[1]) {
				lists[1] = append(lists[1], big.NewInt(int64(d)))
			}
		}
	}
	if len(k.Opw) >= 2 {
		for _, a := range lists[0] {
			for _, b := range lists[1] {
				vals := []*big.Int{a, b}
				for i := 2; i < len(k.Opw); i++ {
					vals = append(vals, rnd(k.Opw[i]))
				}
				out = append(out, vals)
			}
		}
	} else {
		for _, a := range lists[0] {
			out = append(out, []*big.Int{a})
		}
	}
	for i := 0; i < nrand; i++ {
		vals := make([]*big.Int, len(k.Opw))
		for j, w := range k.Opw {
			vals[j] = rnd(w)
		}
		if len(vals) >= 2 && k.Opw[0] == k.Opw[1] && i%8 == 0 {
			vals[1] = new(big.Int).Set(vals[0]) // equal operands
		}
		if len(vals) >= 2 && i%8 == 1 { // small divisor / operand
			vals[1] = c07Mask(big.NewInt(int64(1+r.Intn(7))), k.Opw[1])
		}
		out = append(out, vals)
	}
	return out
}

func c07Key(k c07Case) string {
	return fmt.Sprintf("%d|%d|%v|%v|%v|%v", k.B, k.Tgt, k.Pre, k.Opw, k.Dsw, k.Prm)
}

// c07Run handles one case: correspondence record + oracle.
func c07Run(c *Ctx, r *RNG, k c07Case, exhaustiveBits, nrand int) {
	tgtName := []string{"Yao", "GMW"}[k.Tgt]
	name := c07Names[k.B]
	bt, perr := c07Build(k)
	if perr != nil {
		c.Fail(fmt.Sprintf("c07:%s:%s:builder-panic", name, tgtName), "builder panics: "+perr.Error(),
			c07Replay{Case: k, Note: perr.Error()})
		return
	}
	if bt.err != nil {
		c.Fail(fmt.Sprintf("c07:%s:%s:builder-error", name, tgtName), "builder returns an error for valid widths: "+bt.err.Error(),
			c07Replay{Case: k, Note: bt.err.Error()})
		return
	}
	gs, d1, d2, wfc, dbu := c07Canon(bt)
	full := len(gs) <= c07FullLimit
	c.Hist("builder:" + name)
	c.Hist("target:" + tgtName)
	mxw := 0
	for _, w := range k.Opw {
		mxw = c07Max(mxw, w)
	}
	c.Hist(fmt.Sprintf("maxwidth:%s", c07Bucket(mxw)))
	if !wfc {
		c.Fail(fmt.Sprintf("c07:%s:%s:not-single-assignment", name, tgtName),
			"a gate output wire is written twice or written after being read", c07Replay{Case: k})
	}
	c.Sample(map[string]interface{}{"case": k.String(), "gates": len(gs)})

	if k.Tgt == 0 && !k.Pre && (k.B == bAdder || k.B == bSub || k.B == bMult || (k.B == bIDiv && k.Dsw[0] > 0 && k.Dsw[1] > 0)) {
		c07Direct(c, r.Fork(), k)
	}
	if k.Tgt == 1 && (k.B == bUDiv || k.B == bIDiv) && len(k.Dsw) == 2 && k.Dsw[0] > 0 && k.Dsw[1] > 0 {
		// the GMW divider is swept exhaustively in every tier (quick: up to 7x7 bits,
		// thorough: 8x8): the known finding lists the exact failing pairs of these widths
		exhaustiveBits = 14
		if c.Thorough() {
			exhaustiveBits = 16
		}
	}
	circ, cerr := c07Compile(bt)
	var operands [][]*big.Int
	var tuples, touts [][]*big.Int
	var wires []byte
	if cerr == nil {
		operands = c07Operands(r, k, exhaustiveBits, nrand)
		wires = make([]byte, circ.NumWires)
		// functional part of the correspondence observable: the outputs of the real
		// compiled circuit on a few operand tuples (the model evaluates its own gate list)
		if len(gs) <= c07EvalLimit {
			pick := []int{len(operands) / 3, (2 * len(operands)) / 3, len(operands) - 1}
			for _, pi := range pick {
				if pi >= 0 && pi < len(operands) {
					tuples = append(tuples, operands[pi])
					touts = append(touts, c07Eval(circ, k.Opw, k.Dsw, operands[pi], wires))
				}
			}
		}
	}
	c.Case(c07InputSX(k, full, tuples), c07ObservedSX(gs, d1, d2, wfc, dbu, full, touts))
	if cerr != nil {
		c.Fail(fmt.Sprintf("c07:%s:%s:compile-panic", name, tgtName), "Compiler.Compile panics: "+cerr.Error(),
			c07Replay{Case: k, Note: cerr.Error()})
		return
	}
	failed := map[string]bool{}
	first := true
	pipeline := len(gs) <= c07PipelineGates && len(operands) <= c07PipelineOperands
	var plain [][]*big.Int
	defer func() {
		if pipeline {
			c07Pipeline(c, k, operands, plain)
		}
	}()
	for _, vals := range operands {
		want := c07Expected(k, vals)
		got := c07Eval(circ, k.Opw, k.Dsw, vals, wires)
		if pipeline {
			plain = append(plain, got)
		}
		if first {
			// cross-check the local evaluator against circuit.Circuit.Compute once per case
			first = false
			cres, err := circ.Compute(vals)
			if err != nil {
				c.Fail("c07:Compute-error", err.Error(), c07Replay{Case: k})
			} else {
				for i := range k.Dsw {
					if cres[i].Cmp(got[i]) != 0 {
						c.Fail("c07:harness-evaluator-differs-from-Compute", "evaluator mismatch", c07Replay{Case: k})
					}
				}
			}
		}
		nontriv := false
		// GMW Goldschmidt divider: what the committed algorithm returns for this input
		var pred []*big.Int
		gmwDiv := k.Tgt == 1 && (k.B == bUDiv || k.B == bIDiv) && k.Opw[0] == k.Opw[1]
		if gmwDiv && want[0] != nil || gmwDiv && want[1] != nil {
			var pq, pr *big.Int
			if k.B == bUDiv {
				pq, pr = c07GoldschmidtPredict(k.Opw[0], vals[0], vals[1])
			} else {
				pq, pr = c07IDivPredictGMW(k.Opw[0], vals[0], vals[1])
			}
			pred = []*big.Int{pq, pr}
		}
		for i := range k.Dsw {
			if i < len(want) && want[i] != nil {
				nontriv = true
				ops := make([]string, len(vals))
				for j, v := range vals {
					ops[j] = v.String()
				}
				if pred != nil && pred[i] != nil {
					n := k.Opw[0]
					what := []string{"quotient", "remainder"}[i]
					pg := c07Mask(pred[i], k.Dsw[i])
					if pg.Cmp(got[i]) != 0 {
						// the real circuit no longer computes what the committed algorithm computes
						c.Fail(fmt.Sprintf("c07:%s:GMW:goldschmidt:w%d:%s/%s:differs-from-committed-algorithm:%s", name, n, ops[0], ops[1], what),
							fmt.Sprintf("%s (GMW) width %d, a=%s b=%s: %s %s, the committed Goldschmidt algorithm gives %s, exact %s", name, n, ops[0], ops[1], what, got[i], pg, want[i]),
							c07Replay{Case: k, Dest: i, Operands: ops, Got: got[i].String(), Want: want[i].String(), Note: "committed algorithm: " + pg.String()})
						continue
					}
					if want[i].Cmp(got[i]) != 0 {
						// known class (F33): exactly the wrong value of the committed algorithm
						key := fmt.Sprintf("c07:%s:GMW:goldschmidt:w%d:%s/%s:wrong-%s", name, n, ops[0], ops[1], what)
						if n > 8 {
							key = fmt.Sprintf("c07:%s:GMW:goldschmidt:w%d:committed-estimate-error:wrong-%s", name, n, what)
						}
						if !failed[key] {
							failed[key] = true
							c.Fail(key, fmt.Sprintf("%s (GMW) width %d, a=%s b=%s: %s %s, exact %s (as the committed Goldschmidt algorithm computes it)", name, n, ops[0], ops[1], what, got[i], want[i]),
								c07Replay{Case: k, Dest: i, Operands: ops, Got: got[i].String(), Want: want[i].String()})
						}
					}
					continue
				}
				if want[i].Cmp(got[i]) != 0 {
					cls := c07Class(k, i, vals)
					if (k.B == bSub || k.B == bKSSub) && cls == "zw>max+1" {
						// known class (F32): the difference is computed on max+1 bits and zero
						// extended; any other wrong value is a different defect
						mx := c07Max(k.Opw[0], k.Opw[1])
						if c07Mask(new(big.Int).Sub(vals[0], vals[1]), mx+1).Cmp(got[i]) == 0 {
							cls += ":no-sign-extension"
						} else {
							cls += fmt.Sprintf(":%s-%s:unlisted", ops[0], ops[1])
						}
					}
					key := fmt.Sprintf("c07:%s:%s:%s", name, tgtName, cls)
					if !failed[key] {
						failed[key] = true
						c.Fail(key, fmt.Sprintf("%s (%s) widths %v -> %v: result differs from the exact value", name, tgtName, k.Opw, k.Dsw),
							c07Replay{Case: k, Dest: i, Operands: ops, Got: got[i].String(), Want: want[i].String()})
					}
				}
			}
		}
		var sb strings.Builder
		sb.WriteString(c07Key(k))
		for _, v := range vals {
			sb.WriteByte('|')
			sb.WriteString(v.Text(16))
		}
		c.Eval(sb.String(), nontriv)
	}
}

// limits of the configurations that are also run through the compiler's real pass pipeline
const c07PipelineGates = 4000
const c07PipelineOperands = 1100

// c07Pipeline runs the configuration through the pipeline ssa.Program.CompileCircuit
// really uses — constants defined first (DefineConstants(ZeroWire, OneWire)), the
// builder, outputs wired with cc.ID as Ret does, ConstPropagate,
// ShortCircuitXORZero, Prune (off and on), Compile — and evaluates the resulting
// circuit on the same operands against math/big and against the circuit
// compiled without the passes.
func c07Pipeline(c *Ctx, k c07Case, operands [][]*big.Int, plain [][]*big.Int) {
	tgtName := []string{"Yao", "GMW"}[k.Tgt]
	name := c07Names[k.B]
	kp := k
	kp.Pre = true
	for passes := 1; passes <= 2; passes++ {
		flavor := []string{"", "after-const-propagate", "after-const-propagate+prune"}[passes]
		bt, err := c07Build(kp)
		if err != nil || bt.err != nil {
			continue // reported by the main run
		}
		circ, cerr := c07CompilePasses(bt, passes)
		if cerr != nil {
			c.Fail(fmt.Sprintf("c07:%s:%s:%s:compile-panic", name, tgtName, flavor),
				fmt.Sprintf("%s (%s) widths %v -> %v: ConstPropagate/ShortCircuitXORZero/Prune/Compile panics: %v", name, tgtName, k.Opw, k.Dsw, cerr),
				c07Replay{Case: kp, Note: flavor + ": " + cerr.Error()})
			continue
		}
		wires := make([]byte, circ.NumWires)
		reported := false
		for oi, vals := range operands {
			got := c07Eval(circ, k.Opw, k.Dsw, vals, wires)
			want := c07Expected(k, vals)
			for i := range k.Dsw {
				if got[i].Cmp(plain[oi][i]) == 0 {
					continue // same as without the passes (a wrong value there is reported by the main run)
				}
				cls := "differs-from-unoptimised"
				ws := ""
				if i < len(want) && want[i] != nil {
					ws = want[i].String()
					if want[i].Cmp(plain[oi][i]) == 0 {
						cls = "wrong-value"
					} else if want[i].Cmp(got[i]) == 0 {
						continue // the passes repaired a known-wrong value: not a failure of the passes
					}
				}
				if !reported {
					reported = true
					ops := make([]string, len(vals))
					for j, v := range vals {
						ops[j] = v.String()
					}
					c.Fail(fmt.Sprintf("c07:%s:%s:%s:%s", name, tgtName, flavor, cls),
						fmt.Sprintf("%s (%s) widths %v -> %v operands %v: after the compiler's passes the circuit gives %s, without them %s, exact %s", name, tgtName, k.Opw, k.Dsw, ops, got[i], plain[oi][i], ws),
						c07Replay{Case: kp, Dest: i, Operands: ops, Got: got[i].String(), Want: ws, Note: flavor + "; unoptimised circuit: " + plain[oi][i].String()})
				}
			}
			c.Eval(fmt.Sprintf("%s|%s|%d", flavor, c07Key(k), oi), true)
		}
	}
}

// c07Direct replays the case the way compiler/mpa (Int.bin, Int.Div) uses the
// builders: the destination wires are the circuit's output wires
// (SetOutput(true), passed to NewCompiler as outputWires), the builder is
// called on them directly, then Compile and evaluation.
func c07Direct(c *Ctx, r *RNG, k c07Case) {
	name := c07Names[k.B]
	mx := c07Max(k.Opw[0], k.Opw[1])
	cls := "zw<=max+1"
	if k.Dsw[0] > mx+1 {
		cls = "zw>max+1"
	}
	if k.B == bMult {
		// the only destination replacements of the multipliers are the zero fills
		// of NewArrayMultiplier (1-bit operands: z[1]; result wider than 2*max: z[1])
		cls = "zw<=2max"
		if mx == 1 && k.Dsw[0] >= 2 {
			cls = "1bit:zw>=2"
		} else if k.Dsw[0] > 2*mx {
			cls = "zw>2max"
		}
	}
	var circ *circuit.Circuit
	err := func() (perr error) {
		defer func() {
			if rc := recover(); rc != nil {
				perr = fmt.Errorf("panic: %v", rc)
			}
		}()
		calloc := circuits.NewAllocator()
		params := utils.NewParams()
		var ops [][]*circuits.Wire
		var inputWires, outputWires []*circuits.Wire
		for _, w := range k.Opw {
			o := calloc.Wires(types.Size(w))
			ops = append(ops, o)
			inputWires = append(inputWires, o...)
		}
		var dst [][]*circuits.Wire
		for _, w := range k.Dsw {
			d := calloc.Wires(types.Size(w))
			dst = append(dst, d)
		}
		if len(dst) == 1 {
			// Int.bin passes the very slice it registered as outputWires
			outputWires = dst[0]
		} else {
			for _, d := range dst {
				outputWires = append(outputWires, d...)
			}
		}
		for _, w := range outputWires {
			w.SetOutput(true)
		}
		for len(dst) < 2 {
			dst = append(dst, nil)
		}
		cc, err := circuits.NewCompiler(params, calloc, c07IO(k.Opw, "i"), c07IO(k.Dsw, "o"), inputWires, outputWires)
		if err != nil {
			return err
		}
		switch k.B {
		case bAdder:
			err = circuits.NewAdder(cc, ops[0], ops[1], dst[0])
		case bSub:
			err = circuits.NewSubtractor(cc, ops[0], ops[1], dst[0])
		case bMult:
			err = circuits.NewMultiplier(cc, 0, ops[0], ops[1], dst[0])
		case bIDiv:
			err = circuits.NewIDivider(cc, ops[0], ops[1], dst[0], dst[1])
		}
		if err != nil {
			return err
		}
		circ = cc.Compile()
		return nil
	}()
	if err != nil {
		tag := "panic:" + strings.Map(func(r rune) rune {
			if r >= 'a' && r <= 'z' || r >= 'A' && r <= 'Z' || r >= '0' && r <= '9' {
				return r
			}
			return '-'
		}, err.Error())
		if strings.Contains(err.Error(), "Output already assigned") {
			tag = "output-already-assigned"
		}
		c.Fail(fmt.Sprintf("c07:%s:direct-output:%s:compile-panic:%s", name, cls, tag),
			fmt.Sprintf("%s with the circuit's output wires as destination (as mpa.Int.bin calls it), widths %v -> %v: %v", name, k.Opw, k.Dsw, err),
			c07Replay{Case: k, Note: "direct-output style: " + err.Error()})
		return
	}
	wires := make([]byte, circ.NumWires)
	reported := false
	for _, vals := range c07Operands(r, k, 6, 8) {
		want := c07Expected(k, vals)
		got := c07Eval(circ, k.Opw, k.Dsw, vals, wires)
		for i := range k.Dsw {
			if want[i] != nil && want[i].Cmp(got[i]) != 0 && !reported {
				reported = true
				ops := make([]string, len(vals))
				for j, v := range vals {
					ops[j] = v.String()
				}
				c.Fail(fmt.Sprintf("c07:%s:direct-output:%s:wrong-result", name, c07Class(k, i, vals)),
					fmt.Sprintf("%s with output wires as destination, widths %v -> %v: result differs from the exact value", name, k.Opw, k.Dsw),
					c07Replay{Case: k, Dest: i, Operands: ops, Got: got[i].String(), Want: want[i].String(), Note: "direct-output style"})
			}
		}
		c.Eval("direct|"+c07Key(k)+"|"+vals[0].Text(16)+"|"+vals[1].Text(16), true)
	}
}

func c07Bucket(w int) string {
	switch {
	case w <= 8:
		return "1-8"
	case w <= 16:
		return "9-16"
	case w <= 32:
		return "17-32"
	case w <= 64:
		return "33-64"
	default:
		return "65-130"
	}
}

func runC07(c *Ctx) error {
	cases := c07Cases(c)
	exh := 8
	nrand := 24
	if c.Thorough() {
		exh = 16
		nrand = 200
	}
	for _, k := range cases {
		r := c.rng.Fork()
		c07Run(c, r, k, exh, nrand)
	}
	c.Note("%d builder configurations", len(cases))
	c07AliasRun(c)
	c07DoorsRun(c)
	return nil
}

// c07Cases enumerates the builder configurations of the tier.
func c07Cases(c *Ctx) []c07Case {
	var out []c07Case
	seen := map[string]bool{}
	npre := 0
	add := func(k c07Case) {
		for _, w := range k.Opw {
			if w < 1 && k.B != bIndex {
				return
			}
		}
		npre++
		k.Pre = npre%3 == 0
		key := c07Key(k)
		if seen[key] {
			return
		}
		seen[key] = true
		out = append(out, k)
	}
	thorough := c.Thorough()
	maxSmall := 5
	if thorough {
		maxSmall = 8
	}
	zws := func(a, b int) []int {
		mx := c07Max(a, b)
		l := []int{mx, mx + 1, 2 * mx, 2*mx + 3}
		if mx > 1 {
			l = append(l, mx-1)
		}
		sort.Ints(l)
		var u []int
		for i, v := range l {
			if i == 0 || v != l[i-1] {
				u = append(u, v)
			}
		}
		return u
	}
	// (1) every width pair up to maxSmall (thorough: 8) x result widths x targets
	for a := 1; a <= 8; a++ {
		for b := 1; b <= 8; b++ {
			if !thorough && (a > maxSmall || b > maxSmall) && !(a == b || a+b == 9) {
				continue
			}
			for tgt := 0; tgt <= 1; tgt++ {
				for _, zw := range zws(a, b) {
					for _, bld := range []int{bAdder, bSub, bMult} {
						add(c07Case{B: bld, Tgt: tgt, Opw: []int{a, b}, Dsw: []int{zw}, Prm: []int{0}})
					}
					if tgt == 0 {
						for _, bld := range []int{bArrayMult, bWallace, bKSAdder, bKSSub} {
							add(c07Case{B: bld, Tgt: 0, Opw: []int{a, b}, Dsw: []int{zw}})
						}
						for _, lim := range []int{3, 4} {
							add(c07Case{B: bKaratsuba, Tgt: 0, Opw: []int{a, b}, Dsw: []int{zw}, Prm: []int{lim}})
						}
					}
					mx := c07Max(a, b)
					if zw <= mx+1 {
						for _, bld := range []int{bBand, bBclr, bBor, bBxor} {
							add(c07Case{B: bld, Tgt: tgt, Opw: []int{a, b}, Dsw: []int{zw}})
						}
					}
					if mx >= 2 && (zw == mx || zw == mx+1) {
						add(c07Case{B: bHamming, Tgt: tgt, Opw: []int{a, b}, Dsw: []int{zw}})
					}
				}
				for _, bld := range []int{bIntGt, bUintGt, bIntGe, bUintGe, bIntLt, bUintLt, bIntLe, bUintLe, bEq, bNeq} {
					add(c07Case{B: bld, Tgt: tgt, Opw: []int{a, b}, Dsw: []int{1}})
				}
				mx := c07Max(a, b)
				add(c07Case{B: bMux, Tgt: tgt, Opw: []int{1, a, b}, Dsw: []int{mx}})
				// division: quotient only, remainder only, both
				dv := []int{bIDiv, bUDiv}
				if tgt == 0 {
					dv = append(dv, bUDivLong)
				}
				for _, bld := range dv {
					if tgt == 1 && a != b {
						continue // the GMW divider indexes b with len(a)
					}
					add(c07Case{B: bld, Tgt: tgt, Opw: []int{a, b}, Dsw: []int{mx, mx}})
					add(c07Case{B: bld, Tgt: tgt, Opw: []int{a, b}, Dsw: []int{mx, 0}})
					add(c07Case{B: bld, Tgt: tgt, Opw: []int{a, b}, Dsw: []int{0, mx}})
				}
				// restoring and array dividers (exported, no in-repo caller): both targets, unequal
				// operand widths, quotient / remainder narrower and wider than the operands, nil
				for _, bld := range []int{bUDivRestoring, bUDivArray} {
					dl := [][]int{{mx, mx}, {mx, 0}, {0, mx}, {mx + 2, mx + 1}}
					if mx > 1 {
						dl = append(dl, []int{mx - 1, mx + 3}, []int{mx + 1, mx - 1})
					}
					for _, d := range dl {
						add(c07Case{B: bld, Tgt: tgt, Opw: []int{a, b}, Dsw: d})
					}
				}
			}
		}
	}
	for tgt := 0; tgt <= 1; tgt++ {
		add(c07Case{B: bLAnd, Tgt: tgt, Opw: []int{1, 1}, Dsw: []int{1}})
		add(c07Case{B: bLOr, Tgt: tgt, Opw: []int{1, 1}, Dsw: []int{1}})
		for w := 1; w <= 6; w++ {
			for idx := 0; idx <= w+1; idx++ {
				add(c07Case{B: bBts, Tgt: tgt, Opw: []int{w}, Dsw: []int{1}, Prm: []int{idx}})
				add(c07Case{B: bBtc, Tgt: tgt, Opw: []int{w}, Dsw: []int{1}, Prm: []int{idx}})
			}
		}
		// index: element size, element count, index width
		for size := 1; size <= 3; size++ {
			for n := 0; n <= 6; n++ {
				for iw := 1; iw <= 4; iw++ {
					add(c07Case{B: bIndex, Tgt: tgt, Opw: []int{n * size, iw}, Dsw: []int{size}, Prm: []int{size}})
				}
			}
		}
		add(c07Case{B: bIndex, Tgt: tgt, Opw: []int{9 * 4, 5}, Dsw: []int{4}, Prm: []int{4}})
		add(c07Case{B: bIndex, Tgt: tgt, Opw: []int{17 * 2, 3}, Dsw: []int{2}, Prm: []int{2}})
	}
	// (2) algorithm-switch widths
	wide := []int{9, 16, 17, 21, 22, 32, 33, 40, 64}
	if thorough {
		wide = nil
		for w := 9; w <= 24; w++ {
			wide = append(wide, w)
		}
		wide = append(wide, 31, 32, 33, 36, 37, 38, 39, 40, 41, 42, 43, 58, 63, 64, 65, 70, 71, 72, 80, 81, 82, 96, 100, 127, 128, 129, 130)
	}
	for _, w := range wide {
		for tgt := 0; tgt <= 1; tgt++ {
			var zl []int
			if thorough || w <= 33 {
				zl = []int{w, w + 1, 2 * w, 2*w + 3}
			} else {
				zl = []int{w, 2 * w}
			}
			for _, zw := range zl {
				add(c07Case{B: bAdder, Tgt: tgt, Opw: []int{w, w}, Dsw: []int{zw}})
				add(c07Case{B: bSub, Tgt: tgt, Opw: []int{w, w}, Dsw: []int{zw}})
				if (tgt == 0 && (thorough || zw <= w+1 || w <= 33)) || (tgt == 1 && (w <= 22 || (thorough && w <= 65))) {
					add(c07Case{B: bMult, Tgt: tgt, Opw: []int{w, w}, Dsw: []int{zw}, Prm: []int{0}})
				}
			}
			add(c07Case{B: bAdder, Tgt: tgt, Opw: []int{w, w/2 + 1}, Dsw: []int{w + 1}})
			add(c07Case{B: bSub, Tgt: tgt, Opw: []int{w/2 + 1, w}, Dsw: []int{w}})
			if tgt == 0 {
				add(c07Case{B: bMult, Tgt: 0, Opw: []int{w, w - 2}, Dsw: []int{2 * w}, Prm: []int{0}})
				add(c07Case{B: bMult, Tgt: 0, Opw: []int{w - 3, w}, Dsw: []int{w}, Prm: []int{0}})
				if thorough || w <= 33 {
					add(c07Case{B: bMult, Tgt: 0, Opw: []int{w, w}, Dsw: []int{2 * w}, Prm: []int{8}})
					add(c07Case{B: bArrayMult, Tgt: 0, Opw: []int{w, w}, Dsw: []int{2 * w}})
				}
			}
			for _, bld := range []int{bIntGt, bUintGe, bIntLe, bUintLt, bEq, bNeq} {
				add(c07Case{B: bld, Tgt: tgt, Opw: []int{w, w}, Dsw: []int{1}})
			}
			add(c07Case{B: bMux, Tgt: tgt, Opw: []int{1, w, w}, Dsw: []int{w}})
			add(c07Case{B: bHamming, Tgt: tgt, Opw: []int{w, w}, Dsw: []int{bits.Len(uint(w)) + 1}})
			add(c07Case{B: bBclr, Tgt: tgt, Opw: []int{w, w}, Dsw: []int{w}})
			if tgt == 0 && (thorough || w <= 33) {
				add(c07Case{B: bUDiv, Tgt: 0, Opw: []int{w, w}, Dsw: []int{w, w}})
				add(c07Case{B: bIDiv, Tgt: 0, Opw: []int{w, w}, Dsw: []int{w, w}})
			}
			if w <= 17 || (thorough && w <= 33) {
				add(c07Case{B: bUDivRestoring, Tgt: tgt, Opw: []int{w, w - 2}, Dsw: []int{w, w}})
				add(c07Case{B: bUDivArray, Tgt: tgt, Opw: []int{w - 3, w}, Dsw: []int{w + 1, w}})
			}
		}
	}
	// (2b) NewMultiplier's arrayTreshold argument (utils.Params.CircMultArrayTreshold): below 8 the
	// per-width table / default 21 is used, otherwise the value itself
	for _, w := range []int{12, 22} {
		for _, thr := range []int{3, 7, 9, 22, 100} {
			add(c07Case{B: bMult, Tgt: 0, Opw: []int{w, w}, Dsw: []int{2 * w}, Prm: []int{thr}})
		}
	}
	// (3) GMW divider: ROM boundary (n = 3, 4, 8, 9), iteration-count boundaries
	gd := []int{9, 12}
	if thorough {
		gd = []int{9, 10, 11, 12, 13, 14, 15, 16, 17, 21, 22, 28, 29, 31, 32, 33, 49, 50, 56, 57, 63, 64, 65}
	}
	for _, w := range gd {
		add(c07Case{B: bUDiv, Tgt: 1, Opw: []int{w, w}, Dsw: []int{w, w}})
		add(c07Case{B: bIDiv, Tgt: 1, Opw: []int{w, w}, Dsw: []int{w, w}})
	}
	return out
}
