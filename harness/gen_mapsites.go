package main

// Translator (DESIGN 2.3, C08): regenerates coq/theories/Gen/MapSites.v from
// the Go source of /repo on every check run.
//
// It type-checks (go/parser + go/types, offline: repository packages are
// loaded from the source tree by a small importer of our own, the standard
// library through the stdlib "source" importer, anything else becomes an empty
// fake package and type errors are ignored) the packages of the compile path
//
//	compiler, compiler/ast, compiler/ssa, compiler/circuits, compiler/utils,
//	compiler/mpa, types, circuit
//
// and inventories
//
//   - every `range` statement whose ranged expression has a map type (or whose
//     type could not be resolved: listed as OrderSensitive, reason
//     "unresolved", so that a failure of the translator can never hide a site),
//   - every `go` statement and every `select` statement (scheduling
//     nondeterminism),
//   - every assignment (=, op=, ++/--) whose target is a field of a compiler/utils.Params value, an
//     element of such a field or a field below it (lists `param_writes`/`unreachable_param_writes`):
//     the configuration must not be written during a compilation,
//   - every `x, err := f.Readdirnames(n)` / `f.Readdir(n)` (directory order is
//     file-system dependent; os.ReadDir sorts and is not listed): SortedAfter
//     when the first later statement of the block that mentions x is one of
//     the sort calls below on x, else OrderSensitive (list `readdir_sites`),
//
// together with: package, enclosing function, file:line, the ranged
// expression, a hash of the loop body, whether the enclosing function is
// reachable (conservative reference graph, see reachability below) from the
// compile entry points, and a syntactic class.
//
// # Classes (decided by the syntactic rules below, nothing else)
//
// Let K, V be the loop variables of `for K, V := range M { body }`.  An
// expression is *pure* when it contains no call other than the builtins
// len/cap/min/max and type conversions, no channel receive and no function
// literal.  The *leaves* of a body are its statements after looking through
// `if`/`else` with pure conditions (and bare blocks); `continue` is ignored.
//
// SortedAfter:  every leaf is `S = append(S, pure...)` for one local slice
// variable S, and in the block that contains the loop the first later
// statement mentioning S is a call of sort.Strings/Ints/Float64s/Slice/
// SliceStable/Sort/Stable or slices.Sort/SortFunc/SortStableFunc on S.
// Semantic side condition (not checked here, hypothesis `NoDup` of the Coq
// lemma): the sort key is unique per collected element.
//
// LookupOnly:  the body is a single `if cond { ...; return pure... }` or
// `if cond { pure assignments to local variables...; break }` without else,
// cond pure.  Semantic side condition (hypothesis of the Coq lemma): at most
// one entry satisfies cond (the map is injective on the compared component).
//
// CommutativeAccumulate:  every leaf is one of
//
//	x++  x--  x += pure  x |= pure  x &= pure  x ^= pure
//	x = x || pure     x = x && pure
//	x = <literal or true/false/nil>           (same constant every iteration)
//	m[K] = pure       (m map-typed; the key is exactly the loop key K, so
//	                   different iterations write different entries)
//	delete(m, pure)
//	if pure > x { x = pure }   (running max/min; recognised as the pattern
//	                   `if a OP x { x = a }` with OP in < > <= >=)
//
// where x is not mentioned in any pure operand of another leaf kind
// (accumulators are write-only inside the loop, apart from their own update).
//
// OrderSensitive:  anything else.
//
// # Reachability
//
// Nodes are the functions, methods and package-level variables of the eight
// packages.  A node references every function/method/package-level variable
// whose identifier occurs in its body (or initialiser); a reference to an
// interface method references every method of that name in the eight
// packages.  Roots: Compiler.Compile, CompileFile, CompileSSA, Stream,
// StreamFile, ParseFile (package compiler), Circuit.Marshal, MarshalFormat,
// MarshalBristol (the observables), and every init function.  A site is
// `reachable` when its enclosing declaration is reachable in this graph.
// This over-approximates the call graph (dead branches such as `if false
// {...}` count).

import (
	"bytes"
	"crypto/sha256"
	"fmt"
	"go/ast"
	"go/constant"
	"go/importer"
	"go/parser"
	"go/printer"
	"go/token"
	"go/types"
	"os"
	"path/filepath"
	"sort"
	"strings"
)

func init() { extraGens = append(extraGens, genMapSites) }

var mapSitePkgs = []string{"compiler", "compiler/ast", "compiler/ssa", "compiler/circuits",
	"compiler/utils", "compiler/mpa", "types", "circuit"}

var mapSiteRoots = map[string][]string{
	"compiler": {"Compiler.Compile", "Compiler.CompileFile", "Compiler.CompileSSA",
		"Compiler.Stream", "Compiler.StreamFile", "Compiler.ParseFile"},
	"circuit": {"Circuit.Marshal", "Circuit.MarshalFormat", "Circuit.MarshalBristol"},
}

type mapSite struct {
	Kind      string // "range", "go", "select"
	Pkg       string
	Func      string
	File      string
	Line      int
	Expr      string
	Hash      string
	Class     string
	Reason    string
	Reachable bool
}

// ---------------------------------------------------------------- loading

type msLoader struct {
	repo    string
	module  string
	fset    *token.FileSet
	std     types.Importer
	pkgs    map[string]*types.Package // by import path
	infos   map[string]*types.Info    // by repo-relative dir
	files   map[string][]*ast.File    // by repo-relative dir
	loading map[string]bool
	stdFail map[string]bool
}

func (l *msLoader) Import(path string) (*types.Package, error) {
	if p, ok := l.pkgs[path]; ok {
		return p, nil
	}
	if path == l.module || strings.HasPrefix(path, l.module+"/") {
		rel := strings.TrimPrefix(strings.TrimPrefix(path, l.module), "/")
		if l.loading[path] {
			return nil, fmt.Errorf("import cycle through %s", path)
		}
		return l.load(rel, path)
	}
	if path == "unsafe" {
		return types.Unsafe, nil
	}
	if !strings.Contains(strings.SplitN(path, "/", 2)[0], ".") { // standard library
		p, err := l.importStd(path)
		if err == nil && p != nil {
			l.pkgs[path] = p
			return p, nil
		}
		l.stdFail[path] = true
	}
	parts := strings.Split(path, "/")
	p := types.NewPackage(path, parts[len(parts)-1])
	p.MarkComplete()
	l.pkgs[path] = p
	return p, nil
}

func (l *msLoader) importStd(path string) (p *types.Package, err error) {
	defer func() {
		if r := recover(); r != nil {
			err = fmt.Errorf("std importer panic: %v", r)
		}
	}()
	return l.std.Import(path)
}

func (l *msLoader) load(rel, path string) (*types.Package, error) {
	l.loading[path] = true
	defer delete(l.loading, path)
	dir := filepath.Join(l.repo, rel)
	pkgs, err := parser.ParseDir(l.fset, dir, func(fi os.FileInfo) bool {
		return !strings.HasSuffix(fi.Name(), "_test.go")
	}, parser.ParseComments)
	if err != nil {
		return nil, err
	}
	var files []*ast.File
	var pkgName string
	for name, p := range pkgs {
		if strings.HasSuffix(name, "_test") {
			continue
		}
		// a directory may hold `package main` tools next to the library: prefer the non-main one
		if pkgName != "" && name == "main" {
			continue
		}
		var names []string
		for fn := range p.Files {
			names = append(names, fn)
		}
		sort.Strings(names)
		files = files[:0]
		for _, fn := range names {
			f := p.Files[fn]
			if msExcludedByBuildTag(f) {
				continue
			}
			files = append(files, f)
		}
		pkgName = name
		if name != "main" {
			break
		}
	}
	info := &types.Info{
		Types:      map[ast.Expr]types.TypeAndValue{},
		Uses:       map[*ast.Ident]types.Object{},
		Defs:       map[*ast.Ident]types.Object{},
		Selections: map[*ast.SelectorExpr]*types.Selection{},
	}
	conf := types.Config{Importer: l, Error: func(error) {}, FakeImportC: true}
	p, _ := conf.Check(path, l.fset, files, info)
	if p == nil {
		p = types.NewPackage(path, pkgName)
	}
	l.pkgs[path] = p
	l.infos[rel] = info
	l.files[rel] = append([]*ast.File(nil), files...)
	return p, nil
}

// msExcludedByBuildTag: files that need a build tag (`//go:build verif`,
// `//go:build ignore`) are not part of the ordinary build; negated tags are kept.
func msExcludedByBuildTag(f *ast.File) bool {
	for _, cg := range f.Comments {
		if cg.Pos() > f.Package {
			break
		}
		for _, c := range cg.List {
			if strings.HasPrefix(c.Text, "//go:build ") {
				expr := strings.TrimSpace(strings.TrimPrefix(c.Text, "//go:build "))
				if expr == "verif" || expr == "ignore" {
					return true
				}
			}
		}
	}
	return false
}

// ---------------------------------------------------------------- classification

type msClassifier struct {
	info *types.Info
	fset *token.FileSet
}

func (c *msClassifier) obj(id *ast.Ident) types.Object {
	if o := c.info.Uses[id]; o != nil {
		return o
	}
	return c.info.Defs[id]
}

func (c *msClassifier) pure(e ast.Expr) bool {
	ok := true
	ast.Inspect(e, func(n ast.Node) bool {
		switch v := n.(type) {
		case *ast.FuncLit:
			ok = false
			return false
		case *ast.UnaryExpr:
			if v.Op == token.ARROW {
				ok = false
			}
		case *ast.CallExpr:
			if tv, has := c.info.Types[v.Fun]; has && tv.IsType() {
				return true // conversion
			}
			if id, isId := v.Fun.(*ast.Ident); isId {
				if _, isB := c.obj(id).(*types.Builtin); isB {
					switch id.Name {
					case "len", "cap", "min", "max":
						return true
					}
				}
			}
			ok = false
			return false
		}
		return true
	})
	return ok
}

func (c *msClassifier) mentions(n ast.Node, o types.Object) bool {
	if n == nil || o == nil {
		return false
	}
	found := false
	ast.Inspect(n, func(x ast.Node) bool {
		if id, ok := x.(*ast.Ident); ok && c.obj(id) == o {
			found = true
		}
		return !found
	})
	return found
}

// leaves flattens a body through pure if/else and blocks; ok=false when a
// non-pure condition, an init statement or another compound statement occurs.
func (c *msClassifier) leaves(stmts []ast.Stmt) (out []ast.Stmt, ok bool) {
	ok = true
	for _, s := range stmts {
		switch v := s.(type) {
		case *ast.BlockStmt:
			l, k := c.leaves(v.List)
			out, ok = append(out, l...), ok && k
		case *ast.IfStmt:
			if v.Init != nil || !c.pure(v.Cond) {
				return nil, false
			}
			// the running max/min pattern is a leaf of its own
			if c.isRunningExtremum(v) {
				out = append(out, v)
				continue
			}
			l, k := c.leaves(v.Body.List)
			out, ok = append(out, l...), ok && k
			if v.Else != nil {
				l, k := c.leaves([]ast.Stmt{v.Else})
				out, ok = append(out, l...), ok && k
			}
		case *ast.BranchStmt:
			if v.Tok == token.CONTINUE && v.Label == nil {
				continue
			}
			return nil, false
		case *ast.EmptyStmt:
		default:
			out = append(out, s)
		}
		if !ok {
			return nil, false
		}
	}
	return out, ok
}

func sameExpr(a, b ast.Expr) bool { return types.ExprString(a) == types.ExprString(b) }

// if a OP x { x = a }
func (c *msClassifier) isRunningExtremum(v *ast.IfStmt) bool {
	if v.Init != nil || v.Else != nil || len(v.Body.List) != 1 {
		return false
	}
	be, ok := v.Cond.(*ast.BinaryExpr)
	if !ok {
		return false
	}
	switch be.Op {
	case token.LSS, token.GTR, token.LEQ, token.GEQ:
	default:
		return false
	}
	as, ok := v.Body.List[0].(*ast.AssignStmt)
	if !ok || as.Tok != token.ASSIGN || len(as.Lhs) != 1 || len(as.Rhs) != 1 {
		return false
	}
	if !c.pure(as.Rhs[0]) {
		return false
	}
	return (sameExpr(be.X, as.Rhs[0]) && sameExpr(be.Y, as.Lhs[0])) ||
		(sameExpr(be.Y, as.Rhs[0]) && sameExpr(be.X, as.Lhs[0]))
}

func (c *msClassifier) localVar(e ast.Expr) *types.Var {
	id, ok := e.(*ast.Ident)
	if !ok {
		return nil
	}
	v, ok := c.obj(id).(*types.Var)
	if !ok || v.IsField() || v.Parent() == nil || v.Parent() == v.Pkg().Scope() {
		return nil
	}
	return v
}

var msSortFuncs = map[string]bool{
	"sort.Strings": true, "sort.Ints": true, "sort.Float64s": true, "sort.Slice": true,
	"sort.SliceStable": true, "sort.Sort": true, "sort.Stable": true,
	"slices.Sort": true, "slices.SortFunc": true, "slices.SortStableFunc": true,
}

// sortedAfter: see the rule in the header.
func (c *msClassifier) sortedAfter(rs *ast.RangeStmt, after []ast.Stmt) (bool, string) {
	lv, ok := c.leaves(rs.Body.List)
	if !ok || len(lv) == 0 {
		return false, ""
	}
	var S *types.Var
	var rest []ast.Stmt
	for _, s := range lv {
		v := c.appendTarget(s)
		if v == nil {
			rest = append(rest, s)
			continue
		}
		if S != nil && S != v {
			return false, ""
		}
		S = v
	}
	if S == nil {
		return false, ""
	}
	extra := ""
	if len(rest) > 0 {
		// the other leaves must be commutative accumulations that do not touch S
		ok, why := c.commutativeLeaves(rs, rest)
		if !ok {
			return false, ""
		}
		for _, s := range rest {
			if c.mentions(s, S) {
				return false, ""
			}
		}
		extra = "; other " + why
	}
	if name, ok := c.sortedNext(S, after); ok {
		return true, fmt.Sprintf("appended to %s, next use of %s is %s%s", S.Name(), S.Name(), name, extra)
	}
	return false, ""
}

// sortedNext: the first statement of `after` that mentions S is a sort call on S.
func (c *msClassifier) sortedNext(S *types.Var, after []ast.Stmt) (string, bool) {
	for _, s := range after {
		if !c.mentions(s, S) {
			continue
		}
		es, ok := s.(*ast.ExprStmt)
		if !ok {
			return "", false
		}
		call, ok := es.X.(*ast.CallExpr)
		if !ok || len(call.Args) == 0 {
			return "", false
		}
		name := types.ExprString(call.Fun)
		if !msSortFuncs[name] {
			return "", false
		}
		first := call.Args[0]
		if inner, isCall := first.(*ast.CallExpr); isCall && len(inner.Args) == 1 { // sort.Sort(byName(S))
			first = inner.Args[0]
		}
		if c.localVar(first) != S {
			return "", false
		}
		return name, true
	}
	return "", false
}

// appendTarget: S when s is `S = append(S, pure...)` for a local variable S, else nil.
func (c *msClassifier) appendTarget(s ast.Stmt) *types.Var {
	as, ok := s.(*ast.AssignStmt)
	if !ok || as.Tok != token.ASSIGN || len(as.Lhs) != 1 || len(as.Rhs) != 1 {
		return nil
	}
	v := c.localVar(as.Lhs[0])
	call, isCall := as.Rhs[0].(*ast.CallExpr)
	if v == nil || !isCall || len(call.Args) < 2 {
		return nil
	}
	fn, isId := call.Fun.(*ast.Ident)
	if !isId || fn.Name != "append" {
		return nil
	}
	if _, isB := c.obj(fn).(*types.Builtin); !isB {
		return nil
	}
	if c.localVar(call.Args[0]) != v {
		return nil
	}
	for _, a := range call.Args[1:] {
		if !c.pure(a) || c.mentions(a, v) {
			return nil
		}
	}
	return v
}

func (c *msClassifier) lookupOnly(rs *ast.RangeStmt) (bool, string) {
	if len(rs.Body.List) != 1 {
		return false, ""
	}
	is, ok := rs.Body.List[0].(*ast.IfStmt)
	if !ok || is.Init != nil || is.Else != nil || !c.pure(is.Cond) || len(is.Body.List) == 0 {
		return false, ""
	}
	n := len(is.Body.List)
	switch last := is.Body.List[n-1].(type) {
	case *ast.ReturnStmt:
		for _, r := range last.Results {
			if !c.pure(r) {
				return false, ""
			}
		}
		if n != 1 {
			return false, ""
		}
		return true, "single `if " + types.ExprString(is.Cond) + " { return ... }`"
	case *ast.BranchStmt:
		if last.Tok != token.BREAK || last.Label != nil {
			return false, ""
		}
		for _, s := range is.Body.List[:n-1] {
			as, ok := s.(*ast.AssignStmt)
			if !ok || (as.Tok != token.ASSIGN && as.Tok != token.DEFINE) {
				return false, ""
			}
			for _, l := range as.Lhs {
				if c.localVar(l) == nil {
					return false, ""
				}
			}
			for _, r := range as.Rhs {
				if !c.pure(r) {
					return false, ""
				}
			}
		}
		return true, "single `if " + types.ExprString(is.Cond) + " { ...; break }`"
	}
	return false, ""
}

func isConstLit(e ast.Expr) bool {
	switch v := e.(type) {
	case *ast.BasicLit:
		return true
	case *ast.Ident:
		return v.Name == "true" || v.Name == "false" || v.Name == "nil"
	case *ast.UnaryExpr:
		return isConstLit(v.X)
	case *ast.ParenExpr:
		return isConstLit(v.X)
	}
	return false
}

func (c *msClassifier) commutative(rs *ast.RangeStmt) (bool, string) {
	lv, ok := c.leaves(rs.Body.List)
	if !ok || len(lv) == 0 {
		return false, ""
	}
	return c.commutativeLeaves(rs, lv)
}

func (c *msClassifier) commutativeLeaves(rs *ast.RangeStmt, lv []ast.Stmt) (bool, string) {
	var keyObj types.Object
	if id, ok := rs.Key.(*ast.Ident); ok && id.Name != "_" {
		keyObj = c.obj(id)
	}
	type acc struct {
		target   ast.Expr
		operands []ast.Expr
	}
	var accs []acc
	var kinds []string
	for _, s := range lv {
		switch v := s.(type) {
		case *ast.IncDecStmt:
			accs = append(accs, acc{v.X, nil})
			kinds = append(kinds, "counter")
		case *ast.IfStmt: // running extremum (already validated by leaves)
			as := v.Body.List[0].(*ast.AssignStmt)
			accs = append(accs, acc{as.Lhs[0], nil})
			kinds = append(kinds, "max/min")
		case *ast.ExprStmt:
			call, ok := v.X.(*ast.CallExpr)
			if !ok || len(call.Args) != 2 {
				return false, ""
			}
			id, ok := call.Fun.(*ast.Ident)
			if !ok || id.Name != "delete" {
				return false, ""
			}
			if _, isB := c.obj(id).(*types.Builtin); !isB || !c.pure(call.Args[1]) {
				return false, ""
			}
			accs = append(accs, acc{call.Args[0], []ast.Expr{call.Args[1]}})
			kinds = append(kinds, "delete")
		case *ast.AssignStmt:
			if len(v.Lhs) != 1 || len(v.Rhs) != 1 {
				return false, ""
			}
			lhs, rhs := v.Lhs[0], v.Rhs[0]
			switch v.Tok {
			case token.ADD_ASSIGN, token.OR_ASSIGN, token.AND_ASSIGN, token.XOR_ASSIGN:
				if !c.pure(rhs) || !c.pure(lhs) {
					return false, ""
				}
				if v.Tok == token.ADD_ASSIGN {
					// string concatenation is not commutative
					if tv, ok := c.info.Types[lhs]; !ok || tv.Type == nil {
						return false, ""
					} else if b, isB := tv.Type.Underlying().(*types.Basic); !isB || b.Info()&types.IsNumeric == 0 {
						return false, ""
					}
				}
				accs = append(accs, acc{lhs, []ast.Expr{rhs}})
				kinds = append(kinds, v.Tok.String())
			case token.ASSIGN:
				if ix, isIx := lhs.(*ast.IndexExpr); isIx {
					tv, ok := c.info.Types[ix.X]
					if !ok || tv.Type == nil {
						return false, ""
					}
					if _, isMap := tv.Type.Underlying().(*types.Map); !isMap {
						return false, ""
					}
					kid, isId := ix.Index.(*ast.Ident)
					if !isId || keyObj == nil || c.obj(kid) != keyObj || !c.pure(rhs) || !c.pure(ix.X) {
						return false, ""
					}
					accs = append(accs, acc{ix.X, []ast.Expr{rhs}})
					kinds = append(kinds, "m[K]=")
					continue
				}
				if !c.pure(lhs) {
					return false, ""
				}
				if isConstLit(rhs) {
					accs = append(accs, acc{lhs, nil})
					kinds = append(kinds, "set-const")
					continue
				}
				be, isBin := rhs.(*ast.BinaryExpr)
				if !isBin || (be.Op != token.LOR && be.Op != token.LAND) || !sameExpr(be.X, lhs) || !c.pure(be.Y) {
					return false, ""
				}
				accs = append(accs, acc{lhs, []ast.Expr{be.Y}})
				kinds = append(kinds, be.Op.String())
			default:
				return false, ""
			}
		default:
			return false, ""
		}
	}
	// accumulators are write-only: no operand (and no flattened-if condition) may read one
	var targets []string
	for _, a := range accs {
		targets = append(targets, types.ExprString(a.target))
	}
	reads := func(n ast.Node) bool {
		bad := false
		ast.Inspect(n, func(x ast.Node) bool {
			if e, ok := x.(ast.Expr); ok {
				s := types.ExprString(e)
				for _, t := range targets {
					if s == t {
						bad = true
					}
				}
			}
			return !bad
		})
		return bad
	}
	for _, a := range accs {
		for _, o := range a.operands {
			if reads(o) {
				return false, ""
			}
		}
	}
	condReads := false
	var walkConds func(stmts []ast.Stmt)
	walkConds = func(stmts []ast.Stmt) {
		for _, s := range stmts {
			switch v := s.(type) {
			case *ast.BlockStmt:
				walkConds(v.List)
			case *ast.IfStmt:
				if c.isRunningExtremum(v) {
					continue
				}
				if reads(v.Cond) {
					condReads = true
				}
				walkConds(v.Body.List)
				if v.Else != nil {
					walkConds([]ast.Stmt{v.Else})
				}
			}
		}
	}
	walkConds(rs.Body.List)
	if condReads {
		return false, ""
	}
	sort.Strings(kinds)
	kinds = uniqStrings(kinds)
	return true, "leaves: " + strings.Join(kinds, ", ")
}

func uniqStrings(s []string) []string {
	var out []string
	for i, x := range s {
		if i == 0 || x != s[i-1] {
			out = append(out, x)
		}
	}
	return out
}

func (c *msClassifier) classify(rs *ast.RangeStmt, after []ast.Stmt) (string, string) {
	if ok, why := c.sortedAfter(rs, after); ok {
		return "SortedAfter", why
	}
	if ok, why := c.lookupOnly(rs); ok {
		return "LookupOnly", why
	}
	if ok, why := c.commutative(rs); ok {
		return "CommutativeAccumulate", why
	}
	return "OrderSensitive", "no rule applies"
}

// ---------------------------------------------------------------- inventory

func msFuncName(fd *ast.FuncDecl) string {
	if fd.Recv != nil && len(fd.Recv.List) > 0 {
		t := fd.Recv.List[0].Type
		for {
			switch v := t.(type) {
			case *ast.StarExpr:
				t = v.X
				continue
			case *ast.IndexExpr:
				t = v.X
				continue
			case *ast.ParenExpr:
				t = v.X
				continue
			}
			break
		}
		return types.ExprString(t) + "." + fd.Name.Name
	}
	return fd.Name.Name
}

func msHash(fset *token.FileSet, n ast.Node) string {
	var buf bytes.Buffer
	printer.Fprint(&buf, fset, n)
	h := sha256.Sum256(buf.Bytes())
	return fmt.Sprintf("%x", h[:8])
}

func msModule(repo string) string {
	b, err := os.ReadFile(filepath.Join(repo, "go.mod"))
	if err != nil {
		return "github.com/markkurossi/mpc"
	}
	for _, ln := range strings.Split(string(b), "\n") {
		if strings.HasPrefix(ln, "module ") {
			return strings.TrimSpace(strings.TrimPrefix(ln, "module "))
		}
	}
	return "github.com/markkurossi/mpc"
}

// msTable is the content of a package-level map literal ranged over by a
// LookupOnly site: the constant values of the compared component.
type msTable struct {
	Pkg, Func, Var string
	Component      string      // "value" or "key"
	Entries        [][2]string // (key constant, value constant) as exact text
	Complete       bool        // every entry of the literal is a compile-time constant
}

type msResult struct {
	Sites  []mapSite
	Notes  []string
	Tables []msTable
	Ranges map[string]int // all range statements by kind of ranged type
}

// constFalse: the condition is the compile-time constant false (dead branch).
func constFalse(info *types.Info, e ast.Expr) bool {
	tv, ok := info.Types[e]
	if !ok || tv.Value == nil {
		return false
	}
	return tv.Value.Kind() == constant.Bool && !constant.BoolVal(tv.Value)
}

// msInventory computes the inventory (used by the translator and by the c08 harness).
func msInventory(repo string) (*msResult, error) {
	l := &msLoader{repo: repo, module: msModule(repo), fset: token.NewFileSet(),
		pkgs: map[string]*types.Package{}, infos: map[string]*types.Info{}, files: map[string][]*ast.File{},
		loading: map[string]bool{}, stdFail: map[string]bool{}}
	l.std = importer.ForCompiler(l.fset, "source", nil)
	for _, rel := range mapSitePkgs {
		if _, err := l.Import(l.module + "/" + rel); err != nil {
			return nil, fmt.Errorf("mapsites: %s: %v", rel, err)
		}
	}
	res := &msResult{Ranges: map[string]int{}}
	if len(l.stdFail) > 0 {
		var f []string
		for k := range l.stdFail {
			f = append(f, k)
		}
		sort.Strings(f)
		res.Notes = append(res.Notes, "standard-library packages replaced by empty fakes: "+strings.Join(f, " "))
	}

	// ---- reference graph
	type node = types.Object
	edges := map[node][]node{}
	methodsByName := map[string][]node{}
	declOf := map[*ast.FuncDecl]node{}
	varInit := map[types.Object]ast.Expr{} // package-level var -> initialiser
	var roots []node
	for _, rel := range mapSitePkgs {
		info := l.infos[rel]
		for _, f := range l.files[rel] {
			for _, d := range f.Decls {
				if fd, ok := d.(*ast.FuncDecl); ok {
					o := info.Defs[fd.Name]
					if o == nil {
						continue
					}
					declOf[fd] = o
					if fd.Recv != nil {
						methodsByName[fd.Name.Name] = append(methodsByName[fd.Name.Name], o)
					}
					if fd.Recv == nil && fd.Name.Name == "init" {
						roots = append(roots, o)
					}
					for _, r := range mapSiteRoots[rel] {
						if msFuncName(fd) == r {
							roots = append(roots, o)
						}
					}
				}
			}
		}
	}
	addRefs := func(info *types.Info, from node, body ast.Node) {
		ast.Inspect(body, func(n ast.Node) bool {
			if is, ok := n.(*ast.IfStmt); ok && constFalse(info, is.Cond) {
				// dead branch: only the else part can run
				if is.Else != nil {
					ast.Inspect(is.Else, func(ast.Node) bool { return true })
				}
				return false
			}
			id, ok := n.(*ast.Ident)
			if !ok {
				return true
			}
			o := info.Uses[id]
			switch v := o.(type) {
			case *types.Func:
				edges[from] = append(edges[from], v)
				if sig, ok := v.Type().(*types.Signature); ok && sig.Recv() != nil {
					if _, isIface := sig.Recv().Type().Underlying().(*types.Interface); isIface {
						edges[from] = append(edges[from], methodsByName[v.Name()]...)
					}
				}
			case *types.Var:
				if v.Pkg() != nil && v.Parent() == v.Pkg().Scope() {
					edges[from] = append(edges[from], v)
				}
			}
			return true
		})
	}
	for _, rel := range mapSitePkgs {
		info := l.infos[rel]
		for _, f := range l.files[rel] {
			for _, d := range f.Decls {
				switch v := d.(type) {
				case *ast.FuncDecl:
					if o := declOf[v]; o != nil && v.Body != nil {
						addRefs(info, o, v.Body)
					}
				case *ast.GenDecl:
					if v.Tok != token.VAR {
						continue
					}
					for _, s := range v.Specs {
						vs := s.(*ast.ValueSpec)
						for i, nm := range vs.Names {
							o := info.Defs[nm]
							if o == nil {
								continue
							}
							if len(vs.Values) == len(vs.Names) {
								varInit[o] = vs.Values[i]
							}
							for _, val := range vs.Values {
								addRefs(info, o, val)
							}
						}
					}
				}
			}
		}
	}
	reach := map[node]bool{}
	work := append([]node(nil), roots...)
	for len(work) > 0 {
		n := work[len(work)-1]
		work = work[:len(work)-1]
		if reach[n] {
			continue
		}
		reach[n] = true
		work = append(work, edges[n]...)
	}

	// ---- sites
	for _, rel := range mapSitePkgs {
		info := l.infos[rel]
		cl := &msClassifier{info: info, fset: l.fset}
		for _, f := range l.files[rel] {
			for _, d := range f.Decls {
				var fname string
				var reachable bool
				var body ast.Node
				switch v := d.(type) {
				case *ast.FuncDecl:
					if v.Body == nil {
						continue
					}
					fname, reachable, body = msFuncName(v), reach[declOf[v]], v.Body
				case *ast.GenDecl:
					if v.Tok != token.VAR {
						continue
					}
					fname, body = "<package var initialiser>", v
					for _, s := range v.Specs {
						for _, nm := range s.(*ast.ValueSpec).Names {
							if o := info.Defs[nm]; o != nil && reach[o] {
								reachable = true
							}
						}
					}
				default:
					continue
				}
				dead := 0 // > 0 inside an `if false { ... }` branch
				record := func(kind string, n ast.Node, expr, class, reason string, hashOf ast.Node) {
					p := l.fset.Position(n.Pos())
					relf, _ := filepath.Rel(repo, p.Filename)
					r := reachable
					if dead > 0 {
						r = false
						reason += " [dead code: inside `if false`]"
					}
					res.Sites = append(res.Sites, mapSite{Kind: kind, Pkg: rel, Func: fname, File: relf, Line: p.Line,
						Expr: expr, Hash: msHash(l.fset, hashOf), Class: class, Reason: reason, Reachable: r})
				}
				// walk keeps the statement list that follows each range statement
				var walk func(list []ast.Stmt)
				var inspect func(n ast.Node)
				inspect = func(n ast.Node) {
					ast.Inspect(n, func(x ast.Node) bool {
						switch v := x.(type) {
						case *ast.IfStmt:
							if constFalse(info, v.Cond) {
								dead++
								walk(v.Body.List)
								dead--
								if v.Else != nil {
									inspect(v.Else)
								}
								return false
							}
						case *ast.BlockStmt:
							walk(v.List)
							return false
						case *ast.CaseClause:
							for _, e := range v.List {
								inspect(e)
							}
							walk(v.Body)
							return false
						case *ast.CommClause:
							if v.Comm != nil {
								inspect(v.Comm)
							}
							walk(v.Body)
							return false
						case *ast.AssignStmt:
							for _, lhs := range v.Lhs {
								if v.Tok == token.DEFINE {
									break
								}
								if f := msParamsField(info, lhs); f != "" {
									record("paramwrite", v, f, "OrderSensitive", "write to utils.Params."+f+": "+types.ExprString(lhs), v)
								}
							}
						case *ast.IncDecStmt:
							if f := msParamsField(info, v.X); f != "" {
								record("paramwrite", v, f, "OrderSensitive", "write to utils.Params."+f+": "+types.ExprString(v.X), v)
							}
						case *ast.GoStmt:
							record("go", v, types.ExprString(v.Call.Fun), "OrderSensitive", "go statement", v)
						case *ast.SelectStmt:
							record("select", v, "select", "OrderSensitive", "select statement", v)
						}
						return true
					})
				}
				walk = func(list []ast.Stmt) {
					for i, s := range list {
						if ls, ok := s.(*ast.LabeledStmt); ok {
							s = ls.Stmt
						}
						// directory listings in directory order: x, err := f.Readdirnames(n) / f.Readdir(n)
						if as, ok := s.(*ast.AssignStmt); ok && len(as.Rhs) == 1 && len(as.Lhs) >= 1 {
							if call, ok := as.Rhs[0].(*ast.CallExpr); ok {
								if sel, ok := call.Fun.(*ast.SelectorExpr); ok && (sel.Sel.Name == "Readdirnames" || sel.Sel.Name == "Readdir") {
									class, why := "OrderSensitive", "directory order used as is"
									if S := cl.localVar(as.Lhs[0]); S != nil {
										if name, ok := cl.sortedNext(S, list[i+1:]); ok {
											class, why = "SortedAfter", fmt.Sprintf("next use of %s is %s", S.Name(), name)
										}
									}
									record("readdir", as, types.ExprString(call), class, why, as)
								}
							}
						}
						if rs, ok := s.(*ast.RangeStmt); ok {
							tv, has := info.Types[rs.X]
							switch {
							case !has || tv.Type == nil || tv.Type == types.Typ[types.Invalid]:
								res.Ranges["unresolved"]++
								record("range", rs, types.ExprString(rs.X), "OrderSensitive", "unresolved type of ranged expression", rs.Body)
							default:
								switch u := tv.Type.Underlying().(type) {
								case *types.Map:
									res.Ranges["map"]++
									class, why := cl.classify(rs, list[i+1:])
									record("range", rs, types.ExprString(rs.X), class, why, rs.Body)
									if class == "LookupOnly" {
										res.Tables = append(res.Tables, cl.lookupTable(rs, rel, fname, varInit))
									}
								case *types.Slice:
									res.Ranges["slice"]++
								case *types.Array:
									res.Ranges["array"]++
								case *types.Pointer:
									res.Ranges["array"]++
								case *types.Basic:
									if u.Info()&types.IsString != 0 {
										res.Ranges["string"]++
									} else {
										res.Ranges["integer"]++
									}
								case *types.Chan:
									res.Ranges["channel"]++
									record("range", rs, types.ExprString(rs.X), "OrderSensitive", "range over a channel", rs.Body)
								case *types.Signature:
									res.Ranges["func"]++
									record("range", rs, types.ExprString(rs.X), "OrderSensitive", "range over a function iterator", rs.Body)
								default:
									res.Ranges["other"]++
									record("range", rs, types.ExprString(rs.X), "OrderSensitive", "range over "+tv.Type.String(), rs.Body)
								}
							}
							inspect(rs.X)
							walk(rs.Body.List)
							continue
						}
						inspect(s)
					}
				}
				switch v := body.(type) {
				case *ast.BlockStmt:
					walk(v.List)
				default:
					inspect(v)
				}
			}
		}
	}
	sort.SliceStable(res.Sites, func(i, j int) bool {
		a, b := res.Sites[i], res.Sites[j]
		if a.File != b.File {
			return a.File < b.File
		}
		return a.Line < b.Line
	})
	sort.SliceStable(res.Tables, func(i, j int) bool {
		a, b := res.Tables[i], res.Tables[j]
		if a.Pkg != b.Pkg {
			return a.Pkg < b.Pkg
		}
		return a.Func+a.Var < b.Func+b.Var
	})
	return res, nil
}

// msIsParams: t is compiler/utils.Params or a pointer to it.
func msIsParams(t types.Type) bool {
	if t == nil {
		return false
	}
	if p, ok := t.(*types.Pointer); ok {
		t = p.Elem()
	}
	n, ok := t.(*types.Named)
	if !ok || n.Obj() == nil || n.Obj().Pkg() == nil {
		return false
	}
	return n.Obj().Name() == "Params" && strings.HasSuffix(n.Obj().Pkg().Path(), "compiler/utils")
}

// msParamsField: when the assigned expression is (an element of, or a field below) a field of a
// utils.Params value, the name of that field; else "".
func msParamsField(info *types.Info, e ast.Expr) string {
	for {
		switch v := e.(type) {
		case *ast.ParenExpr:
			e = v.X
		case *ast.IndexExpr:
			e = v.X
		case *ast.StarExpr:
			e = v.X
		case *ast.SelectorExpr:
			if tv, ok := info.Types[v.X]; ok && msIsParams(tv.Type) {
				return v.Sel.Name
			}
			e = v.X
		default:
			return ""
		}
	}
}

// lookupTable extracts, for a LookupOnly site over a package-level map
// variable initialised by a composite literal, the constants of the component
// that the condition compares (the loop value V or the loop key K).
func (c *msClassifier) lookupTable(rs *ast.RangeStmt, pkg, fn string, varInit map[types.Object]ast.Expr) msTable {
	t := msTable{Pkg: pkg, Func: fn, Var: types.ExprString(rs.X), Component: "value"}
	is := rs.Body.List[0].(*ast.IfStmt)
	var kObj, vObj types.Object
	if id, ok := rs.Key.(*ast.Ident); ok && id.Name != "_" {
		kObj = c.obj(id)
	}
	if id, ok := rs.Value.(*ast.Ident); ok && id.Name != "_" {
		vObj = c.obj(id)
	}
	usesK, usesV := c.mentions(is.Cond, kObj), c.mentions(is.Cond, vObj)
	switch {
	case usesK && !usesV:
		t.Component = "key"
	case usesV && !usesK:
		t.Component = "value"
	default:
		t.Component = "both"
	}
	var o types.Object
	switch x := rs.X.(type) {
	case *ast.Ident:
		o = c.obj(x)
	case *ast.SelectorExpr:
		o = c.obj(x.Sel)
	}
	lit, ok := varInit[o].(*ast.CompositeLit)
	if !ok {
		return t
	}
	t.Complete = true
	for _, el := range lit.Elts {
		kv, ok := el.(*ast.KeyValueExpr)
		if !ok {
			t.Complete = false
			continue
		}
		tk, hk := c.info.Types[kv.Key]
		tv, hv := c.info.Types[kv.Value]
		if !hk || !hv || tk.Value == nil || tv.Value == nil {
			t.Complete = false
			continue
		}
		t.Entries = append(t.Entries, [2]string{msConstText(tk.Value), msConstText(tv.Value)})
	}
	return t
}

// msConstText: string constants as their content, other constants exactly.
func msConstText(v constant.Value) string {
	if v.Kind() == constant.String {
		return constant.StringVal(v)
	}
	return v.ExactString()
}

func coqString(s string) string {
	s = strings.ReplaceAll(s, "\"", "\"\"")
	s = strings.ReplaceAll(s, "\n", " ")
	s = strings.ReplaceAll(s, "\t", " ")
	var sb strings.Builder
	for _, r := range s {
		if r < 32 || r > 126 {
			sb.WriteByte('?')
		} else {
			sb.WriteRune(r)
		}
	}
	return "\"" + sb.String() + "\""
}

// coqBytes: the bytes of s as a Coq list of N (characters outside printable ASCII become '?',
// as in coqString, so that both renderings encode the same text).
func coqBytes(s string) string {
	var parts []string
	for _, r := range s {
		if r < 32 || r > 126 {
			r = '?'
		}
		parts = append(parts, fmt.Sprintf("%d", r))
	}
	return "[" + strings.Join(parts, "; ") + "]"
}

func genMapSites(repo, out string) error {
	res, err := msInventory(repo)
	if err != nil {
		return err
	}
	sites := res.Sites
	var sb strings.Builder
	sb.WriteString("(* MapSites.v — GENERATED by `harness gen` (harness/gen_mapsites.go) from the Go source of the\n   repository on every check run.  Do not edit.\n   Inventory of every `range` over a map-typed expression and of every go/select statement in the\n   packages of the compile path, with the syntactic class decided by the rules documented in\n   harness/gen_mapsites.go. *)\n")
	sb.WriteString("From Coq Require Import String List NArith.\nImport ListNotations.\nOpen Scope string_scope.\n\n")
	sb.WriteString("Inductive site_class : Type := SortedAfter | LookupOnly | CommutativeAccumulate | OrderSensitive.\n\n")
	sb.WriteString("Record site : Type := mkSite {\n  s_pkg : string;    (* Go package (directory below the repository root) *)\n  s_func : string;   (* enclosing function or Type.method *)\n  s_file : string;   (* file *)\n  s_line : N;        (* line of the statement *)\n  s_expr : string;   (* ranged expression *)\n  s_hash : string;   (* sha256 prefix of the printed loop body *)\n  s_class : site_class;\n  s_why : string     (* which rule fired *)\n}.\n\n")
	for _, n := range res.Notes {
		sb.WriteString("(* note: " + strings.ReplaceAll(n, "*)", "* )") + " *)\n")
	}
	var kinds []string
	for k := range res.Ranges {
		kinds = append(kinds, k)
	}
	sort.Strings(kinds)
	sb.WriteString("(* all range statements of the eight packages by kind of the ranged type:")
	for _, k := range kinds {
		sb.WriteString(fmt.Sprintf(" %s=%d", k, res.Ranges[k]))
	}
	sb.WriteString(" *)\n\n")
	emit := func(name, comment string, pred func(s mapSite) bool) {
		sb.WriteString("(* " + comment + " *)\n")
		sb.WriteString("Definition " + name + " : list site := [")
		first := true
		for _, s := range sites {
			if !pred(s) {
				continue
			}
			if !first {
				sb.WriteString(";")
			}
			first = false
			sb.WriteString(fmt.Sprintf("\n  mkSite %s %s %s %d %s %s %s %s",
				coqString(s.Pkg), coqString(s.Func), coqString(s.File), s.Line, coqString(s.Expr),
				coqString(s.Hash), s.Class, coqString(s.Reason)))
		}
		sb.WriteString("\n].\n\n")
	}
	emit("sites", "map-range sites in functions reachable from Compiler.Compile/CompileFile/CompileSSA/Stream/StreamFile/ParseFile, Circuit.Marshal/MarshalFormat/MarshalBristol and init functions",
		func(s mapSite) bool { return s.Kind == "range" && s.Reachable })
	emit("unreachable_sites", "map-range sites of the same packages in functions NOT reachable from those roots, or inside `if false` (information only)",
		func(s mapSite) bool { return s.Kind == "range" && !s.Reachable })
	emit("go_sites", "go and select statements in the same packages, reachable (scheduling nondeterminism on the compile path)",
		func(s mapSite) bool { return (s.Kind == "go" || s.Kind == "select") && s.Reachable })
	emit("unreachable_go_sites", "go and select statements in the same packages, not reachable from the roots (information only)",
		func(s mapSite) bool { return (s.Kind == "go" || s.Kind == "select") && !s.Reachable })
	emit("readdir_sites", "directory listings in directory order (os.File.Readdirnames/Readdir; os.ReadDir sorts and is not listed), reachable: SortedAfter when the result is sorted before any other use",
		func(s mapSite) bool { return s.Kind == "readdir" && s.Reachable })
	emit("unreachable_readdir_sites", "the same, not reachable from the roots (information only)",
		func(s mapSite) bool { return s.Kind == "readdir" && !s.Reachable })
	emit("param_writes", "assignments to (elements of / fields below) fields of a compiler/utils.Params value in functions reachable from the compile roots: the configuration must be read-only during a compilation (s_expr = field)",
		func(s mapSite) bool { return s.Kind == "paramwrite" && s.Reachable })
	emit("unreachable_param_writes", "the same in functions not reachable from the roots (constructors, flag parsing, Close, LoadSymbolIDs; information only)",
		func(s mapSite) bool { return s.Kind == "paramwrite" && !s.Reachable })
	// lookup tables
	sb.WriteString("(* Package-level map literals ranged over by the LookupOnly sites: (key, value) of every\n   entry as text (string constants: their content; other constants: exact value); t_component says\n   which one the loop compares.  table_complete = every entry of the literal was a\n   compile-time constant.  `NoDup` of the entries is the side condition of the LookupOnly class. *)\n")
	sb.WriteString("Record lookup_table : Type := mkTable {\n  t_pkg : string; t_func : string; t_var : string; t_component : string;\n  t_complete : bool; t_entries : list (string * string) }.\n\n")
	sb.WriteString("Definition lookup_tables : list lookup_table := [")
	for i, t := range res.Tables {
		if i > 0 {
			sb.WriteString(";")
		}
		var es []string
		for _, e := range t.Entries {
			es = append(es, "("+coqString(e[0])+", "+coqString(e[1])+")")
		}
		compl := "false"
		if t.Complete {
			compl = "true"
		}
		sb.WriteString(fmt.Sprintf("\n  mkTable %s %s %s %s %s\n    [%s]", coqString(t.Pkg), coqString(t.Func), coqString(t.Var),
			coqString(t.Component), compl, strings.Join(es, "; ")))
	}
	sb.WriteString("\n].\n\n")
	// the same tables without Coq strings (the executable model must not mention the type
	// [string]: the OCaml driver opens the extracted module): text = list of byte values
	sb.WriteString("(* The same tables as byte lists, one definition per table, for the executable model\n   (Lang/Determ.v refers to them by name: a renamed or removed Go variable breaks the build). *)\n")
	sb.WriteString("Definition text : Type := list N.\n\n")
	seenT := map[string]bool{}
	for _, t := range res.Tables {
		name := "table_" + strings.ReplaceAll(strings.ReplaceAll(t.Pkg, "/", "_"), "-", "_") + "_" + strings.ReplaceAll(t.Var, ".", "_")
		if seenT[name] {
			continue
		}
		seenT[name] = true
		sb.WriteString("Definition " + name + " : list (text * text) := [")
		for i, e := range t.Entries {
			if i > 0 {
				sb.WriteString(";")
			}
			sb.WriteString(fmt.Sprintf("\n  (%s, %s) (* %s = %s *)", coqBytes(e[0]), coqBytes(e[1]), strings.ReplaceAll(e[0], "*)", "* )"), strings.ReplaceAll(e[1], "*)", "* )")))
		}
		sb.WriteString("\n]%N.\n\n")
	}
	return writeIfChanged(filepath.Join(out, "MapSites.v"), sb.String())
}
