package main

// Property C18 — sha2pc: SHA256(XOR) protocol correct, resumable, canonical
// encodings.  Three parts:
//  (a) full protocol runs per curve and input class with deterministic
//      randomness, restarted from serialised sessions at every round boundary;
//  (b) every encoded message/state decoded by Go and by the model (fields,
//      accept/reject class, re-encoding);
//  (c) mutations of every encoding under recover: class Ok/Err/Panic of the Go
//      decoder must equal the model's; a panic, a hang, or an accepted
//      encoding that does not re-encode to itself is an oracle failure.

import (
	"bytes"
	"crypto/elliptic"
	crand "crypto/rand"
	"crypto/sha256"
	"encoding/binary"
	"fmt"
	"io"
	"math/big"
	"os"
	"os/exec"
	"path/filepath"
	"runtime"
	"strings"
	"sync"
	"testing/iotest"
	"time"

	"github.com/markkurossi/mpc/ot"
	"github.com/markkurossi/mpc/sha2pc"
)

func init() {
	// a fresh-process child of the restart family (see c18FreshProcess): it only
	// decodes the files it is given and continues the protocol from there
	if role := os.Getenv("C18_CHILD"); role != "" {
		os.Exit(c18Child(role))
	}
	register("c18", runC18)
}

type c18Curve struct {
	name string
	c    elliptic.Curve
	id   int
	bl   int
}

var c18Curves = []c18Curve{
	{"P-224", elliptic.P224(), 0, 28},
	{"P-256", elliptic.P256(), 1, 32},
	{"P-384", elliptic.P384(), 2, 48},
	{"P-521", elliptic.P521(), 3, 66},
}

// message kinds (also the case kind of the model entry)
const (
	c18R1 = 1
	c18R2 = 2
	c18R3 = 3
	c18GS = 4
	c18ES = 5
)

var c18KindName = map[int]string{c18R1: "DecodeRound1", c18R2: "DecodeRound2", c18R3: "DecodeRound3",
	c18GS: "DecodeGarblerSession", c18ES: "DecodeEvaluatorSession"}

// ---------------------------------------------------------------- protocol

type c18Run struct {
	cv         c18Curve
	a, b       [32]byte
	s1, s2, s3 uint64
	r1         sha2pc.Round1Payload
	gs         *sha2pc.GarblerSession
	r2         sha2pc.Round2Payload
	es         *sha2pc.EvaluatorSession
	r3         sha2pc.Round3Payload
	digest     [32]byte
	enc        map[int][]byte
}

// restart plan: how many times a session goes through Encode/Decode at each
// round boundary, and whether messages cross the wire encoded.
type c18Plan struct {
	G1, G2, E2, E3 int
	Wire           bool
}

func (p c18Plan) String() string {
	return fmt.Sprintf("g1=%d,g2=%d,e2=%d,e3=%d,wire=%v", p.G1, p.G2, p.E2, p.E3, p.Wire)
}

func c18ThruGS(cv c18Curve, s *sha2pc.GarblerSession, n int) (*sha2pc.GarblerSession, []byte, error) {
	var last []byte
	for i := 0; i < n; i++ {
		b, err := sha2pc.EncodeGarblerSession(cv.c, s)
		if err != nil {
			return nil, nil, err
		}
		last = b
		s, err = sha2pc.DecodeGarblerSession(cv.c, b)
		if err != nil {
			return nil, nil, err
		}
	}
	return s, last, nil
}

func c18ThruES(cv c18Curve, s *sha2pc.EvaluatorSession, n int) (*sha2pc.EvaluatorSession, []byte, error) {
	var last []byte
	for i := 0; i < n; i++ {
		b, err := sha2pc.EncodeEvaluatorSession(cv.c, s)
		if err != nil {
			return nil, nil, err
		}
		last = b
		s, err = sha2pc.DecodeEvaluatorSession(cv.c, b)
		if err != nil {
			return nil, nil, err
		}
	}
	return s, last, nil
}

// c18Protocol runs the four rounds under a restart plan.  When base is
// non-nil every encoding produced on the way is compared with base's.
func c18Protocol(cv c18Curve, a, b [32]byte, s1, s2, s3 uint64, plan c18Plan, base *c18Run) (*c18Run, error) {
	run := &c18Run{cv: cv, a: a, b: b, s1: s1, s2: s2, s3: s3, enc: map[int][]byte{}}
	same := func(kind int, got []byte) error {
		if base != nil && !bytes.Equal(got, base.enc[kind]) {
			return fmt.Errorf("resume: %s differs from the uninterrupted run", c18KindName[kind])
		}
		return nil
	}
	var err error
	run.r1, run.gs, err = sha2pc.GarblerRound1(NewRNG(s1), cv.c)
	if err != nil {
		return nil, fmt.Errorf("GarblerRound1: %v", err)
	}
	if run.enc[c18R1], err = sha2pc.EncodeRound1(cv.c, run.r1); err != nil {
		return nil, fmt.Errorf("EncodeRound1: %v", err)
	}
	if run.enc[c18GS], err = sha2pc.EncodeGarblerSession(cv.c, run.gs); err != nil {
		return nil, fmt.Errorf("EncodeGarblerSession: %v", err)
	}
	if err = same(c18R1, run.enc[c18R1]); err != nil {
		return nil, err
	}
	if err = same(c18GS, run.enc[c18GS]); err != nil {
		return nil, err
	}
	gs := run.gs
	if gs, _, err = c18ThruGS(cv, gs, plan.G1); err != nil {
		return nil, fmt.Errorf("garbler restart after round 1: %v", err)
	}
	r1 := run.r1
	if plan.Wire {
		if r1, err = sha2pc.DecodeRound1(cv.c, run.enc[c18R1]); err != nil {
			return nil, fmt.Errorf("DecodeRound1: %v", err)
		}
	}
	var es *sha2pc.EvaluatorSession
	run.r2, es, err = sha2pc.EvaluatorRound2(NewRNG(s2), cv.c, r1, b)
	if err != nil {
		return nil, fmt.Errorf("EvaluatorRound2: %v", err)
	}
	run.es = es
	if run.enc[c18R2], err = sha2pc.EncodeRound2(cv.c, run.r2); err != nil {
		return nil, fmt.Errorf("EncodeRound2: %v", err)
	}
	if run.enc[c18ES], err = sha2pc.EncodeEvaluatorSession(cv.c, es); err != nil {
		return nil, fmt.Errorf("EncodeEvaluatorSession: %v", err)
	}
	if err = same(c18R2, run.enc[c18R2]); err != nil {
		return nil, err
	}
	if err = same(c18ES, run.enc[c18ES]); err != nil {
		return nil, err
	}
	if es, _, err = c18ThruES(cv, es, plan.E2); err != nil {
		return nil, fmt.Errorf("evaluator restart after round 2: %v", err)
	}
	r2 := run.r2
	if plan.Wire {
		if r2, err = sha2pc.DecodeRound2(cv.c, run.enc[c18R2]); err != nil {
			return nil, fmt.Errorf("DecodeRound2: %v", err)
		}
	}
	var gsb []byte
	if gs, gsb, err = c18ThruGS(cv, gs, plan.G2); err != nil {
		return nil, fmt.Errorf("garbler restart after round 2: %v", err)
	}
	if gsb != nil {
		if err = same(c18GS, gsb); err != nil {
			return nil, err
		}
	}
	run.r3, err = sha2pc.GarblerRound3(NewRNG(s3), cv.c, gs, a, r2)
	if err != nil {
		return nil, fmt.Errorf("GarblerRound3: %v", err)
	}
	if run.enc[c18R3], err = sha2pc.EncodeRound3(run.r3); err != nil {
		return nil, fmt.Errorf("EncodeRound3: %v", err)
	}
	if err = same(c18R3, run.enc[c18R3]); err != nil {
		return nil, err
	}
	r3 := run.r3
	if plan.Wire {
		if r3, err = sha2pc.DecodeRound3(run.enc[c18R3]); err != nil {
			return nil, fmt.Errorf("DecodeRound3: %v", err)
		}
	}
	var esb []byte
	if es, esb, err = c18ThruES(cv, es, plan.E3); err != nil {
		return nil, fmt.Errorf("evaluator restart after round 3: %v", err)
	}
	if esb != nil {
		if err = same(c18ES, esb); err != nil {
			return nil, err
		}
	}
	run.digest, err = sha2pc.EvaluatorRound4(cv.c, es, r3)
	if err != nil {
		return nil, fmt.Errorf("EvaluatorRound4: %v", err)
	}
	if base != nil && run.digest != base.digest {
		return nil, fmt.Errorf("resume: digest differs from the uninterrupted run")
	}
	return run, nil
}

// sha2pcTranscript runs the protocol with randomness derived from seed and
// returns the encoded Round3 payload, the garbler's global offset R of that
// run and both labels of every output wire as they appear in
// Round3Payload.OutputHints.  (For the C04 check: hints[i][0] xor hints[i][1]
// == R for every output wire, finding F2.)
func sha2pcTranscript(curve elliptic.Curve, a, b [32]byte, seed uint64) (round3 []byte, R ot.Label, hints [][2]ot.Label, err error) {
	cv := c18Curve{name: curve.Params().Name, c: curve, bl: (curve.Params().BitSize + 7) / 8}
	root := NewRNG(seed)
	s1, s2, s3 := root.U64(), root.U64(), root.U64()
	run, err := c18Protocol(cv, a, b, s1, s2, s3, c18Plan{}, nil)
	if err != nil {
		return nil, R, nil, err
	}
	// GarblerRound3 reads the 32-byte key and then calls Circuit.Garble,
	// whose first 16 random bytes are R (S bit forced).
	rng := NewRNG(s3)
	var key [32]byte
	io.ReadFull(rng, key[:])
	g, err := sha2pc.VerifC18Circuit().Garble(rng, key[:])
	if err != nil {
		return nil, R, nil, err
	}
	R = g.R
	hints = make([][2]ot.Label, len(run.r3.OutputHints))
	for i, w := range run.r3.OutputHints {
		hints[i] = [2]ot.Label{w.L0, w.L1}
	}
	return run.enc[c18R3], R, hints, nil
}

// ---------------------------------------------------------------- s-expressions

// blobSX: a byte string as ONE integer whose big-endian bytes are 0x01 ‖ data.
func blobSX(data []byte) SX {
	buf := make([]byte, 1+len(data))
	buf[0] = 1
	copy(buf[1:], data)
	return Big(new(big.Int).SetBytes(buf))
}

// a payload is a list of segments: (0 b...) literal bytes, (1 blob), (2 n b) n copies of b
type c18Seg struct {
	kind  int
	data  []byte
	count int
	b     byte
}

func c18Lit(d []byte) c18Seg        { return c18Seg{kind: 0, data: d} }
func c18Blob(d []byte) c18Seg       { return c18Seg{kind: 1, data: d} }
func c18Rep(n int, b byte) c18Seg   { return c18Seg{kind: 2, count: n, b: b} }
func c18Auto(d []byte) []c18Seg {
	if len(d) <= 96 {
		return []c18Seg{c18Lit(d)}
	}
	return []c18Seg{c18Blob(d)}
}

func c18Expand(segs []c18Seg) []byte {
	var out []byte
	for _, s := range segs {
		switch s.kind {
		case 0, 1:
			out = append(out, s.data...)
		case 2:
			out = append(out, bytes.Repeat([]byte{s.b}, s.count)...)
		}
	}
	return out
}

func c18SegsSX(segs []c18Seg) SX {
	l := make([]SX, 0, len(segs))
	for _, s := range segs {
		switch s.kind {
		case 0:
			items := make([]SX, 0, 1+len(s.data))
			items = append(items, I(0))
			for _, v := range s.data {
				items = append(items, I(int(v)))
			}
			l = append(l, L(items...))
		case 1:
			l = append(l, L(I(1), blobSX(s.data)))
		case 2:
			l = append(l, L(I(2), I(s.count), I(int(s.b))))
		}
	}
	return L(l...)
}

func bigOr0(v *big.Int) SX {
	if v == nil {
		return I(0)
	}
	return Big(v)
}

func labelsBytes(ls []ot.Label) []byte {
	out := make([]byte, 0, 16*len(ls))
	var tmp ot.LabelData
	for _, l := range ls {
		l.GetData(&tmp)
		out = append(out, tmp[:]...)
	}
	return out
}

// decoded fields of the five kinds of values, as the model prints them
func c18FieldsR1(p sha2pc.Round1Payload) []SX {
	return []SX{U64(p.SessionID), Bytes([]byte(p.OT.CurveName)), bigOr0(p.OT.A.X), bigOr0(p.OT.A.Y)}
}

func c18FieldsR2(p sha2pc.Round2Payload) []SX {
	xs := make([]SX, len(p.Choices))
	ys := make([]SX, len(p.Choices))
	for i, pt := range p.Choices {
		xs[i] = bigOr0(pt.X)
		ys[i] = bigOr0(pt.Y)
	}
	return []SX{U64(p.SessionID), Bytes([]byte(p.CurveName)), L(xs...), L(ys...)}
}

func c18FieldsR3(p sha2pc.Round3Payload) []SX {
	var tables []ot.Label
	for _, row := range p.GarbledTables {
		tables = append(tables, row...)
	}
	var hints, cts []byte
	for _, w := range p.OutputHints {
		hints = append(hints, labelsBytes([]ot.Label{w.L0, w.L1})...)
	}
	for _, ct := range p.Ciphertexts {
		cts = append(cts, ct.Zero[:]...)
		cts = append(cts, ct.One[:]...)
	}
	return []SX{U64(p.SessionID), blobSX(p.Key[:]), blobSX(labelsBytes(tables)),
		blobSX(labelsBytes(p.GarblerInputs)), blobSX(hints), blobSX(cts)}
}

func c18FieldsGS(p *sha2pc.GarblerSession) []SX {
	s := p.SenderSetup
	return []SX{U64(p.SessionID), Bytes([]byte(s.CurveName)), bigOr0(s.Scalar), bigOr0(s.Ax), bigOr0(s.Ay),
		bigOr0(s.AaInvX), bigOr0(s.AaInvY)}
}

func c18FieldsES(p *sha2pc.EvaluatorSession) []SX {
	s := p.ChoiceBundle
	sc := make([]SX, len(s.Scalars))
	for i, v := range s.Scalars {
		sc[i] = bigOr0(v)
	}
	return []SX{U64(p.SessionID), Bytes([]byte(s.CurveName)), bigOr0(s.Ax), bigOr0(s.Ay), L(sc...), Bits(s.Bits)}
}

// ---------------------------------------------------------------- decoding under recover

const (
	clsOk    = 0
	clsErr   = 1
	clsPanic = 2
)

type c18Decoded struct {
	class  int
	msg    string
	obs    []SX   // decoded fields
	reCls  int    // class of re-encoding the decoded value
	reEnc  []byte // its bytes
	val    interface{}
	millis int64
}

func c18Guard(f func() error) (cls int, msg string) {
	defer func() {
		if r := recover(); r != nil {
			cls = clsPanic
			msg = fmt.Sprint(r)
		}
	}()
	if err := f(); err != nil {
		return clsErr, err.Error()
	}
	return clsOk, ""
}

// c18Decode runs the Go decoder of the given kind on data.
func c18Decode(kind int, cv c18Curve, data []byte) c18Decoded {
	var d c18Decoded
	t0 := time.Now()
	switch kind {
	case c18R1:
		var p sha2pc.Round1Payload
		d.class, d.msg = c18Guard(func() (err error) { p, err = sha2pc.DecodeRound1(cv.c, data); return })
		if d.class == clsOk {
			d.val = p
			d.obs = c18FieldsR1(p)
			d.reCls, _ = c18Guard(func() (err error) { d.reEnc, err = sha2pc.EncodeRound1(cv.c, p); return })
		}
	case c18R2:
		var p sha2pc.Round2Payload
		d.class, d.msg = c18Guard(func() (err error) { p, err = sha2pc.DecodeRound2(cv.c, data); return })
		if d.class == clsOk {
			d.val = p
			d.obs = c18FieldsR2(p)
			d.reCls, _ = c18Guard(func() (err error) { d.reEnc, err = sha2pc.EncodeRound2(cv.c, p); return })
		}
	case c18R3:
		var p sha2pc.Round3Payload
		d.class, d.msg = c18Guard(func() (err error) { p, err = sha2pc.DecodeRound3(data); return })
		if d.class == clsOk {
			d.val = p
			d.obs = c18FieldsR3(p)
			d.reCls, _ = c18Guard(func() (err error) { d.reEnc, err = sha2pc.EncodeRound3(p); return })
		}
	case c18GS:
		var p *sha2pc.GarblerSession
		d.class, d.msg = c18Guard(func() (err error) { p, err = sha2pc.DecodeGarblerSession(cv.c, data); return })
		if d.class == clsOk {
			d.val = p
			d.obs = c18FieldsGS(p)
			d.reCls, _ = c18Guard(func() (err error) { d.reEnc, err = sha2pc.EncodeGarblerSession(cv.c, p); return })
		}
	case c18ES:
		var p *sha2pc.EvaluatorSession
		d.class, d.msg = c18Guard(func() (err error) { p, err = sha2pc.DecodeEvaluatorSession(cv.c, data); return })
		if d.class == clsOk {
			d.val = p
			d.obs = c18FieldsES(p)
			d.reCls, _ = c18Guard(func() (err error) { d.reEnc, err = sha2pc.EncodeEvaluatorSession(cv.c, p); return })
		}
	}
	d.millis = time.Since(t0).Milliseconds()
	return d
}

func (d c18Decoded) observed(input []byte) SX {
	if d.class != clsOk {
		return L(I(d.class))
	}
	items := []SX{I(0)}
	items = append(items, d.obs...)
	items = append(items, I(d.reCls), Bool(d.reCls == clsOk && bytes.Equal(d.reEnc, input)))
	return L(items...)
}

// c18DecompressTable lists, for a Round2 payload, what
// elliptic.UnmarshalCompressed answers for every (X, sign) the decoder will
// ask about: entries (x odd y) or (x odd) when the point does not exist.
func c18DecompressTable(cv c18Curve, data []byte) SX {
	if len(data) < 11 {
		return L()
	}
	n, k := binary.Uvarint(data[10:])
	if k <= 0 || n > uint64(len(data)) {
		return L()
	}
	off := 10 + k + int(n)
	if off > len(data) || len(data)-off != 256*cv.bl+32 {
		return L()
	}
	rest := data[off:]
	signs := rest[256*cv.bl:]
	var items []SX
	for i := 0; i < 256; i++ {
		xb := rest[i*cv.bl : (i+1)*cv.bl]
		odd := signs[i/8]&(1<<uint(i%8)) != 0
		comp := make([]byte, 1+cv.bl)
		comp[0] = 2
		if odd {
			comp[0] = 3
		}
		copy(comp[1:], xb)
		x := new(big.Int).SetBytes(xb)
		_, y := elliptic.UnmarshalCompressed(cv.c, comp)
		if y == nil {
			items = append(items, L(Big(x), Bool(odd)))
		} else {
			items = append(items, L(Big(x), Bool(odd), Big(y)))
		}
	}
	return L(items...)
}

// ---------------------------------------------------------------- mutations

type c18Mut struct {
	name  string // mutation class (part of oracle keys / histogram)
	segs  []c18Seg
	curve *c18Curve // decode under another curve when non-nil
}

func cloneBytes(b []byte) []byte { return append([]byte(nil), b...) }

// putUvarint with extra continuation bytes: a non-minimal encoding of n
func c18PaddedUvarint(n uint64, pad int) []byte {
	var out []byte
	for n >= 0x80 {
		out = append(out, byte(n)|0x80)
		n >>= 7
	}
	if pad == 0 {
		return append(out, byte(n))
	}
	out = append(out, byte(n)|0x80)
	for i := 1; i < pad; i++ {
		out = append(out, 0x80)
	}
	return append(out, 0)
}

// c18Mutations builds the mutation set of one encoding (R1, R2, GS, ES).
// other: the same kind of message from another session on the same curve;
// foreign: the same kind from another curve.
func c18Mutations(r *RNG, kind int, cv c18Curve, enc, other, foreign []byte, foreignCurve c18Curve, n int) []c18Mut {
	var ms []c18Mut
	add := func(name string, b []byte) { ms = append(ms, c18Mut{name: name, segs: c18Auto(b)}) }
	// truncations: boundaries of the header and random
	for _, k := range []int{0, 1, 2, 3, 9, 10, 11, 15, 16, 17, len(enc) - 33, len(enc) - 32, len(enc) - 2, len(enc) - 1} {
		if k >= 0 && k < len(enc) {
			add("truncate", cloneBytes(enc[:k]))
		}
	}
	// extensions
	add("extend", append(cloneBytes(enc), 0))
	add("extend", append(cloneBytes(enc), r.Bytes(r.Range(1, 40))...))
	// magic
	for i := 0; i < 2; i++ {
		b := cloneBytes(enc)
		b[i] ^= 1 << uint(r.Intn(8))
		add("magic", b)
	}
	for _, m := range []string{"R1", "R2", "R3", "GS", "ES"} {
		if m != string(enc[:2]) {
			b := cloneBytes(enc)
			copy(b, m)
			add("magic", b)
		}
	}
	// session id of another session (decoders cannot know: must decode, the
	// rounds reject)
	if other != nil {
		b := cloneBytes(enc)
		copy(b[2:10], other[2:10])
		add("cross-session-sid", b)
		add("cross-session", cloneBytes(other))
	}
	// other curve: foreign bytes under this curve, these bytes under the foreign curve
	if foreign != nil {
		add("cross-curve-bytes", cloneBytes(foreign))
		fc := foreignCurve
		ms = append(ms, c18Mut{name: "cross-curve-decoder", segs: c18Auto(enc), curve: &fc})
		// foreign name spliced into our layout
		if kind != c18R3 {
			b := cloneBytes(enc)
			if idx := bytes.Index(b, []byte(cv.name)); idx >= 0 {
				copy(b[idx:], foreignCurve.name)
				add("cross-curve-name", b)
			}
		}
	}
	// curve name bytes
	if idx := bytes.Index(enc, []byte(cv.name)); idx >= 0 {
		b := cloneBytes(enc)
		b[idx+r.Intn(5)] ^= 1 << uint(r.Intn(8))
		add("name-flip", b)
		// non-minimal uvarint for the name length
		for _, pad := range []int{1, 2, 9} {
			b = append(cloneBytes(enc[:idx-1]), c18PaddedUvarint(5, pad)...)
			b = append(b, enc[idx:]...)
			add("name-len-nonminimal", b)
		}
		// over-long uvarint (11 bytes) / overflowing tenth byte
		b = append(cloneBytes(enc[:idx-1]), bytes.Repeat([]byte{0x80}, 10)...)
		b = append(b, enc[idx-1:]...)
		add("uvarint-overflow", b)
		b = append(cloneBytes(enc[:idx-1]), bytes.Repeat([]byte{0xff}, 9)...)
		b = append(b, 2)
		b = append(b, enc[idx:]...)
		add("uvarint-overflow", b)
		// name length 0, 4, 6, huge
		for _, nl := range []uint64{0, 4, 6, 1 << 20, 1<<20 + 1, 1 << 40} {
			b = append(cloneBytes(enc[:idx-1]), c18PaddedUvarint(nl, 0)...)
			b = append(b, enc[idx:]...)
			add("name-len", b)
		}
	}
	// sessions: the outer chunk length (offset 10)
	if kind == c18GS || kind == c18ES {
		inner, k := binary.Uvarint(enc[10:])
		body := enc[10+k:]
		mk := func(n uint64, pad int, body []byte) []byte {
			b := append(cloneBytes(enc[:10]), c18PaddedUvarint(n, pad)...)
			return append(b, body...)
		}
		add("chunk-len-nonminimal", mk(inner, 1, body))
		add("chunk-len+1", mk(inner+1, 0, body))
		add("chunk-len+1-extended", mk(inner+1, 0, append(cloneBytes(body), 0x55)))
		for _, cut := range []int{1, 2, 31, 32, 33, cv.bl, 6 + 2*cv.bl} {
			if cut < len(body) {
				add(fmt.Sprintf("chunk-shortened-%d", min(cut, 33)), mk(inner-uint64(cut), 0, body[:len(body)-cut]))
			}
		}
		add("chunk-len-0", mk(0, 0, nil))
		add("chunk-len-0-trailing", mk(0, 0, []byte{1, 2, 3}))
		add("chunk-len-short-trailing", mk(inner-1, 0, body))
		add("chunk-len-limit", mk(1<<20+1, 0, body))
	}
	// one flip in each of the first fields after the header (points, scalars)
	{
		hdr := 16
		if kind == c18GS || kind == c18ES {
			hdr = 18
		}
		for f := 0; f < 6 && hdr+(f+1)*cv.bl <= len(enc); f++ {
			b := cloneBytes(enc)
			b[hdr+f*cv.bl+1+r.Intn(cv.bl-1)] ^= 1 << uint(r.Intn(8))
			add(fmt.Sprintf("field%d-flip", f), b)
		}
	}
	// random bit flips and byte splices
	for i := 0; i < n; i++ {
		b := cloneBytes(enc)
		switch r.Intn(4) {
		case 0, 1:
			pos := r.Intn(len(b))
			b[pos] ^= 1 << uint(r.Intn(8))
			add("flip", b)
		case 2:
			// swap two aligned fields after the header
			hdr := 16
			if kind == c18GS || kind == c18ES {
				hdr = 18
			}
			nf := (len(b) - hdr) / cv.bl
			if nf >= 2 {
				i1, i2 := r.Intn(nf), r.Intn(nf)
				f1 := cloneBytes(b[hdr+i1*cv.bl : hdr+(i1+1)*cv.bl])
				copy(b[hdr+i1*cv.bl:], b[hdr+i2*cv.bl:hdr+(i2+1)*cv.bl])
				copy(b[hdr+i2*cv.bl:], f1)
			}
			add("splice-swap", b)
		case 3:
			if other != nil && len(other) == len(b) {
				lo := r.Intn(len(b))
				hi := lo + r.Intn(len(b)-lo)
				copy(b[lo:hi], other[lo:hi])
			}
			add("splice-other", b)
		}
	}
	// sign / bit bytes at the end
	if kind == c18R2 || kind == c18ES {
		for i := 0; i < 3; i++ {
			b := cloneBytes(enc)
			b[len(b)-1-r.Intn(32)] ^= 1 << uint(r.Intn(8))
			add("flip-bits-field", b)
		}
	}
	return ms
}

// c18LengthPrefixMutations: STRUCTURED malformations of every length-prefixed
// field (top level and nested): the field's uvarint is replaced by boundary
// values (minimal encodings), by non-minimal encodings and by over-long
// uvarints, the rest of the message is kept; when the nested prefix changes
// size the enclosing chunk's own prefix is rewritten so that the nested field
// is still reached.  Expected: an error, never a panic, never acceptance.
func c18LengthPrefixMutations(kind int, cv c18Curve, enc []byte) []c18Mut {
	if kind == c18R3 {
		return nil // Round3 has no length-prefixed field
	}
	type variant struct {
		class string
		bytes []byte
	}
	variants := func(trueLen uint64) []variant {
		vals := []struct {
			class string
			v     uint64
		}{
			{"0", 0}, {"1", 1}, {"len-1", trueLen - 1}, {"len+1", trueLen + 1},
			{"limit", 1 << 20}, {"limit+1", 1<<20 + 1},
			{"2^31-1", 1<<31 - 1}, {"2^31", 1 << 31}, {"2^32-1", 1<<32 - 1}, {"2^32", 1 << 32},
			{"2^62", 1 << 62}, {"2^63-1", 1<<63 - 1}, {"2^63", 1 << 63}, {"2^63+1", 1<<63 + 1},
			{"2^64-1", 1<<64 - 1},
		}
		var out []variant
		for _, x := range vals {
			out = append(out, variant{x.class, c18PaddedUvarint(x.v, 0)})
		}
		out = append(out,
			variant{"len-nonminimal+1", c18PaddedUvarint(trueLen, 1)},
			variant{"len-nonminimal+2", c18PaddedUvarint(trueLen, 2)},
			variant{"0-nonminimal", c18PaddedUvarint(0, 1)},
			variant{"overlong-11-bytes", append(bytes.Repeat([]byte{0x80}, 10), 0)},
			variant{"overflow-10th-byte-2", append(bytes.Repeat([]byte{0xff}, 9), 2)},
			variant{"overflow-10th-byte-7f", append(bytes.Repeat([]byte{0x80}, 9), 0x7f)})
		return out
	}
	var ms []c18Mut
	add := func(pos, class string, b []byte) {
		ms = append(ms, c18Mut{name: "length-prefix:" + pos + ":" + class, segs: c18Auto(b)})
	}
	outerLen, k := binary.Uvarint(enc[10:])
	if k <= 0 {
		return nil
	}
	switch kind {
	case c18R1, c18R2:
		// the curve-name chunk at offset 10
		for _, v := range variants(outerLen) {
			b := append(cloneBytes(enc[:10]), v.bytes...)
			add("curve-name", v.class, append(b, enc[10+k:]...))
		}
	case c18GS, c18ES:
		// the session chunk at offset 10
		for _, v := range variants(outerLen) {
			b := append(cloneBytes(enc[:10]), v.bytes...)
			add("session-chunk", v.class, append(b, enc[10+k:]...))
		}
		// the nested curve-name prefix, first bytes of the chunk
		inner := enc[10+k:]
		nameLen, k2 := binary.Uvarint(inner)
		if k2 <= 0 {
			return ms
		}
		for _, v := range variants(nameLen) {
			chunk := append(cloneBytes(v.bytes), inner[k2:]...)
			b := append(cloneBytes(enc[:10]), c18PaddedUvarint(uint64(len(chunk)), 0)...)
			add("nested-curve-name", v.class, append(b, chunk...))
		}
	}
	return ms
}

// c18Round3Mutations: Round3 payloads are 707146 bytes; the opaque regions
// of the mutation bases are run-length segments.
func c18Round3Mutations(r *RNG, sid uint64, n int) []c18Mut {
	total := sha2pc.VerifC18Round3PayloadLen()
	hdr := make([]byte, 42)
	copy(hdr, "R3")
	binary.BigEndian.PutUint64(hdr[2:], sid)
	copy(hdr[10:], r.Bytes(32))
	body := total - 42
	var ms []c18Mut
	base := func() []c18Seg {
		// random small literal islands inside constant runs
		a := r.Intn(body - 64)
		return []c18Seg{c18Lit(cloneBytes(hdr)), c18Rep(a, byte(r.Intn(256))), c18Lit(r.Bytes(48)),
			c18Rep(body-a-48, byte(r.Intn(256)))}
	}
	ms = append(ms, c18Mut{name: "synthetic-valid", segs: base()})
	for _, d := range []int{1, 2, 16, 4096} {
		s := base()
		s[3].count -= d
		ms = append(ms, c18Mut{name: "truncate", segs: s})
		s = base()
		s[3].count += d
		ms = append(ms, c18Mut{name: "extend", segs: s})
	}
	for _, k := range []int{0, 1, 2, 9, 10, 41, 42, 43} {
		ms = append(ms, c18Mut{name: "truncate", segs: []c18Seg{c18Lit(cloneBytes(hdr[:min(k, 42)])), c18Rep(k-min(k, 42), 7)}})
	}
	for _, m := range []string{"R1", "R2", "GS", "ES", "r3", "R\x00"} {
		s := base()
		copy(s[0].data, m)
		ms = append(ms, c18Mut{name: "magic", segs: s})
	}
	for i := 0; i < n; i++ {
		s := base()
		pos := 2 + r.Intn(40)
		s[0].data[pos] ^= 1 << uint(r.Intn(8))
		ms = append(ms, c18Mut{name: "flip", segs: s})
	}
	return ms
}

// reason an accepted encoding is not canonical
func c18NonCanonical(input, reenc []byte) string {
	switch {
	case len(input) > len(reenc) && bytes.Equal(input[:len(reenc)], reenc):
		return "trailing-bytes"
	case len(input) < len(reenc):
		return "short-input"
	case len(input) > len(reenc):
		return "longer-different"
	default:
		return "same-length-different"
	}
}

type c18Replay struct {
	Seed  uint64 `json:"seed"`
	Curve string `json:"curve"`
	What  string `json:"what"`
	Kind  string `json:"kind,omitempty"`
	Mut   string `json:"mutation,omitempty"`
	A     string `json:"a,omitempty"`
	B     string `json:"b,omitempty"`
	Plan  string `json:"plan,omitempty"`
	Seeds string `json:"round_seeds,omitempty"`
	Bytes string `json:"bytes,omitempty"`
	Got   string `json:"got,omitempty"`
	Want  string `json:"want,omitempty"`
}

func hexHead(b []byte) string {
	if len(b) > 600 {
		return fmt.Sprintf("%x…(%d bytes)", b[:600], len(b))
	}
	return fmt.Sprintf("%x", b)
}

// c18EmitDecode: one decode case (correspondence) + the oracle on it.
func c18EmitDecode(c *Ctx, kind int, cv c18Curve, m c18Mut, pristine bool) c18Decoded {
	data := c18Expand(m.segs)
	dcv := cv
	if m.curve != nil {
		dcv = *m.curve
	}
	d := c18Decode(kind, dcv, data)
	table := L()
	if kind == c18R2 {
		table = c18DecompressTable(dcv, data)
	}
	c.Case(L(I(kind), I(dcv.id), c18SegsSX(m.segs), table), d.observed(data))
	cname := []string{"ok", "err", "panic"}[d.class]
	c.Hist(fmt.Sprintf("%s:%s:%s", c18KindName[kind], m.name, cname))
	c.Eval(fmt.Sprintf("dec|%d|%d|%x", kind, dcv.id, sha256.Sum256(data)), !pristine)
	rep := c18Replay{Seed: c.Seed, Curve: dcv.name, Kind: c18KindName[kind], Mut: m.name, Bytes: hexHead(data)}
	if d.class == clsPanic {
		rep.What = "decoder panics: " + d.msg
		key := fmt.Sprintf("c18:%s:panic:%s", c18KindName[kind], m.name)
		if strings.HasPrefix(m.name, "length-prefix:") {
			key = fmt.Sprintf("c18:%s:%s:panic", c18KindName[kind], m.name)
		}
		c.Fail(key, rep.What, rep)
	}
	if d.millis > 2000 {
		rep.What = fmt.Sprintf("decoder took %d ms", d.millis)
		c.Fail(fmt.Sprintf("c18:%s:hang:%s", c18KindName[kind], m.name), rep.What, rep)
	}
	if d.class == clsOk {
		if d.reCls != clsOk {
			rep.What = "accepted bytes decode to a value that does not re-encode"
			c.Fail(fmt.Sprintf("c18:%s:accepted-not-reencodable", c18KindName[kind]), rep.What, rep)
		} else if !bytes.Equal(d.reEnc, data) {
			why := c18NonCanonical(data, d.reEnc)
			rep.What = "malformed bytes accepted: decode succeeds but the value re-encodes to different bytes (" + why + ")"
			rep.Want = "error"
			rep.Got = fmt.Sprintf("accepted; re-encodes to %d bytes, input %d bytes", len(d.reEnc), len(data))
			c.Fail(fmt.Sprintf("c18:%s:non-canonical-accepted:%s:%s", c18KindName[kind], why, m.name), rep.What, rep)
		}
	}
	if pristine && d.class != clsOk {
		rep.What = "the encoder's own output is rejected: " + d.msg
		c.Fail(fmt.Sprintf("c18:%s:roundtrip", c18KindName[kind]), rep.What, rep)
	}
	return d
}

// after an accepted (possibly mutated) message/state the next round must
// answer with a value or an error, never a panic
func c18Continue(c *Ctx, kind int, cv c18Curve, m c18Mut, d c18Decoded, run *c18Run) {
	if d.class != clsOk {
		return
	}
	var cls int
	var msg, fn string
	switch kind {
	case c18R1:
		fn = "EvaluatorRound2"
		cls, msg = c18Guard(func() error {
			_, _, err := sha2pc.EvaluatorRound2(NewRNG(run.s2), cv.c, d.val.(sha2pc.Round1Payload), run.b)
			return err
		})
	case c18R2:
		fn = "GarblerRound3"
		cls, msg = c18Guard(func() error {
			_, err := sha2pc.GarblerRound3(NewRNG(run.s3), cv.c, run.gs, run.a, d.val.(sha2pc.Round2Payload))
			return err
		})
	case c18GS:
		fn = "GarblerRound3"
		cls, msg = c18Guard(func() error {
			_, err := sha2pc.GarblerRound3(NewRNG(run.s3), cv.c, d.val.(*sha2pc.GarblerSession), run.a, run.r2)
			return err
		})
	case c18ES:
		fn = "EvaluatorRound4"
		cls, msg = c18Guard(func() error {
			_, err := sha2pc.EvaluatorRound4(cv.c, d.val.(*sha2pc.EvaluatorSession), run.r3)
			return err
		})
	case c18R3:
		fn = "EvaluatorRound4"
		cls, msg = c18Guard(func() error {
			_, err := sha2pc.EvaluatorRound4(cv.c, run.es, d.val.(sha2pc.Round3Payload))
			return err
		})
	}
	c.Hist(fmt.Sprintf("continue:%s:after-%s:%s", fn, m.name, []string{"ok", "err", "panic"}[cls]))
	c.Eval(fmt.Sprintf("cont|%d|%s|%s|%x", kind, cv.name, m.name, sha256.Sum256(c18Expand(m.segs))), true)
	if cls == clsPanic {
		rep := c18Replay{Seed: c.Seed, Curve: cv.name, Kind: c18KindName[kind], Mut: m.name,
			Bytes: hexHead(c18Expand(m.segs)), What: fn + " panics on an accepted (decoded) input: " + msg}
		c.Fail(fmt.Sprintf("c18:%s:panic-after-%s", fn, c18KindName[kind]), rep.What, rep)
	}
	if (m.name == "cross-session" || m.name == "cross-session-sid") && kind != c18R1 && cls == clsOk {
		rep := c18Replay{Seed: c.Seed, Curve: cv.name, Kind: c18KindName[kind], Mut: m.name,
			What: fn + " accepts a message/state of another session"}
		c.Fail(fmt.Sprintf("c18:%s:other-session-accepted", fn), rep.What, rep)
	}
}

// ---------------------------------------------------------------- overlapping sessions
//
// One garbler process serving several sessions (or retrying round 3): every
// Round3Payload is kept in memory as a Go value while later rounds of other
// sessions run.  The result of a round must depend on (state, message,
// randomness) only: a payload must not change after it was returned (its
// encoding taken immediately must equal its encoding taken later) and must
// still evaluate to SHA-256(a xor b).

type c18Sess struct {
	id         int
	cv         c18Curve
	a, b       [32]byte
	s1, s2, s3 uint64
	step       int // next round to run: 1..4, 5 = done
	r1         sha2pc.Round1Payload
	gs         *sha2pc.GarblerSession
	r2         sha2pc.Round2Payload
	es         *sha2pc.EvaluatorSession
	r3         sha2pc.Round3Payload
	enc3       []byte // EncodeRound3(r3) taken right after GarblerRound3 (nil: not taken)
	digest     [32]byte
}

func c18NewSess(r *RNG, id int, cv c18Curve) *c18Sess {
	s := &c18Sess{id: id, cv: cv, step: 1}
	copy(s.a[:], r.Bytes(32))
	copy(s.b[:], r.Bytes(32))
	s.s1, s.s2, s.s3 = r.U64(), r.U64(), r.U64()
	return s
}

// c18SessStep runs the session's next round; snapshot: encode the Round3
// payload immediately after it is produced.
func c18SessStep(s *c18Sess, snapshot bool) error {
	var err error
	switch s.step {
	case 1:
		s.r1, s.gs, err = sha2pc.GarblerRound1(NewRNG(s.s1), s.cv.c)
	case 2:
		s.r2, s.es, err = sha2pc.EvaluatorRound2(NewRNG(s.s2), s.cv.c, s.r1, s.b)
	case 3:
		s.r3, err = sha2pc.GarblerRound3(NewRNG(s.s3), s.cv.c, s.gs, s.a, s.r2)
		if err == nil && snapshot {
			s.enc3, err = sha2pc.EncodeRound3(s.r3)
		}
	case 4:
		s.digest, err = sha2pc.EvaluatorRound4(s.cv.c, s.es, s.r3)
	}
	if err != nil {
		return fmt.Errorf("session %d round %d: %v", s.id, s.step, err)
	}
	s.step++
	return nil
}

// c18SessCheck: after everything ran, the held payload still encodes to the
// snapshot and the digest is right.  what names the scenario (oracle key).
func c18SessCheck(c *Ctx, what, order string, s *c18Sess, stepErr error) {
	rep := c18Replay{Seed: c.Seed, Curve: s.cv.name, A: fmt.Sprintf("%x", s.a), B: fmt.Sprintf("%x", s.b),
		Seeds: fmt.Sprintf("%d,%d,%d", s.s1, s.s2, s.s3), Plan: fmt.Sprintf("%s session %d order %s", what, s.id, order)}
	if s.enc3 != nil {
		now, err := sha2pc.EncodeRound3(s.r3)
		if err != nil || !bytes.Equal(now, s.enc3) {
			diff := -1
			for i := 0; err == nil && i < len(now) && i < len(s.enc3); i++ {
				if now[i] != s.enc3[i] {
					diff = i
					break
				}
			}
			rep.What = fmt.Sprintf("a Round3 payload held in memory changed after a later GarblerRound3 in the same process (first differing byte of its encoding: %d)", diff)
			c.Fail("c18:"+what+":round3-payload-changed-after-later-garble", rep.What, rep)
		}
	}
	if stepErr != nil {
		rep.What = "a round fails when sessions overlap in one process: " + stepErr.Error()
		c.Fail("c18:"+what+":round-error", rep.What, rep)
		return
	}
	if s.step != 5 {
		return
	}
	var x [32]byte
	for i := range x {
		x[i] = s.a[i] ^ s.b[i]
	}
	if want := sha256.Sum256(x[:]); s.digest != want {
		rep.What = "evaluator output differs from SHA-256(a xor b) when sessions overlap in one process"
		rep.Got, rep.Want = fmt.Sprintf("%x", s.digest), fmt.Sprintf("%x", want)
		c.Fail("c18:"+what+":wrong-digest", rep.What, rep)
	}
}

// c18RunOrder runs the sessions' rounds in the given order (order[i] = index
// of the session whose next round runs) and checks every session.
func c18RunOrder(c *Ctx, what string, sess []*c18Sess, order []int, snapshot bool) {
	ostr := fmt.Sprint(order)
	errs := make([]error, len(sess))
	for _, k := range order {
		if errs[k] == nil {
			errs[k] = c18SessStep(sess[k], snapshot)
		}
	}
	for k, s := range sess {
		c18SessCheck(c, what, ostr, s, errs[k])
	}
	c.Eval(fmt.Sprintf("overlap|%s|%s|%v|%d", what, ostr, snapshot, sess[0].s1), true)
	c.Hist("overlap:" + what)
}

func c18Overlapping(c *Ctx) {
	cv := c18Curves[1] // P-256: the overlap is about the garbler's memory, not the curve
	r := c.rng.Fork()
	// (a) two sessions, both round-3 payloads computed before either is
	// encoded or evaluated; and the same with an immediate snapshot
	for _, snap := range []bool{false, true} {
		ss := []*c18Sess{c18NewSess(r, 0, cv), c18NewSess(r, 1, cv)}
		c18RunOrder(c, "overlapping-sessions", ss, []int{0, 1, 0, 1, 0, 1, 0, 1}, snap)
	}
	// (b) round 3 retried with fresh randomness: the FIRST payload must still
	// verify (and so must the second)
	{
		s := c18NewSess(r, 0, cv)
		var err error
		for i := 0; i < 3 && err == nil; i++ {
			err = c18SessStep(s, true)
		}
		first := *s
		if err == nil {
			s.step = 3
			s.s3 = r.U64()
			s.enc3 = nil
			err = c18SessStep(s, true) // the retry
		}
		second := *s
		var e1, e2 error
		if err == nil {
			e1 = c18SessStep(&first, false)
			e2 = c18SessStep(&second, false)
		} else {
			e1, e2 = err, err
		}
		first.id, second.id = 0, 1
		c18SessCheck(c, "round3-retry", "first-payload", &first, e1)
		c18SessCheck(c, "round3-retry", "second-payload", &second, e2)
		c.Eval(fmt.Sprintf("overlap|retry|%d", s.s1), true)
		c.Hist("overlap:round3-retry")
	}
	// (c) random interleavings of the rounds of 2..3 sessions
	n := c.N(4, 60)
	for i := 0; i < n; i++ {
		k := 2 + r.Intn(2)
		ss := make([]*c18Sess, k)
		left := make([]int, k)
		for j := range ss {
			scv := cv
			if c.Thorough() && r.Intn(4) == 0 {
				scv = c18Curves[r.Intn(3)]
			}
			ss[j] = c18NewSess(r, j, scv)
			left[j] = 4
		}
		var order []int
		for len(order) < 4*k {
			j := r.Intn(k)
			if left[j] > 0 {
				left[j]--
				order = append(order, j)
			}
		}
		c18RunOrder(c, "interleaved-sessions", ss, order, r.Intn(3) != 0)
	}
}

// ---------------------------------------------------------------- entropy faults
//
// A round function whose random source fails part-way must return an error
// (never panic) and must leave the process in a state in which later sessions
// still work: after every injected fault two overlapping sessions (the first
// Round3 payload held while the second is garbled) must both end with
// SHA-256(a xor b) and the held payload must not change.

type c18FaultReader struct {
	r    *RNG
	left int
}

func (f *c18FaultReader) Read(p []byte) (int, error) {
	if f.left <= 0 {
		return 0, fmt.Errorf("entropy source failed")
	}
	if len(p) > f.left {
		p = p[:f.left]
	}
	n, _ := f.r.Read(p)
	f.left -= n
	return n, nil
}

func c18EntropyFaults(c *Ctx) {
	cv := c18Curves[1]
	r := c.rng.Fork()
	// three sessions taken through rounds 1 and 2: F receives the faults, A and B run afterwards
	var ss [3]*c18Sess
	for i := range ss {
		ss[i] = c18NewSess(r, i, cv)
		for st := 0; st < 2; st++ {
			if err := c18SessStep(ss[i], false); err != nil {
				c.Fail("c18:entropy-fault:setup", err.Error(), c18Replay{Seed: c.Seed, Curve: cv.name, What: err.Error()})
				return
			}
		}
	}
	F, A, B := ss[0], ss[1], ss[2]
	digest := func(s *c18Sess) [32]byte {
		var x [32]byte
		for i := range x {
			x[i] = s.a[i] ^ s.b[i]
		}
		return sha256.Sum256(x[:])
	}
	// tail: A's Round3 payload is held (and snapshotted) while B is garbled
	tail := func(fn string, k int) {
		bad := ""
		r3A, err := sha2pc.GarblerRound3(NewRNG(r.U64()), cv.c, A.gs, A.a, A.r2)
		if err != nil {
			bad = "GarblerRound3 of the first later session: " + err.Error()
		}
		var snap []byte
		if bad == "" {
			snap, _ = sha2pc.EncodeRound3(r3A)
		}
		r3B, errB := sha2pc.GarblerRound3(NewRNG(r.U64()), cv.c, B.gs, B.a, B.r2)
		if bad == "" && errB != nil {
			bad = "GarblerRound3 of the second later session: " + errB.Error()
		}
		if bad == "" {
			if now, _ := sha2pc.EncodeRound3(r3A); !bytes.Equal(now, snap) {
				bad = "the held Round3 payload of the first later session changed when the second session was garbled (the two payloads share memory)"
			}
		}
		if bad == "" {
			if d, err := sha2pc.EvaluatorRound4(cv.c, A.es, r3A); err != nil {
				bad = "EvaluatorRound4 of the first later session: " + err.Error()
			} else if d != digest(A) {
				bad = "first later session: digest differs from SHA-256(a xor b)"
			}
		}
		if bad == "" {
			if d, err := sha2pc.EvaluatorRound4(cv.c, B.es, r3B); err != nil {
				bad = "EvaluatorRound4 of the second later session: " + err.Error()
			} else if d != digest(B) {
				bad = "second later session: digest differs from SHA-256(a xor b)"
			}
		}
		c.Eval(fmt.Sprintf("fault-tail|%s|%d|%d", fn, k, r.U64()), true)
		if bad != "" {
			what := fmt.Sprintf("after %s failed with its random source exhausted after %d bytes: %s", fn, k, bad)
			c.Fail(fmt.Sprintf("c18:%s:entropy-fault@%d:later-sessions-corrupted", fn, k), what,
				c18Replay{Seed: c.Seed, Curve: cv.name, Kind: fn, What: what,
					Plan: fmt.Sprintf("%s with a reader failing after %d bytes, then two overlapping sessions (first Round3 payload held while the second garbles)", fn, k)})
		}
	}
	fault := func(fn string, k int, need int, call func(rd io.Reader) error) {
		cls, msg := c18Guard(func() error { return call(&c18FaultReader{r: NewRNG(r.U64()), left: k}) })
		c.Eval(fmt.Sprintf("fault|%s|%d", fn, k), true)
		c.Hist(fmt.Sprintf("entropy-fault:%s:%s", fn, []string{"ok", "err", "panic"}[cls]))
		rep := c18Replay{Seed: c.Seed, Curve: cv.name, Kind: fn, Plan: fmt.Sprintf("reader failing after %d bytes", k)}
		if cls == clsPanic {
			rep.What = fmt.Sprintf("%s panics when its random source fails after %d bytes: %s", fn, k, msg)
			c.Fail(fmt.Sprintf("c18:%s:entropy-fault@%d:panic", fn, k), rep.What, rep)
		}
		if cls == clsOk && k < need {
			rep.What = fmt.Sprintf("%s succeeds although its random source failed after %d bytes (it needs at least %d)", fn, k, need)
			c.Fail(fmt.Sprintf("c18:%s:entropy-fault@%d:no-error", fn, k), rep.What, rep)
		}
	}
	// GarblerRound3: 32 key bytes, 16 bytes R, 512 input wires x 16 bytes
	need3 := 32 + 16 + 512*16
	sweep := []int{0, 16, 31, 32, 47, 48, 49, 48 + 16, 48 + 16*255, 48 + 16*256 + 8, need3 - 1, need3}
	if c.Thorough() {
		for j := 0; j < 40; j++ {
			sweep = append(sweep, r.Intn(need3+64))
		}
	}
	for _, k := range sweep {
		// ot.NewLabel uses a bare Read: a short final read (1..15 bytes) is taken as a label,
		// so only k <= need3-16 is certain to be an error
		fault("GarblerRound3", k, need3-15, func(rd io.Reader) error {
			_, err := sha2pc.GarblerRound3(rd, cv.c, F.gs, F.a, F.r2)
			return err
		})
		for rep := 0; rep < c.N(2, 4); rep++ { // sync.Pool reuse is not guaranteed: repeat the tail
			tail("GarblerRound3", k)
		}
	}
	// GarblerRound1 (scalar, 8-byte session id) and EvaluatorRound2 (256 scalars)
	for _, k := range []int{0, 16, 31, 32, 36, 39} {
		fault("GarblerRound1", k, 40, func(rd io.Reader) error {
			_, _, err := sha2pc.GarblerRound1(rd, cv.c)
			return err
		})
	}
	for _, k := range []int{0, 31, 32, 33, 32 * 100, 32*256 - 1} {
		fault("EvaluatorRound2", k, 32*256, func(rd io.Reader) error {
			_, _, err := sha2pc.EvaluatorRound2(rd, cv.c, F.r1, F.b)
			return err
		})
	}
	tail("EvaluatorRound2", 32*256-1)
}

// ---------------------------------------------------------------- directed Round3 tampering
//
// The evaluator must answer a tampered Round3 with an error or with the right
// digest, never with another digest; and it MUST answer with an error when
// the label it holds on some output wire is neither of that wire's hints.
// Hint tampering leaves the evaluator's output labels as in the honest run
// (known here: hint[bit]), so those cases are also correspondence cases for
// the model's output-decoding step (kind 8).

func c18TamperRound3(c *Ctx, run *c18Run) {
	cv := run.cv
	r := c.rng.Fork()
	enc := run.enc[c18R3]
	total := sha2pc.VerifC18Round3PayloadLen()
	const hdr, nIn, nHint, nCt = 42, 256 * 16, 256 * 32, 256 * 32
	hintOff := total - nCt - nHint
	tabEnd := hintOff - nIn
	if len(enc) != total {
		return
	}
	es, err := sha2pc.DecodeEvaluatorSession(cv.c, run.enc[c18ES])
	if err != nil {
		return // reported by the own-encoding oracle
	}
	var x [32]byte
	for i := range x {
		x[i] = run.a[i] ^ run.b[i]
	}
	want := sha256.Sum256(x[:])
	outBit := func(k int) bool { return want[k/8]>>(uint(k)%8)&1 == 1 }
	// labels the evaluator ends with on the output wires in the honest run
	honest := make([]ot.Label, 256)
	for k, w := range run.r3.OutputHints {
		if outBit(k) {
			honest[k] = w.L1
		} else {
			honest[k] = w.L0
		}
	}
	try := func(name string, pos int, mask byte, wire int, mustErr bool, corr bool) {
		b := cloneBytes(enc)
		b[pos] ^= mask
		var digest [32]byte
		var p3 sha2pc.Round3Payload
		cls, msg := c18Guard(func() (err error) {
			if p3, err = sha2pc.DecodeRound3(b); err != nil {
				return
			}
			digest, err = sha2pc.EvaluatorRound4(cv.c, es, p3)
			return
		})
		c.Eval(fmt.Sprintf("tamper|%s|%d|%d|%d", cv.name, pos, mask, run.s1), true)
		c.Hist(fmt.Sprintf("tamper-round3:%s:%s", name, []string{"ok", "err", "panic"}[cls]))
		rep := c18Replay{Seed: c.Seed, Curve: cv.name, Kind: "EvaluatorRound4", A: fmt.Sprintf("%x", run.a), B: fmt.Sprintf("%x", run.b),
			Seeds: fmt.Sprintf("%d,%d,%d", run.s1, run.s2, run.s3),
			Mut:   fmt.Sprintf("%s: byte %d of the %d-byte Round3 encoding xor %#02x (output wire %d)", name, pos, total, mask, wire),
			Want:  fmt.Sprintf("%x", want)}
		key := ""
		switch {
		case cls == clsPanic:
			key, rep.What = "panic", "EvaluatorRound4 panics on a tampered Round3: "+msg
		case cls == clsOk && digest != want:
			key, rep.What, rep.Got = "wrong-digest", "a tampered Round3 is accepted and the evaluator outputs a digest that is not SHA-256(a xor b)", fmt.Sprintf("%x", digest)
		case cls == clsOk && mustErr:
			key, rep.What = "accepted", "a tampered Round3 is accepted although the evaluator's label on this output wire is neither of the wire's hints"
		}
		if key != "" {
			w := fmt.Sprintf("wire%d", wire)
			if wire < 0 {
				w = fmt.Sprintf("byte%d", pos)
			}
			c.Fail(fmt.Sprintf("c18:EvaluatorRound4:tampered-%s:%s:%s", name, w, key), rep.What, rep)
		}
		if corr && cls != clsPanic {
			hs := make([]SX, len(p3.OutputHints))
			for i, w := range p3.OutputHints {
				hs[i] = L(Label(w.L0), Label(w.L1))
			}
			obs := L(I(1))
			if cls == clsOk {
				obs = L(I(0), Bytes(digest[:]))
			}
			c.Case(L(I(8), L(hs...), Labels(honest)), obs)
		}
	}
	wires := []int{0, 1, 7, 100, 254, 255}
	if c.Thorough() {
		for i := 0; i < 24; i++ {
			wires = append(wires, r.Intn(256))
		}
	}
	for _, k := range wires {
		for half := 0; half < 2; half++ {
			active := (half == 1) == outBit(k)
			pos := hintOff + 32*k + 16*half + r.Intn(16)
			try("output-hint", pos, byte(1)<<uint(r.Intn(8)), k, active, true)
		}
	}
	// the last garbled rows and the garbler's input labels: the evaluator's labels are not known here (oracle only)
	for i := 0; i < c.N(4, 40); i++ {
		try("table-row", tabEnd-1-r.Intn(16*2000), byte(1)<<uint(r.Intn(8)), -1, false, false)
	}
	for i := 0; i < c.N(2, 20); i++ {
		try("garbler-input-label", tabEnd+r.Intn(nIn), byte(1)<<uint(r.Intn(8)), -1, false, false)
	}
	_ = hdr
}

// ---------------------------------------------------------------- environments (GOMAXPROCS)
//
// The property quantifies over the environment the process runs in.  The
// codec round trip, the restart family and the rejection of malformed points
// in the TAIL of a Round2 message are repeated under several GOMAXPROCS
// values (a worker count derived from it must not change what a decoder
// accepts or returns).  The pure model has no such parameter: every case
// below is also a correspondence case whose expected observable is the same
// for every value.

func c18Environments(c *Ctx, run *c18Run) {
	cv := run.cv
	r := c.rng.Fork()
	procs := []int{1, 3, 7, 16}
	if c.Thorough() {
		procs = []int{1, 2, 3, 5, 6, 7, 12, 16, 24}
	}
	// Round2 messages whose LAST choice points are not curve points
	enc2 := run.enc[c18R2]
	var tampered []c18Mut
	for _, idx := range []int{255, 254, 250} {
		off := 16 + idx*cv.bl
		if off+cv.bl > len(enc2) {
			continue
		}
		b := cloneBytes(enc2)
		for try := 0; try < 64; try++ {
			b[off+cv.bl-1-r.Intn(8)] ^= 1 << uint(r.Intn(8))
			comp := append([]byte{2}, b[off:off+cv.bl]...)
			if x, _ := elliptic.UnmarshalCompressed(cv.c, comp); x == nil {
				tampered = append(tampered, c18Mut{name: fmt.Sprintf("tail-point-%d-not-on-curve", idx), segs: c18Auto(b)})
				break
			}
		}
	}
	prev := runtime.GOMAXPROCS(0)
	defer runtime.GOMAXPROCS(prev)
	for _, n := range procs {
		runtime.GOMAXPROCS(n)
		tag := fmt.Sprintf("gomaxprocs=%d", n)
		rep := c18Replay{Seed: c.Seed, Curve: cv.name, A: fmt.Sprintf("%x", run.a), B: fmt.Sprintf("%x", run.b),
			Seeds: fmt.Sprintf("%d,%d,%d", run.s1, run.s2, run.s3), Plan: "runtime.GOMAXPROCS(" + fmt.Sprint(n) + ")"}
		// decode(encode(v)) == v for every kind
		for _, kind := range []int{c18R1, c18R2, c18R3, c18GS, c18ES} {
			v := c18Val{kind, run}
			enc, cls := v.encode()
			if cls != clsOk {
				continue
			}
			d := c18Decode(kind, cv, enc)
			c.Eval(fmt.Sprintf("env|%s|%d|%d|%d", cv.name, n, kind, run.s1), true)
			if d.class != clsOk || sxKey(d.obs) != sxKey(v.fields()) {
				rep.Kind = c18KindName[kind]
				rep.What = fmt.Sprintf("with GOMAXPROCS=%d %s of the bytes %s wrote does not give the value back (class %s %s)",
					n, c18KindName[kind], c18EncName[kind], []string{"ok", "err", "panic"}[d.class], d.msg)
				c.Fail(fmt.Sprintf("c18:%s:%s:decode-of-own-encoding-differs", c18KindName[kind], tag), rep.What, rep)
			}
		}
		// correspondence + canonicity oracle on the pristine Round2 and on the tampered tails
		c18EmitDecode(c, c18R2, cv, c18Mut{name: "pristine:" + tag, segs: c18Auto(enc2)}, true)
		for _, m := range tampered {
			m2 := c18Mut{name: m.name + ":" + tag, segs: m.segs}
			d := c18EmitDecode(c, c18R2, cv, m2, false)
			if d.class == clsOk {
				rep.Kind = "DecodeRound2"
				rep.Mut = m.name
				rep.What = fmt.Sprintf("with GOMAXPROCS=%d DecodeRound2 accepts a message whose %s", n, m.name)
				c.Fail(fmt.Sprintf("c18:DecodeRound2:%s:malformed-tail-point-accepted", tag), rep.What, rep)
			}
		}
		// restart family: every message and both checkpoints through Encode/Decode
		plan := c18Plan{G1: 1, G2: 1, E2: 1, E3: 1, Wire: true}
		_, err := c18Protocol(cv, run.a, run.b, run.s1, run.s2, run.s3, plan, run)
		c.Eval(fmt.Sprintf("env-run|%s|%d|%d", cv.name, n, run.s1), true)
		c.Hist("environment:" + tag)
		if err != nil {
			rep.Kind = ""
			rep.Plan = plan.String() + " under runtime.GOMAXPROCS(" + fmt.Sprint(n) + ")"
			rep.What = fmt.Sprintf("with GOMAXPROCS=%d the run restarted from decoded copies differs: %s", n, err.Error())
			c.Fail(fmt.Sprintf("c18:resume:%s", tag), rep.What, rep)
		}
	}
}

// ---------------------------------------------------------------- real restarts (fresh processes)
//
// "Resumable" means: a NEW process that has done nothing but decode the
// stored session and the pending message continues the protocol.  For one
// run the harness writes the encodings to files and re-executes itself as a
// child (C18_CHILD=<role>) per checkpoint and per decoder; the parent
// compares what the child produced with the uninterrupted run.  Process state
// built up by earlier rounds (lazily initialised tables, caches) is absent in
// the child.

func c18ChildFail(dir, role string, err error) int {
	os.WriteFile(filepath.Join(dir, role+".err"), []byte(err.Error()), 0o644)
	return 3
}

// c18Child runs in the child process.  Files: r1 r2 r3 gs es (encodings), a b
// (inputs); C18_CURVE = curve index, C18_SEED = seed of the round's randomness.
func c18Child(role string) int {
	dir := os.Getenv("C18_DIR")
	var ci int
	var seed uint64
	fmt.Sscanf(os.Getenv("C18_CURVE"), "%d", &ci)
	fmt.Sscanf(os.Getenv("C18_SEED"), "%d", &seed)
	cv := c18Curves[ci%len(c18Curves)]
	rd := func(name string) []byte {
		b, _ := os.ReadFile(filepath.Join(dir, name))
		return b
	}
	wr := func(name string, b []byte) { os.WriteFile(filepath.Join(dir, role+"."+name), b, 0o644) }
	var in [32]byte
	switch role {
	case "evaluator-round2": // a fresh evaluator receives Round1
		r1, err := sha2pc.DecodeRound1(cv.c, rd("r1"))
		if err != nil {
			return c18ChildFail(dir, role, fmt.Errorf("DecodeRound1: %v", err))
		}
		copy(in[:], rd("b"))
		r2, es, err := sha2pc.EvaluatorRound2(NewRNG(seed), cv.c, r1, in)
		if err != nil {
			return c18ChildFail(dir, role, fmt.Errorf("EvaluatorRound2: %v", err))
		}
		e2, err := sha2pc.EncodeRound2(cv.c, r2)
		if err != nil {
			return c18ChildFail(dir, role, fmt.Errorf("EncodeRound2: %v", err))
		}
		ee, err := sha2pc.EncodeEvaluatorSession(cv.c, es)
		if err != nil {
			return c18ChildFail(dir, role, fmt.Errorf("EncodeEvaluatorSession: %v", err))
		}
		wr("r2", e2)
		wr("es", ee)
	case "garbler-round3": // the garbler restarted after round 1, Round2 pending
		gs, err := sha2pc.DecodeGarblerSession(cv.c, rd("gs"))
		if err != nil {
			return c18ChildFail(dir, role, fmt.Errorf("DecodeGarblerSession: %v", err))
		}
		r2, err := sha2pc.DecodeRound2(cv.c, rd("r2"))
		if err != nil {
			return c18ChildFail(dir, role, fmt.Errorf("DecodeRound2: %v", err))
		}
		copy(in[:], rd("a"))
		r3, err := sha2pc.GarblerRound3(NewRNG(seed), cv.c, gs, in, r2)
		if err != nil {
			return c18ChildFail(dir, role, fmt.Errorf("GarblerRound3: %v", err))
		}
		e3, err := sha2pc.EncodeRound3(r3)
		if err != nil {
			return c18ChildFail(dir, role, fmt.Errorf("EncodeRound3: %v", err))
		}
		wr("r3", e3)
	case "evaluator-round4": // the evaluator restarted after round 2, Round3 pending
		es, err := sha2pc.DecodeEvaluatorSession(cv.c, rd("es"))
		if err != nil {
			return c18ChildFail(dir, role, fmt.Errorf("DecodeEvaluatorSession: %v", err))
		}
		r3, err := sha2pc.DecodeRound3(rd("r3"))
		if err != nil {
			return c18ChildFail(dir, role, fmt.Errorf("DecodeRound3: %v", err))
		}
		d, err := sha2pc.EvaluatorRound4(cv.c, es, r3)
		if err != nil {
			return c18ChildFail(dir, role, fmt.Errorf("EvaluatorRound4: %v", err))
		}
		wr("digest", d[:])
	default: // decode-<file>: a decode-only consumer: decode, re-encode
		var kind int
		var file string
		for k, f := range map[int]string{c18R1: "r1", c18R2: "r2", c18R3: "r3", c18GS: "gs", c18ES: "es"} {
			if role == "decode-"+f {
				kind, file = k, f
			}
		}
		if file == "" {
			return c18ChildFail(dir, role, fmt.Errorf("unknown child role"))
		}
		d := c18Decode(kind, cv, rd(file))
		if d.class != clsOk {
			return c18ChildFail(dir, role, fmt.Errorf("%s: class %d %s", c18KindName[kind], d.class, d.msg))
		}
		if d.reCls != clsOk {
			return c18ChildFail(dir, role, fmt.Errorf("%s accepted the bytes but %s of the decoded value fails", c18KindName[kind], c18EncName[kind]))
		}
		wr("reenc", d.reEnc)
	}
	return 0
}

func c18FreshProcess(c *Ctx, run *c18Run) {
	exe, err := os.Executable()
	if err != nil {
		c.Note("fresh-process family skipped: %v", err)
		return
	}
	cv := run.cv
	dir := filepath.Join(c.OutDir, "c18-fresh-"+cv.name)
	os.MkdirAll(dir, 0o755)
	files := map[string][]byte{"r1": run.enc[c18R1], "r2": run.enc[c18R2], "r3": run.enc[c18R3],
		"gs": run.enc[c18GS], "es": run.enc[c18ES], "a": run.a[:], "b": run.b[:]}
	for n, b := range files {
		os.WriteFile(filepath.Join(dir, n), b, 0o644)
	}
	var x [32]byte
	for i := range x {
		x[i] = run.a[i] ^ run.b[i]
	}
	want := sha256.Sum256(x[:])
	child := func(role string, seed uint64, expect map[string][]byte) {
		cmd := exec.Command(exe)
		cmd.Env = append(os.Environ(), "C18_CHILD="+role, "C18_DIR="+dir, fmt.Sprintf("C18_CURVE=%d", cv.id),
			fmt.Sprintf("C18_SEED=%d", seed))
		if role == "garbler-round3" || role == "decode-es" {
			cmd.Env = append(cmd.Env, "GOGC=1") // these two children also run under heavy GC pressure
		}
		done := make(chan struct{})
		var out []byte
		var runErr error
		go func() { out, runErr = cmd.CombinedOutput(); close(done) }()
		select {
		case <-done:
		case <-time.After(120 * time.Second):
			cmd.Process.Kill()
			<-done
			runErr = fmt.Errorf("child did not finish in 120 s")
		}
		c.Eval(fmt.Sprintf("fresh|%s|%s|%d", cv.name, role, run.s1), true)
		rep := c18Replay{Seed: c.Seed, Curve: cv.name, Kind: role, A: fmt.Sprintf("%x", run.a), B: fmt.Sprintf("%x", run.b),
			Seeds: fmt.Sprintf("%d,%d,%d", run.s1, run.s2, run.s3),
			Plan:  "fresh child process C18_CHILD=" + role + " on the encodings of the uninterrupted run (files in " + dir + ")"}
		if runErr != nil {
			msg, _ := os.ReadFile(filepath.Join(dir, role+".err"))
			tail := string(out)
			if len(tail) > 400 {
				tail = tail[len(tail)-400:]
			}
			rep.What = fmt.Sprintf("a fresh process that only decodes the stored state cannot continue (%s): %s %s", role, string(msg), tail)
			c.Fail("c18:fresh-process:"+role+":error", rep.What, rep)
			c.Hist("fresh-process:" + role + ":error")
			return
		}
		c.Hist("fresh-process:" + role + ":ok")
		for name, wantB := range expect {
			got, _ := os.ReadFile(filepath.Join(dir, role+"."+name))
			if !bytes.Equal(got, wantB) {
				rep.What = fmt.Sprintf("a fresh process (%s) produces a different %s than the uninterrupted run", role, name)
				rep.Got, rep.Want = hexHead(got), hexHead(wantB)
				c.Fail("c18:fresh-process:"+role+":differs", rep.What, rep)
			}
		}
	}
	child("evaluator-round2", run.s2, map[string][]byte{"r2": run.enc[c18R2], "es": run.enc[c18ES]})
	child("garbler-round3", run.s3, map[string][]byte{"r3": run.enc[c18R3]})
	child("evaluator-round4", 0, map[string][]byte{"digest": want[:]})
	for _, f := range []string{"r1", "r2", "r3", "gs", "es"} {
		child("decode-"+f, 0, map[string][]byte{"reenc": files[f]})
	}
	os.RemoveAll(dir)
}

// ---------------------------------------------------------------- other doors
//
// Less-travelled ways into the package (notes/C18-findings.md, table "Doors"):
// the exported default curve with crypto/rand (the Example/Benchmark call
// pattern), readers that deliver one byte per Read, nil arguments, arguments
// and results re-used or modified after the call, rounds called twice,
// goroutine-concurrent sessions and encoders, encoder inputs the API
// normalises (empty CurveName) or rejects (other name, wrong counts) and
// extreme field values.

func c18DigestOf(a, b [32]byte) [32]byte {
	var x [32]byte
	for i := range x {
		x[i] = a[i] ^ b[i]
	}
	return sha256.Sum256(x[:])
}

func c18Doors(c *Ctx, base *c18Run) {
	cv := base.cv
	r := c.rng.Fork()
	fail := func(key, what string) {
		c.Fail("c18:door:"+key, what, c18Replay{Seed: c.Seed, Curve: cv.name, What: what, Plan: key})
	}
	door := func(name string) { c.Hist("door:" + name); c.Eval("door|"+name+fmt.Sprint(r.U64()), true) }

	// -- Example / Benchmark pattern: sha2pc.CurveP256 and crypto/rand.Reader, twice in a row
	for i := 0; i < 2; i++ {
		var a, b [32]byte
		copy(a[:], r.Bytes(32))
		copy(b[:], r.Bytes(32))
		m1, gs, err := sha2pc.GarblerRound1(crand.Reader, sha2pc.CurveP256)
		var m2 sha2pc.Round2Payload
		var es *sha2pc.EvaluatorSession
		var m3 sha2pc.Round3Payload
		var d [32]byte
		if err == nil {
			m2, es, err = sha2pc.EvaluatorRound2(crand.Reader, sha2pc.CurveP256, m1, b)
		}
		if err == nil {
			m3, err = sha2pc.GarblerRound3(crand.Reader, sha2pc.CurveP256, gs, a, m2)
		}
		if err == nil {
			d, err = sha2pc.EvaluatorRound4(sha2pc.CurveP256, es, m3)
		}
		door("CurveP256+crypto/rand")
		if err != nil {
			fail("CurveP256+crypto-rand:error", "the Example/Benchmark call pattern fails: "+err.Error())
		} else if d != c18DigestOf(a, b) {
			fail("CurveP256+crypto-rand:wrong-digest", "the Example/Benchmark call pattern gives a digest that is not SHA-256(a xor b)")
		}
	}
	if sha2pc.CurveP256 != elliptic.P256() {
		fail("CurveP256:not-P256", "sha2pc.CurveP256 is not elliptic.P256()")
	}

	// -- a random source that delivers one byte per Read (legal io.Reader)
	{
		var a, b [32]byte
		copy(a[:], r.Bytes(32))
		copy(b[:], r.Bytes(32))
		s1, s2, s3 := r.U64(), r.U64(), r.U64()
		var d [32]byte
		cls, msg := c18Guard(func() error {
			m1, gs, err := sha2pc.GarblerRound1(iotest.OneByteReader(NewRNG(s1)), cv.c)
			if err != nil {
				return err
			}
			m2, es, err := sha2pc.EvaluatorRound2(iotest.OneByteReader(NewRNG(s2)), cv.c, m1, b)
			if err != nil {
				return err
			}
			m3, err := sha2pc.GarblerRound3(iotest.OneByteReader(NewRNG(s3)), cv.c, gs, a, m2)
			if err != nil {
				return err
			}
			d, err = sha2pc.EvaluatorRound4(cv.c, es, m3)
			return err
		})
		door("one-byte-reader")
		if cls != clsOk {
			fail("one-byte-reader:error", "with a reader delivering one byte per Read the protocol fails: "+msg)
		} else if d != c18DigestOf(a, b) {
			fail("one-byte-reader:wrong-digest", "with a reader delivering one byte per Read the digest is not SHA-256(a xor b)")
		}
	}

	// -- nil arguments: an error, never a panic
	{
		var in [32]byte
		calls := map[string]func() error{
			"GarblerRound1(nil rng)":          func() error { _, _, e := sha2pc.GarblerRound1(nil, cv.c); return e },
			"GarblerRound1(nil curve)":        func() error { _, _, e := sha2pc.GarblerRound1(NewRNG(1), nil); return e },
			"EvaluatorRound2(nil rng)":        func() error { _, _, e := sha2pc.EvaluatorRound2(nil, cv.c, base.r1, in); return e },
			"EvaluatorRound2(nil curve)":      func() error { _, _, e := sha2pc.EvaluatorRound2(NewRNG(1), nil, base.r1, in); return e },
			"GarblerRound3(nil rng)":          func() error { _, e := sha2pc.GarblerRound3(nil, cv.c, base.gs, in, base.r2); return e },
			"GarblerRound3(nil curve)":        func() error { _, e := sha2pc.GarblerRound3(NewRNG(1), nil, base.gs, in, base.r2); return e },
			"GarblerRound3(nil session)":      func() error { _, e := sha2pc.GarblerRound3(NewRNG(1), cv.c, nil, in, base.r2); return e },
			"GarblerRound3(zero session)":     func() error { _, e := sha2pc.GarblerRound3(NewRNG(1), cv.c, &sha2pc.GarblerSession{}, in, base.r2); return e },
			"GarblerRound3(zero Round2)":      func() error { _, e := sha2pc.GarblerRound3(NewRNG(1), cv.c, base.gs, in, sha2pc.Round2Payload{}); return e },
			"EvaluatorRound4(nil curve)":      func() error { _, e := sha2pc.EvaluatorRound4(nil, base.es, base.r3); return e },
			"EvaluatorRound4(nil session)":    func() error { _, e := sha2pc.EvaluatorRound4(cv.c, nil, base.r3); return e },
			"EvaluatorRound4(zero session)":   func() error { _, e := sha2pc.EvaluatorRound4(cv.c, &sha2pc.EvaluatorSession{}, base.r3); return e },
			"EvaluatorRound4(zero Round3)":    func() error { _, e := sha2pc.EvaluatorRound4(cv.c, base.es, sha2pc.Round3Payload{SessionID: base.es.SessionID}); return e },
			"EncodeRound1(nil curve)":         func() error { _, e := sha2pc.EncodeRound1(nil, base.r1); return e },
			"EncodeRound2(nil curve)":         func() error { _, e := sha2pc.EncodeRound2(nil, base.r2); return e },
			"EncodeGarblerSession(nil curve)": func() error { _, e := sha2pc.EncodeGarblerSession(nil, base.gs); return e },
			"EncodeGarblerSession(nil)":       func() error { _, e := sha2pc.EncodeGarblerSession(cv.c, nil); return e },
			"EncodeEvaluatorSession(nil curve)": func() error { _, e := sha2pc.EncodeEvaluatorSession(nil, base.es); return e },
			"EncodeEvaluatorSession(nil)":     func() error { _, e := sha2pc.EncodeEvaluatorSession(cv.c, nil); return e },
			"EncodeRound3(zero)":              func() error { _, e := sha2pc.EncodeRound3(sha2pc.Round3Payload{}); return e },
			"DecodeRound1(nil curve)":         func() error { _, e := sha2pc.DecodeRound1(nil, base.enc[c18R1]); return e },
			"DecodeRound2(nil curve)":         func() error { _, e := sha2pc.DecodeRound2(nil, base.enc[c18R2]); return e },
			"DecodeGarblerSession(nil curve)": func() error { _, e := sha2pc.DecodeGarblerSession(nil, base.enc[c18GS]); return e },
			"DecodeEvaluatorSession(nil curve)": func() error { _, e := sha2pc.DecodeEvaluatorSession(nil, base.enc[c18ES]); return e },
			"DecodeRound1(nil data)":          func() error { _, e := sha2pc.DecodeRound1(cv.c, nil); return e },
			"DecodeRound3(nil data)":          func() error { _, e := sha2pc.DecodeRound3(nil); return e },
		}
		for name, f := range calls {
			cls, msg := c18Guard(f)
			door("nil-argument")
			switch cls {
			case clsPanic:
				fail("nil-argument:panic:"+name, name+" panics: "+msg)
			case clsOk:
				fail("nil-argument:accepted:"+name, name+" returns no error")
			}
		}
	}

	// -- rounds called twice; messages and sessions are not modified by the consumer
	{
		d1, e1 := sha2pc.EvaluatorRound4(cv.c, base.es, base.r3)
		d2, e2 := sha2pc.EvaluatorRound4(cv.c, base.es, base.r3)
		door("round4-twice")
		if e1 != nil || e2 != nil || d1 != d2 || d1 != base.digest {
			fail("EvaluatorRound4:called-twice:differs", fmt.Sprintf("EvaluatorRound4 called again on the same session and message: %v %v %x %x", e1, e2, d1, d2))
		}
		for _, kind := range []int{c18R1, c18R2, c18R3, c18GS, c18ES} {
			if b, cls := (c18Val{kind, base}).encode(); cls != clsOk || !bytes.Equal(b, base.enc[kind]) {
				fail("value-modified-by-consumer:"+c18EncName[kind], "after the rounds that consumed it (and EvaluatorRound4 twice) "+c18EncName[kind]+" of the same value gives other bytes than before")
			}
		}
		r3b, err := sha2pc.GarblerRound3(NewRNG(base.s3), cv.c, base.gs, base.a, base.r2)
		door("round3-again-same-randomness")
		if err != nil {
			fail("GarblerRound3:called-twice:error", err.Error())
		} else if b, err := sha2pc.EncodeRound3(r3b); err != nil || !bytes.Equal(b, base.enc[c18R3]) {
			fail("GarblerRound3:called-twice:differs", "GarblerRound3 with the same session, message and randomness gives another payload")
		}
	}

	// -- the caller re-uses / overwrites what it passed in or got back
	{
		s := c18NewSess(r, 0, cv)
		var err error
		step := func(f func() error) {
			if err == nil {
				err = f()
			}
		}
		step(func() error { return c18SessStep(s, false) }) // round 1
		var e1 []byte
		step(func() (e error) { e1, e = sha2pc.EncodeRound1(cv.c, s.r1); return })
		// the garbler's caller scribbles over the message it has sent
		step(func() error { s.r1.OT.A.X.SetInt64(7); s.r1.OT.A.Y.SetInt64(9); return nil })
		var r1 sha2pc.Round1Payload
		step(func() (e error) { r1, e = sha2pc.DecodeRound1(cv.c, e1); return })
		step(func() (e error) { s.r2, s.es, e = sha2pc.EvaluatorRound2(NewRNG(s.s2), cv.c, r1, s.b); return })
		// the evaluator's caller scribbles over the message it has consumed and the bytes it came from
		step(func() error {
			r1.OT.A.X.SetInt64(11)
			r1.OT.A.Y.SetInt64(13)
			for i := range e1 {
				e1[i] = 0xee
			}
			return nil
		})
		var e2 []byte
		step(func() (e error) { e2, e = sha2pc.EncodeRound2(cv.c, s.r2); return })
		var r2 sha2pc.Round2Payload
		step(func() (e error) { r2, e = sha2pc.DecodeRound2(cv.c, e2); return })
		step(func() (e error) { s.r3, e = sha2pc.GarblerRound3(NewRNG(s.s3), cv.c, s.gs, s.a, r2); return })
		// the garbler's caller scribbles over the consumed Round2 and its bytes
		step(func() error {
			for i := range r2.Choices {
				r2.Choices[i].X.SetInt64(1)
				r2.Choices[i].Y.SetInt64(2)
			}
			for i := range e2 {
				e2[i] = 0xdd
			}
			return nil
		})
		var e3 []byte
		step(func() (e error) { e3, e = sha2pc.EncodeRound3(s.r3); return })
		var r3 sha2pc.Round3Payload
		step(func() (e error) { r3, e = sha2pc.DecodeRound3(e3); return })
		step(func() error {
			for i := range e3 {
				e3[i] = 0xcc
			}
			return nil
		})
		var d [32]byte
		step(func() (e error) { d, e = sha2pc.EvaluatorRound4(cv.c, s.es, r3); return })
		door("arguments-overwritten-after-call")
		if err != nil {
			fail("arguments-overwritten-after-call:error", "a session whose caller overwrites the messages and byte slices it has already handed over fails: "+err.Error())
		} else if d != c18DigestOf(s.a, s.b) {
			fail("arguments-overwritten-after-call:wrong-digest", "a session whose caller overwrites handed-over messages gives a wrong digest")
		}
	}

	// -- goroutine-concurrent sessions, encoders and decoders
	{
		const k = 4
		var wg, phase1 sync.WaitGroup
		errs := make([]string, k)
		seeds := make([][5]uint64, k)
		for i := range seeds {
			for j := range seeds[i] {
				seeds[i][j] = r.U64()
			}
		}
		phase1.Add(k)
		for i := 0; i < k; i++ {
			wg.Add(1)
			go func(i int) {
				defer wg.Done()
				defer func() {
					if p := recover(); p != nil {
						errs[i] = fmt.Sprint("panic: ", p)
					}
				}()
				rr := NewRNG(seeds[i][0])
				var a, b [32]byte
				copy(a[:], rr.Bytes(32))
				copy(b[:], rr.Bytes(32))
				run, err := c18Protocol(cv, a, b, seeds[i][1], seeds[i][2], seeds[i][3], c18Plan{G1: 1, G2: 1, E2: 1, E3: 1, Wire: true}, nil)
				phase1.Done()
				if err != nil {
					errs[i] = err.Error()
					return
				}
				if run.digest != c18DigestOf(a, b) {
					errs[i] = "digest differs from SHA-256(a xor b)"
					return
				}
				// all goroutines encode and decode at the same time (their own run's values and the
				// shared base run's): the bytes must equal the ones produced alone
				phase1.Wait()
				for rep := 0; rep < 6; rep++ {
					for _, src := range []*c18Run{run, base} {
						for _, kind := range []int{c18R3, c18ES, c18R2, c18GS, c18R1} {
							bts, cls := (c18Val{kind, src}).encode()
							if cls != clsOk || !bytes.Equal(bts, src.enc[kind]) {
								errs[i] = c18EncName[kind] + " run concurrently gives other bytes than run alone"
								return
							}
							if kind == c18R2 && rep > 0 {
								continue // 256 decompressions per decode: once is enough
							}
							if d := c18Decode(kind, cv, bts); d.class != clsOk || !bytes.Equal(d.reEnc, bts) {
								errs[i] = c18KindName[kind] + " run concurrently does not reproduce the value"
								return
							}
						}
					}
				}
			}(i)
		}
		wg.Wait()
		door("concurrent-goroutines")
		for i, e := range errs {
			if e != "" {
				fail("concurrent-sessions:goroutine", fmt.Sprintf("goroutine %d of %d concurrent sessions: %s", i, k, e))
			}
		}
	}

	// -- encoder inputs the API normalises or rejects, and extreme field values (op history: correspondence)
	{
		mod := func(f func(x *c18Run)) *c18Run {
			x := *base
			gs, es := *base.gs, *base.es
			x.gs, x.es = &gs, &es
			x.es.ChoiceBundle.Scalars = append([]*big.Int(nil), base.es.ChoiceBundle.Scalars...)
			x.es.ChoiceBundle.Bits = append([]bool(nil), base.es.ChoiceBundle.Bits...)
			x.r2.Choices = append([]ot.ECPoint(nil), base.r2.Choices...)
			f(&x)
			return &x
		}
		max64 := ^uint64(0)
		top := new(big.Int).Sub(new(big.Int).Lsh(big.NewInt(1), uint(8*cv.bl)), big.NewInt(1)) // 256^bl - 1
		vals := []c18Op{
			{enc: true, lenient: true, val: c18Val{c18R1, mod(func(x *c18Run) { x.r1.OT.CurveName = "" })}},
			{enc: true, lenient: true, val: c18Val{c18R1, mod(func(x *c18Run) { x.r1.OT.CurveName = "P-999" })}},
			{enc: true, lenient: true, val: c18Val{c18GS, mod(func(x *c18Run) { x.gs.SenderSetup.CurveName = "" })}},
			{enc: true, lenient: true, val: c18Val{c18ES, mod(func(x *c18Run) { x.es.ChoiceBundle.CurveName = "p-256" })}},
			{enc: true, lenient: true, val: c18Val{c18R2, mod(func(x *c18Run) { x.r2.CurveName = "" })}},
			{enc: true, lenient: true, val: c18Val{c18R2, mod(func(x *c18Run) { x.r2.Choices = x.r2.Choices[:255] })}},
			{enc: true, lenient: true, val: c18Val{c18ES, mod(func(x *c18Run) { x.es.ChoiceBundle.Scalars = x.es.ChoiceBundle.Scalars[:255] })}},
			{enc: true, lenient: true, val: c18Val{c18ES, mod(func(x *c18Run) { x.es.ChoiceBundle.Bits = append(x.es.ChoiceBundle.Bits, true) })}},
			// extreme values (decoders of sessions / Round1 do not validate points)
			{enc: true, val: c18Val{c18R1, mod(func(x *c18Run) { x.r1.SessionID = 0; x.r1.OT.A = ot.ECPoint{X: big.NewInt(0), Y: big.NewInt(1)} })}},
			{enc: true, val: c18Val{c18R1, mod(func(x *c18Run) { x.r1.SessionID = max64; x.r1.OT.A = ot.ECPoint{X: top, Y: new(big.Int).Rsh(top, 9)} })}},
			{enc: true, val: c18Val{c18GS, mod(func(x *c18Run) {
				x.gs.SessionID = max64
				x.gs.SenderSetup.Scalar, x.gs.SenderSetup.Ax, x.gs.SenderSetup.AaInvY = big.NewInt(0), big.NewInt(255), top
			})}},
			{enc: true, val: c18Val{c18ES, mod(func(x *c18Run) {
				x.es.SessionID = 0
				x.es.ChoiceBundle.Scalars[0], x.es.ChoiceBundle.Scalars[1], x.es.ChoiceBundle.Scalars[255] = big.NewInt(0), big.NewInt(1), top
				for i := range x.es.ChoiceBundle.Bits {
					x.es.ChoiceBundle.Bits[i] = i%8 == 7 || i >= 248
				}
			})}},
		}
		ops := append([]c18Op(nil), vals...)
		for i := range vals {
			ops = append(ops, c18Op{slot: i})
		}
		c18History(c, cv, ops)
		door("encoder-inputs+extreme-values")
	}
}

// ---------------------------------------------------------------- op histories
//
// A process holding several sessions calls an encoder several times and keeps
// every returned []byte (no copy) before it decodes any of them.  The model's
// run_history (IO/Sha2pcCodec.v) says: decoding slot j gives the j-th encoded
// value whatever was encoded later.  The history is a correspondence case
// (model and implementation must print the same decoded values per Dec op)
// and an oracle: a held slice must stay equal to the copy taken right after
// its Encode returned (the result is owned by the caller).

var c18EncName = map[int]string{c18R1: "EncodeRound1", c18R2: "EncodeRound2", c18R3: "EncodeRound3",
	c18GS: "EncodeGarblerSession", c18ES: "EncodeEvaluatorSession"}

type c18Val struct {
	kind int
	run  *c18Run
}

func (v c18Val) fields() []SX {
	switch v.kind {
	case c18R1:
		return c18FieldsR1(v.run.r1)
	case c18R2:
		return c18FieldsR2(v.run.r2)
	case c18R3:
		return c18FieldsR3(v.run.r3)
	case c18GS:
		return c18FieldsGS(v.run.gs)
	}
	return c18FieldsES(v.run.es)
}

func (v c18Val) encode() (b []byte, cls int) {
	cv := v.run.cv
	cls, _ = c18Guard(func() (err error) {
		switch v.kind {
		case c18R1:
			b, err = sha2pc.EncodeRound1(cv.c, v.run.r1)
		case c18R2:
			b, err = sha2pc.EncodeRound2(cv.c, v.run.r2)
		case c18R3:
			b, err = sha2pc.EncodeRound3(v.run.r3)
		case c18GS:
			b, err = sha2pc.EncodeGarblerSession(cv.c, v.run.gs)
		default:
			b, err = sha2pc.EncodeEvaluatorSession(cv.c, v.run.es)
		}
		return
	})
	return
}

type c18Op struct {
	enc  bool
	val  c18Val
	slot int
	// lenient: the value is not expected to come back unchanged (encoder input the
	// API normalises or rejects): correspondence and aliasing oracle only
	lenient bool
}

func sxKey(items []SX) string { return L(items...).String() }

// c18History executes one op history on the real encoders/decoders.
func c18History(c *Ctx, cv c18Curve, ops []c18Op) {
	var store, copies [][]byte
	var vals []c18Val
	var aliased, lenient []bool
	var opsSX, encObs, decObs []SX
	hist := ""
	checkOwned := func(when string) {
		for j := range store {
			if !aliased[j] && !bytes.Equal(store[j], copies[j]) {
				aliased[j] = true
				diff := 0
				for diff < len(store[j]) && store[j][diff] == copies[j][diff] {
					diff++
				}
				what := fmt.Sprintf("the []byte returned by %s for slot %d changed %s (first differing byte %d of %d): the result aliases a buffer that a later call reuses; history %s",
					c18EncName[vals[j].kind], j, when, diff, len(store[j]), hist)
				c.Fail(fmt.Sprintf("c18:%s:result-aliases-shared-buffer", c18EncName[vals[j].kind]), what,
					c18Replay{Seed: c.Seed, Curve: cv.name, Kind: c18EncName[vals[j].kind], Plan: hist, What: what,
						Seeds: fmt.Sprintf("%d,%d,%d", vals[j].run.s1, vals[j].run.s2, vals[j].run.s3)})
			}
		}
	}
	for _, op := range ops {
		if op.enc {
			hist += fmt.Sprintf("Enc(%s#%d) ", c18EncName[op.val.kind][6:], len(store))
			items := append([]SX{I(0), I(op.val.kind)}, op.val.fields()...)
			opsSX = append(opsSX, L(items...))
			b, cls := op.val.encode()
			store = append(store, b) // held as returned, NOT copied
			copies = append(copies, cloneBytes(b))
			vals = append(vals, op.val)
			aliased = append(aliased, false)
			lenient = append(lenient, op.lenient || cls != clsOk)
			encObs = append(encObs, L(I(cls), I(len(b))))
			checkOwned(fmt.Sprintf("after the encode of slot %d", len(store)-1))
			continue
		}
		hist += fmt.Sprintf("Dec(%d) ", op.slot)
		opsSX = append(opsSX, L(I(1), I(op.slot)))
		if op.slot >= len(store) {
			decObs = append(decObs, L(I(1)))
			continue
		}
		v := vals[op.slot]
		d := c18Decode(v.kind, cv, store[op.slot])
		if d.class != clsOk {
			decObs = append(decObs, L(I(d.class)))
		} else {
			decObs = append(decObs, L(append([]SX{I(0)}, d.obs...)...))
		}
		if !lenient[op.slot] && (d.class != clsOk || sxKey(d.obs) != sxKey(v.fields())) {
			what := fmt.Sprintf("decoding the bytes held for slot %d (%s) does not give the value that was encoded there; history %s",
				op.slot, c18EncName[v.kind], hist)
			c.Fail(fmt.Sprintf("c18:%s:held-result-decodes-to-another-value", c18EncName[v.kind]), what,
				c18Replay{Seed: c.Seed, Curve: cv.name, Kind: c18EncName[v.kind], Plan: hist, What: what,
					Seeds: fmt.Sprintf("%d,%d,%d", v.run.s1, v.run.s2, v.run.s3)})
		}
	}
	checkOwned("by the end of the history")
	c.Case(L(I(7), I(cv.id), L(opsSX...)), L(L(encObs...), L(decObs...)))
	c.Eval("hist|"+cv.name+"|"+hist+fmt.Sprint(vals[0].run.s1), true)
	c.Hist("history:" + c18EncName[vals[0].kind])
}

// c18Histories: for every encoder k = 2..4 distinct values, all encoded before
// any is decoded (pattern A) or with decodes between later encodes (pattern
// B), plus one history mixing the kinds.
func c18Histories(c *Ctx, cv c18Curve, runs []*c18Run, withR3 bool) {
	r := c.rng.Fork()
	kinds := []int{c18R1, c18R2, c18GS, c18ES}
	if withR3 {
		kinds = append(kinds, c18R3)
	}
	for _, kind := range kinds {
		k := 2 + r.Intn(3)
		if k > len(runs) {
			k = len(runs)
		}
		if kind == c18R3 && !c.Thorough() {
			k = 2
		}
		perm := make([]int, len(runs))
		for i := range perm {
			perm[i] = i
		}
		for i := len(perm) - 1; i > 0; i-- {
			j := r.Intn(i + 1)
			perm[i], perm[j] = perm[j], perm[i]
		}
		var ops []c18Op
		if r.Intn(2) == 0 || kind == c18R3 {
			for i := 0; i < k; i++ {
				ops = append(ops, c18Op{enc: true, val: c18Val{kind, runs[perm[i]]}})
			}
			for i := 0; i < k; i++ {
				if kind == c18R3 && !c.Thorough() && i > 0 {
					break // quick: one full-size decode (the slot encoded first)
				}
				ops = append(ops, c18Op{slot: i})
			}
		} else {
			for i := 0; i < k; i++ {
				ops = append(ops, c18Op{enc: true, val: c18Val{kind, runs[perm[i]]}})
				if i > 0 {
					ops = append(ops, c18Op{slot: r.Intn(i)})
				}
			}
			for i := k - 1; i >= 0; i-- {
				ops = append(ops, c18Op{slot: i})
			}
		}
		c18History(c, cv, ops)
	}
	// mixed kinds
	var ops []c18Op
	for i := 0; i < 2 && i < len(runs); i++ {
		for _, kind := range []int{c18ES, c18GS, c18R1} {
			ops = append(ops, c18Op{enc: true, val: c18Val{kind, runs[i]}})
		}
	}
	for i, n := 0, len(ops); i < n; i++ {
		ops = append(ops, c18Op{slot: i})
	}
	c18History(c, cv, ops)
}

// c18OverlapCheckpoints: two protocol runs in one process; at every stage the
// messages and the session checkpoints of BOTH runs are encoded (and the
// slices held) before either is decoded/restored; both must finish with
// SHA-256(a xor b).
func c18OverlapCheckpoints(c *Ctx, cv c18Curve) {
	r := c.rng.Fork()
	ss := []*c18Sess{c18NewSess(r, 0, cv), c18NewSess(r, 1, cv)}
	type held struct {
		enc  string
		b, c []byte
	}
	var all []held
	hold := func(enc string, b []byte, err error) ([]byte, error) {
		if err == nil {
			all = append(all, held{enc, b, cloneBytes(b)})
		}
		return b, err
	}
	fail := func(s *c18Sess, key, what string) {
		c.Fail("c18:overlapping-checkpoints:"+key, what, c18Replay{Seed: c.Seed, Curve: cv.name, What: what,
			A: fmt.Sprintf("%x", s.a), B: fmt.Sprintf("%x", s.b), Seeds: fmt.Sprintf("%d,%d,%d", s.s1, s.s2, s.s3),
			Plan: "two runs; every message and checkpoint of both runs encoded before either is decoded"})
	}
	var e1, cg, e2, ce, e3 [2][]byte
	var err error
	stage := func(f func(i int, s *c18Sess) error) bool {
		for i, s := range ss {
			if err = f(i, s); err != nil {
				fail(s, "round-error", "overlapping checkpointed runs: "+err.Error())
				return false
			}
		}
		return true
	}
	ok := stage(func(i int, s *c18Sess) (err error) {
		if s.r1, s.gs, err = sha2pc.GarblerRound1(NewRNG(s.s1), cv.c); err != nil {
			return
		}
		b, err := sha2pc.EncodeRound1(cv.c, s.r1)
		if e1[i], err = hold("EncodeRound1", b, err); err != nil {
			return err
		}
		b, err = sha2pc.EncodeGarblerSession(cv.c, s.gs)
		cg[i], err = hold("EncodeGarblerSession", b, err)
		return err
	}) && stage(func(i int, s *c18Sess) (err error) {
		r1, err := sha2pc.DecodeRound1(cv.c, e1[i])
		if err != nil {
			return err
		}
		if s.r2, s.es, err = sha2pc.EvaluatorRound2(NewRNG(s.s2), cv.c, r1, s.b); err != nil {
			return err
		}
		b, err := sha2pc.EncodeRound2(cv.c, s.r2)
		if e2[i], err = hold("EncodeRound2", b, err); err != nil {
			return err
		}
		b, err = sha2pc.EncodeEvaluatorSession(cv.c, s.es)
		ce[i], err = hold("EncodeEvaluatorSession", b, err)
		return err
	}) && stage(func(i int, s *c18Sess) (err error) {
		gs, err := sha2pc.DecodeGarblerSession(cv.c, cg[i])
		if err != nil {
			return err
		}
		r2, err := sha2pc.DecodeRound2(cv.c, e2[i])
		if err != nil {
			return err
		}
		if s.r3, err = sha2pc.GarblerRound3(NewRNG(s.s3), cv.c, gs, s.a, r2); err != nil {
			return err
		}
		b, err := sha2pc.EncodeRound3(s.r3)
		e3[i], err = hold("EncodeRound3", b, err)
		return err
	}) && stage(func(i int, s *c18Sess) (err error) {
		es, err := sha2pc.DecodeEvaluatorSession(cv.c, ce[i])
		if err != nil {
			return err
		}
		r3, err := sha2pc.DecodeRound3(e3[i])
		if err != nil {
			return err
		}
		s.digest, err = sha2pc.EvaluatorRound4(cv.c, es, r3)
		return err
	})
	seen := map[string]bool{}
	for _, h := range all {
		if h.b != nil && !bytes.Equal(h.b, h.c) && !seen[h.enc] {
			seen[h.enc] = true
			what := "the []byte returned by " + h.enc + " changed while the other run's value was encoded: the result aliases a shared buffer"
			c.Fail("c18:"+h.enc+":result-aliases-shared-buffer", what, c18Replay{Seed: c.Seed, Curve: cv.name, Kind: h.enc, What: what,
				Plan: "two overlapping checkpointed runs"})
		}
	}
	if ok {
		for _, s := range ss {
			var x [32]byte
			for i := range x {
				x[i] = s.a[i] ^ s.b[i]
			}
			if want := sha256.Sum256(x[:]); s.digest != want {
				fail(s, "wrong-digest", "overlapping checkpointed runs: evaluator output differs from SHA-256(a xor b)")
			}
		}
	}
	c.Eval(fmt.Sprintf("overlap-checkpoints|%s|%d", cv.name, ss[0].s1), true)
	c.Hist("overlap:checkpoints:" + cv.name)
}

// ---------------------------------------------------------------- own encodings / chunk limit
//
// Independent of the model: on every curve, what an encoder of the package
// writes must be accepted by the matching decoder and decode to the value
// (encode-then-decode identity), and every chunk an encoder writes must be
// within the chunk-size limit the decoder enforces.

// c18ProbeChunkLimit observes the limit readChunk enforces in the tree under
// test: a Round1 message whose curve-name length prefix is 2^40 is refused
// with "... exceeds limit <n>".  0 = could not be observed.
func c18ProbeChunkLimit() uint64 {
	b := append([]byte("R1"), make([]byte, 8)...)
	b = append(b, c18PaddedUvarint(1<<40, 0)...)
	b = append(b, make([]byte, 64)...)
	_, err := sha2pc.DecodeRound1(elliptic.P256(), b)
	if err == nil {
		return 0
	}
	msg := err.Error()
	i := strings.LastIndex(msg, "limit ")
	if i < 0 {
		return 0
	}
	var n uint64
	if _, e := fmt.Sscanf(msg[i+len("limit "):], "%d", &n); e != nil {
		return 0
	}
	return n
}

// c18OwnEncodings: decode(encode(v)) == v for the five values of a run, and
// the chunks inside the encodings against the observed limit.
func c18OwnEncodings(c *Ctx, run *c18Run, limit uint64) {
	cv := run.cv
	for _, kind := range []int{c18R1, c18R2, c18R3, c18GS, c18ES} {
		v := c18Val{kind, run}
		enc, cls := v.encode()
		rep := c18Replay{Seed: c.Seed, Curve: cv.name, Kind: c18EncName[kind], A: fmt.Sprintf("%x", run.a), B: fmt.Sprintf("%x", run.b),
			Seeds: fmt.Sprintf("%d,%d,%d", run.s1, run.s2, run.s3), Bytes: hexHead(enc)}
		c.Eval(fmt.Sprintf("own|%s|%d|%d", cv.name, kind, run.s1), true)
		if cls != clsOk {
			rep.What = fmt.Sprintf("%s fails on a value produced by the protocol rounds on %s", c18EncName[kind], cv.name)
			c.Fail(fmt.Sprintf("c18:%s:%s:encode-fails", c18EncName[kind], cv.name), rep.What, rep)
			continue
		}
		d := c18Decode(kind, cv, enc)
		if d.class != clsOk || sxKey(d.obs) != sxKey(v.fields()) {
			rep.What = fmt.Sprintf("%s rejects (or changes) the %d bytes %s itself wrote on %s: %s",
				c18KindName[kind], len(enc), c18EncName[kind], cv.name, d.msg)
			c.Fail(fmt.Sprintf("c18:%s:%s:own-encoding-rejected", c18EncName[kind], cv.name), rep.What, rep)
		}
		// chunks the encoder wrote (offset 10: curve-name chunk or session chunk, and the nested name)
		if limit > 0 && kind != c18R3 && len(enc) > 10 {
			if n, k := binary.Uvarint(enc[10:]); k > 0 && n > limit {
				rep.What = fmt.Sprintf("%s writes a chunk of %d bytes on %s, the decoder's readChunk refuses chunks above %d",
					c18EncName[kind], n, cv.name, limit)
				c.Fail(fmt.Sprintf("c18:%s:%s:chunk-exceeds-decoder-limit", c18EncName[kind], cv.name), rep.What, rep)
			}
		}
	}
}

// ---------------------------------------------------------------- runner

func c18Inputs(r *RNG, class int) (a, b [32]byte, name string) {
	switch class {
	case 0:
		name = "zeros"
	case 1:
		name = "ones"
		for i := range a {
			a[i], b[i] = 0xff, 0xff
		}
	case 2:
		name = "random"
		copy(a[:], r.Bytes(32))
		copy(b[:], r.Bytes(32))
	case 3:
		name = "a=b"
		copy(a[:], r.Bytes(32))
		b = a
	case 4:
		name = "ones-zeros"
		for i := range a {
			a[i] = 0xff
		}
	default:
		name = "test-vector"
		for i := 0; i < 32; i++ {
			a[i], b[i] = byte(i), byte(32-i)
		}
	}
	return
}

func runC18(c *Ctx) error {
	// quick: P-224/P-256/P-384 in full, P-521 (slow) with ONE run whose messages
	// and checkpoints are all encoded/decoded at every round boundary
	curves := c18Curves
	nClasses := c.N(4, 6)
	chunkLimit := c18ProbeChunkLimit()
	c.Note("chunk limit enforced by readChunk (observed): %d", chunkLimit)
	nFlip := c.N(12, 150)

	// ---- constants (kind 0): magic strings, field sizes, documented sizes
	{
		var magics []SX
		for _, m := range sha2pc.VerifC18Magics() {
			magics = append(magics, Bytes([]byte(m)))
		}
		var per []SX
		for _, cv := range c18Curves {
			bl := (cv.c.Params().BitSize + 7) / 8
			per = append(per, L(I(cv.id), Bytes([]byte(cv.c.Params().Name)), I(bl)))
		}
		c.Case(L(I(0)), L(L(magics...), L(per...), I(sha2pc.VerifC18Round3PayloadLen())))
		c.Eval("consts", false)
	}

	// runs handed to the families of c18ext.go, which run AFTER everything else (they fork c.rng:
	// placed at the end they leave the random inputs of all earlier families as they were)
	var extRuns []*c18Run

	// ---- bits.go (kind 6)
	nb := c.N(40, 2000)
	for i := 0; i < nb; i++ {
		r := c.rng.Fork()
		n := i
		if i >= 20 {
			n = r.Range(0, 300)
		}
		bits := make([]bool, n)
		for k := range bits {
			bits[k] = r.Bool()
		}
		by := sha2pc.VerifC18BitsToBytesLittle(bits)
		back := sha2pc.VerifC18BytesToBitsLittle(by)
		c.Case(L(I(6), Bits(bits)), L(Bytes(by), Bits(back)))
		c.Eval(fmt.Sprintf("bits|%s", bitsString(bits)), n > 0)
		c.Hist(fmt.Sprintf("bits:len%%8=%d", n%8))
		bad := len(by) != (n+7)/8 || len(back) != 8*len(by)
		for k := 0; !bad && k < len(back); k++ {
			bad = back[k] != (k < n && bits[k])
		}
		by2 := sha2pc.VerifC18BitsToBytesLittle(back)
		if bad || !bytes.Equal(by2, by) {
			c.Fail("c18:bits:roundtrip", "bitsToBytesLittle/bytesToBitsLittle do not round-trip",
				c18Replay{Seed: c.Seed, What: bitsString(bits)})
		}
	}

	// ---- finding F2 (belongs to property C04, recorded here as a note only):
	// both labels of every output wire travel in Round3Payload.OutputHints
	{
		var a, b [32]byte
		copy(a[:], c.rng.Fork().Bytes(32))
		enc3, R, _, err := sha2pcTranscript(elliptic.P256(), a, b, c.Seed)
		if err == nil {
			if p, derr := sha2pc.DecodeRound3(enc3); derr == nil {
				n := 0
				for _, w := range p.OutputHints {
					x := w.L0
					x.Xor(w.L1)
					if x.Equal(R) {
						n++
					}
				}
				c.Note("F2 (C04): decoded Round3 OutputHints: L0 xor L1 == garbler's R on %d of %d output wires", n, len(p.OutputHints))
			}
		}
	}

	// ---- several sessions / a round-3 retry in one garbler process
	c18Overlapping(c)
	c18EntropyFaults(c)

	// ---- (a) protocol runs, (b) decode cases, (c) mutations
	plans := []c18Plan{
		{Wire: true}, {G1: 1}, {G2: 1}, {E2: 1}, {E3: 1}, {G2: 1, E2: 1}, {G1: 1, E3: 1},
		{G1: 1, G2: 1, E2: 1, E3: 1, Wire: true}, {G1: 2, E3: 2, Wire: true},
	}
	fullR3 := 0
	for ci, cv := range curves {
		var runs []*c18Run
		lite := !c.Thorough() && cv.bl == 66
		for class := 0; class < nClasses; class++ {
			if lite && class != 2 {
				continue // P-521 in quick: the random-input class only
			}
			r := c.rng.Fork()
			a, b, cname := c18Inputs(r, class)
			s1, s2, s3 := r.U64(), r.U64(), r.U64()
			rep := c18Replay{Seed: c.Seed, Curve: cv.name, A: fmt.Sprintf("%x", a), B: fmt.Sprintf("%x", b),
				Seeds: fmt.Sprintf("%d,%d,%d", s1, s2, s3)}
			base, err := c18Protocol(cv, a, b, s1, s2, s3, c18Plan{}, nil)
			c.Eval(fmt.Sprintf("run|%s|%x|%x|base", cv.name, a, b), true)
			c.Hist("run:" + cv.name + ":" + cname)
			if err != nil {
				rep.What = "honest run fails: " + err.Error()
				c.Fail("c18:protocol:error:"+cv.name, rep.What, rep)
				continue
			}
			var x [32]byte
			for i := range x {
				x[i] = a[i] ^ b[i]
			}
			want := sha256.Sum256(x[:])
			if base.digest != want {
				rep.What = "evaluator output differs from SHA-256(a xor b)"
				rep.Got, rep.Want = fmt.Sprintf("%x", base.digest), fmt.Sprintf("%x", want)
				c.Fail("c18:protocol:wrong-digest:"+cv.name, rep.What, rep)
			}
			if len(runs) < 2 {
				c.Sample(map[string]string{"curve": cv.name, "a": rep.A, "b": rep.B, "digest": fmt.Sprintf("%x", base.digest)})
			}
			// documented sizes
			sizes := map[int]int{c18R1: 16 + 2*cv.bl, c18R2: 48 + 256*cv.bl, c18R3: 707146,
				c18GS: 18 + 5*cv.bl, c18ES: 50 + 258*cv.bl}
			if cv.bl == 66 {
				sizes[c18ES]++ // inner chunk of 17066 bytes: 3-byte uvarint
			}
			for k, want := range sizes {
				if len(base.enc[k]) != want {
					rep.What = fmt.Sprintf("%s encoding has %d bytes, documented %d", c18KindName[k], len(base.enc[k]), want)
					c.Fail("c18:size:"+c18KindName[k], rep.What, rep)
				}
			}
			// restarts at every round boundary, either and both parties
			for pi, plan := range plans {
				if lite && pi != 7 {
					continue // P-521 quick: the plan with every message and checkpoint through Encode/Decode
				}
				if !lite && !c.Thorough() && pi%3 != class%3 {
					continue // quick: 3 of the 9 plans per class, all 9 per curve
				}
				_, err := c18Protocol(cv, a, b, s1, s2, s3, plan, base)
				c.Eval(fmt.Sprintf("run|%s|%x|%x|%s", cv.name, a, b, plan), true)
				c.Hist("resume:" + plan.String())
				if err != nil {
					rep.Plan = plan.String()
					rep.What = "restarted run differs: " + err.Error()
					c.Fail("c18:resume:"+plan.String(), rep.What, rep)
				}
			}
			c18OwnEncodings(c, base, chunkLimit)
			if class == 2 {
				extRuns = append(extRuns, base)
			}
			if class == 2 && (cv.bl == 32 || c.Thorough()) {
				c18TamperRound3(c, base)
				c18Environments(c, base)
				c18FreshProcess(c, base)
				c18Doors(c, base)
			}
			// (b) the run's own encodings
			for _, k := range []int{c18R1, c18R2, c18GS, c18ES} {
				c18EmitDecode(c, k, cv, c18Mut{name: "pristine", segs: c18Auto(base.enc[k])}, true)
			}
			if fullR3 < c.N(0, 8) && class >= 2 { // quick: the Round3 op history decodes a pristine full-size payload
				fullR3++
				c18EmitDecode(c, c18R3, cv, c18Mut{name: "pristine", segs: c18Auto(base.enc[c18R3])}, true)
				if !c.Thorough() {
					runs = append(runs, base)
					continue
				}
				// one full-size flip
				b := cloneBytes(base.enc[c18R3])
				b[r.Intn(len(b))] ^= 1 << uint(r.Intn(8))
				m := c18Mut{name: "flip", segs: c18Auto(b)}
				d := c18EmitDecode(c, c18R3, cv, m, false)
				c18Continue(c, c18R3, cv, m, d, base)
			}
			runs = append(runs, base)
		}
		if len(runs) >= 2 {
			c18Histories(c, cv, runs, ci == 0 || c.Thorough())
			c18OverlapCheckpoints(c, cv)
		}
		if len(runs) < 3 {
			continue
		}
		// (c) mutations of the encodings of runs[2] (random inputs); runs[3]
		// is "another session", the neighbouring curve is "another curve"
		fcv := c18Curves[(ci+1)%c.N(3, 4)]
		var foreign *c18Run
		{
			r := c.rng.Fork()
			a, b, _ := c18Inputs(r, 2)
			var err error
			foreign, err = c18Protocol(fcv, a, b, r.U64(), r.U64(), r.U64(), c18Plan{}, nil)
			if err != nil {
				return fmt.Errorf("foreign run: %v", err)
			}
		}
		base, other := runs[2], runs[len(runs)-1]
		for _, k := range []int{c18R1, c18R2, c18GS, c18ES} {
			r := c.rng.Fork()
			muts := c18Mutations(r, k, cv, base.enc[k], other.enc[k], foreign.enc[k], fcv, nFlip)
			muts = append(muts, c18LengthPrefixMutations(k, cv, base.enc[k])...)
			for mi, m := range muts {
				d := c18EmitDecode(c, k, cv, m, false)
				// continuing with an accepted mutant costs a round: all in
				// thorough, every fourth accepted one in quick
				if m.curve == nil && d.class == clsOk && (c.Thorough() || mi%4 == 0 || m.name[:2] == "cr" || m.name[:2] == "fi") {
					c18Continue(c, k, cv, m, d, base)
				}
			}
		}
		if ci == 0 || c.Thorough() {
			for _, m := range c18Round3Mutations(c.rng.Fork(), base.r3.SessionID^1, c.N(1, 60)) {
				d := c18EmitDecode(c, c18R3, cv, m, false)
				if m.name == "flip" && d.class == clsOk {
					c18Continue(c, c18R3, cv, m, d, base)
				}
			}
		}
	}

	// ---- c18ext.go: curve parameters (kind 10), elliptic.UnmarshalCompressed (kind 9), non-canonical
	// points inside Round2, wrong-round bytes, argument validation of the rounds (kind 11)
	extT0 := time.Now()
	c18CurveParams(c)
	c18Compressed(c)
	for i, base := range extRuns {
		c18NonCanonicalPoints(c, base)
		c18WrongRound(c, base, i == 0)
		c18RoundValidation(c, base, base.cv.bl == 32 || c.Thorough())
	}
	c.Note("c18ext families (compressed points, wrong round, round validation): %d ms", time.Since(extT0).Milliseconds())
	return nil
}
