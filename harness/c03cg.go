package main

// C03 (circuit generation) — tie between Lang/CircGen.v (circuit_of_ssa, the
// Gallina model of ssa.Program.CompileCircuit up to prog.Circuit(cc)) and
// /repo/compiler/ssa/circuitgen.go.
//
// For a program the C03 harness generated and compiled, c03cgCase
//   - compiles the same text again and replays Program.CompileCircuit step by
//     step through the exported API (circuits.NewCompiler, DefineConstants
//     (cc.ZeroWire(), cc.OneWire()), prog.Circuit(cc)), snapshots
//     Compiler.Gates at that point — BEFORE ConstPropagate,
//     ShortCircuitXORZero, Prune and Compile rewrite it (those passes are
//     C09's domain) — and renumbers the wires canonically (input wires keep
//     0..n-1, every other wire by first appearance as A, B, O in emission
//     order);
//   - finishes the compilation exactly as CompileCircuit does and checks that
//     the result equals the circuit the C03 harness got from the real
//     CompileCircuit (gate count, per-operation counts, outputs);
//   - emits one correspondence case (mode 4, or 5 with the full gate list):
//     the model applied to the REAL SSA listing must reproduce the number of
//     gates, the count per operation, the hash of the canonical gate list (the
//     list itself up to c03cgFullLimit gates), its structural flags, the value
//     of the theorem's hypothesis cg_wf on this program (computed here
//     independently from the in-memory ssa.Program) and the circuit outputs on
//     the input vectors.

import (
	"fmt"
	"math/big"
	"os"
	"strings"

	"github.com/markkurossi/mpc/circuit"
	"github.com/markkurossi/mpc/compiler"
	"github.com/markkurossi/mpc/compiler/circuits"
	"github.com/markkurossi/mpc/compiler/ssa"
	"github.com/markkurossi/mpc/compiler/utils"
	"github.com/markkurossi/mpc/types"
)

const c03cgFullLimit = 1200

type c03cgGate struct{ op, a, b, o int }

type c03cgRaw struct {
	gates    []c03cgGate
	ninp     int
	wfc, dbu bool
	circ     *circuit.Circuit
	prog     *ssa.Program
	listing  string
	err      string
}

// c03cgBuild = ssa.Program.CompileCircuit with a snapshot after prog.Circuit.
func c03cgBuild(src string) (res c03cgRaw) {
	saved := os.Stdout
	os.Stdout = c03DevNull
	defer func() { os.Stdout = saved }()
	defer func() {
		if r := recover(); r != nil {
			res.err = "panic: " + fmt.Sprint(r)
		}
	}()
	params := utils.NewParams()
	buf := &c03Buf{}
	params.SSAOut = buf
	prog, _, err := compiler.New(params).CompileSSA("{data}", strings.NewReader(src), nil)
	res.listing = buf.String()
	if err != nil {
		res.err = err.Error()
		return
	}
	res.prog = prog

	calloc := circuits.NewAllocator()
	cc, err := circuits.NewCompiler(params, calloc, prog.Inputs, prog.Outputs,
		prog.InputWires, prog.OutputWires)
	if err != nil {
		res.err = err.Error()
		return
	}
	if err = prog.DefineConstants(cc.ZeroWire(), cc.OneWire()); err != nil {
		res.err = err.Error()
		return
	}
	if err = prog.Circuit(cc); err != nil {
		res.err = err.Error()
		return
	}

	// snapshot, canonical numbering
	id := map[*circuits.Wire]int{}
	n := 0
	for _, w := range prog.InputWires {
		id[w] = n
		n++
	}
	res.ninp = n
	get := func(w *circuits.Wire) int {
		if v, ok := id[w]; ok {
			return v
		}
		id[w] = n
		n++
		return n - 1
	}
	res.wfc, res.dbu = true, true
	seen := map[int]bool{}
	defd := map[int]bool{}
	for _, g := range cc.Gates {
		var cg c03cgGate
		cg.op = int(g.Op)
		cg.a = get(g.A)
		if g.Op != circuit.INV {
			cg.b = get(g.B)
		}
		cg.o = get(g.O)
		res.gates = append(res.gates, cg)
		if cg.o < res.ninp || cg.o == cg.a || cg.o == cg.b || seen[cg.o] {
			res.wfc = false
		}
		seen[cg.o], seen[cg.a], seen[cg.b] = true, true, true
		if !(cg.a < res.ninp || defd[cg.a]) || (g.Op != circuit.INV && !(cg.b < res.ninp || defd[cg.b])) {
			res.dbu = false
		}
		defd[cg.o] = true
	}

	// the rest of CompileCircuit
	cc.ConstPropagate()
	cc.ShortCircuitXORZero()
	if params.OptPruneGates {
		cc.Prune()
	}
	res.circ = cc.Compile()
	return
}

func c03cgHash(gs []c03cgGate) uint64 {
	h := uint64(1)
	step := func(v int) { h = h + h<<7 + h<<23 + uint64(v) }
	for _, g := range gs {
		step(g.op + 8*g.a)
		step(g.b + g.o<<32)
	}
	return h
}

// c03cgConst: the number Lang/Ssa.v's opnd_const reads from a constant operand
// as c03SSASX exports it (the constant's wires read as an unsigned number).
func c03cgConst(prog *ssa.Program, v ssa.Value) int {
	if !v.Const {
		return 0
	}
	if ci, ok := prog.Constants[v.Name]; ok {
		val := new(big.Int)
		for b := 0; b < int(ci.Const.Type.Bits); b++ {
			if ci.Const.Bit(types.Size(b)) {
				val.SetBit(val, b, 1)
			}
		}
		if !val.IsInt64() || val.Int64() > 1<<40 {
			return 1 << 40
		}
		return int(val.Int64())
	}
	n, err := v.ConstInt()
	if err != nil {
		return 0
	}
	return int(n)
}

// c03cgWf evaluates the hypothesis cg_wf of circuitgen_correct (Lang/CircGen.v)
// on the in-memory program; why names the first instruction that violates it.
func c03cgWf(prog *ssa.Program) (ok bool, why string) {
	total := 0
	for _, arg := range prog.Inputs {
		total += int(arg.Type.Bits)
	}
	if total < 1 {
		return false, "no-input-wires"
	}
	max := func(a, b int) int {
		if a > b {
			return a
		}
		return b
	}
	for _, step := range prog.Steps {
		in := step.Instr
		if in.Op == ssa.GC || in.Op == ssa.Ret {
			continue
		}
		if in.Out == nil {
			return false, in.Op.String()
		}
		na := len(in.In)
		bits := func(k int) int {
			if k < na {
				return int(in.In[k].Type.Bits)
			}
			return 0
		}
		isConst := func(k int) bool { return k < na && in.In[k].Const }
		cst := func(k int) int {
			if k < na {
				return c03cgConst(prog, in.In[k])
			}
			return 0
		}
		b0, b1, b2 := bits(0), bits(1), bits(2)
		ob := int(in.Out.Type.Bits)
		mx := max(b0, b1)
		good := false
		switch in.Op {
		case ssa.Iadd, ssa.Uadd, ssa.Imult, ssa.Umult, ssa.Isub, ssa.Usub:
			good = na == 2 && 1 <= ob && ob <= mx
		case ssa.Band, ssa.Bor, ssa.Bxor, ssa.Bclr:
			good = na == 2 && 1 <= mx && ob <= mx
		case ssa.Udiv, ssa.Umod:
			good = na == 2 && 1 <= mx && ob == mx
		case ssa.Idiv, ssa.Imod:
			good = na == 2 && 1 <= b0 && b1 == b0 && ob == b0
		case ssa.Ult, ssa.Ule, ssa.Ugt, ssa.Uge, ssa.Eq, ssa.Neq, ssa.Ilt, ssa.Ile, ssa.Igt, ssa.Ige:
			good = na == 2 && 1 <= mx && ob == 1
		case ssa.And, ssa.Or:
			good = na == 2 && b0 == 1 && b1 == 1 && ob == 1
		case ssa.Not:
			good = na == 1 && ob <= b0
		case ssa.Mov:
			good = na == 1
		case ssa.Smov:
			good = na == 1 && 1 <= b0
		case ssa.Lshift, ssa.Rshift:
			good = na == 2 && isConst(1)
		case ssa.Srshift:
			good = na == 2 && isConst(1) && 1 <= b0
		case ssa.Slice:
			good = na == 3 && isConst(1) && isConst(2) && cst(1) < cst(2) && cst(2)-cst(1) <= ob
		case ssa.Amov:
			good = na == 4 && isConst(2) && isConst(3) && cst(2) < cst(3)
		case ssa.Index:
			aux := 0
			if na > 0 && in.In[0].Type.ElementType != nil {
				aux = int(in.In[0].Type.ElementType.Bits)
			}
			good = na == 3 && isConst(1) && 1 <= aux && ob == aux && cst(1) <= b0 &&
				1 <= (b0-cst(1))/aux && (b0-cst(1))%aux == 0 && 1 <= b2
		case ssa.Phi:
			good = na == 3 && b0 == 1 && ob == max(b1, b2)
		}
		if !good {
			return false, in.Op.String()
		}
	}
	return true, ""
}

var (
	c03cgCtx    *Ctx
	c03cgBudget int
)

type c03cgReplay struct {
	Program string `json:"program"`
	Inputs  string `json:"inputs,omitempty"`
	Real    string `json:"real_circuit,omitempty"`
	Replica string `json:"replayed_circuit,omitempty"`
	Error   string `json:"error,omitempty"`
}

// c03cgCase emits the circuit-generation correspondence case for one compiled
// program.  ssx = the SSA term c03SSASX built from ref (the real listing).
func c03cgCase(c *Ctx, src string, ssx SX, vecs [][]*big.Int, ref *c03Compiled) {
	if ref.circ == nil || ref.prog == nil {
		return
	}
	raw := c03cgBuild(src)
	if raw.err != "" {
		c.Fail("c03cg:replay-of-CompileCircuit-failed", raw.err, c03cgReplay{Program: src, Error: raw.err})
		return
	}
	if raw.listing != ref.listing {
		// cannot happen unless compilation is not deterministic (C08)
		c.Hist("cg-skipped:listing-differs-between-two-compilations")
		return
	}
	// the replayed compilation is the real one
	st := func(ci *circuit.Circuit) string {
		return fmt.Sprintf("gates=%d wires=%d xor=%d xnor=%d and=%d or=%d inv=%d", ci.NumGates, ci.NumWires,
			ci.Stats[circuit.XOR], ci.Stats[circuit.XNOR], ci.Stats[circuit.AND], ci.Stats[circuit.OR], ci.Stats[circuit.INV])
	}
	if st(raw.circ) != st(ref.circ) {
		c.Fail("c03cg:replayed-circuit-differs", "CompileCircuit replayed step by step gives a different circuit",
			c03cgReplay{Program: src, Real: st(ref.circ), Replica: st(raw.circ)})
		return
	}
	// the outputs of the real circuit on ALL vectors are already tied to the
	// listing by mode 1; here a few vectors suffice (fewer for big circuits,
	// the model evaluates gate by gate)
	nv := len(vecs)
	lim := c.N(8, 40)
	if len(raw.gates) >= 10000 {
		lim = c.N(2, 8)
	}
	if nv > lim {
		nv = lim
	}
	var outs [][]*big.Int
	for _, v := range vecs[:nv] {
		got, e := c03Compute(raw.circ, v)
		want, e2 := c03Compute(ref.circ, v)
		if e != "" || e2 != "" {
			c.Hist("cg-skipped:compute-error")
			return
		}
		if fmt.Sprint(got) != fmt.Sprint(want) {
			c.Fail("c03cg:replayed-circuit-differs", "outputs differ on "+c03VecStr(v),
				c03cgReplay{Program: src, Inputs: c03VecStr(v), Real: c03VecStr(want), Replica: c03VecStr(got)})
			return
		}
		outs = append(outs, got)
	}
	// the model processes ~60 000 gates per second (extracted binary numbers),
	// so circuits of >= 10 000 gates are compared only while a budget of gates
	// lasts (quick 400 000, thorough 20 000 000); smaller circuits always
	if c03cgCtx != c {
		c03cgCtx, c03cgBudget = c, c.N(400000, 20000000)
	}
	if len(raw.gates) >= 10000 {
		if c03cgBudget < len(raw.gates) {
			c.Hist("cg-skipped:big-circuit-gate-budget")
			return
		}
		c03cgBudget -= len(raw.gates)
	}
	if !raw.wfc || !raw.dbu {
		c.Fail("c03cg:generated-gates-not-single-assignment",
			fmt.Sprintf("Compiler.Gates after prog.Circuit: single-assignment=%v defined-before-use=%v", raw.wfc, raw.dbu),
			c03cgReplay{Program: src})
	}
	counts := make([]int, 5)
	ops := []circuit.Operation{circuit.XOR, circuit.XNOR, circuit.AND, circuit.OR, circuit.INV}
	for _, g := range raw.gates {
		for k, op := range ops {
			if g.op == int(op) {
				counts[k]++
			}
		}
	}
	wf, why := c03cgWf(raw.prog)
	full := len(raw.gates) <= c03cgFullLimit
	mode := 4
	var gl []SX
	if full {
		mode = 5
		gl = make([]SX, len(raw.gates))
		for i, g := range raw.gates {
			gl[i] = L(I(g.op), I(g.a), I(g.b), I(g.o))
		}
	}
	c.Case(L(I(mode), ssx, c03VecSX(vecs[:nv])),
		L(I(len(raw.gates)), Ints(counts), U64(c03cgHash(raw.gates)), Bool(raw.wfc), Bool(raw.dbu), Bool(wf),
			c03VecSX(outs), L(gl...)))
	c.Hist("cg-cases")
	if full {
		c.Hist("cg-cases:full-gate-list")
	}
	if wf {
		c.Hist("cg-theorem-hypothesis(cg_wf):holds")
	} else {
		c.Hist("cg-theorem-hypothesis(cg_wf):fails:" + why)
	}
	switch n := len(raw.gates); {
	case n < 100:
		c.Hist("cg-gates:<100")
	case n < 1000:
		c.Hist("cg-gates:100-999")
	case n < 10000:
		c.Hist("cg-gates:1000-9999")
	default:
		c.Hist("cg-gates:>=10000")
	}
}
