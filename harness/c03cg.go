package main

// C03 (circuit generation) — tie between Lang/CircGen.v (circuit_of_ssa, the
// Gallina model of ssa.Program.CompileCircuit up to prog.Circuit(cc)) and
// /repo/compiler/ssa/circuitgen.go.
//
// For a program the C03 harness generated and compiled, c03cgCase
//   - compiles the same text again and replays Program.CompileCircuit step by
//     step through the exported API (circuits.NewCompiler, DefineConstants
//     (cc.ZeroWire(), cc.OneWire()), prog.Circuit(cc)), snapshots
//     Compiler.Gates at that point — BEFORE ConstPropagate,
//     ShortCircuitXORZero, Prune and Compile rewrite it (those passes are
//     C09's domain) — and renumbers the wires canonically (input wires keep
//     0..n-1, every other wire by first appearance as A, B, O in emission
//     order);
//   - finishes the compilation exactly as CompileCircuit does and checks that
//     the result equals the circuit the C03 harness got from the real
//     CompileCircuit (gate count, per-operation counts, outputs);
//   - emits one correspondence case (mode 4, or 5 with the full gate list):
//     the model applied to the REAL SSA listing must reproduce the number of
//     gates, the count per operation, the hash of the canonical gate list (the
//     list itself up to c03cgFullLimit gates), its structural flags, the value
//     of the theorem's hypothesis cg_wf on this program (computed here
//     independently from the in-memory ssa.Program) and the circuit outputs on
//     the input vectors.

import (
	"fmt"
	"math/big"
	"os"
	"path/filepath"
	"strings"

	"github.com/markkurossi/mpc/circuit"
	"github.com/markkurossi/mpc/compiler"
	"github.com/markkurossi/mpc/compiler/circuits"
	"github.com/markkurossi/mpc/compiler/ssa"
	"github.com/markkurossi/mpc/compiler/utils"
	"github.com/markkurossi/mpc/types"
)

const c03cgFullLimit = 1200

type c03cgGate struct{ op, a, b, o int }

type c03cgRaw struct {
	gates    []c03cgGate
	ninp     int
	wfc, dbu bool
	circ     *circuit.Circuit
	prog     *ssa.Program
	listing  string
	err      string
}

// c03cgOpt selects the compilation: target, and the peephole rewriting
// (ssa.Program.Peephole, which ast/package.go has switched off: "liveness
// analysis is broken") applied to the compiled program after its gc
// instructions were dropped — the only way real code produces bts / btc.
type c03cgOpt struct {
	gmw, peephole bool
	source        string // (virtual) name of the source file: native("x.circ") resolves next to it
}

// c03cgBuild = ssa.Program.CompileCircuit with a snapshot after prog.Circuit.
func c03cgBuild(src string, opt c03cgOpt) (res c03cgRaw) {
	saved := os.Stdout
	os.Stdout = c03DevNull
	defer func() { os.Stdout = saved }()
	defer func() {
		if r := recover(); r != nil {
			res.err = "panic: " + fmt.Sprint(r)
		}
	}()
	params := utils.NewParams()
	if opt.gmw {
		params.Target = utils.TargetGMW
	}
	buf := &c03Buf{}
	params.SSAOut = buf
	source := "{data}"
	if opt.source != "" {
		source = opt.source
	}
	prog, _, err := compiler.New(params).CompileSSA(source, strings.NewReader(src), nil)
	res.listing = buf.String()
	if err != nil {
		res.err = err.Error()
		return
	}
	if opt.peephole {
		var steps []ssa.Step
		for _, st := range prog.Steps {
			if st.Instr.Op != ssa.GC {
				steps = append(steps, st)
			}
		}
		prog.Steps = steps
		if err = prog.Peephole(); err != nil {
			res.err = err.Error()
			return
		}
		pp := &c03Buf{}
		prog.PP(pp)
		res.listing = pp.String()
	}
	res.prog = prog

	calloc := circuits.NewAllocator()
	cc, err := circuits.NewCompiler(params, calloc, prog.Inputs, prog.Outputs,
		prog.InputWires, prog.OutputWires)
	if err != nil {
		res.err = err.Error()
		return
	}
	if err = prog.DefineConstants(cc.ZeroWire(), cc.OneWire()); err != nil {
		res.err = err.Error()
		return
	}
	if err = prog.Circuit(cc); err != nil {
		res.err = err.Error()
		return
	}

	// snapshot, canonical numbering
	id := map[*circuits.Wire]int{}
	n := 0
	for _, w := range prog.InputWires {
		id[w] = n
		n++
	}
	res.ninp = n
	get := func(w *circuits.Wire) int {
		if v, ok := id[w]; ok {
			return v
		}
		id[w] = n
		n++
		return n - 1
	}
	res.wfc, res.dbu = true, true
	seen := map[int]bool{}
	defd := map[int]bool{}
	for _, g := range cc.Gates {
		var cg c03cgGate
		cg.op = int(g.Op)
		cg.a = get(g.A)
		if g.Op != circuit.INV {
			cg.b = get(g.B)
		}
		cg.o = get(g.O)
		res.gates = append(res.gates, cg)
		if cg.o < res.ninp || cg.o == cg.a || cg.o == cg.b || seen[cg.o] {
			res.wfc = false
		}
		seen[cg.o], seen[cg.a], seen[cg.b] = true, true, true
		if !(cg.a < res.ninp || defd[cg.a]) || (g.Op != circuit.INV && !(cg.b < res.ninp || defd[cg.b])) {
			res.dbu = false
		}
		defd[cg.o] = true
	}

	// the rest of CompileCircuit
	cc.ConstPropagate()
	cc.ShortCircuitXORZero()
	if params.OptPruneGates {
		cc.Prune()
	}
	res.circ = cc.Compile()
	return
}

func c03cgHash(gs []c03cgGate) uint64 {
	h := uint64(1)
	step := func(v int) { h = h + h<<7 + h<<23 + uint64(v) }
	for _, g := range gs {
		step(g.op + 8*g.a)
		step(g.b + g.o<<32)
	}
	return h
}

// c03cgConst: the number Lang/Ssa.v's opnd_const reads from a constant operand
// as c03SSASX exports it (the constant's wires read as an unsigned number).
func c03cgConst(prog *ssa.Program, v ssa.Value) int {
	if !v.Const {
		return 0
	}
	if ci, ok := prog.Constants[v.Name]; ok {
		val := new(big.Int)
		for b := 0; b < int(ci.Const.Type.Bits); b++ {
			if ci.Const.Bit(types.Size(b)) {
				val.SetBit(val, b, 1)
			}
		}
		if !val.IsInt64() || val.Int64() > 1<<40 {
			return 1 << 40
		}
		return int(val.Int64())
	}
	n, err := v.ConstInt()
	if err != nil {
		return 0
	}
	return int(n)
}

// c03cgWf evaluates the hypothesis cg_wf of circuitgen_correct (Lang/CircGen.v)
// on the in-memory program; why names the first instruction that violates it.
func c03cgWf(prog *ssa.Program) (ok bool, why string) {
	total := 0
	for _, arg := range prog.Inputs {
		total += int(arg.Type.Bits)
	}
	if total < 1 {
		return false, "no-input-wires"
	}
	max := func(a, b int) int {
		if a > b {
			return a
		}
		return b
	}
	for _, step := range prog.Steps {
		in := step.Instr
		if in.Op == ssa.GC || in.Op == ssa.Ret {
			continue
		}
		if in.Op == ssa.Circ {
			// args_fit, tot ins = ninputs, ob = noutputs, circ_ok (Lang/CircGen.v, Lang/CircEmbed.v)
			sub := in.Circ
			good := sub != nil && in.Out == nil && len(in.In) == len(sub.Inputs)
			if good {
				tin, tout := 0, 0
				for k, io := range sub.Inputs {
					tin += int(io.Type.Bits)
					good = good && in.In[k].Type.Bits <= io.Type.Bits
				}
				for _, r := range in.Ret {
					tout += int(r.Type.Bits)
				}
				good = good && tin == sub.Inputs.Size() && tout == sub.Outputs.Size() && c03cgCircOK(sub)
			}
			if !good {
				return false, "circ"
			}
			continue
		}
		if in.Out == nil {
			return false, in.Op.String()
		}
		na := len(in.In)
		bits := func(k int) int {
			if k < na {
				return int(in.In[k].Type.Bits)
			}
			return 0
		}
		isConst := func(k int) bool { return k < na && in.In[k].Const }
		cst := func(k int) int {
			if k < na {
				return c03cgConst(prog, in.In[k])
			}
			return 0
		}
		b0, b1, b2 := bits(0), bits(1), bits(2)
		ob := int(in.Out.Type.Bits)
		mx := max(b0, b1)
		good := false
		switch in.Op {
		case ssa.Iadd, ssa.Uadd, ssa.Imult, ssa.Umult, ssa.Isub, ssa.Usub:
			good = na == 2 && 1 <= ob && ob <= mx
		case ssa.Band, ssa.Bor, ssa.Bxor, ssa.Bclr:
			good = na == 2 && 1 <= mx && ob <= mx
		case ssa.Udiv, ssa.Umod:
			good = na == 2 && 1 <= mx && ob <= mx
		case ssa.Idiv, ssa.Imod:
			good = na == 2 && 1 <= mx && 1 <= ob && ob <= mx
		case ssa.Concat:
			good = na == 2 && ob == b0+b1
		case ssa.Bts, ssa.Btc:
			good = na == 2 && isConst(1) && ob == 1
		case ssa.Builtin:
			good = na == 2 && 2 <= mx && 1 <= ob
		case ssa.Ult, ssa.Ule, ssa.Ugt, ssa.Uge, ssa.Eq, ssa.Neq, ssa.Ilt, ssa.Ile, ssa.Igt, ssa.Ige:
			good = na == 2 && 1 <= mx && ob == 1
		case ssa.And, ssa.Or:
			good = na == 2 && b0 == 1 && b1 == 1 && ob == 1
		case ssa.Not:
			good = na == 1 && ob <= b0
		case ssa.Mov:
			good = na == 1
		case ssa.Smov:
			good = na == 1 && 1 <= b0
		case ssa.Lshift, ssa.Rshift:
			good = na == 2 && isConst(1)
		case ssa.Srshift:
			good = na == 2 && isConst(1) && 1 <= b0
		case ssa.Slice:
			good = na == 3 && isConst(1) && isConst(2) && cst(1) < cst(2) && cst(2)-cst(1) <= ob
		case ssa.Amov:
			good = na == 4 && isConst(2) && isConst(3) && cst(2) < cst(3)
		case ssa.Index:
			aux := 0
			if na > 0 && in.In[0].Type.ElementType != nil {
				aux = int(in.In[0].Type.ElementType.Bits)
			}
			good = na == 3 && isConst(1) && 1 <= aux && ob == aux && cst(1) <= b0 &&
				1 <= (b0-cst(1))/aux && (b0-cst(1))%aux == 0 && 1 <= b2
		case ssa.Phi:
			good = na == 3 && b0 == 1 && ob == max(b1, b2)
		}
		if !good {
			return false, in.Op.String()
		}
	}
	return true, ""
}

// c03cgCircOK = circ_ok of Lang/CircEmbed.v, computed on the parsed circuit:
// Circuit.wf (ids in range, every gate input assigned before use, outputs
// assigned, no gate writes an input wire), single assignment, inputs and
// outputs disjoint.
func c03cgCircOK(sub *circuit.Circuit) bool {
	n, ni, no := sub.NumWires, sub.Inputs.Size(), sub.Outputs.Size()
	if ni > n || no > n || ni+no > n {
		return false
	}
	asg := make([]bool, n)
	for i := 0; i < ni; i++ {
		asg[i] = true
	}
	for _, g := range sub.Gates {
		a, b, o := int(g.Input0), int(g.Input1), int(g.Output)
		if a >= n || o >= n || o < ni || !asg[a] {
			return false
		}
		if g.Op != circuit.INV && (b >= n || !asg[b]) {
			return false
		}
		if asg[o] {
			return false // written twice
		}
		asg[o] = true
	}
	for w := n - no; w < n; w++ {
		if !asg[w] {
			return false
		}
	}
	return true
}

var (
	c03cgCtx     *Ctx
	c03cgBudget  int
	c03cgSeq     int
	c03cgFullSeq int
)

type c03cgReplay struct {
	Program string `json:"program"`
	Inputs  string `json:"inputs,omitempty"`
	Real    string `json:"real_circuit,omitempty"`
	Replica string `json:"replayed_circuit,omitempty"`
	Error   string `json:"error,omitempty"`
}

// c03cgHasDiv: the program contains a division (excluded for the GMW target:
// the Goldschmidt divider is not exact, C07 findings F31-F33)
func c03cgHasDiv(prog *ssa.Program) bool {
	for _, st := range prog.Steps {
		switch st.Instr.Op {
		case ssa.Idiv, ssa.Udiv, ssa.Imod, ssa.Umod:
			return true
		}
	}
	return false
}

func c03cgStat(ci *circuit.Circuit) string {
	return fmt.Sprintf("gates=%d wires=%d xor=%d xnor=%d and=%d or=%d inv=%d", ci.NumGates, ci.NumWires,
		ci.Stats[circuit.XOR], ci.Stats[circuit.XNOR], ci.Stats[circuit.AND], ci.Stats[circuit.OR], ci.Stats[circuit.INV])
}

// c03cgCase emits the circuit-generation correspondence cases for one compiled
// program of the generator.  ssx = the SSA term c03SSASX built from ref (the
// real listing).
func c03cgCase(c *Ctx, src string, ssx SX, vecs [][]*big.Int, ref *c03Compiled) {
	if ref.circ == nil || ref.prog == nil {
		return
	}
	raw := c03cgBuild(src, c03cgOpt{})
	if raw.err != "" {
		c.Fail("c03cg:replay-of-CompileCircuit-failed", raw.err, c03cgReplay{Program: src, Error: raw.err})
		return
	}
	if raw.listing != ref.listing {
		// cannot happen unless compilation is not deterministic (C08)
		c.Hist("cg-skipped:listing-differs-between-two-compilations")
		return
	}
	// the replayed compilation is the real one
	if c03cgStat(raw.circ) != c03cgStat(ref.circ) {
		c.Fail("c03cg:replayed-circuit-differs", "CompileCircuit replayed step by step gives a different circuit",
			c03cgReplay{Program: src, Real: c03cgStat(ref.circ), Replica: c03cgStat(raw.circ)})
		return
	}
	if !c03cgEmit(c, src, ssx, vecs, &raw, ref.circ, c03cgOpt{}, false) {
		return
	}
	// GMW target: every third program with a small circuit
	c03cgSeq++
	if c03cgSeq%3 == 0 && len(raw.gates) < c.N(5000, 20000) {
		g := c03cgBuild(src, c03cgOpt{gmw: true})
		if g.err != "" {
			// GMW + division is outside the theorem and outside this check: the
			// Goldschmidt divider is not exact and, for operands of different
			// widths, indexes out of range (circ_gmw_divider.go ApplyLogShifter)
			if c03cgHasDiv(raw.prog) {
				c.Hist("cg-skipped:gmw-divider-error-or-panic")
				return
			}
			c.Fail("c03cg:gmw-compilation-failed", g.err, c03cgReplay{Program: src, Error: g.err})
			return
		}
		if g.listing != ref.listing {
			c.Hist("cg-skipped:gmw-listing-differs")
			return
		}
		var cmp *circuit.Circuit
		if !c03cgHasDiv(g.prog) {
			cmp = ref.circ // without division both targets compute the same function
		}
		c03cgEmit(c, src, ssx, vecs, &g, cmp, c03cgOpt{gmw: true}, false)
	}
}

// c03cgEmit: one case for the snapshot raw.  cmp != nil: the circuit whose
// outputs raw.circ must reproduce (oracle).  Returns false if nothing was emitted.
// force: a directed program — emitted whatever its size (no gate budget; a
// single vector when the circuit is huge).
func c03cgEmit(c *Ctx, src string, ssx SX, vecs [][]*big.Int, raw *c03cgRaw, cmp *circuit.Circuit, opt c03cgOpt, force bool) bool {
	tgt := "yao"
	if opt.gmw {
		tgt = "gmw"
	}
	// the outputs of the real circuit on ALL vectors are already tied to the
	// listing by mode 1; here a few vectors suffice (fewer for big circuits,
	// the model evaluates gate by gate)
	nv := len(vecs)
	lim := c.N(8, 40)
	if len(raw.gates) >= 10000 {
		lim = c.N(2, 8)
	}
	if len(raw.gates) >= 100000 {
		lim = 1
	}
	if nv > lim {
		nv = lim
	}
	var outs [][]*big.Int
	for _, v := range vecs[:nv] {
		got, e := c03Compute(raw.circ, v)
		if e != "" {
			c.Hist("cg-skipped:compute-error")
			return false
		}
		if cmp != nil {
			want, e2 := c03Compute(cmp, v)
			if e2 != "" {
				c.Hist("cg-skipped:compute-error")
				return false
			}
			if fmt.Sprint(got) != fmt.Sprint(want) {
				c.Fail("c03cg:"+tgt+"-circuit-differs", "outputs differ on "+c03VecStr(v),
					c03cgReplay{Program: src, Inputs: c03VecStr(v), Real: c03VecStr(want), Replica: c03VecStr(got)})
				return false
			}
		}
		outs = append(outs, got)
	}
	// the model processes ~60 000 gates per second (extracted binary numbers),
	// so circuits of >= 10 000 gates are compared only while a budget of gates
	// lasts; smaller circuits always
	if c03cgCtx != c {
		c03cgCtx, c03cgBudget = c, c.N(300000, 20000000)
	}
	if len(raw.gates) >= 10000 && !force {
		if c03cgBudget < len(raw.gates) {
			c.Hist("cg-skipped:big-circuit-gate-budget")
			return false
		}
		c03cgBudget -= len(raw.gates)
	}
	// single assignment / defined-before-use of the raw list are part of the
	// compared observable only (the model must reproduce the flags); they are no
	// oracle: Compiler.Compile orders the gates by dependency afterwards, so a
	// raw list out of order is no violation by itself.  For programs meeting the
	// theorem's hypothesis both flags are PROVED true of the model
	// (C03_circuitgen_structure), so a real list that is not would show up as a
	// correspondence mismatch.  Seen on the unchanged tree: GMW target, a
	// division whose result is narrower than its operands (literal in a 32-bit
	// container) — NewUDividerGoldschmidtFast ignores the error of its final
	// NewMUX and leaves the result wires undriven (cg_wf_tg = false: division).
	if !raw.wfc || !raw.dbu {
		c.Hist(fmt.Sprintf("cg-raw-list(%s):single-assignment=%v,defined-before-use=%v", tgt, raw.wfc, raw.dbu))
	}
	counts := make([]int, 5)
	ops := []circuit.Operation{circuit.XOR, circuit.XNOR, circuit.AND, circuit.OR, circuit.INV}
	for _, g := range raw.gates {
		for k, op := range ops {
			if g.op == int(op) {
				counts[k]++
			}
		}
	}
	wf, why := c03cgWf(raw.prog)
	if opt.gmw && wf && c03cgHasDiv(raw.prog) {
		wf, why = false, "division"
	}
	// full gate lists: all small ones, the larger ones (up to c03cgFullLimit)
	// only for every fourth case of the quick tier (the hash covers the rest)
	c03cgFullSeq++
	full := len(raw.gates) <= 300 || (len(raw.gates) <= c03cgFullLimit && (c.Thorough() || c03cgFullSeq%4 == 0))
	mode := 4
	if opt.gmw {
		mode = 6
	}
	var gl []SX
	if full {
		mode++
		gl = make([]SX, len(raw.gates))
		for i, g := range raw.gates {
			gl[i] = L(I(g.op), I(g.a), I(g.b), I(g.o))
		}
	}
	c.Case(L(I(mode), ssx, c03VecSX(vecs[:nv])),
		L(I(len(raw.gates)), Ints(counts), U64(c03cgHash(raw.gates)), Bool(raw.wfc), Bool(raw.dbu), Bool(wf),
			c03VecSX(outs), L(gl...)))
	c.Hist("cg-cases:" + tgt)
	if full {
		c.Hist("cg-cases:" + tgt + ":full-gate-list")
	}
	if wf {
		c.Hist("cg-theorem-hypothesis(cg_wf," + tgt + "):holds")
	} else {
		c.Hist("cg-theorem-hypothesis(cg_wf," + tgt + "):fails:" + why)
	}
	switch n := len(raw.gates); {
	case n < 100:
		c.Hist("cg-gates:<100")
	case n < 1000:
		c.Hist("cg-gates:100-999")
	case n < 10000:
		c.Hist("cg-gates:1000-9999")
	default:
		c.Hist("cg-gates:>=10000")
	}
	return true
}

// ------------------------------------------------------------------------
// Directed programs for the opcodes the generator's grammar cannot reach:
// concat (array + array), builtin (native("hamming", a, b)), bts / btc (the
// peephole rules of ssa/peephole.go, run here on the compiled program).  They
// have no Mini term; each carries its own expected function (oracle), the real
// listing goes through eval_ssa (mode 1) and circuit_of_ssa (modes 4-7).

type c03cgDirected struct {
	name        string
	src         string
	widths      []int
	peephole    bool
	expect      func(in []*big.Int) []*big.Int // nil: no oracle (correspondence only)
	noGmwOracle bool                           // division: the GMW (Goldschmidt) divider is not exact (F33)
	thorough    bool                           // thorough tier only
	source      string                         // (virtual) source file name; "" = {data}
	rejected    string                         // non-empty: the compiler is known to reject this input with this message (no case then)
}

func c03cgPopcount(v *big.Int) int64 {
	n := int64(0)
	for i := 0; i < v.BitLen(); i++ {
		if v.Bit(i) == 1 {
			n++
		}
	}
	return n
}

func c03cgDirectedPrograms() []c03cgDirected {
	var l []c03cgDirected
	// concat
	for _, d := range [][3]int{{2, 3, 4}, {1, 1, 1}, {3, 1, 7}, {1, 4, 9}, {2, 2, 33}} {
		k, m, w := d[0], d[1], d[2]
		l = append(l, c03cgDirected{
			name: fmt.Sprintf("concat:[%d]uint%d+[%d]uint%d", k, w, m, w),
			src: fmt.Sprintf("package main\n\nfunc main(a [%d]uint%d, b [%d]uint%d) [%d]uint%d {\n\treturn a + b\n}\n",
				k, w, m, w, k+m, w),
			widths: []int{k * w, m * w},
			expect: func(in []*big.Int) []*big.Int {
				return []*big.Int{new(big.Int).Or(in[0], new(big.Int).Lsh(in[1], uint(k*w)))}
			}})
	}
	// concat of concats, then an element read with a run-time index
	l = append(l, c03cgDirected{
		name: "concat:a+b+a,index",
		src: "package main\n\nfunc main(a [2]uint5, b [1]uint5, i uint3) ([5]uint5, uint5) {\n" +
			"\tc := a + b + a\n\treturn c, c[i]\n}\n",
		widths: []int{10, 5, 3},
		expect: func(in []*big.Int) []*big.Int {
			c := new(big.Int).Or(in[0], new(big.Int).Lsh(in[1], 10))
			c.Or(c, new(big.Int).Lsh(in[0], 15))
			e := big.NewInt(0)
			if i := in[2].Int64(); i < 5 {
				e = c03Norm(5, new(big.Int).Rsh(c, uint(5*i)))
			}
			return []*big.Int{c, e}
		}})
	// builtin: hamming; the result has the type of the wider argument
	for _, d := range [][2]int{{8, 8}, {8, 16}, {5, 3}, {2, 2}, {33, 7}, {64, 64}} {
		wa, wb := d[0], d[1]
		wr := wa
		if wb > wr {
			wr = wb
		}
		l = append(l, c03cgDirected{
			name: fmt.Sprintf("hamming:uint%d,uint%d", wa, wb),
			src: fmt.Sprintf("package main\n\nfunc main(a uint%d, b uint%d) uint%d {\n\treturn native(\"hamming\", a, b)\n}\n",
				wa, wb, wr),
			widths: []int{wa, wb},
			expect: func(in []*big.Int) []*big.Int {
				return []*big.Int{c03Norm(wr, big.NewInt(c03cgPopcount(new(big.Int).Xor(in[0], in[1]))))}
			}})
	}
	// bts / btc: the four peephole patterns
	for _, d := range [][2]int{{8, 3}, {8, 0}, {8, 7}, {1, 0}, {13, 12}, {40, 33}} {
		w, k := d[0], d[1]
		l = append(l, c03cgDirected{
			name: fmt.Sprintf("bts-btc:uint%d>>%d", w, k),
			src: fmt.Sprintf("package main\n\nfunc main(a uint%d) (bool, bool, bool, bool) {\n"+
				"\treturn (a >> %d) & 1 != 0, (a >> %d) & 1 == 0, (a >> %d) & 1 == 1, (a >> %d) & 1 != 1\n}\n",
				w, k, k, k, k),
			widths:   []int{w},
			peephole: true,
			expect: func(in []*big.Int) []*big.Int {
				b := int64(in[0].Bit(k))
				return []*big.Int{big.NewInt(b), big.NewInt(1 - b), big.NewInt(b), big.NewInt(1 - b)}
			}})
	}
	// divisions whose operands and result differ in width (found by the
	// thorough tier after /repo cfc357f changed the GMW divider: ZeroPad of the
	// operands, muxResult): a typed constant narrower than the variable
	// (operand widths 6 / 3), and a literal in its 32-bit container with a
	// 3-bit variable and a 3-bit result (the GMW circuit has > 400 000 gates).
	udiv := func(w int, x, y *big.Int) *big.Int { // x / y on w bits, all-ones for y = 0
		if y.Sign() == 0 {
			return c03Mask(w)
		}
		return c03Norm(w, new(big.Int).Div(x, y))
	}
	umod := func(w int, x, y *big.Int) *big.Int {
		if y.Sign() == 0 {
			return c03Norm(w, x)
		}
		return c03Norm(w, new(big.Int).Mod(x, y))
	}
	l = append(l, c03cgDirected{
		name:        "div:uint6/uint3(3),uint3(5)%uint6",
		src:         "package main\n\nfunc main(a uint6) (uint6, uint6) {\n\treturn a / uint3(3), uint3(5) % a\n}\n",
		widths:      []int{6},
		noGmwOracle: true,
		expect: func(in []*big.Int) []*big.Int {
			return []*big.Int{udiv(6, in[0], big.NewInt(3)), umod(6, big.NewInt(5), in[0])}
		}})
	l = append(l, c03cgDirected{
		name:   "div:int6/int3(3),int3(2)%int6",
		src:    "package main\n\nfunc main(a int6) (int6, int6) {\n\treturn a / int3(3), int3(2) % a\n}\n",
		widths: []int{6}})
	l = append(l, c03cgDirected{
		name:        "div:5%uint3",
		src:         "package main\n\nfunc main(a uint3) uint3 {\n\treturn 5 % a\n}\n",
		widths:      []int{3},
		noGmwOracle: true,
		expect: func(in []*big.Int) []*big.Int {
			return []*big.Int{umod(3, big.NewInt(5), in[0])}
		}})
	for _, d := range []struct {
		w        int
		ty, expr string
	}{{14, "uint14", "a / 5"}, {14, "uint14", "100 % a"}, {33, "uint33", "a % 255"}, {56, "uint56", "a % 255"}, {14, "int14", "7 % a"}} {
		l = append(l, c03cgDirected{
			name:     "div:" + d.ty + ":" + d.expr,
			src:      fmt.Sprintf("package main\n\nfunc main(a %s) %s {\n\treturn %s\n}\n", d.ty, d.ty, d.expr),
			widths:   []int{d.w},
			thorough: true})
	}
	return l
}

// c03cgOpcodeFamily runs the directed programs (every run, both targets).
func c03cgOpcodeFamily(c *Ctx) {
	for _, d := range append(c03cgDirectedPrograms(), c03cgCircPrograms(c)...) {
		if d.thorough && !c.Thorough() {
			continue
		}
		vecs := c03Vectors(c.rng.Fork(), d.widths, 10, 24)
		var ssx SX
		for ti, opt := range []c03cgOpt{{peephole: d.peephole, source: d.source}, {gmw: true, peephole: d.peephole, source: d.source}} {
			raw := c03cgBuild(d.src, opt)
			if raw.err != "" && d.rejected != "" && strings.Contains(raw.err, d.rejected) {
				// e.g. a native circuit file that writes an intermediate wire twice:
				// circuits.Wire.SetInput panics ("wire input gate already set") — the
				// compiler itself insists on single assignment (circ_ok's sa_gates)
				c.Hist("cg-directed-rejected:" + d.rejected)
				break
			}
			if raw.err != "" {
				c.Fail("c03cg:directed:"+d.name+":compile", raw.err, c03cgReplay{Program: d.src, Error: raw.err})
				break
			}
			// which opcodes the real compilation produced
			for _, st := range raw.prog.Steps {
				switch st.Instr.Op {
				case ssa.Concat, ssa.Bts, ssa.Btc, ssa.Builtin, ssa.Circ:
					c.Hist("cg-directed-opcode:" + st.Instr.Op.String())
				}
			}
			// oracle: the real circuit computes the expected function
			// (a wrong circuit is reported once; its cases are emitted all the
			// same, so that the models are seen to disagree with it as well)
			var outs [][]*big.Int
			reported, bad := false, false
			for _, v := range vecs {
				got, e := c03Compute(raw.circ, v)
				c.Eval(d.src+"|"+c03VecStr(v), true)
				if e != "" {
					bad = true
				}
				var want []*big.Int
				check := d.expect != nil && !(opt.gmw && d.noGmwOracle)
				if check {
					want = d.expect(v)
				}
				if (e != "" || (check && fmt.Sprint(got) != fmt.Sprint(want))) && !reported {
					reported = true
					c.Fail("c03cg:directed:"+d.name+":wrong-value",
						fmt.Sprintf("inputs %s: circuit %s %s, expected %s", c03VecStr(v), c03VecStr(got), e, c03VecStr(want)),
						c03cgReplay{Program: d.src, Inputs: c03VecStr(v), Real: c03VecStr(got), Replica: c03VecStr(want)})
				}
				outs = append(outs, got)
			}
			if bad {
				break
			}
			if ti == 0 {
				res := c03Compiled{circ: raw.circ, prog: raw.prog, listing: raw.listing}
				var why string
				ssx, why = c03SSASX(&res)
				if why != "" {
					c.Fail("c03cg:directed:"+d.name+":listing", why, c03cgReplay{Program: d.src, Error: why})
					break
				}
				// the real listing under eval_ssa
				c.Case(L(I(1), ssx, c03VecSX(vecs)), c03VecSX(outs))
				c.Hist("ssa-listing-cases:directed")
			}
			c03cgEmit(c, d.src, ssx, vecs, &raw, nil, opt, true)
		}
	}
}

// ------------------------------------------------------------------------
// Directed programs for the opcode circ: MPCL programs calling native circuit
// files.  (1) the natives of /repo/pkg/math (add64 / sub64; mul64 / div64 in
// the thorough tier) called directly (the program's virtual source name lies in
// pkg/math so that the file resolves), through the library wrappers, with a
// narrow constant as first / last argument (zero padding of the flattened
// argument), chained; (2) small random circuits of the shared generator
// (gencirc.go: every gate kind, fan-out, in0 = in1, 1-2 inputs, 1-3 RESULTS,
// every fifth with an overwritten intermediate wire = not single assignment:
// cg_wf is false there on both sides) written next to the program by the real
// Circuit.Marshal (.mpclc) / MarshalBristol (.circ) and read back by the real
// circuit.Parse inside the compiler.  Oracle: 64-bit arithmetic resp. the
// harness's own truth-table evaluator.  Correspondence: the real listing (with
// instr.Circ as it stands in memory) under eval_ssa (mode 1) and circuit_of_ssa
// (modes 4-7: the gate list of prog.Circuit(cc) gate for gate, both targets).

func c03cgCircPrograms(c *Ctx) []c03cgDirected {
	var l []c03cgDirected
	m64 := new(big.Int).Lsh(big.NewInt(1), 64)
	mod := func(x *big.Int) *big.Int { return x.Mod(x, m64) }
	add := func(x, y *big.Int) *big.Int { return mod(new(big.Int).Add(x, y)) }
	sub := func(x, y *big.Int) *big.Int { return mod(new(big.Int).Sub(x, y)) }
	mathSrc := filepath.Join(c05RepoRoot(), "pkg", "math", "verifc03.mpcl")
	one := func(name, body string, f func(in []*big.Int) *big.Int, src string, thorough bool) {
		imp := ""
		if src == "" {
			imp = "import (\n\t\"math\"\n)\n\n"
		}
		l = append(l, c03cgDirected{
			name:     "circ:" + name,
			src:      "package main\n\n" + imp + "func main(a, b uint64) uint64 {\n" + body + "}\n",
			widths:   []int{64, 64},
			source:   src,
			thorough: thorough,
			expect:   func(in []*big.Int) []*big.Int { return []*big.Int{f(in)} }})
	}
	one("add64:direct", "\treturn native(\"add64.circ\", a, b)\n",
		func(in []*big.Int) *big.Int { return add(in[0], in[1]) }, mathSrc, false)
	one("sub64:wrapper", "\treturn math.SubUint64(a, b)\n",
		func(in []*big.Int) *big.Int { return sub(in[0], in[1]) }, "", false)
	one("add64:const-last", "\treturn native(\"add64.circ\", a ^ b, 12345)\n",
		func(in []*big.Int) *big.Int { return add(new(big.Int).Xor(in[0], in[1]), big.NewInt(12345)) }, mathSrc, true)
	one("sub64:const-first", "\treturn native(\"sub64.circ\", 77, a) + b\n",
		func(in []*big.Int) *big.Int { return add(sub(big.NewInt(77), in[0]), in[1]) }, mathSrc, false)
	one("add64-sub64:chained", "\tt := native(\"add64.circ\", a, b)\n\treturn native(\"sub64.circ\", t, 5) ^ math.AddUint64(b, b)\n",
		func(in []*big.Int) *big.Int {
			return new(big.Int).Xor(sub(add(in[0], in[1]), big.NewInt(5)), add(in[1], in[1]))
		}, "", true)
	one("mul64:direct", "\treturn native(\"mul64.circ\", a, b)\n",
		func(in []*big.Int) *big.Int { return mod(new(big.Int).Mul(in[0], in[1])) }, mathSrc, true)

	// circuit files written by the harness
	dir := filepath.Join(c.OutDir, "c03circ")
	if err := os.MkdirAll(dir, 0o755); err != nil {
		c.Hist("circ-family:cannot-create-directory")
		return l
	}
	abs, err := filepath.Abs(dir)
	if err != nil {
		abs = dir
	}
	r := c.rng.Fork()
	n := c.N(12, 80)
	for k := 0; k < n; k++ {
		sub := GenCircuit(r, GenOpts{MinIn: 1, MaxIn: 10, MinGates: 1, MaxGates: 6 + 6*(k%7), MaxOut: 6, Overwrite: k%5 == 4})
		format, ext := "mpclc", ".mpclc"
		if k%2 == 1 {
			format, ext = "bristol", ".circ"
		}
		file := fmt.Sprintf("g%d%s", k, ext)
		f, err := os.Create(filepath.Join(abs, file))
		if err != nil {
			c.Hist("circ-family:cannot-write-file")
			continue
		}
		err = sub.MarshalFormat(f, format)
		f.Close()
		if err != nil {
			c.Hist("circ-family:marshal-error")
			continue
		}
		var params, args, rts, rvs []string
		var widths []int
		for i, io := range sub.Inputs {
			params = append(params, fmt.Sprintf("x%d uint%d", i, io.Type.Bits))
			args = append(args, fmt.Sprintf("x%d", i))
			widths = append(widths, int(io.Type.Bits))
		}
		for i, io := range sub.Outputs {
			rts = append(rts, fmt.Sprintf("uint%d", io.Type.Bits))
			rvs = append(rvs, fmt.Sprintf("r%d", i))
		}
		call := fmt.Sprintf("native(%q, %s)", file, strings.Join(args, ", "))
		body := "\treturn " + call + "\n"
		if k%3 == 1 {
			// results bound to variables first
			body = "\t" + strings.Join(rvs, ", ") + " := " + call + "\n\treturn " + strings.Join(rvs, ", ") + "\n"
		}
		subc := sub
		shape := fmt.Sprintf("%s:in=%d,out=%d", format, len(sub.Inputs), len(sub.Outputs))
		if k%5 == 4 {
			shape += ",overwrite"
		}
		c.Hist("circ-family:" + shape)
		rejected := ""
		if !c03cgCircOK(sub) {
			rejected = "wire input gate already set"
		}
		l = append(l, c03cgDirected{
			rejected: rejected,
			name:     fmt.Sprintf("circ:generated:%s", shape),
			src:      "package main\n\nfunc main(" + strings.Join(params, ", ") + ") (" + strings.Join(rts, ", ") + ") {\n" + body + "}\n",
			widths:   widths,
			source:   filepath.Join(abs, fmt.Sprintf("prog%d.mpcl", k)),
			expect: func(in []*big.Int) []*big.Int {
				var x []bool
				for i, io := range subc.Inputs {
					for b := 0; b < int(io.Type.Bits); b++ {
						x = append(x, in[i].Bit(b) == 1)
					}
				}
				y := TruthEval(subc, x)
				var outs []*big.Int
				off := 0
				for _, io := range subc.Outputs {
					v := new(big.Int)
					for b := 0; b < int(io.Type.Bits); b++ {
						if y[off+b] {
							v.SetBit(v, b, 1)
						}
					}
					off += int(io.Type.Bits)
					outs = append(outs, v)
				}
				return outs
			}})
	}
	return l
}
