package main

// Word-level transcription of the COMMITTED GMW Goldschmidt divider
// (compiler/circuits/circ_gmw_divider.go NewUDividerGoldschmidtFast and the
// signed wrapper NewIDivider): what that algorithm returns for (n, a, b),
// including its known wrong answers (finding F33: the quotient estimate can be
// off by two; the correction step truncates q*b to n bits).  The C07 oracle
// uses it as a discriminator: a result that differs from the exact value is of
// the known class only if it is exactly what the committed algorithm computes;
// any other deviation of the real circuit gets its own key with the concrete
// (width, a, b).  The transcription is validated on every evaluated input (the
// real circuit must agree with it); it is independent of the Gallina model,
// which is tied gate for gate by the correspondence check.

import (
	"math/big"
	"math/bits"
)

func c07Pow2(k int) *big.Int { return new(big.Int).Lsh(big.NewInt(1), uint(k)) }

func c07ItersForWidth(n int) int {
	if n <= 1 {
		return 1
	}
	return bits.Len(uint(n-1)) + 1
}

func c07ItersForWidthWithSeed(n, m int) int {
	if n <= 1 {
		return 1
	}
	cb := m - 1
	if cb < 1 {
		cb = 1
	}
	needed := (n + cb - 1) / cb
	if needed <= 1 {
		return 2
	}
	return bits.Len(uint(needed-1)) + 1
}

// c07GoldschmidtPredict returns (q, r) as the committed circuit computes them
// for n-bit a and b (b != 0).
func c07GoldschmidtPredict(n int, a, b *big.Int) (*big.Int, *big.Int) {
	const romBits = 8
	useROM := n >= 4
	m := romBits
	if m >= n {
		m = n - 1
	}
	// normalisation: shift so that b's MSB is at position n-1
	s := n - b.BitLen()
	bNorm := c07Mask(new(big.Int).Lsh(b, uint(s)), n)
	aNorm := c07Mask(new(big.Int).Lsh(a, uint(s)), 2*n)
	W := n + 1
	qWidth := 2 * n
	two := c07Pow2(n)
	var bCurr, qCurr *big.Int
	var iters int
	if useROM {
		half := int64(1) << uint(m-1)
		addr := c07Mask(new(big.Int).Rsh(bNorm, uint(n-m)), m-1).Int64()
		recip := big.NewInt((half * half) / (half + addr))
		bp := c07Mask(new(big.Int).Mul(bNorm, recip), W+m)
		bCurr = c07Mask(new(big.Int).Rsh(bp, uint(m-1)), W)
		qp := c07Mask(new(big.Int).Mul(aNorm, recip), qWidth+m)
		qCurr = c07Mask(new(big.Int).Rsh(qp, uint(m-1)), qWidth)
		iters = c07ItersForWidthWithSeed(n, m)
	} else {
		bCurr = bNorm
		qCurr = aNorm
		iters = c07ItersForWidth(n)
	}
	for i := 0; i < iters; i++ {
		f := c07Mask(new(big.Int).Sub(two, bCurr), W)
		fN := c07Mask(f, n)
		bp := c07Mask(new(big.Int).Mul(bCurr, fN), 2*W)
		bCurr = c07Mask(new(big.Int).Rsh(bp, uint(n-1)), W)
		qp := c07Mask(new(big.Int).Mul(qCurr, fN), qWidth+n)
		qCurr = c07Mask(new(big.Int).Rsh(qp, uint(n-1)), qWidth)
	}
	// correction
	q := c07Mask(new(big.Int).Rsh(qCurr, uint(n-1)), n)
	qb := c07Mask(new(big.Int).Mul(q, b), n)
	r := c07Mask(new(big.Int).Sub(a, qb), n+1)
	isNeg := r.Bit(n) == 1
	rLow := c07Mask(r, n)
	qM1 := c07Mask(new(big.Int).Sub(q, big.NewInt(1)), n)
	qP1 := c07Mask(new(big.Int).Add(q, big.NewInt(1)), n)
	rPlusB := c07Mask(new(big.Int).Add(rLow, b), n)
	rMinusB := c07Mask(new(big.Int).Sub(rLow, b), n+1)
	isGe := rMinusB.Bit(n) == 0
	if isNeg {
		return qM1, rPlusB
	}
	if isGe {
		return qP1, c07Mask(rMinusB, n)
	}
	return q, rLow
}

// c07IDivPredictGMW: NewIDivider around the Goldschmidt divider (equal widths n).
func c07IDivPredictGMW(n int, a, b *big.Int) (*big.Int, *big.Int) {
	neg := func(v *big.Int) *big.Int { return c07Mask(new(big.Int).Sub(c07Pow2(n), v), n) }
	sa, sb := a.Bit(n-1) == 1, b.Bit(n-1) == 1
	A, B := a, b
	if sa {
		A = neg(a)
	}
	if sb {
		B = neg(b)
	}
	if B.Sign() == 0 {
		return nil, nil
	}
	q, r := c07GoldschmidtPredict(n, A, B)
	if sa != sb {
		q = neg(q)
	}
	return q, r
}
