package main

// Property C06, door "front end": apps/ot/main.go of the tree under test, built
// and run as a fresh process (real crypto/rand, 2048-bit key, GOGC=1); the
// receiver's message it prints must be the sender's m0 it prints (the program
// always chooses bit 0), whatever the program's own comparison says.

import (
	"encoding/hex"
	"fmt"
	"os"
	"os/exec"
	"path/filepath"
	"regexp"
	"time"
)

func c06Repo() string {
	if r := os.Getenv("VERIF_REPO"); r != "" {
		return r
	}
	return "/repo"
}

var (
	c06AppSenderRE   = regexp.MustCompile(`(?m)^\s*Sender m([01]) : ([0-9a-f]+)$`)
	c06AppReceiverRE = regexp.MustCompile(`(?m)^Receiver m([01]) : ([0-9a-f]*)$`)
)

func c06DoorAppsOT(c *Ctx) {
	rp := c06Replay{Seed: c.Seed, Case: "door-apps-ot", Impl: "apps/ot"}
	out, err := filepath.Abs(filepath.Join(c.OutDir, "apps-ot")) // the build runs with the tree as its directory
	if err != nil {
		out = filepath.Join(os.TempDir(), fmt.Sprintf("c06-apps-ot-%d", os.Getpid()))
	}
	build := exec.Command("go", "build", "-o", out, "./apps/ot")
	build.Dir = c06Repo()
	build.Env = append(os.Environ(), "GOFLAGS=-mod=readonly", "GOPROXY=off") // never writes go.mod / go.sum of the tree
	if b, err := build.CombinedOutput(); err != nil {
		rp.Detail = fmt.Sprintf("go build ./apps/ot: %v: %s", err, b)
		c.Fail("c06:apps/ot:build", "apps/ot does not build", rp)
		return
	}
	for run := 0; run < 2; run++ {
		cmd := exec.Command(out)
		cmd.Env = append(os.Environ(), "GOGC=1")
		done := make(chan struct{})
		var b []byte
		var err error
		go func() { b, err = cmd.CombinedOutput(); close(done) }()
		select {
		case <-done:
		case <-time.After(120 * time.Second):
			if cmd.Process != nil {
				cmd.Process.Kill()
			}
			<-done
			c.Fail("c06:apps/ot:stalled", "apps/ot did not terminate", rp)
			return
		}
		c.Hist("door:apps-ot")
		c.Eval(fmt.Sprintf("door|apps-ot|%d|%s", run, b), true)
		sent := map[string]string{}
		for _, m := range c06AppSenderRE.FindAllStringSubmatch(string(b), -1) {
			// %x of a Label prints the hex of its String(), itself 32 hex digits
			if s, e := hex.DecodeString(m[2]); e == nil {
				sent[m[1]] = string(s)
			}
		}
		rm := c06AppReceiverRE.FindStringSubmatch(string(b))
		switch {
		case err != nil:
			rp.Detail = fmt.Sprintf("%v: %s", err, b)
			c.Fail("c06:apps/ot:error", "apps/ot failed (exit status / Verify failed)", rp)
		case rm == nil || len(sent) != 2:
			rp.Detail = string(b)
			c.Fail("c06:apps/ot:output", "apps/ot output not understood", rp)
		case rm[2] != sent[rm[1]]:
			rp.Detail = string(b)
			c.Fail("c06:apps/ot:wrong-message", "apps/ot: the receiver's message is not the sender's message of the chosen bit", rp)
		}
	}
}
