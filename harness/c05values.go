package main

// Less-travelled entry points of the streaming path:
//  - the evaluator's input passed as Go VALUES (StreamEvaluator's inputValues;
//    IOArg.Set) instead of strings: struct-typed evaluator arguments with
//    fixed-size array fields followed by other fields; array values short, full
//    and nil; ints of every Go width, negative ones, bools.  The whole-circuit
//    reference gets the same input packed per member by the harness itself.
//  - Compiler.StreamFile, params.Verbose / Diagnostics / SSADotOut, verbose
//    evaluator, non-default CircMultArrayTreshold / MaxLoopUnroll (smoke
//    family: same oracle).

import (
	"fmt"
	"math/big"
	"strings"
)

// c05ValuesProg: main(g uint32, e E) where E has array fields followed by
// other fields; every field reaches an output.
func c05ValuesProg(r *RNG) c05Prog {
	type field struct {
		name, typ string
		bits, n   int // n > 0: array of n elements
		signed    bool
	}
	var fields []field
	nf := 3 + r.Intn(3)
	for i := 0; i < nf; i++ {
		f := field{name: fmt.Sprintf("F%d", i)}
		switch {
		case i == 0 || (i < nf-1 && r.Intn(3) == 0):
			f.bits = []int{8, 8, 16}[r.Intn(3)]
			f.n = 2 + r.Intn(4)
			f.typ = fmt.Sprintf("[%d]uint%d", f.n, f.bits)
		case r.Intn(4) == 0:
			f.bits, f.typ = 1, "bool"
		default:
			f.bits = []int{8, 16, 32, 64}[r.Intn(4)]
			f.signed = r.Bool()
			f.typ = fmt.Sprintf("uint%d", f.bits)
			if f.signed {
				f.typ = fmt.Sprintf("int%d", f.bits)
			}
		}
		fields = append(fields, f)
	}
	var sb strings.Builder
	sb.WriteString("package main\n\ntype E struct {\n")
	for _, f := range fields {
		fmt.Fprintf(&sb, "\t%s %s\n", f.name, f.typ)
	}
	sb.WriteString("}\n\n")
	var rt, rv []string
	var vals []interface{}
	var leaves []*big.Int
	var sizes []int
	for _, f := range fields {
		sizes = append(sizes, max(f.bits, 1)*max(f.n, 1))
		switch {
		case f.n > 0:
			// every element is returned
			rt = append(rt, f.typ)
			rv = append(rv, "e."+f.name)
			var v []byte
			switch r.Intn(4) {
			case 0: // nil
			case 1: // full
				v = r.Bytes(f.n)
			default: // short
				v = r.Bytes(1 + r.Intn(f.n-1))
			}
			leaf := new(big.Int)
			for i, b := range v {
				leaf.Or(leaf, new(big.Int).Lsh(big.NewInt(int64(b)), uint(i*f.bits)))
			}
			leaves = append(leaves, leaf)
			if v == nil {
				vals = append(vals, nil)
			} else {
				vals = append(vals, v)
			}
		case f.typ == "bool":
			rt = append(rt, "bool")
			rv = append(rv, "e."+f.name)
			b := r.Bool()
			vals = append(vals, b)
			if b {
				leaves = append(leaves, big.NewInt(1))
			} else {
				leaves = append(leaves, big.NewInt(0))
			}
		default:
			rt = append(rt, f.typ)
			rv = append(rv, fmt.Sprintf("e.%s + %s(g)", f.name, f.typ))
			u := r.U64()
			var v interface{}
			switch {
			case f.bits == 8 && f.signed:
				v = int8(u)
			case f.bits == 8:
				v = uint8(u)
			case f.bits == 16 && f.signed:
				v = int16(u)
			case f.bits == 16:
				v = uint16(u)
			case f.bits == 32 && f.signed:
				v = int32(u)
			case f.bits == 32:
				v = uint32(u)
			case f.signed:
				v = int64(u)
			default:
				v = u
			}
			vals = append(vals, v)
			mask := new(big.Int).Sub(new(big.Int).Lsh(big.NewInt(1), uint(f.bits)), big.NewInt(1))
			leaves = append(leaves, new(big.Int).And(new(big.Int).SetUint64(u), mask))
		}
	}
	fmt.Fprintf(&sb, "func main(g uint32, e E) (%s) {\n\treturn %s\n}\n", strings.Join(rt, ", "), strings.Join(rv, ", "))
	return c05Prog{src: sb.String(), g: []string{fmt.Sprint(r.Intn(1 << 20))},
		opt:  c05StreamOpt{eVals: vals, eSizes: sizes, eLeaves: leaves},
		feat: map[string]int{"evaluator-input-values": 1}, nstmts: 1}
}

// c05EntryPrograms: the value-entry family and the option smoke family.
func c05EntryPrograms(c *Ctx) []c05Prog {
	r := c.rng.Fork()
	var progs []c05Prog
	for i := 0; i < c.N(10, 80); i++ {
		progs = append(progs, c05ValuesProg(r.Fork()))
	}
	// option smoke family on small programs with a loop and a multiplication
	src := func(n int) string {
		return fmt.Sprintf("package main\n\nfunc main(a, b uint16) (uint16, uint32) {\n\tvar arr [4]uint16\n\tfor i := 0; i < %d; i++ {\n\t\tarr[i %% 4] = arr[i %% 4] + a\n\t}\n\tm := uint32(a) * uint32(b)\n\treturn arr[1] ^ b, m\n}\n", n)
	}
	opts := []c05StreamOpt{{file: true}, {verbose: true}, {diagnostics: true}, {dot: true}, {multArray: 8}, {multArray: 1000},
		{maxUnroll: 64}, {file: true, verbose: true, diagnostics: true, dot: true, multArray: 16}}
	for i, o := range opts {
		if !c.Thorough() && i >= 5 && r.Intn(2) == 0 {
			continue
		}
		progs = append(progs, c05Prog{src: src(3 + r.Intn(6)), g: []string{fmt.Sprint(r.Intn(60000))}, e: []string{fmt.Sprint(r.Intn(60000))},
			opt: o, feat: map[string]int{"entry-option-smoke": 1}, nstmts: 4})
	}
	return progs
}
