package main

// Property C15: malicious-mode OT extension detects a deviating receiver.
//
// The real ot.IKNPReceiver / ot.IKNPSender run in malicious mode.  The
// protocol is one-directional (receiver -> sender: payload chunks, check
// chunks, seed, x, t0, t1), so the receiver is run to completion against a
// recording ot.IO, the in-transit adversary rewrites the recorded message
// sequence, and a fresh sender (same base-OT keys, same Delta) consumes the
// rewritten sequence through a replaying ot.IO.  The base OT is a stub that
// hands the receiver's wire labels to the sender according to Delta, so the
// PRG keys, Delta, the receiver's random labels (b0, b1, seed2) and therefore
// the chi coefficients are all known to the harness without any hook.
//
// Hook used: /repo/ot/verif_export_c15.go (build tag verif) exports the
// unexported mul128 / mul128Generic / mul128Ref for the multiplication tie.

import (
	"crypto/aes"
	"crypto/cipher"
	"errors"
	"fmt"
	"math/big"
	"os"
	"path/filepath"
	"regexp"
	"sort"
	"strconv"
	"strings"

	"github.com/markkurossi/mpc/ot"
)

func init() { register("c15", runC15) }

// ---------------------------------------------------------------- plumbing

type c15Msg struct {
	data    []byte
	label   ot.Label
	isLabel bool
}

var errC15Unexpected = errors.New("c15: unexpected I/O operation")

// c15RecIO records what the receiver sends.
type c15RecIO struct{ msgs []c15Msg }

func (r *c15RecIO) SendByte(val byte) error  { return errC15Unexpected }
func (r *c15RecIO) SendUint32(val int) error { return errC15Unexpected }
func (r *c15RecIO) SendData(val []byte) error {
	r.msgs = append(r.msgs, c15Msg{data: append([]byte(nil), val...)})
	return nil
}
func (r *c15RecIO) SendLabel(val ot.Label, data *ot.LabelData) error {
	r.msgs = append(r.msgs, c15Msg{label: val, isLabel: true})
	return nil
}
func (r *c15RecIO) Flush() error                   { return nil }
func (r *c15RecIO) ReceiveByte() (byte, error)     { return 0, errC15Unexpected }
func (r *c15RecIO) ReceiveUint32() (int, error)    { return 0, errC15Unexpected }
func (r *c15RecIO) ReceiveData() ([]byte, error)   { return nil, errC15Unexpected }
func (r *c15RecIO) ReceiveLabel(val *ot.Label, data *ot.LabelData) error {
	return errC15Unexpected
}

// c15PlayIO replays a message sequence to the sender.
type c15PlayIO struct {
	msgs []c15Msg
	pos  int
}

var errC15EOF = errors.New("c15: message sequence exhausted")
var errC15Type = errors.New("c15: message type mismatch")

func (p *c15PlayIO) SendByte(val byte) error                          { return errC15Unexpected }
func (p *c15PlayIO) SendUint32(val int) error                         { return errC15Unexpected }
func (p *c15PlayIO) SendData(val []byte) error                        { return errC15Unexpected }
func (p *c15PlayIO) SendLabel(val ot.Label, data *ot.LabelData) error { return errC15Unexpected }
func (p *c15PlayIO) Flush() error                                     { return nil }
func (p *c15PlayIO) ReceiveByte() (byte, error)                       { return 0, errC15Unexpected }
func (p *c15PlayIO) ReceiveUint32() (int, error)                      { return 0, errC15Unexpected }
func (p *c15PlayIO) ReceiveData() ([]byte, error) {
	if p.pos >= len(p.msgs) {
		return nil, errC15EOF
	}
	m := p.msgs[p.pos]
	if m.isLabel {
		return nil, errC15Type
	}
	p.pos++
	return append([]byte(nil), m.data...), nil
}
func (p *c15PlayIO) ReceiveLabel(val *ot.Label, data *ot.LabelData) error {
	if p.pos >= len(p.msgs) {
		return errC15EOF
	}
	m := p.msgs[p.pos]
	if !m.isLabel {
		return errC15Type
	}
	p.pos++
	*val = m.label
	return nil
}

// c15Base is the stub base OT shared by both parties.
type c15Base struct{ wires []ot.Wire }

func (b *c15Base) InitSender(io ot.IO) error   { return nil }
func (b *c15Base) InitReceiver(io ot.IO) error { return nil }
func (b *c15Base) Send(wires []ot.Wire) error {
	b.wires = append([]ot.Wire(nil), wires...)
	return nil
}
func (b *c15Base) Receive(flags []bool, result []ot.Label) error {
	if len(flags) != len(b.wires) || len(result) != len(flags) {
		return fmt.Errorf("c15 base OT: size mismatch")
	}
	for i, f := range flags {
		if f {
			result[i] = b.wires[i].L1
		} else {
			result[i] = b.wires[i].L0
		}
	}
	return nil
}

// labelLog is a deterministic random source that remembers the labels drawn.
type labelLog struct {
	r      *RNG
	labels []ot.Label
}

func (l *labelLog) Read(p []byte) (int, error) {
	n, err := l.r.Read(p)
	if len(p) == 16 {
		var lb ot.Label
		lb.SetBytes(p)
		l.labels = append(l.labels, lb)
	}
	return n, err
}

// polynomial order: D0 + 2^64*D1 (Label.Bit(i) = bit i)
func c15Poly(l ot.Label) *big.Int {
	v := new(big.Int).SetUint64(l.D1)
	v.Lsh(v, 64)
	return v.Or(v, new(big.Int).SetUint64(l.D0))
}
func polySX(l ot.Label) SX { return Big(c15Poly(l)) }
func polysSX(ls []ot.Label) SX {
	out := make([]SX, len(ls))
	for i, l := range ls {
		out[i] = polySX(l)
	}
	return L(out...)
}
func c15FromPoly(v *big.Int) ot.Label {
	m := new(big.Int).SetUint64(^uint64(0))
	lo := new(big.Int).And(v, m)
	hi := new(big.Int).And(new(big.Int).Rsh(v, 64), m)
	return ot.Label{D0: lo.Uint64(), D1: hi.Uint64()}
}

// keystream of newPrg(key): AES-CTR, zero IV (independent re-implementation)
func c15Stream(key ot.Label, n int) []byte {
	var ld ot.LabelData
	block, err := aes.NewCipher(key.Bytes(&ld))
	if err != nil {
		panic(err)
	}
	var iv [16]byte
	s := cipher.NewCTR(block, iv[:])
	buf := make([]byte, n)
	s.XORKeyStream(buf, buf)
	return buf
}

func c15Chi(seed ot.Label, count int) []ot.Label {
	ks := c15Stream(seed, 16*count)
	out := make([]ot.Label, count)
	for i := range out {
		out[i].SetBytes(ks[16*i : 16*i+16])
	}
	return out
}

func leBig(b []byte) *big.Int {
	r := make([]byte, len(b))
	for i := range b {
		r[len(b)-1-i] = b[i]
	}
	return new(big.Int).SetBytes(r)
}

// ---------------------------------------------------------------- one base run

type c15Flip struct{ Batch, Col, Row int }

type c15Pattern struct {
	Class string    `json:"class"`
	Flips []c15Flip `json:"flips"`
	Seed  *ot.Label `json:"seed,omitempty"` // replaced seed (nil = unchanged)
	DX    ot.Label  `json:"dx"`
	DT0   ot.Label  `json:"dt0"`
	DT1   ot.Label  `json:"dt1"`
}

func (p *c15Pattern) altersResponse() bool {
	var z ot.Label
	return p.Seed != nil || p.DX != z || p.DT0 != z || p.DT1 != z
}

type c15Run struct {
	n, pre int
	preKind int
	b      []bool
	delta  ot.Label
	base   *c15Base
	msgs   []c15Msg // pre chunks, payload chunks, check chunks, seed, x, t0, t1
	nPre   int      // number of pre messages
	nPay   int      // number of payload chunk messages
	nChk   int      // number of check chunk messages
	b0, b1 ot.Label
	seed   ot.Label
	rcvd   []ot.Label
	chi    []ot.Label // n+256 coefficients for seed
	pos    int        // stream bytes consumed before the malicious batch
}

func c15Chunks(n int) int { return (n + 511) / 512 }

func newC15Run(r *RNG, n, pre int, b []bool, delta ot.Label) (*c15Run, error) {
	return newC15RunKind(r, n, pre, c15PreLabels, b, delta)
}

// what the same sender/receiver objects did BEFORE the malicious batch under
// test (the PRG streams continue): a semi-honest label batch, a complete
// malicious batch (payload + 256 check rows), or a bit batch (SendBits /
// ReceiveBits, pre a multiple of 64)
const (
	c15PreLabels = iota
	c15PreMalicious
	c15PreBits
)

func newC15RunKind(r *RNG, n, pre, preKind int, b []bool, delta ot.Label) (*c15Run, error) {
	run := &c15Run{n: n, pre: pre, preKind: preKind, b: b, delta: delta, base: &c15Base{}}
	rec := &c15RecIO{}
	rnd := &labelLog{r: r.Fork()}
	rcv, err := ot.NewIKNPReceiver(run.base, rec, rnd)
	if err != nil {
		return nil, err
	}
	if len(rnd.labels) != 2*ot.K {
		return nil, fmt.Errorf("receiver drew %d labels at setup, expected %d", len(rnd.labels), 2*ot.K)
	}
	if pre > 0 {
		pb := make([]bool, pre)
		for i := range pb {
			pb[i] = r.Bool()
		}
		switch preKind {
		case c15PreBits:
			ch := make([]uint64, (pre+63)/64)
			for i, f := range pb {
				if f {
					ch[i/64] |= 1 << uint(i%64)
				}
			}
			err = rcv.ReceiveBits(ch, make([]uint64, (pre+63)/64), pre)
		default:
			err = rcv.Receive(pb, make([]ot.Label, pre), preKind == c15PreMalicious)
		}
		if err != nil {
			return nil, err
		}
	}
	run.nPre = len(rec.msgs)
	run.pos = (pre + 7) / 8
	extraLabels := 0
	if pre > 0 && preKind == c15PreMalicious {
		run.pos += 32
		extraLabels = 3
	}
	run.rcvd = make([]ot.Label, n)
	if err := rcv.Receive(b, run.rcvd, true); err != nil {
		return nil, fmt.Errorf("honest receiver failed: %v", err)
	}
	run.msgs = rec.msgs
	run.nPay = c15Chunks(n)
	run.nChk = 1
	if len(run.msgs) != run.nPre+run.nPay+run.nChk+4 {
		return nil, fmt.Errorf("unexpected message count %d (pre %d, n %d)", len(run.msgs), run.nPre, n)
	}
	if len(rnd.labels) != 2*ot.K+3+extraLabels {
		return nil, fmt.Errorf("receiver drew %d labels, expected %d", len(rnd.labels), 2*ot.K+3+extraLabels)
	}
	nl := len(rnd.labels)
	run.b0, run.b1, run.seed = rnd.labels[nl-3], rnd.labels[nl-2], rnd.labels[nl-1]
	if m := run.msgs[run.nPre+run.nPay+run.nChk]; !m.isLabel || m.label != run.seed {
		return nil, fmt.Errorf("seed on the wire differs from the label drawn")
	}
	run.chi = c15Chi(run.seed, n+256)
	return run, nil
}

// response as sent by the honest receiver
func (run *c15Run) response() (x, t0, t1 ot.Label) {
	k := run.nPre + run.nPay + run.nChk
	return run.msgs[k+1].label, run.msgs[k+2].label, run.msgs[k+3].label
}

// apply a pattern to a copy of the message sequence
func (run *c15Run) tampered(p *c15Pattern) []c15Msg {
	msgs := append([]c15Msg(nil), run.msgs...)
	copied := map[int]bool{}
	for _, f := range p.Flips {
		var mi, row int
		if f.Batch == 0 {
			mi = run.nPre + f.Row/512
			row = f.Row % 512
		} else {
			mi = run.nPre + run.nPay
			row = f.Row
		}
		if !copied[mi] {
			msgs[mi].data = append([]byte(nil), msgs[mi].data...)
			copied[mi] = true
		}
		w := len(msgs[mi].data) / ot.K
		msgs[mi].data[f.Col*w+row/8] ^= 1 << uint(row%8)
	}
	k := run.nPre + run.nPay + run.nChk
	if p.Seed != nil {
		msgs[k].label = *p.Seed
	}
	msgs[k+1].label.Xor(p.DX)
	msgs[k+2].label.Xor(p.DT0)
	msgs[k+3].label.Xor(p.DT1)
	return msgs
}

// run a fresh sender over a message sequence
func (run *c15Run) sender(r *RNG, msgs []c15Msg) (sent []ot.Label, delta ot.Label, err error) {
	defer func() {
		if e := recover(); e != nil {
			err = fmt.Errorf("PANIC: %v", e)
		}
	}()
	play := &c15PlayIO{msgs: msgs}
	d := run.delta
	snd, e := ot.NewIKNPSender(run.base, play, r, &d)
	if e != nil {
		return nil, d, e
	}
	if run.pre > 0 {
		var e error
		switch run.preKind {
		case c15PreBits:
			e = snd.SendBits(run.pre, make([]uint64, (run.pre+63)/64))
		default:
			_, e = snd.Send(run.pre, run.preKind == c15PreMalicious)
		}
		if e != nil {
			return nil, snd.Delta, fmt.Errorf("pre batch: %v", e)
		}
	}
	sent, err = snd.Send(run.n, true)
	return sent, snd.Delta, err
}

// rows on the wire of the payload batch (includes the padding rows)
func (run *c15Run) wireRows() int { return 8 * ((run.n + 7) / 8) }

func (run *c15Run) correlationHolds(sent []ot.Label) bool {
	if len(sent) != run.n {
		return false
	}
	for i, q := range sent {
		if run.b[i] {
			q.Xor(run.delta)
		}
		if !q.Equal(run.rcvd[i]) {
			return false
		}
	}
	return true
}

// selectedFlips: net flips (odd multiplicity) in columns Delta selects, on rows
// the sender uses (payload rows < n, all check rows)
func (run *c15Run) selectedFlips(p *c15Pattern) (payload, check int) {
	cnt := map[c15Flip]int{}
	for _, f := range p.Flips {
		cnt[f]++
	}
	for f, c := range cnt {
		if c%2 == 0 || run.delta.Bit(f.Col) == 0 {
			continue
		}
		if f.Batch == 0 && f.Row < run.n {
			payload++
		} else if f.Batch == 1 {
			check++
		}
	}
	return
}

// streams of the receiver as little-endian numbers, one per column
func (run *c15Run) streamsSX(which int) SX {
	nbytes := run.pos + (run.n+7)/8 + 32
	cols := make([]SX, ot.K)
	for j := 0; j < ot.K; j++ {
		key := run.base.wires[j].L0
		if which == 1 {
			key = run.base.wires[j].L1
		}
		cols[j] = Big(leBig(c15Stream(key, nbytes)))
	}
	return L(cols...)
}

func flipsSX(fl []c15Flip, batch int) SX {
	var out []SX
	for _, f := range fl {
		if f.Batch == batch {
			out = append(out, L(I(f.Col), I(f.Row)))
		}
	}
	return L(out...)
}

type c15Replay struct {
	Seed    uint64     `json:"seed"`
	Base    int        `json:"base"`
	N       int        `json:"n"`
	Pre     int        `json:"pre"`
	Choices string     `json:"choices"`
	Delta   string     `json:"delta"`
	Pattern c15Pattern `json:"pattern"`
	Got     string     `json:"got"`
	Want    string     `json:"want"`
}

// evaluate one pattern on the implementation; returns the observable for the model
func (run *c15Run) evalPattern(c *Ctx, r *RNG, baseIdx int, p *c15Pattern) SX {
	msgs := run.tampered(p)
	sent, delta, err := run.sender(r, msgs)
	selPay, selChk := run.selectedFlips(p)
	trivial := len(p.Flips) == 0 && !p.altersResponse()
	c.Eval(fmt.Sprintf("%d|%d|%s|%s|%s", run.n, run.pre, bitsString(run.b), run.delta, run.patternSX(p).String()), !trivial)
	c.Hist("class:" + p.Class)
	rep := func(got, want string) c15Replay {
		return c15Replay{Seed: c.Seed, Base: baseIdx, N: run.n, Pre: run.pre, Choices: bitsString(run.b),
			Delta: run.delta.String(), Pattern: *p, Got: got, Want: want}
	}
	if delta != run.delta {
		c.Fail("c15:delta-changed", "IKNPSender.Delta differs from the delta given to NewIKNPSender", rep(delta.String(), run.delta.String()))
	}
	if err != nil {
		c.Hist("outcome:reject")
		if len(err.Error()) >= 5 && err.Error()[:5] == "PANIC" {
			c.Fail("c15:sender-panic:"+p.Class, "IKNPSender.Send panicked: "+err.Error(), rep(err.Error(), "error return"))
			return L(I(-1), I(0))
		}
		if trivial {
			c.Fail("c15:honest-abort", "honest malicious-mode run aborted: "+err.Error(), rep(err.Error(), "accept"))
		}
		if err == errC15EOF || err == errC15Type || err == errC15Unexpected {
			return L(I(-1), I(0))
		}
		return L(I(0), I(0))
	}
	c.Hist("outcome:accept")
	corr := run.correlationHolds(sent)
	if strings.HasPrefix(p.Class, "response-alteration:") && len(p.Flips) == 0 {
		// matrix untouched: the sender's value is (t0,t1) xor dx*Delta, so the altered response
		// satisfies the check equation iff the seed is unchanged and (dt0,dt1) = dx*Delta
		lo, hi := c15Clmul(p.DX, run.delta)
		if p.Seed != nil || lo != p.DT0 || hi != p.DT1 {
			c.Fail("c15:"+p.Class+":accepted",
				fmt.Sprintf("IKNPSender.Send returned nil although the challenge response was altered in transit and no longer satisfies the check equation (shape %s: dx=%s dt0=%s dt1=%s seed replaced=%v; n=%d)",
					strings.TrimPrefix(p.Class, "response-alteration:"), p.DX, p.DT0, p.DT1, p.Seed != nil, run.n),
				rep("accept", "error"))
		}
	}
	if !corr {
		what := fmt.Sprintf("sender accepted but its outputs violate the correlation for the receiver's original choices (class %s, %d flip(s), %d in selected columns of payload rows)", p.Class, len(p.Flips), selPay)
		if trivial {
			c.Fail("c15:honest-correlation-broken", what, rep("accept, correlation broken", "accept, correlation holds"))
		} else if strings.HasPrefix(p.Class, "pair-flip:") || strings.HasPrefix(p.Class, "multi-flip:") {
			bad := -1
			for i, q := range sent {
				if run.b[i] {
					q.Xor(run.delta)
				}
				if !q.Equal(run.rcvd[i]) {
					bad = i
					break
				}
			}
			c.Fail("c15:"+p.Class+":accepted-inconsistent",
				fmt.Sprintf("sender accepted but OT[%d] breaks the correlation: %d flips %v cancel in the check (n=%d, %d of them in columns Delta selects)",
					bad, len(p.Flips), p.Flips, run.n, selPay+selChk),
				rep(fmt.Sprintf("accept, OT[%d] inconsistent", bad), "error"))
		} else {
			c.Fail("c15:accepted-correlation-broken:"+p.Class+run.sizeTag(p), what, rep("accept, correlation broken", "error"))
		}
	} else if selPay+selChk > 0 {
		if strings.HasPrefix(p.Class, "pair-flip:") || strings.HasPrefix(p.Class, "multi-flip:") {
			c.Fail("c15:"+p.Class+":accepted-selected-column-flip",
				fmt.Sprintf("sender accepted although %d bit(s) in columns selected by Delta were altered (flips %v)", selPay+selChk, p.Flips),
				rep("accept", "error"))
			goto done
		}
		c.Fail("c15:accepted-selected-column-flip:"+p.Class+run.sizeTag(p),
			fmt.Sprintf("sender accepted although %d bit(s) in columns selected by Delta were altered (check batch: %d)", selPay+selChk, selChk),
			rep("accept", "error"))
	}
done:
	items := []SX{I(1), Bool(corr)}
	for _, q := range sent {
		items = append(items, polySX(q))
	}
	return L(items...)
}

// loop bounds of the malicious branch (ot/iknp.go): rows per chunk, rows per
// chi block (`var chi [1024]Label`, read from the source), rows of the check batch
const c15ChunkRows = 512
const c15CheckRows = 256

var c15ChiBlockCached int

func c15ChiBlock() int {
	if c15ChiBlockCached != 0 {
		return c15ChiBlockCached
	}
	c15ChiBlockCached = 1024
	repo := os.Getenv("VERIF_REPO")
	if repo == "" {
		repo = "/repo"
	}
	if src, err := os.ReadFile(filepath.Join(repo, "ot", "iknp.go")); err == nil {
		if m := regexp.MustCompile(`var chi \[(\d+)\]Label`).FindSubmatch(src); m != nil {
			if v, err := strconv.Atoi(string(m[1])); err == nil && v > 0 {
				c15ChiBlockCached = v
			}
		}
	}
	return c15ChiBlockCached
}

// sizeTag makes the oracle key name the input class: which loop bound the
// batch size sits on and whether the tampering is in the last block.  The
// classes of the inherent protocol leaks keep their plain keys.
func (run *c15Run) sizeTag(p *c15Pattern) string {
	switch p.Class {
	case "chi-dependency", "coordinated-guess", "row-substitution":
		return ""
	}
	tag := ""
	n := run.n
	cb := c15ChiBlock()
	switch {
	case n > 0 && n%cb == 0:
		tag = fmt.Sprintf(":n%%%d==0", cb)
	case n > 0 && n%c15ChunkRows == 0:
		tag = fmt.Sprintf(":n%%%d==0", c15ChunkRows)
	case n > 0 && n%c15CheckRows == 0:
		tag = fmt.Sprintf(":n%%%d==0", c15CheckRows)
	case n > cb && (n%cb == 1 || n%cb == cb-1):
		tag = fmt.Sprintf(":n%%%d==+-1", cb)
	}
	if n > 0 {
		lastStart := ((n - 1) / cb) * cb
		for _, f := range p.Flips {
			if f.Batch == 0 && f.Row >= lastStart && f.Row < n {
				tag += ":last-chi-block"
				break
			}
		}
	}
	return tag
}

// boundaryPatterns: single flips in Delta-selected columns at the rows where a
// loop bound of the malicious branch could go wrong: first row, first and last
// row of the last chi block / last chunk, the last row, random rows of the
// last block; the last rows of the check batch; one unselected flip in the
// last block.  limit <= 0: all.
func (run *c15Run) boundaryPatterns(r *RNG, extra int) []*c15Pattern {
	n := run.n
	cb := c15ChiBlock()
	var ps []*c15Pattern
	ps = append(ps, &c15Pattern{Class: "honest"})
	if n == 0 {
		return ps
	}
	rows := map[int]bool{0: true, n - 1: true}
	lastChi := ((n - 1) / cb) * cb
	lastChunk := ((n - 1) / c15ChunkRows) * c15ChunkRows
	rows[lastChi] = true
	rows[lastChunk] = true
	if n >= cb {
		rows[n-cb] = true
	}
	if n >= c15ChunkRows {
		rows[n-c15ChunkRows] = true
	}
	if lastChi > 0 {
		rows[lastChi-1] = true
	}
	for i := 0; i < extra; i++ {
		rows[lastChi+r.Intn(n-lastChi)] = true
	}
	var sorted []int
	for row := range rows {
		if row >= 0 && row < n {
			sorted = append(sorted, row)
		}
	}
	sort.Ints(sorted)
	for _, row := range sorted {
		if j := run.columnWith(r, 1); j >= 0 {
			ps = append(ps, &c15Pattern{Class: "boundary-single-selected", Flips: []c15Flip{{0, j, row}}})
		}
	}
	if j := run.columnWith(r, 1); j >= 0 {
		ps = append(ps, &c15Pattern{Class: "boundary-check-row", Flips: []c15Flip{{1, j, c15CheckRows - 1}}})
	}
	if j := run.columnWith(r, 0); j >= 0 {
		ps = append(ps, &c15Pattern{Class: "boundary-single-unselected", Flips: []c15Flip{{0, j, n - 1}}})
	}
	return ps
}

// multiPatterns: deviations of two (three, four) flips whose contributions to
// the check cancel exactly when the rows involved share a chi coefficient:
//   same-col-rows+<blk>k     one column, payload rows a and a + blk*k (blk = chi block, 1024)
//   payload+check-same-pos   the same (row, column) in the payload and in the check batch
//   same-row-two-cols        one payload row, two columns
//   same-col-adjacent-rows   one column, payload rows a and a+1
//   triples / two-column quadruples of the first two shapes
// for columns Delta selects (sel) and does not select.  count <= 0: one of each.
func (run *c15Run) multiPatterns(r *RNG, rounds int) []*c15Pattern {
	n := run.n
	cb := c15ChiBlock()
	var ps []*c15Pattern
	if n == 0 {
		return ps
	}
	col := func(sel bool) int {
		bit := uint(0)
		if sel {
			bit = 1
		}
		j := run.columnWith(r, bit)
		if j < 0 {
			j = run.columnWith(r, 1-bit)
		}
		return j
	}
	add := func(shape string, fl ...c15Flip) {
		ps = append(ps, &c15Pattern{Class: shape, Flips: dedupFlips(fl)})
	}
	for round := 0; round < rounds; round++ {
		sel := round%4 != 3 // mostly selected columns
		j := col(sel)
		// rows a, a + cb*k
		if n > cb {
			a := r.Intn(n - cb)
			k := 1 + r.Intn((n-1-a)/cb)
			add(fmt.Sprintf("pair-flip:same-col-rows+%dk", cb), c15Flip{0, j, a}, c15Flip{0, j, a + cb*k})
			if round%3 == 0 { // also the first/last possible rows
				add(fmt.Sprintf("pair-flip:same-col-rows+%dk", cb), c15Flip{0, j, 0}, c15Flip{0, j, cb})
				add(fmt.Sprintf("pair-flip:same-col-rows+%dk", cb), c15Flip{0, j, n - 1 - cb}, c15Flip{0, j, n - 1})
			}
			if n > 2*cb {
				a3 := r.Intn(n - 2*cb)
				add(fmt.Sprintf("multi-flip:triple-same-col-rows+%dk", cb), c15Flip{0, j, a3}, c15Flip{0, j, a3 + cb}, c15Flip{0, j, a3 + 2*cb})
			}
			j2 := col(true)
			if j2 != j {
				add(fmt.Sprintf("multi-flip:two-cols-rows+%dk", cb), c15Flip{0, j, a}, c15Flip{0, j, a + cb*k}, c15Flip{0, j2, a}, c15Flip{0, j2, a + cb*k})
			}
			if a < c15CheckRows {
				add("multi-flip:triple-payload-payload-check", c15Flip{0, j, a}, c15Flip{0, j, a + cb}, c15Flip{1, j, a})
			}
		}
		// the same (row, column) in payload and check batch
		lim := n
		if lim > c15CheckRows {
			lim = c15CheckRows
		}
		a := r.Intn(lim)
		if round == 0 {
			a = 0
		} else if round == 1 {
			a = lim - 1
		}
		add("pair-flip:payload+check-same-pos", c15Flip{0, j, a}, c15Flip{1, j, a})
		// the same row, two columns
		j2 := col(round%2 == 0)
		if j2 != j {
			ra := r.Intn(n)
			add("pair-flip:same-row-two-cols", c15Flip{0, j, ra}, c15Flip{0, j2, ra})
		}
		// adjacent rows, one column
		if n >= 2 {
			ra := r.Intn(n - 1)
			add("pair-flip:same-col-adjacent-rows", c15Flip{0, j, ra}, c15Flip{0, j, ra + 1})
		}
		// check batch only: adjacent rows
		cr := r.Intn(c15CheckRows - 1)
		add("pair-flip:check-same-col-adjacent-rows", c15Flip{1, j, cr}, c15Flip{1, j, cr + 1})
	}
	return ps
}

// chiDistinct: the hypothesis of the pair theorems (C15_pair_*_detected): the
// coefficients at the n+256 stream positions are pairwise different
func (run *c15Run) chiDistinct() bool {
	seen := map[ot.Label]bool{}
	for _, l := range run.chi {
		if seen[l] {
			return false
		}
		seen[l] = true
	}
	return true
}

// c15Clmul: carry-less product of two labels (polynomial order) with math/big,
// independent of ot.mul128
func c15Clmul(a, b ot.Label) (lo, hi ot.Label) {
	av, bv := c15Poly(a), c15Poly(b)
	acc := new(big.Int)
	for i := 0; i < 128; i++ {
		if av.Bit(i) == 1 {
			acc.Xor(acc, new(big.Int).Lsh(bv, uint(i)))
		}
	}
	m := new(big.Int).Lsh(big.NewInt(1), 128)
	m.Sub(m, big.NewInt(1))
	return c15FromPoly(new(big.Int).And(acc, m)), c15FromPoly(new(big.Int).Rsh(acc, 128))
}

// responsePatterns: STRUCTURED in-transit alterations of every element of the
// challenge response (seed2, x, t0, t1), matrix untouched.  Expressed as xor
// masks on the labels as sent (absolute replacements are converted).
func (run *c15Run) responsePatterns(r *RNG) []*c15Pattern {
	x, t0, t1 := run.response()
	var ps []*c15Pattern
	type target struct {
		name string
		set  func(p *c15Pattern, m ot.Label)
		cur  ot.Label
	}
	targets := []target{
		{"t0", func(p *c15Pattern, m ot.Label) { p.DT0 = m }, t0},
		{"t1", func(p *c15Pattern, m ot.Label) { p.DT1 = m }, t1},
		{"x", func(p *c15Pattern, m ot.Label) { p.DX = m }, x},
		{"seed", func(p *c15Pattern, m ot.Label) { s := run.seed; s.Xor(m); p.Seed = &s }, run.seed},
	}
	add := func(shape string, tg target, m ot.Label) {
		if m == (ot.Label{}) {
			return
		}
		p := &c15Pattern{Class: "response-alteration:" + shape + ":" + tg.name}
		tg.set(p, m)
		ps = append(ps, p)
	}
	ones := ot.Label{D0: ^uint64(0), D1: ^uint64(0)}
	for _, tg := range targets {
		// single bits
		add("single-bit", tg, c15Bit(r.Intn(128)))
		add("single-bit", tg, c15Bit(0))
		add("single-bit", tg, c15Bit(127))
		// mirrored pairs: bit k and bit k+64
		for _, k := range []int{0, 63, r.Intn(64), r.Intn(64)} {
			add("mirrored-pair", tg, ot.Label{D0: 1 << uint(k), D1: 1 << uint(k)})
		}
		// mirrored random 64-bit masks
		m := r.U64()
		add("mirrored-mask", tg, ot.Label{D0: m, D1: m})
		add("mirrored-mask", tg, ot.Label{D0: ^uint64(0), D1: ^uint64(0)})
		// one half only
		add("low-half-mask", tg, ot.Label{D0: r.U64()})
		add("high-half-mask", tg, ot.Label{D1: r.U64()})
		// swapped halves
		sw := ot.Label{D0: tg.cur.D1, D1: tg.cur.D0}
		sw.Xor(tg.cur)
		add("swapped-halves", tg, sw)
		// all zero / all ones
		add("all-zero", tg, tg.cur)
		az := tg.cur
		az.Xor(ones)
		add("all-ones", tg, az)
		// random
		add("random", tg, c15RandLabel(r))
	}
	// t0 <-> t1
	d := t0
	d.Xor(t1)
	if d != (ot.Label{}) {
		ps = append(ps, &c15Pattern{Class: "response-alteration:t0-t1-swapped", DT0: d, DT1: d})
	}
	// both tags with the same mirrored mask; x and both tags with the same mask
	m := r.U64()
	ps = append(ps, &c15Pattern{Class: "response-alteration:mirrored-mask:t0+t1", DT0: ot.Label{D0: m, D1: m}, DT1: ot.Label{D0: m, D1: m}})
	ps = append(ps, &c15Pattern{Class: "response-alteration:mirrored-pair:t0+t1", DT0: ot.Label{D0: 2, D1: 2}, DT1: ot.Label{D0: 1 << 40, D1: 1 << 40}})
	mm := c15RandLabel(r)
	ps = append(ps, &c15Pattern{Class: "response-alteration:same-mask:x+t0+t1", DX: mm, DT0: mm, DT1: mm})
	// x altered with a compensating tag change computed from public data only: the tamperer
	// does not know Delta; its best public guesses are dx*chi_0 and dx*x
	dx := c15Bit(r.Intn(128))
	lo, hi := c15Clmul(dx, run.chi[0])
	ps = append(ps, &c15Pattern{Class: "response-alteration:x+compensated-from-public-chi", DX: dx, DT0: lo, DT1: hi})
	lo, hi = c15Clmul(dx, x)
	ps = append(ps, &c15Pattern{Class: "response-alteration:x+compensated-from-public-x", DX: dx, DT0: lo, DT1: hi})
	return ps
}

func (run *c15Run) patternSX(p *c15Pattern) SX {
	seed := run.seed
	if p.Seed != nil {
		seed = *p.Seed
	}
	return L(flipsSX(p.Flips, 0), flipsSX(p.Flips, 1), polySX(seed), polySX(p.DX), polySX(p.DT0), polySX(p.DT1))
}

// the correspondence case of a base run with a list of patterns
func (run *c15Run) emitCase(c *Ctx, r *RNG, baseIdx int, pats []*c15Pattern) {
	obs := make([]SX, len(pats))
	psx := make([]SX, len(pats))
	tabs := []SX{L(polySX(run.seed), polysSX(run.chi))}
	seen := map[ot.Label]bool{run.seed: true}
	for i, p := range pats {
		obs[i] = run.evalPattern(c, r, baseIdx, p)
		psx[i] = run.patternSX(p)
		if p.Seed != nil && !seen[*p.Seed] {
			seen[*p.Seed] = true
			tabs = append(tabs, L(polySX(*p.Seed), polysSX(c15Chi(*p.Seed, run.n+256))))
		}
	}
	x, t0, t1 := run.response()
	in := L(I(1), I(run.n), I(run.pos), Bits(run.b), polySX(run.b0), polySX(run.b1), polySX(run.delta),
		run.streamsSX(0), run.streamsSX(1), L(tabs...), L(psx...))
	out := L(L(polySX(x), polySX(t0), polySX(t1)), polysSX(run.rcvd),
		I(run.pos+(run.n+7)/8+32), L(obs...))
	c.Case(in, out)
}

// ---------------------------------------------------------------- pattern generators

func (run *c15Run) randFlip(r *RNG) c15Flip {
	if r.Intn(3) == 0 {
		return c15Flip{1, r.Intn(ot.K), r.Intn(256)}
	}
	if run.wireRows() == 0 {
		return c15Flip{1, r.Intn(ot.K), r.Intn(256)}
	}
	return c15Flip{0, r.Intn(ot.K), r.Intn(run.wireRows())}
}

func c15Bit(i int) ot.Label {
	var l ot.Label
	l.SetBit(i, 1)
	return l
}

func c15RandLabel(r *RNG) ot.Label { return ot.Label{D0: r.U64(), D1: r.U64()} }

func dedupFlips(fl []c15Flip) []c15Flip {
	seen := map[c15Flip]bool{}
	var out []c15Flip
	for _, f := range fl {
		if !seen[f] {
			seen[f] = true
			out = append(out, f)
		}
	}
	return out
}

// label shifted left by j inside 256 bits -> (lo, hi)
func c15Shl256(l ot.Label, j int) (ot.Label, ot.Label) {
	v := c15Poly(l)
	v.Lsh(v, uint(j))
	m := new(big.Int).Lsh(big.NewInt(1), 128)
	m.Sub(m, big.NewInt(1))
	lo := new(big.Int).And(v, m)
	hi := new(big.Int).Rsh(v, 128)
	return c15FromPoly(lo), c15FromPoly(hi)
}

// chiDependency finds a set S containing index p with xor_{i in S} chi_i = 0
// (exists whenever chi_p is in the span of the others: 128-bit vectors, more
// than 128 of them).  GF(2) elimination with combination tracking.
func chiDependency(chi []ot.Label, p int) []int {
	type row struct {
		v    *big.Int
		comb *big.Int
	}
	basis := map[int]row{} // by top bit
	reduce := func(v, comb *big.Int) {
		for v.Sign() != 0 {
			t := v.BitLen() - 1
			b, ok := basis[t]
			if !ok {
				return
			}
			v.Xor(v, b.v)
			comb.Xor(comb, b.comb)
		}
	}
	for i, l := range chi {
		if i == p {
			continue
		}
		v := c15Poly(l)
		comb := new(big.Int).SetBit(new(big.Int), i, 1)
		reduce(v, comb)
		if v.Sign() != 0 {
			basis[v.BitLen()-1] = row{v, comb}
		}
	}
	v := c15Poly(chi[p])
	comb := new(big.Int).SetBit(new(big.Int), p, 1)
	reduce(v, comb)
	if v.Sign() != 0 {
		return nil
	}
	var s []int
	for i := range chi {
		if comb.Bit(i) == 1 {
			s = append(s, i)
		}
	}
	return s
}

// a column with the wanted Delta bit (-1 if none)
func (run *c15Run) columnWith(r *RNG, bit uint) int {
	start := r.Intn(ot.K)
	for k := 0; k < ot.K; k++ {
		j := (start + k) % ot.K
		if run.delta.Bit(j) == bit {
			return j
		}
	}
	return -1
}

func (run *c15Run) genPatterns(r *RNG, count int) []*c15Pattern {
	var ps []*c15Pattern
	add := func(p *c15Pattern) {
		p.Flips = dedupFlips(p.Flips)
		ps = append(ps, p)
	}
	add(&c15Pattern{Class: "honest"})
	for len(ps) < count {
		switch r.Intn(12) {
		case 0: // single flip anywhere
			add(&c15Pattern{Class: "single", Flips: []c15Flip{run.randFlip(r)}})
		case 1: // single flip, selected column
			if j := run.columnWith(r, 1); j >= 0 {
				f := run.randFlip(r)
				f.Col = j
				add(&c15Pattern{Class: "single-selected", Flips: []c15Flip{f}})
			}
		case 2: // single flip, unselected column
			if j := run.columnWith(r, 0); j >= 0 {
				f := run.randFlip(r)
				f.Col = j
				add(&c15Pattern{Class: "single-unselected", Flips: []c15Flip{f}})
			}
		case 3: // multi flips anywhere
			k := 2 + r.Intn(7)
			var fl []c15Flip
			for i := 0; i < k; i++ {
				fl = append(fl, run.randFlip(r))
			}
			add(&c15Pattern{Class: "multi", Flips: fl})
		case 4: // multi flips confined to unselected columns
			var fl []c15Flip
			for i := 0; i < 2+r.Intn(7); i++ {
				if j := run.columnWith(r, 0); j >= 0 {
					f := run.randFlip(r)
					f.Col = j
					fl = append(fl, f)
				}
			}
			if len(fl) > 0 {
				add(&c15Pattern{Class: "multi-unselected", Flips: fl})
			}
		case 5: // several rows of one column
			j := r.Intn(ot.K)
			var fl []c15Flip
			for i := 0; i < 2+r.Intn(6); i++ {
				f := run.randFlip(r)
				f.Col = j
				fl = append(fl, f)
			}
			add(&c15Pattern{Class: "column", Flips: fl})
		case 6: // padding rows (n mod 8 != 0)
			if run.n%8 != 0 {
				row := run.n + r.Intn(run.wireRows()-run.n)
				add(&c15Pattern{Class: "padding-row", Flips: []c15Flip{{0, r.Intn(ot.K), row}}})
			}
		case 7: // response alteration only
			p := &c15Pattern{Class: "response"}
			switch r.Intn(5) {
			case 0:
				p.DX = c15Bit(r.Intn(128))
			case 1:
				p.DT0 = c15Bit(r.Intn(128))
			case 2:
				p.DT1 = c15Bit(r.Intn(128))
			case 3:
				p.DX, p.DT0, p.DT1 = c15RandLabel(r), c15RandLabel(r), c15RandLabel(r)
			case 4:
				s := run.seed
				s.Xor(c15Bit(r.Intn(128)))
				p.Seed = &s
			}
			add(p)
		case 8: // flips and an unrelated response alteration
			p := &c15Pattern{Class: "flip+response", Flips: []c15Flip{run.randFlip(r)}}
			if r.Bool() {
				p.DT0 = c15RandLabel(r)
			} else {
				p.DX = c15Bit(r.Intn(128))
			}
			add(p)
		case 9: // coordinated guess: flip (row i, column j) and add chi_i << j to t (bets on Delta_j = 1)
			f := run.randFlip(r)
			idx := f.Row
			if f.Batch == 1 {
				idx = run.n + f.Row
			}
			if f.Batch == 0 && f.Row >= run.n {
				break
			}
			lo, hi := c15Shl256(run.chi[idx], f.Col)
			add(&c15Pattern{Class: "coordinated-guess", Flips: []c15Flip{f}, DT0: lo, DT1: hi})
		case 10: // choice substitution: flip a whole payload row and add chi_i to x
			if run.n > 0 {
				i := r.Intn(run.n)
				var fl []c15Flip
				for j := 0; j < ot.K; j++ {
					fl = append(fl, c15Flip{0, j, i})
				}
				add(&c15Pattern{Class: "row-substitution", Flips: fl, DX: run.chi[i]})
			}
		case 11: // chi linear dependency: same column flipped in all rows of a set S with xor chi = 0
			if run.n > 0 {
				if p := run.dependencyPattern(r, r.Intn(run.n), r.Intn(ot.K)); p != nil {
					add(p)
				}
			}
		}
	}
	return ps
}

// flips column j in all rows of a chi-dependent set containing payload row i;
// nothing else is altered
func (run *c15Run) dependencyPattern(r *RNG, i, j int) *c15Pattern {
	s := chiDependency(run.chi, i)
	if s == nil {
		return nil
	}
	var fl []c15Flip
	for _, idx := range s {
		if idx < run.n {
			fl = append(fl, c15Flip{0, j, idx})
		} else {
			fl = append(fl, c15Flip{1, j, idx - run.n})
		}
	}
	return &c15Pattern{Class: "chi-dependency", Flips: fl}
}

// ---------------------------------------------------------------- multiplication tie

func c15MulPairs(c *Ctx, r *RNG) {
	total := c.N(10000, 100000)
	per := 100
	structured := []ot.Label{{}, {D0: 1}, {D0: 2}, {D1: 1}, {D0: 1 << 63}, {D1: 1 << 63}, {D0: ^uint64(0)},
		{D1: ^uint64(0)}, {D0: ^uint64(0), D1: ^uint64(0)}, {D0: 0xaaaaaaaaaaaaaaaa, D1: 0x5555555555555555}}
	gen := func() (ot.Label, ot.Label) {
		switch r.Intn(8) {
		case 0:
			return c15Bit(r.Intn(128)), c15Bit(r.Intn(128))
		case 1:
			return structured[r.Intn(len(structured))], c15RandLabel(r)
		case 2:
			return c15RandLabel(r), structured[r.Intn(len(structured))]
		case 3:
			return structured[r.Intn(len(structured))], structured[r.Intn(len(structured))]
		case 4: // sparse
			a := c15Bit(r.Intn(128))
			a.Xor(c15Bit(r.Intn(128)))
			return a, c15RandLabel(r)
		case 5: // one limb only
			return ot.Label{D0: r.U64()}, ot.Label{D1: r.U64()}
		default:
			return c15RandLabel(r), c15RandLabel(r)
		}
	}
	emit := func(pairs [][2]ot.Label) {
		in := []SX{I(0)}
		var out []SX
		for _, p := range pairs {
			a, b := p[0], p[1]
			lo, hi := ot.VerifC15Mul128(a, b)
			glo, ghi := ot.VerifC15Mul128Generic(a, b)
			rlo, rhi := ot.VerifC15Mul128Ref(a, b)
			c.Eval(fmt.Sprintf("mul|%s|%s", a, b), a != ot.Label{} && b != ot.Label{})
			c.Hist("class:mul128")
			if lo != glo || hi != ghi {
				c.Fail("c15:mul128:dispatch!=generic", "mul128 (dispatching, CLMUL on amd64) differs from mul128Generic",
					map[string]string{"a": a.String(), "b": b.String(), "mul128": lo.String() + hi.String(), "generic": glo.String() + ghi.String()})
			}
			if lo != rlo || hi != rhi {
				c.Fail("c15:mul128:dispatch!=ref", "mul128 differs from mul128Ref",
					map[string]string{"a": a.String(), "b": b.String(), "mul128": lo.String() + hi.String(), "ref": rlo.String() + rhi.String()})
			}
			in = append(in, L(polySX(a), polySX(b)))
			out = append(out, L(polySX(glo), polySX(ghi), polySX(lo), polySX(hi), polySX(rlo), polySX(rhi)))
		}
		c.Case(L(in...), L(out...))
	}
	// a few one-pair cases (small: the in-kernel sub-sample evaluates these)
	for i := 0; i < 6; i++ {
		a, b := gen()
		if i == 0 {
			a, b = structured[8], structured[8]
		}
		emit([][2]ot.Label{{a, b}})
	}
	done := 6
	if c.Thorough() { // every pair of monomials
		var pairs [][2]ot.Label
		for i := 0; i < 128; i++ {
			for j := 0; j < 128; j++ {
				pairs = append(pairs, [2]ot.Label{c15Bit(i), c15Bit(j)})
				if len(pairs) == per {
					emit(pairs)
					pairs = nil
				}
			}
		}
		done += 128 * 128
	}
	for done < total {
		var pairs [][2]ot.Label
		for k := 0; k < per; k++ {
			a, b := gen()
			pairs = append(pairs, [2]ot.Label{a, b})
		}
		emit(pairs)
		done += per
	}
}

// ---------------------------------------------------------------- driver

func c15Choices(r *RNG, n int) []bool {
	b := make([]bool, n)
	mode := r.Intn(6)
	for i := range b {
		switch mode {
		case 0:
			b[i] = false
		case 1:
			b[i] = true
		default:
			b[i] = r.Bool()
		}
	}
	return b
}

func c15Delta(r *RNG, k int) ot.Label {
	switch k % 11 {
	case 9: // nothing selected (legal through the d argument)
		return ot.Label{}
	case 10: // everything selected
		return ot.Label{D0: ^uint64(0), D1: ^uint64(0)}
	case 0: // sparse
		d := c15Bit(r.Intn(128))
		d.Xor(c15Bit(r.Intn(128)))
		return d
	case 1: // dense
		d := ot.Label{D0: ^uint64(0), D1: ^uint64(0)}
		d.Xor(c15Bit(r.Intn(128)))
		return d
	default:
		return c15RandLabel(r)
	}
}

func runC15(c *Ctx) error {
	c15MulPairs(c, c.rng.Fork())

	// --- correspondence + oracle: base runs with a handful of patterns each
	sizes := []int{0, 1, 2, 3, 5, 7, 8, 9, 13, 15, 16, 17, 31, 33, 63, 64, 65, 100, 127, 128, 129, 200, 255, 256, 257, 300}
	bigSizes := []int{511, 512, 513, 520, 777, 1023, 1024, 1025, 1100, 1536, 2049}
	nBase := c.N(26, 600)
	perBase := c.N(3, 12)
	for i := 0; i < nBase; i++ {
		r := c.rng.Fork()
		n := sizes[i%len(sizes)]
		if i%9 == 8 {
			n = bigSizes[(i/9)%len(bigSizes)]
			if !c.Thorough() && n > 1100 {
				n = 513
			}
		} else if i >= len(sizes) && i%4 == 3 {
			n = r.Range(1, 400)
		}
		pre, preKind := 0, c15PreLabels
		if i%5 == 4 || i%7 == 3 {
			pre = []int{1, 8, 9, 64, 100, 513}[r.Intn(6)]
			preKind = (i / 2) % 3
			if preKind == c15PreBits {
				pre = []int{64, 128, 576}[r.Intn(3)] // ReceiveBits is only right for n mod 64 == 0 (C06 finding)
			}
		}
		run, err := newC15RunKind(r, n, pre, preKind, c15Choices(r, n), c15Delta(r, i))
		if err != nil {
			c.Fail("c15:honest-abort", "honest receiver/setup failed: "+err.Error(), map[string]int{"n": n, "pre": pre, "base": i})
			continue
		}
		c.Hist(fmt.Sprintf("n:%s", c15Bucket(n)))
		c.Hist(fmt.Sprintf("nmod8:%d", n%8))
		if pre > 0 {
			c.Hist("pre-batch:" + []string{"labels", "malicious", "bits"}[preKind])
		}
		pats := run.genPatterns(r, perBase)
		// multi-flip deviations on every run: two of them in the correspondence case ...
		mp := run.multiPatterns(r, c.N(3, 8))
		nadd := 0
		for _, p := range mp {
			if nadd < c.N(2, 4) && (p.Class == "pair-flip:payload+check-same-pos" && nadd == 0 || nadd > 0 && r.Intn(3) == 0) {
				pats = append(pats, p)
				nadd++
			}
		}
		// structured alterations of the challenge response: one mirrored shape (cycling over
		// t0, t1, x, seed and pair/mask/swapped) in the correspondence case, all on the implementation
		rp := run.responsePatterns(r)
		var mirroredPs []*c15Pattern
		for _, p := range rp {
			if strings.Contains(p.Class, "mirrored") || strings.Contains(p.Class, "swapped") {
				mirroredPs = append(mirroredPs, p)
			}
		}
		if len(mirroredPs) > 0 {
			pats = append(pats, mirroredPs[(i*7)%len(mirroredPs)])
			if c.Thorough() {
				pats = append(pats, mirroredPs[(i*7+3)%len(mirroredPs)], rp[(i*5)%len(rp)])
			}
		}
		run.emitCase(c, r, i, pats)
		// ... the others on the implementation only
		for _, p := range mp {
			run.evalPattern(c, r, i, p)
		}
		for _, p := range rp {
			run.evalPattern(c, r, i, p)
		}
		if !run.chiDistinct() {
			c.Note("base %d: the chi coefficients of the observed seed are NOT pairwise distinct", i)
		} else {
			c.Hist("chi-pairwise-distinct")
		}
		if i < 3 {
			c.Sample(map[string]interface{}{"n": n, "pre": pre, "delta": run.delta.String(), "patterns": len(pats)})
		}
	}

	// --- loop bounds of the malicious branch: n = k*bound and k*bound +- 1 for the chunk
	// (512 rows), the chi block (1024 rows, from the source) and the check batch (256 rows),
	// tampering in the LAST block.  Correspondence cases (the model must predict the
	// outcome) for the exact multiples and their neighbours; oracle-only sweep with more
	// columns and rows on the same sizes.
	cb := c15ChiBlock()
	c.Note("chi block size read from ot/iknp.go: %d", cb)
	type bsize struct {
		n     int
		model bool
	}
	bounds := []bsize{{c15CheckRows, true}, {c15ChunkRows, true}, {cb, true}, {2 * cb, true},
		{cb - 1, false}, {cb + 1, true},
		{c15CheckRows - 1, false}, {c15CheckRows + 1, false}, {c15ChunkRows - 1, false}, {c15ChunkRows + 1, false},
		{2*cb - 1, false}, {2*cb + 1, false}, {cb + c15ChunkRows, false}}
	if c.Thorough() {
		for i := range bounds {
			bounds[i].model = true
		}
		bounds = append(bounds, bsize{3 * cb, true}, bsize{3*cb + 1, false}, bsize{4 * cb, false})
	}
	for k, bs := range bounds {
		r := c.rng.Fork()
		n := bs.n
		run, err := newC15Run(r, n, 0, c15Choices(r, n), c15Delta(r, 2+k))
		if err != nil {
			c.Fail("c15:honest-abort", "honest receiver/setup failed: "+err.Error(), map[string]int{"n": n})
			continue
		}
		c.Hist(fmt.Sprintf("boundary-n:%d", n))
		if bs.model {
			// few patterns: the model run costs ~ (n+256) products per pattern
			pats := run.boundaryPatterns(r, 1)
			if !c.Thorough() && n > cb && len(pats) > 6 {
				// keep honest, row 0, first row of the last chi block, last row, check row
				var keep []*c15Pattern
				lastChi := ((n - 1) / cb) * cb
				for _, p := range pats {
					if len(p.Flips) == 0 || p.Class != "boundary-single-selected" ||
						p.Flips[0].Row == 0 || p.Flips[0].Row == lastChi || p.Flips[0].Row == n-1 {
						keep = append(keep, p)
					}
				}
				pats = keep
			}
			run.emitCase(c, r, 2000+k, pats)
		}
		for _, p := range run.multiPatterns(r, c.N(4, 16)) {
			run.evalPattern(c, r, 2000+k, p)
		}
		// oracle only: more columns, more rows of the last block
		for rep := 0; rep < c.N(6, 40); rep++ {
			for _, p := range run.boundaryPatterns(r, c.N(4, 32)) {
				if len(p.Flips) == 0 && rep > 0 {
					continue
				}
				run.evalPattern(c, r, 2000+k, p)
			}
		}
	}

	// --- multi-flip deviations across chi blocks: rows a and a + 1024k need n > 1024
	for k, n := range []int{cb + cb/2 - 36, 2*cb + 52, 3*cb + 28} { // 1500, 2100, 3100
		r := c.rng.Fork()
		run, err := newC15Run(r, n, 0, c15Choices(r, n), c15Delta(r, 2+k))
		if err != nil {
			c.Fail("c15:honest-abort", "honest receiver/setup failed: "+err.Error(), map[string]int{"n": n})
			continue
		}
		c.Hist(fmt.Sprintf("multi-n:%d", n))
		mp := run.multiPatterns(r, c.N(12, 60))
		if k == 0 || c.Thorough() {
			// correspondence case: honest + one pattern of each cross-block shape
			pats := []*c15Pattern{{Class: "honest"}}
			seen := map[string]bool{}
			for _, p := range mp {
				if !seen[p.Class] && (strings.Contains(p.Class, "rows+") || strings.Contains(p.Class, "payload+check") || strings.Contains(p.Class, "triple")) &&
					run.delta.Bit(p.Flips[0].Col) == 1 {
					seen[p.Class] = true
					pats = append(pats, p)
				}
			}
			if !c.Thorough() && len(pats) > 3 {
				pats = pats[:3]
			}
			run.emitCase(c, r, 3000+k, pats)
		}
		for _, p := range mp {
			run.evalPattern(c, r, 3000+k, p)
		}
		if honest, _, herr := run.sender(r, run.msgs); herr != nil || !run.correlationHolds(honest) {
			c.Fail("c15:honest-abort", fmt.Sprintf("honest malicious-mode run failed for n=%d: %v", n, herr), map[string]int{"n": n})
		}
	}

	// --- oracle only: exhaustive single flips for small n (sampled in quick)
	small := []int{1, 2, 3, 7, 8, 9, 15, 16}
	for k, n := range small {
		r := c.rng.Fork()
		run, err := newC15Run(r, n, 0, c15Choices(r, n), c15Delta(r, 2+k))
		if err != nil {
			c.Fail("c15:honest-abort", "honest receiver/setup failed: "+err.Error(), map[string]int{"n": n})
			continue
		}
		zero := 0
		for _, l := range run.chi {
			if l == (ot.Label{}) {
				zero++
			}
		}
		if zero > 0 {
			c.Note("n=%d: %d zero chi coefficient(s) for the observed seed", n, zero)
		}
		var flips []c15Flip
		for col := 0; col < ot.K; col++ {
			for row := 0; row < run.wireRows(); row++ {
				flips = append(flips, c15Flip{0, col, row})
			}
			for row := 0; row < 256; row++ {
				flips = append(flips, c15Flip{1, col, row})
			}
		}
		if !c.Thorough() {
			// sample ~1500 positions, always keeping all columns of row 0 of both batches
			var keep []c15Flip
			for _, f := range flips {
				if f.Row == 0 || r.Intn(len(flips)) < 1200 {
					keep = append(keep, f)
				}
			}
			flips = keep
		}
		honest, _, herr := run.sender(r, run.msgs)
		if herr != nil {
			c.Fail("c15:honest-abort", "honest malicious-mode run aborted: "+herr.Error(), map[string]int{"n": n})
			continue
		}
		for _, f := range flips {
			p := &c15Pattern{Class: "sweep-single", Flips: []c15Flip{f}}
			obs := run.evalPattern(c, r, 1000+k, p)
			// a flip the sender does not use (unselected column, padding row): the property
			// allows an abort; if the sender finishes, its outputs must be the honest ones
			// (the model additionally pins the current behaviour: it finishes)
			if run.delta.Bit(f.Col) == 0 || (f.Batch == 0 && f.Row >= n) {
				want := []SX{I(1), I(1)}
				for _, q := range honest {
					want = append(want, polySX(q))
				}
				if obs.String() == L(want...).String() {
					c.Hist("unused-flip:finished-unchanged")
				} else if obs.String() == L(I(0), I(0)).String() {
					c.Hist("unused-flip:aborted")
				} else {
					c.Fail("c15:unselected-flip-changed-outputs", "a flip the sender does not use changed its outputs",
						c15Replay{Seed: c.Seed, Base: 1000 + k, N: n, Choices: bitsString(run.b), Delta: run.delta.String(), Pattern: *p,
							Got: obs.String(), Want: L(want...).String()})
				}
			}
		}
		// column-confined double flips in a selected column: rejected unless chi_a = chi_b
		if j := run.columnWith(r, 1); j >= 0 {
			for a := 0; a < n; a++ {
				for b := a + 1; b < n; b++ {
					p := &c15Pattern{Class: "sweep-column-pair", Flips: []c15Flip{{0, j, a}, {0, j, b}}}
					run.evalPattern(c, r, 1000+k, p)
				}
			}
		}
		// the chi-dependency pattern for every payload row (first 4 rows in quick)
		lim := n
		if !c.Thorough() && lim > 4 {
			lim = 4
		}
		for i := 0; i < lim; i++ {
			if j := run.columnWith(r, 1); j >= 0 {
				if p := run.dependencyPattern(r, i, j); p != nil {
					run.evalPattern(c, r, 1000+k, p)
				}
			}
		}
	}

	// --- the same deviations through the exported wrappers (ot.COT, ot.ROT, malicious=true)
	// and the static inventory of deferred result overwrites (c15wrap.go)
	c15Wrappers(c)
	c15Static(c)

	// --- door sweep (c15doors.go): real transport + base OT, long-lived wrapper objects, concurrency
	c15Pipe(c)
	c15Sessions(c)
	c15Concurrent(c)

	// --- chi stream (c15chi.go): prgLabels / block indexing, the model expands the seed itself
	c15ChiStream(c)

	// --- other build environments (c15env.go): GOARCH=386 child
	c15Env(c)
	return nil
}

func c15Bucket(n int) string {
	bounds := []int{0, 1, 8, 16, 64, 128, 256, 512, 1024, 4096}
	i := sort.SearchInts(bounds, n)
	if i < len(bounds) && bounds[i] == n {
		return fmt.Sprintf("=%d", n)
	}
	return fmt.Sprintf("<%d", bounds[i])
}

func newBigHex(t string) (*big.Int, bool) { return new(big.Int).SetString(t, 16) }
