package main

// Property C15, ENVIRONMENT family.  mul128 has two implementations, selected
// by the build environment (ot/mul128*.go): the PCLMULQDQ assembly
// (`//go:build amd64 && gc`) and mul128Generic (`!amd64 || !gc`; there is no
// purego/noasm tag).  The generic path depends on the width of uint/int of
// the target.  The c15 runner therefore builds harness/c15child for every
// other environment that can run on this machine (GOARCH=386: generic path,
// 32-bit uint; linux/amd64 executes 386 binaries natively), with the same
// module file / GOFLAGS as the harness itself, and runs in it
//   * the mul128 correspondence: operand pairs chosen here, products observed
//     in the child, emitted as ordinary cases (checked by the Coq clmul model)
//     and compared with a math/big carry-less product;
//   * a slice of the deviation catalogue: single flips in Delta-selected
//     columns of every column quarter 0..31, 32..63, 64..95, 96..127, payload
//     and check batch.

import (
	"bufio"
	"bytes"
	"context"
	"fmt"
	"os"
	"os/exec"
	"path/filepath"
	"strings"
	"time"

	"github.com/markkurossi/mpc/ot"
)

type c15EnvSpec struct {
	goarch string
	tags   string
	runEnv []string // process environment of the child (a fresh process): GC pressure, one P
}

func c15HarnessDir() string {
	if d := os.Getenv("VERIF_HARNESS_DIR"); d != "" {
		return d
	}
	if exe, err := os.Executable(); err == nil {
		d := filepath.Join(filepath.Dir(filepath.Dir(exe)), "harness")
		if _, err := os.Stat(filepath.Join(d, "c15child", "main.go")); err == nil {
			return d
		}
	}
	return "/verif/harness"
}

func c15BuildChild(c *Ctx, env c15EnvSpec) (string, error) {
	repo := os.Getenv("VERIF_REPO")
	if repo == "" {
		repo = "/repo"
	}
	outdir, err := filepath.Abs(c.OutDir)
	if err != nil {
		return "", err
	}
	modf := filepath.Join(outdir, "c15child.mod")
	mod := "module verifharness\n\ngo 1.25.0\n\nrequire github.com/markkurossi/mpc v0.0.0\n\nreplace github.com/markkurossi/mpc => " + repo + "\n"
	if err := os.WriteFile(modf, []byte(mod), 0o644); err != nil {
		return "", err
	}
	if sum, err := os.ReadFile(filepath.Join(repo, "go.sum")); err == nil {
		os.WriteFile(filepath.Join(outdir, "c15child.sum"), sum, 0o644)
	}
	bin := filepath.Join(outdir, "c15child-"+env.goarch)
	ctx, cancel := context.WithTimeout(context.Background(), 5*time.Minute)
	defer cancel()
	cmd := exec.CommandContext(ctx, "go", "build", "-modfile", modf, "-tags", env.tags, "-o", bin, "./c15child")
	cmd.Dir = c15HarnessDir()
	e := os.Environ()
	e = append(e, "GOARCH="+env.goarch, "CGO_ENABLED=0", "GOFLAGS=-mod=mod", "GOPROXY=off")
	cmd.Env = e
	out, err := cmd.CombinedOutput()
	if err != nil {
		return "", fmt.Errorf("go build (GOARCH=%s): %v: %s", env.goarch, err, strings.TrimSpace(string(out)))
	}
	return bin, nil
}

func c15Env(c *Ctx) {
	for _, env := range []c15EnvSpec{{"386", "verif", nil}, {"amd64", "verif", []string{"GOGC=1", "GOMAXPROCS=1"}}} {
		name := env.goarch + "/" + env.tags
		if len(env.runEnv) > 0 {
			name += "+" + strings.Join(env.runEnv, ",")
		}
		t0 := time.Now()
		bin, err := c15BuildChild(c, env)
		if err != nil {
			c.Fail("c15:env:"+name+":build-failed", "cannot build the environment child: "+err.Error(), map[string]string{"env": name})
			continue
		}
		r := c.rng.Fork()
		// --- requests
		var req bytes.Buffer
		// deviations first: their verdicts lead the oracle log
		sizes := []int{9, 100, 1025}
		if c.Thorough() {
			sizes = append(sizes, 1, 8, 512, 600, 2048)
		}
		for _, n := range sizes {
			fmt.Fprintf(&req, "D %d %d\n", r.U64()>>1, n)
		}
		nPairs := c.N(2000, 20000)
		if env.goarch == "amd64" {
			nPairs = c.N(500, 5000)
		}
		pairs := make([][2]ot.Label, 0, nPairs)
		structured := []ot.Label{{D0: 1 << 31}, {D0: 1 << 32}, {D0: 1 << 63}, {D1: 1 << 31}, {D1: 1 << 32}, {D1: 1 << 63},
			{D0: 0xffffffff00000000, D1: 0xffffffff00000000}, {D0: 0x00000000ffffffff, D1: 0x00000000ffffffff},
			{D0: ^uint64(0), D1: ^uint64(0)}}
		for len(pairs) < nPairs {
			var a, b ot.Label
			switch r.Intn(6) {
			case 0:
				a, b = c15Bit(r.Intn(128)), c15Bit(r.Intn(128))
			case 1:
				a, b = c15RandLabel(r), structured[r.Intn(len(structured))]
			case 2:
				a, b = structured[r.Intn(len(structured))], c15RandLabel(r)
			case 3:
				a, b = c15RandLabel(r), c15Bit(32*r.Intn(4)+r.Intn(32))
			default:
				a, b = c15RandLabel(r), c15RandLabel(r)
			}
			pairs = append(pairs, [2]ot.Label{a, b})
			fmt.Fprintf(&req, "M %s %s\n", c15Poly(a).Text(16), c15Poly(b).Text(16))
		}
		// --- run
		ctx, cancel := context.WithTimeout(context.Background(), 5*time.Minute)
		cmd := exec.CommandContext(ctx, bin)
		cmd.Stdin = &req
		cmd.Env = append(append(os.Environ(), "C15_CHILD=1"), env.runEnv...)
		out, err := cmd.Output()
		cancel()
		if err != nil {
			c.Fail("c15:env:"+name+":child-failed", "the environment child did not run: "+err.Error(), map[string]string{"env": name})
			continue
		}
		// --- answers
		sc := bufio.NewScanner(bytes.NewReader(out))
		sc.Buffer(make([]byte, 1<<20), 1<<20)
		pi := 0
		var caseIn, caseOut []SX
		flush := func() {
			if len(caseIn) > 0 {
				c.Case(L(append([]SX{I(0)}, caseIn...)...), L(caseOut...))
				caseIn, caseOut = nil, nil
			}
		}
		envLine := ""
		for sc.Scan() {
			f := strings.Fields(sc.Text())
			if len(f) == 0 {
				continue
			}
			switch f[0] {
			case "ENV":
				envLine = strings.Join(f[1:], " ")
			case "M":
				if pi >= len(pairs) || len(f) != 7 {
					c.Fail("c15:env:"+name+":child-protocol", "unexpected answer: "+sc.Text(), nil)
					continue
				}
				a, b := pairs[pi][0], pairs[pi][1]
				pi++
				var v [6]ot.Label
				for k := 0; k < 6; k++ {
					z, ok := newBigHex(f[1+k])
					if !ok {
						c.Fail("c15:env:"+name+":child-protocol", "bad number: "+sc.Text(), nil)
					}
					v[k] = c15FromPoly(z)
				}
				wlo, whi := c15Clmul(a, b)
				c.Eval(fmt.Sprintf("env|%s|mul|%s|%s", name, a, b), a != ot.Label{} && b != ot.Label{})
				c.Hist("env:" + name + ":mul128")
				for k, fn := range []string{"mul128Generic", "mul128", "mul128Ref"} {
					if v[2*k] != wlo || v[2*k+1] != whi {
						c.Fail("c15:env:"+name+":"+fn+":wrong-product",
							fmt.Sprintf("GOARCH=%s (tags %s): %s(%s, %s) = %s%s (hi,lo), the carry-less product is %s%s", env.goarch, env.tags, fn, a, b, v[2*k+1], v[2*k], whi, wlo),
							map[string]string{"env": name, "a": a.String(), "b": b.String(), "fn": fn})
					}
				}
				caseIn = append(caseIn, L(polySX(a), polySX(b)))
				caseOut = append(caseOut, L(polySX(v[0]), polySX(v[1]), polySX(v[2]), polySX(v[3]), polySX(v[4]), polySX(v[5])))
				if len(caseIn) == 100 {
					flush()
				}
			case "H":
				c.Eval(fmt.Sprintf("env|%s|honest|%s", name, sc.Text()), false)
				if len(f) < 3 || f[2] != "ok" {
					c.Fail("c15:env:"+name+":honest-abort", fmt.Sprintf("GOARCH=%s: honest malicious-mode run failed: %s", env.goarch, sc.Text()),
						map[string]string{"env": name, "line": sc.Text()})
				}
			case "D":
				if len(f) != 8 {
					c.Fail("c15:env:"+name+":child-protocol", "unexpected answer: "+sc.Text(), nil)
					continue
				}
				var n, batch, col, row int
				fmt.Sscan(f[1], &n)
				fmt.Sscan(f[3], &batch)
				fmt.Sscan(f[4], &col)
				fmt.Sscan(f[5], &row)
				c.Eval(fmt.Sprintf("env|%s|dev|%s", name, sc.Text()), true)
				c.Hist(fmt.Sprintf("env:%s:deviation:columns-%d..%d:%s", name, 32*(col/32), 32*(col/32)+31, f[6]))
				if f[6] == "accept" {
					where := "payload"
					if batch == 1 {
						where = "check"
					}
					c.Fail(fmt.Sprintf("c15:env:%s:deviation-accepted:columns-%d..%d", name, 32*(col/32), 32*(col/32)+31),
						fmt.Sprintf("GOARCH=%s (tags %s, %s): IKNPSender.Send(%d, true) accepted a single flipped bit in Delta-selected column %d, %s row %d (Delta=%s, correlation for the original choices %s)",
							env.goarch, env.tags, envLine, n, col, where, row, f[2], map[string]string{"1": "holds", "0": "BROKEN"}[f[7]]),
						map[string]interface{}{"env": name, "n": n, "delta": f[2], "batch": batch, "col": col, "row": row, "corr": f[7]})
				}
			}
		}
		flush()
		if pi != len(pairs) {
			c.Fail("c15:env:"+name+":child-protocol", fmt.Sprintf("%d of %d products answered", pi, len(pairs)), nil)
		}
		c.Note("environment %s (%s): child built and run in %.1fs, %d products, deviation sizes %v", name, envLine, time.Since(t0).Seconds(), pi, sizes)
	}
}
