package main

// C12 — constant folding equals circuit evaluation.
//
// For operator x type x operand values x consumer the harness writes two MPCL
// programs: the constant variant (operands are typed constants, the compiler
// folds the operator) and the run-time variant (the same expression tree with
// the operands replaced by inputs a, b[, c] of the same types).  Both are
// compiled with the real compiler (CompileSSA + Program.CompileCircuit) and
// evaluated with Circuit.Compute.
//
// Correspondence: run_c12 (Coq model of mpa.Int / evalConst / Constant / the
// instruction semantics) must predict the outcome of BOTH programs: the output
// bits, or the compile-error class, or the panic class.
// Oracle (implementation only): constant variant == run-time variant, and the
// compiler does not panic.

import (
	"fmt"
	"os"
	"math/big"
	"regexp"
	"strings"

	"github.com/markkurossi/mpc/compiler"
	"github.com/markkurossi/mpc/compiler/utils"
)

func init() { register("c12", runC12) }

const (
	c12Lit = iota
	c12Neg
	c12Cast
	c12Bin
	c12Bool
	c12Not
	c12In
)

var c12Ops = []string{"+", "-", "*", "/", "%", "&", "|", "^", "&^", "<<", ">>",
	"<", "<=", ">", ">=", "==", "!=", "&&", "||"}
var c12OpNames = []string{"add", "sub", "mul", "div", "mod", "and", "or", "xor", "andnot", "lsh", "rsh",
	"lt", "le", "gt", "ge", "eq", "neq", "land", "lor"}

// SSA instruction names that implement an operator (used to confirm folding).
var c12OpInstr = regexp.MustCompile(`^(i|u)?(add|sub|mult|div|mod)$|^(lshift|rshift|srshift|band|bclr|bor|bxor|eq|neq|and|or|not)$|^(i|u)(lt|le|gt|ge)$`)

type c12Expr struct {
	tag  int
	v    *big.Int // literal value / input run-time value (signed)
	k, n int      // cast / input type: k 0 int, 1 uint, 2 bool
	op   int
	b    bool
	kids []*c12Expr
	name string // input name
}

func c12TypeName(k, n int) string {
	switch k {
	case 0:
		return fmt.Sprintf("int%d", n)
	case 1:
		return fmt.Sprintf("uint%d", n)
	}
	return "bool"
}

func (e *c12Expr) src() string {
	switch e.tag {
	case c12Lit:
		return e.v.String()
	case c12Neg:
		if e.kids[0].tag == c12Neg { // "--x" would lex as the decrement operator
			return "-(" + e.kids[0].src() + ")"
		}
		return "-" + e.kids[0].src()
	case c12Cast:
		return c12TypeName(e.k, e.n) + "(" + e.kids[0].src() + ")"
	case c12Bin:
		return "(" + e.kids[0].src() + " " + c12Ops[e.op] + " " + e.kids[1].src() + ")"
	case c12Bool:
		if e.b {
			return "true"
		}
		return "false"
	case c12Not:
		return "!" + e.kids[0].src()
	}
	return e.name
}

func (e *c12Expr) sx() SX {
	switch e.tag {
	case c12Lit:
		return L(I(0), Big(e.v))
	case c12Neg:
		return L(I(1), e.kids[0].sx())
	case c12Cast:
		return L(I(2), I(e.k), I(e.n), e.kids[0].sx())
	case c12Bin:
		return L(I(3), I(e.op), e.kids[0].sx(), e.kids[1].sx())
	case c12Bool:
		return L(I(4), Bool(e.b))
	case c12Not:
		return L(I(5), e.kids[0].sx())
	}
	return L(I(6), I(e.k), I(e.n), Big(c12Unsigned(e.v, e.n)))
}

func c12Unsigned(v *big.Int, n int) *big.Int {
	m := new(big.Int).Lsh(big.NewInt(1), uint(n))
	r := new(big.Int).Mod(v, m)
	return r
}

// collect inputs in name order
func (e *c12Expr) inputs(m map[string]*c12Expr) {
	if e.tag == c12In {
		m[e.name] = e
	}
	for _, k := range e.kids {
		k.inputs(m)
	}
}

func c12LitE(v *big.Int) *c12Expr  { return &c12Expr{tag: c12Lit, v: new(big.Int).Set(v)} }
func c12NegE(e *c12Expr) *c12Expr  { return &c12Expr{tag: c12Neg, kids: []*c12Expr{e}} }
func c12NotE(e *c12Expr) *c12Expr  { return &c12Expr{tag: c12Not, kids: []*c12Expr{e}} }
func c12BoolE(b bool) *c12Expr     { return &c12Expr{tag: c12Bool, b: b} }
func c12CastE(k, n int, e *c12Expr) *c12Expr {
	return &c12Expr{tag: c12Cast, k: k, n: n, kids: []*c12Expr{e}}
}
func c12BinE(op int, l, r *c12Expr) *c12Expr {
	return &c12Expr{tag: c12Bin, op: op, kids: []*c12Expr{l, r}}
}
func c12InE(name string, k, n int, v *big.Int) *c12Expr {
	return &c12Expr{tag: c12In, name: name, k: k, n: n, v: new(big.Int).Set(v)}
}

// typed constant operand of value v: T(v) for v >= 0; for v < 0 either -T(|v|)
// (form 0) or T(-|v|) (form 1).
func c12Operand(k, n int, v *big.Int, form int) *c12Expr {
	if k == 2 {
		return c12BoolE(v.Sign() != 0)
	}
	if v.Sign() >= 0 {
		return c12CastE(k, n, c12LitE(v))
	}
	abs := new(big.Int).Neg(v)
	if form == 0 {
		return c12NegE(c12CastE(k, n, c12LitE(abs)))
	}
	return c12CastE(k, n, c12NegE(c12LitE(abs)))
}

type c12Outcome struct {
	kind  int // 0 value, 1 compile error, 2 panic
	vals  []*big.Int // all results
	names []*big.Int // integer constant names ("$<decimal>") read by SSA instructions, in order
	val   *big.Int
	class int
	text  string
	nOps  int // operator instructions in the SSA program
}

func (o c12Outcome) sx(cls int) SX {
	if o.kind == 0 {
		return L(I(0), Big(o.val), I(cls))
	}
	return L(I(o.kind), I(o.class), I(cls))
}
func (o c12Outcome) String() string {
	switch o.kind {
	case 0:
		return o.val.String()
	case 1:
		return fmt.Sprintf("compile error class %d: %s", o.class, o.text)
	}
	return fmt.Sprintf("PANIC class %d: %s", o.class, o.text)
}

var c12ErrClasses = []struct {
	re    *regexp.Regexp
	class int
}{
	{regexp.MustCompile(`invalid value .* for return value`), 1},
	{regexp.MustCompile(`invalid types:`), 2},
	{regexp.MustCompile(`invalid r-value|not defined on`), 3},
	{regexp.MustCompile(`casting .* not supported`), 5},
	{regexp.MustCompile(`invalid unary expression|operator ! not defined| not supported`), 6},
	{regexp.MustCompile(`unsupported index type`), 7},
	{regexp.MustCompile(`negative shift count`), 8},
}
var c12PanicClasses = []struct {
	re    *regexp.Regexp
	class int
}{
	{regexp.MustCompile(`Int\.setSmall: bits=`), 1},
	{regexp.MustCompile(`Output already assigned`), 2},
	{regexp.MustCompile(`mpa\.New: bits are zero`), 3},
}

// c12Run compiles and evaluates one program with the real compiler.
func c12Run(src string, inputs []*big.Int) c12Outcome { return c12RunN(src, inputs, 1) }

// c12RunN compiles and evaluates one program with want results; it also
// collects the names of the integer constants the SSA instructions read.
func c12RunN(src string, inputs []*big.Int, want int) (out c12Outcome) {
	defer func() {
		if r := recover(); r != nil {
			msg := fmt.Sprint(r)
			out = c12Outcome{kind: 2, class: 9, text: msg}
			for _, pc := range c12PanicClasses {
				if pc.re.MatchString(msg) {
					out.class = pc.class
					break
				}
			}
		}
	}()
	fail := func(err error) c12Outcome {
		o := c12Outcome{kind: 1, class: 9, text: err.Error()}
		for _, ec := range c12ErrClasses {
			if ec.re.MatchString(o.text) {
				o.class = ec.class
				break
			}
		}
		return o
	}
	params := utils.NewParams()
	if c12ParamHook != nil {
		c12ParamHook(params)
	}
	defer params.Close()
	prog, _, err := compiler.New(params).CompileSSA("{data}", strings.NewReader(src), nil)
	if err != nil {
		return fail(err)
	}
	nOps := 0
	var names []*big.Int
	for _, st := range prog.Steps {
		if c12OpInstr.MatchString(st.Instr.Op.String()) {
			nOps++
		}
		for _, in := range st.Instr.In {
			if !in.Const || !strings.HasPrefix(in.Name, "$") {
				continue
			}
			if v, ok := new(big.Int).SetString(in.Name[1:], 10); ok {
				names = append(names, v)
			}
		}
	}
	circ, err := prog.CompileCircuit(params)
	if err != nil {
		o := fail(err)
		o.nOps = nOps
		return o
	}
	res, err := circ.Compute(inputs)
	if err != nil {
		o := fail(err)
		o.nOps = nOps
		return o
	}
	if len(res) != want {
		return c12Outcome{kind: 1, class: 9, text: fmt.Sprintf("%d results", len(res)), nOps: nOps}
	}
	return c12Outcome{kind: 0, val: res[0], vals: res, names: names, nOps: nOps}
}

// c12Program renders "package main / func main(a, b T[, c T]) R { return E }".
func c12Program(e *c12Expr, rk, rn int, defK, defN int) (string, []*big.Int) {
	ins := map[string]*c12Expr{}
	e.inputs(ins)
	var decl []string
	var vals []*big.Int
	for _, nm := range []string{"a", "b", "c"} {
		in, ok := ins[nm]
		if !ok {
			if nm == "c" {
				continue
			}
			// main needs two parties; an unused input of the default type
			decl = append(decl, nm+" "+c12TypeName(defK, defN))
			vals = append(vals, big.NewInt(0))
			continue
		}
		decl = append(decl, nm+" "+c12TypeName(in.k, in.n))
		vals = append(vals, c12Unsigned(in.v, in.n))
	}
	src := "package main\nfunc main(" + strings.Join(decl, ", ") + ") " + c12TypeName(rk, rn) +
		" {\n\treturn " + e.src() + "\n}\n"
	return src, vals
}

type c12Val struct {
	class string
	v     *big.Int
}

func c12Pow(n int) *big.Int { return new(big.Int).Lsh(big.NewInt(1), uint(n)) }

func c12Rand(r *RNG, bits int) *big.Int {
	if bits <= 0 {
		return big.NewInt(0)
	}
	b := r.Bytes((bits + 7) / 8)
	v := new(big.Int).SetBytes(b)
	return v.Mod(v, c12Pow(bits))
}

// operand values of type k/n with their classes.
func c12Values(r *RNG, k, n int) []c12Val {
	one := big.NewInt(1)
	var vs []c12Val
	add := func(class string, v *big.Int) {
		// representable?
		if k == 1 && (v.Sign() < 0 || v.Cmp(c12Pow(n)) >= 0) {
			return
		}
		if k == 0 && (v.Cmp(new(big.Int).Neg(c12Pow(n-1))) < 0 || v.Cmp(c12Pow(n-1)) >= 0) {
			return
		}
		for _, o := range vs {
			if o.v.Cmp(v) == 0 {
				return
			}
		}
		vs = append(vs, c12Val{class, v})
	}
	add("zero", big.NewInt(0))
	add("one", big.NewInt(1))
	if k == 1 {
		add("max", new(big.Int).Sub(c12Pow(n), one))
		add("top", c12Pow(n-1))
		add("top", new(big.Int).Add(c12Pow(n-1), c12Rand(r, n-1)))
		add("rnd", c12Rand(r, n-1))
		add("rnd", c12Rand(r, n/2))
	} else {
		add("max", new(big.Int).Sub(c12Pow(n-1), one))
		add("min", new(big.Int).Neg(c12Pow(n-1)))
		add("neg", big.NewInt(-1))
		add("neg", new(big.Int).Neg(new(big.Int).Add(c12Rand(r, n-1), one)))
		add("neg", new(big.Int).Neg(new(big.Int).Add(c12Rand(r, n/2), one)))
		add("rnd", c12Rand(r, n-1))
		add("rnd", c12Rand(r, n/2))
	}
	// container boundaries of mpa.Int (32 / 64 bit) strictly inside the type
	add("b31", new(big.Int).Add(c12Pow(31), c12Rand(r, 30)))
	add("b31", new(big.Int).Sub(c12Pow(32), one))
	add("b63", new(big.Int).Add(c12Pow(63), c12Rand(r, 62)))
	add("b63", new(big.Int).Sub(c12Pow(64), one))
	add("p32", c12Pow(32))
	add("p64", c12Pow(64))
	add("small", big.NewInt(int64(2+r.Intn(6))))
	return vs
}

// sign class of the values involved in a case (operands, the run-time value
// of the folded sub-expression, the consumer's run-time operand), used in the
// finding key:  nonneg < mpa-top-bit < top-bit < neg.
//   neg         a negative intN value
//   top-bit     a uintN value with bit N-1 set
//   mpa-top-bit a non-negative value whose highest set bit is bit 31 / bit 63 /
//               above bit 63 but below the type's top bit (= the top bit of the
//               32 / 64 / BitLen wide mpa.Int container the constant lives in)
var c12Rank = map[string]int{"nonneg": 0, "mpa-top-bit": 1, "top-bit": 2, "neg": 3}

func c12SignClass(k, n int, v *big.Int) string {
	switch {
	case v.Sign() < 0:
		return "neg"
	case k == 1 && v.Bit(n-1) == 1:
		return "top-bit"
	case (v.BitLen() == 32 && n > 32) || (v.BitLen() == 64 && n > 64) || (v.BitLen() > 64 && v.BitLen() < n):
		return "mpa-top-bit"
	}
	return "nonneg"
}

// signed reading of an n-bit output
func c12Signed(k, n int, v *big.Int) *big.Int {
	if k == 0 && v.Bit(n-1) == 1 {
		return new(big.Int).Sub(v, c12Pow(n))
	}
	return v
}

func c12WidthClass(n int) (string, string) {
	switch {
	case n < 32:
		return "small", "wlt32"
	case n == 32:
		return "small", "w32"
	case n < 64:
		return "small", "w33-63"
	case n == 64:
		return "small", "w64"
	}
	return "large", "wgt64"
}

type c12Replay struct {
	Seed      uint64   `json:"seed"`
	Const     string   `json:"constant_variant"`
	Runtime   string   `json:"runtime_variant"`
	Inputs    []string `json:"runtime_inputs"`
	ConstGot  string   `json:"constant_variant_result"`
	RuntimeGo string   `json:"runtime_variant_result"`
}

var c12Consumers = []string{"asis", "additive", "divisive", "comparing", "shifting", "not"}

// wrap the folded expression ec / its run-time twin ed into the consumer.
func c12Consume(cons string, k, n int, isBool bool, ec, ed *c12Expr, cv *big.Int) (*c12Expr, *c12Expr, int, int, bool) {
	rk, rn := k, n
	if isBool {
		rk, rn = 2, 1
	}
	switch cons {
	case "asis":
		return ec, ed, rk, rn, true
	case "not":
		if !isBool {
			return nil, nil, 0, 0, false
		}
		return c12NotE(ec), c12NotE(ed), 2, 1, true
	}
	if isBool {
		return nil, nil, 0, 0, false
	}
	c := c12InE("c", k, n, cv)
	switch cons {
	case "additive":
		return c12BinE(0, ec, c), c12BinE(0, ed, c), k, n, true
	case "divisive":
		return c12BinE(3, c, ec), c12BinE(3, c, ed), k, n, true
	case "comparing":
		return c12BinE(11, c, ec), c12BinE(11, c, ed), 2, 1, true
	case "shifting":
		one := c12LitE(big.NewInt(1))
		return c12BinE(10, ec, one), c12BinE(10, ed, one), k, n, true
	}
	return nil, nil, 0, 0, false
}

// c12Meta describes the fold a case is about; it is sent to the model, which
// evaluates Fold.fold_ok_class / fold_exact_class on it, and class() computes
// the same predicate here (the correspondence check compares the two on every
// case): 2 = inside fold_exact_class, 1 = inside fold_ok_class only, 0 = outside.
type c12Meta struct {
	code   int // 0..18 binary operator, 19 unary minus, 20 !, 21 none
	k, n   int
	a, b   *big.Int // operand values (signed); for shifts b = count
	fa, fb int      // 1: negative operand written T(-x)
}

func c12NoMeta() c12Meta { return c12Meta{code: 21, a: big.NewInt(0), b: big.NewInt(0)} }

func (m c12Meta) sx() SX {
	return L(I(m.code), I(m.k), I(m.n), Big(m.a), Big(m.b), I(m.fa), I(m.fb))
}

func c12Reprb(k, n int, a *big.Int) bool {
	switch k {
	case 1:
		return a.Sign() >= 0 && a.Cmp(c12Pow(n)) < 0
	case 0:
		return a.Cmp(new(big.Int).Neg(c12Pow(n-1))) >= 0 && a.Cmp(c12Pow(n-1)) < 0
	}
	return a.Sign() == 0 || a.Cmp(big.NewInt(1)) == 0
}

// Fold.contb (Fold.blen a) for a >= 0
func c12Cont(a *big.Int) int {
	mb := a.BitLen()
	if mb < 1 {
		mb = 1
	}
	if mb > 64 {
		return mb
	}
	if mb > 32 {
		return 64
	}
	return 32
}
func c12Canon(n int, a *big.Int) bool { return a.Sign() >= 0 || n == 32 || n == 64 || n > 64 }
func c12Contv(n int, a *big.Int) int {
	if a.Sign() < 0 {
		return n
	}
	return c12Cont(a)
}
func c12CmpExact(n int, a *big.Int) bool {
	if a.Sign() < 0 {
		return n <= 64
	}
	return a.Cmp(c12Pow(31)) < 0 || (a.Cmp(c12Pow(32)) >= 0 && a.Cmp(c12Pow(63)) < 0)
}
func c12CountOk(b *big.Int) bool { return b.Sign() >= 0 && b.Cmp(c12Pow(31)) < 0 }

// Fold.fold_ok_class
func c12FoldOk(op, k, n int, a, b *big.Int) bool {
	if k == 2 {
		return (op == 15 || op == 16 || op == 17 || op == 18) && n == 1 && c12Reprb(2, 1, a) && c12Reprb(2, 1, b)
	}
	isShift := op == 9 || op == 10
	if !(n > 0 && c12Reprb(k, n, a) && c12Canon(n, a)) {
		return false
	}
	if isShift {
		if !c12CountOk(b) {
			return false
		}
	} else if !(c12Reprb(k, n, b) && c12Canon(n, b)) {
		return false
	}
	p63 := c12Pow(63)
	M := c12Contv(n, a)
	if x := c12Contv(n, b); x > M {
		M = x
	}
	isCmp := op >= 11 && op <= 16
	if n <= 64 {
		switch {
		case op == 1 || op == 2 || (op >= 5 && op <= 9):
			return true
		case op == 0:
			if M == n {
				return true
			}
			mn := M
			if n < mn {
				mn = n
			}
			return a.Sign() >= 0 && b.Sign() >= 0 && a.Cmp(p63) < 0 && b.Cmp(p63) < 0 &&
				new(big.Int).Add(a, b).Cmp(c12Pow(mn)) < 0
		case op == 3 || op == 4:
			return a.Sign() >= 0 && b.Sign() >= 0 && a.Cmp(p63) < 0 && b.Cmp(p63) < 0
		case op == 10:
			return a.Sign() >= 0 && a.Cmp(p63) < 0
		case isCmp:
			return c12CmpExact(n, a) && c12CmpExact(n, b)
		}
		return false
	}
	switch {
	case op == 2 || (op >= 5 && op <= 9):
		return true
	case op == 0 || op == 1:
		return n-1 <= M
	case op == 10:
		return a.Sign() >= 0
	case isCmp:
		return c12CmpExact(n, a) && c12CmpExact(n, b)
	}
	return false
}

func (m c12Meta) class() int {
	exactW := m.n == 32 || m.n >= 64
	switch {
	case m.code < 0 || m.code > 20:
		return 0
	case m.code == 20:
		return 2
	case m.code == 19:
		if m.a.Sign() < 0 && m.fa == 1 {
			return 0
		}
		if !(m.k != 2 && m.n > 0 && c12Reprb(m.k, m.n, m.a) && c12Canon(m.n, m.a)) {
			return 0
		}
		if exactW {
			return 2
		}
		return 1
	}
	isShift := m.code == 9 || m.code == 10
	if (m.a.Sign() < 0 && m.fa == 1) || (!isShift && m.b.Sign() < 0 && m.fb == 1) {
		return 0
	}
	if !c12FoldOk(m.code, m.k, m.n, m.a, m.b) {
		return 0
	}
	if (m.code >= 11 && m.code <= 18) || exactW {
		return 2
	}
	return 1
}

// c12CommittedWideDivMod: the value the COMMITTED folder gives "a / b" (code 3) or
// "a % b" (code 4) at a declared width above 64 bits (known finding F6g):
// mpa.Int.Div/Mod build circuits.NewIDivider on inputs as wide as the operands'
// own containers (32 / 64 / BitLen, or the declared width for -T(x)), i.e. the
// signed divider at width nn = max(container a, container b).  The finding key
// records whether the folded value IS this value; any other wrong value at the
// same site is a different defect and gets an unlisted key.  nil: not computed
// (a negative operand written T(-x)).
func c12CommittedWideDivMod(m c12Meta) *big.Int {
	if (m.a.Sign() < 0 && m.fa == 1) || (m.b.Sign() < 0 && m.fb == 1) {
		return nil
	}
	nn := c12Contv(m.n, m.a)
	if x := c12Contv(m.n, m.b); x > nn {
		nn = x
	}
	mod := c12Pow(nn)
	half := c12Pow(nn - 1)
	wire := func(v *big.Int) *big.Int { // the operand's container as an unsigned number
		if v.Sign() < 0 {
			return new(big.Int).Mod(new(big.Int).Add(c12Pow(m.n), v), mod)
		}
		return new(big.Int).Mod(v, mod)
	}
	x, y := wire(m.a), wire(m.b)
	sx, sy := x.Cmp(half) >= 0, y.Cmp(half) >= 0
	abs := func(v *big.Int, neg bool) *big.Int {
		if !neg {
			return v
		}
		return new(big.Int).Mod(new(big.Int).Sub(mod, v), mod)
	}
	ax, ay := abs(x, sx), abs(y, sy)
	var q, r *big.Int
	if ay.Sign() == 0 {
		q, r = new(big.Int).Sub(mod, big.NewInt(1)), ax
	} else {
		q, r = new(big.Int).Quo(ax, ay), new(big.Int).Rem(ax, ay)
	}
	if m.code == 4 {
		return r.Mod(r, mod)
	}
	q.Mod(q, mod)
	if sx != sy {
		q = new(big.Int).Mod(new(big.Int).Neg(q), mod)
	}
	return q
}

type c12Opnd struct {
	v    *big.Int
	form int
}

// c12Classify: the highest-ranked sign class among the operands, the run-time
// value of the folded sub-expression and the consumer's run-time operand; the
// suffix tells which of them carries it.
func c12Classify(k, n int, ops []c12Opnd, res, cv *big.Int) string {
	if k == 2 {
		return "bool"
	}
	best, sfx, score := "nonneg", "", -1
	// ties: an operand written T(-x) outranks -T(x), then the folded value, then c
	tagScore := map[string]int{"(T(-x))": 4, "(-T(x))": 3, "": 2, "(result)": 1, "(c)": 0}
	hasMTB := false
	consider := func(v *big.Int, tag string) {
		cl := c12SignClass(k, n, v)
		hasMTB = hasMTB || cl == "mpa-top-bit"
		sc := c12Rank[cl]*10 + tagScore[tag]
		if cl == "nonneg" {
			sc = 0
			tag = ""
		}
		if sc > score {
			best, sfx, score = cl, tag, sc
		}
	}
	for _, o := range ops {
		tag := ""
		if o.v.Sign() < 0 {
			tag = []string{"(-T(x))", "(T(-x))"}[o.form]
		}
		consider(o.v, tag)
	}
	if res != nil {
		consider(res, "(result)")
	}
	if cv != nil {
		consider(cv, "(c)")
	}
	if hasMTB && best != "mpa-top-bit" {
		sfx += "+mpa-top-bit"
	}
	return best + sfx
}

func runC12(c *Ctx) error {
	// developer knob: C12_ONLY=eval|doors|bind|calls|multi|nest runs one family only
	switch os.Getenv("C12_ONLY") {
	case "eval":
		runC12Eval(c)
		return nil
	case "doors":
		runC12Doors(c)
		return nil
	case "bind":
		runC12Bind(c)
		return nil
	case "calls":
		runC12Calls(c)
		return nil
	case "multi":
		runC12Multi(c)
		return nil
	case "nest":
		runC12Nest(c)
		return nil
	}
	widths := []int{1, 2, 7, 8, 9, 31, 32, 33, 63, 64, 65, 127, 128, 129, 130}
	if !c.Thorough() {
		widths = []int{1, 8, 31, 32, 33, 64, 65, 128}
	}
	pairsPer := c.N(5, 24)
	extraConsumers := c.N(1, 4)
	nPrograms := 0
	nFolded, nNotFolded := 0, 0
	// F6g discriminator of the current group (set by its as-is pair): does the folded
	// wide div/mod value equal what the committed folder computes?
	divDisc := ""

	// one (constant variant, run-time variant) pair; classOf gets the run-time
	// variant's output (nil when it did not produce one).
	doPair := func(opName, kName string, n int, classOf func(res *big.Int) string, cons string,
		ec, ed *c12Expr, rk, rn, defK int, meta c12Meta) c12Outcome {
		cls := meta.class()
		// is this program inside the region the Coq theorems cover?  as-is / !E
		// need fold_ok_class, a consumer with a run-time operand needs the exact
		// width (fold_exact_class); a nested constant fold (E >> 1) is a second fold
		// and is not claimed.
		inside := ((cons == "asis" || cons == "not") && cls >= 1) ||
			((cons == "additive" || cons == "divisive" || cons == "comparing") && cls == 2)
		path, wcls := c12WidthClass(n)
		srcC, inC := c12Program(ec, rk, rn, defK, n)
		srcD, inD := c12Program(ed, rk, rn, defK, n)
		oc := c12Run(srcC, inC)
		od := c12Run(srcD, inD)
		nPrograms += 2
		c.Case(L(I(rk), I(rn), ec.sx(), meta.sx()), oc.sx(cls))
		c.Case(L(I(rk), I(rn), ed.sx(), meta.sx()), od.sx(cls))
		if inside {
			c.Hist("inside-proved-class:" + opName)
		} else {
			c.Hist("outside-proved-class:" + opName)
		}
		opClass := classOf(od.val)
		wantOps := 0
		if cons == "additive" || cons == "divisive" || cons == "comparing" {
			wantOps = 1
		}
		folded := oc.kind != 0 || oc.nOps == wantOps
		if oc.kind == 0 {
			if folded {
				nFolded++
			} else {
				nNotFolded++
				c.Note("not folded: %s", strings.ReplaceAll(srcC, "\n", " | "))
			}
		}
		c.Hist("op:" + opName)
		c.Hist("type:" + kName + ":" + wcls)
		c.Hist("consumer:" + cons)
		c.Hist("values:" + opClass)
		c.Hist(fmt.Sprintf("const-outcome:%d", oc.kind))
		c.Hist(fmt.Sprintf("runtime-outcome:%d", od.kind))
		c.Eval(srcC, folded && od.kind == 0)
		if nPrograms <= 10 {
			c.Sample(map[string]string{"constant": srcC, "runtime": srcD, "const_result": oc.String(), "runtime_result": od.String()})
		}
		var ins []string
		for _, v := range inD {
			ins = append(ins, v.String())
		}
		rp := c12Replay{Seed: c.Seed, Const: srcC, Runtime: srcD, Inputs: ins, ConstGot: oc.String(), RuntimeGo: od.String()}
		base := fmt.Sprintf("c12:%s:%s:%s:%s:%s:%s", opName, kName, opClass, path, wcls, cons)
		wrongSym := ":wrong-value"
		if (meta.code == 3 || meta.code == 4) && n > 64 {
			if cons == "asis" {
				if exp := c12CommittedWideDivMod(meta); exp != nil {
					divDisc = "unlisted"
					if oc.kind == 0 && oc.val.Cmp(new(big.Int).Mod(exp, c12Pow(n))) == 0 {
						divDisc = "committed"
					}
				}
			}
			// "wrong-value" (the key F6g lists) now MEANS: the folded value is exactly
			// the committed folder's container-width signed-divider value; any other
			// wrong value at this site is unlisted
			if divDisc == "unlisted" {
				wrongSym = ":unlisted-wrong-value"
			}
		}
		if inside {
			// never matched by a known finding: a failure inside the proved class
			// means the model (hence the theorem's object) and the compiler disagree
			base = "c12:inside-proved-class:" + base[4:]
		}
		switch {
		case oc.kind == 2:
			c.Fail(base+":panic", fmt.Sprintf("constant folding panics the compiler (%s)", oc.text), rp)
		case od.kind == 2:
			c.Fail(base+":runtime-panic", fmt.Sprintf("run-time variant panics the compiler (%s)", od.text), rp)
		case od.kind != 0:
			// the run-time variant does not compile: outside the property's domain
			c.Hist("runtime-variant-rejected")
		case oc.kind == 1:
			c.Fail(base+":compile-error", "constant variant is rejected ("+oc.text+") but the run-time variant computes "+od.val.String(), rp)
		case oc.val.Cmp(od.val) != 0:
			c.Fail(base+wrongSym, "folded result "+oc.val.String()+" differs from the circuit's "+od.val.String(), rp)
		}
		return od
	}

	// the as-is pair first (its run-time output classifies the folded value),
	// then the other consumers
	doGroup := func(opName string, k, n int, isBool bool, ec, ed *c12Expr, ops []c12Opnd, consList []string, cv *big.Int, meta c12Meta) {
		kName := []string{"int", "uint", "bool"}[k]
		var inner *big.Int
		first := true
		divDisc = ""
		for _, cons := range consList {
			pc, pd, rk, rn, ok := c12Consume(cons, k, n, isBool, ec, ed, cv)
			if !ok {
				continue
			}
			usesC := cons == "additive" || cons == "divisive" || cons == "comparing"
			classOf := func(res *big.Int) string {
				r0 := inner
				if first && cons == "asis" && res != nil && !isBool {
					r0 = c12Signed(k, n, res)
				}
				var cc *big.Int
				if usesC {
					cc = cv
				}
				return c12Classify(k, n, ops, r0, cc)
			}
			od := doPair(opName, kName, n, classOf, cons, pc, pd, rk, rn, k, meta)
			if first && cons == "asis" && od.kind == 0 && !isBool {
				inner = c12Signed(k, n, od.val)
			}
			first = false
		}
	}

	for _, n := range widths {
		for k := 0; k < 2; k++ {
			r := c.rng.Fork()
			vals := c12Values(r, k, n)
			pickForm := func(v c12Val) int {
				if v.class == "min" {
					return 1
				}
				return r.Intn(2)
			}
			// ---- binary operators
			for op := 0; op <= 16; op++ {
				isShift := op == 9 || op == 10
				isBool := op >= 11
				for p := 0; p < pairsPer; p++ {
					va := vals[(p+op)%len(vals)]
					if p >= len(vals) {
						va = vals[r.Intn(len(vals))]
					}
					vb := vals[r.Intn(len(vals))]
					oa := c12Opnd{va.v, pickForm(va)}
					ob := c12Opnd{vb.v, pickForm(vb)}
					var ec, ed *c12Expr
					var ops []c12Opnd
					meta := c12Meta{code: op, k: k, n: n, a: oa.v, b: ob.v, fa: oa.form, fb: ob.form}
					if isShift {
						counts := []int{0, 1, 7, n - 1, n, n + 1, 31, 32, 33, 63, 64, 70}
						cnt := counts[r.Intn(len(counts))]
						if cnt < 0 {
							cnt = 0
						}
						lit := c12LitE(big.NewInt(int64(cnt)))
						meta.b, meta.fb = big.NewInt(int64(cnt)), 0
						ec = c12BinE(op, c12Operand(k, n, oa.v, oa.form), lit)
						ed = c12BinE(op, c12InE("a", k, n, oa.v), lit)
						ops = []c12Opnd{oa}
					} else {
						ec = c12BinE(op, c12Operand(k, n, oa.v, oa.form), c12Operand(k, n, ob.v, ob.form))
						ed = c12BinE(op, c12InE("a", k, n, oa.v), c12InE("b", k, n, ob.v))
						ops = []c12Opnd{oa, ob}
					}
					cv := vals[r.Intn(len(vals))].v
					consList := []string{"asis"}
					for x := 0; x < extraConsumers; x++ {
						cn := "not"
						if !isBool {
							cn = c12Consumers[1+(p+op+x)%4]
						}
						dup := false
						for _, o := range consList {
							dup = dup || o == cn
						}
						if !dup {
							consList = append(consList, cn)
						}
					}
					doGroup(c12OpNames[op], k, n, isBool, ec, ed, ops, consList, cv, meta)
				}
			}
			// ---- unary minus
			for p := 0; p < pairsPer; p++ {
				va := vals[p%len(vals)]
				if va.class == "min" {
					continue
				}
				oa := c12Opnd{va.v, pickForm(va)}
				ec := c12NegE(c12Operand(k, n, oa.v, oa.form))
				ed := c12NegE(c12InE("a", k, n, oa.v))
				cv := vals[r.Intn(len(vals))].v
				doGroup("neg", k, n, false, ec, ed, []c12Opnd{oa}, []string{"asis", c12Consumers[1+p%4]}, cv,
					c12Meta{code: 19, k: k, n: n, a: oa.v, b: big.NewInt(0), fa: oa.form})
			}
			// ---- a typed constant on its own (cast of a literal / negated literal)
			for _, va := range vals {
				for form := 0; form < 2; form++ {
					if va.v.Sign() >= 0 && form == 1 {
						continue
					}
					if va.class == "min" && form == 0 {
						continue
					}
					ec := c12Operand(k, n, va.v, form)
					ed := c12InE("a", k, n, va.v)
					doGroup("operand", k, n, false, ec, ed, []c12Opnd{{va.v, form}}, []string{"asis"}, nil, c12NoMeta())
				}
			}
		}
	}
	// ---- boolean constants: == != && || !
	for _, op := range []int{15, 16, 17, 18} {
		for a := 0; a < 2; a++ {
			for b := 0; b < 2; b++ {
				ec := c12BinE(op, c12BoolE(a == 1), c12BoolE(b == 1))
				ed := c12BinE(op, c12InE("a", 2, 1, big.NewInt(int64(a))), c12InE("b", 2, 1, big.NewInt(int64(b))))
				doGroup(c12OpNames[op], 2, 1, true, ec, ed, nil, []string{"asis", "not"}, nil,
					c12Meta{code: op, k: 2, n: 1, a: big.NewInt(int64(a)), b: big.NewInt(int64(b))})
			}
		}
	}
	for a := 0; a < 2; a++ {
		ec := c12NotE(c12BoolE(a == 1))
		ed := c12NotE(c12InE("a", 2, 1, big.NewInt(int64(a))))
		doGroup("not", 2, 1, true, ec, ed, nil, []string{"asis"}, nil,
			c12Meta{code: 20, k: 2, n: 1, a: big.NewInt(int64(a)), b: big.NewInt(0)})
	}
	// ---- directed wide (> 64 bit) / and % folds: small and mid-size operands with
	// non-zero remainders (right at baseline: both containers have their top bit
	// clear), and operands with the container's top bit set (F6g at baseline)
	{
		r := c.rng.Fork()
		wide := []int{65, 128}
		if c.Thorough() {
			wide = []int{65, 127, 128, 129, 130}
		}
		for _, n := range wide {
			for k := 0; k < 2; k++ {
				pairs := [][2]*big.Int{
					{big.NewInt(100), big.NewInt(7)},
					{new(big.Int).Add(c12Rand(r, 20), big.NewInt(1000)), new(big.Int).Add(c12Rand(r, 9), big.NewInt(3))},
					{new(big.Int).Add(c12Rand(r, 30), c12Pow(29)), new(big.Int).Add(c12Rand(r, 12), big.NewInt(5))},
					{new(big.Int).Add(c12Rand(r, 61), c12Pow(40)), new(big.Int).Add(c12Rand(r, 45), c12Pow(33))},
					{new(big.Int).Add(c12Rand(r, 62), c12Pow(50)), new(big.Int).Add(c12Rand(r, 20), big.NewInt(11))},
					{new(big.Int).Add(c12Pow(31), c12Rand(r, 30)), big.NewInt(7)},
					{new(big.Int).Add(c12Pow(63), c12Rand(r, 62)), new(big.Int).Add(c12Rand(r, 40), big.NewInt(9))},
				}
				for pi, ab := range pairs {
					for op := 3; op <= 4; op++ {
						oa, ob := c12Opnd{ab[0], 0}, c12Opnd{ab[1], 0}
						ec := c12BinE(op, c12Operand(k, n, oa.v, 0), c12Operand(k, n, ob.v, 0))
						ed := c12BinE(op, c12InE("a", k, n, oa.v), c12InE("b", k, n, ob.v))
						meta := c12Meta{code: op, k: k, n: n, a: oa.v, b: ob.v}
						cons := []string{"asis", c12Consumers[1+(pi+op)%4]}
						doGroup(c12OpNames[op], k, n, false, ec, ed, []c12Opnd{oa, ob}, cons, c12Rand(r, n-1), meta)
					}
				}
			}
		}
	}
	// ---- totality probes: operands of different widths of the same kind (each
	// representable in its own type; the run-time variant of an arithmetic
	// operator is a type error, so only "must not panic" applies there)
	for _, mix := range [][2]int{{8, 128}, {128, 8}, {32, 65}, {64, 70}} {
		for op := 0; op <= 16; op++ {
			if op == 9 || op == 10 {
				continue
			}
			r := c.rng.Fork()
			va := new(big.Int).Sub(c12Pow(mix[0]), big.NewInt(1))
			vb := new(big.Int).Sub(c12Pow(mix[1]), big.NewInt(int64(1+r.Intn(3))))
			ec := c12BinE(op, c12Operand(1, mix[0], va, 0), c12Operand(1, mix[1], vb, 0))
			ed := c12BinE(op, c12InE("a", 1, mix[0], va), c12InE("b", 1, mix[1], vb))
			rk, rn := 1, mix[0]
			if op >= 11 {
				rk, rn = 2, 1
			}
			cls := fmt.Sprintf("mixed-width-%d-%d", mix[0], mix[1])
			doPair(c12OpNames[op], "uint", mix[0], func(*big.Int) string { return cls }, "asis", ec, ed, rk, rn, 1, c12NoMeta())
		}
	}
	runC12Multi(c)
	runC12Calls(c)
	runC12Bind(c)
	runC12Eval(c)
	runC12Doors(c)
	runC12Nest(c)
	c.Note("programs compiled: %d; constant variants with the operator folded away: %d, not folded: %d", nPrograms, nFolded, nNotFolded)
	return nil
}
