package main

// C14, front doors as CORRESPONDENCE cases (model: coq/theories/IO/ParseFile.v):
//   mode 4: circuit.IsFilename on arbitrary strings;
//   mode 5: circuit.Parse(file) on a real file stored under a generated name (suffix variants,
//           double suffixes, case variants, suffix-only names, unusual bytes) holding a valid MPCLC
//           file, a valid Bristol file, a mutated file, or missing; observed: IsFilename(path), the
//           parse class with the canonical circuit, and the Stats the parser left in the circuit
//           (all MaxWidth+1 slots) with Stats.Count / NumXOR / NumNonXOR / Circuit.Cost.
// The model receives exactly the string that is handed to the Go function (the full path).
// Implementation-side oracles (independent of the model): IsFilename agrees with the dispatch of
// Parse ("unsupported circuit format" iff !IsFilename); Parse(file) = the parser of the suffix on the
// same bytes; Stats.Count() = NumGates = number of gates, NumXOR+NumNonXOR = Count, Cost = sum of the
// per-gate costs counted from the gates.

import (
	"fmt"
	"os"
	"path/filepath"
	"runtime/debug"
	"strings"
	"time"

	"github.com/markkurossi/mpc/circuit"
)

type c14FrontReplay struct {
	Seed    uint64 `json:"seed"`
	Name    string `json:"name_hex"`
	Content string `json:"content_hex"`
	Kind    string `json:"kind"`
	Detail  string `json:"detail"`
}

func c14StatsXSX(c *circuit.Circuit) SX {
	l := make([]SX, len(c.Stats))
	for i := range c.Stats {
		l[i] = U64(c.Stats[i])
	}
	return L(L(l...), U64(c.Stats.Count()), U64(c.Stats.NumXOR()), U64(c.Stats.NumNonXOR()), U64(c.Cost()))
}

func c14ParseFile(path string) c14Out {
	ch := make(chan c14Out, 1)
	go func() {
		var o c14Out
		defer func() {
			if r := recover(); r != nil {
				o = c14Out{panicked: true, pmsg: fmt.Sprint(r), stack: string(debug.Stack())}
			}
			ch <- o
		}()
		o.c, o.err = circuit.Parse(path)
	}()
	select {
	case o := <-ch:
		return o
	case <-time.After(20 * time.Second):
		return c14Out{hang: true}
	}
}

// the harness's own reading of the documented convention (guard + oracle): 0 MPCLC, 1 Bristol, -1 none
func c14SuffixFormat(name string) int {
	switch {
	case strings.HasSuffix(name, ".mpclc"):
		return 0
	case strings.HasSuffix(name, ".bristol"), strings.HasSuffix(name, ".circ"):
		return 1
	}
	return -1
}

var c14FrontSuffixes = []string{".mpclc", ".bristol", ".circ", "", ".MPCLC", ".Circ", ".BRISTOL", ".mpclc.bak", ".circ.mpclc", ".mpclc.circ",
	".bristol.mpclc", ".mpclc.bristol", ".circ.bristol", ".bristol.circ", ".circ ", " .circ", ".circ\n", ".mpclc~", ".mpcl", ".mpclcc", ".mpclc.",
	".circ.", "..circ", ".cir", ".circc", ".bristo", ".bristoll", "mpclc", "circ", "bristol", ".txt", ".mpc", ".c", ".", ".circ.mpclc.bristol",
	".mpclc.mpclc", "\xc2\xa0.circ", ".circ\xc2\xa0", ".m\xd1\x80clc", ".mpclс"}
var c14FrontBases = []string{"x", "", "a b", "r\xc3\xa9sum\xc3\xa9", "c.mpclc", "c.circ", "c.bristol", ".", "-", "circ", "\xff\xfe", "%s", "UPPER"}
var c14FrontPieces = []string{".", "circ", "bristol", "mpclc", "c", "x", ".circ", ".mpclc", ".bristol", " ", "C", "MPCLC", "\n", "\xc3\xa9", "l", "m", "..", "/", "\x00", ""}

func c14FrontDoors(c *Ctx, validM, validB [][]byte, offer func(int, []byte, string, []byte)) {
	// own stream: the main stream of runC14 (and with it every earlier case) stays as it was
	r := NewRNG(c.Seed ^ 0xC14F0D)
	dir := filepath.Join(c.OutDir, "c14front")
	os.MkdirAll(dir, 0o755)

	// ---- mode 4: IsFilename on arbitrary strings (also with '/', NUL, empty)
	var strs []string
	for _, s := range c14FrontSuffixes {
		strs = append(strs, s, "x"+s, "dir.circ/x"+s)
	}
	for i := 0; i < c.N(120, 3000); i++ {
		n := 1 + r.Intn(4)
		s := ""
		for k := 0; k < n; k++ {
			s += c14FrontPieces[r.Intn(len(c14FrontPieces))]
		}
		strs = append(strs, s)
	}
	seenStr := map[string]bool{}
	for _, s := range strs {
		if seenStr[s] {
			continue
		}
		seenStr[s] = true
		got := circuit.IsFilename(s)
		c.Eval("f4|"+s, len(s) > 0)
		c.Hist(fmt.Sprintf("front:IsFilename:%v", got))
		c.Case(L(I(4), Bytes([]byte(s)), I(0)), L(Bool(got)))
		if want := c14SuffixFormat(s) >= 0; got != want {
			c.Fail("c14:IsFilename:suffix-convention", fmt.Sprintf("IsFilename(%q) = %v", s, got),
				c14FrontReplay{Seed: c.Seed, Name: fmt.Sprintf("%x", s), Kind: "IsFilename"})
		}
	}

	// ---- binary files (and pieces of them that keep the first byte) offered to the text parser:
	// always an error (C14_bristol_rejects_magic_byte)
	for i := 0; i < c.N(6, 60) && i < len(validM); i++ {
		bs := validM[i]
		offer(1, bs, "cross-format:mpclc-as-bristol", nil)
		for k := 0; k < 3; k++ {
			cut := 1 + r.Intn(len(bs))
			m := append(append([]byte(nil), bs[:cut]...), []string{"", "\n", " 1\n1 1\n1 1\n"}[k]...)
			offer(1, m, "cross-format:mpclc-prefix-as-bristol", nil)
			if o := c14Parse(1, m); o.class() == 0 {
				c.Fail("c14:ParseBristol:accepts-binary-file", "ParseBristol accepts bytes that start with the MPCLC magic",
					c14FrontReplay{Seed: c.Seed, Content: c14Hex(m), Kind: "cross-format"})
			}
		}
	}

	// ---- mode 5: Parse(file)
	// small valid files (keeps the case lines short)
	var small []int
	for i := range validM {
		if len(validM[i]) < 700 && len(validB[i]) < 700 {
			small = append(small, i)
		}
	}
	if len(small) == 0 {
		small = []int{0}
	}
	var names []string
	for _, b := range c14FrontBases {
		for _, s := range c14FrontSuffixes {
			if b == "x" || r.Intn(6) == 0 {
				names = append(names, b+s)
			}
		}
	}
	for i := 0; i < c.N(40, 1500); i++ {
		n := 1 + r.Intn(4)
		s := ""
		for k := 0; k < n; k++ {
			s += c14FrontPieces[r.Intn(len(c14FrontPieces))]
		}
		names = append(names, s)
	}
	seenName := map[string]bool{}
	k := 0
	for _, name := range names {
		if name == "" || name == "." || name == ".." || strings.ContainsAny(name, "/\x00") || len(name) > 200 || seenName[name] {
			continue
		}
		seenName[name] = true
		path := filepath.Join(dir, name)
		if path != dir+"/"+name { // filepath.Join cleans; the name must arrive unchanged
			path = dir + "/" + name
		}
		j := small[k%len(small)]
		k++
		sel := c14SuffixFormat(path)
		type content struct {
			kind string
			fmt  int // format the bytes were written in
			bs   []byte
			miss bool
		}
		contents := []content{{"valid-mpclc", 0, validM[j], false}, {"valid-bristol", 1, validB[j], false}, {"missing", -1, nil, true}}
		if sel == 0 {
			m, kind := c14MutMPCLC(r, validM[j], validM[small[(k+1)%len(small)]])
			contents = append(contents, content{"mut:" + kind, 0, m, false})
		} else if sel == 1 {
			m, kind := c14MutBristol(r, validB[j], validB[small[(k+1)%len(small)]])
			contents = append(contents, content{"mut:" + kind, 1, m, false})
		}
		for _, ct := range contents {
			// memory guard: the bytes must not declare a size > 10^6 to the parser the suffix selects
			if !ct.miss && (sel == 0 && !c14MPCLCSizesOK(ct.bs) || sel == 1 && !c14BristolSizesOK(ct.bs)) {
				c.Hist("front:skipped:declared-size>1e6")
				continue
			}
			os.Remove(path)
			if !ct.miss {
				if err := os.WriteFile(path, ct.bs, 0o644); err != nil {
					c.Hist("front:skipped:name-not-creatable")
					break
				}
			}
			isf := circuit.IsFilename(path)
			o := c14ParseFile(path)
			os.Remove(path)
			selName := map[int]string{0: "mpclc", 1: "bristol", -1: "none"}[sel]
			c.Eval(fmt.Sprintf("f5|%s|%s|%x", name, ct.kind, ct.bs), !ct.miss)
			c.Hist(fmt.Sprintf("front:Parse:suffix=%s:%s:%s", selName, strings.SplitN(ct.kind, ":", 2)[0], o.className()))
			rp := c14FrontReplay{Seed: c.Seed, Name: fmt.Sprintf("%x", name), Content: c14Hex(ct.bs), Kind: ct.kind}
			fail := func(key, what string) {
				rp.Detail = what
				c.Fail("c14:Parse(file):"+key, fmt.Sprintf("circuit.Parse(%q) [%s]: %s", name, ct.kind, what), rp)
			}
			if o.class() == 2 || o.class() == 4 {
				fail("panic", o.className()+" "+o.pmsg)
				if o.class() == 4 {
					continue
				}
			}
			// correspondence
			statsx := L()
			if o.class() == 0 {
				statsx = c14StatsXSX(o.c)
			}
			payload := L(Bool(!ct.miss), Bytes(ct.bs))
			c.Case(L(I(5), Bytes([]byte(path)), payload), L(Bool(isf), c14ResSX(o), statsx))

			// oracles on the implementation
			if ct.miss {
				if o.err == nil {
					fail("missing-file-accepted", "no error for a file that does not exist")
				}
				continue
			}
			unsupported := o.err != nil && o.err.Error() == "unsupported circuit format"
			if isf == unsupported {
				fail("isfilename-disagrees", fmt.Sprintf("IsFilename = %v but Parse says %v", isf, o.err))
			}
			if (sel >= 0) != isf {
				fail("suffix-convention", fmt.Sprintf("IsFilename = %v for a name with format %s", isf, selName))
			}
			if sel >= 0 {
				d := c14Parse(sel, ct.bs) // the parser of the suffix on the same bytes
				if d.class() != o.class() || c14ResSX(d).String() != c14ResSX(o).String() {
					fail("dispatch-differs", fmt.Sprintf("Parse(file) gives %s, %s on the same bytes gives %s", o.className(), c14Fmt[sel], d.className()))
				}
				if sel == ct.fmt && strings.HasPrefix(ct.kind, "valid") && o.class() != 0 {
					fail("valid-file-rejected", fmt.Sprint(o.err))
				}
				if sel == 1 && ct.fmt == 0 && o.class() == 0 {
					fail("mpclc-file-accepted-as-bristol", "a binary circuit file was read as Bristol text")
				}
			}
			if o.class() == 0 {
				if d := c14StatsOracle(o.c); d != "" {
					fail("stats", d)
				}
			}
		}
	}
}

// c14StatsOracle: what a parser must have left in Circuit.Stats, counted independently from the gates.
func c14StatsOracle(c *circuit.Circuit) string {
	var cnt [5]uint64
	var cost uint64
	for _, g := range c.Gates {
		if int(g.Op) >= len(cnt) {
			return fmt.Sprintf("gate with operation %d", g.Op)
		}
		cnt[g.Op]++
		switch g.Op {
		case circuit.AND, circuit.INV:
			cost += 2
		case circuit.OR:
			cost += 3
		}
	}
	for i := range c.Stats {
		want := uint64(0)
		if i < len(cnt) {
			want = cnt[i]
		}
		if c.Stats[i] != want {
			return fmt.Sprintf("Stats[%d] = %d, the gates say %d", i, c.Stats[i], want)
		}
	}
	if c.Stats.Count() != uint64(c.NumGates) || c.NumGates != len(c.Gates) {
		return fmt.Sprintf("Stats.Count() = %d, NumGates = %d, %d gates", c.Stats.Count(), c.NumGates, len(c.Gates))
	}
	if c.Stats.NumXOR()+c.Stats.NumNonXOR() != c.Stats.Count() {
		return "NumXOR + NumNonXOR != Count"
	}
	if c.Cost() != cost || c.Stats.Cost() != cost {
		return fmt.Sprintf("Cost() = %d, the gates say %d", c.Cost(), cost)
	}
	return ""
}
