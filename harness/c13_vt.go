package main

// Property C13, Go-value form versus text form of an input, for the size
// inference: circuit.Sizes(v) and circuit.InputSizes(text of v) must infer the
// same size, InstantiateWithSizes must build the same argument type from
// either, and a program with an unsized main() argument compiled from the
// sizes of the Go value must be the program compiled from the sizes of the
// text: same argument type / wire count, same result on the same input.
//
// This is a deterministic sweep (no randomness): every Go-value input class
// circuit.Sizes distinguishes (int8…uint64, bool, []byte, nil; string, Go
// arrays, int, float64 as the rejected classes) x boundary values {0, 1, -1,
// min, max, 2^k-1, 2^k, 2^k+1 and their negatives}.

import (
	"fmt"
	"math/big"
	"reflect"

	mpc "github.com/markkurossi/mpc"
	"github.com/markkurossi/mpc/circuit"
	"github.com/markkurossi/mpc/compiler"
	"github.com/markkurossi/mpc/compiler/utils"
	"github.com/markkurossi/mpc/types"
)

type c13Kind struct {
	name   string
	signed bool
	bits   int
}

var c13Kinds = []c13Kind{
	{"int8", true, 8}, {"int16", true, 16}, {"int32", true, 32}, {"int64", true, 64},
	{"uint8", false, 8}, {"uint16", false, 16}, {"uint32", false, 32}, {"uint64", false, 64},
}

func (k c13Kind) lo() *big.Int {
	if k.signed {
		return new(big.Int).Neg(c13Pow2(k.bits - 1))
	}
	return new(big.Int)
}

func (k c13Kind) hi() *big.Int {
	if k.signed {
		return new(big.Int).Sub(c13Pow2(k.bits-1), big.NewInt(1))
	}
	return new(big.Int).Sub(c13Pow2(k.bits), big.NewInt(1))
}

// make builds the Go value of the kind (v is in range).
func (k c13Kind) make(v *big.Int) interface{} {
	switch k.name {
	case "int8":
		return int8(v.Int64())
	case "int16":
		return int16(v.Int64())
	case "int32":
		return int32(v.Int64())
	case "int64":
		return v.Int64()
	case "uint8":
		return uint8(v.Uint64())
	case "uint16":
		return uint16(v.Uint64())
	case "uint32":
		return uint32(v.Uint64())
	default:
		return v.Uint64()
	}
}

type c13Boundary struct {
	v     *big.Int
	class string
	e2e   bool // also compile a program with the inferred sizes
}

// boundaries of one kind, each value once (first class wins).
func (k c13Kind) boundaries() []c13Boundary {
	var out []c13Boundary
	seen := map[string]bool{}
	lo, hi := k.lo(), k.hi()
	add := func(v *big.Int, class string, e2e bool) {
		if v.Cmp(lo) < 0 || v.Cmp(hi) > 0 || seen[v.String()] {
			return
		}
		seen[v.String()] = true
		out = append(out, c13Boundary{v: new(big.Int).Set(v), class: class, e2e: e2e})
	}
	add(big.NewInt(0), "zero", true)
	add(big.NewInt(1), "one", true)
	add(big.NewInt(-1), "minus-one", true)
	add(lo, "min", true)
	add(hi, "max", true)
	one := big.NewInt(1)
	for e := 1; e < 64; e++ {
		p := c13Pow2(e)
		e2e := e == 1 || e == 2 || e == 7 || e == 8 || e == 31 || e == 32 || e == 63
		add(new(big.Int).Sub(p, one), "pow2-1", e2e)
		add(p, "pow2", e2e)
		add(new(big.Int).Add(p, one), "pow2+1", false)
		n := new(big.Int).Neg(p)
		add(new(big.Int).Add(n, one), "neg-pow2+1", false)
		add(n, "neg-pow2", e2e)
		add(new(big.Int).Sub(n, one), "neg-pow2-1", e2e)
	}
	return out
}

type c13VTReplay struct {
	Kind       string `json:"go_kind"`
	Value      string `json:"go_value"`
	Text       string `json:"text"`
	Sizes      string `json:"Sizes(go value)"`
	InputSizes string `json:"InputSizes(text)"`
	Detail     string `json:"detail,omitempty"`
}

// c13Compiled is what the end-to-end comparison looks at.
type c13Compiled struct {
	err      string
	argType  string
	argBits  int
	inWires  int
	numWires int
	result   string
}

func (a c13Compiled) String() string {
	if a.err != "" {
		return "error: " + a.err
	}
	return fmt.Sprintf("argument %s (%d wires), %d input wires, %d wires in all, result %s",
		a.argType, a.argBits, a.inWires, a.numWires, a.result)
}

// c13CompileRun compiles `func main(g uint8, e T) (uint8, T)` (T = tmpl, an
// unsized type) with the evaluator's sizes, feeds g = 7 and e (as text when
// text != "", else as the Go value) and returns what was built and computed.
func c13CompileRun(tmpl string, sizes []int, text string, gv interface{}) (res c13Compiled) {
	defer func() {
		if e := recover(); e != nil {
			res = c13Compiled{err: fmt.Sprintf("panic: %v", e)}
		}
	}()
	src := "package main\n\nfunc main(g uint8, e " + tmpl + ") (uint8, " + tmpl + ") {\n\treturn g, e\n}\n"
	params := utils.NewParams()
	defer params.Close()
	circ, _, err := compiler.New(params).Compile(src, [][]int{{8}, sizes})
	if err != nil {
		return c13Compiled{err: "compile: " + err.Error()}
	}
	if len(circ.Inputs) != 2 {
		return c13Compiled{err: fmt.Sprintf("%d inputs", len(circ.Inputs))}
	}
	arg := circ.Inputs[1]
	res.argType = arg.Type.String()
	res.argBits = int(arg.Type.Bits)
	res.inWires = circ.Inputs.Size()
	res.numWires = circ.NumWires
	g, err := circ.Inputs[0].Set(nil, []interface{}{uint8(7)})
	if err != nil {
		return c13Compiled{err: "Set g: " + err.Error()}
	}
	var e *big.Int
	if text != "" {
		e, err = arg.Parse([]string{text})
	} else {
		e, err = arg.Set(nil, []interface{}{gv})
	}
	if err != nil {
		res.err = "input rejected: " + err.Error()
		return
	}
	outs, err := circ.Compute([]*big.Int{g, e})
	if err != nil {
		res.err = "Compute: " + err.Error()
		return
	}
	vals := mpc.Results(outs, circ.Outputs)
	if len(vals) == 2 {
		// the numeric value; the Go type of the result follows the width
		res.result = fmt.Sprintf("%v", vals[1])
	} else {
		res.result = fmt.Sprintf("%v", vals)
	}
	return
}

func c13SameInts(a, b []int) bool { return reflect.DeepEqual(a, b) }

// valueVsText: the deterministic sweep.
func (x *c13Run) valueVsText() {
	c := x.c
	x.i = -2
	nE2E := 0
	for _, k := range c13Kinds {
		tmpl := "uint"
		tt := types.TUint
		if k.signed {
			tmpl, tt = "int", types.TInt
		}
		for _, b := range k.boundaries() {
			gv := k.make(b.v)
			text := b.v.String()
			sv, serr := circuit.Sizes([]interface{}{gv})
			st, terr := circuit.InputSizes([]string{text})
			c.Case(L(I(2), c13GinsSX([]interface{}{gv})), c13IntsRes(sv, serr))
			c.Case(L(I(3), c13StrsSX([]string{text})), c13IntsRes(st, terr))
			c.Eval(fmt.Sprintf("value-vs-text|%s|%s", k.name, text), true)
			c.Hist("value-vs-text:" + k.name)
			c.Hist("value-vs-text-class:" + b.class)
			rp := c13VTReplay{Kind: k.name, Value: fmt.Sprintf("%s(%s)", k.name, text), Text: text,
				Sizes: fmt.Sprint(sv, serr), InputSizes: fmt.Sprint(st, terr)}
			// the one documented exception (known finding "no room for the sign bit"): for a
			// negative value Sizes sees the 64 bits of uint64(v), InputSizes the magnitude.
			// Only exactly that pattern is filed under the known key.
			knownNeg := b.v.Sign() < 0 && serr == nil && terr == nil &&
				c13SameInts(sv, []int{64}) && c13SameInts(st, []int{new(big.Int).Abs(b.v).BitLen()})
			key := fmt.Sprintf("c13:Sizes:go-value-vs-text:%s:%s", k.name, b.class)
			if knownNeg {
				key = fmt.Sprintf("c13:Sizes:TInt:no-room-for-sign-bit:go-value-vs-text:%s:%s", k.name, b.class)
			}
			if serr != nil || terr != nil {
				rp.Detail = "one of the two rejects the value"
				c.Fail(key, "Sizes / InputSizes reject an integer value", rp)
				continue
			}
			if !c13SameInts(sv, st) {
				rp.Detail = "the size inferred from the Go value differs from the size inferred from its text"
				c.Fail(key, fmt.Sprintf("Sizes(%s(%s)) = %v but InputSizes(%q) = %v", k.name, text, sv, text, st), rp)
			}
			// the unsized type instantiated from either
			ti := types.Info{Type: tt}
			vi := types.Info{Type: tt}
			ct, cv := c13Instantiate(&ti, st), c13Instantiate(&vi, sv)
			if ct != cv || (ct == 0 && !ti.Equal(vi)) {
				rp.Detail = fmt.Sprintf("unsized %s instantiated from the text: %v (code %d), from the Go value: %v (code %d)", tmpl, ti, ct, vi, cv)
				c.Fail(key, "the unsized argument type instantiated from the Go value's sizes differs from the one instantiated from the text's sizes", rp)
			}
			if !b.e2e {
				continue
			}
			// end to end: the program compiled from either
			nE2E++
			pt := c13CompileRun(tmpl, st, text, nil)
			pv := c13CompileRun(tmpl, sv, "", gv)
			c.Eval(fmt.Sprintf("value-vs-text-e2e|%s|%s", k.name, text), true)
			if pt != pv {
				rp.Detail = "program with an unsized argument: from the text: " + pt.String() + "; from the Go value: " + pv.String()
				c.Fail(key, "the program compiled from the Go value's sizes is not the program compiled from the text's sizes", rp)
			} else if pt.err == "" && pt.argBits < 1 {
				rp.Detail = "both forms give the argument no wires: " + pt.String()
				c.Fail(key, "an integer argument without wires", rp)
			}
		}
	}
	c.Note("value-vs-text sweep: %d programs pairs compiled end to end", nE2E)

	// bool: every spelling
	for _, bv := range []bool{false, true} {
		sv, serr := circuit.Sizes([]interface{}{bv})
		c.Case(L(I(2), c13GinsSX([]interface{}{bv})), c13IntsRes(sv, serr))
		texts := []string{"0", "f", "false"}
		if bv {
			texts = []string{"1", "t", "true"}
		}
		for _, text := range texts {
			st, terr := circuit.InputSizes([]string{text})
			c.Case(L(I(3), c13StrsSX([]string{text})), c13IntsRes(st, terr))
			c.Eval("value-vs-text|bool|"+text, true)
			if serr != nil || terr != nil || !c13SameInts(sv, st) {
				c.Fail(fmt.Sprintf("c13:Sizes:go-value-vs-text:bool:%v", bv),
					fmt.Sprintf("Sizes(%v) = %v but InputSizes(%q) = %v", bv, sv, text, st),
					c13VTReplay{Kind: "bool", Value: fmt.Sprint(bv), Text: text, Sizes: fmt.Sprint(sv, serr), InputSizes: fmt.Sprint(st, terr)})
			}
		}
	}

	// []byte (0x literal of the same bytes; the empty slice and nil are "_")
	el := types.Byte
	for n := 0; n <= 9; n++ {
		for _, fill := range []byte{0x00, 0xff, 0x80, 0x01} {
			if n == 0 && fill != 0 {
				continue
			}
			bs := make([]byte, n)
			for i := range bs {
				bs[i] = fill
			}
			var gvs []interface{}
			text := "_"
			class := "empty"
			if n == 0 {
				gvs = []interface{}{[]byte{}, nil}
			} else {
				gvs = []interface{}{bs}
				text = fmt.Sprintf("0x%x", bs)
				class = fmt.Sprintf("len%d", n)
			}
			for _, gv := range gvs {
				sv, serr := circuit.Sizes([]interface{}{gv})
				st, terr := circuit.InputSizes([]string{text})
				c.Case(L(I(2), c13GinsSX([]interface{}{gv})), c13IntsRes(sv, serr))
				c.Case(L(I(3), c13StrsSX([]string{text})), c13IntsRes(st, terr))
				c.Eval(fmt.Sprintf("value-vs-text|bytes|%T|%s", gv, text), true)
				kind := "bytes"
				if gv == nil {
					kind = "nil"
				}
				key := fmt.Sprintf("c13:Sizes:go-value-vs-text:%s:%s", kind, class)
				rp := c13VTReplay{Kind: kind, Value: fmt.Sprintf("%#v", gv), Text: text, Sizes: fmt.Sprint(sv, serr), InputSizes: fmt.Sprint(st, terr)}
				if serr != nil || terr != nil || !c13SameInts(sv, st) {
					c.Fail(key, fmt.Sprintf("Sizes(%#v) = %v but InputSizes(%q) = %v", gv, sv, text, st), rp)
					continue
				}
				ti := types.Info{Type: types.TSlice, ElementType: &el}
				vi := types.Info{Type: types.TSlice, ElementType: &el}
				ct, cv := c13Instantiate(&ti, st), c13Instantiate(&vi, sv)
				if ct != cv || (ct == 0 && !ti.Equal(vi)) {
					rp.Detail = fmt.Sprintf("[]byte instantiated from the text: %v, from the Go value: %v", ti, vi)
					c.Fail(key, "the unsized []byte argument instantiated from the Go value's sizes differs from the text's", rp)
				}
			}
		}
	}

	// the classes Sizes rejects must be classes Set rejects too (no text form exists)
	for _, gv := range []interface{}{"text", [4]byte{1, 2, 3, 4}, int(5), 1.5, []int{1}} {
		sv, serr := circuit.Sizes([]interface{}{gv})
		c.Case(L(I(2), c13GinsSX([]interface{}{gv})), c13IntsRes(sv, serr))
		c.Eval(fmt.Sprintf("value-vs-text|rejected|%T", gv), true)
		for _, t := range []types.Info{types.Uint32, types.Bool, {Type: types.TSlice, IsConcrete: true, Bits: 32, ArraySize: 4, ElementType: &el}} {
			_, code := c13Set(circuit.IOArg{Type: t}, []interface{}{gv})
			if serr == nil && code != 0 {
				c.Fail(fmt.Sprintf("c13:Sizes:go-value-vs-text:%T:accepted-but-Set-rejects", gv),
					"Sizes sizes a Go value of a kind Set does not accept",
					c13VTReplay{Kind: fmt.Sprintf("%T", gv), Value: fmt.Sprint(gv), Sizes: fmt.Sprint(sv, serr)})
			}
		}
	}
}
